--------------------------- MODULE DivisionsTrace ---------------------------
(* code -> spec for C45 / C44 / C41: every record is one call made on the real
   dask code together with what was observed; TLC decides each record against
   the contracts of module Divisions.  Record kinds (field `op`):

   "sdl"        sorted_division_locations            (C45)
                seq, mode, k, raised, divs, locs     labels as ranks; a division
                                                     that is no label of seq is -1
   "quantiles"  quantile divisions                   (C45)
                data, raised, divs                   ranks in the joint order of
                                                     data and result values

   "repart"     repartition(npartitions | divisions, force | partition_size)   (C44)
                idx, layout, sdivs (the source: labels of the rows in order, row
                counts of its partitions, declared divisions or <<>>), arg, obs
   "from_pandas" from_pandas(npartitions | chunksize, sort)                    (C44)
                idx, arg, obs
                obs = [raised, nparts, ndivs, divs, parts, wholeok] as produced by
                harness.frameobs.observe (rows are [rid, idx])

   "truth"      any collection, however produced                              (C41)
                obs (as above); judged by the divisions-truthfulness invariant

   A call that raised is logged with raised = the exception name and empty
   results; raising on a legal request is a failed clause ("Raised").                                                   *)
EXTENDS Divisions, TraceIO

Bad(r) ==
  CASE r.op = "sdl" ->
         IF r.raised # "" THEN {"Raised"} ELSE DivLocBad(r.seq, r.mode, r.k, r.divs, r.locs)
    [] r.op = "quantiles" ->
         IF r.raised # "" THEN {"Raised"} ELSE QuantileBad(r.data, r.divs)
    [] r.op = "repart" ->
         LET src == SrcOf(r.idx, r.layout, r.sdivs) IN
         \* a source that breaks the precondition is a harness error, reported as such
         IF ~(SumSeq(r.layout) = Len(r.idx) /\ Truthful(src)) THEN {"BadSource"} ELSE RepartBad(src, r.arg, r.obs)
    [] r.op = "from_pandas" -> FromPandasBad(r.idx, r.arg, r.obs)
    [] r.op = "truth" -> TruthBad(r.obs)
    [] OTHER -> {"UnknownOp"}

Init == TInit
Next == TNext(Bad)
=============================================================================
