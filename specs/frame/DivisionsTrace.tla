--------------------------- MODULE DivisionsTrace ---------------------------
(* code -> spec for C45 / C44 / C41: every record is one call made on the real
   dask code together with what was observed; TLC decides each record against
   the contracts of module Divisions.  Record kinds (field `op`):

   "sdl"        sorted_division_locations            (C45)
                seq, mode, k, raised, divs, locs     labels as ranks; a division
                                                     that is no label of seq is -1
   "quantiles"  quantile divisions                   (C45)
                data, raised, divs                   ranks in the joint order of
                                                     data and result values

   A call that raised is logged with raised = the exception name and empty
   results; for these operations the inputs are always legal, so raising is a
   failed clause ("Raised").                                                   *)
EXTENDS Divisions, TraceIO

Bad(r) ==
  CASE r.op = "sdl" ->
         IF r.raised # "" THEN {"Raised"} ELSE DivLocBad(r.seq, r.mode, r.k, r.divs, r.locs)
    [] r.op = "quantiles" ->
         IF r.raised # "" THEN {"Raised"} ELSE QuantileBad(r.data, r.divs)
    [] OTHER -> {"UnknownOp"}

Init == TInit
Next == TNext(Bad)
=============================================================================
