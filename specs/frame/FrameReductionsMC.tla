-------------------------- MODULE FrameReductionsMC --------------------------
(* Case enumeration for C37 (spec -> code) and design check of the reference.

   Every evaluated state is one case: a frame fill (columns, rows with rid / idx /
   cells; chosen by the harness, seeded), an operation with its parameters,
   target (frame or its first column as a series) and axis - together with the
   result the reference semantics of module FrameReductions demands.  The
   expected result does not depend on the row partitioning (that is the
   property), so it is computed once per case; ALL partitionings of n rows
   into at most MaxParts consecutive partitions (empty ones allowed) are
   exported once per row count (fam = "layouts") and the harness runs dask on
   every (case, layout) pair or a seeded sample.  split_every is not part of a
   case either: the harness varies it.

   The invariants check the reference against the decomposition every
   partition-wise implementation relies on (chunk -> combine -> aggregate),
   quantified over ALL those partitionings of the case's own frame.           *)
EXTENDS FrameReductions

CONSTANTS Fills,       \* set of [cols, kinds, rows, scol]; kinds = dtype class per column ("i" | "f"), not looked at here
          MaxParts,    \* partitionings with 1..MaxParts parts (exported to the harness)
          DesignParts, \* the decomposition invariants quantify over the partitionings with <= DesignParts parts
          MinCounts,   \* min_count values for sum / prod
          Ddofs,       \* ddof values for var / std / sem
          Ns           \* n values for nlargest / nsmallest

VARIABLES case, done, exp, out

Mk(f, fam, op, tgt, ax, sk, fl, p) ==
  [fam |-> fam, op |-> op, tgt |-> tgt, ax |-> ax, sk |-> sk, fl |-> fl, p |-> p,
   cols |-> f.cols, kinds |-> f.kinds, rows |-> f.rows, scol |-> f.scol]

\* (target, axis) pairs; a frame with a non-numeric column is only reduced as a frame
Targets(f, axes) == { <<"frame", a>> : a \in axes } \cup (IF f.scol THEN {} ELSE { <<"series", 0>> })

FoldOpP == ({"sum", "prod"} \X MinCounts) \cup ({"min", "max", "count", "any", "all"} \X {0})
RatOpP  == ({"mean"} \X {0}) \cup ({"var", "std", "sem"} \X Ddofs)

FoldCases(f) ==
  { Mk(f, "fold", o[1], t[1], t[2], sk, FALSE, o[2])
    : o \in { o \in FoldOpP : f.scol => o[1] \notin {"any", "all"} },       \* any / all take no numeric_only
      t \in Targets(f, {0, 1, 2}),
      sk \in BOOLEAN }
FoldCasesOK(c) == c.op = "count" => (c.sk /\ c.ax # 2)                        \* count has no skipna and no axis=None

RatCases(f) ==
  { Mk(f, "rat", o[1], t[1], t[2], sk, FALSE, o[2]) : o \in RatOpP, t \in Targets(f, {0, 1, 2}), sk \in BOOLEAN }
IdxCases(f) ==
  { Mk(f, "idx", o, t[1], t[2], sk, FALSE, 0) : o \in {"idxmin", "idxmax"}, t \in Targets(f, {0, 1}), sk \in BOOLEAN }
NuniqCases(f) ==
  IF f.scol THEN {} ELSE
  { Mk(f, "nuniq", "nunique", t[1], t[2], sk, FALSE, 0) : t \in Targets(f, {0, 1}), sk \in BOOLEAN }
VCCases(f) ==
  IF f.scol THEN {} ELSE
  { Mk(f, "vc", "value_counts", "series", 0, sk, fl, p) : sk \in BOOLEAN, fl \in BOOLEAN, p \in {0, 1, 2} }
ModeCases(f) ==
  { Mk(f, "mode", "mode", t[1], 0, sk, FALSE, 0) : t \in Targets(f, {0}), sk \in BOOLEAN }
TopCases(f) ==
  IF f.scol THEN {} ELSE
  { Mk(f, "top", o, t[1], 0, TRUE, FALSE, n) : o \in {"nlargest", "nsmallest"}, t \in Targets(f, {0}), n \in Ns }
LenCases(f) ==
  { Mk(f, "len", "len", t[1], 0, TRUE, FALSE, 0) : t \in Targets(f, {0}) }

CovCases(f) ==
  IF f.scol THEN {} ELSE
  { Mk(f, "cov", o, t, 0, TRUE, FALSE, 0) : o \in {"cov", "corr"}, t \in {"frame"} \cup (IF Len(f.cols) >= 2 THEN {"series"} ELSE {}) }
DescCases(f) ==
  IF f.scol THEN {} ELSE { Mk(f, "desc", "describe", t, 0, TRUE, FALSE, 0) : t \in {"frame", "series"} }

CasesOf(f) == { c \in FoldCases(f) : FoldCasesOK(c) } \cup RatCases(f) \cup IdxCases(f) \cup NuniqCases(f)
              \cup VCCases(f) \cup ModeCases(f) \cup TopCases(f) \cup LenCases(f) \cup CovCases(f) \cup DescCases(f)

RowCounts == { Len(f.rows) : f \in Fills }
LayoutCases == { [fam |-> "layouts", n |-> n] : n \in RowCounts }
\* (a constant-level table: TLC evaluates it once, not once per state and invariant)
LayTable  == [n \in RowCounts |-> Layouts(n, MaxParts)]

(* TLC generates initial states in one thread but successors in parallel: the initial states
   are one SEED per fill (plus one per row count for the layouts); the successors of a seed
   are the evaluated cases of that fill.  `done` marks evaluated states - the only ones the
   invariants speak about and the only ones whose `out` the harness reads.               *)
Seeds == { [fam |-> "seed", f |-> f] : f \in Fills } \cup LayoutCases
Init == /\ case \in Seeds
        /\ done = FALSE
        /\ exp = Failure
        /\ out = ""
Next == /\ ~done
        /\ done' = TRUE
        /\ IF case.fam = "layouts"
           THEN /\ case' = case
                /\ exp' = Failure
                /\ out' = ToJson([c |-> case, e |-> SetToSeq(LayTable[case.n])])
           ELSE \E c \in CasesOf(case.f) :
                /\ case' = c
                /\ exp' = Expected(c)
                /\ out' = ToJson([c |-> c, e |-> exp'])

-----------------------------------------------------------------------------
(* Design check.  `Judged` = an evaluated case of the families named.         *)
Judged(fams) == done /\ case.fam \in fams
FirstCol  == Col(case.rows, case.cols[1])
DesignTable == [n \in RowCounts |-> { lay \in LayTable[n] : Len(lay) <= DesignParts }]
Lay       == DesignTable[Len(case.rows)]
PartsOf(l, lay) == SplitBySizes(l, lay)
Scalar    == exp.v[1]
OneLane   == case.tgt = "series"             \* the invariants below look at the series target

\* --- the reference is a homomorphism of the partitioning (what chunk/combine/aggregate needs).
\* Partial results of the partitions, combined the way a correct implementation must: an EMPTY
\* partition contributes the neutral element (it is not an NA), an all-NA one likewise under skipna.
CombineInt(op, parts, skipna) ==
  LET partial == [b \in DOMAIN parts |-> IntFold(op, parts[b], skipna, 0)]
      live    == SelectSeq(partial, LAMBDA x : x # NA)                 \* partials that carry a value
      nonempt == { b \in DOMAIN parts : parts[b] # <<>> }
      anyNA   == \E b \in nonempt : partial[b] = NA
  IN CASE op \in {"count", "sum"} -> IF anyNA THEN NA ELSE SumSeq(live)
       [] op = "prod"  -> IF anyNA THEN NA ELSE ProdSeq(live)
       [] op = "any"   -> B(\E b \in DOMAIN partial : partial[b] = 1)
       [] op = "all"   -> B(\A b \in DOMAIN partial : partial[b] = 1)
       [] op \in {"min", "max"} ->
            IF (~skipna /\ anyNA) \/ live = <<>> THEN NA
            ELSE IF op = "min" THEN Min(Rng(live)) ELSE Max(Rng(live))
FoldDecomposes ==
  (Judged({"fold"}) /\ OneLane /\ case.p = 0) =>
     \A lay \in Lay : CombineInt(case.op, PartsOf(FirstCol, lay), case.sk) = Scalar

\* mean = (sum of partition sums) / (sum of partition counts)
MeanDecomposes ==
  (Judged({"rat"}) /\ OneLane /\ case.op = "mean" /\ case.sk) =>
     \A lay \in Lay :
        LET ps == PartsOf(FirstCol, lay)
            s  == SumSeq([b \in DOMAIN ps |-> IntFold("sum", ps[b], TRUE, 0)])
            n  == SumSeq([b \in DOMAIN ps |-> IntFold("count", ps[b], TRUE, 0)])
        IN Scalar = IF n = 0 THEN RNaN ELSE RNorm(s, n)

\* var through the pairwise update of (n, sum, M2) used by the parallel algorithm of Chan et al.:
\* M2 = M2a + M2b + (na*Sb - nb*Sa)^2 / (na*nb*(na+nb)), folded left to right over the partitions
Stat(l) == LET v == Valid(l) IN
           <<Len(v), SumSeq(v), IF v = <<>> THEN <<0, 1>> ELSE RNorm(Len(v) * SumSq(v) - SumSeq(v) * SumSeq(v), Len(v))>>
Chan(x, y) == IF x[1] = 0 THEN y ELSE IF y[1] = 0 THEN x
              ELSE LET d == x[1] * y[2] - y[1] * x[2]
                   IN <<x[1] + y[1], x[2] + y[2],
                        RAdd(RAdd(x[3], y[3]), RNorm(d * d, x[1] * y[1] * (x[1] + y[1])))>>
RECURSIVE ChanFold(_)
ChanFold(stats) == IF Len(stats) = 1 THEN stats[1]
                   ELSE ChanFold(<<Chan(stats[1], stats[2])>> \o SubSeq(stats, 3, Len(stats)))
VarDecomposes ==
  (Judged({"rat"}) /\ OneLane /\ case.op \in {"var", "std"} /\ case.sk) =>
     \A lay \in Lay :
        LET ps == PartsOf(FirstCol, lay)
            t  == ChanFold([b \in DOMAIN ps |-> Stat(ps[b])])
        IN Scalar = IF t[1] - case.p <= 0 THEN RNaN ELSE RDiv(t[3], RInt(t[1] - case.p))

\* idxmin / idxmax: the candidate (label, value) of every partition that has a valid value; the
\* first candidate holding the extreme value wins
IdxDecomposes ==
  (Judged({"idx"}) /\ OneLane /\ case.sk /\ ~exp.err) =>
     \A lay \in Lay :
        LET ps   == PartsOf(FirstCol, lay)
            ls   == PartsOf(Idxs(case.rows), lay)
            live == SelectSeq(Positions(ps), LAMBDA b : Valid(ps[b]) # <<>>)
            val(b) == IntFold(IF case.op = "idxmin" THEN "min" ELSE "max", ps[b], TRUE, 0)
            best == IF case.op = "idxmin" THEN Min({ val(live[j]) : j \in DOMAIN live })
                    ELSE Max({ val(live[j]) : j \in DOMAIN live })
            win  == live[Min({ j \in DOMAIN live : val(live[j]) = best })]
        IN IdxFold(case.op, ps[win], ls[win], TRUE) = Scalar
IdxRaisesIff ==
  (Judged({"idx"}) /\ OneLane) => (exp.err <=> (Valid(FirstCol) = <<>> \/ (~case.sk /\ HasNA(FirstCol))))

\* value counts add up over partitions; nunique counts their keys; the modes are their arg-max
VCDecomposes ==
  (Judged({"vc"}) /\ ~case.fl) =>
     /\ \A lay \in Lay :
           LET ps == PartsOf(FirstCol, lay) IN
           \A j \in DOMAIN exp.ix : exp.v[j] = SumSeq([b \in DOMAIN ps |-> CountIn(ps[b], exp.ix[j])])
     /\ SumSeq(exp.v) = VCTotal(FirstCol, case.sk)
     /\ Len(exp.ix) = NUnique(FirstCol, case.sk)
     /\ Rng(Mode(FirstCol, case.sk)) = { exp.ix[j] : j \in { j \in DOMAIN exp.ix : \A i \in DOMAIN exp.v : exp.v[i] <= exp.v[j] } }
VCNormalized ==
  (Judged({"vc"}) /\ case.fl /\ exp.v # <<>>) =>
     LET RECURSIVE RSum(_)
         RSum(s) == IF s = <<>> THEN <<0, 1>> ELSE RAdd(Head(s), RSum(Tail(s)))
     IN RSum(exp.v) = <<1, 1>>

\* top-n of the whole = top-n of the concatenated per-partition top-n (keep = first survives because
\* partitions are concatenated in order)
TopDecomposes ==
  Judged({"top"}) =>
     \A lay \in Lay :
        LET ps   == PartsOf(Positions(FirstCol), lay)                     \* global positions per partition
            tops == [b \in DOMAIN ps |->
                       LET loc == Top([j \in DOMAIN ps[b] |-> FirstCol[ps[b][j]]], case.p, case.op = "nlargest")
                       IN [j \in DOMAIN loc |-> ps[b][loc[j]]]]
            cat  == ConcatParts(tops)
            sel  == Top([j \in DOMAIN cat |-> FirstCol[cat[j]]], case.p, case.op = "nlargest")
        IN [j \in DOMAIN sel |-> cat[sel[j]]] = Top(FirstCol, case.p, case.op = "nlargest")

\* cov / corr: symmetric; cov(x, x) = var(x); |corr| <= 1 and corr(x, x) = 1 where defined; and cov
\* decomposes over partitions through the sums (n, Sx, Sy, Sxy) of the pairwise-complete rows
CovSane ==
  (Judged({"cov"}) /\ case.tgt = "frame") =>
     LET nc == Len(case.cols)
         at(i, j) == exp.v[(i - 1) * nc + j]
     IN \A i, j \in 1..nc :
           /\ at(i, j) = at(j, i)
           /\ (i = j /\ case.op = "cov") => at(i, i) = RatFold("var", Col(case.rows, case.cols[i]), TRUE, 1)
           /\ (case.op = "corr" /\ at(i, j) # RNaN) => (RAbs(at(i, j)[1]) <= at(i, j)[2] /\ (i = j => at(i, j) = <<1, 1>>))
CovDecomposes ==
  (Judged({"cov"}) /\ case.tgt = "series" /\ case.op = "cov") =>
     \A lay \in Lay :
        LET x  == FirstCol
            y  == Col(case.rows, case.cols[2])
            px == PartsOf(x, lay)
            py == PartsOf(y, lay)
            sums(b) == LET ps == PairPos(px[b], py[b]) IN
                       << Len(ps), SumSeq([j \in DOMAIN ps |-> px[b][ps[j]]]), SumSeq([j \in DOMAIN ps |-> py[b][ps[j]]]),
                          SumSeq([j \in DOMAIN ps |-> px[b][ps[j]] * py[b][ps[j]]]) >>
            tot(k) == SumSeq([b \in DOMAIN lay |-> sums(b)[k]])
        IN Scalar = IF tot(1) < 2 THEN RNaN ELSE RNorm(tot(1) * tot(4) - tot(2) * tot(3), tot(1) * (tot(1) - 1))
DescribeAgrees ==
  (Judged({"desc"}) /\ case.tgt = "series") =>
     /\ exp.v[1] = RInt(Len(Valid(FirstCol)))
     /\ exp.v[2] = RatFold("mean", FirstCol, TRUE, 0)
     /\ exp.v[3] = RatFold("var", FirstCol, TRUE, 1)

\* axis = None: the grand fold.  sum / count / mean over all cells = combined over the COLUMNS' partial results weighted
\* by their counts (not the mean of the column means), and likewise over every partitioning of the rows
GrandFold ==
  (Judged({"fold", "rat"}) /\ case.tgt = "frame" /\ case.ax = 2 /\ case.sk /\ case.p = 0 /\ case.op \in {"sum", "mean", "min", "max"}) =>
     \A lay \in Lay :
        LET cells(j, b) == PartsOf(Col(case.rows, case.cols[j]), lay)[b]
            pairs == { <<j, b>> : j \in DOMAIN case.cols, b \in DOMAIN lay }
            RECURSIVE Tot(_, _)
            Tot(S, op) == IF S = {} THEN 0 ELSE LET x == CHOOSE x \in S : TRUE
                                                IN IntFold(op, cells(x[1], x[2]), TRUE, 0) + Tot(S \ {x}, op)
            live == { x \in pairs : Valid(cells(x[1], x[2])) # <<>> }
            s == Tot(pairs, "sum")
            n == Tot(pairs, "count")
        IN CASE case.op = "sum"  -> Scalar = s
             [] case.op = "mean" -> Scalar = IF n = 0 THEN RNaN ELSE RNorm(s, n)
             [] case.op = "min"  -> Scalar = IF live = {} THEN NA ELSE Min({ IntFold("min", cells(x[1], x[2]), TRUE, 0) : x \in live })
             [] case.op = "max"  -> Scalar = IF live = {} THEN NA ELSE Max({ IntFold("max", cells(x[1], x[2]), TRUE, 0) : x \in live })

\* --- independent characterisations
CountPlusNA == (Judged({"fold"}) /\ OneLane /\ case.op = "count") =>
                  Scalar + Cardinality({ j \in DOMAIN FirstCol : FirstCol[j] = NA }) = Len(case.rows)
MeanWithin  == (Judged({"rat"}) /\ OneLane /\ case.op = "mean" /\ Scalar # RNaN) =>
                  /\ RLe(RInt(Min(Rng(Valid(FirstCol)))), Scalar)
                  /\ RLe(Scalar, RInt(Max(Rng(Valid(FirstCol)))))
VarNonNeg   == (Judged({"rat"}) /\ case.op \in {"var", "std", "sem"}) =>
                  \A j \in DOMAIN exp.v : exp.v[j] = RNaN \/ (IsRat(exp.v[j]) /\ exp.v[j][1] >= 0)
SemIsVarOverN == (Judged({"rat"}) /\ OneLane /\ case.op = "sem" /\ Scalar # RNaN) =>
                  RMul(Scalar, RInt(Len(Valid(FirstCol)))) = RatFold("var", FirstCol, case.sk, case.p)
\* axis = 1 of a single-column frame is the column itself, cell by cell
RowwiseOfOneColumn ==
  (Judged({"fold", "nuniq"}) /\ case.tgt = "frame" /\ case.ax = 1 /\ Len(case.cols) = 1 /\ case.op \in {"sum", "min", "max"}
   /\ case.sk /\ case.p = 0) =>
     \A i \in DOMAIN case.rows : exp.v[i] = (IF FirstCol[i] = NA THEN (IF case.op = "sum" THEN 0 ELSE NA) ELSE FirstCol[i])
ShapeOK == (done /\ case.fam # "layouts" /\ ~exp.err) =>
              CASE exp.k = "scalar" -> Len(exp.v) = 1
                [] exp.k = "cols"   -> Len(exp.v) = Len(case.cols) /\ Len(exp.ix) = Len(case.cols)
                [] exp.k = "rows"   -> Len(exp.v) = Len(exp.ix) /\ Len(exp.v) <= Len(case.rows)
                [] exp.k = "rids"   -> Len(exp.v) = Len(exp.ix) /\ Cardinality(Rng(exp.v)) = Len(exp.v)
                [] exp.k = "vc"     -> Len(exp.v) = Len(exp.ix)
                [] exp.k = "table"  -> Len(exp.v) % Len(case.cols) = 0
                [] exp.k = "matrix" -> Len(exp.v) = Len(case.cols) * Len(case.cols)
                [] OTHER            -> TRUE
=============================================================================
