------------------------------ MODULE FrameMeta ------------------------------
(* C42 - lazy dataframe metadata agrees with what is computed.

   A DESCRIPTION is what the property speaks about, for any pandas object or
   scalar (the lazy `_meta`, the object compute() returns, one computed
   partition):
       [kind   |-> "frame" | "series" | "index" | "scalar",
        cols   |-> <<names>>      column names in order (Series / Index: its name,
                                  "" = None; scalar: <<>>)
        dtypes |-> <<classes>>    dtype CLASS of each column (scalar: of the value)
        iname  |-> name           name of the row index ("" = None; Index / scalar: "")
        idt    |-> class          dtype class of the row index ("" for Index / scalar)
        rows   |-> n]             number of rows (scalar: 1; `_meta`: 0)
   Dtype classes, not exact dtypes: "b" bool, "i" signed, "u" unsigned, "f" float,
   "c" complex, "M" datetime, "m" timedelta, "cat" category, "s" string-like
   (object and the pandas-3 str dtype are ONE class, so the string storage of the
   environment cannot raise an alarm), "o" anything else.

   The invariant (thin specification, thick traces): for every collection a
   program produces, the description of `_meta` equals the description of the
   computed object and of every separately computed partition, and the number of
   partitions computed equals `npartitions`.  Differ names the fields in which
   two descriptions disagree.

   Don't-care: the dtype classes of an object WITHOUT ROWS (an empty partition,
   an empty result).  pandas chooses several result dtypes from the data (map,
   apply, where, concat, reductions), and what a kernel returns for zero rows
   is an artefact of pandas - dask itself drops empty partitions before it
   concatenates "because pandas frequently has inconsistent dtypes in results
   between empty and non-empty frames" (dask/dataframe/core.py::_concat).  Kind,
   column names and index name are demanded of empty objects too.
   For the same reason a single PARTITION may hold integers where the metadata
   says float: a float column that is float only because of missing values
   (map with unmatched keys, where, outer alignment) arrives as integers from a
   partition in which nothing is missing; likewise booleans where the metadata
   says object (bool + missing value = object).  The computed whole must still
   agree.                                                                      *)
EXTENDS Naturals, Sequences, FiniteSets

Kinds        == {"frame", "series", "index", "scalar"}
DtypeClasses == {"b", "i", "u", "f", "c", "M", "m", "cat", "s", "o"}

IsDescription(d) ==
  /\ d.kind \in Kinds
  /\ Len(d.cols) = Len(d.dtypes) \/ (d.kind = "scalar" /\ d.cols = <<>> /\ Len(d.dtypes) = 1)
  /\ \A j \in DOMAIN d.dtypes : d.dtypes[j] \in DtypeClasses
  /\ d.kind \in {"series", "index"} => Len(d.cols) = 1
  /\ d.kind \in {"index", "scalar"} => (d.iname = "" /\ d.idt = "")
  /\ d.kind \in {"frame", "series"} => d.idt \in DtypeClasses \cup {"multi"}

DtypesAgree(meta, obj, part) ==
  /\ Len(meta) = Len(obj)
  /\ \A j \in DOMAIN meta : \/ obj[j] = meta[j]
                             \/ (part /\ meta[j] = "f" /\ obj[j] \in {"i", "u"})
                             \/ (part /\ meta[j] = "s" /\ obj[j] = "b")

\* clause names for the whole computed object / for a computed partition
Differ(meta, obj, part) ==
     (IF obj.kind   = meta.kind   THEN {} ELSE {IF part THEN "PKind"   ELSE "Kind"})
  \cup (IF obj.cols   = meta.cols   THEN {} ELSE {IF part THEN "PCols"   ELSE "Cols"})
  \cup (IF obj.rows = 0 \/ DtypesAgree(meta.dtypes, obj.dtypes, part) THEN {} ELSE {IF part THEN "PDtypes" ELSE "Dtypes"})
  \cup (IF obj.iname  = meta.iname  THEN {} ELSE {IF part THEN "PIName"  ELSE "IName"})
  \cup (IF obj.rows = 0 \/ obj.idt = meta.idt THEN {} ELSE {IF part THEN "PIDtype" ELSE "IDtype"})

\* an observation [meta, whole, parts, nparts, ndivs] of one collection (nparts = .npartitions, ndivs = len(.divisions) - 1,
\* parts = the partitions of the optimized graph, each computed through its own key)
MetaBad(o) ==
  Differ(o.meta, o.whole, FALSE)
  \cup UNION { Differ(o.meta, o.parts[i], TRUE) : i \in DOMAIN o.parts }
  \* npartitions = number of partitions actually built = len(divisions) - 1
  \cup (IF o.nparts = Len(o.parts) /\ o.ndivs = o.nparts THEN {} ELSE {"NParts"})

MetaOK(o) == MetaBad(o) = {}
=============================================================================
