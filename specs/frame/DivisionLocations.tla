-------------------------- MODULE DivisionLocations --------------------------
(* C45, design check + case enumeration.

   An implementation-shaped PlusCal transcription of
       dask.dataframe.io.io.sorted_division_locations(seq, npartitions | chunksize)
   (the drift / residual / enforce_exact branches, one step per loop iteration,
   same variable names as the Python code), run by TLC from EVERY initial state
   of the bounded input space
       seq  in  all non-decreasing sequences of length 1..MaxLen over 0..Alphabet-1
       mode in  {"n", "c"},  k in 1..MaxK.
   TLC proves on that space: the transcription terminates, never indexes out of
   range (Python's negative-index wrap-around would be a TLC error here), and
   its result meets the contract DivLocBad of module Divisions
   (transcription => contract).  Every terminal state carries
       out = JSON [c |-> case, e |-> [divs, locs]]
   so the harness can (i) feed the same case to the real function and have the
   contract decided by TLC on the recorded call (DivisionsTrace), and (ii)
   compare the real result with the transcription's, which shows the
   transcription is the code that was proved (a mismatch is reported in the
   evidence as `transcription_stale`, it is not a property violation).

   Python positions are 0-based: At(p) is Python's seq[p].                     *)
EXTENDS Divisions, TLC, Json

CONSTANTS MaxLen, Alphabet, MaxK

None == -99

Inputs == UNION { SortedSeqs(n, 0, Alphabet - 1) : n \in 1..MaxLen }

(* --fair algorithm SortedDivisionLocations
variables
  seq \in Inputs, mode \in {"n", "c"}, k \in 1..MaxK,
  divisions = <<>>, locations = <<>>,
  i = 0, ind = None, drift = 0, divsRemain = None,
  done = FALSE, out = "{}";
define
  At(p)        == seq[p + 1]
  N            == Len(seq)
  \* seq_unique = sorted(set(seq)), 0-based access
  Uniq         == SetToSortSeq(SeqSet(seq), LAMBDA a, b : a < b)
  Duplicates   == Len(Uniq) < N
  NOffsets     == Len(Uniq)
  \* offsets[j] = bisect_left(seq, seq_unique[j]) = first position of that label
  Offsets      == [j \in 0..(NOffsets - 1) |-> Min({ p \in 0..(N - 1) : At(p) = Uniq[j + 1] })]
  \* bisect_left(seq_unique, x) for an x that occurs in seq
  IndexOf(x)   == Cardinality({ j \in 1..NOffsets : Uniq[j] < x })
  EnforceExact == Duplicates /\ mode = "n" /\ NOffsets >= k
  ChunkSize    == IF mode = "n" THEN N \div k ELSE k
  Residual     == IF mode = "n" THEN N % k ELSE 0
  SubtractDrift == mode = "n"
  ChunkSizes(j) == ChunkSize + (IF j < Residual THEN 1 ELSE 0)
  Max2(a, b)   == IF a >= b THEN a ELSE b
  LastOf(s)    == s[Len(s)]
end define;
begin
Setup:
  divisions  := <<At(0)>>;
  locations  := <<0>>;
  i          := ChunkSizes(0);
  divsRemain := IF EnforceExact THEN k - 1 ELSE None;
Loop:
  while i < N do
    \* ind cache; the enforce_exact step back ("avoid over-stepping too many
    \* unique values"); div / pos of the candidate
    with ind1   = IF Duplicates /\ ind = None THEN IndexOf(At(i)) ELSE ind,
         back   = Duplicates /\ EnforceExact /\ divsRemain > NOffsets - ind1,
         ind2   = IF back THEN ind1 - (divsRemain - (NOffsets - ind1)) ELSE ind1,
         i2     = IF back THEN Offsets[ind2] ELSE i,
         div    = At(i2),
         pos    = IF Duplicates THEN Offsets[ind2] ELSE i2
    do
      if div <= LastOf(divisions) then
        \* pos overlaps with divisions: try the next element / next distinct label
        if Duplicates then
          ind := ind2 + 1;
          i   := IF ind2 + 1 < NOffsets THEN Offsets[ind2 + 1] ELSE N;
        else
          i := i2 + 1;
        end if;
      else
        with drift2 = IF SubtractDrift
                      THEN drift + ((pos - LastOf(locations)) - ChunkSizes(Len(divisions) - 1))
                      ELSE drift
        do
          drift := drift2;
          if EnforceExact then divsRemain := divsRemain - 1; end if;
          i := pos + Max2(1, ChunkSizes(Len(divisions)) - drift2);
          divisions := Append(divisions, div);
          locations := Append(locations, pos);
          ind := None;
        end with;
      end if;
    end with;
  end while;
Finish:
  divisions := Append(divisions, At(N - 1));
  locations := Append(locations, N);
  done := TRUE;
  out := ToJson([c |-> [seq |-> seq, mode |-> mode, k |-> k],
                 e |-> [divs |-> divisions, locs |-> locations]]);
end algorithm; *)
\* BEGIN TRANSLATION
VARIABLES pc, seq, mode, k, divisions, locations, i, ind, drift, divsRemain, 
          done, out

(* define statement *)
At(p)        == seq[p + 1]
N            == Len(seq)

Uniq         == SetToSortSeq(SeqSet(seq), LAMBDA a, b : a < b)
Duplicates   == Len(Uniq) < N
NOffsets     == Len(Uniq)

Offsets      == [j \in 0..(NOffsets - 1) |-> Min({ p \in 0..(N - 1) : At(p) = Uniq[j + 1] })]

IndexOf(x)   == Cardinality({ j \in 1..NOffsets : Uniq[j] < x })
EnforceExact == Duplicates /\ mode = "n" /\ NOffsets >= k
ChunkSize    == IF mode = "n" THEN N \div k ELSE k
Residual     == IF mode = "n" THEN N % k ELSE 0
SubtractDrift == mode = "n"
ChunkSizes(j) == ChunkSize + (IF j < Residual THEN 1 ELSE 0)
Max2(a, b)   == IF a >= b THEN a ELSE b
LastOf(s)    == s[Len(s)]


vars == << pc, seq, mode, k, divisions, locations, i, ind, drift, divsRemain, 
           done, out >>

Init == (* Global variables *)
        /\ seq \in Inputs
        /\ mode \in {"n", "c"}
        /\ k \in 1..MaxK
        /\ divisions = <<>>
        /\ locations = <<>>
        /\ i = 0
        /\ ind = None
        /\ drift = 0
        /\ divsRemain = None
        /\ done = FALSE
        /\ out = "{}"
        /\ pc = "Setup"

Setup == /\ pc = "Setup"
         /\ divisions' = <<At(0)>>
         /\ locations' = <<0>>
         /\ i' = ChunkSizes(0)
         /\ divsRemain' = IF EnforceExact THEN k - 1 ELSE None
         /\ pc' = "Loop"
         /\ UNCHANGED << seq, mode, k, ind, drift, done, out >>

Loop == /\ pc = "Loop"
        /\ IF i < N
              THEN /\ LET ind1 == IF Duplicates /\ ind = None THEN IndexOf(At(i)) ELSE ind IN
                        LET back == Duplicates /\ EnforceExact /\ divsRemain > NOffsets - ind1 IN
                          LET ind2 == IF back THEN ind1 - (divsRemain - (NOffsets - ind1)) ELSE ind1 IN
                            LET i2 == IF back THEN Offsets[ind2] ELSE i IN
                              LET div == At(i2) IN
                                LET pos == IF Duplicates THEN Offsets[ind2] ELSE i2 IN
                                  IF div <= LastOf(divisions)
                                     THEN /\ IF Duplicates
                                                THEN /\ ind' = ind2 + 1
                                                     /\ i' = (IF ind2 + 1 < NOffsets THEN Offsets[ind2 + 1] ELSE N)
                                                ELSE /\ i' = i2 + 1
                                                     /\ ind' = ind
                                          /\ UNCHANGED << divisions, locations, 
                                                          drift, divsRemain >>
                                     ELSE /\ LET drift2 == IF SubtractDrift
                                                           THEN drift + ((pos - LastOf(locations)) - ChunkSizes(Len(divisions) - 1))
                                                           ELSE drift IN
                                               /\ drift' = drift2
                                               /\ IF EnforceExact
                                                     THEN /\ divsRemain' = divsRemain - 1
                                                     ELSE /\ TRUE
                                                          /\ UNCHANGED divsRemain
                                               /\ i' = pos + Max2(1, ChunkSizes(Len(divisions)) - drift2)
                                               /\ divisions' = Append(divisions, div)
                                               /\ locations' = Append(locations, pos)
                                               /\ ind' = None
                   /\ pc' = "Loop"
              ELSE /\ pc' = "Finish"
                   /\ UNCHANGED << divisions, locations, i, ind, drift, 
                                   divsRemain >>
        /\ UNCHANGED << seq, mode, k, done, out >>

Finish == /\ pc = "Finish"
          /\ divisions' = Append(divisions, At(N - 1))
          /\ locations' = Append(locations, N)
          /\ done' = TRUE
          /\ out' = ToJson([c |-> [seq |-> seq, mode |-> mode, k |-> k],
                            e |-> [divs |-> divisions', locs |-> locations']])
          /\ pc' = "Done"
          /\ UNCHANGED << seq, mode, k, i, ind, drift, divsRemain >>

(* Allow infinite stuttering to prevent deadlock on termination. *)
Terminating == pc = "Done" /\ UNCHANGED vars

Next == Setup \/ Loop \/ Finish
           \/ Terminating

Spec == /\ Init /\ [][Next]_vars
        /\ WF_vars(Next)

Termination == <>(pc = "Done")

\* END TRANSLATION

-----------------------------------------------------------------------------
(* Design check                                                               *)

\* transcription => contract, on every case of the bounded space
MeetsContract == done => DivLocBad(seq, mode, k, divisions, locations) = {}

\* loop invariants of the Python code that the contract rests on (checked in
\* every reachable state, not only at the end)
LoopInv ==
  (pc = "Loop") =>
     /\ Len(divisions) = Len(locations) /\ Len(locations) >= 1
     /\ locations[1] = 0
     /\ StrictlyIncreasing(locations) /\ StrictlyIncreasing(divisions)
     /\ \A j \in DOMAIN locations : locations[j] < N /\ divisions[j] = At(locations[j])
     /\ i > LastOf(locations)
     /\ (EnforceExact => divsRemain = k - Len(divisions))

\* the cached ind always names the label at position i
IndCache == (pc = "Loop" /\ ind # None /\ i < N) => (ind \in 0..(NOffsets - 1) /\ Uniq[ind + 1] = At(i))

\* documented examples of the docstring (letters A.. = 0..)
DocExamples ==
  done =>
    /\ (seq = <<0, 1, 2, 3, 4, 5>> /\ mode = "c" /\ k = 2) => (divisions = <<0, 2, 4, 5>> /\ locations = <<0, 2, 4, 6>>)
    /\ (seq = <<0, 0, 0, 0, 1, 1, 1, 2>> /\ mode = "c" /\ k \in {2, 3}) => (divisions = <<0, 1, 2, 2>> /\ locations = <<0, 4, 7, 8>>)
    /\ (seq = <<0>> /\ mode = "c" /\ k = 2) => (divisions = <<0, 0>> /\ locations = <<0, 1>>)
=============================================================================
