------------------------------- MODULE Joins -------------------------------
(* C39 - joins and concatenation equal pandas: reference semantics over row ids.

   An OPERAND ROW is a record [rid, idx, k, k2] (Frames.tla rows plus the key
   column k and a second key column k2 for multi-column joins); rid >= 1 is
   unique within its frame and is carried through the
   real operation as an ordinary column (lrid on the left, rrid on the right),
   so every output row names the input rows it came from; 0 = "no row".
   Cells are small integers or NA (= 99: a missing key MATCHES a missing key,
   as in pandas, and sorts last).  The other cells of the real frames are
   functions of the rid (LVal, RVal, CellVal), so a cell that ends up in the
   wrong row or under the wrong name is visible.

   Nothing here depends on how the operands are partitioned, on declared
   divisions, on the join strategy (hash / broadcast / partition-wise), the
   shuffle method, the number of output partitions, or on what the operands went
   through BEFORE the join (see PRE-PARTITIONED OPERANDS): that is the property.
   Row ORDER is only demanded where pandas and dask both promise it (MergeSeq
   for index-aligned joins of sorted operands with known divisions, ConcatRows
   for axis-0 concatenation that does not interleave, AsofPairs).            *)
EXTENDS Frames, TLC

NoRow  == 0
Absent == 0 - 1       \* a column that does not exist in the observed frame (harness projection)

\* ascending sequence of a finite set of integers (NA = 99 sorts last, as pandas sorts NaN keys last)
Asc(S) == SetToSortSeq(S, LAMBDA a, b : a < b)

-----------------------------------------------------------------------------
(* MERGE / JOIN.   mode = <left key><right key>, c = the column k, i = the index:
     "cc"  merge(on = "k")  or  merge(left_on = "k", right_on = "kr")
     "ii"  merge(left_index, right_index)  /  DataFrame.join(other)
     "ic"  merge(left_index, right_on = "k")      "ci"  merge(left_on = "k", right_index)
     "kk"  merge(on = ["k", "k2"])  or  merge(left_on = ["k", "k2"], right_on = ["kr", "kr2"]): the key is the PAIR  *)
Hows  == {"inner", "left", "right", "outer", "leftsemi"}
Modes == {"cc", "ii", "ic", "ci", "kk"}
\* leftsemi needs the right key to be a column (documented NotImplementedError otherwise)
HowsOf(mode) == IF mode \in {"cc", "ic", "kk"} THEN Hows ELSE Hows \ {"leftsemi"}

LKey(row, mode) == IF mode \in {"ii", "ic"} THEN row.idx ELSE IF mode = "kk" THEN <<row.k, row.k2>> ELSE row.k
RKey(row, mode) == IF mode \in {"ii", "ci"} THEN row.idx ELSE IF mode = "kk" THEN <<row.k, row.k2>> ELSE row.k
\* the key cell of a side that contributes no row
NoKey(mode) == IF mode = "kk" THEN <<NA, NA>> ELSE NA

\* positions of the partner rows: equal keys match - duplicates multiply, NA = NA
RightOf(L, R, mode, i) == { j \in DOMAIN R : LKey(L[i], mode) = RKey(R[j], mode) }
LeftOf(L, R, mode, j)  == { i \in DOMAIN L : LKey(L[i], mode) = RKey(R[j], mode) }
Matches(L, R, mode)    == { p \in (DOMAIN L) \X (DOMAIN R) : LKey(L[p[1]], mode) = RKey(R[p[2]], mode) }
LeftOnly(L, R, mode)   == { i \in DOMAIN L : RightOf(L, R, mode, i) = {} }
RightOnly(L, R, mode)  == { j \in DOMAIN R : LeftOf(L, R, mode, j) = {} }

\* the result as a set of position pairs <<i | 0, j | 0>>
PosPairs(L, R, how, mode) ==
  LET mt == Matches(L, R, mode)
      lo == { <<i, 0>> : i \in LeftOnly(L, R, mode) }
      ro == { <<0, j>> : j \in RightOnly(L, R, mode) }
  IN CASE how = "inner"    -> mt
       [] how = "left"     -> mt \cup lo
       [] how = "right"    -> mt \cup ro
       [] how = "outer"    -> mt \cup lo \cup ro
       [] how = "leftsemi" -> { <<p[1], 0>> : p \in mt }      \* every matching left row ONCE, left columns only

\* the other cells of the real operands
LVal(rid) == 10 + rid
RVal(rid) == 20 + rid

(* One output row, as the tuple <<l, r, m, kl, kr, kc, vx, vy>>:
     l, r    the rids of the contributing rows (0 = none)
     m       the indicator: 0 both, 1 left_only, 2 right_only
     kl, kr  the key cell of the left / right row (NA when there is none; a pair <<k, k2>> in mode "kk")
     kc      the coalesced key (what pandas puts into a shared key column / the joined index)
     vx, vy  the overlapping value column of either side (NA when there is no row)                   *)
OutRow(L, R, how, mode, p) ==
  LET i == p[1]   j == p[2]
      kl == IF i = 0 THEN NoKey(mode) ELSE LKey(L[i], mode)
      kr == IF j = 0 THEN NoKey(mode) ELSE RKey(R[j], mode)
  IN << IF i = 0 THEN NoRow ELSE L[i].rid,
        IF j = 0 THEN NoRow ELSE R[j].rid,
        IF how = "leftsemi" THEN 0 ELSE IF j = 0 THEN 1 ELSE IF i = 0 THEN 2 ELSE 0,
        kl, kr,
        IF i # 0 THEN kl ELSE kr,
        IF i = 0 THEN NA ELSE LVal(L[i].rid),
        IF j = 0 THEN NA ELSE RVal(R[j].rid) >>

\* THE RESULT OF A MERGE: a set of output rows (rids are unique, so the set is the multiset)
MergeRows(L, R, how, mode) == { OutRow(L, R, how, mode, p) : p \in PosPairs(L, R, how, mode) }

(* Which cells of an output row are judged.  `naming` = "on" (one shared key column / joined index:
   the coalesced key), "lr" (two key columns k and kr), "none" (index-with-column joins: where pandas
   puts the key is an artefact of pandas this property does not speak about).                         *)
Mask(naming) == << 1, 1, 1, IF naming = "lr" THEN 1 ELSE 0, IF naming = "lr" THEN 1 ELSE 0, IF naming = "on" THEN 1 ELSE 0, 1, 1 >>
Judged(t, naming, indicator) ==
  [q \in 1..8 |-> IF Mask(naming)[q] = 1 /\ (q # 3 \/ indicator) THEN t[q] ELSE 0]
NamingsOf(mode) == IF mode \in {"cc", "kk"} THEN {"on", "lr"} ELSE IF mode = "ii" THEN {"on"} ELSE {"none"}

(* PRE-PARTITIONED OPERANDS.  `pre` = [how, on] says what an operand went through before the join:
     [how |-> "none", on |-> <<>>]    nothing: a freshly built collection
     how = "shuffle"    hash-shuffled on the columns `on` (K')
     how = "merge"      the result of an earlier inner hash join on K' with a frame that holds every K' combination once
     how = "groupby"    the result of groupby(K', dropna = FALSE).first(split_out = n).reset_index(); the rows are distinct on K'
     how = "setindex"   set_index on (a copy of) the single column K'
   `on` is a sequence over {"k", "k2", "v", "rid"} and stands in ANY relation to the join keys K: equal, a proper subset,
   a proper superset, overlapping, disjoint.  Every such stage returns the same multiset of rows (that is what a
   shuffle is), it only leaves partitioning knowledge behind - and NOTHING of the semantics below looks at `pre`:
   partitioning knowledge may let dask skip work, it must never change a result.                                *)
NoPre == [how |-> "none", on |-> <<>>]
ColOf(row, c) == CASE c = "k" -> row.k [] c = "k2" -> row.k2 [] OTHER -> row.rid       \* "v" is a function of the rid
PreKey(row, on) == [q \in DOMAIN on |-> ColOf(row, on[q])]
\* what the harness has to respect when it builds such an operand
PreOK(rows, pre) ==
  CASE pre.how = "none"     -> pre.on = <<>>
    [] pre.how = "groupby"  -> pre.on # <<>> /\ \A i, j \in DOMAIN rows : i # j => PreKey(rows[i], pre.on) # PreKey(rows[j], pre.on)
    [] pre.how = "setindex" -> Len(pre.on) = 1 /\ \A i \in DOMAIN rows : ColOf(rows[i], pre.on[1]) # NA
    [] pre.how \in {"shuffle", "merge"} -> pre.on # <<>>
    [] OTHER -> FALSE
KeyCols(mode) == IF mode = "kk" THEN {"k", "k2"} ELSE IF mode = "cc" THEN {"k"} ELSE {}
PreRelation(pre, mode) ==
  LET kp == SeqSet(pre.on)   kk == KeyCols(mode) IN
  IF pre.how = "none" THEN "none" ELSE IF kp = kk THEN "equal" ELSE IF kp \subseteq kk THEN "subset"
  ELSE IF kk \subseteq kp THEN "superset" ELSE IF kp \cap kk # {} THEN "overlap" ELSE "disjoint"

\* name of a clause if it fails (the same shape as TraceIO!Clause; this module does not depend on TraceIO)
Fails(name, holds) == IF holds THEN {} ELSE {name}

\* an observed row sequence is the same multiset as the expected row set
BagIsSet(s, S) == Len(s) = Cardinality(S) /\ SeqSet(s) = S

(* ORDER, where it is promised: both operands have a sorted UNIQUE index and are joined on it.  pandas:
   inner/left keep the order of the left keys, right keeps the order of the right keys, outer sorts the
   keys - for such operands that is: the joined index is in key order.  (With duplicate labels pandas'
   own index join is not in key order, so nothing is promised there beyond truthful divisions.)
   MergeSeq is written for arbitrary operands (within one key the left rows vary slowest for inner /
   left / outer, the right rows for right); what is compared is the key sequence, KeySeqOf.            *)
LeftMajor(L, R, mode, keep) ==
  ConcatParts([i \in DOMAIN L |->
     LET js == Asc(RightOf(L, R, mode, i))
     IN IF js = <<>> THEN (IF keep THEN << <<i, 0>> >> ELSE <<>>) ELSE [q \in DOMAIN js |-> <<i, js[q]>>]])
RightMajor(L, R, mode) ==
  ConcatParts([j \in DOMAIN R |->
     LET is == Asc(LeftOf(L, R, mode, j))
     IN IF is = <<>> THEN << <<0, j>> >> ELSE [q \in DOMAIN is |-> <<is[q], j>>]])
ByKey(L, R, mode) ==
  LET ks == Asc({ LKey(L[i], mode) : i \in DOMAIN L } \cup { RKey(R[j], mode) : j \in DOMAIN R })
      li(v) == Asc({ i \in DOMAIN L : LKey(L[i], mode) = v })
      rj(v) == Asc({ j \in DOMAIN R : RKey(R[j], mode) = v })
      of(v) == IF li(v) = <<>> THEN [q \in DOMAIN rj(v) |-> <<0, rj(v)[q]>>]
               ELSE IF rj(v) = <<>> THEN [q \in DOMAIN li(v) |-> <<li(v)[q], 0>>]
               ELSE ConcatParts([a \in DOMAIN li(v) |-> [b \in DOMAIN rj(v) |-> <<li(v)[a], rj(v)[b]>>]])
  IN ConcatParts([q \in DOMAIN ks |-> of(ks[q])])
SeqPairs(L, R, how, mode) ==
  CASE how = "inner" -> LeftMajor(L, R, mode, FALSE)
    [] how = "left"  -> LeftMajor(L, R, mode, TRUE)
    [] how = "right" -> RightMajor(L, R, mode)
    [] how = "outer" -> ByKey(L, R, mode)
MergeSeq(L, R, how, mode) ==
  LET ps == SeqPairs(L, R, how, mode) IN [q \in DOMAIN ps |-> OutRow(L, R, how, mode, ps[q])]

\* the coalesced keys of a sequence of output rows
KeySeqOf(ts) == [q \in DOMAIN ts |-> ts[q][6]]

SortedNoNA(f) == SortedByIdx(f) /\ \A i \in DOMAIN f : f[i].idx # NA
UniqueSortedIdx(f) == StrictlyIncreasing(Idxs(f)) /\ \A i \in DOMAIN f : f[i].idx # NA
\* the order clause applies to index-index joins whose operands have a sorted unique index and declare known divisions
OrderPromised(L, R, how, mode, lknown, rknown) ==
  mode = "ii" /\ how # "leftsemi" /\ lknown /\ rknown /\ UniqueSortedIdx(L) /\ UniqueSortedIdx(R)

(* What a recorded merge call violates.  obs = harness.frameobs-style observation whose rows are
   [t |-> <<l, r, m, kl, kr, kc, vx, vy>>, idx |-> label]; a cell the harness cannot find is Absent.     *)
ObsRows(obs)   == ConcatParts(obs.parts)
ObsTuples(obs) == LET rs == ObsRows(obs) IN [q \in DOMAIN rs |-> rs[q].t]
ObsLabelParts(obs) == [b \in DOMAIN obs.parts |-> [q \in DOMAIN obs.parts[b] |-> obs.parts[b][q].idx]]
ObsTruthful(obs) == obs.divs # <<>> => DivisionsTruthful(obs.divs, ObsLabelParts(obs))

MergeBad(r) ==
  LET obs == r.obs
      want == { Judged(t, r.naming, r.ind) : t \in MergeRows(r.L, r.R, r.how, r.mode) }
      got  == [q \in DOMAIN ObsTuples(obs) |-> Judged(ObsTuples(obs)[q], r.naming, r.ind)]
      wseq == LET s == MergeSeq(r.L, r.R, r.how, r.mode) IN [q \in DOMAIN s |-> Judged(s[q], r.naming, r.ind)]
  IN IF r.how \notin HowsOf(r.mode) \/ r.naming \notin NamingsOf(r.mode) \/ ~PreOK(r.L, r.lpre) \/ ~PreOK(r.R, r.rpre) THEN {"BadCase"}
     ELSE IF obs.raised # "" THEN {"Raised"}
     ELSE Fails("Rows", BagIsSet(got, want))
          \cup Fails("Order", OrderPromised(r.L, r.R, r.how, r.mode, r.lknown, r.rknown) /\ BagIsSet(got, want) => KeySeqOf(got) = KeySeqOf(wseq))
          \cup Fails("Meta", obs.nparts = Len(obs.parts) /\ obs.ndivs = obs.nparts + 1)
          \cup Fails("Truthful", ObsTruthful(obs))
          \cup Fails("WholeOK", obs.wholeok)

-----------------------------------------------------------------------------
(* CONCAT along the rows (axis 0).  A FRAME here is [cols |-> subset of {"a","b","c"}, rows |-> <<[rid, idx], ...>>]
   and the real frame f additionally carries the columns fid (= f) and rid.  Cell of column c in row rid of
   frame f: CellVal(f, c, rid).                                                                          *)
ColNames == <<"a", "b", "c">>
ColIx(c) == CHOOSE q \in DOMAIN ColNames : ColNames[q] = c
CellVal(f, c, rid) == 30 * (ColIx(c) - 1) + 10 * (f - 1) + rid

ConcatCols(frames, join) ==
  IF join = "outer" THEN UNION { frames[f].cols : f \in DOMAIN frames }
  ELSE { c \in SeqSet(ColNames) : \A f \in DOMAIN frames : c \in frames[f].cols }

\* one output row as the tuple <<f, rid, idx, a, b, c>>: a column the result does not have is Absent,
\* a column the source frame does not have is NA
ConcatRow(frames, join, f, q) ==
  LET row == frames[f].rows[q]
      cell(c) == IF c \notin ConcatCols(frames, join) THEN Absent
                 ELSE IF c \in frames[f].cols THEN CellVal(f, c, row.rid) ELSE NA
  IN <<f, row.rid, row.idx, cell("a"), cell("b"), cell("c")>>

\* THE RESULT OF concat(frames, axis=0, join): the rows of the frames, frame after frame, each in its own order
ConcatRows(frames, join) ==
  ConcatParts([f \in DOMAIN frames |-> [q \in DOMAIN frames[f].rows |-> ConcatRow(frames, join, f, q)]])

(* When every operand has known divisions that do not follow one another and interleave_partitions is
   set, dask merges the operands partition by partition along the union of the divisions: the rows are
   then promised as a multiset only (plus truthful divisions).  fdivs = the declared divisions of the
   operands (<<>> = unknown).                                                                            *)
MonotonicDivs(fdivs) ==
  /\ \A f \in DOMAIN fdivs : fdivs[f] # <<>>
  /\ \A f \in 1..(Len(fdivs) - 1) : fdivs[f][Len(fdivs[f])] < fdivs[f + 1][1]
Interleaves(fdivs, interleave) ==
  interleave /\ (\A f \in DOMAIN fdivs : fdivs[f] # <<>>) /\ ~MonotonicDivs(fdivs)

\* known, non-overlapping, ordered operand divisions are simply chained
ChainedDivs(fdivs) ==
  ConcatParts([f \in DOMAIN fdivs |-> IF f < Len(fdivs) THEN SubSeq(fdivs[f], 1, Len(fdivs[f]) - 1) ELSE fdivs[f]])

ConcatBad(r) ==
  LET obs  == r.obs
      want == ConcatRows(r.frames, r.join)
      got  == ObsTuples(obs)
  IN IF obs.raised # "" THEN {"Raised"}
     ELSE Fails("Rows", SameBag(got, want))
          \cup Fails("Order", (~Interleaves(r.fdivs, r.interleave) /\ SameBag(got, want)) => got = want)
          \cup Fails("Meta", obs.nparts = Len(obs.parts) /\ obs.ndivs = obs.nparts + 1)
          \cup Fails("Truthful", ObsTruthful(obs))
          \cup Fails("WholeOK", obs.wholeok)

-----------------------------------------------------------------------------
(* CONCAT along the columns (axis 1) of two frames with UNIQUE index labels: an outer / inner join on
   the index; tuple <<idx, l, r>>.  Row order is not judged (pandas keeps first-seen order, dask the
   order of the divisions).                                                                              *)
ConcatColsRows(L, R, join) ==
  LET both == { <<L[p[1]].idx, L[p[1]].rid, R[p[2]].rid>> : p \in Matches(L, R, "ii") }
  IN IF join = "inner" THEN both
     ELSE both \cup { <<L[i].idx, L[i].rid, NoRow>> : i \in LeftOnly(L, R, "ii") }
               \cup { <<R[j].idx, NoRow, R[j].rid>> : j \in RightOnly(L, R, "ii") }
UniqueIdx(f) == \A i, j \in DOMAIN f : i # j => f[i].idx # f[j].idx

ConcatColsBad(r) ==
  LET obs == r.obs
      got == ObsTuples(obs)
  IN IF ~(UniqueIdx(r.L) /\ UniqueIdx(r.R)) THEN {"BadCase"}
     ELSE IF obs.raised # "" THEN {"Raised"}
     ELSE Fails("Rows", BagIsSet(got, ConcatColsRows(r.L, r.R, r.join)))
          \cup Fails("Meta", obs.nparts = Len(obs.parts) /\ obs.ndivs = obs.nparts + 1)
          \cup Fails("Truthful", ObsTruthful(obs))
          \cup Fails("WholeOK", obs.wholeok)

-----------------------------------------------------------------------------
(* MERGE_ASOF on a key that is sorted and free of NA on both sides.  Rows are [rid, idx, k, b]: idx / k is
   the "on" key (mode "cc": the column k, "ii": the index), b the optional `by` column.  Every left row
   appears exactly once, in left order, with the one right row chosen by (direction, allow_exact_matches,
   tolerance, by) or none: the tuple <<l, r>>.  tol = NA means no tolerance.                             *)
AsofOK(L, R, mode, i, j, direction, exact, tol, by) ==
  LET a == LKey(L[i], mode)
      c == RKey(R[j], mode)
      d == IF c <= a THEN a - c ELSE c - a
  IN /\ by => L[i].b = R[j].b
     /\ exact \/ a # c
     /\ tol = NA \/ d <= tol
     /\ CASE direction = "backward" -> c <= a
          [] direction = "forward"  -> c >= a
          [] OTHER -> TRUE
AsofPick(L, R, mode, i, direction, exact, tol, by) ==
  LET cand == { j \in DOMAIN R : AsofOK(L, R, mode, i, j, direction, exact, tol, by) }
      a == LKey(L[i], mode)
      dist(j) == LET c == RKey(R[j], mode) IN IF c <= a THEN a - c ELSE c - a
      near == { j \in cand : \A h \in cand : dist(j) <= dist(h) }
      back == { j \in near : RKey(R[j], mode) <= a }
  IN IF cand = {} THEN 0
     \* backward: the LAST row of the nearest key at or below; forward: the FIRST row of the nearest key at or
     \* above; nearest: the backward choice wins a tie of distances
     ELSE CASE direction = "backward" -> Max(near)
            [] direction = "forward"  -> Min(near)
            [] OTHER -> IF back # {} THEN Max(back) ELSE Min(near)
AsofPairs(L, R, mode, direction, exact, tol, by) ==
  [i \in DOMAIN L |-> << L[i].rid,
                         LET j == AsofPick(L, R, mode, i, direction, exact, tol, by) IN IF j = 0 THEN NoRow ELSE R[j].rid >>]

SortedKeys(f, key(_)) == \A i \in 1..(Len(f) - 1) : key(f[i]) <= key(f[i + 1])
AsofDomain(L, R, mode) ==
  /\ SortedKeys(L, LAMBDA row : LKey(row, mode)) /\ SortedKeys(R, LAMBDA row : RKey(row, mode))
  /\ \A i \in DOMAIN L : LKey(L[i], mode) # NA
  /\ \A j \in DOMAIN R : RKey(R[j], mode) # NA

AsofBad(r) ==
  LET obs == r.obs
      got == LET ts == ObsTuples(obs) IN [q \in DOMAIN ts |-> <<ts[q][1], ts[q][2]>>]
      want == AsofPairs(r.L, r.R, r.mode, r.direction, r.exact, r.tol, r.by)
  IN IF ~AsofDomain(r.L, r.R, r.mode) THEN {"BadCase"}
     ELSE IF obs.raised # "" THEN {"Raised"}
     ELSE Fails("Rows", SameBag(got, want))
          \cup Fails("Order", SameBag(got, want) => got = want)
          \cup Fails("Meta", obs.nparts = Len(obs.parts) /\ obs.ndivs = obs.nparts + 1)
          \cup Fails("Truthful", ObsTruthful(obs))
          \cup Fails("WholeOK", obs.wholeok)
=============================================================================
