------------------------------ MODULE ShuffleMC ------------------------------
(* Case enumeration for C40 (spec -> code) and design check of the contracts.

   Initial states are seeds (family, row count, slice); their successors are the
   cases with what module Shuffle demands of the result:

   shuffle   rows x on in {k, (k,k2), index}: the key classes that have to stay
             together (npartitions_out and ignore_index are configurations)
   sort      rows x by in {k, (k,k2)} x ascending (per column) x na_position:
             the key sequence of the sorted result
   setindex  rows x drop x (npartitions | user divisions | sorted=True):
             the sorted new index, and for user divisions the rows of every
             output partition
   dedup     rows x subset x keep: the surviving rows; unique / nunique of k
   pre       order-free operations (drop_duplicates, unique / nunique, shuffle) and
             sort_values on PRE-PARTITIONED sources: a salted sample of frames x
             operations x pre-stages (shuffle / earlier hash join / groupby with
             split_out / set_index on columns K' in every relation to the columns
             of the operation).  Same expectation as for a fresh source.
   layouts   all row partitionings with <= MaxParts parts (empty ones included)

   rows = every key sequence over Keys \cup {NA} for k (all of them up to Full
   rows, a salted 1 / Mod hash sample up to MaxN), three patterns for k2, two
   for the index.  Nothing depends on the partitioning, npartitions_in, the
   shuffle method, max_branch, split_out or the key dtype: the harness crosses
   the cases with them.                                                       *)
EXTENDS Shuffle, Json

CONSTANTS Fams, Keys, MaxN, Full, Mod, Salt, MaxParts, MaxBranchIn,
          PreMod       \* pre: 1 / PreMod of the (frame, operation, pre-stage) triples

VARIABLES sc, sd, se, sout
svars == <<sc, sd, se, sout>>

KeysNA == Keys \cup {NA}

RECURSIVE HashSeq(_)
HashSeq(s) == IF s = <<>> THEN 7 ELSE (HashSeq(Tail(s)) * 5 + Head(s) + 1) % 1009

SeqsTable == [n \in 0..MaxN |-> AllSeqs(n, KeysNA)]
Bucket == [n \in 0..MaxN |-> [x \in 0..(Mod - 1) |-> { ks \in SeqsTable[n] : (HashSeq(ks) + Salt) % Mod = x }]]
\* key sequences of length n in slice sl (of 4): everything when n <= Full, bucket 0 of the salted hash otherwise
KeySeqs(n, sl) == IF n <= Full THEN { ks \in SeqsTable[n] : HashSeq(ks) % 4 = sl }
                  ELSE { ks \in Bucket[n][0] : HashSeq(ks) % 4 = sl }

K2(p, i)  == CASE p = 0 -> 0 [] p = 1 -> i % 2 [] OTHER -> (i \div 2) % 2
Idx(q, i) == IF q = 0 THEN i - 1 ELSE (i - 1) \div 2
MkRows(ks, p, q) == [i \in DOMAIN ks |-> [rid |-> i, idx |-> Idx(q, i), k |-> ks[i], k2 |-> K2(p, i)]]
\* the row sets of one seed: all patterns for small frames, one pattern (picked by the hash) for the sampled ones
RowSets(n, sl) ==
  UNION { { MkRows(ks, p, q) : p \in (IF n <= Full THEN 0..2 ELSE {HashSeq(ks) % 3}), q \in (IF n <= Full THEN 0..1 ELSE {(HashSeq(ks) \div 3) % 2}) }
          : ks \in KeySeqs(n, sl) }

Seeds == { [fam |-> f, n |-> n, sl |-> sl] : f \in Fams \ {"layouts"}, n \in 0..MaxN, sl \in 0..3 }
         \cup (IF "layouts" \in Fams THEN { [fam |-> "layouts", n |-> n, sl |-> 0] : n \in 0..MaxN } ELSE {})

PreOns == << <<"k">>, <<"k2">>, <<"k", "k2">>, <<"k", "rid">>, <<"k", "k2", "rid">>, <<"rid">> >>
PreMenu ==
  LET of(how) == [q \in DOMAIN PreOns |-> [how |-> how, on |-> PreOns[q]]]
  IN of("shuffle") \o of("merge") \o of("groupby") \o SelectSeq(of("setindex"), LAMBDA pr : Len(pr.on) = 1)
\* the operations run on pre-partitioned sources, with their expectation
PreOps(rows) ==
  UNION { { <<[fam |-> "dedup", rows |-> rows, op |-> "drop_duplicates", subset |-> sb, keep |-> kp], [rids |-> Rids(DropDuplicates(rows, sb, kp))]>>
            : sb \in {"k", "kk", "all"} } : kp \in {"first", "last"} }
  \cup { <<[fam |-> "dedup", rows |-> rows, op |-> "unique", subset |-> "k", keep |-> "first"],
           [values |-> UniqueValues(rows), count |-> <<NUnique(rows, TRUE), NUnique(rows, FALSE)>>]>> }
  \cup { <<[fam |-> "shuffle", rows |-> rows, on |-> on], [classes |-> KeyClasses(rows, on)]>> : on \in {"k", "kk"} }
  \cup { <<[fam |-> "sort", rows |-> rows, by |-> "k", asc |-> <<TRUE>>, naf |-> FALSE], [keys |-> SortedKeySeq(rows, "k", <<TRUE>>, FALSE)]>> }

Init == sc \in Seeds /\ sd = FALSE /\ se = <<>> /\ sout = ""
Emit(c, e) == sc' = c /\ se' = e /\ sout' = ToJson([c |-> c, e |-> e])

AscSets(by) == IF by = "k" THEN { <<TRUE>>, <<FALSE>> } ELSE { <<TRUE, TRUE>>, <<TRUE, FALSE>>, <<FALSE, TRUE>>, <<FALSE, FALSE>> }
NoNA(rows) == \A i \in DOMAIN rows : rows[i].k # NA
SortedK(rows) == NoNA(rows) /\ NonDecreasing([i \in DOMAIN rows |-> rows[i].k])
\* user divisions: strictly increasing, 1..3 partitions, over the key range widened by one
UserDivs == { d \in UNION { AllSeqs(m, (0 - 1)..(Max(Keys) + 1)) : m \in 2..4 } : StrictlyIncreasing(d) }

Next ==
  /\ ~sd
  /\ sd' = TRUE
  /\ CASE sc.fam = "layouts" -> Emit(sc, SetToSeq(Layouts(sc.n, MaxParts)))
       [] sc.fam = "pre" ->
            \E rows \in RowSets(sc.n, sc.sl), a \in DOMAIN PreMenu :
               /\ Len(rows) >= 2 /\ PreOK(rows, PreMenu[a])
               /\ \E oe \in PreOps(rows) :
                     /\ ((HashSeq([i \in DOMAIN rows |-> rows[i].k]) + HashSeq(Idxs(rows)) * 3 + a * 7 + Len(oe[1].fam) * 5
                           + (IF "subset" \in DOMAIN oe[1] THEN Len(oe[1].subset) * 11 + Len(oe[1].keep) ELSE 0) + Salt) % PreMod) = 0
                     /\ Emit(oe[1] @@ [pre |-> PreMenu[a]], oe[2])
       [] sc.fam = "shuffle" ->
            \E rows \in RowSets(sc.n, sc.sl), on \in {"k", "kk", "idx"} :
               LET c == [fam |-> "shuffle", rows |-> rows, on |-> on, pre |-> NoPre] IN Emit(c, [classes |-> KeyClasses(rows, on)])
       [] sc.fam = "sort" ->
            \E rows \in RowSets(sc.n, sc.sl), by \in {"k", "kk"}, naf \in BOOLEAN :
               \E asc \in AscSets(by) :
                  LET c == [fam |-> "sort", rows |-> rows, by |-> by, asc |-> asc, naf |-> naf, pre |-> NoPre]
                  IN Emit(c, [keys |-> SortedKeySeq(rows, by, asc, naf)])
       [] sc.fam = "setindex" ->
            \E rows \in RowSets(sc.n, sc.sl), drop \in BOOLEAN :
               \/ LET c == [fam |-> "setindex", rows |-> rows, drop |-> drop, how |-> "auto", udivs |-> <<>>, pre |-> NoPre]
                  IN Emit(c, [idxs |-> [p \in DOMAIN rows |-> SortedKeySeq(rows, "k", <<TRUE>>, FALSE)[p][1]], parts |-> <<>>])
               \/ /\ SortedK(rows) /\ rows # <<>>
                  /\ LET c == [fam |-> "setindex", rows |-> rows, drop |-> drop, how |-> "sorted", udivs |-> <<>>, pre |-> NoPre]
                     IN Emit(c, [idxs |-> [i \in DOMAIN rows |-> rows[i].k], parts |-> <<>>])
               \/ \E d \in UserDivs :
                     /\ NoNA(rows) /\ rows # <<>> /\ CoversLabels(d, rows)
                     /\ LET c == [fam |-> "setindex", rows |-> rows, drop |-> drop, how |-> "user", udivs |-> d, pre |-> NoPre]
                        IN Emit(c, [idxs |-> <<>>,
                                    parts |-> [p \in 1..(Len(d) - 1) |-> { rows[i].rid : i \in { i \in DOMAIN rows : PartOfLabel(d, rows[i].k) = p } }]])
       [] sc.fam = "dedup" ->
            \E rows \in RowSets(sc.n, sc.sl) :
               \/ \E subset \in {"k", "kk", "all"}, keep \in {"first", "last"} :
                     LET c == [fam |-> "dedup", rows |-> rows, op |-> "drop_duplicates", subset |-> subset, keep |-> keep, pre |-> NoPre]
                     IN Emit(c, [rids |-> Rids(DropDuplicates(rows, subset, keep))])
               \/ LET c == [fam |-> "dedup", rows |-> rows, op |-> "unique", subset |-> "k", keep |-> "first", pre |-> NoPre]
                  IN Emit(c, [values |-> UniqueValues(rows), count |-> <<NUnique(rows, TRUE), NUnique(rows, FALSE)>>])

Spec == Init /\ [][Next]_svars

-----------------------------------------------------------------------------
(* Design check.                                                              *)
IsCase(fam) == sd /\ sc.fam = fam

\* a hash partition - ANY assignment of key values to partitions - meets the shuffle contract, and the contract
\* bites: moving one row of a key class that has another member breaks co-location, dropping a row breaks Rows
ShuffleContractOK ==
  (IsCase("shuffle") /\ Len(sc.rows) <= 3) =>
    LET keys == { ShuffleKey(sc.rows[i], sc.on) : i \in DOMAIN sc.rows } IN
    \A nout \in 1..3, ign \in BOOLEAN : \A hf \in [keys -> 1..nout] :
       LET parts == HashShuffle(sc.rows, sc.on, nout, hf)
           obs == [raised |-> "", parts |-> parts, nparts |-> nout, ndivs |-> nout + 1, wholeok |-> TRUE]
           bad(o) == ShuffleBad(sc.rows, sc.on, nout, ign, o)
       IN /\ bad(obs) = {}
          /\ \A cl \in se.classes : \E p \in DOMAIN parts : cl \subseteq { parts[p][i].rid : i \in DOMAIN parts[p] }
          /\ (nout > 1 /\ \E cl \in se.classes : Cardinality(cl) > 1) =>
                LET cl == CHOOSE x \in se.classes : Cardinality(x) > 1
                    mv == CHOOSE x \in cl : TRUE
                    src == CHOOSE p \in DOMAIN parts : mv \in { parts[p][i].rid : i \in DOMAIN parts[p] }
                    dst == IF src = 1 THEN 2 ELSE 1
                    moved == [p \in DOMAIN parts |->
                                IF p = src THEN SelectSeq(parts[p], LAMBDA r : r.rid # mv)
                                ELSE IF p = dst THEN parts[p] \o SelectSeq(parts[src], LAMBDA r : r.rid = mv) ELSE parts[p]]
                IN "CoLocated" \in bad([obs EXCEPT !.parts = moved])
          /\ sc.rows # <<>> => "Rows" \in bad([obs EXCEPT !.parts = [p \in DOMAIN parts |-> IF parts[p] # <<>> /\ \A b \in 1..(p - 1) : parts[b] = <<>> THEN Tail(parts[p]) ELSE parts[p]]])

ClassesPartition ==
  IsCase("shuffle") => /\ UNION se.classes = { sc.rows[i].rid : i \in DOMAIN sc.rows }
                       /\ \A a, b \in se.classes : a # b => a \cap b = {}

\* the sorted key sequence is a permutation of the source keys in (non-strict) key order
SortSane ==
  IsCase("sort") =>
    /\ SameBag(se.keys, KeysOf(sc.rows, sc.by))
    /\ \A p \in 1..(Len(se.keys) - 1) : ~LessKey(se.keys[p + 1], se.keys[p], sc.asc, sc.naf)
    /\ \A p \in DOMAIN se.keys : (sc.naf /\ se.keys[p][1] = NA) => \A b \in 1..p : se.keys[b][1] = NA
    /\ \A p \in DOMAIN se.keys : (~sc.naf /\ se.keys[p][1] = NA) => \A b \in p..Len(se.keys) : se.keys[b][1] = NA

SetIndexSane ==
  IsCase("setindex") =>
    /\ sc.how \in {"auto", "sorted"} => (SameBag(se.idxs, [i \in DOMAIN sc.rows |-> sc.rows[i].k]) /\ NonDecreasing(se.idxs))
    /\ sc.how = "user" =>
         /\ UNION { se.parts[p] : p \in DOMAIN se.parts } = { sc.rows[i].rid : i \in DOMAIN sc.rows }
         \* every row sits where the divisions contract wants it
         /\ \A i \in DOMAIN sc.rows : InDivision(sc.udivs, PartOfLabel(sc.udivs, sc.rows[i].k), sc.rows[i].k)

DedupSane ==
  (IsCase("dedup") /\ sc.op = "drop_duplicates") =>
    LET kept == { i \in DOMAIN sc.rows : sc.rows[i].rid \in SeqSet(se.rids) } IN
    /\ \A i, j \in kept : i # j => DupKey(sc.rows[i], sc.subset) # DupKey(sc.rows[j], sc.subset)
    /\ \A i \in DOMAIN sc.rows : \E j \in kept : DupKey(sc.rows[j], sc.subset) = DupKey(sc.rows[i], sc.subset)
                                                 /\ (IF sc.keep = "first" THEN j <= i ELSE j >= i)
    /\ StrictlyIncreasing(se.rids)
UniqueSane ==
  (IsCase("dedup") /\ sc.op = "unique") =>
    /\ se.count[2] = Cardinality(se.values)
    /\ se.count[1] = se.count[2] - (IF NA \in se.values THEN 1 ELSE 0)

\* a pre-partitioned case respects the precondition of its stage and expects exactly what the fresh source expects; and the
\* co-location a pre-stage on K' gives implies the co-location an operation on K needs exactly when K' is a subset of K
\* (the test dask may use to skip a shuffle): checked on the reference hash shuffle for every assignment of K' values
PreSane ==
  (sd /\ sc.fam # "layouts" /\ sc.pre # NoPre) =>
     /\ PreOK(sc.rows, sc.pre)
     /\ sc.fam = "shuffle" => se.classes = KeyClasses(sc.rows, sc.on)
     /\ (sc.fam = "shuffle" /\ sc.pre.how = "shuffle" /\ Len(sc.rows) <= 4) =>
           LET kp(r) == PreKey(r, sc.pre.on)
               vals == { kp(sc.rows[i]) : i \in DOMAIN sc.rows }
               cols == IF sc.on = "k" THEN {"k"} ELSE {"k", "k2"}
           IN (SeqSet(sc.pre.on) \subseteq cols) =>
                 \A hf \in [vals -> 1..2] :
                    CoLocated([p \in 1..2 |-> SelectSeq(sc.rows, LAMBDA r : hf[kp(r)] = p)], sc.rows, sc.on)

\* the staged task shuffle delivers every row to its target partition (max_branch = 2, 3; up to MaxBranchIn inputs)
Stages(nin, mb) == CHOOSE s \in 1..8 : Pow(mb, s) >= nin /\ \A t \in 1..(s - 1) : Pow(mb, t) < nin
NSplits(nin, st) == CHOOSE b \in 1..nin : Pow(b, st) >= nin /\ \A a \in 1..(b - 1) : Pow(a, st) < nin
StagedOK ==
  \A mb \in {2, 3} : \A nin \in (mb + 1)..MaxBranchIn : \A nout \in nin..(nin + 2) :
     LET st == Stages(nin, mb)
         ns == NSplits(nin, st)
     IN /\ Pow(ns, st) >= nin
        /\ \A p \in 0..(nout - 1) : \A start \in 0..(nin - 1) :
              LET c == p % nin IN StagedRoute(start, c, 0, st, ns) = c
=============================================================================
