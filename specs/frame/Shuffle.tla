------------------------------- MODULE Shuffle -------------------------------
(* C40 - sorting, shuffling and de-duplication keep exactly the right rows.

   A ROW is a record [rid, idx, k, k2]: rid identifies the source row (carried
   as an ordinary column through the real operation), idx is the index label,
   k and k2 are two key columns with small-integer cells or NA (= 99).  The
   harness realises the keys as int64 / float64 / strings / a categorical; only
   their order and equality matter, which the integer cells preserve.

   Each operation is given as a CONTRACT on the observed partitions of the
   result (`parts`, a sequence of row sequences, plus declared divisions):
   which rows must be there, which must lie together, in which key order - and
   nothing about what the property leaves free (which hash partition a key
   class goes to, the order of rows with equal keys, where a partition ends).  *)
EXTENDS Frames, TLC

Absent == 0 - 1

Fails(name, holds) == IF holds THEN {} ELSE {name}
Asc(S) == SetToSortSeq(S, LAMBDA a, b : a < b)

(* PRE-PARTITIONED SOURCES.  `pre` = [how, on] says what the frame went through before the judged operation:
     [how |-> "none", on |-> <<>>]    nothing: a freshly built collection
     how = "shuffle"    hash-shuffled on the columns `on` (K')
     how = "merge"      the result of an earlier inner hash join on K' with a frame that holds every K' combination once
     how = "groupby"    the result of groupby(K', dropna = FALSE).first(split_out = n).reset_index(); the rows are distinct on K'
     how = "setindex"   set_index on (a copy of) the single column K'
   `on` is a sequence over {"k", "k2", "rid"} in ANY relation to the columns K the operation works on (equal, a proper
   subset, a proper superset, overlapping, disjoint).  Every such stage returns the same multiset of rows (it may
   replace the index: the harness then reports the operation with ign = TRUE) and leaves partitioning knowledge behind.
   NOTHING of the contracts below looks at `pre`: knowledge about an earlier partitioning may let dask skip a shuffle,
   it must never change which rows come out, which lie together, or their order.                                  *)
NoPre == [how |-> "none", on |-> <<>>]
ColOf(row, c) == CASE c = "k" -> row.k [] c = "k2" -> row.k2 [] OTHER -> row.rid
PreKey(row, on) == [q \in DOMAIN on |-> ColOf(row, on[q])]
PreOK(rows, pre) ==
  CASE pre.how = "none"     -> pre.on = <<>>
    [] pre.how = "groupby"  -> pre.on # <<>> /\ \A i, j \in DOMAIN rows : i # j => PreKey(rows[i], pre.on) # PreKey(rows[j], pre.on)
    [] pre.how = "setindex" -> Len(pre.on) = 1 /\ \A i \in DOMAIN rows : ColOf(rows[i], pre.on[1]) # NA
    [] pre.how \in {"shuffle", "merge"} -> pre.on # <<>>
    [] OTHER -> FALSE
PreRelation(pre, cols) ==
  LET kp == SeqSet(pre.on) IN
  IF pre.how = "none" THEN "none" ELSE IF kp = cols THEN "equal" ELSE IF kp \subseteq cols THEN "subset"
  ELSE IF cols \subseteq kp THEN "superset" ELSE IF kp \cap cols # {} THEN "overlap" ELSE "disjoint"

\* the cells an operation must not touch
Cells(r)     == <<r.rid, r.k, r.k2>>
CellsIdx(r)  == <<r.rid, r.idx, r.k, r.k2>>
Flat(parts)  == ConcatParts(parts)

\* the same rows (all cells incl. the index label) with the same multiplicities
SameRowsIdx(out, src) == SameBag([q \in DOMAIN out |-> CellsIdx(out[q])], [q \in DOMAIN src |-> CellsIdx(src[q])])
\* the same rows up to the index (ignore_index=True / a new index)
SameRows(out, src)    == SameBag([q \in DOMAIN out |-> Cells(out[q])], [q \in DOMAIN src |-> Cells(src[q])])

-----------------------------------------------------------------------------
(* SHUFFLE on columns / on the index.  on = "k" | "kk" (both columns) | "idx".        *)
ShuffleKey(r, on) == CASE on = "k" -> <<r.k>> [] on = "kk" -> <<r.k, r.k2>> [] OTHER -> <<r.idx>>

\* the key a row had in the SOURCE frame (the observed index may have been reset by ignore_index=True)
SourceKey(src, rid, on) == ShuffleKey(src[CHOOSE i \in DOMAIN src : src[i].rid = rid], on)
\* all rows with one key value lie in one output partition
CoLocated(parts, src, on) ==
  \A a, b \in DOMAIN parts : a # b =>
     \A i \in DOMAIN parts[a], j \in DOMAIN parts[b] :
        (\E x \in DOMAIN src : src[x].rid = parts[a][i].rid) /\ (\E y \in DOMAIN src : src[y].rid = parts[b][j].rid)
           => SourceKey(src, parts[a][i].rid, on) # SourceKey(src, parts[b][j].rid, on)

\* the key classes of a frame (as sets of rids): what has to stay together
KeyClasses(src, on) == { { src[j].rid : j \in { j \in DOMAIN src : ShuffleKey(src[j], on) = ShuffleKey(src[i], on) } } : i \in DOMAIN src }

ShuffleBad(src, on, nout, ignoreIndex, obs) ==
  IF obs.raised # "" THEN {"Raised"}
  ELSE Fails("Rows", IF ignoreIndex THEN SameRows(Flat(obs.parts), src) ELSE SameRowsIdx(Flat(obs.parts), src))
       \cup Fails("CoLocated", CoLocated(obs.parts, src, on))
       \cup Fails("NParts", Len(obs.parts) = nout)
       \cup Fails("Meta", obs.nparts = Len(obs.parts) /\ obs.ndivs = obs.nparts + 1)
       \cup Fails("WholeOK", obs.wholeok)

\* the reference shuffle for ANY assignment hf of key values to partitions 1..nout
HashShuffle(src, on, nout, hf) == [p \in 1..nout |-> SelectSeq(src, LAMBDA r : hf[ShuffleKey(r, on)] = p)]

(* The staged task shuffle (TaskShuffle._layer): with `nsplits` splits per stage and `stages` stages a
   partition number is read as `stages` digits in base `nsplits`; in stage s a row moves to the partition whose
   digit s is digit s of the row's TARGET and whose other digits are unchanged.  After all stages every row is
   in its target partition.                                                                              *)
RECURSIVE Pow(_, _)
Pow(b, e) == IF e = 0 THEN 1 ELSE b * Pow(b, e - 1)
Digit(i, j, base) == (i \div Pow(base, j)) % base
SetDigit(i, j, base, d) == i - Digit(i, j, base) * Pow(base, j) + d * Pow(base, j)
RECURSIVE StagedRoute(_, _, _, _, _)
StagedRoute(part, target, stage, stages, base) ==
  IF stage = stages THEN part
  ELSE StagedRoute(SetDigit(part, stage, base, Digit(target, stage, base)), target, stage + 1, stages, base)

-----------------------------------------------------------------------------
(* SORT_VALUES(by, ascending, na_position).  by = "k" or "kk" (k, then k2); asc = <<a1>> or <<a1, a2>>.
   Key order: NA goes first / last whatever the direction; otherwise ascending or descending.           *)
LessCell(x, y, asc, naFirst) ==
  IF x = NA \/ y = NA THEN (IF naFirst THEN x = NA /\ y # NA ELSE x # NA /\ y = NA)
  ELSE IF asc THEN x < y ELSE x > y
SortKey(r, by) == IF by = "k" THEN <<r.k>> ELSE <<r.k, r.k2>>
RECURSIVE LessKey(_, _, _, _)
LessKey(a, b, asc, naFirst) ==
  IF a = <<>> THEN FALSE
  ELSE IF Head(a) = Head(b) THEN LessKey(Tail(a), Tail(b), Tail(asc), naFirst)
  ELSE LessCell(Head(a), Head(b), Head(asc), naFirst)

\* the key sequence of a correctly sorted result: the keys of the source in key order
KeysOf(f, by) == [i \in DOMAIN f |-> SortKey(f[i], by)]
SortedKeySeq(src, by, asc, naFirst) ==
  LET ks == KeysOf(src, by)
      \* position of element i in the stable order = #elements strictly less + #equal ones before it
      rank(i) == Cardinality({ j \in DOMAIN ks : LessKey(ks[j], ks[i], asc, naFirst) \/ (ks[j] = ks[i] /\ j < i) }) + 1
  IN [p \in DOMAIN ks |-> ks[CHOOSE i \in DOMAIN ks : rank(i) = p]]

\* rows with equal keys may come in any order: the result is judged as (same rows, key sequence)
SortBad(src, by, asc, naFirst, ignoreIndex, obs) ==
  IF obs.raised # "" THEN {"Raised"}
  ELSE LET out == Flat(obs.parts) IN
       Fails("Rows", IF ignoreIndex THEN SameRows(out, src) ELSE SameRowsIdx(out, src))
       \cup Fails("Order", KeysOf(out, by) = SortedKeySeq(src, by, asc, naFirst))
       \cup Fails("Meta", obs.nparts = Len(obs.parts) /\ obs.ndivs = obs.nparts + 1)
       \cup Fails("WholeOK", obs.wholeok)

-----------------------------------------------------------------------------
(* SET_INDEX(k, drop, divisions | npartitions | sorted).  The new index label of a row is its k; the k column
   is dropped (cell Absent) or kept; the frame is sorted by the new index (NA labels last); known divisions of
   the result describe its partitions truthfully (NA labels are outside the divisions contract: dask puts them
   into the last partition); user-given divisions are the divisions of the result.                         *)
Reindexed(src, drop) == [i \in DOMAIN src |-> [rid |-> src[i].rid, idx |-> src[i].k, k |-> IF drop THEN Absent ELSE src[i].k, k2 |-> src[i].k2]]

\* Declared divisions are reported as POSITIONS: label v stands at 2v, a division value strictly between the labels
\* v and v+1 (quantile divisions of numeric keys may be interpolated) at 2v+1.
Pos(v) == 2 * v
PosPartsNoNA(parts) == [b \in DOMAIN parts |-> LET ls == SelectSeq(Idxs(parts[b]), LAMBDA x : x # NA) IN [q \in DOMAIN ls |-> Pos(ls[q])]]
NAOnlyInLast(parts) == \A b \in DOMAIN parts : b < Len(parts) => \A i \in DOMAIN parts[b] : parts[b][i].idx # NA

SetIndexBad(src, drop, udivs, sortit, obs) ==
  IF obs.raised # "" THEN {"Raised"}
  ELSE LET out == Flat(obs.parts) IN
       Fails("Rows", SameRowsIdx(out, Reindexed(src, drop)))
       \cup Fails("Order", sortit => /\ Idxs(out) = [p \in DOMAIN src |-> SortedKeySeq(src, "k", <<TRUE>>, FALSE)[p][1]]
                                     /\ NAOnlyInLast(obs.parts))
       \cup Fails("Truthful", obs.divs # <<>> => DivisionsTruthful(obs.divs, PosPartsNoNA(obs.parts)))
       \cup Fails("UserDivs", udivs # <<>> => obs.divs = [q \in DOMAIN udivs |-> Pos(udivs[q])])
       \cup Fails("Meta", obs.nparts = Len(obs.parts) /\ obs.ndivs = obs.nparts + 1)
       \cup Fails("WholeOK", obs.wholeok)

\* user divisions d_0 < ... < d_n that cover the labels: the partition a label belongs to
CoversLabels(divs, src) == \A i \in DOMAIN src : divs[1] <= src[i].k /\ src[i].k <= divs[Len(divs)]
PartOfLabel(divs, x) ==
  LET n == Len(divs) - 1 IN CHOOSE p \in 1..n : divs[p] <= x /\ (x < divs[p + 1] \/ (p = n /\ x <= divs[p + 1]))

-----------------------------------------------------------------------------
(* DROP_DUPLICATES(subset, keep), UNIQUE, NUNIQUE.  subset = "k" | "kk" | "all" (every column of the real
   frame: rid is among them, so nothing is a duplicate).                                                 *)
DupKey(r, subset) == CASE subset = "k" -> <<r.k>> [] subset = "kk" -> <<r.k, r.k2>> [] OTHER -> <<r.rid>>
\* the positions that survive: the first / last row of every key class, in source order
Survivors(src, subset, keep) ==
  { i \in DOMAIN src : \A j \in DOMAIN src : DupKey(src[j], subset) = DupKey(src[i], subset) => (IF keep = "first" THEN i <= j ELSE i >= j) }
DropDuplicates(src, subset, keep) == LET sv == Asc(Survivors(src, subset, keep)) IN [q \in DOMAIN sv |-> src[sv[q]]]

UniqueValues(src) == { src[i].k : i \in DOMAIN src }                      \* NA is a value of its own
NUnique(src, dropna) == Cardinality(IF dropna THEN UniqueValues(src) \ {NA} ELSE UniqueValues(src))

(* When the source went through a pre-stage its row ORDER is no longer that of `src` (a shuffle keeps the rows, not their
   order), so "first" / "last" name no particular row any more: then exactly one row of every key class survives, whichever. *)
OneRowPerKey(out, src, subset) ==
  /\ \A q \in DOMAIN out : \E i \in DOMAIN src : Cells(out[q]) = Cells(src[i])
  /\ \A p, q \in DOMAIN out : p # q => DupKey(out[p], subset) # DupKey(out[q], subset)
  /\ { DupKey(out[q], subset) : q \in DOMAIN out } = { DupKey(src[i], subset) : i \in DOMAIN src }

\* the result order of drop_duplicates / unique is not promised once the data is shuffled: multisets
DedupBad(src, subset, keep, anyrep, obs) ==
  IF obs.raised # "" THEN {"Raised"}
  ELSE Fails("Rows", IF anyrep THEN OneRowPerKey(Flat(obs.parts), src, subset) ELSE SameRows(Flat(obs.parts), DropDuplicates(src, subset, keep)))
       \cup Fails("Meta", obs.nparts = Len(obs.parts) /\ obs.ndivs = obs.nparts + 1)
       \cup Fails("WholeOK", obs.wholeok)

\* obs.values: the values of the resulting series, one entry per row
UniqueBad(src, obs) ==
  IF obs.raised # "" THEN {"Raised"}
  ELSE Fails("Values", Len(obs.values) = Cardinality(UniqueValues(src)) /\ SeqSet(obs.values) = UniqueValues(src))
NUniqueBad(src, dropna, obs) ==
  IF obs.raised # "" THEN {"Raised"}
  ELSE Fails("Count", obs.count = NUnique(src, dropna))
=============================================================================
