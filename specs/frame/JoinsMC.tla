------------------------------- MODULE JoinsMC -------------------------------
(* Case enumeration for C39 (spec -> code) and design check of the reference.

   The initial states are SEEDS (one per family and size class), so that TLC's
   workers share the enumeration; the successors of a seed are the evaluated
   cases together with the result module Joins demands:

   merge    every pair of key sequences (left, right) over Keys \cup {NA} with
            up to MaxL / MaxR rows for every mode - all of them while
            |L| + |R| <= Full, a salted hash sample (1 / Mod) above, and every
            pair of SORTED NA-free sequences for the index-index mode (the
            operands that admit known divisions; Keys must be 0..MaxKey).  One state carries the
            expected row set of EVERY join type (inner, left, right, outer,
            leftsemi), and the expected row sequence where order is promised.
   premerge column joins (one key and key PAIRS) whose operands are PRE-PARTITIONED:
            a salted sample of key sequences x (pre-stage of the left operand,
            pre-stage of the right operand) over every stage (shuffle / earlier
            hash join / groupby with split_out / set_index) and every relation of
            its columns K' to the join keys K (equal, proper subset, proper
            superset, overlapping, disjoint).  Same expected rows: the pre-stage
            must not matter.
   concat   two frames with 0..CRows rows or three frames with 0..1 rows, every
            label sequence over CLabels, every column menu, join in {outer,
            inner}; a salted 1 / CMod hash sample.
   concat1  axis=1 concatenation of two frames with unique sorted labels.
   asof     sorted key sequences, every (direction, allow_exact_matches,
            tolerance), with and without a `by` column.
   layouts  for every row count: ALL row partitionings with <= MaxParts parts,
            empty partitions included.  The expected results above do not
            depend on the partitioning, the declared divisions, broadcast,
            shuffle_method or npartitions (that is the property): the harness
            crosses each case with them.

   The invariants check the reference itself: the relational laws the join
   lowering of dask relies on (a hash partition of both operands, or a row
   partition of one operand joined with the whole other operand, gives the
   same rows), order = multiset, concat and asof sanity.                      *)
EXTENDS Joins, Json

CONSTANTS Fams,        \* subset of {"merge", "premerge", "concat", "concat1", "asof", "layouts"}
          PMod, PreMod,  \* premerge: 1 / PMod of the key-sequence pairs, 1 / PreMod of the (left pre, right pre) pairs
          Keys,        \* non-missing key values, e.g. {0, 1, 2}
          MaxL, MaxR,  \* merge: rows per side
          Full,        \* merge: exhaustive while |L| + |R| <= Full
          Mod, Salt,   \* merge: hash sample 1 / Mod above, salted (seeded by the harness)
          HeavyMod,    \* merge: the decomposition laws are checked on 1 / HeavyMod of the cases
          MaxParts,    \* layouts
          CFrames, CRows, CLabels, CMod,
          AMaxL, AMaxR, AKeys, AMod

VARIABLES jc, jd, je, jout
jvars == <<jc, jd, je, jout>>

KeysNA == Keys \cup {NA}

RECURSIVE HashSeq(_)
HashSeq(s) == IF s = <<>> THEN 7 ELSE (HashSeq(Tail(s)) * 5 + Head(s) + 1) % 1009
Sample(a, b, extra, modulus) == ((HashSeq(a) * 31 + HashSeq(b) * 17 + extra * 7 + Salt) % modulus) = 0

ModeIx(mode) == CASE mode = "cc" -> 1 [] mode = "ii" -> 2 [] mode = "ic" -> 3 [] mode = "ci" -> 4 [] mode = "kk" -> 5

-----------------------------------------------------------------------------
(* merge                                                                      *)
\* the operand whose key is the column k has the index 0, 1, 2, ... ; the one whose key is the index has no k
\* the second key column follows one of three patterns, picked by the hash of the key sequence
K2(p, i) == CASE p = 0 -> 0 [] p = 1 -> i % 2 [] OTHER -> (i \div 2) % 2
MkRows(ks, onIndex) ==
  [i \in DOMAIN ks |-> [rid |-> i, idx |-> IF onIndex THEN ks[i] ELSE i - 1, k |-> IF onIndex THEN 0 ELSE ks[i],
                         k2 |-> K2(HashSeq(ks) % 3, i)]]

SeqsTable == [n \in 0..(IF MaxL > MaxR THEN MaxL ELSE MaxR) |-> AllSeqs(n, KeysNA)]

(* Sampling without looking at every pair: the key sequences of each length are bucketed by their hash
   residue (constant tables, evaluated once); a pair of buckets (x, y) is taken as a whole when the rows are
   few (|L| + |R| <= Full) and otherwise when the salted combination of the residues vanishes mod Mod.    *)
Bucket == [n \in DOMAIN SeqsTable |-> [x \in 0..(Mod - 1) |-> { ks \in SeqsTable[n] : HashSeq(ks) % Mod = x }]]
KeepBuckets(mode, nl, nr, x, y) ==
  nl + nr <= Full \/ ((x * 31 + y * 17 + ModeIx(mode) * 7 + Salt) % Mod) = 0
Slices == 4

MergeSeeds == { [fam |-> "mseed", mode |-> mode, nl |-> nl, nr |-> nr, sl |-> sl] :
                mode \in Modes, nl \in 0..MaxL, nr \in 0..MaxR, sl \in 0..(Slices - 1) }
                \cup { [fam |-> "sseed", mode |-> "ii", nl |-> nl, nr |-> nr] : nl \in 0..MaxL, nr \in 0..MaxR }
MaxKey == Max(Keys)

MergeCase(mode, lk, rk) ==
  [fam |-> "merge", mode |-> mode, L |-> MkRows(lk, mode \in {"ii", "ic"}), R |-> MkRows(rk, mode \in {"ii", "ci"}),
   lpre |-> NoPre, rpre |-> NoPre]

(* pre-partitioned operands: the stages and column sets on offer for a mode, as a sequence (so that a pair of them
   can be sampled by index)                                                                                   *)
PreOns(mode) == IF mode = "kk" THEN << <<"k", "k2">>, <<"k">>, <<"k2">>, <<"k", "k2", "v">>, <<"k", "v">>, <<"v">> >>
                ELSE << <<"k">>, <<"k", "k2">>, <<"k", "v">>, <<"k2">>, <<"v">> >>
PreMenu(mode) ==
  LET ons == PreOns(mode)
      of(how) == [q \in DOMAIN ons |-> [how |-> how, on |-> ons[q]]]
  IN <<NoPre>> \o of("shuffle") \o of("merge") \o of("groupby") \o SelectSeq(of("setindex"), LAMBDA pr : Len(pr.on) = 1)
PreSeeds == { [fam |-> "pseed", mode |-> mode, nl |-> nl, nr |-> nr, sl |-> sl] :
              mode \in {"cc", "kk"}, nl \in 2..MaxL, nr \in 2..MaxR, sl \in 0..(Slices - 1) }
MergeExpected(c) ==
  [rows |-> [h \in HowsOf(c.mode) |-> MergeRows(c.L, c.R, h, c.mode)],
   seq  |-> IF c.mode = "ii" /\ UniqueSortedIdx(c.L) /\ UniqueSortedIdx(c.R)
            THEN [h \in HowsOf(c.mode) |-> MergeSeq(c.L, c.R, h, c.mode)] ELSE <<>>,
   mask |-> [nm \in NamingsOf(c.mode) |-> Mask(nm)]]

-----------------------------------------------------------------------------
(* concat (axis 0)                                                            *)
ColMenus == { {"a", "b"}, {"b", "c"}, {"a", "b", "c"}, {"b"} }
MkIdxRows(ix) == [i \in DOMAIN ix |-> [rid |-> i, idx |-> ix[i]]]
CFramesOf(maxrows) == { [cols |-> cs, rows |-> MkIdxRows(ix)] : cs \in ColMenus, ix \in UNION { AllSeqs(n, CLabels) : n \in 0..maxrows } }
CFrameSet   == CFramesOf(CRows)          \* operands of a two-frame concat
CFrameSmall == CFramesOf(1)              \* operands of a three-frame concat
FrameLists(nf) == IF nf = 2 THEN { <<f, g>> : f \in CFrameSet, g \in CFrameSet }
                  ELSE { <<f, g, h>> : f \in CFrameSmall, g \in CFrameSmall, h \in CFrameSmall }
FrameHash(fs) == HashSeq([f \in DOMAIN fs |-> HashSeq(Idxs(fs[f].rows)) + Cardinality(fs[f].cols) * 3 + (IF "a" \in fs[f].cols THEN 1 ELSE 0)])
ConcatSeeds == { [fam |-> "cseed", nf |-> nf, join |-> jn] : nf \in 2..CFrames, jn \in {"outer", "inner"} }
KeepConcat(fs) == ((FrameHash(fs) + Salt) % CMod) = 0
ConcatExpected(c) == [rows |-> ConcatRows(c.frames, c.join), cols |-> ConcatCols(c.frames, c.join)]

\* axis 1: two frames with unique, sorted labels
UniqueSorted == { s \in UNION { AllSeqs(n, CLabels \cup {3}) : n \in 0..3 } : StrictlyIncreasing(s) }
Concat1Seeds == { [fam |-> "xseed", join |-> jn] : jn \in {"outer", "inner"} }

-----------------------------------------------------------------------------
(* merge_asof                                                                 *)
MkAsofRows(ks, bs, onIndex) ==
  [i \in DOMAIN ks |-> [rid |-> i, idx |-> IF onIndex THEN ks[i] ELSE i - 1, k |-> IF onIndex THEN 0 ELSE ks[i], b |-> bs[i]]]
AsofSeeds == { [fam |-> "aseed", mode |-> mode, nl |-> nl, nr |-> nr, by |-> by] :
               mode \in {"cc", "ii"}, nl \in 1..AMaxL, nr \in 1..AMaxR, by \in BOOLEAN }
AKeyMax == Max(AKeys)
Tols == {NA, 0, 1}
Zeros(n) == [i \in 1..n |-> 0]
\* values of the `by` column: constant or alternating
BySeqs(n, by) == IF by THEN { [i \in 1..n |-> 0], [i \in 1..n |-> 1], [i \in 1..n |-> i % 2], [i \in 1..n |-> (i + 1) % 2] } ELSE {Zeros(n)}
DirIx(dr) == CASE dr = "backward" -> 1 [] dr = "forward" -> 2 [] OTHER -> 3

-----------------------------------------------------------------------------
(* layouts                                                                    *)
MaxRows == Max({MaxL, MaxR, CRows, AMaxL, AMaxR, 3})
LayoutSeeds == { [fam |-> "layouts", n |-> n] : n \in 0..MaxRows }

-----------------------------------------------------------------------------
Seeds == (IF "merge" \in Fams THEN MergeSeeds ELSE {}) \cup (IF "premerge" \in Fams THEN PreSeeds ELSE {}) \cup (IF "concat" \in Fams THEN ConcatSeeds ELSE {})
         \cup (IF "concat1" \in Fams THEN Concat1Seeds ELSE {}) \cup (IF "asof" \in Fams THEN AsofSeeds ELSE {})
         \cup (IF "layouts" \in Fams THEN LayoutSeeds ELSE {})

Init == /\ jc \in Seeds
        /\ jd = FALSE
        /\ je = <<>>
        /\ jout = ""

Emit(c, e) == /\ jc' = c
              /\ je' = e
              /\ jout' = ToJson([c |-> c, e |-> e])

Next ==
  /\ ~jd
  /\ jd' = TRUE
  /\ CASE jc.fam = "mseed" ->
            \E x \in { z \in 0..(Mod - 1) : z % Slices = jc.sl }, y \in 0..(Mod - 1) :
               /\ KeepBuckets(jc.mode, jc.nl, jc.nr, x, y)
               /\ \E lk \in Bucket[jc.nl][x], rk \in Bucket[jc.nr][y] :
                     LET c == MergeCase(jc.mode, lk, rk) IN Emit(c, MergeExpected(c))
       [] jc.fam = "pseed" ->
            \E x \in { z \in 0..(Mod - 1) : z % Slices = jc.sl }, y \in 0..(Mod - 1) :
               /\ ((x * 13 + y * 29 + ModeIx(jc.mode) * 5 + Salt) % PMod) = 0
               /\ \E lk \in Bucket[jc.nl][x], rk \in Bucket[jc.nr][y] :
                     LET base == MergeCase(jc.mode, lk, rk)
                         menu == PreMenu(jc.mode)
                     IN \E a \in DOMAIN menu, b \in DOMAIN menu :
                           /\ a # 1 \/ b # 1                                   \* at least one operand is pre-partitioned
                           /\ ((HashSeq(lk) + HashSeq(rk) * 3 + a * 7 + b * 11 + Salt) % PreMod) = 0
                           /\ PreOK(base.L, menu[a]) /\ PreOK(base.R, menu[b])
                           /\ LET c == [base EXCEPT !.lpre = menu[a], !.rpre = menu[b]] IN Emit(c, MergeExpected(c))
       [] jc.fam = "sseed" ->       \* index-index joins of sorted operands: the ones that admit known divisions
            \E lk \in SortedSeqs(jc.nl, 0, MaxKey), rk \in SortedSeqs(jc.nr, 0, MaxKey) :
               LET c == MergeCase(jc.mode, lk, rk) IN Emit(c, MergeExpected(c))
       [] jc.fam = "cseed" ->
            \E fs \in FrameLists(jc.nf) :
               /\ KeepConcat(fs)
               /\ LET c == [fam |-> "concat", frames |-> fs, join |-> jc.join] IN Emit(c, ConcatExpected(c))
       [] jc.fam = "xseed" ->
            \E li \in UniqueSorted, ri \in UniqueSorted :
               LET c == [fam |-> "concat1", L |-> MkRows(li, TRUE), R |-> MkRows(ri, TRUE), join |-> jc.join]
               IN Emit(c, [rows |-> ConcatColsRows(c.L, c.R, c.join)])
       [] jc.fam = "aseed" ->
            \E lk \in SortedSeqs(jc.nl, 0, AKeyMax), rk \in SortedSeqs(jc.nr, 0, AKeyMax),
               lb \in BySeqs(jc.nl, jc.by), rb \in BySeqs(jc.nr, jc.by),
               dr \in {"backward", "forward", "nearest"}, ex \in BOOLEAN, tl \in Tols :
               /\ (jc.nl + jc.nr <= 3 /\ ~jc.by) \/ Sample(lk \o lb, rk \o rb, (IF ex THEN 1 ELSE 0) + (IF tl = NA THEN 2 ELSE 3 + tl) * 2 + DirIx(dr) * 12, AMod)
               /\ LET c == [fam |-> "asof", mode |-> jc.mode, by |-> jc.by, direction |-> dr, exact |-> ex, tol |-> tl,
                            L |-> MkAsofRows(lk, lb, jc.mode = "ii"), R |-> MkAsofRows(rk, rb, jc.mode = "ii")]
                  IN Emit(c, [pairs |-> AsofPairs(c.L, c.R, c.mode, c.direction, c.exact, c.tol, c.by)])
       [] jc.fam = "layouts" ->
            Emit(jc, SetToSeq(Layouts(jc.n, MaxParts)))

Spec == Init /\ [][Next]_jvars

-----------------------------------------------------------------------------
(* Design check of the reference.                                             *)
IsCase(fam) == jd /\ jc.fam = fam

\* every pair of a result is a match or a one-sided row without partner; duplicates multiply; outer = left + right - inner
CountKey(F, key(_), v) == Cardinality({ i \in DOMAIN F : key(F[i]) = v })
PairsSane ==
  IsCase("merge") =>
    LET L == jc.L   R == jc.R   md == jc.mode
        rows(h) == je.rows[h]
        lk(row) == LKey(row, md)   rk(row) == RKey(row, md)
    IN /\ Cardinality(rows("inner")) = SumSeq([i \in DOMAIN L |-> CountKey(R, rk, lk(L[i]))])      \* duplicates multiply
       /\ \A t \in rows("outer") : (t[1] # 0 /\ t[2] # 0) => (t[4] = t[5] /\ t[3] = 0 /\ t \in rows("inner"))
       /\ \A t \in rows("outer") : t[2] = 0 => (t[3] = 1 /\ t[5] = NoKey(md) /\ t[8] = NA /\ ~\E u \in rows("inner") : u[1] = t[1])
       /\ \A t \in rows("outer") : t[1] = 0 => (t[3] = 2 /\ t[4] = NoKey(md) /\ t[7] = NA /\ ~\E u \in rows("inner") : u[2] = t[2])
       /\ rows("left") \cup rows("right") = rows("outer")
       /\ rows("left") \cap rows("right") = rows("inner")
       /\ { t[1] : t \in rows("left") } = { L[i].rid : i \in DOMAIN L }
       /\ { t[2] : t \in rows("right") } = { R[j].rid : j \in DOMAIN R }
       /\ "leftsemi" \in DOMAIN je.rows =>
            /\ { t[1] : t \in rows("leftsemi") } = { t[1] : t \in rows("inner") }
            /\ Cardinality(rows("leftsemi")) = Cardinality({ t[1] : t \in rows("inner") })
            /\ \A t \in rows("leftsemi") : t[2] = 0 /\ t[8] = NA

\* (for a pair key the assignment is hf of the first component, shifted by the second: still a function of the key)
HKey(key, mode) == IF mode = "kk" THEN (IF key[1] = NA THEN NA ELSE (key[1] + key[2]) % 3) ELSE key
\* the decomposition laws are expensive: they are checked on a salted 1 / HeavyMod sample of the merge cases
Heavy == IsCase("merge") /\ Sample([i \in DOMAIN jc.L |-> HKey(LKey(jc.L[i], jc.mode), jc.mode)], [j \in DOMAIN jc.R |-> HKey(RKey(jc.R[j], jc.mode), jc.mode)], 3, HeavyMod)

\* pre-partitioned cases respect the preconditions of their stages, and (design check) a pre-stage that hash-partitions
\* an operand on K' - ANY function of K' - leaves the expected rows as they are: they are those of the plain operands
PreSane ==
  (IsCase("merge") /\ (jc.lpre # NoPre \/ jc.rpre # NoPre)) =>
     /\ PreOK(jc.L, jc.lpre) /\ PreOK(jc.R, jc.rpre)
     /\ je = MergeExpected([jc EXCEPT !.lpre = NoPre, !.rpre = NoPre])

\* hash join: ANY function of the key that sends both operands to 2 partitions, joined partition by partition
Sel(F, key(_), hf, p) == SelectSeq(F, LAMBDA row : hf[key(row)] = p)
HashDecomposes ==
  Heavy =>
    \A hf \in { g \in [KeysNA -> 1..2] : g[NA] = 1 } :        \* (the two partitions are interchangeable)
      \A h \in HowsOf(jc.mode) :
        je.rows[h] = UNION { MergeRows(Sel(jc.L, LAMBDA row : HKey(LKey(row, jc.mode), jc.mode), hf, p),
                                       Sel(jc.R, LAMBDA row : HKey(RKey(row, jc.mode), jc.mode), hf, p), h, jc.mode) : p \in 1..2 }

\* broadcast / single-partition join: ANY row partition of one operand, every part joined with the WHOLE other
\* operand - valid when the other side never contributes unmatched rows
BroadcastDecomposes ==
  Heavy =>
    /\ \A lay \in Layouts(Len(jc.L), MaxParts) : \A h \in HowsOf(jc.mode) \cap {"inner", "left", "leftsemi"} :
          je.rows[h] = UNION { MergeRows(SplitBySizes(jc.L, lay)[p], jc.R, h, jc.mode) : p \in DOMAIN lay }
    /\ \A lay \in Layouts(Len(jc.R), MaxParts) : \A h \in {"inner", "right"} :
          je.rows[h] = UNION { MergeRows(jc.L, SplitBySizes(jc.R, lay)[p], h, jc.mode) : p \in DOMAIN lay }

\* where an order is promised it is an order OF the promised rows, and the joined index is sorted
SeqIsRows ==
  (IsCase("merge") /\ je.seq # <<>>) =>
     \A h \in DOMAIN je.seq :
        /\ BagIsSet(je.seq[h], je.rows[h])
        /\ NonDecreasing([q \in DOMAIN je.seq[h] |-> je.seq[h][q][6]])

\* the judged cells: rids, value cells always; exactly one way of reading the key per naming
MaskSane ==
  IsCase("merge") => \A nm \in DOMAIN je.mask :
     /\ je.mask[nm][1] = 1 /\ je.mask[nm][2] = 1 /\ je.mask[nm][7] = 1 /\ je.mask[nm][8] = 1
     /\ je.mask[nm][4] = je.mask[nm][5] /\ je.mask[nm][4] + je.mask[nm][6] <= 1

ConcatSane ==
  IsCase("concat") =>
    LET fs == jc.frames IN
    /\ Len(je.rows) = SumSeq([f \in DOMAIN fs |-> Len(fs[f].rows)])
    /\ \A f \in DOMAIN fs : SelectSeq(je.rows, LAMBDA t : t[1] = f) = [q \in DOMAIN fs[f].rows |-> ConcatRow(fs, jc.join, f, q)]
    /\ NonDecreasing([q \in DOMAIN je.rows |-> je.rows[q][1]])
    /\ \A q \in DOMAIN je.rows : \A ci \in DOMAIN ColNames :
          LET x == je.rows[q][3 + ci] IN
          /\ (x = Absent) <=> (ColNames[ci] \notin je.cols)
          /\ (x = NA) => ColNames[ci] \notin fs[je.rows[q][1]].cols
    /\ jc.join = "inner" => \A f \in DOMAIN fs : je.cols \subseteq fs[f].cols
    /\ jc.join = "outer" => \A f \in DOMAIN fs : fs[f].cols \subseteq je.cols

\* chained divisions of sorted single-partition operands describe the stacked result
ChainTruthful ==
  IsCase("concat") =>
    LET fs == jc.frames
        ok == \A f \in DOMAIN fs : fs[f].rows # <<>> /\ SortedByIdx(fs[f].rows)
        fd == [f \in DOMAIN fs |-> <<IdxMin(fs[f].rows), IdxMax(fs[f].rows)>>]
    IN (ok /\ MonotonicDivs(fd)) => DivisionsTruthful(ChainedDivs(fd), [f \in DOMAIN fs |-> Idxs(fs[f].rows)])

Concat1Sane ==
  IsCase("concat1") =>
    /\ jc.join = "outer" => /\ { t[2] : t \in je.rows } \ {0} = SeqSet(Rids(jc.L))
                            /\ { t[3] : t \in je.rows } \ {0} = SeqSet(Rids(jc.R))
    /\ jc.join = "inner" => \A t \in je.rows : t[2] # 0 /\ t[3] # 0
    /\ \A t \in je.rows : t[2] # 0 \/ t[3] # 0
    /\ \A t, u \in je.rows : t[1] = u[1] => t = u

AsofSane ==
  IsCase("asof") =>
    LET L == jc.L   R == jc.R IN
    /\ Len(je.pairs) = Len(L)
    /\ \A i \in DOMAIN L :
         LET j == je.pairs[i][2]
             cand == { h \in DOMAIN R : AsofOK(L, R, jc.mode, i, h, jc.direction, jc.exact, jc.tol, jc.by) }
             key(h) == RKey(R[h], jc.mode)
         IN /\ je.pairs[i][1] = L[i].rid
            /\ (j = 0) <=> (cand = {})
            /\ j # 0 => /\ j \in cand
                        /\ jc.direction = "backward" => \A h \in cand : h <= j
                        /\ jc.direction = "forward" => \A h \in cand : h >= j
=============================================================================
