----------------------------- MODULE FrameOpsMC -----------------------------
(* Case enumeration + design check for C36 (spec -> code).

   Sources   a sequence of source tables (cols <<"rid","a","b">>, <= 6 rows),
             chosen by the driver (hand-picked corner frames + seeded ones); in
             the first NU of them rid = row position - 1 and they are the inputs
             of the one-table operations; the others only occur as right
             operands in Pairs;
   Pairs     a sequence of <<kL, kR>> (indexes into Sources): the operand pairs
             of the two-table operations; the right table's rid column is
             scaled by the driver so that L.rid + R.rid names both rows;
   MaxParts  bound on the number of partitions.

   Families (constant Fams, a set of family names: one TLC run enumerates them
   all); the initial states are one seed per (family, source / pair) and the
   cases are their successors (so TLC's workers share the enumeration):
     "ops"      (source, operation)  |->  Apply(T, _, op)     for the operations whose
                result does NOT depend on the partitioning: the statement
                quantifies over every partitioning, so the driver crosses each
                of these cases with every layout of the family "layouts";
     "lops"     (source, layout, operation) for head(n, npartitions = k) and
                tail(n), which are documented to look at whole partitions;
     "layouts"  (source, layout, known?) every way to cut the source into
                <= MaxParts consecutive partitions, empty ones allowed; known =
                the layout admits truthful known divisions of the shape dask's
                constructors produce (sorted index, no empty partition, equal
                labels never straddle a boundary) and then divs = them;
     "aligned"  (pair, operation)  |->  Apply2(L, R, op).

   The invariants are sanity conditions on the reference itself.              *)
EXTENDS FrameOps, Json

CONSTANTS Fams, Sources, NU, Pairs, MaxParts

VARIABLES case, exp, out

(* ------------------------------------------------------------- the menus *)
Col(c)       == [e |-> "col", c |-> c]
K(v)         == [e |-> "const", v |-> v]
Bin(f, l, r) == [e |-> "bin", f |-> f, l |-> l, r |-> r]
U(e, x)      == [e |-> e, x |-> x]
Self         == [e |-> "self"]
Idx          == [e |-> "idx"]
IdxS         == [e |-> "idxs"]
IsIn(x, vs)  == [e |-> "isin", x |-> x, vals |-> vs]
FillNa(x, v) == [e |-> "fillna", x |-> x, v |-> v]
Clip(x, l, h) == [e |-> "clip", x |-> x, lo |-> l, hi |-> h]
Map(x, ps)   == [e |-> "map", x |-> x, pairs |-> ps]
AsType(x, t) == [e |-> "astype", x |-> x, to |-> t]
Where(x, p, o) == [e |-> "where", x |-> x, p |-> p, o |-> o]
Mask(x, p, o)  == [e |-> "mask", x |-> x, p |-> p, o |-> o]
Affine(x, m, q) == [e |-> "affine", x |-> x, m |-> m, q |-> q]

A == Col("a")
B == Col("b")
R == Col("rid")

Preds == <<
  Bin("gt", A, K(0)),                                            \* col o const
  Bin("le", A, B),                                               \* col o col
  Bin("ne", A, B),
  Bin("and", Bin("ge", A, K(1)), Bin("ne", B, K(2))),            \* &
  Bin("or", Bin("eq", A, K(0)), U("isna", B)),                   \* |
  U("not", Bin("lt", B, K(2))),                                  \* ~
  Bin("xor", Bin("gt", A, K(0)), Bin("gt", B, K(0))),
  IsIn(A, <<0, 2>>),                                             \* isin
  Bin("and", U("not", IsIn(B, <<1>>)), U("notna", A)),
  Bin("gt", Bin("add", A, B), K(2)),                             \* arithmetic inside the predicate
  Bin("lt", K(1), R),                                            \* reflected comparison
  Bin("lt", R, K(0)),                                            \* selects nothing
  Bin("ge", R, K(0)),                                            \* selects everything
  Bin("gt", Idx, K(0)),                                          \* predicate on the index (array)
  Bin("and", Bin("le", Idx, K(1)), Bin("gt", A, K(0))),
  Bin("gt", IdxS, K(0)),                                         \* predicate on the index (as a Series)
  Bin("and", Bin("le", IdxS, K(1)), Bin("gt", A, K(0)))
>>

SeriesExprs == <<
  A, R,
  Bin("add", A, B), Bin("sub", A, K(1)), Bin("mul", A, R), Bin("add", K(1), A), Bin("sub", K(2), B),
  Bin("mul", R, K(2)), Bin("add", R, R), Bin("sub", Bin("mul", A, K(2)), B),
  Bin("lt", A, B), Bin("eq", A, K(1)), Bin("ne", B, K(0)), Bin("ge", R, K(2)),
  U("neg", A), U("abs", Bin("sub", A, K(1))), U("isna", A), U("notna", B), U("not", Bin("gt", A, K(0))),
  IsIn(B, <<0, 1>>),
  FillNa(A, 7), FillNa(R, 7),
  Clip(A, 1, NA), Clip(B, NA, 1), Clip(R, 1, 2),
  Map(A, << <<0, 5>>, <<1, 6>> >>), Map(B, << <<0, 1>>, <<1, 2>>, <<2, 0>> >>), Map(R, << <<0, 3>>, <<1, 4>>, <<2, 5>>, <<3, 6>>, <<4, 7>>, <<5, 8>> >>),
  AsType(R, "f"), AsType(A, "i"), AsType(FillNa(A, 0), "i"), AsType(Bin("gt", A, K(0)), "i"),
  Where(A, Bin("gt", A, K(0)), NA), Where(A, Bin("gt", B, K(0)), 5), Where(R, Bin("gt", A, K(0)), NA), Where(R, Bin("ge", R, K(0)), NA),
  Mask(B, Bin("eq", A, B), NA), Mask(R, U("isna", A), 0 - 1),
  Affine(A, 2, 1), Affine(R, 3, 0 - 1),
  Bin("add", FillNa(A, 0), Clip(B, 0, 1))
>>

FrameExprs == <<                                                  \* applied to T[["a","b"]] column by column
  Bin("add", Self, K(1)), Bin("mul", Self, K(2)), Bin("sub", K(3), Self),
  Bin("gt", Self, K(1)), Bin("eq", Self, K(0)), Bin("ne", Self, K(2)), Bin("le", K(1), Self),
  FillNa(Self, 0), Clip(Self, 0, 1), Clip(Self, 1, NA),
  Where(Self, Bin("gt", Self, K(0)), NA), Where(Self, Bin("gt", Self, K(0)), 5), Mask(Self, Bin("eq", Self, K(1)), NA),
  AsType(Self, "f"), AsType(Self, "i"), U("isna", Self), U("notna", Self), U("neg", Self), U("abs", Bin("sub", Self, K(1))),
  IsIn(Self, <<0, 1>>)
>>

OpMenu ==
     [j \in DOMAIN SeriesExprs |-> [op |-> "series", x |-> SeriesExprs[j]]]
  \o [j \in DOMAIN Preds |-> [op |-> "filter", p |-> Preds[j]]]
  \o << [op |-> "sfilter", x |-> A, p |-> Preds[1]], [op |-> "sfilter", x |-> R, p |-> Preds[2]],
        [op |-> "sfilter", x |-> Bin("add", A, R), p |-> Preds[5]], [op |-> "sfilter", x |-> R, p |-> Preds[14]], [op |-> "sfilter", x |-> R, p |-> Preds[16]],
        [op |-> "series", x |-> Bin("ne", IdxS, A)], [op |-> "series", x |-> Bin("add", A, IdxS)] >>
  \o << [op |-> "project", cols |-> <<"a">>], [op |-> "project", cols |-> <<"b", "rid">>],
        [op |-> "project", cols |-> <<"rid", "a", "b">>], [op |-> "project", cols |-> <<"b", "a", "rid">>] >>
  \o << [op |-> "assign", name |-> "c", x |-> Bin("add", A, B)], [op |-> "assign", name |-> "a", x |-> Bin("mul", A, K(2))],
        [op |-> "assign", name |-> "c", x |-> K(3)], [op |-> "assign", name |-> "b", x |-> R],
        [op |-> "assign", name |-> "c", x |-> Bin("gt", A, B)], [op |-> "assign", name |-> "rid", x |-> Bin("add", R, K(10))],
        [op |-> "assign", name |-> "c", x |-> Where(R, Bin("gt", A, K(0)), NA)] >>
  \o [j \in DOMAIN FrameExprs |-> [op |-> "fmap", cols |-> <<"a", "b">>, x |-> FrameExprs[j]]]
  \o << [op |-> "fmap", cols |-> <<"rid", "a">>, x |-> Bin("add", Self, K(1))],
        [op |-> "fmap", cols |-> <<"b", "rid">>, x |-> AsType(Self, "f")],
        [op |-> "fmap", cols |-> <<"rid">>, x |-> Where(Self, Bin("gt", Self, K(1)), NA)] >>
  \o << [op |-> "fmapcol", cols |-> <<"a", "b">>, c |-> "b", x |-> FillNa(Self, 0)],
        [op |-> "fmapcol", cols |-> <<"a", "b">>, c |-> "a", x |-> Bin("add", Self, K(1))],
        [op |-> "fmapcol", cols |-> <<"a", "b">>, c |-> "b", x |-> Where(Self, Bin("gt", Self, K(0)), 5)],
        [op |-> "fmapcol", cols |-> <<"b">>, c |-> "b", x |-> Where(Self, Bin("gt", Self, K(0)), NA)],
        [op |-> "fmapcol", cols |-> <<"a", "b", "rid">>, c |-> "rid", x |-> Mask(Self, Bin("eq", Self, K(1)), NA)] >>
  \o << [op |-> "seq", first |-> [op |-> "filter", p |-> Bin("ge", R, K(1))], second |-> [op |-> "sfilter", x |-> A, p |-> Bin("gt", IdxS, K(0))]],
        [op |-> "seq", first |-> [op |-> "filter", p |-> Bin("ge", R, K(1))], second |-> [op |-> "assign", name |-> "c", x |-> Where(R, Bin("ge", IdxS, K(1)), NA)]],
        [op |-> "seq", first |-> [op |-> "filter", p |-> Bin("gt", A, K(0))], second |-> [op |-> "filter", p |-> Bin("lt", B, K(2))]],
        [op |-> "seq", first |-> [op |-> "filter", p |-> Bin("ge", R, K(1))], second |-> [op |-> "series", x |-> Bin("add", A, B)]],
        [op |-> "seq", first |-> [op |-> "assign", name |-> "c", x |-> Bin("add", A, R)], second |-> [op |-> "filter", p |-> Bin("gt", Col("c"), K(1))]],
        [op |-> "seq", first |-> [op |-> "head", n |-> 3, np |-> 0 - 1], second |-> [op |-> "assign", name |-> "a", x |-> FillNa(A, 0)]],
        [op |-> "seq", first |-> [op |-> "seq", first |-> [op |-> "assign", name |-> "c", x |-> Bin("add", A, K(1))],
                                                second |-> [op |-> "assign", name |-> "d", x |-> Bin("mul", R, K(2))]],
                       second |-> [op |-> "assign", name |-> "c", x |-> Bin("sub", R, K(1))]] >>
  \o << [op |-> "rename", ren |-> << <<"a", "x">> >>], [op |-> "rename", ren |-> << <<"a", "x">>, <<"b", "y">> >>],
        [op |-> "rename", ren |-> << <<"a", "b">>, <<"b", "a">> >>], [op |-> "rename", ren |-> << <<"zz", "x">> >>] >>
  \o [j \in 1..5 |-> [op |-> "head", n |-> <<0, 1, 2, 4, 7>>[j], np |-> 0 - 1]]
  \o << [op |-> "loc", a |-> NA, b |-> NA], [op |-> "loc", a |-> 1, b |-> NA], [op |-> "loc", a |-> NA, b |-> 1],
        [op |-> "loc", a |-> 0, b |-> 1], [op |-> "loc", a |-> 1, b |-> 1], [op |-> "loc", a |-> 1, b |-> 3],
        [op |-> "loc", a |-> 0 - 1, b |-> 0], [op |-> "loc", a |-> 2, b |-> 0], [op |-> "loc", a |-> 3, b |-> 1], [op |-> "loc", a |-> 3, b |-> NA] >>

(* Two systematic families of two-step programs (field tag), enumerated completely:

   "proj-after"    every operation through which dask pushes a column projection (frame-wide fillna / clip /
                   isna / replace / round / where / mask / astype / arithmetic / comparison, a row filter, head,
                   a label slice, assign, rename) followed by EVERY list projection of two or three of its
                   columns in EVERY order (and one single-column list and one scalar column): the column ORDER
                   of the result is the order of the requested list;
   "filter-after"  every value-changing operation (fillna, replace, clip, where, mask, astype, isna,
                   assign-overwrite, rename) followed by a row filter / Series filter / assign whose expression
                   READS the changed column, with constants chosen so that the changed cells (the former NaN,
                   the replaced value) SATISFY the predicate: a filter pushed below the operation would read the
                   unchanged cells and lose exactly those rows.                                                *)
AllCols == <<"rid", "a", "b">>
FM(x)   == [op |-> "fmap", cols |-> AllCols, x |-> x]

PassOps == <<
  FM(FillNa(Self, 0)), FM(Clip(Self, 0, 1)), FM(U("isna", Self)), FM([e |-> "replace", x |-> Self, k |-> 1, v |-> 7]),
  FM(U("round", Self)), FM(Where(Self, Bin("gt", Self, K(0)), NA)), FM(Mask(Self, Bin("eq", Self, K(1)), 5)),
  FM(AsType(Self, "f")), FM(Bin("add", Self, K(1))), FM(Bin("gt", Self, K(0))), FM(U("neg", Self)),
  [op |-> "filter", p |-> Bin("gt", A, K(0))], [op |-> "head", n |-> 4, np |-> 0 - 1], [op |-> "loc", a |-> 1, b |-> NA],
  [op |-> "assign", name |-> "a", x |-> FillNa(A, 0)]
>>

ProjLists == <<
  <<"rid", "a">>, <<"a", "rid">>, <<"rid", "b">>, <<"b", "rid">>, <<"a", "b">>, <<"b", "a">>,
  <<"rid", "a", "b">>, <<"rid", "b", "a">>, <<"a", "rid", "b">>, <<"a", "b", "rid">>, <<"b", "rid", "a">>, <<"b", "a", "rid">>,
  <<"b">>
>>

Seq2(f, g, t) == [op |-> "seq", first |-> f, second |-> g, tag |-> t]

ProjAfter ==
     [j \in 1..(Len(PassOps) * Len(ProjLists)) |->
        Seq2(PassOps[((j - 1) \div Len(ProjLists)) + 1], [op |-> "project", cols |-> ProjLists[((j - 1) % Len(ProjLists)) + 1]], "proj-after")]
  \o [j \in DOMAIN PassOps |-> Seq2(PassOps[j], [op |-> "series", x |-> B], "proj-after")]
  \o << Seq2([op |-> "assign", name |-> "c", x |-> Bin("add", A, R)], [op |-> "project", cols |-> <<"c", "a">>], "proj-after"),
        Seq2([op |-> "assign", name |-> "c", x |-> Bin("add", A, R)], [op |-> "project", cols |-> <<"b", "c", "rid">>], "proj-after"),
        Seq2([op |-> "rename", ren |-> << <<"a", "x">> >>], [op |-> "project", cols |-> <<"x", "rid">>], "proj-after"),
        Seq2([op |-> "rename", ren |-> << <<"a", "x">> >>], [op |-> "project", cols |-> <<"b", "x", "rid">>], "proj-after") >>

\* value-changing first steps, each with predicates the CHANGED cells satisfy
ChangeOps == <<
  << FM(FillNa(Self, 1)),                       << Bin("ge", A, K(1)), Bin("eq", B, K(1)), Bin("and", Bin("ge", A, K(1)), Bin("ge", B, K(0))), Bin("lt", Bin("add", A, B), K(9)) >> >>,
  << [op |-> "assign", name |-> "a", x |-> FillNa(A, 1)],   << Bin("ge", A, K(1)), Bin("eq", A, K(1)) >> >>,
  << [op |-> "assign", name |-> "b", x |-> FillNa(B, 7)],   << Bin("gt", B, K(2)), Bin("or", Bin("gt", B, K(6)), Bin("gt", A, K(1))) >> >>,
  << FM([e |-> "replace", x |-> Self, k |-> 0, v |-> 5]),  << Bin("gt", A, K(2)), Bin("eq", B, K(5)) >> >>,
  << FM(Clip(Self, 1, NA)),                     << Bin("eq", A, K(1)), Bin("ge", B, K(1)) >> >>,
  << FM(Where(Self, Bin("gt", Self, K(0)), 5)), << Bin("eq", A, K(5)), Bin("ge", B, K(5)) >> >>,
  << FM(Mask(Self, Bin("eq", Self, K(0)), 9)),  << Bin("gt", A, K(8)), Bin("eq", B, K(9)) >> >>,
  << FM(Mask(Self, U("isna", Self), 3)),        << Bin("eq", A, K(3)), Bin("ge", B, K(3)) >> >>,
  << FM(AsType(FillNa(Self, 2), "i")),          << Bin("eq", A, K(2)), Bin("gt", B, K(1)) >> >>,
  << [op |-> "assign", name |-> "a", x |-> U("isna", A)],   << A, Bin("and", A, Bin("ge", R, K(0))) >> >>,
  << [op |-> "assign", name |-> "a", x |-> Bin("mul", A, K(3))],   << Bin("gt", A, K(2)), Bin("eq", A, K(3)) >> >>,
  << FM(Bin("add", Self, K(1))),                << Bin("gt", A, K(2)), Bin("eq", B, K(1)) >> >>
>>

RECURSIVE FilterAfterOf(_)
FilterAfterOf(j) ==
  IF j = 0 THEN <<>>
  ELSE LET v  == ChangeOps[j][1]
           ps == ChangeOps[j][2]
       IN FilterAfterOf(j - 1)
          \o [q \in DOMAIN ps |-> Seq2(v, [op |-> "filter", p |-> ps[q]], "filter-after")]
          \o << Seq2(v, [op |-> "sfilter", x |-> R, p |-> ps[1]], "filter-after"),
                Seq2(v, [op |-> "assign", name |-> "c", x |-> Where(R, ps[1], NA)], "filter-after"),
                Seq2(Seq2(v, [op |-> "filter", p |-> ps[1]], "filter-after"), [op |-> "project", cols |-> <<"b", "rid">>], "filter-after") >>
FilterAfter ==
  FilterAfterOf(Len(ChangeOps))
  \o << Seq2([op |-> "rename", ren |-> << <<"a", "x">> >>], [op |-> "filter", p |-> Bin("gt", Col("x"), K(0))], "filter-after"),
        [op |-> "sfilter", x |-> FillNa(A, 1), p |-> Bin("ge", FillNa(A, 1), K(1)), tag |-> "filter-after"],
        [op |-> "sfilter", x |-> FillNa(B, 0 - 1), p |-> Bin("lt", FillNa(B, 0 - 1), K(0)), tag |-> "filter-after"] >>

FamMenu == ProjAfter \o FilterAfter

LOpMenu ==
     [j \in 1..6 |-> [op |-> "head", n |-> <<1, 2, 3, 1, 2, 4>>[j], np |-> <<1, 1, 1, 2, 2, 3>>[j]]]
  \o [j \in 1..3 |-> [op |-> "tail", n |-> <<1, 2, 5>>[j]]]

AOpMenu ==
  << [op |-> "abin", f |-> "add", lc |-> "rid", rc |-> "rid"],
     [op |-> "abin", f |-> "add", lc |-> "a", rc |-> "a"],
     [op |-> "abin", f |-> "sub", lc |-> "a", rc |-> "b"],
     [op |-> "abin", f |-> "mul", lc |-> "b", rc |-> "a"],
     [op |-> "afbin", f |-> "add", cols |-> <<"rid", "a">>],
     [op |-> "afbin", f |-> "sub", cols |-> <<"a", "b">>],
     [op |-> "afbin", f |-> "add", cols |-> <<"rid", "a", "b">>],
     [op |-> "afilter", p |-> Bin("gt", A, K(0))],
     [op |-> "afilter", p |-> Bin("ne", A, B)],
     [op |-> "aassign", name |-> "c", x |-> R],
     [op |-> "aassign", name |-> "a", x |-> Bin("add", A, B)],
     [op |-> "awhere", c |-> "rid", p |-> Bin("gt", A, K(0)), o |-> NA],
     [op |-> "awhere", c |-> "a", p |-> Bin("le", A, B), o |-> 5],
     [op |-> "amask", c |-> "rid", p |-> U("isna", A), o |-> NA] >>

(* -------------------------------------------------------------- validity *)
SortedIdx(T) == NonDecreasing(TIdx(T))

\* the operation is inside the domain of the check for this table
RECURSIVE HasLoc(_)
HasLoc(o) == o.op = "loc" \/ (o.op = "seq" /\ (HasLoc(o.first) \/ HasLoc(o.second)))
Valid(T, o) == HasLoc(o) => SortedIdx(T)

\* known divisions of the shape dask's constructors produce
KnownOK(T, lay) ==
  /\ NRows(T) > 0 /\ SortedIdx(T)
  /\ \A i \in DOMAIN lay : lay[i] > 0
  /\ \A i \in 1..(Len(lay) - 1) : T.rows[Offset(lay, i + 1)].idx < T.rows[Offset(lay, i + 1) + 1].idx

DivsOf(T, lay) == [i \in 1..(Len(lay) + 1) |-> IF i <= Len(lay) THEN T.rows[Offset(lay, i) + 1].idx ELSE T.rows[NRows(T)].idx]

(* ------------------------------------------------------------ enumeration *)
vars == <<case, exp, out>>

Seeds(f) == IF f = "aligned" THEN DOMAIN Pairs ELSE IF f = "layouts" THEN DOMAIN Sources ELSE 1..NU

Init == /\ case \in UNION { { [fam |-> f, seed |-> k] : k \in Seeds(f) } : f \in Fams }
        /\ exp = 0
        /\ out = ""

Emit(c, e) == /\ case' = c
              /\ exp' = e
              /\ out' = ToJson([c |-> c, e |-> e])

Next ==
  /\ out = ""
  /\ LET k == case.seed
         Fam == case.fam IN
     CASE Fam = "ops" ->
            \/ \E j \in DOMAIN OpMenu :
                  /\ Valid(Sources[k], OpMenu[j])
                  /\ Emit([fam |-> "ops", src |-> k, op |-> OpMenu[j]], Apply(Sources[k], <<>>, OpMenu[j]))
            \/ \E j \in DOMAIN FamMenu :
                  /\ Valid(Sources[k], FamMenu[j])
                  /\ Emit([fam |-> "ops", src |-> k, op |-> FamMenu[j]], Apply(Sources[k], <<>>, FamMenu[j]))
       [] Fam = "lops" ->
            \E lay \in Layouts(NRows(Sources[k]), MaxParts), j \in DOMAIN LOpMenu :
               /\ (LOpMenu[j].op = "head" => LOpMenu[j].np <= Len(lay))
               /\ Emit([fam |-> "lops", src |-> k, layout |-> lay, op |-> LOpMenu[j]], Apply(Sources[k], lay, LOpMenu[j]))
       [] Fam = "layouts" ->
            \E lay \in Layouts(NRows(Sources[k]), MaxParts) :
               LET kn == KnownOK(Sources[k], lay)
               IN Emit([fam |-> "layouts", src |-> k, layout |-> lay],
                       [known |-> kn, divs |-> IF kn THEN DivsOf(Sources[k], lay) ELSE <<>>])
       [] Fam = "aligned" ->
            \E j \in DOMAIN AOpMenu :
               Emit([fam |-> "aligned", l |-> Pairs[k][1], r |-> Pairs[k][2], op |-> AOpMenu[j]],
                    Apply2(Sources[Pairs[k][1]], Sources[Pairs[k][2]], AOpMenu[j]))

(* ---------------------------------------------- design-check invariants  *)
IsCase == out # ""
Tbl == Sources[case.src]
TableCase == IsCase /\ case.fam \in {"ops", "lops"}

\* every reference result is a well-formed table
ExpOK == (IsCase /\ case.fam # "layouts") => (exp.err \/ TableOK(exp))

\* a list projection on top of anything returns exactly the requested columns in the requested order
ProjectionOrder ==
  (TableCase /\ case.op.op = "seq" /\ case.op.second.op = "project" /\ ~exp.err) => exp.cols = case.op.second.cols

\* the filter of a "filter-after" program is evaluated on the CHANGED table: every row it keeps satisfies the predicate there
\* (and the family is not vacuous: see FilterAfterBites in the driver's evidence, counted over all sources)
FilterAfterSound ==
  (TableCase /\ case.op.op = "seq" /\ case.op.second.op = "filter" /\ ~exp.err)
     => LET mid == Apply(Tbl, <<>>, case.op.first)
            p   == Eval(mid, case.op.second.p, "")
        IN Len(exp.rows) = Cardinality({ k \in DOMAIN mid.rows : p.vals[k] = 1 })

\* elementwise operations keep the index and the row order
ElementwiseKeepsIndex ==
  (TableCase /\ case.op.op \in {"series", "assign", "fmap", "fmapcol", "rename", "project"} /\ ~exp.err)
     => IdxSeq(exp.rows) = TIdx(Tbl)

\* selections return whole source rows, in source order (rid = source position - 1)
RidOf(row) == row.v[1]
SelectionIsSubsequence ==
  (TableCase /\ case.op.op \in {"filter", "head", "tail", "loc"} /\ ~exp.err)
     => /\ exp.cols = Tbl.cols /\ exp.kinds = Tbl.kinds
        /\ \A j \in DOMAIN exp.rows : exp.rows[j] = Tbl.rows[RidOf(exp.rows[j]) + 1]
        /\ \A j \in 1..(Len(exp.rows) - 1) : RidOf(exp.rows[j]) < RidOf(exp.rows[j + 1])

\* head over all partitions returns exactly min(n, rows) rows, the first ones
HeadAll == (TableCase /\ case.op.op = "head" /\ case.op.np = 0 - 1)
             => exp.rows = SubSeq(Tbl.rows, 1, IF case.op.n < NRows(Tbl) THEN case.op.n ELSE NRows(Tbl))

\* outer alignment: sorted result index; every row of either side is used; identical indexes are positional
AlignedShape ==
  (IsCase /\ case.fam = "aligned" /\ case.op.op \in {"abin", "afbin"})
     => LET L == Sources[case.l]  RR == Sources[case.r]
            cnt(T, x) == Cardinality({ q \in DOMAIN T.rows : T.rows[q].idx = x })
            mx(n) == IF n = 0 THEN 1 ELSE n
        IN /\ NonDecreasing(IdxSeq(exp.rows))
           /\ SameIndex(L, RR) => IdxSeq(exp.rows) = TIdx(L)
           /\ ~SameIndex(L, RR) =>
                \A x \in SeqSet(TIdx(L)) \cup SeqSet(TIdx(RR)) :
                   Cardinality({ q \in DOMAIN exp.rows : exp.rows[q].idx = x }) = mx(cnt(L, x)) * mx(cnt(RR, x))

\* layouts really cut the source; declared divisions are truthful (Frames!Truthful)
LayoutsOK ==
  (IsCase /\ case.fam = "layouts")
     => /\ SumSeq(case.layout) = NRows(Tbl)
        /\ exp.known => DivisionsTruthful(exp.divs, [i \in DOMAIN case.layout |->
                            [q \in 1..case.layout[i] |-> Tbl.rows[Offset(case.layout, i) + q].idx]])
=============================================================================
