--------------------------- MODULE FrameMetaTrace ---------------------------
(* code -> spec for C42: one record per collection produced by a recorded
   program (every intermediate of the seeded C36 pipelines, every entry of the
   rich-dtype operation menu incl. string / datetime / categorical accessors,
   reductions, groupby aggregations, merges, concatenations, sorts):
     [id, obs |-> [meta, whole, parts, nparts]]
   TLC evaluates the invariant of module FrameMeta on each.                   *)
EXTENDS FrameMeta, TraceIO

Bad(r) == MetaBad(r.obs)

Init == TInit
Next == TNext(Bad)
=============================================================================
