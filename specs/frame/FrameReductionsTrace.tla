------------------------ MODULE FrameReductionsTrace ------------------------
(* code -> spec for C37: each record is one reduction / aggregation call made on
   a real dask DataFrame or Series - the case fields of module FrameReductions
   (fam, op, tgt, ax, sk, fl, p, cols, rows, scol), the row partitioning, the
   way the collection was built and the split_every it was run with (which the
   expected result must not depend on, so the specification does not look at
   them), and what was observed, projected by the harness: kind of result,
   its index, its values.  Observed floats are logged as the rational with a
   small denominator next to them when they are within the stated tolerance of
   it (obs.close; std and sem are logged squared), so that TLC decides
   equality of exact rationals.                                               *)
EXTENDS FrameReductions, TraceIO

Bad(r) == Verdict(r, r.obs)

Init == TInit
Next == TNext(Bad)
=============================================================================
