---------------------------- MODULE GroupByTrace ----------------------------
(* code -> spec for C38: each record is one groupby call made on a real dask
   DataFrame - the case fields of module GroupBy (fam, form / op, tgt, funcs /
   cols, keys, dropna, sort, cats, observed, vcols, rows), the row partitioning
   and the split_out / split_every / shuffle method it was run with (which the
   expected result must not depend on, so the specification does not look at
   them), and what was observed, projected by the harness: kind of result,
   group keys or index labels in observed order, result columns, one row of
   exact rationals per key (floats as the small rational next to them when
   within tolerance, obs.close; std squared).                                 *)
EXTENDS GroupBy, TraceIO

Bad(r) == GVerdict(r, r.obs)

Init == TInit
Next == TNext(Bad)
=============================================================================
