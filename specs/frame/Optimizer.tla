----------------------------- MODULE Optimizer -----------------------------
(* C43 - the dataframe optimizer preserves results and converges.

   PROGRAMS.  A logical dataframe program is a source table S (FromPandas),
   a sequence of STEPS applied to it in order and a FINAL form that says what
   is asked of the last frame:

     step  [k |-> "project", cols |-> <<names>>]           F[[names]]
           [k |-> "filter",  p |-> X]                      F[X]
           [k |-> "assign",  name |-> c, x |-> X]          F.assign(c = X)     (c new, or shadowing a column)
           [k |-> "fmap",    f |-> "addc" | "fillna", v |-> i]
                                                           F + v | F.fillna(v)  (frame-level elementwise)
           [k |-> "head",    n |-> n]                      F.head(n, npartitions = -1)
     final [k |-> "frame"]                                 the frame itself
           [k |-> "col", c |-> name]                       F[name]             (a Series)
           [k |-> "red", op |-> "sum"|"min"|"max"|"count", c |-> name]
                                                           F[name].op()        (a scalar)

   X is a column expression over the frame the step is applied to: the
   expressions of module FrameOps ("col", "const", "bin", "not", "isna",
   "notna", "isin", "fillna") plus
           [e |-> "red", op |-> ..., x |-> X]              X.op(): a REDUCTION of a column expression,
                                                           broadcast as a scalar ("reductions inside predicates")
   Every reference to a column of the current frame is a consumer of that
   frame, so these linear programs denote DAGs with shared sub-expressions
   once written as an expression graph (dask makes structurally equal
   sub-expressions one node).

   DENOTATION.  DenoteFrame(S, prog) is the table (module FrameAlgebra) pandas
   computes: the steps are the operations "project" / "filter" / "assign" /
   "fmap" / "head" of module FrameOps (the reference semantics of C36),
   reductions resolved against the frame they are taken of.  A scalar result
   is written as a one-row Series named "#".

   REWRITING.  Rule(r, i) rewrites the steps at position i.  The rules are the
   ones the design names - projection pushdown through filter / assign /
   elementwise / head, projection fusion and identity, dead-assign
   elimination, filter pushdown through assign, filter fusion, head pushdown
   and fusion, and the column projection a Series / scalar result induces.
   The real optimizer has more rules and works on an expression graph; nothing
   here requires it to use exactly these (module OptimizerTrace only compares
   RESULTS of the real stages with DenoteFrame).  What TLC proves about this
   rule set on all small programs (module OptimizerMC): every rule application
   preserves DenoteFrame, rewriting always terminates (no cycle), terminal
   programs are fixpoints of the normalisation strategy.                      *)
EXTENDS FrameOps, TLC, Json

(* ------------------------------------------------ column expressions + "red" *)
XCol(c)       == [e |-> "col", c |-> c]
XK(v)         == [e |-> "const", v |-> v]
XBin(f, l, r) == [e |-> "bin", f |-> f, l |-> l, r |-> r]
XU(e, x)      == [e |-> e, x |-> x]
XIsIn(x, vs)  == [e |-> "isin", x |-> x, vals |-> vs]
XFillNa(x, v) == [e |-> "fillna", x |-> x, v |-> v]
XRed(op, x)   == [e |-> "red", op |-> op, x |-> x]
XSelf         == [e |-> "self"]

Unary == {"not", "isna", "notna", "isin", "fillna"}

\* value of a reduction over cells (skipna): sum of nothing is 0, min / max of nothing NaN
RedVal(op, vals) ==
  LET valid == SelectSeq(vals, LAMBDA v : v # NA)
      S == { valid[j] : j \in DOMAIN valid }
  IN CASE op = "sum"   -> SumSeq(valid)
       [] op = "count" -> Len(valid)
       [] op = "min"   -> IF S = {} THEN NA ELSE Min(S)
       [] op = "max"   -> IF S = {} THEN NA ELSE Max(S)
\* its dtype class: count is an integer; sum / min / max keep the class, NaN needs a float
RedKind(op, kind, val) == IF op = "count" THEN "i" ELSE IF val = NA \/ kind = "f" THEN "f" ELSE "i"

\* reductions evaluated on table T and replaced by constants of the right dtype class
RECURSIVE Resolve(_, _)
Resolve(T, x) ==
  CASE x.e \in {"col", "const", "self"} -> x
    [] x.e = "bin"   -> [x EXCEPT !.l = Resolve(T, x.l), !.r = Resolve(T, x.r)]
    [] x.e \in Unary -> [x EXCEPT !.x = Resolve(T, x.x)]
    [] x.e = "red"   ->
         LET col == Eval(T, Resolve(T, x.x), "")
             val == RedVal(x.op, col.vals)
         IN [e |-> "astype", x |-> XK(val), to |-> RedKind(x.op, col.kind, val)]

\* the columns an expression reads (also inside reductions); does it contain a reduction
RECURSIVE ExprCols(_)
ExprCols(x) ==
  CASE x.e = "col" -> {x.c}
    [] x.e \in {"const", "self"} -> {}
    [] x.e = "bin" -> ExprCols(x.l) \cup ExprCols(x.r)
    [] OTHER -> ExprCols(x.x)
RECURSIVE HasRed(_)
HasRed(x) ==
  CASE x.e = "red" -> TRUE
    [] x.e \in {"col", "const", "self"} -> FALSE
    [] x.e = "bin" -> HasRed(x.l) \/ HasRed(x.r)
    [] OTHER -> HasRed(x.x)
\* x with every reference to column c replaced by expression v
RECURSIVE Subst(_, _, _)
Subst(x, c, v) ==
  CASE x.e = "col" -> IF x.c = c THEN v ELSE x
    [] x.e \in {"const", "self"} -> x
    [] x.e = "bin" -> [x EXCEPT !.l = Subst(x.l, c, v), !.r = Subst(x.r, c, v)]
    [] OTHER -> [x EXCEPT !.x = Subst(x.x, c, v)]

(* ------------------------------------------------------------------ denotation *)
StepOp(T, st) ==
  CASE st.k = "project" -> [op |-> "project", cols |-> st.cols]
    [] st.k = "filter"  -> [op |-> "filter", p |-> Resolve(T, st.p)]
    [] st.k = "assign"  -> [op |-> "assign", name |-> st.name, x |-> Resolve(T, st.x)]
    [] st.k = "fmap"    -> [op |-> "fmap", cols |-> T.cols,
                            x |-> IF st.f = "addc" THEN XBin("add", XSelf, XK(st.v)) ELSE XFillNa(XSelf, st.v)]
    [] st.k = "head"    -> [op |-> "head", n |-> st.n, np |-> 0 - 1]

RECURSIVE RunSteps(_, _)
RunSteps(T, steps) ==
  IF steps = <<>> THEN T ELSE RunSteps(Apply(T, <<>>, StepOp(T, steps[1])), SubSeq(steps, 2, Len(steps)))

Scalar(val, kind) == [ser |-> TRUE, err |-> FALSE, cols |-> <<"#">>, kinds |-> <<kind>>, rows |-> <<[idx |-> 0, v |-> <<val>>]>>]

Finish(T, fin) ==
  CASE fin.k = "frame" -> T
    [] fin.k = "col"   -> SeriesOf(T, ColOf(T, fin.c))
    [] fin.k = "red"   -> LET col == ColOf(T, fin.c)
                              val == RedVal(fin.op, col.vals)
                          IN Scalar(val, RedKind(fin.op, col.kind, val))

DenoteFrame(S, prog) == Finish(RunSteps(S, prog.steps), prog.fin)

\* what is compared: structure, dtype classes, rows (index label + cells) in order
Shape(T) == [ser |-> T.ser, cols |-> T.cols, kinds |-> T.kinds, rows |-> T.rows]

(* --------------------------------------------------------- static column tracking *)
ColsStep(cols, st) ==
  CASE st.k = "project" -> st.cols
    [] st.k = "assign"  -> IF \E j \in DOMAIN cols : cols[j] = st.name THEN cols ELSE Append(cols, st.name)
    [] OTHER -> cols
RECURSIVE ColsAfter(_, _, _)
ColsAfter(cols, steps, i) == IF i = 0 THEN cols ELSE ColsStep(ColsAfter(cols, steps, i - 1), steps[i])

StepReads(st) == CASE st.k = "project" -> SeqSet(st.cols)
                   [] st.k = "filter"  -> ExprCols(st.p)
                   [] st.k = "assign"  -> ExprCols(st.x)
                   [] OTHER -> {}
\* every step only reads columns that exist when it runs; the final form likewise
WellFormed(cols0, prog) ==
  /\ \A i \in DOMAIN prog.steps : StepReads(prog.steps[i]) \subseteq SeqSet(ColsAfter(cols0, prog.steps, i - 1))
  /\ \A i \in DOMAIN prog.steps : prog.steps[i].k = "project" =>
        (prog.steps[i].cols # <<>> /\ Cardinality(SeqSet(prog.steps[i].cols)) = Len(prog.steps[i].cols))
  /\ prog.fin.k \in {"col", "red"} => prog.fin.c \in SeqSet(ColsAfter(cols0, prog.steps, Len(prog.steps)))

\* the columns of `cols` (in that order) that are in set W
KeepCols(cols, W) == SelectSeq(cols, LAMBDA c : c \in W)

(* ------------------------------------------------------------------------ rules *)
Rules == <<"PP", "PI", "PF", "PA", "PM", "PH", "FA", "FF", "HH", "HM", "HA", "FinP">>

Splice(steps, i, n, new) == SubSeq(steps, 1, i - 1) \o new \o SubSeq(steps, i + n, Len(steps))
Proj(cols) == [k |-> "project", cols |-> cols]

(* Rewrite(cols0, prog, r, i): the program after applying rule r at step position i, or
   Nothing when the rule does not apply there.  `before` = the columns of the frame step i is
   applied to.  Projections move TOWARDS the source, past filters, assigns, elementwise steps and
   heads (guarded so that a projection that narrows nothing is never inserted: the real optimizer
   protects itself the same way); filters move towards the source past assigns that hold no
   reduction; heads move past row-wise steps.                                              *)
Nothing == [steps |-> <<>>, fin |-> [k |-> "none"]]

Rewrite(cols0, prog, r, i) ==
  LET steps  == prog.steps
      n      == Len(steps)
      before == ColsAfter(cols0, steps, i - 1)
      s1     == steps[i]
      s2     == steps[i + 1]
      pair   == i + 1 <= n
      done(new, k) == [prog EXCEPT !.steps = Splice(steps, i, k, new)]
  IN
  IF r = "FinP" THEN
       \* a Series / scalar result only needs its column: project it (once) at the end
       IF i = n + 1 /\ prog.fin.k \in {"col", "red"} /\ ColsAfter(cols0, steps, n) # <<prog.fin.c>>
       THEN [prog EXCEPT !.steps = Append(steps, Proj(<<prog.fin.c>>))] ELSE Nothing
  ELSE IF i > n THEN Nothing
  ELSE IF r = "PI" THEN          \* projection of all columns in frame order
       IF s1.k = "project" /\ s1.cols = before THEN done(<<>>, 1) ELSE Nothing
  ELSE IF ~pair THEN Nothing
  ELSE IF r = "PP" THEN          \* projection fusion
       IF s1.k = "project" /\ s2.k = "project" THEN done(<<s2>>, 2) ELSE Nothing
  ELSE IF r = "PF" THEN          \* projection through filter
       IF s1.k = "filter" /\ s2.k = "project"
       THEN LET need == KeepCols(before, SeqSet(s2.cols) \cup ExprCols(s1.p))
            IN IF need = before THEN Nothing
               ELSE IF need = s2.cols THEN done(<<s2, s1>>, 2) ELSE done(<<Proj(need), s1, s2>>, 2)
       ELSE Nothing
  ELSE IF r = "PA" THEN          \* projection through assign; dead-assign elimination
       IF s1.k = "assign" /\ s2.k = "project"
       THEN IF s1.name \notin SeqSet(s2.cols) THEN done(<<s2>>, 2)
            ELSE LET need == KeepCols(before, (SeqSet(s2.cols) \ {s1.name}) \cup ExprCols(s1.x))
                 IN IF need = before \/ need = <<>> THEN Nothing ELSE done(<<Proj(need), s1, s2>>, 2)
       ELSE Nothing
  ELSE IF r = "PM" THEN          \* projection through a frame-level elementwise step
       IF s1.k = "fmap" /\ s2.k = "project" THEN done(<<s2, s1>>, 2) ELSE Nothing
  ELSE IF r = "PH" THEN          \* projection through head
       IF s1.k = "head" /\ s2.k = "project" THEN done(<<s2, s1>>, 2) ELSE Nothing
  ELSE IF r = "FA" THEN          \* filter through assign (the assigned value must not hold a reduction:
                                 \* it would be taken of the filtered frame afterwards)
       IF s1.k = "assign" /\ s2.k = "filter" /\ ~HasRed(s1.x)
       THEN done(<<[s2 EXCEPT !.p = Subst(s2.p, s1.name, s1.x)], s1>>, 2) ELSE Nothing
  ELSE IF r = "FF" THEN          \* filter fusion (the second predicate must not reduce over the filtered frame)
       IF s1.k = "filter" /\ s2.k = "filter" /\ ~HasRed(s2.p)
       THEN done(<<[k |-> "filter", p |-> XBin("and", s1.p, s2.p)]>>, 2) ELSE Nothing
  ELSE IF r = "HH" THEN          \* head fusion
       IF s1.k = "head" /\ s2.k = "head"
       THEN done(<<[k |-> "head", n |-> IF s1.n < s2.n THEN s1.n ELSE s2.n]>>, 2) ELSE Nothing
  ELSE IF r = "HM" THEN          \* head through a frame-level elementwise step
       IF s1.k = "fmap" /\ s2.k = "head" THEN done(<<s2, s1>>, 2) ELSE Nothing
  ELSE IF r = "HA" THEN          \* head through assign (no reduction in the assigned value)
       IF s1.k = "assign" /\ s2.k = "head" /\ ~HasRed(s1.x) THEN done(<<s2, s1>>, 2) ELSE Nothing
  ELSE Nothing

Applicable(cols0, prog, r, i) == Rewrite(cols0, prog, r, i) # Nothing
Positions(prog) == 1..(Len(prog.steps) + 1)
IsNormal(cols0, prog) == \A j \in DOMAIN Rules : \A i \in Positions(prog) : ~Applicable(cols0, prog, Rules[j], i)

(* the normalisation STRATEGY (what an optimizer run does): repeatedly apply the first applicable
   (position, rule) - lowest position first, rules in the order of Rules - until none applies.
   Fuel bounds the recursion so that a cycle in a (wrong) rule set shows as "fuel exhausted"
   instead of a stack overflow.                                                               *)
FirstApplicable(cols0, prog) ==
  LET cands == { <<i, j>> \in Positions(prog) \X DOMAIN Rules : Applicable(cols0, prog, Rules[j], i) }
  IN IF cands = {} THEN <<0, 0>>
     ELSE CHOOSE c \in cands : \A d \in cands : c[1] < d[1] \/ (c[1] = d[1] /\ c[2] <= d[2])

RECURSIVE Normalize(_, _, _)
Normalize(cols0, prog, fuel) ==
  LET c == FirstApplicable(cols0, prog)
  IN IF c = <<0, 0>> \/ fuel = 0 THEN prog
     ELSE Normalize(cols0, Rewrite(cols0, prog, Rules[c[2]], c[1]), fuel - 1)
=============================================================================
