----------------------------- MODULE Optimizer -----------------------------
(* C43 - the dataframe optimizer preserves results and converges.

   PROGRAMS.  A logical dataframe program is a source table S (FromPandas),
   a sequence of STEPS applied to it in order and a FINAL form that says what
   is asked of the last frame:

     step  [k |-> "project", cols |-> <<names>>]           F[[names]]
           [k |-> "filter",  p |-> X]                      F[X]
           [k |-> "assign",  name |-> c, x |-> X]          F.assign(c = X)     (c new, or shadowing a column)
           [k |-> "fmap",    f |-> "addc" | "fillna", v |-> i]
                                                           F + v | F.fillna(v)  (frame-level elementwise)
           [k |-> "head",    n |-> n]                      F.head(n, npartitions = -1)
           [k |-> "dropna",  how |-> "any" | "all", sub |-> <<names>>, th |-> i | NA]
                                                           F.dropna(how = .., subset = sub) or, th # NA,
                                                           F.dropna(thresh = th, subset = sub);  sub = <<>>: all columns
           [k |-> "dropdup", sub |-> <<names>>, keep |-> "first" | "last"]
                                                           F.drop_duplicates(subset = sub, keep = ..);  sub = <<>>: whole rows
           [k |-> "ntop",    n |-> n, c |-> name, big |-> BOOLEAN]
                                                           F.nlargest(n, c) / F.nsmallest(n, c)
   (the last three SELECT rows by looking at columns they need not output: a projection may
   only be pushed below them together with the columns they read - for sub = <<>> that is
   every column.  Row order after drop_duplicates is not promised by dask: a program is only
   well-formed if nothing order-dependent - head, ntop, another dropdup - follows one, and its
   result is compared as a multiset of (label, cells) rows, see OrderFree)
     final [k |-> "frame"]                                 the frame itself
           [k |-> "col", c |-> name]                       F[name]             (a Series)
           [k |-> "red", op |-> "sum"|"min"|"max"|"count", c |-> name]
                                                           F[name].op()        (a scalar)

   X is a column expression over the frame the step is applied to: the
   expressions of module FrameOps ("col", "const", "bin", "not", "isna",
   "notna", "isin", "fillna") plus
           [e |-> "red", op |-> ..., x |-> X]              X.op(): a REDUCTION of a column expression,
                                                           broadcast as a scalar ("reductions inside predicates")
   Every reference to a column of the current frame is a consumer of that
   frame, so these linear programs denote DAGs with shared sub-expressions
   once written as an expression graph (dask makes structurally equal
   sub-expressions one node).

   DENOTATION.  DenoteFrame(S, prog) is the table (module FrameAlgebra) pandas
   computes: the steps are the operations "project" / "filter" / "assign" /
   "fmap" / "head" of module FrameOps (the reference semantics of C36),
   reductions resolved against the frame they are taken of.  A scalar result
   is written as a one-row Series named "#".

   REWRITING.  Rule(r, i) rewrites the steps at position i.  The rules are the
   ones the design names - projection pushdown through filter / assign /
   elementwise / head, projection fusion and identity, dead-assign
   elimination, filter pushdown through assign, filter fusion, head pushdown
   and fusion, and the column projection a Series / scalar result induces.
   The real optimizer has more rules and works on an expression graph; nothing
   here requires it to use exactly these (module OptimizerTrace only compares
   RESULTS of the real stages with DenoteFrame).  What TLC proves about this
   rule set on all small programs (module OptimizerMC): every rule application
   preserves DenoteFrame, rewriting always terminates (no cycle), terminal
   programs are fixpoints of the normalisation strategy.                      *)
EXTENDS FrameOps, TLC, Json

(* ------------------------------------------------ column expressions + "red" *)
XCol(c)       == [e |-> "col", c |-> c]
XK(v)         == [e |-> "const", v |-> v]
XBin(f, l, r) == [e |-> "bin", f |-> f, l |-> l, r |-> r]
XU(e, x)      == [e |-> e, x |-> x]
XIsIn(x, vs)  == [e |-> "isin", x |-> x, vals |-> vs]
XFillNa(x, v) == [e |-> "fillna", x |-> x, v |-> v]
XRed(op, x)   == [e |-> "red", op |-> op, x |-> x]
XSelf         == [e |-> "self"]

Unary == {"not", "isna", "notna", "isin", "fillna"}

\* value of a reduction over cells (skipna): sum of nothing is 0, min / max of nothing NaN
RedVal(op, vals) ==
  LET valid == SelectSeq(vals, LAMBDA v : v # NA)
      S == { valid[j] : j \in DOMAIN valid }
  IN CASE op = "sum"   -> SumSeq(valid)
       [] op = "count" -> Len(valid)
       [] op = "min"   -> IF S = {} THEN NA ELSE Min(S)
       [] op = "max"   -> IF S = {} THEN NA ELSE Max(S)
\* its dtype class: count is an integer; sum / min / max keep the class, NaN needs a float
RedKind(op, kind, val) == IF op = "count" THEN "i" ELSE IF val = NA \/ kind = "f" THEN "f" ELSE "i"

\* reductions evaluated on table T and replaced by constants of the right dtype class
RECURSIVE Resolve(_, _)
Resolve(T, x) ==
  CASE x.e \in {"col", "const", "self"} -> x
    [] x.e = "bin"   -> [x EXCEPT !.l = Resolve(T, x.l), !.r = Resolve(T, x.r)]
    [] x.e \in Unary -> [x EXCEPT !.x = Resolve(T, x.x)]
    [] x.e = "red"   ->
         LET col == Eval(T, Resolve(T, x.x), "")
             val == RedVal(x.op, col.vals)
         IN [e |-> "astype", x |-> XK(val), to |-> RedKind(x.op, col.kind, val)]

\* the columns an expression reads (also inside reductions); does it contain a reduction
RECURSIVE ExprCols(_)
ExprCols(x) ==
  CASE x.e = "col" -> {x.c}
    [] x.e \in {"const", "self"} -> {}
    [] x.e = "bin" -> ExprCols(x.l) \cup ExprCols(x.r)
    [] OTHER -> ExprCols(x.x)
RECURSIVE HasRed(_)
HasRed(x) ==
  CASE x.e = "red" -> TRUE
    [] x.e \in {"col", "const", "self"} -> FALSE
    [] x.e = "bin" -> HasRed(x.l) \/ HasRed(x.r)
    [] OTHER -> HasRed(x.x)
\* x with every reference to column c replaced by expression v
RECURSIVE Subst(_, _, _)
Subst(x, c, v) ==
  CASE x.e = "col" -> IF x.c = c THEN v ELSE x
    [] x.e \in {"const", "self"} -> x
    [] x.e = "bin" -> [x EXCEPT !.l = Subst(x.l, c, v), !.r = Subst(x.r, c, v)]
    [] OTHER -> [x EXCEPT !.x = Subst(x.x, c, v)]

(* ------------------------------------------------------------------ denotation *)
StepOp(T, st) ==
  CASE st.k = "project" -> [op |-> "project", cols |-> st.cols]
    [] st.k = "filter"  -> [op |-> "filter", p |-> Resolve(T, st.p)]
    [] st.k = "assign"  -> [op |-> "assign", name |-> st.name, x |-> Resolve(T, st.x)]
    [] st.k = "fmap"    -> [op |-> "fmap", cols |-> T.cols,
                            x |-> IF st.f = "addc" THEN XBin("add", XSelf, XK(st.v)) ELSE XFillNa(XSelf, st.v)]
    [] st.k = "head"    -> [op |-> "head", n |-> st.n, np |-> 0 - 1]

(* row selections that read columns: dropna, drop_duplicates, nlargest / nsmallest *)
SubOrAll(T, sub) == IF sub = <<>> THEN T.cols ELSE sub
KeyCells(T, k, cs) == [j \in DOMAIN cs |-> T.rows[k].v[ColPos(T, cs[j])]]

\* dropna: a row stays if (thresh) at least th of the inspected cells are valid, (any) all are, (all) one is
DropNaPos(T, st) ==
  LET cs == SubOrAll(T, st.sub) IN
  PosSeq(NRows(T), LAMBDA k :
     LET cells == KeyCells(T, k, cs)
         nn    == Cardinality({ j \in DOMAIN cells : cells[j] # NA })
     IN IF st.th # NA THEN nn >= st.th ELSE IF st.how = "any" THEN nn = Len(cs) ELSE nn > 0)

\* drop_duplicates: of the rows that agree on the inspected cells (NaN equals NaN) the first / last stays
DropDupPos(T, st) ==
  LET cs == SubOrAll(T, st.sub)
      n  == NRows(T)
  IN PosSeq(n, LAMBDA k :
        IF st.keep = "first" THEN ~\E j \in 1..(k - 1) : KeyCells(T, j, cs) = KeyCells(T, k, cs)
        ELSE ~\E j \in (k + 1)..n : KeyCells(T, j, cs) = KeyCells(T, k, cs))

\* nlargest / nsmallest(n, c): rows by value (descending / ascending), equal values in row order, NaN rows last
NTopPos(T, st) ==
  LET p   == ColPos(T, st.c)
      val(k) == T.rows[k].v[p]
      key(k) == IF val(k) = NA THEN 1000 ELSE IF st.big THEN 0 - val(k) ELSE val(k)
      ord == StableSortBy([k \in 1..NRows(T) |-> k], key)
  IN SubSeq(ord, 1, IF st.n < NRows(T) THEN st.n ELSE NRows(T))

ApplyStep(T, st) ==
  CASE st.k = "dropna"  -> TakeRows(T, DropNaPos(T, st))
    [] st.k = "dropdup" -> TakeRows(T, DropDupPos(T, st))
    [] st.k = "ntop"    -> TakeRows(T, NTopPos(T, st))
    [] OTHER            -> Apply(T, <<>>, StepOp(T, st))

RECURSIVE RunSteps(_, _)
RunSteps(T, steps) ==
  IF steps = <<>> THEN T ELSE RunSteps(ApplyStep(T, steps[1]), SubSeq(steps, 2, Len(steps)))

Scalar(val, kind) == [ser |-> TRUE, err |-> FALSE, cols |-> <<"#">>, kinds |-> <<kind>>, rows |-> <<[idx |-> 0, v |-> <<val>>]>>]

Finish(T, fin) ==
  CASE fin.k = "frame" -> T
    [] fin.k = "col"   -> SeriesOf(T, ColOf(T, fin.c))
    [] fin.k = "red"   -> LET col == ColOf(T, fin.c)
                              val == RedVal(fin.op, col.vals)
                          IN Scalar(val, RedKind(fin.op, col.kind, val))

DenoteFrame(S, prog) == Finish(RunSteps(S, prog.steps), prog.fin)

\* what is compared: structure, dtype classes, rows (index label + cells) in order
Shape(T) == [ser |-> T.ser, cols |-> T.cols, kinds |-> T.kinds, rows |-> T.rows]

(* --------------------------------------------------------- static column tracking *)
ColsStep(cols, st) ==
  CASE st.k = "project" -> st.cols
    [] st.k = "assign"  -> IF \E j \in DOMAIN cols : cols[j] = st.name THEN cols ELSE Append(cols, st.name)
    [] OTHER -> cols
RECURSIVE ColsAfter(_, _, _)
ColsAfter(cols, steps, i) == IF i = 0 THEN cols ELSE ColsStep(ColsAfter(cols, steps, i - 1), steps[i])

StepReads(st) == CASE st.k = "project" -> SeqSet(st.cols)
                   [] st.k = "filter"  -> ExprCols(st.p)
                   [] st.k = "assign"  -> ExprCols(st.x)
                   [] st.k \in {"dropna", "dropdup"} -> SeqSet(st.sub)
                   [] st.k = "ntop"    -> {st.c}
                   [] OTHER -> {}
\* what a row-selecting step LOOKS AT (sub = <<>>: every column of its input)
Inspects(before, st) == IF st.k = "ntop" THEN {st.c} ELSE IF st.sub = <<>> THEN SeqSet(before) ELSE SeqSet(st.sub)
RowSelecting == {"dropna", "dropdup", "ntop"}
\* nothing whose result depends on the row order follows a drop_duplicates
OrderFree(steps) ==
  \A i \in DOMAIN steps : steps[i].k = "dropdup" =>
     \A j \in (i + 1)..Len(steps) : steps[j].k \notin {"head", "ntop", "dropdup"}
HasDropDup(steps) == \E i \in DOMAIN steps : steps[i].k = "dropdup"
\* every step only reads columns that exist when it runs; the final form likewise
WellFormed(cols0, prog) ==
  /\ \A i \in DOMAIN prog.steps : StepReads(prog.steps[i]) \subseteq SeqSet(ColsAfter(cols0, prog.steps, i - 1))
  /\ \A i \in DOMAIN prog.steps : prog.steps[i].k = "project" =>
        (prog.steps[i].cols # <<>> /\ Cardinality(SeqSet(prog.steps[i].cols)) = Len(prog.steps[i].cols))
  /\ prog.fin.k \in {"col", "red"} => prog.fin.c \in SeqSet(ColsAfter(cols0, prog.steps, Len(prog.steps)))
  /\ OrderFree(prog.steps)

\* the columns of `cols` (in that order) that are in set W
KeepCols(cols, W) == SelectSeq(cols, LAMBDA c : c \in W)

(* ------------------------------------------------------------------------ rules *)
Rules == <<"PP", "PI", "PF", "PA", "PM", "PH", "PR", "FA", "FF", "OC", "HH", "HM", "HA", "FinP">>

\* conjunctions / disjunctions as sequences of their terms, and back
RECURSIVE Flat(_, _)
Flat(x, f) == IF x.e = "bin" /\ x.f = f THEN Flat(x.l, f) \o Flat(x.r, f) ELSE <<x>>
RECURSIVE Join(_, _)
Join(xs, f) == IF Len(xs) = 1 THEN xs[1] ELSE XBin(f, Join(SubSeq(xs, 1, Len(xs) - 1), f), xs[Len(xs)])

(* (A & B) | (A & C) | ...  ->  A & (B | C | ...): the AND-terms of the first clause that occur in
   EVERY other clause are factored out (all of them at once); a clause that consists of common
   terms only makes the whole disjunction equal to the common part.                            *)
FactorOr(p) ==
  LET clauses == Flat(p, "or")
      terms(j) == Flat(clauses[j], "and")
      common  == SelectSeq(terms(1), LAMBDA q : \A j \in 2..Len(clauses) : q \in SeqSet(terms(j)))
      rest(j) == SelectSeq(terms(j), LAMBDA q : q \notin SeqSet(common))
  IN IF common = <<>> THEN p
     ELSE IF \E j \in DOMAIN clauses : rest(j) = <<>> THEN Join(common, "and")
     ELSE XBin("and", Join(common, "and"), Join([j \in DOMAIN clauses |-> Join(rest(j), "and")], "or"))

Splice(steps, i, n, new) == SubSeq(steps, 1, i - 1) \o new \o SubSeq(steps, i + n, Len(steps))
Proj(cols) == [k |-> "project", cols |-> cols]

(* Rewrite(cols0, prog, r, i): the program after applying rule r at step position i, or
   Nothing when the rule does not apply there.  `before` = the columns of the frame step i is
   applied to.  Projections move TOWARDS the source, past filters, assigns, elementwise steps and
   heads (guarded so that a projection that narrows nothing is never inserted: the real optimizer
   protects itself the same way); filters move towards the source past assigns that hold no
   reduction; heads move past row-wise steps.                                              *)
Nothing == [steps |-> <<>>, fin |-> [k |-> "none"]]

Rewrite(cols0, prog, r, i) ==
  LET steps  == prog.steps
      n      == Len(steps)
      before == ColsAfter(cols0, steps, i - 1)
      s1     == steps[i]
      s2     == steps[i + 1]
      pair   == i + 1 <= n
      done(new, k) == [prog EXCEPT !.steps = Splice(steps, i, k, new)]
  IN
  IF r = "FinP" THEN
       \* a Series / scalar result only needs its column: project it (once) at the end
       IF i = n + 1 /\ prog.fin.k \in {"col", "red"} /\ ColsAfter(cols0, steps, n) # <<prog.fin.c>>
       THEN [prog EXCEPT !.steps = Append(steps, Proj(<<prog.fin.c>>))] ELSE Nothing
  ELSE IF i > n THEN Nothing
  ELSE IF r = "PI" THEN          \* projection of all columns in frame order
       IF s1.k = "project" /\ s1.cols = before THEN done(<<>>, 1) ELSE Nothing
  ELSE IF r = "OC" THEN          \* common AND-terms factored out of an OR predicate
       IF s1.k = "filter" /\ s1.p.e = "bin" /\ s1.p.f = "or" /\ FactorOr(s1.p) # s1.p
       THEN done(<<[s1 EXCEPT !.p = FactorOr(s1.p)]>>, 1) ELSE Nothing
  ELSE IF ~pair THEN Nothing
  ELSE IF r = "PP" THEN          \* projection fusion
       IF s1.k = "project" /\ s2.k = "project" THEN done(<<s2>>, 2) ELSE Nothing
  ELSE IF r = "PF" THEN          \* projection through filter
       IF s1.k = "filter" /\ s2.k = "project"
       THEN LET need == KeepCols(before, SeqSet(s2.cols) \cup ExprCols(s1.p))
            IN IF need = before THEN Nothing
               ELSE IF need = s2.cols THEN done(<<s2, s1>>, 2) ELSE done(<<Proj(need), s1, s2>>, 2)
       ELSE Nothing
  ELSE IF r = "PA" THEN          \* projection through assign; dead-assign elimination
       IF s1.k = "assign" /\ s2.k = "project"
       THEN IF s1.name \notin SeqSet(s2.cols) THEN done(<<s2>>, 2)
            ELSE LET need == KeepCols(before, (SeqSet(s2.cols) \ {s1.name}) \cup ExprCols(s1.x))
                 IN IF need = before \/ need = <<>> THEN Nothing ELSE done(<<Proj(need), s1, s2>>, 2)
       ELSE Nothing
  ELSE IF r = "PM" THEN          \* projection through a frame-level elementwise step
       IF s1.k = "fmap" /\ s2.k = "project" THEN done(<<s2, s1>>, 2) ELSE Nothing
  ELSE IF r = "PH" THEN          \* projection through head
       IF s1.k = "head" /\ s2.k = "project" THEN done(<<s2, s1>>, 2) ELSE Nothing
  ELSE IF r = "PR" THEN          \* projection through a row selection: only together with the columns it inspects
       IF s1.k \in RowSelecting /\ s2.k = "project"
       THEN LET need == KeepCols(before, SeqSet(s2.cols) \cup Inspects(before, s1))
            IN IF need = before THEN Nothing
               ELSE IF need = s2.cols THEN done(<<s2, s1>>, 2) ELSE done(<<Proj(need), s1, s2>>, 2)
       ELSE Nothing
  ELSE IF r = "FA" THEN          \* filter through assign (the assigned value must not hold a reduction:
                                 \* it would be taken of the filtered frame afterwards)
       IF s1.k = "assign" /\ s2.k = "filter" /\ ~HasRed(s1.x)
       THEN done(<<[s2 EXCEPT !.p = Subst(s2.p, s1.name, s1.x)], s1>>, 2) ELSE Nothing
  ELSE IF r = "FF" THEN          \* filter fusion (the second predicate must not reduce over the filtered frame)
       IF s1.k = "filter" /\ s2.k = "filter" /\ ~HasRed(s2.p)
       THEN done(<<[k |-> "filter", p |-> XBin("and", s1.p, s2.p)]>>, 2) ELSE Nothing
  ELSE IF r = "HH" THEN          \* head fusion
       IF s1.k = "head" /\ s2.k = "head"
       THEN done(<<[k |-> "head", n |-> IF s1.n < s2.n THEN s1.n ELSE s2.n]>>, 2) ELSE Nothing
  ELSE IF r = "HM" THEN          \* head through a frame-level elementwise step
       IF s1.k = "fmap" /\ s2.k = "head" THEN done(<<s2, s1>>, 2) ELSE Nothing
  ELSE IF r = "HA" THEN          \* head through assign (no reduction in the assigned value)
       IF s1.k = "assign" /\ s2.k = "head" /\ ~HasRed(s1.x) THEN done(<<s2, s1>>, 2) ELSE Nothing
  ELSE Nothing

Applicable(cols0, prog, r, i) == Rewrite(cols0, prog, r, i) # Nothing
Positions(prog) == 1..(Len(prog.steps) + 1)
IsNormal(cols0, prog) == \A j \in DOMAIN Rules : \A i \in Positions(prog) : ~Applicable(cols0, prog, Rules[j], i)

(* the normalisation STRATEGY (what an optimizer run does): repeatedly apply the first applicable
   (position, rule) - lowest position first, rules in the order of Rules - until none applies.
   Fuel bounds the recursion so that a cycle in a (wrong) rule set shows as "fuel exhausted"
   instead of a stack overflow.                                                               *)
FirstApplicable(cols0, prog) ==
  LET cands == { <<i, j>> \in Positions(prog) \X DOMAIN Rules : Applicable(cols0, prog, Rules[j], i) }
  IN IF cands = {} THEN <<0, 0>>
     ELSE CHOOSE c \in cands : \A d \in cands : c[1] < d[1] \/ (c[1] = d[1] /\ c[2] <= d[2])

RECURSIVE Normalize(_, _, _)
Normalize(cols0, prog, fuel) ==
  LET c == FirstApplicable(cols0, prog)
  IN IF c = <<0, 0>> \/ fuel = 0 THEN prog
     ELSE Normalize(cols0, Rewrite(cols0, prog, Rules[c[2]], c[1]), fuel - 1)
=============================================================================
