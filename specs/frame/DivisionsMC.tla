----------------------------- MODULE DivisionsMC -----------------------------
(* Case enumeration + design check for C44 (repartition / from_pandas).

   Every initial state is one case of the bounded space of one family:
     "n"     repartition(npartitions = n)  on every source
     "nd"    repartition(npartitions = n)  on a DERIVED source: the source first goes
             through a lazy step `pre` (head / tail with compute=False, a filter, a
             column projection, a loc slice, a set_index on its own index, a concat
             with an empty frame), so that optimizer rewrites sitting between the
             step and the repartition can fire.  The harness observes the derived
             collection itself and hands ITS rows / partitioning / divisions to the
             contract as the source of the judged repartition.
     "d"     repartition(divisions = d, force) for every division vector over the
             label range +-1 (well-formed or not, covering or not)
     "size"  repartition(partition_size = bytes)
     "fp"    from_pandas(npartitions | chunksize = v, sort) on every label sequence
   A SOURCE is (idx, layout, sdivs): the label sequence of the rows (row i has
   rid i - 1), the row counts of the partitions (empty partitions allowed) and the
   declared divisions (<<>> = unknown).  Sources with known divisions are sorted
   and truthful, and their divisions have the shape dask's own constructors
   produce (strictly increasing, only the last entry may repeat).

   Bounds[f] = [rows, labels, parts, maxn, maxd, urows] bounds family f:
     rows    max number of rows           labels  labels are 0..labels-1
     parts   max source partitions        maxn    npartitions/chunksize in 1..maxn
     maxd    requested division vectors have 2..maxd+1 entries
     urows   sources with an UNSORTED index (divisions unknown) have <= urows rows

   Design check (TLC, every case): the reference outcome of module Divisions
   meets the contract on every legal case - so the contract is satisfiable, in
   particular for 1-row and all-equal frames whose divisions are degenerate -,
   the contract rejects a dropped row / a wrong partition count, a refused
   illegal request is accepted, and the sources satisfy the precondition.
   out = JSON [c |-> case, e |-> [legal |-> ...]] is what the harness replays.  *)
EXTENDS Divisions, TLC, Json

CONSTANTS Fams,       \* subset of {"n", "nd", "d", "size", "fp"}
          Bounds      \* [Fams -> [rows, labels, parts, maxn, maxd, urows]]

VARIABLES case, out

(* Constant tables (TLC evaluates parameterless constant definitions once).   *)
MaxOf(a, b) == IF a >= b THEN a ELSE b
SortedIdx == [f \in Fams |-> UNION { SortedSeqs(n, 0, Bounds[f].labels - 1) : n \in 1..Bounds[f].rows }]
UnsortedIdx == [f \in Fams |-> { x \in UNION { AllSeqs(n, 0..(Bounds[f].labels - 1)) : n \in 1..Bounds[f].urows }
                                  : ~NonDecreasing(x) }]
\* all non-decreasing vectors of a given length over the label range +-1
DivVectors == [f \in Fams |-> [len \in 2..(MaxOf(Bounds[f].parts, Bounds[f].maxd) + 1) |->
                                  SortedSeqs(len, -1, Bounds[f].labels)]]
LayoutTable == [f \in Fams |-> [n \in 1..MaxOf(Bounds[f].rows, Bounds[f].urows) |-> Layouts(n, Bounds[f].parts)]]

\* declared divisions a sorted source may carry
KnownDivsOf(f, s, l) ==
  LET lp == [i \in DOMAIN l |-> SubSeq(s, Offset(l, i) + 1, Offset(l, i) + l[i])]
  IN { d \in DivVectors[f][Len(l) + 1] :
         /\ StrictlyIncreasing(SubSeq(d, 1, Len(d) - 1))
         /\ DivisionsTruthful(d, lp) }

\* division requests: every non-decreasing vector over the label range +-1, plus
\* two unsorted vectors (illegal: must be refused or harmless)
Requests == [f \in Fams |-> UNION { DivVectors[f][len] : len \in 2..(Bounds[f].maxd + 1) } \cup { <<1, 0>>, <<0, 2, 1>> }]

Bytes == {8, 16, 24, 48, 1000}       \* a row of the harness frames weighs 16 bytes (int64 rid + int64 label)

\* ("setidx" - a source derived through set_index - is left out: such a source inherits the known set_index metadata
\*  defect (C41 set_index:auto:count), every deviation downstream would be that defect seen again)
Pres == {"head", "tail", "filter", "proj", "loc", "concat"}
Args(f) == CASE f = "n"    -> [k: {"n"}, n: 1..Bounds[f].maxn]
             [] f = "nd"   -> [k: {"n"}, n: 1..Bounds[f].maxn, pre: Pres]
             [] f = "d"    -> [k: {"d"}, d: Requests[f], force: BOOLEAN]
             [] f = "size" -> [k: {"size"}, bytes: Bytes]
             [] f = "fp"   -> [k: {"fp"}, mode: {"n", "c"}, v: 1..Bounds[f].maxn, sort: BOOLEAN]

(* The case is chosen by nested existentials (TLC enumerates them without first
   building and normalising one big set of records).                           *)
ChooseCase ==
  \E f \in Fams :
    \E s \in SortedIdx[f] \cup UnsortedIdx[f] :
      IF f = "fp" THEN \E a \in Args(f) : case = [fam |-> "fp", idx |-> s, arg |-> a]
      ELSE \E l \in LayoutTable[f][Len(s)] :
             \E sd \in (IF NonDecreasing(s) THEN {<<>>} \cup KnownDivsOf(f, s, l) ELSE {<<>>}) :
               \E a \in Args(f) :
                 case = [fam |-> f, idx |-> s, layout |-> l, sdivs |-> sd, arg |-> a]

Src(c) == SrcOf(c.idx, c.layout, c.sdivs)
Legal(c) == c.fam = "fp" \/ RepartLegal(Src(c), c.arg)

Init == /\ ChooseCase
        /\ out = ToJson([c |-> case, e |-> [legal |-> Legal(case)]])
Next == UNCHANGED <<case, out>>

-----------------------------------------------------------------------------
(* Design check                                                               *)

\* precondition: sources are well formed and their known divisions truthful
SourcesOK == case.fam # "fp" =>
               /\ SumSeq(case.layout) = Len(case.idx)
               /\ Truthful(Src(case))
               /\ (case.sdivs # <<>> => NonDecreasing(case.idx))

Ref(c)    == IF c.fam = "fp" THEN RefFromPandas(c.idx, c.arg) ELSE RefRepart(Src(c), c.arg)
Bad(c, o) == IF c.fam = "fp" THEN FromPandasBad(c.idx, c.arg, o) ELSE RepartBad(Src(c), c.arg, o)

\* the contract is satisfiable on every legal case (not over-strict)
RefMeetsContract == Legal(case) => Bad(case, Ref(case)) = {}

\* ... and it is not vacuous either: an outcome that drops the last row, or that
\* reports one partition more than it has, is rejected
DropLast(obs) == LET n == Len(obs.parts) IN
  [obs EXCEPT !.parts = [i \in 1..n |-> IF i = n THEN SubSeq(obs.parts[n], 1, Len(obs.parts[n]) - 1) ELSE obs.parts[i]]]
ContractBites ==
  LET ref == Ref(case) IN
  Legal(case) =>
    /\ (Len(ref.parts[Len(ref.parts)]) > 0 => "SameRows" \in Bad(case, DropLast(ref)))
    /\ "Meta" \in Bad(case, [ref EXCEPT !.nparts = @ + 1])

\* an illegal divisions request that is refused is fine
IllegalMayRaise == ~Legal(case) =>
  Bad(case, [raised |-> "ValueError", nparts |-> 0, ndivs |-> 0, divs |-> <<>>, parts |-> <<>>, wholeok |-> TRUE]) = {}
=============================================================================
