----------------------------- MODULE JoinsTrace -----------------------------
(* code -> spec for C39: every record is one merge / join / concat / merge_asof
   call made on real dask collections - the operands as rows [rid, idx, k(, b)]
   in the labels of the specification, the arguments, whether the operands
   declared known divisions, and what was observed (harness.frameobs-style:
   declared npartitions / divisions, every partition computed through its own
   key, compute() of the whole compared with them).  Observed rows are
   [t |-> tuple of module Joins, idx |-> index label of the real frame].  How
   the operands were partitioned, broadcast, shuffle method and npartitions are
   logged for the reader only: the verdict must not depend on them.

     op = "merge"    how, mode, naming, ind, L, R, lknown, rknown, lpre, rpre, obs
                     (lpre / rpre: what an operand went through before the join, see Joins!PreOK - the harness'
                      obligation; the verdict does not depend on it)
     op = "concat"   frames ([cols, rows]), join, fdivs, interleave, obs
     op = "concat1"  L, R, join, obs
     op = "asof"     mode, direction, exact, tol, by, L, R, obs                *)
EXTENDS Joins, TraceIO

\* JSON arrays arrive as sequences: the column sets of concat operands are sets in module Joins
FixFrames(fr) == [f \in DOMAIN fr |-> [cols |-> SeqSet(fr[f].cols), rows |-> fr[f].rows]]

Bad(r) ==
  CASE r.op = "merge"   -> MergeBad(r)
    [] r.op = "concat"  -> ConcatBad([r EXCEPT !.frames = FixFrames(r.frames)])
    [] r.op = "concat1" -> ConcatColsBad(r)
    [] r.op = "asof"    -> AsofBad(r)
    [] OTHER -> {"UnknownOp"}

Init == TInit
Next == TNext(Bad)
=============================================================================
