----------------------------- MODULE WindowsMC -----------------------------
(* Case enumeration for C46 (spec -> code) and design check of the reference
   semantics of module Windows.

   UNIVERSE.  Lanes: every sequence of 1..MaxN cells over {0, 1, 2, NA}
   ("all"), and - so that long NaN runs straddling every possible partition
   boundary are not left to chance - every lane made of a cyclic value pattern
   with one or two runs of NA ("runs").  Operations: every parameter
   combination of the six families within the bounds MaxW (windows),
   MaxP (|periods|), MaxLim (limits), MaxOv (before + after of map_overlap).
   The expected result does not depend on the partitioning (that is the
   property), so it is computed once per (lane, operation); ALL partitionings
   of n rows into at most MaxParts consecutive partitions - empty ones
   included - are exported once per row count together with the divisions that
   describe them truthfully (fam = "layouts"), and the harness crosses them.

   THINNING.  The universe (4^7 lanes x ~230 operations) is larger than what
   can be replayed into dask on every run; of each (universe, family, row
   count) TLC takes Quota[universe][fam][n] pairs (all of them if there are
   no more), one pseudo-random member (seeded by Salt) of each of that many
   equal strata of the lane-major pair numbering.  The choice is a
   deterministic function of the constants - the same with any number of TLC
   workers.

   Initial states are SEEDS (universe, family, row count, slice); the successors
   of a seed are its evaluated cases, so that TLC workers share the evaluation
   (TLC generates initial states on one thread).                              *)
EXTENDS Windows

CONSTANTS MaxN,      \* lanes of 1..MaxN rows
          MaxW,      \* windows 1..MaxW
          MaxP,      \* periods -MaxP..MaxP
          MaxLim,    \* limits None, 1..MaxLim
          MaxOv,     \* map_overlap: before, after in 0..MaxOv
          MaxParts,  \* partitionings with 1..MaxParts parts
          Quota,     \* [universe -> [fam -> [n -> number of cases wanted]]]
          Salt,      \* seed of the thinning
          Slices     \* seeds per (universe, fam, n)

VARIABLES kase, ready, xp, out       \* xp = the expected observation of an evaluated case

Cells  == <<0, 1, 2, NA>>
Fams   == <<"roll", "troll", "cum", "shift", "diff", "fill", "mapov">>
Univs  == {"all", "runs"}

-----------------------------------------------------------------------------
(* Operations of each family, as sequences (constant level: evaluated once).   *)
P(fam, op, a, b, c) == [fam |-> fam, op |-> op, a |-> a, b |-> b, c |-> c]

RollOps  == SetToSeq({ P("roll", g, w, mp, ctr) :
                         g \in {"sum", "min", "max", "count", "mean"}, w \in 1..MaxW,
                         mp \in (0..MaxW) \cup {NA}, ctr \in {0, 1} })
RollOpsOK == SelectSeq(RollOps, LAMBDA o : o.b = NA \/ o.b <= o.a)       \* pandas: min_periods <= window
TimeOps  == SetToSeq({ P("troll", g, w, mp, 0) :
                         g \in {"sum", "min", "max", "count", "mean"}, w \in 1..(MaxW + 1), mp \in {NA, 0, 1, 2} })
CumOps   == SetToSeq({ P("cum", g, sk, 0, 0) : g \in {"cumsum", "cumprod", "cummin", "cummax"}, sk \in {0, 1} })
ShiftOps == SetToSeq({ P("shift", "shift", k, 0, 0) : k \in (0 - MaxP)..MaxP })
DiffOps  == SetToSeq({ P("diff", "diff", k, 0, 0) : k \in (0 - MaxP)..MaxP })
FillOps  == SetToSeq({ P("fill", g, lim, 0, 0) : g \in {"ffill", "bfill"}, lim \in (1..MaxLim) \cup {NA} })
OvOps    == SetToSeq({ P("mapov", "stencil", bf, af, 0) : bf \in 0..MaxOv, af \in 0..MaxOv })

OpsOf == [f \in {"roll", "troll", "cum", "shift", "diff", "fill", "mapov"} |->
            CASE f = "roll"  -> RollOpsOK
              [] f = "troll" -> TimeOps
              [] f = "cum"   -> CumOps
              [] f = "shift" -> ShiftOps
              [] f = "diff"  -> DiffOps
              [] f = "fill"  -> FillOps
              [] f = "mapov" -> OvOps]

-----------------------------------------------------------------------------
(* Lanes.  "all": lane number k in 0..4^n - 1, digits base 4 -> cells.
   "runs": cyclic values (i + phase) % 3 with NA on the rows of one or two runs. *)
LaneOfCode(n, k) == [i \in 1..n |-> Cells[((k \div IPow(4, i - 1)) % 4) + 1]]

RunLaneSet(n) ==
  { [i \in 1..n |-> IF (lo1 <= i /\ i <= hi1) \/ (lo2 <= i /\ i <= hi2) THEN NA ELSE (i + ph) % 3]
      : lo1 \in 1..n, hi1 \in 1..n, lo2 \in 1..n, hi2 \in 0..n, ph \in 0..2 }
RunLanes == [n \in 1..MaxN |-> SetToSeq({ r \in RunLaneSet(n) : HasNA(r) })]

NLanes(uv, n) == IF uv = "all" THEN IPow(4, n) ELSE Len(RunLanes[n])
LaneAt(uv, n, k) == IF uv = "all" THEN LaneOfCode(n, k) ELSE RunLanes[n][k + 1]       \* k in 0..NLanes - 1

(* Thinning without walking the universe: the (lane, operation) pairs of a (universe, family,
   row count) are numbered lane-major 0..pairs - 1 and cut into `count` strata of `md` consecutive
   pairs; from stratum t the pair t * md + (Jit(t) % md) is taken - one pseudo-random member per
   stratum, so the sample spreads evenly over the lanes and over the operations.  count = pairs
   (md = 1) enumerates everything.                                                          *)
PairsTable == [uv \in Univs |-> [f \in DOMAIN OpsOf |-> [n \in 1..MaxN |-> NLanes(uv, n) * Len(OpsOf[f])]]]
CountTable == [uv \in Univs |-> [f \in DOMAIN OpsOf |-> [n \in 1..MaxN |->
                 Least(PairsTable[uv][f][n], Quota[uv][f][n])]]]
Jit(t) == (t % 65521) * 7919 + ((t \div 7) % 8191) * 104723 + (Salt % 100003) * 613
PairAt(uv, f, n, t) ==
  LET md == PairsTable[uv][f][n] \div CountTable[uv][f][n]
  IN t * md + (Jit(t) % md)

\* second lane of a frame target, dtype class of v and target: functions of the pair number
ULane(n, k, j) == [i \in 1..n |-> (i * (1 + ((k + j) % 2)) + k + j) % 3]
TgtOf(f, k, j) == IF ((k \div 2) + j) % (IF f = "cum" THEN 2 ELSE 3) = 0 THEN "frame" ELSE "series"
VkOf(s, k, j)  == IF HasNA(s) \/ (k + j) % 4 = 0 THEN "f" ELSE "i"

\* index labels: 0, 1, 2, ... ; for the time-based windows day numbers with gaps of 1..3 days (a function of the pair)
RECURSIVE Days(_, _, _)
Days(n, k, j) == IF n = 1 THEN <<0>>
                 ELSE LET r == Days(n - 1, k, j) IN Append(r, r[n - 1] + 1 + (((k \div IPow(3, (n - 2) % 6)) + j + n) % 3))
LabelsOf(f, n, k, j) == IF f = "troll" THEN Days(n, k, j) ELSE [i \in 1..n |-> i - 1]

MkCase(uv, f, n, k, j) ==
  LET o == OpsOf[f][j]
      s == LaneAt(uv, n, k)
  IN [fam |-> f, op |-> o.op, a |-> o.a, b |-> o.b, c |-> o.c, s |-> s, t |-> LabelsOf(f, n, k, j), vk |-> VkOf(s, k, j),
      u |-> ULane(n, k, j), tgt |-> TgtOf(f, k, j)]

-----------------------------------------------------------------------------
(* Partitionings and the divisions that describe them: partition i holds the
   labels Offset .. Offset + size - 1; d_i = label of its first row (= number
   of rows before it, also when it is empty), d_last = the last label, or one
   past it when the last partition is empty.                                  *)
DivsOf(n, lay) ==
  [i \in 1..(Len(lay) + 1) |->
     IF i <= Len(lay) THEN Offset(lay, i) ELSE IF lay[Len(lay)] > 0 THEN n - 1 ELSE n]
LayTable == [n \in 1..MaxN |-> SetToSeq(Layouts(n, MaxParts))]
LayoutsOf(n) == [q \in DOMAIN LayTable[n] |-> [lay |-> LayTable[n][q], divs |-> DivsOf(n, LayTable[n][q])]]

-----------------------------------------------------------------------------
Seeds == { [fam |-> "seed", uv |-> uv, f |-> Fams[fi], n |-> n, sl |-> sl]
             : uv \in Univs, fi \in DOMAIN Fams, n \in 1..MaxN, sl \in 0..(Slices - 1) }
         \cup { [fam |-> "layouts", n |-> n] : n \in 1..MaxN }

NoExp == [idx |-> <<>>, v |-> <<>>, vk |-> "-", u |-> <<>>, uk |-> "-"]

Init == /\ kase \in Seeds
        /\ ready = FALSE
        /\ xp = NoExp
        /\ out = ""

Next == /\ ~ready
        /\ ready' = TRUE
        /\ IF kase.fam = "layouts"
           THEN /\ kase' = kase
                /\ xp' = NoExp
                /\ out' = ToJson([c |-> kase, e |-> LayoutsOf(kase.n)])
           ELSE \E t \in { x \in 0..(CountTable[kase.uv][kase.f][kase.n] - 1) : x % Slices = kase.sl } :
                  LET pr == PairAt(kase.uv, kase.f, kase.n, t)
                      m  == Len(OpsOf[kase.f])
                  IN /\ kase' = MkCase(kase.uv, kase.f, kase.n, pr \div m, (pr % m) + 1)
                     /\ xp' = Expected(kase')
                     /\ out' = ToJson([c |-> kase', e |-> xp'])

-----------------------------------------------------------------------------
(* DESIGN CHECK of the reference semantics: properties every evaluated case
   must have, each an independent characterisation of the definition.         *)
Judged(fams) == ready /\ kase.fam \in fams
Res   == xp.v                      \* what is exported to the harness
Lane  == kase.s
N     == Len(kase.s)

IsCell(x) == x = RNaN \/ IsRat(x)
ShapeOK == Judged({"roll", "troll", "cum", "shift", "diff", "fill", "mapov"}) =>
             /\ xp = Expected(kase)
             /\ Len(Res) = N
             /\ \A i \in 1..N : IsCell(Res[i])
             /\ Len(kase.t) = N /\ StrictlyIncreasing(kase.t)
             /\ kase.vk = "i" => ~HasNA(Lane)
             /\ kase.tgt = "frame" => (Len(kase.u) = N /\ ~HasNA(kase.u))

\* the result of row i only depends on the rows i - Before .. i + After
Local == (Judged({"roll", "shift", "diff", "fill"}) /\ ~Unbounded(kase)) =>
           \A i \in 1..N :
              LET lo == Most(1, i - Before(kase))
                  hi == Least(N, i + After(kase))
              IN Res[i] = Ref(kase, SubSeq(Lane, lo, hi))[i - lo + 1]

\* ... and that reach is tight somewhere in the universe is not needed; but a partition that is
\* handed `before` rows of its predecessor and `after` rows of its successor computes its own rows:
OverlapDecomposes ==
  (Judged({"roll", "shift", "diff", "fill"}) /\ ~Unbounded(kase)) =>
     \A p \in 1..(N - 1) :              \* two partitions: rows 1..p and p + 1..N
        LET bf == Least(Before(kase), p)
            af == Least(After(kase), N - p)
            first  == Ref(kase, SubSeq(Lane, 1, p + af))
            second == Ref(kase, SubSeq(Lane, p + 1 - bf, N))
        IN /\ SubSeq(first, 1, p) = SubSeq(Res, 1, p)
           /\ SubSeq(second, bf + 1, Len(second)) = SubSeq(Res, p + 1, N)

\* cumulatives: the rows after a cut = the cumulative of the suffix combined with the fold of the
\* valid cells before the cut - and left alone when there is none (skipna); poisoned by any NA
\* before the cut otherwise
Comb(op, x, y) == CASE op = "cumsum"  -> x + y
                    [] op = "cumprod" -> x * y
                    [] op = "cummin"  -> Least(x, y)
                    [] op = "cummax"  -> Most(x, y)
CumDecomposes ==
  Judged({"cum"}) =>
     \A p \in 1..(N - 1) :
        LET pre == SubSeq(Lane, 1, p)
            suf == Cumulative(SubSeq(Lane, p + 1, N), kase.op, kase.a)
        IN \A i \in 1..(N - p) :
              Res[p + i] =
                IF suf[i] = RNaN THEN RNaN
                ELSE IF kase.a = 0 /\ HasNA(pre) THEN RNaN
                ELSE IF Valid(pre) = <<>> THEN suf[i]
                ELSE <<Comb(kase.op, FoldOf(kase.op, Valid(pre)), suf[i][1]), 1>>

\* fills without a limit: idempotent, valid cells untouched, a filled cell repeats its neighbour's result
FillCarries ==
  (Judged({"fill"}) /\ kase.a = NA) =>
     /\ \A i \in 1..N : Lane[i] # NA => Res[i] = RV(Lane[i])
     /\ \A i \in 1..N : Lane[i] = NA =>
           IF kase.op = "ffill" THEN Res[i] = (IF i = 1 THEN RNaN ELSE Res[i - 1])
           ELSE Res[i] = (IF i = N THEN RNaN ELSE Res[i + 1])
\* bfill is ffill on the reversed lane
FillMirror ==
  Judged({"fill"}) =>
     LET rev(q) == [i \in DOMAIN q |-> q[Len(q) + 1 - i]]
     IN BFill(Lane, kase.a) = rev(FFill(rev(Lane), kase.a))

DiffIsSubShift ==
  Judged({"diff"}) =>
     \A i \in 1..N : LET sh == Shift(Lane, kase.a)[i]
                     IN Res[i] = IF Lane[i] = NA \/ sh = RNaN THEN RNaN ELSE RSub(RV(Lane[i]), sh)
ShiftMoves ==
  Judged({"shift"}) =>
     /\ Cardinality({ i \in 1..N : Res[i] = RNaN /\ i - kase.a \notin 1..N }) = Least(N, RAbs(kase.a))
     /\ \A i \in 1..N : i - kase.a \in 1..N => Res[i] = RV(Lane[i - kase.a])

\* rolling: count + NA cells = rows of the window; min <= mean <= max; mean * count = sum
RollRelations ==
  Judged({"roll"}) =>
     \A i \in 1..N :
        LET win == Window(Lane, i, kase.a, kase.c)
            at(g) == RollCell(g, win, kase.a, 0)[1]
            rt(g) == RollCell(g, win, kase.a, 0)
        IN /\ at("count") + Cardinality({ q \in DOMAIN win : win[q] = NA }) = Len(win)
           /\ Len(win) <= kase.a
           /\ at("count") > 0 => /\ RLe(rt("min"), rt("mean")) /\ RLe(rt("mean"), rt("max"))
                                 /\ RMul(rt("mean"), rt("count")) = rt("sum")
           /\ (Res[i] = RNaN) <=> \/ (kase.op = "count" /\ Len(win) < (IF kase.b = NA THEN kase.a ELSE kase.b))
                                  \/ (kase.op # "count" /\ at("count") < (IF kase.b = NA THEN kase.a ELSE kase.b))
                                  \/ (kase.op \in {"min", "max", "mean"} /\ at("count") = 0)

\* time-based windows: on consecutive days a window of w days is the fixed window of w rows (with the same explicit
\* min_periods); in general the window of row i is a contiguous run of rows ending at i, never longer than w rows
\* (labels are distinct integers), growing with w
TimeWindows ==
  Judged({"troll"}) =>
     LET mp  == IF kase.b = NA THEN 1 ELSE kase.b
         tid == [i \in 1..N |-> i - 1]
     IN /\ RollingTime(tid, Lane, kase.op, kase.a, mp) = Rolling(Lane, kase.op, kase.a, mp, 0)
        /\ \A i \in 1..N :
              LET cnt(w) == Cardinality({ j \in 1..i : kase.t[j] > kase.t[i] - w })
              IN /\ cnt(kase.a) >= 1 /\ cnt(kase.a) <= kase.a /\ cnt(kase.a) <= cnt(kase.a + 1)
                 /\ \A j \in 1..i : (kase.t[j] > kase.t[i] - kase.a) => \A q \in j..i : kase.t[q] > kase.t[i] - kase.a
                 /\ Len(TimeWindow(kase.t, [q \in 1..N |-> 0], i, kase.a)) = cnt(kase.a)

\* the stencil value of a row decodes to exactly the neighbours in reach that exist
StencilDecodes ==
  Judged({"mapov"}) =>
     \A i \in 1..N :
        \A q \in 1..(kase.a + kase.b + 1) :
           LET digit == (Res[i][1] \div IPow(StencilBase(N), q - 1)) % StencilBase(N)
               p == i - kase.a + q - 1
           IN digit = IF p \in 1..N THEN p ELSE 0

\* the exported divisions describe the exported layouts truthfully
LayoutsTruthful ==
  (ready /\ kase.fam = "layouts") =>
     \A q \in DOMAIN LayTable[kase.n] :
        LET lay == LayTable[kase.n][q]
            f   == FrameOfIdx([i \in 1..kase.n |-> i - 1])      \* (divisions are exported as row POSITIONS: the harness maps them to labels)
        IN /\ SumSeq(lay) = kase.n
           /\ DivisionsTruthful(DivsOf(kase.n, lay),
                                [b \in DOMAIN lay |-> Idxs(SplitBySizes(f, lay)[b])])
=============================================================================
