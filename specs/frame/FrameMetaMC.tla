---------------------------- MODULE FrameMetaMC ----------------------------
(* Design check of the C42 invariant.  TLC enumerates small observations: a
   base description (kind, 0..2 columns over a few dtype classes, index name
   and class), a number of partitions 1..2, and ONE optional corruption applied
   to the whole object or to one partition (other kind, a column renamed, the
   column order swapped, a dtype class changed, index name / class changed, a
   partition lost; and a dtype class changed on an object WITHOUT rows, which
   is the documented don't-care).  Invariants: the base observation satisfies the invariant
   (a truthful collection is never blamed), every corruption is rejected and is
   blamed on the right field (the invariant bites, for the whole object and for
   single partitions alike), and string storage cannot matter (there is only
   one string-like class).                                                   *)
EXTENDS FrameMeta, Json

CONSTANTS Classes,      \* dtype classes used for columns, e.g. {"i", "f", "s"}
          Names         \* column names, e.g. {"a", "b"}

VARIABLES case, out

ColLists == {<<>>} \cup { <<n>> : n \in Names } \cup { p \in Names \X Names : p[1] # p[2] }

Bases ==
  UNION { { [kind |-> "frame", cols |-> cs, dtypes |-> ds, iname |-> inm, idt |-> ic, rows |-> 2]
            : ds \in [DOMAIN cs -> Classes], inm \in {"", "k"}, ic \in {"i", "M"} } : cs \in ColLists }
  \cup { [kind |-> "series", cols |-> <<n>>, dtypes |-> <<d>>, iname |-> inm, idt |-> "i", rows |-> 2]
         : n \in Names \cup {""}, d \in Classes, inm \in {"", "k"} }
  \cup { [kind |-> "index", cols |-> <<n>>, dtypes |-> <<d>>, iname |-> "", idt |-> "", rows |-> 2] : n \in Names \cup {""}, d \in Classes }
  \cup { [kind |-> "scalar", cols |-> <<>>, dtypes |-> <<d>>, iname |-> "", idt |-> "", rows |-> 1] : d \in Classes }

Corruptions == {"none", "kind", "rename", "swap", "dtype", "iname", "idt", "emptydtype"}

\* a different class that is not covered by the integer-for-float / bool-for-object allowance of single partitions
OtherClass(c) == CHOOSE d \in DtypeClasses \ {"i", "u", "b"} : d # c

Applicable(b, c) ==
  CASE c = "none"   -> TRUE
    [] c = "kind"   -> b.kind \in {"series", "index"}
    [] c = "rename" -> Len(b.cols) >= 1
    [] c = "swap"   -> Len(b.cols) = 2
    [] c \in {"dtype", "emptydtype"} -> Len(b.dtypes) >= 1
    [] c \in {"iname", "idt"} -> b.kind \in {"frame", "series"}

Corrupt(b, c) ==
  CASE c = "none"   -> b
    [] c = "kind"   -> [b EXCEPT !.kind = IF b.kind = "series" THEN "index" ELSE "series"]
    [] c = "rename" -> [b EXCEPT !.cols[1] = "zz"]
    [] c = "swap"   -> [b EXCEPT !.cols = <<b.cols[2], b.cols[1]>>]
    [] c = "dtype"  -> [b EXCEPT !.dtypes[1] = OtherClass(b.dtypes[1])]
    [] c = "emptydtype" -> [b EXCEPT !.dtypes[1] = OtherClass(b.dtypes[1]), !.rows = 0]
    [] c = "iname"  -> [b EXCEPT !.iname = IF b.iname = "" THEN "k" ELSE ""]
    [] c = "idt"    -> [b EXCEPT !.idt = OtherClass(b.idt)]

\* the clause a corruption must be blamed on
Blame(c, part) ==
  CASE c = "kind"   -> IF part THEN "PKind" ELSE "Kind"
    [] c \in {"rename", "swap"} -> IF part THEN "PCols" ELSE "Cols"
    [] c = "dtype"  -> IF part THEN "PDtypes" ELSE "Dtypes"
    [] c = "iname"  -> IF part THEN "PIName" ELSE "IName"
    [] c = "idt"    -> IF part THEN "PIDtype" ELSE "IDtype"

Obs(b, np, c, site, lost) ==
  [meta |-> b, nparts |-> np, ndivs |-> np,
   whole |-> IF site = 0 THEN Corrupt(b, c) ELSE b,
   parts |-> [i \in 1..(IF lost THEN np - 1 ELSE np) |-> IF site = i THEN Corrupt(b, c) ELSE b]]

Init == /\ case \in [seed : Bases]
        /\ out = ""

Next == /\ out = ""
        /\ \E np \in 1..2, c \in Corruptions, site \in 0..2, lost \in BOOLEAN :
             /\ site <= np
             /\ Applicable(case.seed, c)
             /\ (lost => np = 2 /\ site # 2)
             /\ case' = [b |-> case.seed, np |-> np, c |-> c, site |-> site, lost |-> lost,
                         obs |-> Obs(case.seed, np, c, site, lost)]
             /\ out' = ToJson([c |-> [np |-> np, c |-> c, site |-> site, lost |-> lost], e |-> [bad |-> MetaBad(case'.obs)]])

IsCase == out # ""

BasesWellFormed == ~IsCase => IsDescription(case.seed)
\* a truthful observation is accepted
TruthfulAccepted == (IsCase /\ case.c \in {"none", "emptydtype"} /\ ~case.lost) => MetaOK(case.obs)
\* every corruption is rejected and blamed on its field; a lost partition is noticed
Bites == IsCase =>
           /\ (case.c \notin {"none", "emptydtype"}) => Blame(case.c, case.site # 0) \in MetaBad(case.obs)
           /\ case.lost => "NParts" \in MetaBad(case.obs)
\* nothing else is blamed
BlamesOnlyTheCorruptedField ==
  IsCase => MetaBad(case.obs) \subseteq ((IF case.c \in {"none", "emptydtype"} THEN {} ELSE {Blame(case.c, case.site # 0)})
                                          \cup (IF case.lost THEN {"NParts"} ELSE {}))
=============================================================================
