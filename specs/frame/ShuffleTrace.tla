---------------------------- MODULE ShuffleTrace ----------------------------
(* code -> spec for C40: every record is one shuffle / sort_values / set_index /
   drop_duplicates / unique / nunique call made on a real dask collection - the
   source rows [rid, idx, k, k2] in the labels of the specification, the
   arguments the contract depends on, and what was observed (declared
   npartitions / divisions, every partition computed through its own key,
   compute() of the whole compared with them).  The source partitioning, the
   shuffle method, max_branch, split_out and the key dtype are logged for the
   reader only.

     op = "shuffle"   rows, on, nout, ign, obs
     op = "sort"      rows, by, asc, naf, ign, obs
     op = "setindex"  rows, drop, udivs, sortit, obs      (obs.divs as positions, see Shuffle!Pos)
     op = "dedup"     rows, subset, keep, obs
     op = "unique"    rows, obs (values)        op = "nunique"  rows, dropna, obs (count)          *)
EXTENDS Shuffle, TraceIO

Bad(r) ==
  CASE r.op = "shuffle"  -> ShuffleBad(r.rows, r.on, r.nout, r.ign, r.obs)
    [] r.op = "sort"     -> SortBad(r.rows, r.by, r.asc, r.naf, r.ign, r.obs)
    [] r.op = "setindex" -> SetIndexBad(r.rows, r.drop, r.udivs, r.sortit, r.obs)
    [] r.op = "dedup"    -> DedupBad(r.rows, r.subset, r.keep, r.obs)
    [] r.op = "unique"   -> UniqueBad(r.rows, r.obs)
    [] r.op = "nunique"  -> NUniqueBad(r.rows, r.dropna, r.obs)
    [] OTHER -> {"UnknownOp"}

Init == TInit
Next == TNext(Bad)
=============================================================================
