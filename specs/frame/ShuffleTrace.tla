---------------------------- MODULE ShuffleTrace ----------------------------
(* code -> spec for C40: every record is one shuffle / sort_values / set_index /
   drop_duplicates / unique / nunique call made on a real dask collection - the
   source rows [rid, idx, k, k2] in the labels of the specification, the
   arguments the contract depends on, and what was observed (declared
   npartitions / divisions, every partition computed through its own key,
   compute() of the whole compared with them).  The source partitioning, the
   shuffle method, max_branch, split_out, the key dtype and the PRE-STAGE the
   source went through (field pre, see Shuffle!PreOK) do not enter the verdict.

     op = "shuffle"   rows, on, nout, ign, obs
     op = "sort"      rows, by, asc, naf, ign, obs
     op = "setindex"  rows, drop, udivs, sortit, obs      (obs.divs as positions, see Shuffle!Pos)
     op = "dedup"     rows, subset, keep, obs
     op = "unique"    rows, obs (values)        op = "nunique"  rows, dropna, obs (count)          *)
EXTENDS Shuffle, TraceIO

\* r.pre: what the source went through before the operation (Shuffle!PreOK is the harness' obligation); the verdict does
\* not look at it otherwise.  r.ign is TRUE when ignore_index=True was passed or the pre-stage replaced the index.
Bad(r) ==
  IF ~PreOK(r.rows, r.pre) THEN {"BadCase"} ELSE
  CASE r.op = "shuffle"  -> ShuffleBad(r.rows, r.on, r.nout, r.ign, r.obs)
    [] r.op = "sort"     -> SortBad(r.rows, r.by, r.asc, r.naf, r.ign, r.obs)
    [] r.op = "setindex" -> SetIndexBad(r.rows, r.drop, r.udivs, r.sortit, r.obs)
    [] r.op = "dedup"    -> DedupBad(r.rows, r.subset, r.keep, r.pre.how # "none", r.obs)
    [] r.op = "unique"   -> UniqueBad(r.rows, r.obs)
    [] r.op = "nunique"  -> NUniqueBad(r.rows, r.dropna, r.obs)
    [] OTHER -> {"UnknownOp"}

Init == TInit
Next == TNext(Bad)
=============================================================================
