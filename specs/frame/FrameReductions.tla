--------------------------- MODULE FrameReductions ---------------------------
(* Reference semantics of pandas column / row reductions and aggregations over
   the frames of module Frames.  C37.

   A frame is a sequence of rows [rid, idx, a, b, c, ...]; `cols` names the
   numeric columns in order; a cell is a small natural number or NA (= 99,
   Frames!NA: NaN in a float column).  A case may say that the real frame
   carries one more, non-numeric column (`scol`): the operation is then
   called with numeric_only=True and the specification ignores that column.

   A reduction is a fold over a LANE: the cells of one column in row order
   (axis = 0), the cells of one row in column order (axis = 1), or all cells
   of all columns (axis = None).  Nothing
   here mentions partitions or split_every: the property says precisely that
   the result depends on neither.

   Integer-valued results (sum prod min max count any all nunique len, index
   labels, counts) are integers or NA; mean / var / std / sem and normalized
   value counts are exact rationals <<num, den>> (module Rational) or RNaN.
   std and sem are specified by their squares: the harness squares what dask
   returns.  What pandas leaves free is left free: the order of equal counts
   in value_counts (VCOrderOK).

   A result is [k, ix, v, err]:
     k = "scalar"  ix = <<>>                      v = <<value>>
     k = "cols"    ix = column positions (0-based) v = one value per column
     k = "rows"    ix = index labels               v = one value per label
     k = "vc"      ix = distinct values            v = their counts (canonical order: by value)
     k = "list"    ix = <<>>                       v = values (mode of a series)
     k = "table"   ix = column positions           v = cells, row-major (mode of a frame)
     k = "rids"    ix = index labels               v = row ids (nlargest / nsmallest of a frame)
     k = "matrix"  ix = column positions           v = cells, row-major (cov / corr of a frame)
   (describe: "table" with the rows count, mean, std^2, min, max / "list" of those five)
   err = pandas raises (idxmin / idxmax of an empty or all-NA lane, or of a
   lane with NA under skipna=False); then k = "err", ix = v = <<>>.           *)
EXTENDS Frames, Rational, TLC, Json

RNaN == <<0, 0>>     \* a NaN rational result
ERR  == -2           \* lane-level "pandas raises"

Rng(l)    == { l[j] : j \in DOMAIN l }
HasNA(l)  == \E j \in DOMAIN l : l[j] = NA
Valid(l)  == SelectSeq(l, LAMBDA v : v # NA)
B(p)      == IF p THEN 1 ELSE 0
Sorted(S) == SetToSortSeq(S, LAMBDA a, b : a < b)          \* ascending; NA = 99 sorts last
Positions(l) == [j \in DOMAIN l |-> j]
Least(a, b)  == IF a < b THEN a ELSE b

Col(rows, c)       == [i \in DOMAIN rows |-> rows[i][c]]
RowCells(r, cols)  == [j \in DOMAIN cols |-> r[cols[j]]]
ColPositions(cols) == [j \in DOMAIN cols |-> j - 1]

-----------------------------------------------------------------------------
(* Folds of one lane.                                                         *)

\* sum prod min max count any all.  skipna = FALSE: one NA poisons sum/prod/min/max
\* and counts as a truthy value for any/all.  mc = min_count (sum, prod only).
IntFold(op, l, skipna, mc) ==
  LET v == Valid(l)
      poisoned == ~skipna /\ HasNA(l)
  IN CASE op = "count" -> Len(v)
       [] op = "any"   -> IF skipna THEN B(\E j \in DOMAIN v : v[j] # 0) ELSE B(\E j \in DOMAIN l : l[j] # 0)
       [] op = "all"   -> IF skipna THEN B(\A j \in DOMAIN v : v[j] # 0) ELSE B(\A j \in DOMAIN l : l[j] # 0)
       [] op = "sum"   -> IF poisoned \/ Len(v) < mc THEN NA ELSE SumSeq(v)
       [] op = "prod"  -> IF poisoned \/ Len(v) < mc THEN NA ELSE ProdSeq(v)
       [] op = "min"   -> IF poisoned \/ v = <<>> THEN NA ELSE Min(Rng(v))
       [] op = "max"   -> IF poisoned \/ v = <<>> THEN NA ELSE Max(Rng(v))

SumSq(l) == SumSeq([j \in DOMAIN l |-> l[j] * l[j]])

\* mean var std sem as exact rationals; var = (n*Sum(x^2) - Sum(x)^2) / (n * (n - ddof));
\* std is given by its square (= var), sem by its square (= var / n)
RatFold(op, l, skipna, ddof) ==
  LET v == Valid(l)
      n == Len(v)
      S == SumSeq(v)
      num == n * SumSq(v) - S * S
  IN IF ~skipna /\ HasNA(l) THEN RNaN
     ELSE CASE op = "mean"            -> IF n = 0 THEN RNaN ELSE RNorm(S, n)
            [] op \in {"var", "std"}  -> IF n - ddof <= 0 THEN RNaN ELSE RNorm(num, n * (n - ddof))
            [] op = "sem"             -> IF n - ddof <= 0 THEN RNaN ELSE RNorm(num, n * n * (n - ddof))

\* idxmin / idxmax: the label of the FIRST cell holding the extreme valid value
IdxFold(op, l, labels, skipna) ==
  LET v == Valid(l) IN
  IF v = <<>> \/ (~skipna /\ HasNA(l)) THEN ERR
  ELSE LET m == IF op = "idxmin" THEN Min(Rng(v)) ELSE Max(Rng(v))
       IN labels[Min({ j \in DOMAIN l : l[j] = m })]

NUnique(l, dropna) == Cardinality(Rng(Valid(l))) + B(~dropna /\ HasNA(l))

\* value_counts: the distinct values (NA is one of them unless dropna) with their frequencies
VCKeys(l, dropna)  == Sorted(Rng(IF dropna THEN Valid(l) ELSE l))
VCTotal(l, dropna) == IF dropna THEN Len(Valid(l)) ELSE Len(l)
VCCounts(l, dropna, normalize) ==
  LET ks == VCKeys(l, dropna) IN
  [j \in DOMAIN ks |-> IF normalize THEN RNorm(CountIn(l, ks[j]), VCTotal(l, dropna)) ELSE CountIn(l, ks[j])]

\* mode: the most frequent values in ascending order (NA last; NA competes unless dropna)
Mode(l, dropna) ==
  LET ks == VCKeys(l, dropna) IN
  IF ks = <<>> THEN <<>>
  ELSE LET top == Max({ CountIn(l, ks[j]) : j \in DOMAIN ks })
       IN SelectSeq(ks, LAMBDA k : CountIn(l, k) = top)

\* nlargest / nsmallest (keep = "first"): positions of the valid cells sorted by value,
\* equal values in row order, followed by the NA cells in row order; the first n of them
TopOrder(l, largest) ==
  LET valid == SelectSeq(Positions(l), LAMBDA j : l[j] # NA)
      nas   == SelectSeq(Positions(l), LAMBDA j : l[j] = NA)
  IN StableSortBy(valid, LAMBDA j : IF largest THEN 0 - l[j] ELSE l[j]) \o nas
Top(l, n, largest) == SubSeq(TopOrder(l, largest), 1, Least(IF n < 0 THEN 0 ELSE n, Len(l)))

\* cov / corr of two lanes over the rows where BOTH are valid (pairwise complete), ddof = 1.
\* With n pairs, N = n*Sum(xy) - Sum(x)*Sum(y), Dx = n*Sum(x^2) - Sum(x)^2:
\*    cov = N / (n*(n-1))          corr = N / sqrt(Dx*Dy)
\* corr is specified by its SIGNED SQUARE sgn(N) * N^2 / (Dx*Dy) (the harness squares what dask
\* returns and keeps the sign); NaN for fewer than two pairs and, for corr, a constant lane.
PairPos(x, y) == SelectSeq(Positions(x), LAMBDA j : x[j] # NA /\ y[j] # NA)
CovCorr(op, x, y) ==
  LET ps == PairPos(x, y)
      n  == Len(ps)
      xs == [j \in DOMAIN ps |-> x[ps[j]]]
      ys == [j \in DOMAIN ps |-> y[ps[j]]]
      N  == n * SumSeq([j \in DOMAIN ps |-> xs[j] * ys[j]]) - SumSeq(xs) * SumSeq(ys)
      Dx == n * SumSq(xs) - SumSeq(xs) * SumSeq(xs)
      Dy == n * SumSq(ys) - SumSeq(ys) * SumSeq(ys)
  IN IF n < 2 THEN RNaN
     ELSE IF op = "cov" THEN RNorm(N, n * (n - 1))
     ELSE IF Dx = 0 \/ Dy = 0 THEN RNaN
     ELSE RNorm((IF N < 0 THEN 0 - 1 ELSE 1) * N * N, Dx * Dy)

\* the exact statistics of describe(): count, mean, std (squared), min, max - as rationals
Describe(l) ==
  LET mn == IntFold("min", l, TRUE, 0)
      mx == IntFold("max", l, TRUE, 0)
  IN << RInt(IntFold("count", l, TRUE, 0)), RatFold("mean", l, TRUE, 0), RatFold("std", l, TRUE, 1),
        IF mn = NA THEN RNaN ELSE RInt(mn), IF mx = NA THEN RNaN ELSE RInt(mx) >>

-----------------------------------------------------------------------------
(* Results.                                                                   *)
Failure == [k |-> "err", ix |-> <<>>, v |-> <<>>, err |-> TRUE]
Res(k, ix, v) == [k |-> k, ix |-> ix, v |-> v, err |-> FALSE]

\* A case: [fam, op, tgt, ax, sk, fl, p, cols, rows, scol]
\*   fam  "fold" | "rat" | "idx" | "nuniq" | "vc" | "mode" | "top" | "len" | "cov" | "desc"
\*   tgt  "frame" | "series" (the series is the first column of cols)
\*   ax   0 | 1 | 2 = axis None (fold except count, rat; frames only)
\*   sk   skipna (fold rat idx) / dropna (nuniq vc mode)
\*   fl   normalize (vc)
\*   p    min_count (sum prod) | ddof (var std sem) | n (top)
\*        | vc: 0 = sort=True descending, 1 = sort=True ascending, 2 = sort left at its default (order free)
LaneVal(c, l, labels) ==
  CASE c.fam = "fold"  -> IntFold(c.op, l, c.sk, c.p)
    [] c.fam = "rat"   -> RatFold(c.op, l, c.sk, c.p)
    [] c.fam = "idx"   -> IdxFold(c.op, l, labels, c.sk)
    [] c.fam = "nuniq" -> NUnique(l, c.sk)

\* axis = None (ax = 2, frames only): ONE lane holding all cells of all columns (column after column;
\* the folds that accept axis=None do not depend on the order) and a scalar result
RECURSIVE Concat(_)
Concat(ss) == IF ss = <<>> THEN <<>> ELSE Head(ss) \o Concat(Tail(ss))
AllCells(c) == Concat([j \in DOMAIN c.cols |-> Col(c.rows, c.cols[j])])

Lanewise(c) ==
  LET labels == Idxs(c.rows)
      vals   == IF c.tgt = "series" THEN <<LaneVal(c, Col(c.rows, c.cols[1]), labels)>>
                ELSE IF c.ax = 2 THEN <<LaneVal(c, AllCells(c), <<>>)>>
                ELSE IF c.ax = 0 THEN [j \in DOMAIN c.cols |-> LaneVal(c, Col(c.rows, c.cols[j]), labels)]
                ELSE [i \in DOMAIN c.rows |-> LaneVal(c, RowCells(c.rows[i], c.cols), ColPositions(c.cols))]
  IN IF c.fam = "idx" /\ \E j \in DOMAIN vals : vals[j] = ERR THEN Failure
     ELSE IF c.tgt = "series" \/ c.ax = 2 THEN Res("scalar", <<>>, vals)
     ELSE IF c.ax = 0 THEN Res("cols", ColPositions(c.cols), vals)
     ELSE Res("rows", labels, vals)

ModeTable(c) ==
  LET ms == [j \in DOMAIN c.cols |-> Mode(Col(c.rows, c.cols[j]), c.sk)]
      h  == Max({0} \cup { Len(ms[j]) : j \in DOMAIN ms })
      nc == Len(c.cols)
  IN Res("table", ColPositions(c.cols),
         [q \in 1..(h * nc) |-> LET i == ((q - 1) \div nc) + 1
                                    j == ((q - 1) % nc) + 1
                                IN IF i <= Len(ms[j]) THEN ms[j][i] ELSE NA])

Expected(c) ==
  LET first == Col(c.rows, c.cols[1]) IN
  CASE c.fam \in {"fold", "rat", "idx", "nuniq"} -> Lanewise(c)
    [] c.fam = "vc"   -> Res("vc", VCKeys(first, c.sk), VCCounts(first, c.sk, c.fl))
    [] c.fam = "mode" -> IF c.tgt = "series" THEN Res("list", <<>>, Mode(first, c.sk)) ELSE ModeTable(c)
    [] c.fam = "top"  -> LET sel == Top(first, c.p, c.op = "nlargest")
                             lab == [j \in DOMAIN sel |-> c.rows[sel[j]].idx]
                         IN IF c.tgt = "series" THEN Res("rows", lab, [j \in DOMAIN sel |-> first[sel[j]]])
                            ELSE Res("rids", lab, [j \in DOMAIN sel |-> c.rows[sel[j]].rid])
    [] c.fam = "len"  -> Res("scalar", <<>>, <<Len(c.rows)>>)
    [] c.fam = "cov"  -> IF c.tgt = "series" THEN Res("scalar", <<>>, <<CovCorr(c.op, first, Col(c.rows, c.cols[2]))>>)
                         ELSE LET nc == Len(c.cols) IN
                              Res("matrix", ColPositions(c.cols),
                                  [q \in 1..(nc * nc) |-> CovCorr(c.op, Col(c.rows, c.cols[((q - 1) \div nc) + 1]),
                                                                        Col(c.rows, c.cols[((q - 1) % nc) + 1]))])
    [] c.fam = "desc" -> IF c.tgt = "series" THEN Res("list", <<>>, Describe(first))
                         ELSE LET nc == Len(c.cols)
                                  ds == [j \in DOMAIN c.cols |-> Describe(Col(c.rows, c.cols[j]))]
                              IN Res("table", ColPositions(c.cols),
                                     [q \in 1..(5 * nc) |-> ds[((q - 1) % nc) + 1][((q - 1) \div nc) + 1]])

\* value_counts(sort=True): an observed order of (value, count) pairs is acceptable iff the counts
\* are monotone in the requested direction - the order among equal counts is free.  For normalized
\* counts the harness passes the observed proportions' ranks; here counts are compared as given.
VCOrderOK(counts, ascending) ==
  \A j \in 1..(Len(counts) - 1) : IF ascending THEN counts[j] <= counts[j + 1] ELSE counts[j] >= counts[j + 1]

-----------------------------------------------------------------------------
(* What an observation of the implementation must satisfy.  obs = [raised, k, ix, v, close,
   ord]: kind, index and values projected by the harness into the vocabulary above (floats as
   the small rational next to them, `close` = every float was within tolerance of one);
   for "vc" the pairs are logged in canonical (by value) order and `ord` holds the observed
   sequence of counts (as integers: counts, or numerators over the common total).           *)
Verdict(c, obs) ==
  LET w == Expected(c) IN
  IF w.err THEN (IF obs.raised # "" THEN {} ELSE {"ErrorExpected"})
  ELSE IF obs.raised # "" THEN {"UnexpectedRaise"}
  ELSE IF obs.k # w.k THEN {"Kind"}
  ELSE IF obs.ix # w.ix THEN {"Index"}
  ELSE IF ~obs.close \/ obs.v # w.v THEN {"Content"}
  ELSE IF c.fam = "vc" /\ c.p \in {0, 1} /\ ~VCOrderOK(obs.ord, c.p = 1) THEN {"Order"}
  ELSE {}
=============================================================================
