------------------------------ MODULE FrameOps ------------------------------
(* C36 - reference semantics of the row-wise and elementwise dataframe
   operations (pandas semantics), over the typed tables of FrameAlgebra.

   The property: for ANY partitioning of the input (any number of partitions,
   empty partitions, known or unknown divisions) the dask operation computes
   to the table  Apply(T, layout, op)  defined here - same columns in the same
   order, same dtype classes, same rows (index label and cells) in the same
   order.  The partitioning of the RESULT is left free (nothing below mentions
   it); `layout` (the row counts of the input partitions) is an argument only
   because head / tail are documented to look at whole partitions.

   EXPRESSIONS (Series-valued, evaluated row by row on a table T; `self` is the
   column a frame-level operation is currently applied to):
     [e |-> "col",   c |-> name]                    T[name]
     [e |-> "self"]                                 the current column (fmap)
     [e |-> "idx"]                                  T.index            (an array: carries no name)
     [e |-> "idxs"]                                 T.index.to_series() (an unnamed Series)
     [e |-> "const", v |-> i]                       a scalar
     [e |-> "bin",   f |-> op, l |-> x, r |-> y]    x op y:  add sub mul | lt le gt ge eq ne | and or xor
     [e |-> "not" | "neg" | "abs" | "isna" | "notna", x |-> x]
     [e |-> "isin",  x |-> x, vals |-> <<i, ...>>]
     [e |-> "fillna", x |-> x, v |-> i]
     [e |-> "replace", x |-> x, k |-> i, v |-> i]                x.replace(k, v)
     [e |-> "round", x |-> x]                                    x.round()  (cells are integral: the identity)
     [e |-> "clip",  x |-> x, lo |-> i | NA, hi |-> i | NA]      NA = no bound; lo <= hi
     [e |-> "map",   x |-> x, pairs |-> <<<<k, v>>, ...>>]       Series.map(dict)
     [e |-> "astype", x |-> x, to |-> "i" | "f"]
     [e |-> "where" | "mask", x |-> x, p |-> cond, o |-> i | NA] x.where(cond, other)
     [e |-> "affine", x |-> x, m |-> i, q |-> i]                 x.apply(lambda v: m*v + q, meta=...)

   OPERATIONS on one table:
     [op |-> "series",  x |-> expr]                    the Series expr
     [op |-> "filter",  p |-> cond]                    T[cond]
     [op |-> "sfilter", x |-> expr, p |-> cond]        expr[cond]          (a Series)
     [op |-> "project", cols |-> <<names>>]            T[[names]]
     [op |-> "assign",  name |-> c, x |-> expr]        T.assign(c = expr)  (const: a scalar)
     [op |-> "fmap",    cols |-> <<names>>, x |-> expr over "self"]
                                                       T[[names]] under a frame-level
                                                       elementwise operation (T2 + 1, T2.fillna(0),
                                                       T2.where(T2 > 0, 5), T2.astype(..), ...)
     [op |-> "fmapcol", cols |-> <<names>>, x |-> expr over "self", c |-> name]
                                                       one column of the former: T[[names]].where(..)[c]
     [op |-> "rename",  ren |-> <<<<old, new>>, ...>>] T.rename(columns = {...})
     [op |-> "head",    n |-> n, np |-> k | -1]        T.head(n, npartitions = k)
     [op |-> "tail",    n |-> n]                       T.tail(n)           (last partition only)
     [op |-> "loc",     a |-> i | NA, b |-> i | NA]    T.loc[a:b]          (sorted index)
     [op |-> "seq",     first |-> op, second |-> op]   second applied to the result of first (a
                                                       two-step program: dask optimizes it as a whole;
                                                       an optional field `tag` names the family of the
                                                       enumeration it belongs to and means nothing)
   OPERATIONS on two tables L, R with their own indexes and partitionings:
     [op |-> "abin",  f |-> arith, lc |-> c, rc |-> d]      L[c] f R[d]        (outer alignment)
     [op |-> "afbin", f |-> arith, cols |-> <<names>>]      L[[names]] f R[[names]]
     [op |-> "afilter", p |-> cond over R]                  L[cond]            (identical indexes)
     [op |-> "aassign", name |-> c, x |-> expr over R]      L.assign(c = expr) (identical indexes)
     [op |-> "awhere" | "amask", c |-> col, p |-> cond over R, o |-> i | NA]
                                                            L[c].where(cond, o) (identical indexes)  *)
EXTENDS FrameAlgebra

(* ------------------------------------------------------------ expressions *)
Lookup(pairs, v) == IF \E j \in DOMAIN pairs : pairs[j][1] = v
                    THEN pairs[CHOOSE j \in DOMAIN pairs : pairs[j][1] = v][2]
                    ELSE NA

ClipCell(v, lo, hi) == IF v = NA THEN NA
                       ELSE LET w == IF lo # NA /\ v < lo THEN lo ELSE v
                            IN IF hi # NA /\ w > hi THEN hi ELSE w

\* name of the result of a binary operation between two Series / a Series and a scalar
BinName(l, r) == IF l = "#" THEN r ELSE IF r = "#" THEN l ELSE IF l = r THEN l ELSE ""

RECURSIVE Eval(_, _, _)
Eval(T, x, self) ==
  LET n == NRows(T)
      \* elementwise unary operation keeping the name
      un(c, f(_), kind) == [name |-> c.name, kind |-> kind, err |-> c.err,
                            vals |-> [k \in 1..n |-> f(c.vals[k])]]
  IN
  CASE x.e = "col"   -> ColOf(T, x.c)
    [] x.e = "self"  -> ColOf(T, self)
    [] x.e = "idx"   -> [name |-> "#", kind |-> "i", err |-> FALSE, vals |-> TIdx(T)]
    [] x.e = "idxs"  -> [name |-> "", kind |-> "i", err |-> FALSE, vals |-> TIdx(T)]
    [] x.e = "const" -> [name |-> "#", kind |-> "i", err |-> FALSE, vals |-> [k \in 1..n |-> x.v]]
    [] x.e = "bin"   ->
         LET l == Eval(T, x.l, self)
             r == Eval(T, x.r, self)
             vals == [k \in 1..n |-> CellBin(x.f, l.vals[k], r.vals[k])]
         IN [name |-> BinName(l.name, r.name), err |-> l.err \/ r.err, vals |-> vals,
             kind |-> IF x.f \in ArithOps THEN NumKind(l.kind, r.kind, vals) ELSE "b"]
    [] x.e = "not"   -> LET c == Eval(T, x.x, self) IN un(c, LAMBDA v : 1 - v, "b")
    [] x.e = "neg"   -> LET c == Eval(T, x.x, self) IN un(c, LAMBDA v : IF v = NA THEN NA ELSE 0 - v, c.kind)
    [] x.e = "abs"   -> LET c == Eval(T, x.x, self) IN un(c, LAMBDA v : IF v = NA THEN NA ELSE IF v < 0 THEN 0 - v ELSE v, c.kind)
    [] x.e = "isna"  -> LET c == Eval(T, x.x, self) IN un(c, LAMBDA v : Bool(v = NA), "b")
    [] x.e = "notna" -> LET c == Eval(T, x.x, self) IN un(c, LAMBDA v : Bool(v # NA), "b")
    [] x.e = "isin"  -> LET c == Eval(T, x.x, self)
                        IN un(c, LAMBDA v : Bool(v # NA /\ \E j \in DOMAIN x.vals : x.vals[j] = v), "b")
    [] x.e = "fillna" -> LET c == Eval(T, x.x, self) IN un(c, LAMBDA v : IF v = NA THEN x.v ELSE v, c.kind)
    [] x.e = "replace" -> LET c == Eval(T, x.x, self) IN un(c, LAMBDA v : IF v = x.k THEN x.v ELSE v, c.kind)
    [] x.e = "round" -> Eval(T, x.x, self)
    [] x.e = "clip"  -> LET c == Eval(T, x.x, self) IN un(c, LAMBDA v : ClipCell(v, x.lo, x.hi), c.kind)
    [] x.e = "map"   -> LET c == Eval(T, x.x, self)
                            r == un(c, LAMBDA v : IF v = NA THEN NA ELSE Lookup(x.pairs, v), "i")
                        IN [r EXCEPT !.kind = IF HasNA(r.vals) THEN "f" ELSE "i"]
    [] x.e = "astype" -> LET c == Eval(T, x.x, self)
                         IN IF x.to = "f" THEN [c EXCEPT !.kind = "f"]
                            ELSE [c EXCEPT !.kind = "i", !.err = c.err \/ HasNA(c.vals)]   \* NaN cannot be cast to integer
    [] x.e \in {"where", "mask"} ->
         LET c == Eval(T, x.x, self)
             p == Eval(T, x.p, self)
             keep == IF x.e = "where" THEN 1 ELSE 0
             vals == [k \in 1..n |-> IF p.vals[k] = keep THEN c.vals[k] ELSE x.o]
         IN [name |-> c.name, err |-> c.err \/ p.err, vals |-> vals, kind |-> NumKind(c.kind, "i", vals)]
    [] x.e = "affine" -> LET c == Eval(T, x.x, self)
                         IN un(c, LAMBDA v : IF v = NA THEN NA ELSE x.m * v + x.q, c.kind)

(* ------------------------------------------------- operations on one table *)
TruePos(T, p) == PosSeq(NRows(T), LAMBDA k : p.vals[k] = 1)

Project(T, cols) == FrameOfCols(T, [j \in DOMAIN cols |-> ColOf(T, cols[j])])

Assign(T, name, col0) ==
  LET col  == [col0 EXCEPT !.name = name]
      old  == [j \in DOMAIN T.cols |-> IF T.cols[j] = name THEN col ELSE ColOf(T, T.cols[j])]
  IN FrameOfCols(T, IF HasCol(T, name) THEN old ELSE Append(old, col))

Rename(T, ren) ==
  [T EXCEPT !.cols = [j \in DOMAIN T.cols |->
      IF \E q \in DOMAIN ren : ren[q][1] = T.cols[j]
      THEN ren[CHOOSE q \in DOMAIN ren : ren[q][1] = T.cols[j]][2] ELSE T.cols[j]]]

\* head(n, npartitions = np): the first n rows of the first np partitions (np = -1: of all)
HeadRows(T, layout, n, np) ==
  LET avail == IF np = -1 THEN NRows(T) ELSE SumSeq(SubSeq(layout, 1, np))
      m     == IF n < avail THEN n ELSE avail
  IN [T EXCEPT !.rows = SubSeq(T.rows, 1, m)]

\* tail(n): the last n rows of the LAST partition (documented: only that partition is inspected)
TailRows(T, layout, n) ==
  LET last == layout[Len(layout)]
      m    == IF n < last THEN n ELSE last
  IN [T EXCEPT !.rows = SubSeq(T.rows, NRows(T) - m + 1, NRows(T))]

\* label slice on a sorted index: both bounds inclusive, NA = open; a > b selects nothing
Loc(T, a, b) ==
  TakeRows(T, PosSeq(NRows(T), LAMBDA k : /\ (a = NA \/ a <= T.rows[k].idx)
                                          /\ (b = NA \/ T.rows[k].idx <= b)))

RECURSIVE Apply(_, _, _)
Apply(T, layout, o) ==
  CASE o.op = "seq"     -> LET mid == Apply(T, layout, o.first)
                           IN IF mid.err THEN mid ELSE Apply(mid, <<>>, o.second)
    [] o.op = "series"  -> SeriesOf(T, Eval(T, o.x, ""))
    [] o.op = "filter"  -> LET p == Eval(T, o.p, "") IN [TakeRows(T, TruePos(T, p)) EXCEPT !.err = p.err]
    [] o.op = "sfilter" -> LET p == Eval(T, o.p, "")
                               s == SeriesOf(T, Eval(T, o.x, ""))
                           IN [TakeRows(s, TruePos(T, p)) EXCEPT !.err = p.err \/ s.err]
    [] o.op = "project" -> Project(T, o.cols)
    [] o.op = "assign"  -> Assign(T, o.name, Eval(T, o.x, ""))
    [] o.op = "fmap"    -> FrameOfCols(T, [j \in DOMAIN o.cols |-> [Eval(T, o.x, o.cols[j]) EXCEPT !.name = o.cols[j]]])
    [] o.op = "fmapcol" -> SeriesOf(T, [Eval(T, o.x, o.c) EXCEPT !.name = o.c])
    [] o.op = "rename"  -> Rename(T, o.ren)
    [] o.op = "head"    -> HeadRows(T, layout, o.n, o.np)
    [] o.op = "tail"    -> TailRows(T, layout, o.n)
    [] o.op = "loc"     -> Loc(T, o.a, o.b)

\* operations whose result depends on the partitioning of the input
NeedsLayout(o) == o.op = "tail" \/ (o.op = "head" /\ o.np # -1)

(* ------------------------------------------------ operations on two tables *)
\* column `lv` (over L) f column `rv` (over R), outer-aligned on the index
AlignedCol(L, R, f, lv, rv, name) ==
  LET li == TIdx(L)  ri == TIdx(R)
      pr == AlignPairs(li, ri)
      vals == [j \in DOMAIN pr |-> CellArith(f, AtOrNA(lv.vals, pr[j][1]), AtOrNA(rv.vals, pr[j][2]))]
  IN [name |-> name, err |-> lv.err \/ rv.err, vals |-> vals, kind |-> NumKind(lv.kind, rv.kind, vals)]

\* the (row-less) table carrying the aligned index of L and R
AlignedIndex(L, R) ==
  LET li == TIdx(L)  ri == TIdx(R)  pr == AlignPairs(li, ri)
  IN [ser |-> FALSE, err |-> FALSE, cols |-> <<>>, kinds |-> <<>>,
      rows |-> [j \in DOMAIN pr |-> [idx |-> PairLabel(li, ri, pr[j]), v |-> <<>>]]]

SameIndex(L, R) == TIdx(L) = TIdx(R)

\* a column evaluated on R, used positionally on L (only meaningful when SameIndex)
Apply2(L, R, o) ==
  CASE o.op = "abin"  -> SeriesOf(AlignedIndex(L, R),
                                  AlignedCol(L, R, o.f, ColOf(L, o.lc), ColOf(R, o.rc), BinName(o.lc, o.rc)))
    [] o.op = "afbin" -> FrameOfCols(AlignedIndex(L, R),
                                     [j \in DOMAIN o.cols |-> AlignedCol(L, R, o.f, ColOf(L, o.cols[j]), ColOf(R, o.cols[j]), o.cols[j])])
    [] o.op \in {"afilter", "aassign", "awhere", "amask"} ->
         IF ~SameIndex(L, R) THEN [L EXCEPT !.err = TRUE]      \* outside the domain of this check
         ELSE CASE o.op = "afilter" -> LET p == Eval(R, o.p, "") IN [TakeRows(L, TruePos(L, p)) EXCEPT !.err = p.err]
                [] o.op = "aassign" -> Assign(L, o.name, Eval(R, o.x, ""))
                [] OTHER ->
                     LET c == ColOf(L, o.c)
                         p == Eval(R, o.p, "")
                         keep == IF o.op = "awhere" THEN 1 ELSE 0
                         vals == [k \in DOMAIN L.rows |-> IF p.vals[k] = keep THEN c.vals[k] ELSE o.o]
                     IN SeriesOf(L, [name |-> o.c, err |-> p.err, vals |-> vals, kind |-> NumKind(c.kind, "i", vals)])

(* ------------------------------------------------ projections of row lists *)
IdxSeq(rows) == [k \in DOMAIN rows |-> rows[k].idx]
ValSeq(rows) == [k \in DOMAIN rows |-> rows[k].v]
=============================================================================
