---------------------------- MODULE CsvBlocksTrace ----------------------------
(* code -> spec for C47: records of real dask calls.
   [id, kind |-> "blocks", text, obs |-> [raised, hdr, rows]]
        dd.read_csv(file holding `text`, blocksize = b, dtype = str, keep_default_na = False):
        column names and rows (cells as byte strings) must be the parse of the whole text
   [id, kind |-> "opts", text, o |-> [hdr, names, skip, comment], obs |-> [raised, hdr, rows]]
        dd.read_csv(file, blocksize = b, header / names / skiprows / comment as in o, dtype = str, keep_default_na = False):
        the frame of module CsvBlocks!ReadOpts (= pandas.read_csv on the whole file with the same options)
   [id, kind |-> "roundtrip", fr, lay, single, wi,
        obs |-> [raised, files |-> the files to_csv wrote (bytes), back |-> rows read_csv returned (typed cells)]]  *)
EXTENDS CsvBlocks, TraceIO

Bad(r) ==
  IF r.kind = "opts"
  THEN LET e == ReadOpts(r.text, r.o) IN
       IF e.err THEN {}                 \* pandas raises on the whole file: there is no frame to compare with (don't-care)
       ELSE IF r.obs.raised THEN (IF e.lax THEN {} ELSE {"Raised"})
       ELSE Clause("Header", r.obs.hdr = e.hdr) \cup Clause("Rows", r.obs.rows = e.rows)
  ELSE IF r.obs.raised THEN {"Raised"}
  ELSE IF r.kind = "blocks"
       THEN Clause("Header", r.obs.hdr = ParseCsv(r.text).hdr) \cup Clause("Rows", r.obs.rows = ParseCsv(r.text).rows)
       ELSE Clause("Files", FilesOK(r.fr, r.lay, r.single, r.wi, r.obs.files))
            \cup Clause("ReadBack", r.obs.back = ExpectedBack(r.fr, r.wi))

Init == TInit
Next == TNext(Bad)
=============================================================================
