------------------------------- MODULE GroupBy -------------------------------
(* Reference semantics of pandas groupby over the frames of module Frames.  C38.

   A frame is a sequence of rows [rid, idx, <key columns>, <value columns>];
   idx is unique (the harness makes it so), because the row-shaped results
   (cumsum, shift, ffill, ...) are identified by their index label.  A cell
   is a small natural number or NA (= 99).  Groups, their order and their
   member rows come from module GroupFold; the value of one group in one
   column is a fold of FrameReductions over the member rows' cells.

   Every value is an exact rational <<num, den>> (integers as <<n, 1>>, NaN as
   RNaN = <<0, 0>>); std is specified by its square.

   A result is a table [k, gk, cl, v, ordered, err]:
     k   "groups": one row per group, gk = the group keys (tuples) in sorted order
         "rows":   one row per input row (cumulative / shift / fill / transform),
                   gk = << <<idx>> >> in frame order
     cl  the result columns: [c |-> position of the value column (0-based; -1: none, e.g. size),
                              f |-> function name]
     v   v[i][j] = value of row i in column j
     ordered  whether the order of gk is part of the result: groups only under sort=True,
              rows only for the operations that do not move rows (cumsum cumprod cumcount)
   err = pandas raises (idxmin / idxmax of a group without a valid value).

   Nothing here mentions partitions, split_out, split_every or the shuffle
   method: the property says precisely that the result depends on none - nor
   on what the optimizer knows about an earlier hash partitioning (`pre`).   *)
EXTENDS FrameReductions, GroupFold

RERR == <<0, -1>>                    \* cell-level "pandas raises"
IntR(x) == IF x = NA THEN RNaN ELSE RInt(x)

FirstValid(l) == LET v == Valid(l) IN IF v = <<>> THEN RNaN ELSE RInt(v[1])
LastValid(l)  == LET v == Valid(l) IN IF v = <<>> THEN RNaN ELSE RInt(v[Len(v)])

\* the value of function f (parameter p: min_count of sum / prod, ddof of var / std) on the
\* member rows m of one group, column col
AggVal(f, p, m, col) ==
  LET l == Col(m, col) IN
  CASE f = "size"               -> RInt(Len(m))
    [] f \in {"sum", "prod"}    -> IntR(IntFold(f, l, TRUE, p))
    [] f = "count"              -> RInt(IntFold("count", l, TRUE, 0))
    [] f \in {"min", "max"}     -> IntR(IntFold(f, l, TRUE, 0))
    [] f = "nunique"            -> RInt(NUnique(l, TRUE))
    [] f = "mean"               -> RatFold("mean", l, TRUE, 0)
    [] f \in {"var", "std"}     -> RatFold(f, l, TRUE, p)
    [] f = "first"              -> FirstValid(l)
    [] f = "last"               -> LastValid(l)
    [] f \in {"idxmin", "idxmax"} -> LET x == IdxFold(f, l, Idxs(m), TRUE) IN IF x = ERR THEN RERR ELSE RInt(x)

\* the value at position pos (1-based, among the member rows m of its group) of a row-shaped operation
XfVal(op, p, m, pos, col) ==
  LET l == Col(m, col) IN
  CASE op = "cumsum"   -> IF l[pos] = NA THEN RNaN ELSE RInt(SumSeq(Valid(SubSeq(l, 1, pos))))
    [] op = "cumprod"  -> IF l[pos] = NA THEN RNaN ELSE RInt(ProdSeq(Valid(SubSeq(l, 1, pos))))
    [] op = "cumcount" -> RInt(pos - 1)
    [] op = "shift"    -> LET q == pos - p IN IF q \in DOMAIN l THEN IntR(l[q]) ELSE RNaN
    [] op = "ffill"    -> LET vs == { q \in 1..pos : l[q] # NA } IN IF vs = {} THEN RNaN ELSE RInt(l[Max(vs)])
    [] op = "bfill"    -> LET vs == { q \in pos..Len(l) : l[q] # NA } IN IF vs = {} THEN RNaN ELSE RInt(l[Min(vs)])
    [] op = "tsum"     -> IntR(IntFold("sum", l, TRUE, 0))                  \* transform("sum")

(* PRE-PARTITIONED SOURCES.  `pre` says what the frame went through before it is grouped:
     [how |-> "none"]                       nothing
     [how |-> "shuffle", on |-> K']         hash-shuffled on columns K' (any relation to the grouping keys K: subset,
                                            equal, superset, overlapping, disjoint).  The rows are the same, their
                                            order and partitioning are not: only ORDER-FREE operations are comparable
                                            with pandas, and for those the result is that of the unshuffled frame.
     [how |-> "agg", on |-> K']             the frame is the result of a first aggregation by the finer keys K' (K a
                                            prefix of K') with the same function (sum / min / max of partial sums /
                                            minima / maxima), reset_index(), then grouped by K.  The first stage drops the
                                            rows with an NA in K' when dropna is in force - otherwise the two stages
                                            compute what one grouping by K computes.
   Nothing else of the semantics looks at `pre`: partitioning knowledge must never change a result.                     *)
OrderFreeFuncs == {"sum", "prod", "count", "min", "max", "mean", "var", "std", "size", "nunique"}
SourceRows(c) == IF c.pre.how = "agg" /\ c.dropna THEN SelectSeq(c.rows, LAMBDA r : ~HasNAKey(r, c.pre.on)) ELSE c.rows

GFailure == [k |-> "err", gk |-> <<>>, cl |-> <<>>, v |-> <<>>, ordered |-> FALSE, err |-> TRUE]

ColPosIn(c, vcols) == IF \E j \in DOMAIN vcols : vcols[j] = c THEN (CHOOSE j \in DOMAIN vcols : vcols[j] = c) - 1 ELSE 0 - 1

(* A case:
     fam "agg":  [form, tgt, funcs, keys, dropna, sort, cats, observed, vcols, rows, pre]
        form   "method" g.f() | "single" g.agg("f") | "list" g.agg([f, ..]) | "dict" g.agg({col: f | [f, ..]})
        tgt    "frame" (all value columns) | "series" (g[col])
        funcs  the result columns in order: [c |-> value column ("" for size), f |-> function, p |-> parameter]
        sort   0 = not given, 1 = True, 2 = False;   cats = <<>> or the categories of the (single) key
        dropna the semantics in force (pandas' default is TRUE); dexp = whether the keyword was passed at all
               (not looked at here: the default must behave like dropna = TRUE)
     fam "xf":   [op, p, tgt, cols, keys, dropna, cats, observed, vcols, rows, pre]     cols = the columns transformed
     pre         see PRE-PARTITIONED SOURCES above *)
AggTable(c) ==
  LET src == SourceRows(c)
      gks == SortedKeys(GroupKeys(src, c.keys, c.dropna, SeqSet(c.cats), c.observed))
      v   == [i \in DOMAIN gks |->
                LET m == Members(src, c.keys, gks[i])
                IN [j \in DOMAIN c.funcs |-> AggVal(c.funcs[j].f, c.funcs[j].p, m, c.funcs[j].c)]]
  IN IF \E i \in DOMAIN v : \E j \in DOMAIN c.funcs : v[i][j] = RERR THEN GFailure
     ELSE [k |-> "groups", gk |-> gks,
           cl |-> [j \in DOMAIN c.funcs |-> [c |-> ColPosIn(c.funcs[j].c, c.vcols), f |-> c.funcs[j].f]],
           v |-> v, ordered |-> (c.sort = 1), err |-> FALSE]

XfTable(c) ==
  LET cols == IF c.op = "cumcount" THEN <<"">> ELSE c.cols
      none == [j \in DOMAIN cols |-> RNaN]
      vals == RowMap(c.rows, c.keys, c.dropna,
                     LAMBDA m, pos : [j \in DOMAIN cols |-> XfVal(c.op, c.p, m, pos, cols[j])], none)
  IN \* pandas raises (IndexError) for DataFrameGroupBy.transform on a non-empty frame none of whose rows belongs to a
     \* group (all keys NA under dropna); SeriesGroupBy.transform returns the all-NaN series in that case
     IF c.op = "tsum" /\ c.tgt = "frame" /\ c.rows # <<>> /\ Grouped(c.rows, c.keys, c.dropna) = <<>> THEN GFailure ELSE
     [k |-> "rows", gk |-> [i \in DOMAIN c.rows |-> <<c.rows[i].idx>>],
      cl |-> [j \in DOMAIN cols |-> [c |-> ColPosIn(cols[j], c.vcols), f |-> c.op]],
      v |-> vals, ordered |-> (c.op \in {"cumsum", "cumprod", "cumcount"}), err |-> FALSE]

GExpected(c) == IF c.fam = "agg" THEN AggTable(c) ELSE XfTable(c)

-----------------------------------------------------------------------------
(* What an observation must satisfy.  obs = [raised, k, gk, cl, v, close]: the result projected
   by the harness - keys / index labels as integer tuples in OBSERVED order, one row of exact
   rationals per key (floats as the small rational next to them; close = all were within tolerance). *)
PosOf(s, x) == CHOOSE i \in DOMAIN s : s[i] = x
GVerdict(c, obs) ==
  LET w == GExpected(c) IN
  IF w.err THEN (IF obs.raised # "" THEN {} ELSE {"ErrorExpected"})
  ELSE IF obs.raised # "" THEN {"UnexpectedRaise"}
  ELSE IF obs.k # w.k THEN {"Kind"}
  ELSE IF obs.cl # w.cl THEN {"Columns"}
  ELSE IF Len(obs.gk) # Len(w.gk) \/ SeqSet(obs.gk) # SeqSet(w.gk) THEN {"Groups"}       \* missing / extra / duplicated keys
  ELSE IF ~obs.close \/ \E i \in DOMAIN obs.gk : obs.v[i] # w.v[PosOf(w.gk, obs.gk[i])] THEN {"Content"}
  ELSE IF w.ordered /\ obs.gk # w.gk THEN {"Order"}
  ELSE {}
=============================================================================
