----------------------------- MODULE CsvBlocksMC -----------------------------
(* Case enumeration for C47 (CSV half) and design check of module CsvBlocks.

   fam = "text":  every table of a shape in Shapes (columns, max rows, menu prefix) whose cells are strings of Menu
     (digits, letters, a quoted comma, an embedded quote, the empty string, strings that begin
     like the header), written as a CSV text of at most MaxText bytes, with and without a final
     newline.  Exported: the text and its parse.  Invariants: parsing inverts writing, and
     BLOCKSIZE INVARIANCE - for EVERY blocksize 1..len+1 the block-wise read (read_bytes' offset
     planning and delimiter seek from TextBlocks, header line put in front of every later block)
     equals the parse of the whole text.
   fam = "frame": the typed frames chosen by the harness x every partitioning of their rows into
     1..MaxParts partitions (empty ones included) x single_file x write_index.  Exported: the
     files to_csv must produce (as parsed records) and the rows read_csv must give back.
     Invariants: the written files read back to the rendered rows (round trip at the level of
     strings), block-wise for every blocksize too; Render is injective per column type, so the
     typed values are recoverable.                                                        *)
EXTENDS CsvBlocks, Json

CONSTANTS Shapes,       \* set of <<number of columns, maximal number of rows, how many entries of Menu are used>>
          Menu,         \* sequence of cell strings for the text family
          MaxText,      \* texts longer than this are not exported
          Frames,       \* sequence of typed frames (chosen by the harness)
          OptCases,     \* sequence of [text, o]: files with junk / comment / blank lines at the top x reader options
                        \* (header, names, skiprows, comment), chosen by the harness (seeded, stratified by option)
          MaxParts

VARIABLES ccase, cdone, out

Names == << <<97>>, <<98>>, <<99>> >>        \* a b c

Tables(nc, nr, m) == UNION {[1..r -> [1..nc -> 1..m]] : r \in 0..nr}
TextSeeds == UNION {{[fam |-> "text", nc |-> sh[1], tab |-> tb, tn |-> tn] : tb \in Tables(sh[1], sh[2], sh[3]), tn \in BOOLEAN}
                    : sh \in Shapes}
FrameSeeds == {[fam |-> "fseed", f |-> f] : f \in DOMAIN Frames}
OptSeeds   == {[fam |-> "oseed", k |-> k] : k \in DOMAIN OptCases}
AllBs(t) == 1..(Len(t) + 1)

RECURSIVE SumL(_)
SumL(sq) == IF sq = <<>> THEN 0 ELSE Head(sq) + SumL(Tail(sq))
LayoutsOf(n) == UNION {{c \in [1..p -> 0..n] : SumL(c) = n} : p \in 1..MaxParts}

HdrOf(c)  == SubSeq(Names, 1, c.nc)
RowsOf(c) == [k \in DOMAIN c.tab |-> [j \in 1..c.nc |-> Menu[c.tab[k][j]]]]
TextOf(c) == LET full == WriteCsv(HdrOf(c), RowsOf(c), TRUE) IN
             IF c.tn THEN full ELSE SubSeq(full, 1, Len(full) - 1)

Init == /\ ccase \in TextSeeds \cup FrameSeeds \cup OptSeeds
        /\ cdone = FALSE
        /\ out = ""
Next == /\ ~cdone
        /\ cdone' = TRUE
        /\ IF ccase.fam = "text"
           THEN /\ ccase' = ccase
                /\ out' = IF Len(TextOf(ccase)) > MaxText THEN ""
                          ELSE ToJson([c |-> ccase, e |-> [text |-> TextOf(ccase), hdr |-> HdrOf(ccase), rows |-> RowsOf(ccase)]])
           ELSE IF ccase.fam = "oseed"
           THEN LET oc == OptCases[ccase.k] IN
                /\ ccase' = [fam |-> "opts", k |-> ccase.k]
                /\ out' = ToJson([c |-> ccase',
                                  e |-> [r |-> ReadOpts(oc.text, oc.o),
                                         \* for each blocksize: does the first block hold the whole top of the file
                                         top |-> TopBytes(oc.text, oc.o), toplines |-> TopLines(oc.text, oc.o),
                                         cov |-> LET top == TopBytes(oc.text, oc.o) IN
                                                 [bs \in AllBs(oc.text) |-> HoldsTopAt(oc.text, top, bs)]]])
           ELSE \E lay \in LayoutsOf(Len(Frames[ccase.f].rows)), single \in BOOLEAN, wi \in BOOLEAN :
                /\ ccase' = [fam |-> "frame", f |-> ccase.f, lay |-> lay, single |-> single, wi |-> wi]
                /\ out' = ToJson([c |-> ccase',
                                  e |-> [files |-> [b \in DOMAIN WriteFiles(Frames[ccase.f], lay, single, wi) |->
                                                      RecContents(WriteFiles(Frames[ccase.f], lay, single, wi)[b])],
                                         back |-> ExpectedBack(Frames[ccase.f], wi)]])

-----------------------------------------------------------------------------
(* Design check *)
TextCase  == cdone /\ ccase.fam = "text" /\ Len(TextOf(ccase)) <= MaxText
FrameCase == cdone /\ ccase.fam = "frame"
T == TextOf(ccase)

ParseInvertsWrite ==
  TextCase => ParseCsv(T) = [hdr |-> HdrOf(ccase), rows |-> RowsOf(ccase)]

BlocksizeInvariant ==
  TextCase => \A bs \in 1..(Len(T) + 1) : ReadByBlocks(T, bs) = ParseCsv(T)

\* reader options: whenever the first block holds the top of the file, the block-wise read is the whole read
OptCase == cdone /\ ccase.fam = "opts"
OptsBlocksizeInvariant ==
  OptCase =>
    LET oc == OptCases[ccase.k]
        whole == ReadOpts(oc.text, oc.o)
        top == TopBytes(oc.text, oc.o)
    IN ~whole.err =>
       \A bs \in AllBs(oc.text) \cap {1, 2, 3, 4, 6, 9, 13, 19} :
         LET blocks == BlocksByCut(oc.text, <<NL>>, Offsets(Len(oc.text), bs)) IN
         /\ FirstBlockHoldsTop(oc.text, oc.o, blocks) = HoldsTopAt(oc.text, top, bs)
         /\ FirstBlockHoldsTop(oc.text, oc.o, blocks) => ReadBlocksOpts(oc.text, oc.o, blocks) = whole
\* without options the option reader is the plain parser
OptsDefaultIsParse ==
  TextCase => LET w == ReadOpts(T, [hdr |-> -1, names |-> FALSE, nc |-> 0, skip |-> <<>>, comment |-> FALSE]) IN
              (~w.err /\ w.hdr = ParseCsv(T).hdr /\ w.rows = ParseCsv(T).rows)

Fr == Frames[ccase.f]
Files == WriteFiles(Fr, ccase.lay, ccase.single, ccase.wi)
RoundTripStrings ==
  FrameCase =>
    /\ CatRows([b \in DOMAIN Files |-> ParseCsv(Files[b])]) = RenderRows(Fr.rows, ccase.wi)
    /\ \A b \in DOMAIN Files : ParseCsv(Files[b]).hdr = HeaderOf(Fr, ccase.wi)
    /\ FilesOK(Fr, ccase.lay, ccase.single, ccase.wi, Files)

FilesBlocksizeInvariant ==
  FrameCase /\ ccase.single =>
    \A bs \in {1, 2, 5, 11, Len(Files[1]) + 1} : ReadByBlocks(Files[1], bs) = ParseCsv(Files[1])

\* typed values are recoverable from what is written: per column type Render is injective on the
\* value domain of the frames, and only NA renders as the empty field
CellsOf(tag) == UNION {UNION {{fr.rows[k].cells[j] : j \in {j2 \in DOMAIN fr.types : fr.types[j2] = tag}} : k \in DOMAIN fr.rows}
                       : fr \in {Frames[f] : f \in DOMAIN Frames}}
RenderInjective ==                     \* a constant-level fact: evaluated in one state only
  (ccase.fam = "fseed" /\ ccase.f = 1) =>
  \A tag \in {1, 2, 3} : \A c1, c2 \in CellsOf(tag) :
     /\ Render(c1) = Render(c2) => c1 = c2
     /\ (Render(c1) = <<>>) = (c1[1] = 0)
=============================================================================
