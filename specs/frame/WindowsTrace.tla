---------------------------- MODULE WindowsTrace ----------------------------
(* code -> spec for C46: each record is one window / cumulative / shift / fill /
   map_overlap call made on a real dask Series or DataFrame - the case fields
   of module Windows (fam, op, a, b, c, s, vk, u, tgt), the row partitioning
   and divisions the collection was built with (which the expected result must
   not depend on, so the specification does not look at them), and what was
   observed: obs = [raised, idx, v, vk, u, uk] - the index labels and the cells
   of all partitions (each computed through its own key) concatenated in
   partition order, cells projected by the harness to exact rationals
   <<num, den>> (<<0, 0>> = NaN, <<1, 0>> = a float that is no small rational),
   and the dtype classes of the result columns.  TLC recomputes the reference
   result from the case and decides every record.                             *)
EXTENDS Windows, TraceIO

Bad(r) == Verdict(r, r.obs)

Init == TInit
Next == TNext(Bad)
=============================================================================
