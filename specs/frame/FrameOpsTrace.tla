---------------------------- MODULE FrameOpsTrace ----------------------------
(* code -> spec for C36: TLC decides every observation made on the real dask
   code against the reference semantics of module FrameOps.  One record is one
   operation applied to a real collection:

     fam     "unary" | "aligned"
     inp     the input table (for the steps of a recorded pipeline: the OBSERVED
             result of the pipeline prefix, so every step is judged on its own)
     inp2    the second table (aligned operations)
     layout  row counts of the input partitions (only head(npartitions=k) /
             tail read it; <<>> otherwise)
     op      the operation (FrameOps vocabulary)
     order   "seq": rows must appear in the reference order;
             "bag": only the multiset of rows is demanded (alignment through a
                    hash shuffle when divisions are unknown)
     obs     [raised, ser, cols, kinds, rows, wholeok]: what was observed - every
             partition computed through its own key, rows concatenated in
             partition order; wholeok = compute() of the whole collection gave
             the same rows (TRUE when not sampled)

   Records of the spec -> code replay (TLC-enumerated cases) and of the seeded
   pipelines are decided by the same operator.                               *)
EXTENDS FrameOps, TraceIO

Want(r) == IF r.fam = "aligned" THEN Apply2(r.inp, r.inp2, r.op) ELSE Apply(r.inp, r.layout, r.op)

RowPairs(rows) == [k \in DOMAIN rows |-> <<rows[k].idx, rows[k].v>>]

Bad(r) ==
  LET w == Want(r)
      o == r.obs
  IN IF w.err THEN {}                                     \* the reference (pandas) raises: nothing is demanded
     ELSE IF o.raised # "" THEN {"Raised"}
     ELSE Clause("Kind", o.ser = w.ser)
          \cup Clause("Cols", o.cols = w.cols)
          \cup Clause("Dtypes", o.kinds = w.kinds)
          \cup Clause("Whole", o.wholeok)
          \cup (IF Len(o.rows) # Len(w.rows) THEN {"NRows"}
                ELSE IF r.order = "bag" THEN Clause("Values", SameBag(RowPairs(o.rows), RowPairs(w.rows)))
                ELSE Clause("Index", IdxSeq(o.rows) = IdxSeq(w.rows))
                     \cup Clause("Values", ValSeq(o.rows) = ValSeq(w.rows)))

Init == TInit
Next == TNext(Bad)
=============================================================================
