---------------------------- MODULE FrameOpsTrace ----------------------------
(* code -> spec for C36: TLC decides every observation made on the real dask
   code against the reference semantics of module FrameOps.  One record is one
   operation applied to a real collection:

     fam     "unary" | "aligned"
     inp     the input table (for the steps of a recorded pipeline: the OBSERVED
             result of the pipeline prefix, so every step is judged on its own)
     inp2    the second table (aligned operations)
     layout  row counts of the input partitions (only head(npartitions=k) /
             tail read it; <<>> otherwise)
     op      the operation (FrameOps vocabulary)
     order   "seq": rows must appear in the reference order;
             "bag": only the multiset of rows is demanded (alignment through a
                    hash shuffle when divisions are unknown)
     obs     [raised, ser, cols, kinds, rows, wholeok]: what was observed - every
             partition computed through its own key, rows concatenated in
             partition order; wholeok = compute() of the whole collection gave
             the same rows (TRUE when not sampled)

   Records of the spec -> code replay (TLC-enumerated cases) and of the seeded
   pipelines are decided by the same operator.                               *)
EXTENDS FrameOps, TraceIO

Want(r) == IF r.fam = "aligned" THEN Apply2(r.inp, r.inp2, r.op) ELSE Apply(r.inp, r.layout, r.op)

(* Dtype classes.  pandas chooses some dtypes from the DATA (an integer column turns float only when
   a NaN appears in it: where / mask / map / alignment), and dask evaluates partition by partition, so
   a selection of rows that happen to hold no NaN may legitimately arrive as integers where pandas,
   looking at the whole column, says float: observed "i" is accepted for a demanded "f" (the cells
   themselves are compared exactly).  Every other difference - float where integer is demanded,
   boolean against numeric - is a failed clause.  An empty result carries whatever dtype an empty
   kernel call produces (data-dependent in pandas itself): nothing is demanded of it.               *)
KindsOK(obs, want) == /\ Len(obs) = Len(want)
                      /\ \A j \in DOMAIN want : obs[j] = want[j] \/ (want[j] = "f" /\ obs[j] = "i")

RowPairs(rows) == [k \in DOMAIN rows |-> <<rows[k].idx, rows[k].v>>]

Bad(r) ==
  LET w == Want(r)
      o == r.obs
  IN IF w.err THEN {}                                     \* the reference (pandas) raises: nothing is demanded
     ELSE IF o.raised # "" THEN {"Raised"}
     ELSE Clause("Kind", o.ser = w.ser)
          \cup Clause("Cols", o.cols = w.cols)
          \cup Clause("Dtypes", Len(o.rows) = 0 \/ KindsOK(o.kinds, w.kinds))
          \cup Clause("Whole", o.wholeok)
          \cup (IF Len(o.rows) # Len(w.rows) THEN {"NRows"}
                ELSE IF r.order = "bag" THEN Clause("Values", SameBag(RowPairs(o.rows), RowPairs(w.rows)))
                ELSE Clause("Index", IdxSeq(o.rows) = IdxSeq(w.rows))
                     \cup Clause("Values", ValSeq(o.rows) = ValSeq(w.rows)))

Init == TInit
Next == TNext(Bad)
=============================================================================
