------------------------------ MODULE CsvBlocks ------------------------------
(* CSV texts, their parse, block-wise reading and the frame <-> files round trip
   (C47, CSV half; dask/dataframe/io/csv.py: read_pandas, text_blocks_to_pandas,
   pandas_read_text, to_csv; dask/bytes/core.py: read_bytes).

   A text is a sequence of byte values.  Three of them are structural -
   COMMA, QUOTE, NL - every other value is an opaque atom (a digit, a letter,
   a dot ...): the parser only compares atoms for equality, so the token
   classes of the design ({digit, letter, comma, quote, newline}) are all that
   matters.  Block reading reuses module TextBlocks (C50): Cut, Offsets,
   BlocksByCut with the delimiter <<NL>>.

   Not modelled (documented limits of block-wise CSV reading): line terminators
   inside quoted fields, CRLF, comments, skiprows, multi-line headers.          *)
EXTENDS TextBlocks

COMMA == 44
QUOTE == 34
NL    == 10
Structural == {COMMA, QUOTE, NL}
Digit(d) == 48 + d

-----------------------------------------------------------------------------
(* Parsing (RFC 4180 as pandas' C parser reads it, skip_blank_lines = True).
   A field is [s |-> content, q |-> was it quoted]; a record a sequence of fields.
   mode: 0 = at the start of a field, 1 = inside an unquoted field,
         2 = inside a quoted field, 3 = just after the closing quote            *)
Fld(content, quoted) == [s |-> content, q |-> quoted]
IsBlank(rec) == Len(rec) = 1 /\ rec[1].s = <<>> /\ ~rec[1].q
EndRecord(recs, rec) == IF IsBlank(rec) THEN recs ELSE Append(recs, rec)

RECURSIVE ParseAt(_, _, _, _, _, _, _)
ParseAt(t, i, mode, fld, fq, rec, recs) ==
  IF i > Len(t)
  THEN IF mode = 0 /\ rec = <<>> THEN recs                       \* nothing pending (the text ended after a newline)
       ELSE EndRecord(recs, Append(rec, Fld(fld, fq)))
  ELSE LET ch == t[i] IN
       IF mode = 2
       THEN IF ch # QUOTE THEN ParseAt(t, i + 1, 2, Append(fld, ch), TRUE, rec, recs)
            ELSE IF i < Len(t) /\ t[i + 1] = QUOTE
                 THEN ParseAt(t, i + 2, 2, Append(fld, QUOTE), TRUE, rec, recs)        \* doubled quote = one quote
                 ELSE ParseAt(t, i + 1, 3, fld, TRUE, rec, recs)                        \* closing quote
       ELSE IF ch = COMMA THEN ParseAt(t, i + 1, 0, <<>>, FALSE, Append(rec, Fld(fld, fq)), recs)
       ELSE IF ch = NL    THEN ParseAt(t, i + 1, 0, <<>>, FALSE, <<>>, EndRecord(recs, Append(rec, Fld(fld, fq))))
       ELSE IF ch = QUOTE /\ mode = 0 THEN ParseAt(t, i + 1, 2, <<>>, TRUE, rec, recs)  \* opening quote
       ELSE ParseAt(t, i + 1, IF mode = 3 THEN 3 ELSE 1, Append(fld, ch), fq, rec, recs)

Records(t) == ParseAt(t, 1, 0, <<>>, FALSE, <<>>, <<>>)
Contents(rec) == [j \in DOMAIN rec |-> rec[j].s]
\* [hdr |-> column names, rows |-> records after the header], cells as strings (dtype = str, keep_default_na = False)
ParseCsv(t) == LET rs == Records(t) IN
               IF rs = <<>> THEN [hdr |-> <<>>, rows |-> <<>>]
               ELSE [hdr |-> Contents(rs[1]), rows |-> [k \in 1..(Len(rs) - 1) |-> Contents(rs[k + 1])]]

-----------------------------------------------------------------------------
(* Writing (pandas' to_csv, QUOTE_MINIMAL): a field is quoted iff it contains a structural
   byte, embedded quotes are doubled; a record of ONE empty field is written as "" so that
   it is not a blank line.                                                               *)
NeedsQuote(str) == \E j \in DOMAIN str : str[j] \in Structural
RECURSIVE Doubled(_)
Doubled(str) == IF str = <<>> THEN <<>>
                ELSE (IF Head(str) = QUOTE THEN <<QUOTE, QUOTE>> ELSE <<Head(str)>>) \o Doubled(Tail(str))
WriteField(str) == IF NeedsQuote(str) THEN <<QUOTE>> \o Doubled(str) \o <<QUOTE>> ELSE str
RECURSIVE JoinFields(_)
JoinFields(fs) == IF fs = <<>> THEN <<>>
                  ELSE IF Len(fs) = 1 THEN WriteField(fs[1])
                  ELSE WriteField(fs[1]) \o <<COMMA>> \o JoinFields(Tail(fs))
WriteRecord(fs) == (IF Len(fs) = 1 /\ fs[1] = <<>> THEN <<QUOTE, QUOTE>> ELSE JoinFields(fs)) \o <<NL>>
RECURSIVE WriteRecords(_)
WriteRecords(rows) == IF rows = <<>> THEN <<>> ELSE WriteRecord(Head(rows)) \o WriteRecords(Tail(rows))
WriteCsv(hdr, rows, withheader) == (IF withheader THEN WriteRecord(hdr) ELSE <<>>) \o WriteRecords(rows)

-----------------------------------------------------------------------------
(* Block-wise reading: read_bytes cuts the file at line ends (TextBlocks: Cut with delimiter
   <<NL>>); the first block is parsed as it is, every later block is parsed with the header
   line of the file put in front; the frames are concatenated.                           *)
HeaderLine(t) == LET S == {p \in 1..Len(t) : t[p] = NL} IN
                 IF S = {} THEN t \o <<NL>> ELSE SubSeq(t, 1, CHOOSE p \in S : \A q \in S : p <= q)

RECURSIVE CatRows(_)
CatRows(frames) == IF frames = <<>> THEN <<>> ELSE Head(frames).rows \o CatRows(Tail(frames))

ReadBlocks(t, blocks) ==
  IF blocks = <<>> THEN ParseCsv(t)
  ELSE LET parsed == [b \in DOMAIN blocks |->
                        IF b = 1 THEN ParseCsv(blocks[b]) ELSE ParseCsv(HeaderLine(t) \o blocks[b])]
       IN [hdr |-> parsed[1].hdr, rows |-> CatRows(parsed)]

ReadByBlocks(t, bs) == ReadBlocks(t, BlocksByCut(t, <<NL>>, Offsets(Len(t), bs)))

-----------------------------------------------------------------------------
(* Reader options (the pandas.read_csv contract for header=, names=, skiprows=, comment=,
   skip_blank_lines = True), and what block-wise reading makes of them.

   An option record o = [hdr   |-> -1 (header = "infer") | 0 | 1 | 2 | -2 (header = None),
                         names |-> BOOLEAN (names = the first o.nc of GivenNames), nc |-> number of columns of the file,
                         skip  |-> sequence of PHYSICAL line numbers that are skipped (0-based; skiprows = n is
                                   <<0, ..., n-1>>, skiprows = [i] is <<i>>),
                         comment |-> BOOLEAN (comment = "#")]
   pandas:  skiprows counts physical lines (blank and comment lines included); then fully commented lines and
   blank lines are dropped; header = k is the k-th REMAINING line - the lines before it are discarded, the lines
   after it are the data; header = "infer" is 0 without names and None with names; header = None: every
   remaining line is data and the columns are names or 0, 1, ...; names together with an integer header
   replace the labels of the header line, which is still consumed.                                          *)
HASH == 35
RECURSIVE LinesFrom(_, _, _)
LinesFrom(t, i, cur) == IF i > Len(t) THEN (IF cur = <<>> THEN <<>> ELSE <<cur>>)
                        ELSE IF t[i] = NL THEN <<cur>> \o LinesFrom(t, i + 1, <<>>)
                        ELSE LinesFrom(t, i + 1, Append(cur, t[i]))
PhysLines(t) == LinesFrom(t, 1, <<>>)                         \* physical lines, without their terminators
FieldsOf(line) == Contents(Records(line \o <<NL>>)[1])       \* line # <<>>

GivenNames == << <<109>>, <<110>>, <<111>> >>                 \* m n o
DigitNames(nc) == [j \in 1..nc |-> <<Digit(j - 1)>>]          \* the default labels 0, 1, ... as read back through str()
EffHeader(o) == IF o.hdr = -1 THEN (IF o.names THEN -2 ELSE 0) ELSE o.hdr

IsSkipped(o, phys) == \E j \in DOMAIN o.skip : o.skip[j] = phys
IsDropped(o, line) == line = <<>> \/ (o.comment /\ line[1] = HASH)
\* the physical numbers (0-based) of the lines that remain, in order
Remaining(t, o) == LET ls == PhysLines(t) IN
                   SelectSeq([i \in DOMAIN ls |-> i - 1], LAMBDA ph : ~IsSkipped(o, ph) /\ ~IsDropped(o, ls[ph + 1]))

\* lax: the header row named by header = k does not exist because nothing remains after skiprows; pandas answers an
\* empty frame when names are given (and raises when they are not): an exception is accepted as well
ReadErr == [err |-> TRUE, lax |-> FALSE, hdr |-> <<>>, rows |-> <<>>]
ReadOpts(t, o) ==
  LET ls  == PhysLines(t)
      rem == Remaining(t, o)
      eff == EffHeader(o)
      dataFrom(k) == [r \in 1..(Len(rem) - k) |-> FieldsOf(ls[rem[k + r] + 1])]
  IN IF rem = <<>>                                                 \* nothing to parse: pandas raises, unless the labels are given
     THEN IF o.names THEN [err |-> FALSE, lax |-> eff >= 0, hdr |-> SubSeq(GivenNames, 1, o.nc), rows |-> <<>>] ELSE ReadErr
     ELSE IF eff = -2
     THEN LET nc == Len(FieldsOf(ls[rem[1] + 1])) IN
          [err |-> FALSE, lax |-> FALSE, hdr |-> IF o.names THEN SubSeq(GivenNames, 1, o.nc) ELSE DigitNames(nc), rows |-> dataFrom(0)]
     ELSE IF Len(rem) <= eff THEN ReadErr                          \* the header row does not exist: pandas raises
     ELSE LET hf == FieldsOf(ls[rem[eff + 1] + 1]) IN
          [err |-> FALSE, lax |-> FALSE, hdr |-> IF o.names THEN SubSeq(GivenNames, 1, o.nc) ELSE hf, rows |-> dataFrom(eff + 1)]

(* Block-wise: the first block is read with the options; a later block no longer has a top of file - skiprows
   and an integer header are not applied to it, the header LINE of the file is put in front of it when the labels
   come from the file - so every line of a later block that is not blank / commented is a data row.  This equals
   ReadOpts whenever the first block holds the whole top of the file (all skipped lines and the header line);
   dask documents "unexpected behavior" for skiprows otherwise.                                              *)
TopLines(t, o) ==          \* number of physical lines that make up the top of the file
  LET rem == Remaining(t, o)
      eff == EffHeader(o)
      \* the header line; without a header and without names the first remaining line (it fixes the number of columns)
      hl  == IF eff >= 0 /\ Len(rem) > eff THEN rem[eff + 1] + 1
             ELSE IF eff = -2 /\ ~o.names /\ rem # <<>> THEN rem[1] + 1 ELSE 0
      sk  == IF o.skip = <<>> THEN 0 ELSE 1 + CHOOSE x \in {o.skip[j] : j \in DOMAIN o.skip} : \A j \in DOMAIN o.skip : o.skip[j] <= x
  IN IF hl >= sk THEN hl ELSE sk
RECURSIVE LineEnd(_, _, _)
LineEnd(t, i, n) == IF n = 0 THEN i - 1 ELSE IF i > Len(t) THEN Len(t) ELSE LineEnd(t, i + 1, IF t[i] = NL THEN n - 1 ELSE n)
TopBytes(t, o) == LineEnd(t, 1, TopLines(t, o))            \* length of the prefix holding the top lines
FirstBlockHoldsTop(t, o, blocks) == Len(blocks) <= 1 \/ Len(blocks[1]) >= TopBytes(t, o)
\* the same for a blocksize, without building the blocks: the first block ends at Cut(second offset)
HoldsTopAt(t, top, bs) == LET offs == Offsets(Len(t), bs) IN Len(offs) <= 1 \/ Cut(t, <<NL>>, offs[2]) >= top

LaterRows(block, o) == LET ls == PhysLines(block)
                           keep == SelectSeq(ls, LAMBDA line : ~IsDropped(o, line))
                       IN [r \in DOMAIN keep |-> FieldsOf(keep[r])]
RECURSIVE CatSeqs(_)
CatSeqs(ss) == IF ss = <<>> THEN <<>> ELSE Head(ss) \o CatSeqs(Tail(ss))
ReadBlocksOpts(t, o, blocks) ==
  IF Len(blocks) <= 1 THEN ReadOpts(t, o)
  ELSE LET first == ReadOpts(blocks[1], o) IN
       IF first.err THEN ReadErr
       ELSE [err |-> FALSE, lax |-> first.lax, hdr |-> first.hdr,
             rows |-> first.rows \o CatSeqs([b \in 1..(Len(blocks) - 1) |-> LaterRows(blocks[b + 1], o)])]
ReadByBlocksOpts(t, o, bs) == ReadBlocksOpts(t, o, BlocksByCut(t, <<NL>>, Offsets(Len(t), bs)))

-----------------------------------------------------------------------------
(* Typed frames for the round trip.  A cell is <<tag, v>>:
     <<0, 0>> NA     <<1, n>> the integer n >= 0     <<2, k>> the float k / 8, k >= 0
     <<3, id>> the string StrMenu[id]
   A frame is [types |-> tag per column, names |-> column names (strings), rows |-> sequence of
   [idx |-> index label (an integer), cells |-> <<cell, ...>>]].                          *)
RECURSIVE Digits(_)
Digits(n) == IF n < 10 THEN <<Digit(n)>> ELSE Digits(n \div 10) \o <<Digit(n % 10)>>
\* decimal digits of e / 8 for e in 0..7 (exact: 8 divides 1000)
EighthDigits(e) == CASE e = 0 -> <<Digit(0)>>          [] e = 1 -> <<Digit(1), Digit(2), Digit(5)>>
                     [] e = 2 -> <<Digit(2), Digit(5)>> [] e = 3 -> <<Digit(3), Digit(7), Digit(5)>>
                     [] e = 4 -> <<Digit(5)>>           [] e = 5 -> <<Digit(6), Digit(2), Digit(5)>>
                     [] e = 6 -> <<Digit(7), Digit(5)>> [] e = 7 -> <<Digit(8), Digit(7), Digit(5)>>
DOT == 46
\* StrMenu: "a"  "a,b"  x"y  "b c"   (no string that reads as a number or as the empty string)
StrMenu == << <<97>>, <<97, COMMA, 98>>, <<120, QUOTE, 121>>, <<98, 32, 99>> >>

Render(cell) == CASE cell[1] = 0 -> <<>>
                  [] cell[1] = 1 -> Digits(cell[2])
                  [] cell[1] = 2 -> Digits(cell[2] \div 8) \o <<DOT>> \o EighthDigits(cell[2] % 8)
                  [] cell[1] = 3 -> StrMenu[cell[2]]

RenderRow(row, withindex) == (IF withindex THEN <<Digits(row.idx)>> ELSE <<>>)
                             \o [j \in DOMAIN row.cells |-> Render(row.cells[j])]
RenderRows(rows, withindex) == [k \in DOMAIN rows |-> RenderRow(rows[k], withindex)]
HeaderOf(fr, withindex) == (IF withindex THEN << <<>> >> ELSE <<>>) \o fr.names     \* the index column has an empty name

RECURSIVE SplitRows(_, _)
SplitRows(rows, lay) == IF lay = <<>> THEN <<>>
                        ELSE <<SubSeq(rows, 1, Head(lay))>> \o SplitRows(SubSeq(rows, Head(lay) + 1, Len(rows)), Tail(lay))

(* to_csv.  single = TRUE: one file, the header once, the partitions appended in order.
   single = FALSE: one file per partition, in partition order, each with its own header
   (header_first_partition_only = False, the default; files without a header cannot be read
   back by a glob read_csv and are outside the round trip).                               *)
WriteFiles(fr, lay, single, withindex) ==
  LET ps  == SplitRows(fr.rows, lay)
      hdr == HeaderOf(fr, withindex)
  IN IF single THEN << WriteCsv(hdr, RenderRows(fr.rows, withindex), TRUE) >>
     ELSE [b \in DOMAIN ps |-> WriteCsv(hdr, RenderRows(ps[b], withindex), TRUE)]

\* what read_csv gives back: the rows, with the index (if it was written) as a first, integer column
BackRow(row, withindex) == (IF withindex THEN << <<1, row.idx>> >> ELSE <<>>) \o row.cells
ExpectedBack(fr, withindex) == [k \in DOMAIN fr.rows |-> BackRow(fr.rows[k], withindex)]

\* the files as they must parse: file b holds exactly the header and the rendered rows of partition b
RecContents(t) == LET rs == Records(t) IN [k \in DOMAIN rs |-> Contents(rs[k])]
FilesOK(fr, lay, single, withindex, files) ==
  LET want == WriteFiles(fr, lay, single, withindex) IN
  /\ Len(files) = Len(want)
  /\ \A b \in DOMAIN want : RecContents(files[b]) = RecContents(want[b])
=============================================================================
