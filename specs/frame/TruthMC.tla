------------------------------- MODULE TruthMC -------------------------------
(* Case enumeration + design check for C41: programs whose result reports
   known divisions.  The repartition / from_pandas programs are the families
   "n", "d", "fp" of DivisionsMC; this module adds

     "loc"     src.loc[a:b] for every pair of bounds over the label range +-1
               (NA = bound absent)
     "locparts" src.loc[a:b].partitions[...]: the first / the last / all but the
               first partition of the slice (p = "first" | "last" | "tail")
     "loclist" src.loc[[l1, l2, ...]] for every list of 1..maxn labels that occur in
               the source, in EVERY order and with repetitions (ascending,
               descending, shuffled; labels of one / several / not all partitions)
     "partsrep" src.partitions[lo:].repartition(npartitions = n) with n at most the
               number of selected partitions (growing the count is family "n")
     "filter"  src[predicate on the rid column]: keeps even / odd / no / all rows
     "setidx"  frame.set_index(column) where the column holds the labels idx in
               row order and the frame is partitioned as `layout`:
                 [k |-> "auto", n |-> 0..maxn]   quantile divisions, n = 0: default
                 [k |-> "divs", d |-> d]         user divisions covering the data
                 [k |-> "sorted"]                sorted = TRUE (column already sorted)
     "binop"   src + src2   (index-aligned binary operation of two collections)
     "concat"  concat([src, src2]) along the rows (plain / interleave_partitions)
               or along the columns

   Sources are (idx, layout, sdivs) as in DivisionsMC: sorted, with truthful
   known divisions of the shape dask's constructors produce.  The same Bounds
   record bounds each family; for the two-source families the second source has
   at most Bounds[f].urows rows and Bounds[f].maxd partitions.  The invariant of C41 (TruthBad of module
   Divisions) is a predicate on OBSERVATIONS; the design check here makes sure
   that it accepts every source as built (so a truthful input is never blamed)
   and that it bites (a wrong partition count, a row moved to a partition where
   its label does not belong, swapped partitions are rejected).               *)
EXTENDS DivisionsMC

Bnd(f) == (-1..Bounds[f].labels) \cup {NA}

\* user divisions for set_index: well formed and covering the data
CoverDivs(f, s) == { d \in UNION { DivVectors[f][len] : len \in 2..(Bounds[f].maxd + 1) } :
                       /\ WellFormedDivs(d)
                       /\ d[1] <= Min(SeqSet(s)) /\ Max(SeqSet(s)) <= d[Len(d)] }

SetIdxArgs(f, s) == [k: {"auto"}, n: 0..Bounds[f].maxn]
                    \cup [k: {"divs"}, d: CoverDivs(f, s)]
                    \cup (IF NonDecreasing(s) THEN {[k |-> "sorted"]} ELSE {})

TChoose ==
  \E f \in Fams :
    IF f = "setidx"
    THEN \E s \in SortedIdx[f] \cup UnsortedIdx[f] : \E l \in LayoutTable[f][Len(s)] : \E a \in SetIdxArgs(f, s) :
           case = [fam |-> f, idx |-> s, layout |-> l, arg |-> a]
    ELSE \E s \in SortedIdx[f] : \E l \in LayoutTable[f][Len(s)] : \E sd \in KnownDivsOf(f, s, l) :
           CASE f = "loc" -> \E a \in Bnd(f) : \E b \in Bnd(f) :
                  case = [fam |-> f, idx |-> s, layout |-> l, sdivs |-> sd, arg |-> [a |-> a, b |-> b, p |-> "all"]]
             [] f = "locparts" -> \E a \in Bnd(f) : \E b \in Bnd(f) : \E p \in {"first", "last", "tail"} :
                  case = [fam |-> f, idx |-> s, layout |-> l, sdivs |-> sd, arg |-> [a |-> a, b |-> b, p |-> p]]
             [] f = "loclist" -> \E ls \in UNION { AllSeqs(n, SeqSet(s)) : n \in 1..Bounds[f].maxn } :
                  case = [fam |-> f, idx |-> s, layout |-> l, sdivs |-> sd, arg |-> [labels |-> ls]]
             [] f = "partsrep" -> \E lo \in 0..(Len(l) - 1) : \E n \in 1..(Len(l) - lo) :
                  case = [fam |-> f, idx |-> s, layout |-> l, sdivs |-> sd, arg |-> [lo |-> lo, n |-> n]]
             [] f = "filter" -> \E k \in {"even", "odd", "none", "all"} :
                  case = [fam |-> f, idx |-> s, layout |-> l, sdivs |-> sd, arg |-> [k |-> k]]
             [] OTHER -> \E s2 \in { x \in SortedIdx[f] : Len(x) <= Bounds[f].urows } :
                         \E l2 \in { y \in LayoutTable[f][Len(s2)] : Len(y) <= Bounds[f].maxd } :
                         \E sd2 \in KnownDivsOf(f, s2, l2) :
                  \E k \in (IF f = "binop" THEN {"series", "frame"} ELSE {"rows", "interleave", "columns"}) :
                    case = [fam |-> f, idx |-> s, layout |-> l, sdivs |-> sd,
                            idx2 |-> s2, layout2 |-> l2, sdivs2 |-> sd2, arg |-> [k |-> k]]

TInit == /\ TChoose
         /\ out = ToJson([c |-> case, e |-> [legal |-> TRUE]])

-----------------------------------------------------------------------------
(* Design check                                                               *)
AsObs(pf) == MkObs(pf.parts, pf.divs)
Src2(c)   == SrcOf(c.idx2, c.layout2, c.sdivs2)

\* every enumerated source is accepted by the invariant
SourcesTruthful ==
  /\ (case.fam # "setidx" => TruthBad(AsObs(Src(case))) = {})
  /\ (case.fam \in {"binop", "concat"} => TruthBad(AsObs(Src2(case))) = {})

\* the invariant bites: wrong count; first and last partition swapped (when that
\* puts a label out of range); a row appended to a partition it does not belong to
TruthBites ==
  case.fam # "setidx" =>
    LET o == AsObs(Src(case))
        n == Len(o.parts)
        all == ConcatParts(o.parts)
    IN /\ "NPartitions" \in TruthBad([o EXCEPT !.nparts = @ + 1])
       /\ "NPartitions" \in TruthBad([o EXCEPT !.parts = Append(@, <<>>)])
       /\ (n >= 2 /\ Len(o.parts[n]) > 0 /\ o.parts[n][Len(o.parts[n])].idx >= o.divs[2] =>
             LET moved == [o EXCEPT !.parts = [i \in 1..n |-> IF i = 1 THEN Append(o.parts[1], all[Len(all)]) ELSE o.parts[i]]]
             IN "InRange" \in TruthBad(moved))
       /\ "DivsSorted" \in TruthBad([o EXCEPT !.divs = <<@[Len(@)] + 1>> \o SubSeq(@, 2, Len(@))])

\* set_index requests are well formed
SetIdxOK == case.fam = "setidx" =>
              /\ SumSeq(case.layout) = Len(case.idx)
              /\ (case.arg.k = "sorted" => NonDecreasing(case.idx))
              /\ (case.arg.k = "divs" => WellFormedDivs(case.arg.d))
=============================================================================
