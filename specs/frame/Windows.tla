------------------------------ MODULE Windows ------------------------------
(* C46 - reference semantics of the window, cumulative and shift operations
   of pandas, stated on the WHOLE (unpartitioned) series.

   The property: for ANY partitioning of the input with known divisions - the
   partitions are consecutive row ranges, empty ones allowed - the dask
   operation computes to the rows  Ref(c, cells)  defined here, in row order
   with the index labels of the input.  Nothing below mentions partitions:
   the result must not depend on them ("seamless").  The partitioning of the
   RESULT is left free as well.

   A LANE is the cell sequence of one column in row order: small naturals or
   NA (= 99 = Frames!NA, the NaN of a float column).  Rows are identified by
   their position: the harness gives row i (1-based) the index label i - 1 and
   the row id i - 1.

   RESULT CELLS are exact rationals <<num, den>> in normal form (module
   Rational), RNaN = <<0, 0>> for NaN; integers are <<v, 1>>.  One
   representation for every family keeps all comparisons well-typed for TLC.

   A CASE is a record [fam, op, a, b, c, s, t, vk, u, tgt]:
     fam = "roll"   op in {sum, min, max, count, mean}
                    a = window (>= 1), b = min_periods (NA = None = window), c = center (0/1)
     fam = "troll"  op as for "roll", a = window in DAYS (>= 1), b = min_periods (NA = None = 1):
                    rolling("<a>D", min_periods) over a DatetimeIndex (closed on the right)
     fam = "cum"    op in {cumsum, cumprod, cummin, cummax},  a = skipna (0/1)
     fam = "shift"  op = "shift", a = periods (any integer)
     fam = "diff"   op = "diff",  a = periods (any integer)
     fam = "fill"   op in {ffill, bfill}, a = limit (NA = None, else >= 1)
     fam = "mapov"  op = "stencil", a = before, b = after (>= 0):
                    map_overlap(f, before, after) with the neighbour-identifying
                    function f of Stencil below
     s   = the lane the operation is applied to (column "v")
     t   = the index labels of the rows, strictly increasing integers: row i
           carries label t[i] (for "troll" the label is a day number and the
           index a DatetimeIndex; for the other families t = 0, 1, 2, ...)
     vk  = the dtype class column "v" is built with: "i" (integers; only for a
           lane without NA) or "f" (floats)
     u   = a second lane (column "u", integers without NA) - only looked at
           when tgt = "frame": the operation is applied to the two-column
           frame [v, u] and must act column by column
     tgt = "series" | "frame"   (mapov: the stencil reads the row ids of the
           frame and yields one Series; tgt only selects whether dask is told
           the result's meta or infers it)
   unused parameters are 0.                                                   *)
EXTENDS Frames, Rational, TLC, Json

RNaN     == <<0, 0>>
RV(v)    == IF v = NA THEN RNaN ELSE <<v, 1>>
Rng(ln)   == { ln[j] : j \in DOMAIN ln }
HasNA(ln) == \E j \in DOMAIN ln : ln[j] = NA
Valid(ln) == SelectSeq(ln, LAMBDA v : v # NA)
Least(x, y) == IF x < y THEN x ELSE y
Most(x, y)  == IF x < y THEN y ELSE x

RECURSIVE IPow(_, _)
IPow(base, k) == IF k = 0 THEN 1 ELSE base * IPow(base, k - 1)

-----------------------------------------------------------------------------
(* rolling(window, min_periods, center).agg() with a fixed (row count) window.
   The window of row i covers the rows lo..hi, clipped to the lane:
     not centered:  i - w + 1 .. i
     centered:      the same moved forward by (w - 1) \div 2 rows.
   nobs = number of valid cells in the window.  The result is NaN when
   nobs < min_periods (min_periods = None means the window size); sum of no
   valid cell is 0, min / max / mean of no valid cell are NaN.  count counts
   the valid cells of the window; for it every ROW of the window is an
   observation (pandas counts on the notna() indicator, which has no NaN).    *)
WinOff(w, ctr)    == IF ctr = 1 THEN (w - 1) \div 2 ELSE 0
WinLo(i, w, ctr)  == i - w + 1 + WinOff(w, ctr)
WinHi(i, w, ctr)  == i + WinOff(w, ctr)
Window(ln, i, w, ctr) == SubSeq(ln, Most(1, WinLo(i, w, ctr)), Least(Len(ln), WinHi(i, w, ctr)))

RollCell(agg, win, w, mp0) ==
  LET mp == IF mp0 = NA THEN w ELSE mp0
      v  == Valid(win)
  IN IF agg = "count"
     THEN IF Len(win) < mp THEN RNaN ELSE <<Len(v), 1>>
     ELSE IF Len(v) < mp THEN RNaN
     ELSE CASE agg = "sum"  -> <<SumSeq(v), 1>>
            [] agg = "min"  -> IF v = <<>> THEN RNaN ELSE <<Min(Rng(v)), 1>>
            [] agg = "max"  -> IF v = <<>> THEN RNaN ELSE <<Max(Rng(v)), 1>>
            [] agg = "mean" -> IF v = <<>> THEN RNaN ELSE RNorm(SumSeq(v), Len(v))

Rolling(ln, agg, w, mp, ctr) == [i \in DOMAIN ln |-> RollCell(agg, Window(ln, i, w, ctr), w, mp)]

(* rolling("<w>D", min_periods) over a DatetimeIndex: the window of row i holds the rows j <= i
   whose label lies in the half-open interval (t[i] - w, t[i]]; min_periods = None means 1.    *)
TimeWindow(lab, ln, i, w) == SelectSeq([j \in 1..i |-> IF lab[j] > lab[i] - w THEN ln[j] ELSE 0 - 1], LAMBDA v : v # 0 - 1)
RollingTime(lab, ln, agg, w, mp) == [i \in DOMAIN ln |-> RollCell(agg, TimeWindow(lab, ln, i, w), 1, mp)]

-----------------------------------------------------------------------------
(* cumsum / cumprod / cummin / cummax(skipna).  skipna: a NaN cell stays NaN
   and is skipped by the accumulation; not skipna: from the first NaN on,
   everything is NaN.                                                         *)
FoldOf(op, v) ==
  CASE op = "cumsum"  -> SumSeq(v)
    [] op = "cumprod" -> ProdSeq(v)
    [] op = "cummin"  -> Min(Rng(v))
    [] op = "cummax"  -> Max(Rng(v))

Cumulative(ln, op, skipna) ==
  [i \in DOMAIN ln |->
     LET pre == SubSeq(ln, 1, i)
     IN IF ln[i] = NA \/ (skipna = 0 /\ HasNA(pre)) THEN RNaN
        ELSE <<FoldOf(op, Valid(pre)), 1>>]

-----------------------------------------------------------------------------
(* shift(k): row i takes the cell of row i - k; diff(k) = cell - shifted cell *)
Shift(ln, k) == [i \in DOMAIN ln |-> IF i - k \in DOMAIN ln THEN RV(ln[i - k]) ELSE RNaN]

Diff(ln, k) ==
  [i \in DOMAIN ln |->
     IF i - k \in DOMAIN ln /\ ln[i] # NA /\ ln[i - k] # NA THEN <<ln[i] - ln[i - k], 1>> ELSE RNaN]

-----------------------------------------------------------------------------
(* ffill / bfill(limit): a NaN cell takes the nearest valid cell before
   (after) it, if there is one and - with a limit - it is at most `limit`
   rows away (a longer gap is filled partially).                              *)
LastValidBefore(ln, i) == LET c == { j \in 1..(i - 1) : ln[j] # NA } IN IF c = {} THEN 0 ELSE Max(c)
FirstValidAfter(ln, i) == LET c == { j \in (i + 1)..Len(ln) : ln[j] # NA } IN IF c = {} THEN 0 ELSE Min(c)

FFill(ln, lim) ==
  [i \in DOMAIN ln |->
     IF ln[i] # NA THEN RV(ln[i])
     ELSE LET j == LastValidBefore(ln, i)
          IN IF j # 0 /\ (lim = NA \/ i - j <= lim) THEN RV(ln[j]) ELSE RNaN]

BFill(ln, lim) ==
  [i \in DOMAIN ln |->
     IF ln[i] # NA THEN RV(ln[i])
     ELSE LET j == FirstValidAfter(ln, i)
          IN IF j # 0 /\ (lim = NA \/ j - i <= lim) THEN RV(ln[j]) ELSE RNaN]

-----------------------------------------------------------------------------
(* map_overlap(f, before, after) with the neighbour-identifying stencil
     f(df)[j] = SUM over o in -before..after of  digit(j + o) * B^(o + before)
   where digit(p) = rid of row p of df, plus one, or 0 when df has no row p,
   and B = base (> every digit).  The value of a row therefore spells out
   exactly which rows the function saw around it.  On the unpartitioned frame
   row i (rid i - 1) sees the rows i - before .. i + after that exist:        *)
Stencil(n, before, after, base) ==
  [i \in 1..n |->
     <<SumSeq([q \in 1..(before + after + 1) |->
                 LET p == i - before + q - 1
                 IN (IF p \in 1..n THEN p ELSE 0) * IPow(base, q - 1)]), 1>>]

\* the base the harness uses for a frame of n rows
StencilBase(n) == n + 1

-----------------------------------------------------------------------------
(* REACH of a case: the result of row i depends only on the rows
   i - Before(c) .. i + After(c)  (checked as the invariant Local of WindowsMC;
   it is what an implementation that shares `before` / `after` rows between
   neighbouring partitions relies on).  Unbounded = the whole prefix / suffix
   matters (cumulatives, fills without a limit).                              *)
Unbounded(c) == c.fam \in {"cum", "troll"} \/ (c.fam = "fill" /\ c.a = NA)      \* ("troll": bounded in TIME, not in rows)
Before(c) ==
  CASE c.fam = "roll"  -> IF c.c = 1 THEN c.a \div 2 ELSE c.a - 1
    [] c.fam \in {"shift", "diff"} -> Most(0, c.a)
    [] c.fam = "fill"  -> IF c.op = "ffill" /\ c.a # NA THEN c.a ELSE 0
    [] c.fam = "mapov" -> c.a
    [] OTHER -> 0
After(c) ==
  CASE c.fam = "roll"  -> IF c.c = 1 THEN c.a - (c.a \div 2) - 1 ELSE 0
    [] c.fam \in {"shift", "diff"} -> Most(0, 0 - c.a)
    [] c.fam = "fill"  -> IF c.op = "bfill" /\ c.a # NA THEN c.a ELSE 0
    [] c.fam = "mapov" -> c.b
    [] OTHER -> 0

-----------------------------------------------------------------------------
(* The reference result of case c on the lane `cells`.                        *)
Ref(c, cells) ==
  CASE c.fam = "roll"  -> Rolling(cells, c.op, c.a, c.b, c.c)
    [] c.fam = "troll" -> RollingTime(c.t, cells, c.op, c.a, c.b)
    [] c.fam = "cum"   -> Cumulative(cells, c.op, c.a)
    [] c.fam = "shift" -> Shift(cells, c.a)
    [] c.fam = "diff"  -> Diff(cells, c.a)
    [] c.fam = "fill"  -> IF c.op = "ffill" THEN FFill(cells, c.a) ELSE BFill(cells, c.a)
    [] c.fam = "mapov" -> Stencil(Len(cells), c.a, c.b, StencilBase(Len(cells)))

(* dtype class of the result for an input lane of class k ("i" = integer, no
   NA; "f" = float): rolling and diff always yield floats, a shift by k # 0
   introduces NaN, cumulatives and fills keep the class, the stencil yields
   integers.                                                                  *)
RefKind(c, k) ==
  CASE c.fam \in {"roll", "troll", "diff"} -> "f"
    [] c.fam = "shift"            -> IF c.a = 0 THEN k ELSE "f"
    [] c.fam \in {"cum", "fill"}  -> k
    [] c.fam = "mapov"            -> "i"

LaneKind(ln) == IF HasNA(ln) THEN "f" ELSE "i"

\* the result has the two columns [v, u] (the stencil of map_overlap yields one Series whatever it is applied to)
TwoCols(c) == c.tgt = "frame" /\ c.fam # "mapov"

\* the expected observation of a case
Expected(c) ==
  [idx |-> c.t,
   v   |-> Ref(c, c.s),
   vk  |-> RefKind(c, c.vk),
   u   |-> IF TwoCols(c) THEN Ref(c, c.u) ELSE <<>>,
   uk  |-> IF TwoCols(c) THEN RefKind(c, "i") ELSE "-"]

(* VERDICT on an observation o = [raised, idx, v, vk, u, uk] (what the harness
   projects from the computed partitions, concatenated in partition order):
   the names of the clauses it violates.  An integer result where pandas
   yields floats with the same values is tolerated (a partition-wise engine
   may see no NaN); a float result where pandas keeps integers is not.        *)
KindOK(want, got) == got = want \/ (want = "f" /\ got = "i")

Fails(name, holds) == IF holds THEN {} ELSE {name}

Verdict(c, o) ==
  LET e == Expected(c) IN
  IF o.raised # "" THEN {"Raise"}
  ELSE Fails("Rows", o.idx = e.idx)
       \cup Fails("Vals", o.v = e.v)
       \cup Fails("Kind", KindOK(e.vk, o.vk))
       \cup (IF TwoCols(c)
             THEN Fails("ValsU", o.u = e.u) \cup Fails("KindU", KindOK(e.uk, o.uk))
             ELSE {})
=============================================================================
