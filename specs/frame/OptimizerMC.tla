---------------------------- MODULE OptimizerMC ----------------------------
(* Model checking of the rewrite system of module Optimizer (Pattern A) and
   case export for C43 (spec -> code).

   UNIVERSE.  Programs of 0..MaxDepth steps drawn from a menu (projections in
   all orders and sizes over a, b, c and the assigned column d; predicates -
   comparisons, conjunctions, isin / notna, reductions inside the predicate;
   assigns that create d or shadow a, b, c, with and without reductions;
   frame-level elementwise steps; heads; dropna / drop_duplicates / nlargest / nsmallest, which look at
   columns they need not output; disjunctions of conjunctions with AND-terms shared by all / some
   clauses) followed by a final form (the frame,
   one column, a reduction of one column), over the source tables Sources
   (3 columns a, b, c; 4 rows).  Programs of depth d are thinned by
   Stride[d] (1 = all of them): a program is kept when a mixing hash of its
   menu digits is 0 modulo the stride - a deterministic choice.  Ill-formed
   programs (a step reads a column that does not exist) are dropped.

   BEHAVIOURS.  A seed (source, depth, first step) expands to each of its
   programs (action Expand: `want` = DenoteFrame of the program, `out` = the
   exported case) and every program is then rewritten by every applicable
   (rule, position) in every order (action Step).

   CHECKED.  Sound (invariant): every program reachable by rewriting denotes
   the table the original program denotes.  WellFormedKept: rewriting never
   produces a step that reads a missing column.  Converges (liveness under
   weak fairness, no state constraint): every behaviour ends in a program no
   rule applies to, i.e. the rewrite relation has no cycle.  NormalIsFixpoint:
   on such a program the normalisation strategy does nothing; and for every
   original program the strategy reaches a normal form within its fuel, with
   the same denotation (NormalizeSound).                                      *)
EXTENDS Optimizer

CONSTANTS Sources,     \* sequence of source tables (cols <<"a","b","c">>)
          MaxDepth,
          Stride,      \* [depth -> stride], depth in 0..MaxDepth
          Salt

VARIABLES phase, si, pg, want, out

vars == <<phase, si, pg, want, out>>
Cols0 == <<"a", "b", "c">>

(* ----------------------------------------------------------------------- menus *)
A == XCol("a")
B == XCol("b")
C == XCol("c")
D == XCol("d")

PredMenu == <<
  XBin("gt", A, XK(1)),
  XBin("le", B, C),
  XBin("and", XBin("gt", A, XK(0)), XBin("lt", C, XK(2))),
  XBin("lt", A, XRed("max", A)),                                  \* reduction inside the predicate
  XBin("gt", XBin("add", B, XK(1)), XRed("min", C)),
  XU("notna", B),
  XIsIn(C, <<1, 2>>),
  XBin("gt", D, XK(1)),
  XBin("ge", XBin("add", A, C), XRed("count", B)),
  \* disjunctions of conjunctions over a pool of atoms, with controlled sharing of AND-terms:
  \* shared by SOME clauses only (a row may satisfy just the clause without the shared term)
  XBin("or", XBin("or", XBin("and", XBin("gt", A, XK(1)), XBin("lt", C, XK(2))),
                        XBin("and", XBin("gt", A, XK(1)), XU("notna", B))),
             XBin("eq", C, XK(2))),
  \* shared by ALL clauses (two and three clauses)
  XBin("or", XBin("and", XBin("gt", A, XK(1)), XBin("lt", C, XK(1))),
             XBin("and", XBin("gt", A, XK(1)), XBin("le", B, C))),
  XBin("or", XBin("or", XBin("and", XBin("gt", A, XK(0)), XBin("lt", C, XK(2))),
                        XBin("and", XBin("ge", C, XK(1)), XBin("gt", A, XK(0)))),
             XBin("and", XBin("gt", A, XK(0)), XU("notna", B))),
  \* one clause consists of the shared terms only
  XBin("or", XBin("and", XBin("gt", A, XK(0)), XBin("lt", C, XK(2))), XBin("gt", A, XK(0)))
>>
AssignMenu == <<
  <<"d", XBin("add", A, B)>>,
  <<"a", XBin("mul", A, XK(2))>>,                                 \* shadows a column it reads
  <<"c", XBin("sub", C, XRed("min", C))>>,                        \* reduction in the assigned value
  <<"b", XFillNa(B, 0)>>,
  <<"d", A>>,
  <<"c", XBin("add", D, XK(1))>>,                                 \* reads a previously assigned column
  <<"d", XBin("sub", A, XRed("sum", B))>>
>>
ProjMenu == << <<"a">>, <<"b">>, <<"a", "b">>, <<"a", "c">>, <<"c", "b">>, <<"c", "a">>, <<"a", "b", "c">>,
               <<"a", "d">>, <<"d">>, <<"d", "b">> >>

StepMenu ==
     [j \in DOMAIN ProjMenu   |-> [k |-> "project", cols |-> ProjMenu[j]]]
  \o [j \in DOMAIN PredMenu   |-> [k |-> "filter", p |-> PredMenu[j]]]
  \o [j \in DOMAIN AssignMenu |-> [k |-> "assign", name |-> AssignMenu[j][1], x |-> AssignMenu[j][2]]]
  \o << [k |-> "fmap", f |-> "addc", v |-> 1], [k |-> "fmap", f |-> "fillna", v |-> 0],
        [k |-> "head", n |-> 2], [k |-> "head", n |-> 3],
        \* row selections that look at columns they need not output
        [k |-> "dropna", how |-> "any", sub |-> <<>>, th |-> NA],
        [k |-> "dropna", how |-> "all", sub |-> <<"b", "d">>, th |-> NA],
        [k |-> "dropna", how |-> "any", sub |-> <<>>, th |-> 3],
        [k |-> "dropdup", sub |-> <<>>, keep |-> "first"],
        [k |-> "dropdup", sub |-> <<>>, keep |-> "last"],
        [k |-> "dropdup", sub |-> <<"a">>, keep |-> "first"],
        [k |-> "dropdup", sub |-> <<"c", "a">>, keep |-> "last"],
        [k |-> "ntop", n |-> 2, c |-> "a", big |-> TRUE],
        [k |-> "ntop", n |-> 3, c |-> "c", big |-> FALSE] >>
FinMenu == << [k |-> "frame"], [k |-> "col", c |-> "a"], [k |-> "col", c |-> "b"], [k |-> "col", c |-> "d"],
              [k |-> "red", op |-> "sum", c |-> "c"], [k |-> "red", op |-> "max", c |-> "a"],
              [k |-> "red", op |-> "count", c |-> "b"], [k |-> "red", op |-> "min", c |-> "d"] >>
M  == Len(StepMenu)
NF == Len(FinMenu)

(* all digit sequences of length d over 1..M *)
RECURSIVE Digits(_)
Digits(d) == IF d = 0 THEN {<<>>} ELSE { <<j>> \o r : j \in 1..M, r \in Digits(d - 1) }

RECURSIVE Code(_)
Code(ds) == IF ds = <<>> THEN 0 ELSE (ds[1] + 37 * Code(SubSeq(ds, 2, Len(ds)))) % 1000003
Keep(d, ds, f) == (Code(ds) * 31 + f * 7919 + Salt) % Stride[d] = 0

ProgOf(ds, f) == [steps |-> [q \in DOMAIN ds |-> StepMenu[ds[q]]], fin |-> FinMenu[f]]

(* ------------------------------------------------------------------ behaviours *)
Seeds == { <<s, 0, 0>> : s \in DOMAIN Sources } \cup { <<s, d, j>> : s \in DOMAIN Sources, d \in 1..MaxDepth, j \in 1..M }

NoProg == [steps |-> <<>>, fin |-> [k |-> "none"]]
NoWant == [ser |-> FALSE, cols |-> <<>>, kinds |-> <<>>, rows |-> <<>>]

Init == /\ \E sd \in Seeds : si = sd[1] /\ phase = <<"seed", sd[2], sd[3]>>
        /\ pg = NoProg
        /\ want = NoWant
        /\ out = ""

\* (a seed may have no program at all - thinned away or ill-formed: it can always retire)
Retire == /\ phase[1] = "seed"
          /\ phase' = <<"empty", 0, 0>>
          /\ UNCHANGED <<si, pg, want, out>>

Expand ==
  /\ phase[1] = "seed"
  /\ \E rest \in Digits(IF phase[2] = 0 THEN 0 ELSE phase[2] - 1) :
     \E f \in 1..NF :
        LET ds == IF phase[2] = 0 THEN <<>> ELSE <<phase[3]>> \o rest
            p  == ProgOf(ds, f)
        IN /\ Keep(phase[2], ds, f)
           /\ WellFormed(Cols0, p)
           /\ pg' = p
           /\ want' = Shape(DenoteFrame(Sources[si], p))
           /\ out' = ToJson([c |-> [src |-> si, steps |-> p.steps, fin |-> p.fin], e |-> want'])
  /\ phase' = <<"prog", 0, 0>>
  /\ UNCHANGED si

Step ==
  /\ phase[1] = "prog"
  /\ \E j \in DOMAIN Rules : \E i \in Positions(pg) :
        /\ Applicable(Cols0, pg, Rules[j], i)
        /\ pg' = Rewrite(Cols0, pg, Rules[j], i)
  /\ phase' = <<"rewritten", 0, 0>>
  /\ out' = ""
  /\ UNCHANGED <<si, want>>

StepMore ==
  /\ phase[1] = "rewritten"
  /\ \E j \in DOMAIN Rules : \E i \in Positions(pg) :
        /\ Applicable(Cols0, pg, Rules[j], i)
        /\ pg' = Rewrite(Cols0, pg, Rules[j], i)
  /\ UNCHANGED <<phase, si, want, out>>

Next == Expand \/ Retire \/ Step \/ StepMore
Spec == Init /\ [][Next]_vars /\ WF_vars(Next)

(* ------------------------------------------------------------------ properties *)
IsProg == phase[1] \in {"prog", "rewritten"}

Sound          == IsProg => Shape(DenoteFrame(Sources[si], pg)) = want
WellFormedKept == IsProg => WellFormed(Cols0, pg)
\* a program no rule applies to is left alone by the strategy
NormalIsFixpoint == (IsProg /\ IsNormal(Cols0, pg)) => Normalize(Cols0, pg, 1) = pg
\* the strategy normalises every original program within its fuel, preserving the denotation
Fuel == 40
NormalizeSound ==
  phase[1] = "prog" =>
     LET nf == Normalize(Cols0, pg, Fuel)
     IN /\ IsNormal(Cols0, nf)
        /\ Shape(DenoteFrame(Sources[si], nf)) = want
        /\ Normalize(Cols0, nf, Fuel) = nf
\* every behaviour ends in a normal form (or in a retired seed): the rewrite relation has no cycle
Converges == <>[]((IsProg /\ IsNormal(Cols0, pg)) \/ phase[1] = "empty")
=============================================================================
