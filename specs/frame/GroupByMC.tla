------------------------------ MODULE GroupByMC ------------------------------
(* Case enumeration for C38 (spec -> code) and design check of the reference.

   The initial states are SEEDS, one per frame fill (chosen by the harness,
   seeded: rows with unique idx, 1-2 key columns over {0, 1, NA} - or one
   categorical key with an unused category -, 1-2 value columns over
   {0, 1, 2, NA}) plus one per row count for the partitionings; the successors
   of a seed are the evaluated cases of that fill: every aggregation (method
   form on the frame and on one column, agg with a single / list / dict
   specification) and every row-shaped operation, for dropna in {T, F}, sort in
   {not given, True, False}, observed in {T, F} for the categorical key -
   together with the result table module GroupBy demands.  The expected result
   does not depend on the partitioning, split_out, split_every or the shuffle
   method (that is the property): the harness varies them, over ALL row
   partitionings with <= MaxParts parts exported here.

   The invariants check the reference against the partition-wise
   decomposition (per-partition partial results per group, combined) on all
   those partitionings of the case's own frame.                              *)
EXTENDS GroupBy

CONSTANTS Fills,       \* set of [rows, keys, vcols, cats]
          MaxParts,    \* partitionings with 1..MaxParts parts (exported to the harness)
          DesignParts, \* the decomposition invariants quantify over the partitionings with <= DesignParts parts
          MinCounts,   \* min_count values for sum / prod
          Ddofs        \* ddof values for var / std

VARIABLES case, done, exp, out

Fn(c, f, p) == [c |-> c, f |-> f, p |-> p]
OverCols(cols, f, p) == [j \in DOMAIN cols |-> Fn(cols[j], f, p)]

MethodFP == ({"sum", "prod"} \X MinCounts) \cup ({"var", "std"} \X Ddofs)
            \cup ({"count", "min", "max", "mean", "first", "last", "idxmin", "idxmax"} \X {0})

\* dropna = <<value, given>>: the semantics (pandas' default is TRUE) and whether the keyword is passed at all
NoPre == [how |-> "none", on |-> <<>>]
Base(f, dn, sort, observed) ==
  [pre |-> NoPre, keys |-> f.keys, dropna |-> dn[1], dexp |-> dn[2], sort |-> sort, cats |-> f.cats, observed |-> observed, vcols |-> f.vcols, rows |-> f.rows]
Agg(f, dn, sort, observed, form, tgt, funcs) ==
  Base(f, dn, sort, observed) @@ [fam |-> "agg", form |-> form, tgt |-> tgt, funcs |-> funcs]
Xf(f, dn, observed, op, p, tgt, cols) ==
  Base(f, dn, 0, observed) @@ [fam |-> "xf", op |-> op, p |-> p, tgt |-> tgt, cols |-> cols]

\* agg specifications: list form = every value column x every function of the list
\* ("nunique" is not among the functions dask's agg documents: it is exercised in its method form only)
ListSpecs == { <<"sum", "count">>, <<"min", "mean", "max">>, <<"first", "last">>, <<"var", "size">>, <<"std", "prod">> }
ListFuncs(cols, fl) == [q \in 1..(Len(cols) * Len(fl)) |->
                          LET f == fl[((q - 1) % Len(fl)) + 1]
                          IN Fn(cols[((q - 1) \div Len(fl)) + 1], f, IF f \in {"var", "std"} THEN 1 ELSE 0)]
DictSpecs(cols) ==
  IF Len(cols) < 2
  THEN { << Fn(cols[1], "count", 0), Fn(cols[1], "size", 0) >>, << Fn(cols[1], "mean", 0) >> }
  ELSE { << Fn(cols[1], "sum", 0), Fn(cols[2], "min", 0), Fn(cols[2], "mean", 0) >>,
         << Fn(cols[2], "last", 0), Fn(cols[1], "std", 1), Fn(cols[1], "max", 0) >>,
         << Fn(cols[1], "first", 0), Fn(cols[2], "var", 1) >> }

AggCasesOf(f, dropna, sort, observed) ==
  LET A(form, tgt, funcs) == Agg(f, dropna, sort, observed, form, tgt, funcs)
      one == <<f.vcols[1]>>
  IN   { A("method", "frame", OverCols(f.vcols, o[1], o[2])) : o \in MethodFP }
  \cup { A("method", "series", OverCols(one, o[1], o[2])) : o \in MethodFP \cup {<<"nunique", 0>>} }
  \cup { A("method", "frame", <<Fn("", "size", 0)>>) }
  \cup { A("single", "frame", OverCols(f.vcols, o, 0)) : o \in {"sum", "max", "count", "mean", "first"} }
  \cup { A("single", "series", OverCols(one, o, 0)) : o \in {"min", "last", "size"} }
  \cup { A("list", "frame", ListFuncs(f.vcols, fl)) : fl \in ListSpecs }
  \cup { A("list", "series", ListFuncs(one, fl)) : fl \in { <<"sum", "count">>, <<"first", "last">> } }
  \cup { A("dict", "frame", d) : d \in DictSpecs(f.vcols) }

XfCasesOf(f, dropna, observed) ==
  LET one == <<f.vcols[1]>> IN
  UNION { { Xf(f, dropna, observed, o[1], o[2], "frame", f.vcols), Xf(f, dropna, observed, o[1], o[2], "series", one) }
          : o \in { <<"cumsum", 0>>, <<"cumprod", 0>>, <<"cumcount", 0>>, <<"shift", 1>>, <<"shift", 0 - 1>>, <<"shift", 2>>,
                    <<"ffill", 0>>, <<"bfill", 0>>, <<"tsum", 0>> } }

(* Pre-partitioned sources (non-categorical fills): the frame was hash-shuffled on K' before it is grouped by K = f.keys -
   K' = K, K' a proper superset (K plus a value column), K' disjoint (a value column), and for two keys K' a proper
   subset and K' overlapping but incomparable - or is itself the result of a first aggregation by K' = <<k, j>> that is
   re-grouped by K = <<k>>.  Only order-free operations (a shuffle does not keep row order).                        *)
WithPre(c, pre) == [c EXCEPT !.pre = pre]
ShufflePres(f) ==
  LET K == f.keys  v == f.vcols[1]
      sh(on) == [how |-> "shuffle", on |-> on]
  IN { sh(K), sh(K \o <<v>>), sh(<<v>>) } \cup (IF Len(K) = 2 THEN { sh(<<K[1]>>), sh(<<K[2]>>), sh(<<K[1], v>>) } ELSE {})
PreCasesOf(f, d) ==
  IF f.cats # <<>> \/ f.rows = <<>> THEN {} ELSE
  LET one == <<f.vcols[1]>>
      base ==    { Agg(f, d, 0, TRUE, "method", "frame", OverCols(f.vcols, o, IF o \in {"var", "std"} THEN 1 ELSE 0))
                   : o \in {"sum", "count", "mean", "var", "max"} }
            \cup { Agg(f, d, 0, TRUE, "method", "frame", <<Fn("", "size", 0)>>),
                   Agg(f, d, 0, TRUE, "method", "series", OverCols(one, "nunique", 0)),
                   Agg(f, d, 1, TRUE, "list", "frame", ListFuncs(f.vcols, <<"sum", "count">>)),
                   Agg(f, d, 0, TRUE, "dict", "frame", << Fn(f.vcols[1], "min", 0), Fn(f.vcols[1], "std", 1) >>),
                   Xf(f, d, TRUE, "tsum", 0, "frame", f.vcols) }
      two  == IF Len(f.keys) < 2 THEN {}
              ELSE { [Agg(f, d, 0, TRUE, "method", "frame", OverCols(f.vcols, o, 0)) EXCEPT !.keys = <<f.keys[1]>>, !.pre = [how |-> "agg", on |-> f.keys]]
                     : o \in {"sum", "min", "max"} }
  IN { WithPre(c, pre) : c \in base, pre \in ShufflePres(f) } \cup two

Dropnas == { <<TRUE, TRUE>>, <<TRUE, FALSE>>, <<FALSE, TRUE>> }
Observeds(f) == IF f.cats = <<>> THEN {TRUE} ELSE BOOLEAN
\* the cases of one fill under one (dropna, observed) choice
CasesOf(f, d, o) == UNION { AggCasesOf(f, d, s, o) : s \in {0, 1, 2} } \cup XfCasesOf(f, d, o)
                    \cup (IF o THEN PreCasesOf(f, d) ELSE {})

RowCounts   == { Len(f.rows) : f \in Fills }
LayoutCases == { [fam |-> "layouts", n |-> n] : n \in RowCounts }
LayTable    == [n \in RowCounts |-> Layouts(n, MaxParts)]

\* (one seed per fill and (dropna, observed) choice: TLC's workers share the seeds)
Seeds == UNION { { [fam |-> "seed", f |-> f, d |-> d, o |-> o] : d \in Dropnas, o \in Observeds(f) } : f \in Fills } \cup LayoutCases
Init == /\ case \in Seeds
        /\ done = FALSE
        /\ exp = GFailure
        /\ out = ""
Next == /\ ~done
        /\ done' = TRUE
        /\ IF case.fam = "layouts"
           THEN /\ case' = case
                /\ exp' = GFailure
                /\ out' = ToJson([c |-> case, e |-> SetToSeq(LayTable[case.n])])
           ELSE \E c \in CasesOf(case.f, case.d, case.o) :
                /\ case' = c
                /\ exp' = GExpected(c)
                /\ out' = ToJson([c |-> c, e |-> exp'])

-----------------------------------------------------------------------------
(* Design check.                                                              *)
Judged(fam) == done /\ case.fam = fam
DesignTable == [n \in RowCounts |-> { lay \in LayTable[n] : Len(lay) <= DesignParts }]
Lay == DesignTable[Len(case.rows)]
Cats == SeqSet(case.cats)

\* groups partition the grouped rows; sorted keys increase strictly; first-seen order lists the same keys
GroupsOK ==
  (done /\ case.fam \in {"agg", "xf"}) =>
     LET seen == SeenKeys(case.rows, case.keys, case.dropna)
         fs   == FirstSeenKeys(case.rows, case.keys, case.dropna)
         srt  == SortedKeys(seen)
     IN /\ GroupsPartition(case.rows, case.keys, case.dropna)
        /\ SeqSet(fs) = seen /\ Len(fs) = Cardinality(seen)
        /\ \A i \in 1..(Len(srt) - 1) : TupleLess(srt[i], srt[i + 1])
        /\ case.dropna => \A g \in seen : \A j \in DOMAIN g : g[j] # NA
TableShape ==
  (done /\ case.fam \in {"agg", "xf"} /\ ~exp.err) =>
     /\ Len(exp.v) = Len(exp.gk)
     /\ \A i \in DOMAIN exp.v : Len(exp.v[i]) = Len(exp.cl)
     /\ Judged("agg") => SeqSet(exp.gk) = GroupKeys(SourceRows(case), case.keys, case.dropna, Cats, case.observed)
     /\ Judged("xf") => Len(exp.gk) = Len(case.rows)

\* the partial result of a group in one partition, combined over the partitions in which it occurs, is the result
\* (chunk -> aggregate).  Partials of partitions without a member row / without a valid cell carry no value.
\* (the partitioning is that of the source frame; for the two-stage case the rows the first stage drops are left out)
\* (the partitioning is that of the source frame; in the two-stage case the rows the first stage drops are left out)
PartMembers(lay, g) ==
  LET ps == SplitBySizes(case.rows, lay)
  IN [b \in DOMAIN ps |-> Members(IF case.pre.how = "agg" THEN SourceRows([case EXCEPT !.rows = ps[b]]) ELSE ps[b], case.keys, g)]
RSumSeq(s) == LET RECURSIVE RS(_)
                  RS(t) == IF t = <<>> THEN <<0, 1>> ELSE RAdd(Head(t), RS(Tail(t)))
              IN RS(s)
Combined(fn, pm) ==
  LET f == fn.f   col == fn.c
      part(b) == AggVal(f, 0, pm[b], col)
      live == SelectSeq([b \in DOMAIN pm |-> b], LAMBDA b : pm[b] # <<>> /\ part(b) # RNaN /\ part(b) # RERR)
      vals == [i \in DOMAIN live |-> part(live[i])]
      sums == [b \in DOMAIN pm |-> AggVal("sum", 0, pm[b], col)]
      cnts == [b \in DOMAIN pm |-> AggVal("count", 0, pm[b], col)]
  IN CASE f \in {"sum", "count", "size"} -> RSumSeq([b \in DOMAIN pm |-> part(b)])
       [] f = "min"   -> IF vals = <<>> THEN RNaN ELSE RInt(Min({ vals[i][1] : i \in DOMAIN vals }))
       [] f = "max"   -> IF vals = <<>> THEN RNaN ELSE RInt(Max({ vals[i][1] : i \in DOMAIN vals }))
       [] f = "first" -> IF vals = <<>> THEN RNaN ELSE vals[1]
       [] f = "last"  -> IF vals = <<>> THEN RNaN ELSE vals[Len(vals)]
       [] f = "mean"  -> IF RSumSeq(cnts) = <<0, 1>> THEN RNaN ELSE RDiv(RSumSeq(sums), RSumSeq(cnts))
       [] f \in {"idxmin", "idxmax"} ->
            \* the candidate of the first partition that holds the extreme VALUE, not of the first partition
            IF live = <<>> THEN RERR
            ELSE LET ext(b) == AggVal(IF f = "idxmin" THEN "min" ELSE "max", 0, pm[b], col)[1]
                     best   == IF f = "idxmin" THEN Min({ ext(live[i]) : i \in DOMAIN live }) ELSE Max({ ext(live[i]) : i \in DOMAIN live })
                 IN part(live[Min({ i \in DOMAIN live : ext(live[i]) = best })])
AggDecomposes ==
  (Judged("agg") /\ ~exp.err) =>
     \A lay \in Lay : \A i \in DOMAIN exp.gk : \A j \in DOMAIN case.funcs :
        (case.funcs[j].f \in {"sum", "count", "size", "min", "max", "first", "last", "mean", "idxmin", "idxmax"} /\ case.funcs[j].p = 0)
           => Combined(case.funcs[j], PartMembers(lay, exp.gk[i])) = exp.v[i][j]

\* var from the per-partition sums (n, Sum x, Sum x^2) - the decomposition the groupby code uses
VarFromSums ==
  (Judged("agg") /\ ~exp.err) =>
     \A lay \in Lay : \A i \in DOMAIN exp.gk : \A j \in DOMAIN case.funcs :
        case.funcs[j].f \in {"var", "std"} =>
           LET pm == PartMembers(lay, exp.gk[i])
               ls == [b \in DOMAIN pm |-> Valid(Col(pm[b], case.funcs[j].c))]
               n  == SumSeq([b \in DOMAIN ls |-> Len(ls[b])])
               s  == SumSeq([b \in DOMAIN ls |-> SumSeq(ls[b])])
               s2 == SumSeq([b \in DOMAIN ls |-> SumSq(ls[b])])
               d  == n - case.funcs[j].p
           IN exp.v[i][j] = IF d <= 0 THEN RNaN ELSE RNorm(n * s2 - s * s, n * d)

\* pre-partitioned sources: only order-free operations; a shuffled (= reordered) frame gives the same table; the two-stage
\* aggregation (by the finer keys first, then by K) gives what the specification says (one grouping of the kept rows)
PreSane ==
  (done /\ case.fam \in {"agg", "xf"} /\ case.pre.how # "none" /\ ~exp.err) =>
     /\ IF case.fam = "agg" THEN \A j \in DOMAIN case.funcs : case.funcs[j].f \in OrderFreeFuncs ELSE case.op = "tsum"
     /\ (case.pre.how = "shuffle" /\ case.fam = "agg") => AggTable([case EXCEPT !.rows = Reverse(case.rows)]).v = exp.v
     /\ case.pre.how = "agg" =>
           LET src  == SourceRows(case)
               fine == SortedKeys(SeenKeys(src, case.pre.on, case.dropna))
           IN \A i \in DOMAIN exp.gk : \A j \in DOMAIN case.funcs :
                 LET mine == SelectSeq(fine, LAMBDA g : SubSeq(g, 1, Len(case.keys)) = exp.gk[i])
                 IN Combined(case.funcs[j], [q \in DOMAIN mine |-> Members(src, case.pre.on, mine[q])]) = exp.v[i][j]

\* row-shaped operations: rows without a group carry no value; the running sum ends in the group's sum; counts
\* number the members; a filled value comes from the same group, from the right side
RowKey(i) == KeyOf(case.rows[i], case.keys)
InGroup(i) == ~(case.dropna /\ HasNAKey(case.rows[i], case.keys))
XfRaisesIff == Judged("xf") => (exp.err <=> (case.op = "tsum" /\ case.tgt = "frame" /\ case.rows # <<>> /\ \A i \in DOMAIN case.rows : ~InGroup(i)))
XfSane ==
  (Judged("xf") /\ ~exp.err) =>
     LET cols == IF case.op = "cumcount" THEN <<"">> ELSE case.cols IN
     \A i \in DOMAIN case.rows : \A j \in DOMAIN cols :
        LET x == exp.v[i][j]
            same == { h \in DOMAIN case.rows : InGroup(h) /\ RowKey(h) = RowKey(i) }
            cell(h) == case.rows[h][cols[j]]
        IN /\ ~InGroup(i) => x = RNaN
           /\ (InGroup(i) /\ case.op = "cumcount") => x = RInt(Cardinality({ h \in same : h < i }))
           /\ (InGroup(i) /\ case.op = "cumsum" /\ i = Max(same) /\ cell(i) # NA)
                 => x = AggVal("sum", 0, Members(case.rows, case.keys, RowKey(i)), cols[j])
           /\ (InGroup(i) /\ case.op = "ffill" /\ x # RNaN) => \E h \in same : h <= i /\ cell(h) # NA /\ RInt(cell(h)) = x
                                                                    /\ \A q \in same : (h < q /\ q <= i) => cell(q) = NA
           /\ (InGroup(i) /\ case.op = "bfill" /\ x # RNaN) => \E h \in same : h >= i /\ cell(h) # NA /\ RInt(cell(h)) = x
                                                                    /\ \A q \in same : (i <= q /\ q < h) => cell(q) = NA
           /\ (InGroup(i) /\ case.op \in {"ffill", "bfill"} /\ cell(i) # NA) => x = RInt(cell(i))
           /\ (InGroup(i) /\ case.op = "shift" /\ x # RNaN) => \E h \in same : RInt(cell(h)) = x
                                                                    /\ Cardinality({ q \in same : IF case.p > 0 THEN (h <= q /\ q < i) ELSE (i < q /\ q <= h) }) = (IF case.p > 0 THEN case.p ELSE 0 - case.p)
           /\ (InGroup(i) /\ case.op = "tsum") => x = AggVal("sum", 0, Members(case.rows, case.keys, RowKey(i)), cols[j])
=============================================================================
