---------------------------- MODULE DiagnosticsMC ----------------------------
(* Histories of cached runs over one graph: Run(req) / Evict(S), bounded length.
   Graphs come from $CONFIG_FILE (records with nodes, n; kinds task/data/alias/namer). *)
EXTENDS Diagnostics, Json, IOUtils

CONSTANTS Wrapped, MaxRuns
Configs == ndJsonDeserialize(IOEnv.CONFIG_FILE)

VARIABLES cid, store, nruns, lastOK, hist, out
vars == <<cid, store, nruns, lastOK, hist, out>>
C == Configs[cid]

Reqs == {[x |-> <<[k |-> a]>>] : a \in Keys(C)} \cup {[x |-> <<[k |-> a], [k |-> b]>>] : a, b \in Keys(C)}

Init == cid \in 1..Len(Configs) /\ store = <<>> /\ nruns = 0 /\ lastOK = TRUE /\ hist = <<>> /\ out = ""

Run(req) ==
  LET c1  == [C EXCEPT !.req = req]
      c2  == Cached(c1, store, Wrapped)
      ex  == Executed(c2)
      new == [k \in ex |-> NDen(c2, k)]
  IN /\ nruns < MaxRuns
     /\ nruns' = nruns + 1
     /\ lastOK' = \A k \in Requested(c1) : NDen(c2, k) = NDen(c1, k)
     /\ store' = [k \in DOMAIN store \cup ex |-> IF k \in ex THEN new[k] ELSE store[k]]
     /\ hist' = Append(hist, [op |-> "run", req |-> req, ret |-> Pack(req, [k \in Requested(c1) |-> NDen(c1, k)]), executed |-> ex])
     /\ out' = IF nruns' = MaxRuns THEN ToJson([cid |-> cid, hist |-> hist']) ELSE ""
     /\ UNCHANGED cid

Evict(S) == /\ S # {} /\ nruns < MaxRuns /\ hist # <<>> /\ hist[Len(hist)].op = "run"
            /\ store' = [k \in DOMAIN store \ S |-> store[k]]
            /\ hist' = Append(hist, [op |-> "evict", keys |-> S])
            /\ out' = ""
            /\ UNCHANGED <<cid, nruns, lastOK>>

Next == (\E r \in Reqs : Run(r)) \/ (\E S \in SUBSET DOMAIN store : Evict(S))

\* C52, cache clause
ResultUnchangedByCache == lastOK
StoreSound == \A k \in DOMAIN store : store[k] = NDen(C, k)
=============================================================================
