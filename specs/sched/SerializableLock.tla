-------------------------- MODULE SerializableLock --------------------------
(* C53 - dask.utils.SerializableLock: a per-process lock that pickles to its
   token and unpickles, through the class-level WeakValueDictionary `_locks`
   (token -> threading.Lock), to "the same lock".

   State (mirrors the code):
     tok[o]    token of the live SerializableLock object o, NoTok when o is not alive
     lk[o]     identity of the threading.Lock o.lock points to (NoLock when not alive)
     pk[p]     the token stored in pickle p (pickle.dumps(o) is just the token), NoTok when unused
     reg       the registry SerializableLock._locks: a function token -> lock.  It holds its
               values weakly: an entry disappears with the last object that refers to the lock
     held      the set of locks that are currently locked (threading.Lock has no owner)
     nt, nl    how many generated tokens (uuid4) / Lock() objects have been created so far

   Tokens: 1..NTok are explicit (truthy) tokens passed by the user, NTok + i is the
   i-th generated token.  Falsy explicit tokens (0, "") are replaced by a generated
   token in the code - the documented don't-care, not modelled.

   Every operation of the class is a function on state records (Can.. = enabled,
   Do.. = effect).  SerializableLockMC turns them into the actions of a state
   machine over the variables; SerializableLockTrace steps them along histories
   recorded from the real class.                                                 *)
EXTENDS Naturals, FiniteSets, Sequences, TLC

CONSTANTS NObj,     \* object slots 1..NObj
          NTok,     \* explicit tokens 1..NTok
          NPick     \* pickle slots 1..NPick

NoTok  == 0
NoLock == 0
Objs   == 1..NObj
Picks  == 1..NPick

S0 == [tok |-> [o \in Objs |-> NoTok], lk |-> [o \in Objs |-> NoLock], pk |-> [p \in Picks |-> NoTok],
       reg |-> [t \in {} |-> NoLock], held |-> {}, nt |-> 0, nl |-> 0]

LiveOf(s) == { o \in Objs : s.tok[o] # NoTok }
FreeOf(s) == Objs \ LiveOf(s)
\* new objects take the lowest free slot (slots are interchangeable)
SlotOf(s) == CHOOSE o \in FreeOf(s) : \A x \in FreeOf(s) : o <= x

\* SerializableLock.__init__(token) for a truthy token t, building the object in slot o:
\* reuse the registered lock of t, else Lock() and register it
Construct(s, o, t) ==
  IF t \in DOMAIN s.reg
  THEN [s EXCEPT !.tok[o] = t, !.lk[o] = s.reg[t]]
  ELSE [s EXCEPT !.tok[o] = t, !.lk[o] = s.nl + 1, !.nl = s.nl + 1,
                 !.reg = [x \in (DOMAIN s.reg) \cup {t} |-> IF x = t THEN s.nl + 1 ELSE s.reg[x]]]

CanNew(s)          == FreeOf(s) # {}
DoNewExplicit(s, t) == Construct(s, SlotOf(s), t)                          \* SerializableLock(t)
DoNewFresh(s)      == Construct([s EXCEPT !.nt = s.nt + 1], SlotOf(s), NTok + s.nt + 1)   \* token = str(uuid4())

CanPickle(s, o)    == o \in LiveOf(s)
DoPickle(s, o, p)  == [s EXCEPT !.pk[p] = s.tok[o]]                        \* __getstate__ = the token

CanUnpickle(s, p)  == FreeOf(s) # {} /\ s.pk[p] # NoTok
DoUnpickle(s, p)   == Construct(s, SlotOf(s), s.pk[p])                     \* __setstate__(token) = __init__(token)

CanCopy(s, o)      == FreeOf(s) # {} /\ o \in LiveOf(s)
DoCopy(s, o)       == Construct(s, SlotOf(s), s.tok[o])                    \* copy / deepcopy reduce through the token

\* del o.  The lock object dies with its last referrer and so does the weak registry entry.
\* Dropping the last object of a lock that is still held is the caller's error (don't-care).
CanDrop(s, o)      == /\ o \in LiveOf(s)
                      /\ (s.lk[o] \in s.held) => \E x \in LiveOf(s) \ {o} : s.lk[x] = s.lk[o]
DoDrop(s, o)       == [s EXCEPT !.tok[o] = NoTok, !.lk[o] = NoLock,
                                !.reg = [t \in { x \in DOMAIN s.reg : \E y \in LiveOf(s) \ {o} : s.lk[y] = s.reg[x] } |-> s.reg[t]]]

\* o.acquire(blocking=False): succeeds iff the lock is free
CanTry(s, o)       == o \in LiveOf(s)
Succeeds(s, o)     == s.lk[o] \notin s.held
DoTry(s, o)        == IF Succeeds(s, o) THEN [s EXCEPT !.held = s.held \cup {s.lk[o]}] ELSE s

\* o.release() on a locked lock (any object of the lock may release it)
CanRelease(s, o)   == o \in LiveOf(s) /\ s.lk[o] \in s.held
DoRelease(s, o)    == [s EXCEPT !.held = s.held \ {s.lk[o]}]

(* -------------------------------------------------------------- the property *)
LockedIn(s, o) == s.lk[o] \in s.held

\* every live copy with the same token IS the same lock: holding one blocks the others
SameTokenSameLockIn(s) ==
  \A a \in LiveOf(s), b \in LiveOf(s) : s.tok[a] = s.tok[b] => s.lk[a] = s.lk[b] /\ LockedIn(s, a) = LockedIn(s, b)
\* locks created separately (different tokens) are different locks
SeparateNeverShareIn(s) ==
  \A a \in LiveOf(s), b \in LiveOf(s) : s.tok[a] # s.tok[b] => s.lk[a] # s.lk[b]
\* the registry is exactly the live tokens, and it names the lock the live objects use
RegistryIsWeakIn(s) ==
  /\ DOMAIN s.reg = { s.tok[o] : o \in LiveOf(s) }
  /\ \A o \in LiveOf(s) : s.reg[s.tok[o]] = s.lk[o]
\* only locks somebody can still reach are held
HeldReachableIn(s) == \A l \in s.held : \E o \in LiveOf(s) : s.lk[o] = l

=============================================================================
