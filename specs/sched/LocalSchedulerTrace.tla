------------------------- MODULE LocalSchedulerTrace -------------------------
(* code -> spec: traces recorded from REAL runs of dask's local schedulers
   (threaded pool with random delays, user Executor, multiprocessing pool
   adaptor, synchronous) are checked against LocalScheduler.  One record per
   run:  [id, cfg, events, ret, raised]  with events
     [e |-> "pre",    k, s]    pretask callback (s = projected state)
     [e |-> "exec",   k]       the task function of k ran (logged by the function)
     [e |-> "post",   k, v, s] posttask callback with the value stored
     [e |-> "fail",   k]       the call raised the exception of task k
     [e |-> "finish", failed, s]
   The only unlogged step is the delivery of a finished batch to the queue; it
   is taken silently, and only for the batch whose first record is consumed
   next, so validation is linear.  Every property predicate of the base module
   is evaluated on every state reached (total verdicts: a rejected trace prints
   <<"REJECT", id, step, clauses>> and validation moves on).                  *)
EXTENDS LocalScheduler, Json, IOUtils

Traces == ndJsonDeserialize(IOEnv.TRACE_FILE)

VARIABLES tid, l, st, pend, nbad
tvars == <<tid, l, st, pend, nbad>>

T == Traces[tid]
C == T.cfg
Ev == T.events

ToSetS(s) == {s[i] : i \in DOMAIN s}
PairFn(ps) == [k \in {ps[i][1] : i \in DOMAIN ps} |-> ToSetS((CHOOSE p \in ToSetS(ps) : p[1] = k)[2])]

\* does model state s equal the logged projection?
Matches(s, p) == /\ s.ready = p.ready
                 /\ s.running = ToSetS(p.running)
                 /\ s.waiting = PairFn(p.waiting)
                 /\ s.wdata = PairFn(p.wdata)
                 /\ DOMAIN s.cache = ToSetS(p.cache)
                 /\ s.released = ToSetS(p.released)
                 /\ s.finished = ToSetS(p.finished)
\* which part differs (names the property concerned)
Diff(s, p) == (IF s.ready = p.ready /\ s.running = ToSetS(p.running) /\ s.waiting = PairFn(p.waiting)
                  /\ s.finished = ToSetS(p.finished) THEN {} ELSE {"StateReadyRunningWaiting"})
              \cup (IF s.wdata = PairFn(p.wdata) /\ DOMAIN s.cache = ToSetS(p.cache) /\ s.released = ToSetS(p.released)
                    THEN {} ELSE {"StateCacheReleased"})

Res(s, pd, bad) == [st |-> s, pend |-> pd, bad |-> bad]

\* zero-pop fire round that precedes a post/fail/finish when the main loop iterates
AfterIdleFire(s) == IF s.pc = "fire" /\ LoopCond(s) /\ FirePops(C, s) = <<>> THEN FireF(C, s) ELSE s

\* deliver the batch whose head is k if nothing is being consumed
\* the batch whose result the main loop takes next surfaces with key k: its first record, or -
\* when exceptions are not packed - its first failing task
Surfaces(b, k) == IF ~C.pack /\ FirstFail(C, b) # 0 THEN b[FirstFail(C, b)].k = k ELSE b[1].k = k
WithBatch(s, k) ==
  IF s.cur # <<>> \/ s.queue # <<>> THEN s
  ELSE IF \E b \in s.inflight : Surfaces(b, k)
       THEN LET b  == CHOOSE x \in s.inflight : Surfaces(x, k)
                \* alias nodes run without calling a user function: no "exec" event exists for them
                al == {b[i].k : i \in {j \in RanIn(C, b) : Kind(C, b[j].k) = "alias"}}
            IN DeliverF(C, [s EXCEPT !.exec = [x \in DOMAIN @ |-> IF x \in al THEN @[x] + 1 ELSE @[x]]], b)
       ELSE s

Step(e) ==
  CASE e.e = "pre" ->
         LET fresh == pend = <<>>
             okf   == ~fresh \/ (st.pc = "fire" /\ LoopCond(st))
             p     == IF fresh /\ okf THEN FirePops(C, st) ELSE pend
             s1    == IF fresh /\ okf THEN FireF(C, st) ELSE st
         IN IF ~okf \/ p = <<>> \/ Head(p) # e.k THEN Res(st, pend, {"UnexpectedPretask"})
            ELSE IF Tail(p) = <<>> THEN Res(s1, <<>>, Diff(s1, e.s) \cup Violated(C, s1))
            ELSE Res(s1, Tail(p), {})
    [] e.e = "exec" ->
         IF \E b \in st.inflight : \E i \in DOMAIN b : b[i].k = e.k
         THEN LET s1 == [st EXCEPT !.exec[e.k] = @ + 1] IN Res(s1, pend, Violated(C, s1))
         ELSE Res(st, pend, {"ExecOfUnfiredTask"})
    [] e.e \in {"post", "fail"} ->
         LET s0 == AfterIdleFire(st)
             s1 == WithBatch(s0, e.k)
         IN IF pend # <<>> \/ ~CanConsume(s1) THEN Res(st, pend, {"UnexpectedCompletion"})
            ELSE LET r  == Head(IF s1.cur = <<>> THEN Head(s1.queue) ELSE s1.cur)
                     s2 == ConsumeOneF(C, s1)
                 IN IF r.k # e.k THEN Res(st, pend, {"WrongRecordOrder"})
                    ELSE IF s1.exec[e.k] # 1 THEN Res(st, pend, {"CompletedWithoutRunningOnce"})
                    ELSE IF e.e = "fail"
                         THEN Res(s2, pend, (IF r.failed THEN {} ELSE {"RaisedButTaskDoesNotFail"}) \cup Violated(C, s2))
                         ELSE IF r.failed THEN Res(st, pend, {"FailureSwallowed"})
                         ELSE Res(s2, pend, (IF e.v = r.v THEN {} ELSE {"WrongValue"}) \cup Diff(s2, e.s) \cup Violated(C, s2))
    [] e.e = "finish" ->
         IF e.failed
         THEN IF st.pc = "failed" THEN Res(st, pend, {}) ELSE Res(st, pend, {"FinishFlagWithoutFailure"})
         ELSE IF pend = <<>> /\ st.pc = "fire" /\ ~LoopCond(st)
              THEN LET s1 == FireF(C, st) IN Res(s1, pend, Diff(st, e.s) \cup Violated(C, s1))
              ELSE Res(st, pend, {"FinishBeforeEnd"})
    [] OTHER -> Res(st, pend, {"UnknownEvent"})

\* what must hold when the trace is exhausted
EndBad == (IF Terminal(st) THEN {} ELSE {"NotTerminated"})
          \cup (IF st.pc = "done" /\ T.ret # st.ret THEN {"ReturnedValue"} ELSE {})
          \cup (IF st.pc = "done" /\ T.raised # 0 THEN {"RaisedAfterSuccess"} ELSE {})
          \cup (IF st.pc = "failed" /\ T.raised # st.raised THEN {"RaisedKey"} ELSE {})
          \cup (IF T.nfinish = 1 THEN {} ELSE {"FinishCallbackCount"})

Fresh == StartF(C, InitState)
NextTrace == /\ tid' = tid + 1 /\ l' = 0 /\ pend' = <<>>
             /\ st' = IF tid + 1 <= Len(Traces) THEN StartF(Traces[tid + 1].cfg, InitState) ELSE InitState

Init == tid = 1 /\ l = 0 /\ pend = <<>> /\ nbad = 0
        /\ st = IF Len(Traces) >= 1 THEN StartF(Traces[1].cfg, InitState) ELSE InitState

Next ==
  \/ /\ tid <= Len(Traces) /\ l < Len(Ev)
     /\ LET r == Step(Ev[l + 1]) IN
          IF r.bad = {} THEN /\ st' = r.st /\ pend' = r.pend /\ l' = l + 1
                             /\ UNCHANGED <<tid, nbad>>
          ELSE /\ PrintT(<<"REJECT", T.id, l + 1, r.bad>>)
               /\ nbad' = nbad + 1 /\ NextTrace
  \/ /\ tid <= Len(Traces) /\ l = Len(Ev)
     /\ IF EndBad = {} THEN nbad' = nbad
        ELSE PrintT(<<"REJECT", T.id, l, EndBad>>) /\ nbad' = nbad + 1
     /\ NextTrace
  \/ /\ tid = Len(Traces) + 1
     /\ PrintT(<<"DONE", Len(Traces), nbad>>)
     /\ tid' = tid + 1 /\ UNCHANGED <<l, st, pend, nbad>>
=============================================================================
