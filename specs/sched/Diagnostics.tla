----------------------------- MODULE Diagnostics -----------------------------
(* Clients of the local scheduler's callback protocol.  C52.

   Profiler (dask/diagnostics/profile.py): inside a profiler context `results`
   holds exactly one entry per task whose posttask fired (completed tasks of a
   failed run included, the failed and the unstarted ones excluded), each with
   start <= end; entering the context again clears.

   Cache (dask/cache.py): at the start of a run every graph key present in the
   cache is replaced by its cached value; every computed value is put into the
   cache; entries may disappear at any time (eviction).  Whatever the history of
   runs sharing keys, a run returns what the graph denotes.

   A value written back into the graph is *interpreted* again as a graph node:
   a string that spells a key of the graph becomes a reference to that key
   (InterpretAsIs), unless it is wrapped as data (Wrapped).  TLC shows the
   result clause fails for InterpretAsIs when a task returns a key's name.    *)
EXTENDS LocalScheduler

\* extra node kind "namer": a task that ignores its inputs and returns the NAME of key args[1].n
NVal(c, k, env) == IF Kind(c, k) = "namer" THEN Label(c.nodes[k].args[1].n) ELSE NodeVal(c, k, env)
NDeps(c, k) == IF Kind(c, k) = "namer" THEN {} ELSE Deps(c, k)
RECURSIVE NDen(_, _)
NDen(c, k) == NVal(c, k, [d \in NDeps(c, k) |-> NDen(c, d)])

\* the graph a run sees when `store` (key -> value) is written into it
IsKeyName(c, v) == \E j \in Keys(c) : v = Label(j)
KeyNamed(c, v) == CHOOSE j \in Keys(c) : v = Label(j)
Cached(c, store, wrapped) ==
  [c EXCEPT !.nodes = [k \in Keys(c) |->
     IF k \notin DOMAIN store THEN c.nodes[k]
     ELSE IF ~wrapped /\ IsKeyName(c, store[k]) /\ KeyNamed(c, store[k]) < k
          THEN [kind |-> "alias", args |-> <<[r |-> KeyNamed(c, store[k])]>>]
          ELSE [kind |-> "data", args |-> <<[l |-> store[k]]>>]]]

\* keys a run executes: needed keys of the rewritten graph that are not data
Executed(c2) == {k \in Needed(c2) : Kind(c2, k) # "data"}
=============================================================================
