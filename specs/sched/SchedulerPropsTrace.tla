------------------------- MODULE SchedulerPropsTrace -------------------------
(* Policy-free validation of scheduler runs: the clauses of C01-C04 evaluated
   directly on what a run LOGGED (callback events with the projected scheduler
   state, task-function executions, returned value / raised task), with no
   assumption about which ready task the scheduler picks, how it batches, or
   in which order it updates its bookkeeping.

   It is the property-shaped abstraction of LocalScheduler: every behaviour of
   LocalScheduler passes it (TLC checks the same predicates as invariants of
   LocalSchedulerMC), but a scheduler with a different - equally correct -
   dispatch policy passes it too.  The harness uses it to decide whether a run
   that the implementation-shaped model cannot follow is a VIOLATION (a clause
   below fails) or merely a change of policy (nothing below fails).

   One record per run: [id, cfg, events, ret, raised, nfinish, execlog].      *)
EXTENDS LocalScheduler, TraceIO

ToSetS(s) == {s[i] : i \in DOMAIN s}
DataKeys(c) == {k \in Keys(c) : Kind(c, k) = "data"}

\* accumulated observation
Obs0(c) == [started |-> {}, fin |-> {}, exec |-> [k \in Keys(c) |-> 0], failed |-> 0, nfin |-> 0, okfin |-> FALSE]

\* is an execution of k observable?  (alias nodes call no user function; process pools log nothing)
Observable(r, k) == r.execlog /\ Kind(r.cfg, k) = "task"

StateClauses(c, o, s) ==
  LET rel == ToSetS(s.released)  fin == ToSetS(s.finished)  cache == ToSetS(s.cache) IN
     Clause("NoEarlyRelease", \A k \in rel : k \notin Requested(c) /\ Dependents(c, k) \subseteq fin)
     \cup Clause("HeldWhileNeeded", \A k \in fin \ rel : k \in cache)
     \cup Clause("RequestedHeld", \A k \in Requested(c) \cap (fin \cup DataKeys(c)) : k \in cache)

EventBad(r, o, e) ==
  LET c == r.cfg IN
  CASE e.e = "pre" ->
         Clause("OnlyNeeded", e.k \in NeededTasks(c))
         \cup Clause("AtMostOnce", e.k \notin o.started)
         \cup Clause("DepsFirst", Deps(c, e.k) \subseteq (o.fin \cup DataKeys(c)))
         \cup Clause("HeldWhileNeeded", Deps(c, e.k) \subseteq ToSetS(e.s.cache))
    [] e.e = "exec" ->
         Clause("OnlyNeeded", e.k \in NeededTasks(c))
         \cup Clause("AtMostOnce", o.exec[e.k] = 0)
         \cup Clause("DepsFirst", e.k \in o.started /\ Deps(c, e.k) \subseteq (o.fin \cup DataKeys(c)))
         \cup Clause("NoDepOfFailedRuns", StrictAnc(c, e.k) \cap Fails(c) = {})
    [] e.e = "post" ->
         Clause("AtMostOnce", e.k \in o.started /\ e.k \notin o.fin)
         \cup Clause("ExactlyNeeded", Observable(r, e.k) => o.exec[e.k] = 1)
         \cup Clause("WrongValue", e.v = Den(c, e.k))
         \cup Clause("FailureSwallowed", e.k \notin Fails(c))
         \cup StateClauses(c, o, e.s)
    [] e.e = "fail" ->
         Clause("RaisedIsReal", e.k \in Fails(c) /\ e.k \in o.started /\ (Observable(r, e.k) => o.exec[e.k] = 1))
    [] e.e = "finish" ->
         Clause("FinishOnce", o.nfin = 0)
         \cup Clause("FinishFlag", e.failed = (o.failed # 0))
         \cup (IF e.failed THEN {}
               ELSE Clause("NoLeak", ToSetS(e.s.cache) = Requested(c))
                    \cup Clause("ExactlyNeeded", o.fin = NeededTasks(c)
                                 /\ \A k \in Keys(c) : Observable(r, k) => o.exec[k] = (IF k \in NeededTasks(c) THEN 1 ELSE 0)))
    [] OTHER -> {"UnknownEvent"}

Upd(o, e) ==
  CASE e.e = "pre"    -> [o EXCEPT !.started = @ \cup {e.k}]
    [] e.e = "exec"   -> [o EXCEPT !.exec[e.k] = @ + 1]
    [] e.e = "post"   -> [o EXCEPT !.fin = @ \cup {e.k}]
    [] e.e = "fail"   -> [o EXCEPT !.failed = e.k]
    [] e.e = "finish" -> [o EXCEPT !.nfin = @ + 1, !.okfin = ~e.failed]
    [] OTHER -> o

RECURSIVE Walk(_, _, _)
Walk(r, i, o) ==
  IF i > Len(r.events)
  THEN \* end of the run
       Clause("FinishOnce", o.nfin = 1 /\ r.nfinish = 1)
       \cup Clause("FailMustRaise", (Fails(r.cfg) \cap NeededTasks(r.cfg) # {}) => o.failed # 0)
       \cup Clause("NoFailNoRaise", (Fails(r.cfg) \cap NeededTasks(r.cfg) = {}) => (o.failed = 0 /\ r.raised = 0))
       \cup Clause("RaisedKey", r.raised = o.failed)
       \cup Clause("ReturnedValue", o.failed = 0 => r.ret = Pack(r.cfg.req, [k \in Requested(r.cfg) |-> Den(r.cfg, k)]))
  ELSE LET ev == r.events[i]
           \* an event about something that is not a key of the graph cannot be explained at all
           b  == IF "k" \in DOMAIN ev /\ ev.e # "finish" /\ ev.k \notin Keys(r.cfg)
                 THEN (IF ev.e = "fail"
                       THEN \* the call raised something that is no task's exception; if no needed task
                            \* fails at all, the caller was owed a value (C01), otherwise C04
                            (IF Fails(r.cfg) \cap NeededTasks(r.cfg) = {} THEN {"ReturnedValue"} ELSE {"RaisedIsReal"})
                       ELSE {"UnknownEvent"})
                 ELSE EventBad(r, o, ev) IN
       IF b # {} THEN b ELSE Walk(r, i + 1, Upd(o, r.events[i]))

Bad(r) == Walk(r, 1, Obs0(r.cfg))

Init == TInit
Next == TNext(Bad)
=============================================================================
