----------------------------- MODULE ConfigFnMC -----------------------------
(* C17, Pattern B part: update / merge / collect_env / serialize round trip as
   total functions on configuration trees.  Every initial state is one case with
   the result module Config demands; the invariants check the transcriptions of
   Config against the documented precedence rules (design check).              *)
EXTENDS Config, Json

CONSTANTS Fam,     \* "update" | "merge" | "env" | "roundtrip" | "all"
          Vals     \* leaf values of the enumerated trees, e.g. {1, 2}

VARIABLES case, exp, out

(* ------------------------------------------------------------ tree universes *)
\* mappings over the given keys, each key absent or bound to one of `opts`
DictsOver(keys, opts) ==
  UNION { { Dict(f) : f \in [ks -> opts] } : ks \in SUBSET keys }

LeafOpts == { Leaf(v) : v \in Vals }
\* depth <= 2: a top-level key holds a scalar or a mapping of scalars
TreesOver(top, sub) == DictsOver(top, LeafOpts \cup DictsOver(sub, LeafOpts))

RECURSIVE Bump(_, _)
Bump(n, by) == IF IsLeaf(n) THEN Leaf(n.v + by) ELSE Dict([k \in DOMAIN n.f |-> Bump(n.f[k], by)])

\* old spells with underscores, new with hyphens (twins meet); the values of new (11, 12, ..)
\* never coincide with those of old (1, 2, ..), so which side won is always visible
OldTrees == TreesOver({"a", "a_b"}, {"b", "c_d"})
NewTrees == { Bump(t, 10) : t \in TreesOver({"a", "a-b"}, {"b", "c-d"}) }

\* candidate `defaults` for priority = "new-defaults": every value of old is the default,
\* no value of old is the default (all values changed), or there are no defaults
DefsFor(old) == { old, Bump(old, 20), NoDefs }

UpdateCases ==
  UNION { [fam: {"update"}, old: {o}, new: NewTrees, prio: {"new", "old"}, defs: {NoDefs}]
          \cup [fam: {"update"}, old: {o}, new: NewTrees, prio: {"new-defaults"}, defs: DefsFor(o)]
          : o \in OldTrees }

MergeTrees ==
  { Empty,
    Dict([a |-> Leaf(1)]), Dict([a |-> Dict([b |-> Leaf(1)])]), Dict([a |-> Dict([b |-> Leaf(2)] @@ ("c-d" :> Leaf(1)))]),
    Dict([a |-> Dict(("c_d" :> Leaf(2)))]), Dict(("a-b" :> Leaf(1))), Dict(("a_b" :> Leaf(2)) @@ ("a" :> Leaf(2))),
    Dict(("a_b" :> Dict([b |-> Leaf(2)]))), Dict([a |-> Empty]) }
MergeCases == UNION { [fam: {"merge"}, ds: [1..n -> MergeTrees]] : n \in 0..3 }

EnvPaths  == { <<"a">>, <<"a", "b">>, <<"a_b">>, <<"a-b">>, <<"a", "c_d">>, <<"x">> }
AllRaws   == DOMAIN Interp
FewRaws   == { "r1", "rtrue", "rword" }
VarsOf(ps, raws) == { [p |-> p, raw |-> r] : p \in ps, r \in raws }
EnvSets   == { {v} : v \in VarsOf(EnvPaths, AllRaws) }
             \cup { vs \in { {u, v, w} : u \in VarsOf(EnvPaths, FewRaws), v \in VarsOf(EnvPaths, FewRaws), w \in VarsOf(EnvPaths, FewRaws) } :
                       Cardinality(vs) > 1 /\ EnvConflictFree(vs) }
             \cup { {} }
Inherits  == { Empty, Dict(("a-b" :> Leaf("int:7"))), Dict([a |-> Dict([b |-> Leaf("int:7")] @@ [z |-> Leaf("str:abc")])]) }
EnvCases  == { c \in [fam: {"env"}, vars: EnvSets, inh: Inherits, useinh: BOOLEAN] :
                 /\ ~c.useinh => c.inh = Empty
                 /\ ~KindConflict(c.inh, TreeOfVars(c.vars)) }

RoundTripCases == [fam: {"roundtrip"}, t: OldTrees \cup NewTrees \cup MergeTrees]

Cases == CASE Fam = "update"    -> UpdateCases
           [] Fam = "merge"     -> MergeCases
           [] Fam = "env"       -> EnvCases
           [] Fam = "roundtrip" -> RoundTripCases
           [] Fam = "all"       -> UpdateCases \cup MergeCases \cup EnvCases \cup RoundTripCases

Expected(c) ==
  CASE c.fam = "update"    -> [res |-> Update(c.old, c.new, c.prio, c.defs), dc |-> c.prio # "new" /\ KindConflict(c.old, c.new)]
    [] c.fam = "merge"     -> [res |-> Merge(c.ds), dc |-> FALSE]
    [] c.fam = "env"       -> [res |-> NormTree(EnvResult(c.inh, c.vars)), dc |-> FALSE]
    [] c.fam = "roundtrip" -> [res |-> c.t, dc |-> FALSE]

Init == /\ case \in Cases
        /\ exp = Expected(case)
        /\ out = ToJson([c |-> case, e |-> exp])
Next == UNCHANGED <<case, exp, out>>

(* ------------------------------------------------- design check of Config *)
\* the transcription of update obeys the documented precedence
UpdateObeysContract == case.fam = "update" => UpdateContract(case.old, case.new, case.prio, exp.res)

\* new-defaults: a scalar of old is replaced exactly when it still equals its default
NewDefaultsRule ==
  (case.fam = "update" /\ case.prio = "new-defaults" /\ ~KindConflict(case.old, case.new)) =>
     \A l \in Leaves(case.new) :
        LET o == Lookup(case.old, l[1])
            d == IF HasDefs(case.defs) THEN Lookup(case.defs, l[1]) ELSE Missing
            r == Lookup(exp.res, l[1])
        IN IF ~o.ok THEN r = [ok |-> TRUE, n |-> Leaf(l[2])]
           ELSE IF d.ok /\ d.n = o.n THEN r = [ok |-> TRUE, n |-> Leaf(l[2])]
           ELSE r = o

\* merge: the last mapping wins over everything before it, and merging is left-to-right update
MergeRule ==
  case.fam = "merge" =>
     /\ NoTwins(exp.res)
     /\ Len(case.ds) > 0 => Wins(case.ds[Len(case.ds)], exp.res)
     /\ \A l \in Leaves(exp.res) : \E i \in 1..Len(case.ds) : Lookup(case.ds[i], l[1]) = [ok |-> TRUE, n |-> Leaf(l[2])]

\* env: every variable is visible through get under either spelling, with its interpreted value
EnvRule ==
  case.fam = "env" =>
     \A v \in case.vars : /\ Lookup(exp.res, v.p) = [ok |-> TRUE, n |-> Leaf(Interp[v.raw])]
                          /\ Lookup(exp.res, AltPath(v.p)) = [ok |-> TRUE, n |-> Leaf(Interp[v.raw])]
=============================================================================
