-------------------------- MODULE LocalSchedulerMC --------------------------
(* Model checking of LocalScheduler over a set of configurations read from
   $CONFIG_FILE (one JSON record per line, written by harness/sched.py from the
   enumerated graph universe with the real dask.order priorities).

   Export = FALSE : full asynchrony - a worker may finish any in-flight batch at
                    any time; history variables are frozen; all invariants,
                    deadlock freedom and termination are checked.
   Export = TRUE  : lazy completions (a batch completes only when the main loop
                    is blocked on an empty queue - every behaviour the main
                    thread can distinguish is still generated) and the history
                    is kept: `sched` (order in which batches complete) and `log`
                    (the callback events the real code must produce, each with
                    the projected scheduler state).  Terminal states carry the
                    whole behaviour as JSON in `out` for the replay.          *)
EXTENDS LocalScheduler, Json, IOUtils

CONSTANTS Export

Configs == ndJsonDeserialize(IOEnv.CONFIG_FILE)

VARIABLES cid, st, sched, log, out
vars == <<cid, st, sched, log, out>>
C == Configs[cid]

\* the state as the callbacks of the real scheduler see it
PairSet(f) == {<<k, f[k]>> : k \in DOMAIN f}
Proj(s) == [ready |-> s.ready, running |-> s.running, waiting |-> PairSet(s.waiting),
            wdata |-> PairSet(s.wdata), cache |-> DOMAIN s.cache, released |-> s.released,
            finished |-> s.finished]

PreEvents(s) ==
  LET p == FirePops(C, s) IN
  [i \in 1..Len(p) |->
     [e |-> "pre", k |-> p[i], v |-> "",
      s |-> Proj([s EXCEPT !.ready = SubSeq(s.ready, 1, Len(s.ready) - i),
                           !.running = s.running \cup {p[j] : j \in 1..i}])]]

Emit(s2, lg, sc) == IF Export /\ Terminal(s2)
                    THEN ToJson([cid |-> cid, sched |-> sc, log |-> lg, pc |-> s2.pc, ret |-> s2.ret,
                                 raised |-> s2.raised, bad |-> s2.bad, exec |-> s2.exec])
                    ELSE ""

Init == /\ cid \in 1..Len(Configs)
        /\ st = InitState
        /\ sched = <<>> /\ log = <<>> /\ out = ""

Start == /\ st.pc = "start"
         /\ st' = StartF(C, st)
         /\ UNCHANGED <<cid, sched, log, out>>

Fire == /\ st.pc = "fire"
        /\ st' = FireF(C, st)
        /\ log' = IF ~Export THEN log
                  ELSE IF LoopCond(st) THEN log \o PreEvents(st)
                  ELSE Append(log, [e |-> "finish", k |-> 0, v |-> "", s |-> Proj(st)])
        /\ out' = Emit(st', log', sched)
        /\ UNCHANGED <<cid, sched>>

Complete(b) == /\ b \in st.inflight
               /\ Export => (st.pc = "wait" /\ st.queue = <<>> /\ st.cur = <<>>)
               /\ st' = CompleteF(C, st, b)
               /\ sched' = IF Export THEN Append(sched, b[1].k) ELSE sched
               /\ UNCHANGED <<cid, log, out>>
AnyComplete == \E b \in st.inflight : Complete(b)

Consume == /\ CanConsume(st)
           /\ st' = ConsumeOneF(C, st)
           /\ LET r == Head(IF st.cur = <<>> THEN Head(st.queue) ELSE st.cur) IN
              log' = IF ~Export THEN log
                     ELSE IF r.failed THEN Append(log, [e |-> "finish", k |-> r.k, v |-> "", s |-> Proj(st)])
                     ELSE Append(log, [e |-> "post", k |-> r.k, v |-> r.v, s |-> Proj(st')])
           /\ out' = Emit(st', log', sched)
           /\ UNCHANGED <<cid, sched>>

Terminated == Terminal(st) /\ UNCHANGED vars

Next == Start \/ Fire \/ AnyComplete \/ Consume \/ Terminated
Spec == Init /\ [][Next]_vars /\ WF_vars(Start \/ Fire \/ AnyComplete \/ Consume)

-----------------------------------------------------------------------------
ResultCorrect    == ResultCorrectP(C, st)
CacheValues      == CacheValuesP(C, st)
NoBad            == NoBadP(C, st)
AtMostOnce       == AtMostOnceP(C, st)
ExactlyNeeded    == ExactlyNeededP(C, st)
OnlyNeeded       == OnlyNeededP(C, st)
DepsFirst        == DepsFirstP(C, st)
NoEarlyRelease   == NoEarlyReleaseP(C, st)
HeldWhileNeeded  == HeldWhileNeededP(C, st)
NoLeak           == NoLeakP(C, st)
RaisedIsReal     == RaisedIsRealP(C, st)
NoDepOfFailedRuns == NoDepOfFailedRunsP(C, st)
FinishOnce       == FinishOnceP(C, st)
NoFailNoRaise    == NoFailNoRaiseP(C, st)
FailMustRaise    == FailMustRaiseP(C, st)
Consistent       == ConsistentP(C, st)
\* the call never hangs: every behaviour reaches return or raise (needs CHECK_DEADLOCK TRUE too)
Terminates       == <>Terminal(st)
=============================================================================
