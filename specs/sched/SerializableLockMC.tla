------------------------- MODULE SerializableLockMC -------------------------
(* C53, Pattern A: all histories of SerializableLock operations on a small
   instance.  With KeepHist = FALSE TLC checks the invariants on the complete
   graph (bounded by MaxFresh generated tokens and MaxLocks Lock() objects);
   with KeepHist = TRUE every behaviour of length <= MaxLen is a state of its
   own and is exported (variable `out`) for the replay on the real class.      *)
EXTENDS SerializableLock, Json

CONSTANTS MaxLen, MaxFresh, MaxLocks, KeepHist

VARIABLES tok, lk, pk, reg, held, nt, nl, hist, out
vars == <<tok, lk, pk, reg, held, nt, nl, hist, out>>

S == [tok |-> tok, lk |-> lk, pk |-> pk, reg |-> reg, held |-> held, nt |-> nt, nl |-> nl]
Becomes(s) == /\ tok' = s.tok /\ lk' = s.lk /\ pk' = s.pk /\ reg' = s.reg
              /\ held' = s.held /\ nt' = s.nt /\ nl' = s.nl
Live  == LiveOf(S)
Slot  == SlotOf(S)
Locked(o) == LockedIn(S, o)

NewExplicit(t) == CanNew(S) /\ Becomes(DoNewExplicit(S, t))
NewFresh       == CanNew(S) /\ Becomes(DoNewFresh(S))
Pickle(o, p)   == CanPickle(S, o) /\ Becomes(DoPickle(S, o, p))
Unpickle(p)    == CanUnpickle(S, p) /\ Becomes(DoUnpickle(S, p))
Copy(o)        == CanCopy(S, o) /\ Becomes(DoCopy(S, o))
Drop(o)        == CanDrop(S, o) /\ Becomes(DoDrop(S, o))
TryAcquire(o)  == CanTry(S, o) /\ Becomes(DoTry(S, o))
Release(o)     == CanRelease(S, o) /\ Becomes(DoRelease(S, o))

SameTokenSameLock  == SameTokenSameLockIn(S)
SeparateNeverShare == SeparateNeverShareIn(S)
RegistryIsWeak     == RegistryIsWeakIn(S)
HeldReachable      == HeldReachableIn(S)

Init == /\ tok = S0.tok /\ lk = S0.lk /\ pk = S0.pk /\ reg = S0.reg
        /\ held = S0.held /\ nt = S0.nt /\ nl = S0.nl
        /\ hist = <<>> /\ out = "[]"

\* the projected state the real objects are compared with after every step
Proj == [tok |-> tok', lk |-> lk', reg |-> { [t |-> t, l |-> reg'[t]] : t \in DOMAIN reg' }, held |-> held']
Log(a, o, x, r) ==
  LET e == [a |-> a, o |-> o, x |-> x, r |-> r, st |-> Proj]
  IN /\ hist' = IF KeepHist THEN Append(hist, e) ELSE hist
     /\ out'  = IF KeepHist THEN ToJson(Append(hist, e)) ELSE out

Room == ~KeepHist \/ Len(hist) < MaxLen

ANewExplicit == \E t \in 1..NTok : Room /\ NewExplicit(t) /\ Log("new", Slot, t, TRUE)
ANewFresh    == Room /\ nt < MaxFresh /\ NewFresh /\ Log("fresh", Slot, 0, TRUE)
APickle      == \E o \in Objs, p \in Picks : Room /\ Pickle(o, p) /\ Log("pickle", o, p, TRUE)
AUnpickle    == \E p \in Picks : Room /\ Unpickle(p) /\ Log("unpickle", Slot, p, TRUE)
ACopy        == \E o \in Objs : Room /\ Copy(o) /\ Log("copy", o, Slot, TRUE)
ADrop        == \E o \in Objs : Room /\ Drop(o) /\ Log("drop", o, 0, TRUE)
ATryAcquire  == \E o \in Objs : Room /\ TryAcquire(o) /\ Log("acquire", o, 0, Succeeds(S, o))
ARelease     == \E o \in Objs : Room /\ Release(o) /\ Log("release", o, 0, TRUE)

Next == ANewExplicit \/ ANewFresh \/ APickle \/ AUnpickle \/ ACopy \/ ADrop \/ ATryAcquire \/ ARelease

Bounded == nl <= MaxLocks

\* one operation changes the locked-ness of the objects of at most one token:
\* locks created separately never exclude each other
SeparateNeverExclude ==
  [][\A a \in Live, b \in Live :
        (tok'[a] = tok[a] /\ tok'[b] = tok[b] /\ tok[a] # tok[b] /\ (lk'[a] \in held') # Locked(a))
           => (lk'[b] \in held') = Locked(b)]_vars
\* a failed try-acquire means somebody holds that very lock; a successful one locks all copies
AcquireExcludes ==
  [][\A o \in Live : (held' # held /\ lk[o] \in held' \ held) =>
        \A b \in Live : tok[b] = tok[o] => lk'[b] \in held']_vars
=============================================================================
