--------------------------- MODULE DiagnosticsTrace ---------------------------
(* code -> spec for C52.  Records:
   [kind |-> "profiler", cfg, posted (keys whose posttask fired), results (keys of prof.results in
    order), ordered (start <= end for every entry), cleared (results empty right after re-entering)]
   [kind |-> "cache", cfg, runs: seq of [req, ret, raised]]                                        *)
EXTENDS Diagnostics, TraceIO

ToSetS(s) == {s[i] : i \in DOMAIN s}
Count(s, x) == Cardinality({i \in DOMAIN s : s[i] = x})

Bad(r) ==
  IF r.kind = "profiler"
  THEN Clause("OneEntryPerCompletedTask", /\ ToSetS(r.results) = ToSetS(r.posted)
                                          /\ \A k \in ToSetS(r.results) : Count(r.results, k) = 1)
       \cup Clause("StartBeforeEnd", r.ordered)
       \cup Clause("ReenterClears", r.cleared)
  ELSE LET RECURSIVE W(_)
           W(i) == IF i > Len(r.runs) THEN {}
                   ELSE LET c1 == [r.cfg EXCEPT !.req = r.runs[i].req]
                            b  == Clause("CacheRaised", ~r.runs[i].raised)
                                  \cup Clause("ResultUnchangedByCache",
                                              r.runs[i].raised \/ r.runs[i].ret = Pack(c1.req, [k \in Requested(c1) |-> NDen(c1, k)]))
                        IN IF b # {} THEN b ELSE W(i + 1)
       IN W(1)

Init == TInit
Next == TNext(Bad)
=============================================================================
