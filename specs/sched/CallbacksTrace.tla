---------------------------- MODULE CallbacksTrace ----------------------------
(* code -> spec for C05: one record per recorded history of operations on real
   Callback objects: steps [op, cbs, fail, obs_active, logs].  The property-level
   state (registered, ctx) is recomputed and every step is checked:
   Callback.active observed after the step = Active; for a run: exactly the
   active callbacks fired, each following the protocol.                        *)
EXTENDS Naturals, Sequences, FiniteSets, TLC, TraceIO

ToSetS(s) == {s[i] : i \in DOMAIN s}

ProtocolOK(log, executed, failed) ==
  /\ Len(log) >= 2
  /\ log[1].e = "start"
  /\ log[Len(log)].e = "finish" /\ log[Len(log)].failed = failed
  /\ \A i \in 2..(Len(log) - 1) : log[i].e \in {"pre", "post"}
  /\ \A k \in executed :
       /\ Cardinality({i \in DOMAIN log : log[i].e = "pre" /\ log[i].k = k}) = 1
       /\ Cardinality({i \in DOMAIN log : log[i].e = "post" /\ log[i].k = k}) = 1
       /\ \A i, j \in DOMAIN log : (log[i].e = "pre" /\ log[i].k = k /\ log[j].e = "post" /\ log[j].k = k) => i < j
  /\ \A i \in DOMAIN log : log[i].e = "post" => log[i].k \in executed

RECURSIVE Walk(_, _, _, _)
Walk(steps, i, reg, ctx) ==
  IF i > Len(steps) THEN {}
  ELSE
  LET s    == steps[i]
      cs   == ToSetS(s.cbs)
      reg2 == CASE s.op = "register" -> reg \cup cs [] s.op = "unregister" -> reg \ cs [] OTHER -> reg
      ctx2 == CASE s.op = "enter" -> Append(ctx, cs)
                [] s.op = "exit" -> SubSeq(ctx, 1, Len(ctx) - 1)
                [] s.op = "exitat" -> [j \in 1..(Len(ctx) - 1) |-> IF j < s.pos THEN ctx[j] ELSE ctx[j + 1]]
                [] OTHER -> ctx
      act  == reg2 \cup UNION {ctx2[j] : j \in DOMAIN ctx2}
      bad  == Clause("ActiveAfter_" \o s.op, ToSetS(s.obs_active) = act)
              \cup (IF s.op # "run" THEN {}
                    ELSE Clause("FiredSet", {s.logs[j].cb : j \in DOMAIN s.logs} = act)
                         \cup Clause("Protocol", \A j \in DOMAIN s.logs : ProtocolOK(s.logs[j].log, ToSetS(s.executed), s.fail))
                         \cup Clause("FailureSurfaced", s.raised = s.fail))
  IN IF bad # {} THEN bad ELSE Walk(steps, i + 1, reg2, ctx2)

Bad(r) == Walk(r.steps, 1, {}, <<>>)
Init == TInit
Next == TNext(Bad)
=============================================================================
