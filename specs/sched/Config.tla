------------------------------- MODULE Config -------------------------------
(* C17 - dask.config: nested configuration trees, the set/exit context protocol
   (dask/config.py: canonical_name, set.__init__/_assign/_record, set.__exit__,
   get), and the total functions update / merge / collect_env.

   A configuration is a finite tree
        Leaf(v)   a scalar value v: a number, or (v in DOMAIN StrHas) a text scalar
        Dict(f)   a mapping  f : key string -> tree
   Text scalars matter because Python answers `key in "text"` (a substring test)
   where it raises for a number: the code gets further into _assign before it fails.
   TLC cannot compare numbers with strings nor search substrings, so a text scalar
   is a code number whose substring relation to the key universe is a table (StrHas);
   the harness maps 901 <-> "zzz", 902 <-> "abc", 903 <-> "a_b".
   Keys come in hyphen/underscore spellings ("a-b" / "a_b"); TLC cannot edit
   strings, so the twin relation is a table (Twins); the harness only uses keys
   of this universe.

   The module is bound to the code in both directions (harness/drivers/C17.py):
   ConfigMC enumerates histories / cases that are replayed on the real
   functions, ConfigTrace decides histories recorded from the real functions. *)
EXTENDS Naturals, Sequences, FiniteSets, TLC

Leaf(v) == [t |-> "L", v |-> v]
Dict(f) == [t |-> "D", f |-> f]
EmptyF  == [k \in {} |-> 0]
Empty   == Dict(EmptyF)
IsDict(n) == n.t = "D"
IsLeaf(n) == n.t = "L"
\* text scalar |-> the keys of the universe that are substrings of it
StrHas == (901 :> {}) @@ (902 :> {"a", "b", "c"}) @@ (903 :> {"a", "b", "a_b"})
IsStr(n) == IsLeaf(n) /\ n.v \in DOMAIN StrHas
\* set.__init__ used to append the undo entry BEFORE the assignment it undoes (dask before 52c0f2a).
\* FALSE = the code as it is; a model that overrides it with TRUE must violate FailedSetIsAtomic.
RecordFirst == FALSE

Put(f, k, v) == [x \in (DOMAIN f) \cup {k} |-> IF x = k THEN v ELSE f[x]]
Del(f, k)    == [x \in (DOMAIN f) \ {k} |-> f[x]]

(* ---------------------------------------------------------------- spelling *)
Twins == { <<"a-b", "a_b">>, <<"c-d", "c_d">> }        \* <<hyphen form, underscore form>>
Alt(k)  == IF \E p \in Twins : p[1] = k THEN (CHOOSE p \in Twins : p[1] = k)[2]
           ELSE IF \E p \in Twins : p[2] = k THEN (CHOOSE p \in Twins : p[2] = k)[1]
           ELSE k
Norm(k) == IF \E p \in Twins : p[2] = k THEN (CHOOSE p \in Twins : p[2] = k)[1] ELSE k
NormPath(p) == [i \in DOMAIN p |-> Norm(p[i])]
AltPath(p)  == [i \in DOMAIN p |-> Alt(p[i])]

\* canonical_name(k, config): the spelling that is already stored wins, else k itself
Canon(k, f) == IF k \in DOMAIN f THEN k
               ELSE IF Alt(k) \in DOMAIN f THEN Alt(k)
               ELSE k

IsPrefix(p, q) == Len(p) <= Len(q) /\ SubSeq(q, 1, Len(p)) = p

RECURSIVE NoTwins(_)
NoTwins(n) == IsLeaf(n) \/ /\ \A k \in DOMAIN n.f : Alt(k) = k \/ Alt(k) \notin DOMAIN n.f
                           /\ \A k \in DOMAIN n.f : NoTwins(n.f[k])

\* the tree with every key in its hyphen spelling (used where the documentation
\* leaves the stored spelling open)
RECURSIVE NormTree(_)
NormTree(n) == IF IsLeaf(n) THEN n
               ELSE Dict([c \in {Norm(k) : k \in DOMAIN n.f} |->
                           NormTree(n.f[CHOOSE k \in DOMAIN n.f : Norm(k) = c])])

(* --------------------------------------------------------------- config.get *)
Missing == [ok |-> FALSE, n |-> Empty]
RECURSIVE Lookup(_, _)
Lookup(n, p) ==
  IF p = <<>> THEN [ok |-> TRUE, n |-> n]
  ELSE IF ~IsDict(n) THEN Missing                        \* TypeError in the code
  ELSE LET k == Canon(p[1], n.f)
       IN IF k \in DOMAIN n.f THEN Lookup(n.f[k], Tail(p)) ELSE Missing    \* KeyError

\* all <<path, leaf value>> pairs of a tree
RECURSIVE Leaves(_)
Leaves(n) == IF IsLeaf(n) THEN { <<<< >>, n.v>> }
             ELSE UNION { { << <<k>> \o l[1], l[2] >> : l \in Leaves(n.f[k]) } : k \in DOMAIN n.f }

(* ------------------------------------------- set._assign with its _record *)
Ins(p)    == [op |-> "insert",  p |-> p, v |-> Empty]
Rep(p, v) == [op |-> "replace", p |-> p, v |-> v]
Failed(n) == [ok |-> FALSE, n |-> n, r |-> <<>>]

\* canonical_name(k, d) when d is a text scalar: `k in d` is a substring test
CanonStr(k, v) == IF k \in StrHas[v] THEN k ELSE IF Alt(k) \in StrHas[v] THEN Alt(k) ELSE k

\* transcription of set._assign(keys, value, d, path, record); d = node n.
\* Result: ok, the new node, and the undo entries appended to _record - also when the call
\* raises (ok = FALSE): what was appended before the exception stays in _record.
\*   d a number : canonical_name swallows the TypeError of `k in d`, then `key in d` raises.
\*   d a text   : `key in d` is a legal substring test.  If the key occurs in the text the next
\*                thing evaluated is d[key] (TypeError: string indices must be integers); if not,
\*                it is the item assignment d[key] = .. (TypeError) - and the old code had
\*                already appended ("insert", path) by then.
RECURSIVE Assign(_, _, _, _, _)
Assign(n, keys, val, path, rec) ==
  IF IsLeaf(n) THEN
    IF ~IsStr(n) THEN Failed(n)
    ELSE LET k == CanonStr(keys[1], n.v)
             p == Append(path, k)
         IN IF k \in StrHas[n.v] THEN Failed(n)
            ELSE [ok |-> FALSE, n |-> n, r |-> IF RecordFirst /\ rec THEN <<Ins(p)>> ELSE <<>>]
  ELSE
    LET k == Canon(keys[1], n.f)
        p == Append(path, k)
    IN IF Len(keys) = 1
       THEN [ok |-> TRUE, n |-> Dict(Put(n.f, k, val)),
             r  |-> IF ~rec THEN <<>>
                    ELSE IF k \in DOMAIN n.f THEN <<Rep(p, n.f[k])>> ELSE <<Ins(p)>>]
       ELSE IF k \notin DOMAIN n.f
            THEN LET sub == Assign(Empty, Tail(keys), val, p, FALSE)      \* fresh {}: cannot fail
                 IN [ok |-> TRUE, n |-> Dict(Put(n.f, k, sub.n)), r |-> IF rec THEN <<Ins(p)>> ELSE <<>>]
            ELSE LET sub == Assign(n.f[k], Tail(keys), val, p, rec)
                 IN IF sub.ok THEN [ok |-> TRUE, n |-> Dict(Put(n.f, k, sub.n)), r |-> sub.r]
                    ELSE [ok |-> FALSE, n |-> n, r |-> sub.r]

\* the assignments of one set(...) call, in order; asgs = sequence of [p |-> path, v |-> tree].
\* When one of them raises: n = what has been applied so far, r = everything in _record.
RECURSIVE AssignAll(_, _, _)
AssignAll(n, asgs, rec) ==
  IF asgs = <<>> THEN [ok |-> TRUE, n |-> n, r |-> rec]
  ELSE LET s == Assign(n, Head(asgs).p, Head(asgs).v, <<>>, TRUE)
       IN IF s.ok THEN AssignAll(s.n, Tail(asgs), rec \o s.r)
          ELSE [ok |-> FALSE, n |-> n, r |-> rec \o s.r]

\* what the code would leave behind if a raising call kept the earlier assignments
\* (used only to name the root cause of a violation, never as an expectation)
RECURSIVE PartialSet(_, _)
PartialSet(n, asgs) ==
  IF asgs = <<>> THEN n
  ELSE LET s == Assign(n, Head(asgs).p, Head(asgs).v, <<>>, TRUE)
       IN IF s.ok THEN PartialSet(s.n, Tail(asgs)) ELSE n

(* ------------------------------------------------ set.__exit__ (rollback) *)
\* Every step returns [ok, n]: walking onto a scalar raises (setdefault / [] / pop do not exist
\* or do not accept a key there) and the rest of the record is NOT replayed.
YES(n) == [ok |-> TRUE, n |-> n]
NOK(n) == [ok |-> FALSE, n |-> n]

RECURSIVE Restore(_, _, _)      \* op = replace: parents by setdefault, then d[last] = v
Restore(n, p, v) ==
  IF ~IsDict(n) THEN NOK(n)
  ELSE IF Len(p) = 1 THEN YES(Dict(Put(n.f, p[1], v)))
  ELSE LET child == IF p[1] \in DOMAIN n.f THEN n.f[p[1]] ELSE Empty
           sub   == Restore(child, Tail(p), v)
       IN IF sub.ok THEN YES(Dict(Put(n.f, p[1], sub.n))) ELSE NOK(n)

RECURSIVE Remove(_, _)          \* op = insert: walk down, stop on KeyError, pop(last, None)
Remove(n, p) ==
  IF ~IsDict(n) THEN NOK(n)
  ELSE IF Len(p) = 1 THEN YES(Dict(Del(n.f, p[1])))
  ELSE IF p[1] \in DOMAIN n.f
       THEN LET sub == Remove(n.f[p[1]], Tail(p))
            IN IF sub.ok THEN YES(Dict(Put(n.f, p[1], sub.n))) ELSE NOK(n)
  ELSE YES(n)

RECURSIVE Rollback(_, _)        \* the record is replayed backwards
Rollback(n, rec) ==
  IF rec = <<>> THEN YES(n)
  ELSE LET e == rec[Len(rec)]
           m == IF e.op = "replace" THEN Restore(n, e.p, e.v) ELSE Remove(n, e.p)
       IN IF m.ok THEN Rollback(m.n, SubSeq(rec, 1, Len(rec) - 1)) ELSE NOK(m.n)

\* One call set(...): all assignments, or - when one raises - set.__init__ replays what is in
\* _record (except BaseException: self.__exit__(); raise) and the call leaves behind whatever
\* that rollback produces.  THE PROPERTY FailedSetIsAtomic says this is the entry configuration.
SetCall(n, asgs) ==
  LET s == AssignAll(n, asgs, <<>>)
  IN IF s.ok THEN s ELSE [ok |-> FALSE, n |-> Rollback(s.n, s.r).n, r |-> <<>>]
\* does the rollback inside a raising call itself raise?
FailedRollbackOK(n, asgs) == LET s == AssignAll(n, asgs, <<>>) IN s.ok \/ Rollback(s.n, s.r).ok

(* ----------------------------------- what get must return inside a context *)
\* assignment i of a successful call is still visible iff no later assignment of the
\* same call writes the same key, a prefix of it or something below it (modulo spelling)
Shadowed(asgs, i) == \E j \in (i + 1)..Len(asgs) :
                        \/ IsPrefix(NormPath(asgs[j].p), NormPath(asgs[i].p))
                        \/ IsPrefix(NormPath(asgs[i].p), NormPath(asgs[j].p))
GetSeesSetOK(after, asgs) ==
  \A i \in 1..Len(asgs) : Shadowed(asgs, i) \/
      /\ Lookup(after, asgs[i].p) = [ok |-> TRUE, n |-> asgs[i].v]
      /\ Lookup(after, AltPath(asgs[i].p)) = [ok |-> TRUE, n |-> asgs[i].v]

(* ------------------------------------------------------------ update, merge *)
NoDefs == Leaf(0)               \* "defaults is None / falsy"
HasDefs(d) == IsDict(d) /\ DOMAIN d.f # {}

\* transcription of update(old, new, priority, defaults) for twin-free `new`
\* (then the iteration order of new.items() is immaterial)
RECURSIVE Update(_, _, _, _)
Update(old, new, prio, defs) ==
  LET ck(k) == Canon(k, old.f)
      tgt   == { ck(k) : k \in DOMAIN new.f }
      val(c) ==
        LET k == CHOOSE k \in DOMAIN new.f : ck(k) = c
            v == new.f[k]
        IN IF IsDict(v)
           THEN LET base == IF c \in DOMAIN old.f /\ IsDict(old.f[c]) THEN old.f[c] ELSE Empty
                    d2   == IF HasDefs(defs) /\ c \in DOMAIN defs.f THEN defs.f[c] ELSE NoDefs
                IN Update(base, v, prio, d2)
           ELSE IF \/ prio = "new"
                   \/ c \notin DOMAIN old.f
                   \/ prio = "new-defaults" /\ HasDefs(defs) /\ c \in DOMAIN defs.f /\ defs.f[c] = old.f[c]
                THEN v ELSE old.f[c]
  IN Dict([c \in (DOMAIN old.f) \cup tgt |-> IF c \in tgt THEN val(c) ELSE old.f[c]])

RECURSIVE Merge(_)              \* merge(d1, d2, ...): later dictionaries win
Merge(ds) == IF ds = <<>> THEN Empty ELSE Update(Merge(SubSeq(ds, 1, Len(ds) - 1)), ds[Len(ds)], "new", NoDefs)

\* ---- the documented precedence rules, stated independently of the transcription
\* a scalar of one side facing a mapping of the other side at the same place
RECURSIVE KindConflict(_, _)
KindConflict(old, new) ==
  \E k \in DOMAIN new.f :
     LET c == Canon(k, old.f) IN
       c \in DOMAIN old.f /\
         \/ IsDict(new.f[k]) # IsDict(old.f[c])
         \/ IsDict(new.f[k]) /\ IsDict(old.f[c]) /\ KindConflict(old.f[c], new.f[k])

\* every leaf of `w` (the side that has preference) is what get() finds in the result
Wins(w, res) == \A l \in Leaves(w) : Lookup(res, l[1]) = [ok |-> TRUE, n |-> Leaf(l[2])]
\* a leaf of the other side survives wherever the preferred side has nothing at that place
Keeps(o, w, res) == \A l \in Leaves(o) : Lookup(w, l[1]).ok \/ Lookup(res, l[1]) = [ok |-> TRUE, n |-> Leaf(l[2])]
                    \/ \E q \in 1..Len(l[1]) : LET x == Lookup(w, SubSeq(l[1], 1, q)) IN x.ok /\ IsLeaf(x.n)
\* nothing is invented: every leaf of the result is a leaf of one of the inputs
NoInvention(old, new, res) ==
  \A l \in Leaves(res) : \/ Lookup(old, l[1]) = [ok |-> TRUE, n |-> Leaf(l[2])]
                         \/ Lookup(new, l[1]) = [ok |-> TRUE, n |-> Leaf(l[2])]

UpdateContract(old, new, prio, res) ==
  /\ NoTwins(res)
  /\ NoInvention(old, new, res)
  /\ prio = "new" => Wins(new, res) /\ Keeps(old, new, res)
  /\ (prio = "old" /\ ~KindConflict(old, new)) => Wins(old, res) /\ Keeps(new, old, res)

(* -------------------------------------------------------------- collect_env *)
\* An environment is a set of variables [p |-> path, raw |-> text]; the variable is
\* spelled DASK_<P1>__<P2>.. (upper case) by the harness.  interpret_value is a table.
Interp == [ r1 |-> "int:1", r2 |-> "int:2", rtrue |-> "bool:True", rTrue |-> "bool:True", rfalse |-> "bool:False",
            rnone |-> "NoneType:None", rnull |-> "NoneType:None", rNone |-> "NoneType:None",
            rword |-> "str:abc", rquoted |-> "str:abc", rlist |-> "list:[1, 2]", rfloat |-> "float:1.5" ]

\* no variable's path is a prefix of another's (their relative order is unspecified)
EnvConflictFree(vars) == \A v \in vars, w \in vars : v # w => ~IsPrefix(NormPath(v.p), NormPath(w.p))

RECURSIVE TreeOfVars(_)
TreeOfVars(vars) ==
  IF vars = {} THEN Empty
  ELSE LET v == CHOOSE v \in vars : TRUE
       IN Assign(TreeOfVars(vars \ {v}), v.p, Leaf(Interp[v.raw]), <<>>, FALSE).n

\* environment variables are laid over the inherited (DASK_INTERNAL_INHERIT_CONFIG) tree
EnvResult(inherit, vars) == Update(inherit, TreeOfVars(vars), "new", NoDefs)
=============================================================================
