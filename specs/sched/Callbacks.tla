------------------------------ MODULE Callbacks ------------------------------
(* Scheduler callbacks: activation scoping (dask/callbacks.py: Callback.register /
   unregister, add_callbacks / Callback.__enter__/__exit__, local_callbacks) and
   the per-run firing protocol (dispatch in dask/local.py get_async).  C05.

   Property-level state: `registered` (callbacks activated by register()) and
   `ctx` (stack of live contexts, each the set of callbacks it was opened with).
   What the property promises is  Active == registered \cup UNION of ctx.
   Implementation-shaped state: `active` (the class attribute Callback.active)
   and, per context, what __exit__ will remove.  Impl selects the transcription:
     "discard" : __exit__ discards every callback of the context (the code as
                 found: leaving an inner context deactivates the outer one)
     "added"   : __exit__ removes only what the context itself activated
   TLC shows ActiveMatches / ExitKeepsOuter fail for "discard" and hold for
   "added".  Histories the statement says nothing about are not generated:
   unregister of a callback a live context also holds, register of a callback
   from inside a context that holds it.                                        *)
EXTENDS Naturals, Sequences, FiniteSets, TLC

CONSTANTS CBs,        \* callback objects
          MaxLen,     \* history length bound
          MaxDepth,   \* nesting bound
          Impl        \* "discard" | "added"

VARIABLES registered, ctx, active, hist, lastExitOuter
vars == <<registered, ctx, active, hist, lastExitOuter>>

InCtx == UNION {ctx[i].cbs : i \in DOMAIN ctx}
Active == registered \cup InCtx

Init == registered = {} /\ ctx = <<>> /\ active = {} /\ hist = <<>> /\ lastExitOuter = {}

Step(a) == hist' = Append(hist, a)

Register(c) == /\ c \notin registered /\ c \notin InCtx
               /\ registered' = registered \cup {c}
               /\ active' = active \cup {c}
               /\ Step([op |-> "register", cbs |-> {c}, fail |-> FALSE, active |-> Active \cup {c}, pos |-> 0])
               /\ UNCHANGED <<ctx, lastExitOuter>>

Unregister(c) == /\ c \in registered /\ c \notin InCtx
                 /\ registered' = registered \ {c}
                 /\ active' = active \ {c}
                 /\ Step([op |-> "unregister", cbs |-> {c}, fail |-> FALSE, active |-> Active \ {c}, pos |-> 0])
                 /\ UNCHANGED <<ctx, lastExitOuter>>

\* `with add_callbacks(*cs):` / `with cb:` - the same object may be entered again
Enter(cs) == /\ Len(ctx) < MaxDepth
             /\ ctx' = Append(ctx, [cbs |-> cs, added |-> cs \ active])
             /\ active' = active \cup cs
             /\ Step([op |-> "enter", cbs |-> cs, fail |-> FALSE, active |-> Active \cup cs, pos |-> 0])
             /\ UNCHANGED <<registered, lastExitOuter>>

Exit == /\ ctx # <<>>
        /\ LET top   == ctx[Len(ctx)]
               rest  == SubSeq(ctx, 1, Len(ctx) - 1)
               outer == registered \cup UNION {rest[i].cbs : i \in DOMAIN rest}
           IN /\ ctx' = rest
              /\ active' = IF Impl = "discard" THEN active \ top.cbs ELSE active \ top.added
              /\ lastExitOuter' = outer
              /\ Step([op |-> "exit", cbs |-> top.cbs, fail |-> FALSE, active |-> outer, pos |-> 0])
        /\ UNCHANGED registered

\* Leaving a context that is NOT the innermost one (two objects used from different places, or
\* from two threads).  Generated only where the meaning is unambiguous: the context shares no
\* callback with any other live context nor with `registered`.
ExitAt(i) == /\ i \in 1..(Len(ctx) - 1)
             /\ LET c     == ctx[i]
                    rest  == [j \in 1..(Len(ctx) - 1) |-> IF j < i THEN ctx[j] ELSE ctx[j + 1]]
                    other == registered \cup UNION {rest[j].cbs : j \in DOMAIN rest}
                IN /\ c.cbs \cap other = {}
                   /\ ctx' = rest
                   /\ active' = IF Impl = "discard" THEN active \ c.cbs ELSE active \ c.added
                   /\ lastExitOuter' = other
                   /\ Step([op |-> "exitat", cbs |-> c.cbs, fail |-> FALSE, active |-> other, pos |-> i])
             /\ UNCHANGED registered

\* a scheduler call: the callbacks that fire are the active ones; the global set is swapped away
\* for the duration of the call (a scheduler started from inside a task sees none) and restored
\* afterwards, also when the call fails
Run(f) == /\ Step([op |-> "run", cbs |-> Active, fail |-> f, active |-> Active, pos |-> 0])
          /\ UNCHANGED <<registered, ctx, active, lastExitOuter>>

Next == /\ Len(hist) < MaxLen
        /\ \/ \E c \in CBs : Register(c) \/ Unregister(c)
           \/ \E cs \in (SUBSET CBs) \ {{}} : Enter(cs)
           \/ Exit
           \/ \E i \in 1..Len(ctx) : ExitAt(i)
           \/ \E f \in BOOLEAN : Run(f)

Spec == Init /\ [][Next]_vars

\* C05, scoping clause
ActiveMatches  == active = Active
ExitKeepsOuter == (hist # <<>> /\ hist[Len(hist)].op \in {"exit", "exitat"}) => lastExitOuter \subseteq active

-----------------------------------------------------------------------------
(* The firing protocol of one run, as a predicate on what one callback object
   logged during one scheduler call over `tasks` executed tasks:
   start, then pre k / post k pairs, then finish(flag); nothing after finish. *)
ProtocolOK(log, executed, failed) ==
  /\ Len(log) >= 2
  /\ log[1].e = "start"
  /\ log[Len(log)].e = "finish" /\ log[Len(log)].failed = failed
  /\ \A i \in 2..(Len(log) - 1) : log[i].e \in {"pre", "post"}
  /\ \A k \in executed :
       /\ Cardinality({i \in DOMAIN log : log[i].e = "pre" /\ log[i].k = k}) = 1
       /\ Cardinality({i \in DOMAIN log : log[i].e = "post" /\ log[i].k = k}) = 1
       /\ \A i, j \in DOMAIN log : (log[i].e = "pre" /\ log[i].k = k /\ log[j].e = "post" /\ log[j].k = k) => i < j
  /\ \A i \in DOMAIN log : log[i].e = "post" => log[i].k \in executed
=============================================================================
