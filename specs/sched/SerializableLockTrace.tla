------------------------ MODULE SerializableLockTrace ------------------------
(* code -> spec for C53.  One record per run of the real class:

   kind = "hist"     ev = the operations performed (in this order, possibly on several
                     threads in lock step), each with the observed result r and the
                     projected state st of the real objects after it:
                        tok[o]  token class of object o (0 = not alive; explicit tokens 1..NTok,
                                generated tokens numbered NTok+1.. in order of creation)
                        lk[o]   number of the threading.Lock o.lock is (numbered in order of
                                first appearance, 0 = not alive)
                        reg     {[t, l]}: the entries of SerializableLock._locks for the tokens in play
                        held    the numbers of the locks whose locked() is true
   kind = "contend"  ev = enter/exit events of critical sections of free-running threads,
                     appended to one list while the lock is held: [a, th, c] with c the token
                     class of the lock copy used

   Every history is stepped through the operations of module SerializableLock;
   the first deviation is named.                                                *)
EXTENDS SerializableLock, TraceIO

ProjOf(s) == [tok |-> s.tok, lk |-> s.lk, reg |-> { [t |-> t, l |-> s.reg[t]] : t \in DOMAIN s.reg }, held |-> s.held]

ObsOf(e) == [tok |-> e.st.tok, lk |-> e.st.lk, reg |-> { e.st.reg[i] : i \in DOMAIN e.st.reg },
             held |-> { e.st.held[i] : i \in DOMAIN e.st.held }]

Enabled1(s, e) ==
  CASE e.a = "new"      -> CanNew(s)
    [] e.a = "fresh"    -> CanNew(s)
    [] e.a = "pickle"   -> CanPickle(s, e.o)
    [] e.a = "unpickle" -> CanUnpickle(s, e.x)
    [] e.a = "copy"     -> CanCopy(s, e.o)
    [] e.a = "drop"     -> CanDrop(s, e.o)
    [] e.a = "acquire"  -> CanTry(s, e.o)
    [] e.a = "release"  -> CanRelease(s, e.o)
    [] OTHER            -> FALSE

Step1(s, e) ==
  CASE e.a = "new"      -> DoNewExplicit(s, e.x)
    [] e.a = "fresh"    -> DoNewFresh(s)
    [] e.a = "pickle"   -> DoPickle(s, e.o, e.x)
    [] e.a = "unpickle" -> DoUnpickle(s, e.x)
    [] e.a = "copy"     -> DoCopy(s, e.o)
    [] e.a = "drop"     -> DoDrop(s, e.o)
    [] e.a = "acquire"  -> DoTry(s, e.o)
    [] e.a = "release"  -> DoRelease(s, e.o)

Diff(want, got, s, e) ==
  Clause("TokenKept", got.tok = want.tok)
  \cup Clause("SameTokenSameLock", got.lk = want.lk)
  \cup Clause("RegistryNamesLock", got.reg = want.reg)
  \cup Clause("HoldingOneBlocksTheOthers", got.held = want.held)
  \cup (IF e.a = "acquire" THEN Clause("AcquireResult", e.r = Succeeds(s, e.o)) ELSE {})

RECURSIVE Walk(_, _, _)
Walk(ev, i, s) ==
  IF i > Len(ev) THEN {}
  ELSE LET e == ev[i] IN
       IF ~Enabled1(s, e) THEN {"MalformedTrace"}
       ELSE LET s2 == Step1(s, e)
                d  == Diff(ProjOf(s2), ObsOf(e), s, e)
            IN IF d # {} THEN d
               ELSE IF ~(SameTokenSameLockIn(s2) /\ SeparateNeverShareIn(s2)) THEN {"SpecInvariant"}
               ELSE Walk(ev, i + 1, s2)

\* mutual exclusion of the critical sections guarded by copies of one lock
RECURSIVE Excl(_, _, _)
Excl(ev, i, owner) ==
  IF i > Len(ev) THEN {}
  ELSE LET e == ev[i] IN
       IF e.a = "enter"
       THEN IF owner[e.c] # 0 THEN {"MutualExclusion"} ELSE Excl(ev, i + 1, [owner EXCEPT ![e.c] = e.th])
       ELSE IF owner[e.c] # e.th THEN {"MutualExclusion"} ELSE Excl(ev, i + 1, [owner EXCEPT ![e.c] = 0])

Bad(r) == CASE r.kind = "hist"    -> Walk(r.ev, 1, S0)
            [] r.kind = "contend" -> Excl(r.ev, 1, [c \in 1..r.nc |-> 0])

Init == TInit
Next == TNext(Bad)
=============================================================================
