------------------------------ MODULE ConfigMC ------------------------------
(* C17, Pattern A: the set / exit protocol of dask.config as a state machine.

   cfg    the configuration tree (the private dict handed to set(config=d))
   stack  the live `set` objects, innermost last: entry snapshot, the _record
          that set.__init__ accumulated, and the assignments of the call
   last   the outcome of the last action: "ok", or the assignments of a set
          call that raised.  A raising call leaves cfg and stack as they were,
          so it is kept as an annotated terminal copy of its source state
          (nothing new is reachable from it) - that makes every raising call
          an exported state for the replay.
   cfg0   the initial configuration (constant along a behaviour)
   out    JSON export of the state for the spec -> code replay

   Set(choice) is ONE call set({...}) with 1..MaxAsg assignments (duplicates,
   twin spellings and prefix conflicts included).  It either applies all of
   them (transcription of _assign) and pushes a context, or it raises and
   leaves cfg untouched (the property).  Exit leaves the innermost context by
   replaying the record backwards (transcription of __exit__).

   The graph is finite for every MaxDepth: TLC checks ALL Set/Exit sequences of
   any length with nesting <= MaxDepth.  A state determines a canonical history
   that reaches it (cfg0, then the calls held in `stack`, then the raising call
   in `last`); the replay drives the real code along it and back out through
   every exit, so every transition of the graph is executed on the real code
   from the matching state (see harness/drivers/C17.py).                       *)
EXTENDS Config, Json

CONSTANTS Inits,      \* set of initial trees
          Paths,      \* set of dotted paths (sequences of keys) a call may assign / get may probe
          MaxAsg,     \* assignments per set call
          MaxDepth,   \* nesting depth
          ValShapes,  \* kinds of values a call assigns: subset of {"leaf", "dict", "strz", "stra"}
          Export      \* BOOLEAN: fill `out`

VARIABLES cfg, stack, last, cfg0, out
vars == <<cfg, stack, last, cfg0, out>>

StdInits ==
  { Empty,
    Dict([a |-> Leaf(1)]),
    Dict([a |-> Dict([b |-> Leaf(1)])]),
    Dict([a |-> Dict([b |-> Dict([c |-> Leaf(1)])])]),
    Dict(("a-b" :> Leaf(1))),
    Dict(("a_b" :> Dict([b |-> Leaf(1)]))),
    Dict([a |-> Dict(("a_b" :> Leaf(1)) @@ ("b" :> Leaf(2)))]),
    Dict([a |-> Empty] @@ [c |-> Leaf(2)]),
    \* the prefix is a TEXT scalar: "zzz" contains no key, "abc" contains a, b, c, "a_b" contains a, b, a_b
    Dict([a |-> Leaf(901)]),
    Dict([a |-> Leaf(902)] @@ [c |-> Leaf(1)]),
    Dict([a |-> Dict([b |-> Leaf(901)] @@ ("a_b" :> Leaf(903)))]) }

StdPaths ==
  { <<"a">>, <<"a", "b">>, <<"a", "b", "c">>, <<"a-b">>, <<"a_b">>,
    <<"a", "a-b">>, <<"a", "a_b">>, <<"a-b", "b">>, <<"a_b", "b">>, <<"c">> }

Shapes == ValShapes
Val(sh, v) == CASE sh = "leaf" -> Leaf(v)
                [] sh = "dict" -> Dict([b |-> Leaf(v)] @@ ("c-d" :> Leaf(v + 5)))
                [] sh = "strz" -> Leaf(901)           \* the text "zzz"
                [] sh = "stra" -> Leaf(902)           \* the text "abc"

\* values written at nesting depth d are 10d+1 .. 10d+MaxAsg (+5): different from every value
\* an enclosing context or the initial tree (values < 10) can hold
Choices == UNION { [1..n -> Paths \X Shapes] : n \in 1..MaxAsg }
AsgsOf(ch, depth) == [i \in DOMAIN ch |-> [p |-> ch[i][1], v |-> Val(ch[i][2], 10 * depth + i)]]

Gets(c) == { [p |-> p, r |-> LET l == Lookup(c, p) IN IF l.ok THEN l.n ELSE Leaf(0)] : p \in Paths }

OK == [op |-> "ok"]
\* the canonical history of a state: the calls of the live contexts with the configuration
\* after each, what get must return now, and the raising call (if any) with what a
\* non-atomic implementation would leave behind (pc - only used to name a root cause)
Export1(c, st, la, c0) ==
  [init |-> c0,
   sets |-> [i \in 1..Len(st) |-> [asgs |-> st[i].asgs, after |-> IF i < Len(st) THEN st[i + 1].snap ELSE c]],
   g    |-> Gets(c),
   last |-> la]
Out(c, st, la, c0) == IF Export THEN ToJson(Export1(c, st, la, c0)) ELSE ""

Init == /\ cfg \in Inits
        /\ cfg0 = cfg
        /\ stack = <<>>
        /\ last = OK
        /\ out = Out(cfg, <<>>, OK, cfg)

Set(ch) ==
  /\ last = OK /\ Len(stack) < MaxDepth
  /\ LET asgs == AsgsOf(ch, Len(stack) + 1)
         s    == SetCall(cfg, asgs)
         st   == IF s.ok THEN Append(stack, [snap |-> cfg, rec |-> s.r, asgs |-> asgs]) ELSE stack
         la   == IF s.ok THEN OK
                 ELSE [op |-> "fail", asgs |-> asgs, pc |-> PartialSet(cfg, asgs),
                       \* should an implementation accept the call instead of raising, get must still see these
                       vis |-> { i \in 1..Len(asgs) : ~Shadowed(asgs, i) }]
     IN /\ cfg' = s.n
        /\ stack' = st
        /\ last' = la
        /\ out' = Out(s.n, st, la, cfg0)
  /\ UNCHANGED cfg0

Exit ==
  /\ last = OK /\ stack # <<>>
  /\ LET top == stack[Len(stack)]
         c   == Rollback(cfg, top.rec).n
         st  == SubSeq(stack, 1, Len(stack) - 1)
     IN /\ cfg' = c
        /\ stack' = st
        /\ last' = OK
        /\ out' = Out(c, st, OK, cfg0)
  /\ UNCHANGED cfg0

AnySet == \E ch \in Choices : Set(ch)
Next == AnySet \/ Exit

(* ------------------------------------------------------------ properties *)
\* leaving a context restores the configuration exactly as it was on entry
ExitRestores == [][Len(stack') < Len(stack) => cfg' = stack[Len(stack)].snap]_vars
\* ... for any nesting: once every context is left the initial configuration is back
AllExitedRestores == stack = <<>> => cfg = cfg0
\* ... and the rollback itself never raises
ExitNeverRaises == [][Len(stack') < Len(stack) => Rollback(cfg, stack[Len(stack)].rec).ok]_vars
\* a call that raises (no context is pushed) changes nothing - also when the dotted path ran
\* through a text scalar, where _assign gets as far as the item assignment before it fails
FailedSetIsAtomic == [][(Len(stack') = Len(stack) /\ last'.op = "fail") => cfg' = cfg]_vars
FailedRollbackNeverRaises == [][last'.op = "fail" => FailedRollbackOK(cfg, last'.asgs)]_vars
\* inside the context get returns the set values under either spelling
GetSeesSet == [][Len(stack') > Len(stack) => GetSeesSetOK(cfg', stack'[Len(stack')].asgs)]_vars
\* first spelling wins: a mapping never holds both spellings of a key
CanonicalFirstWins == NoTwins(cfg)
\* every snapshot is the configuration the enclosing context produced
SnapshotsChain == \A i \in 1..Len(stack) :
   stack[i].snap = IF i = 1 THEN cfg0 ELSE SetCall(stack[i - 1].snap, stack[i - 1].asgs).n
=============================================================================
