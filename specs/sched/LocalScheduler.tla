--------------------------- MODULE LocalScheduler ---------------------------
(* The local scheduler of dask (dask/local.py: start_state_from_dask,
   fire_tasks, batch_execute_tasks, finish_task, release_data, get_async's main
   loop, nested_get), variable for variable.  C01 C02 C03 C04 (and the callback
   protocol half of C05, the Profiler half of C52).

   A *configuration* c (record, read from JSON written by the harness) is one
   call   get_async(submit, num_workers = c.nw, dsk, result, chunksize = c.cs):
     c.nodes[k]  node of key k (keys are 1..c.n, canonical numbering: a node
                 only refers to smaller keys)
                   [kind |-> "task",  args |-> <<arg, ...>>]
                   [kind |-> "data",  args |-> <<[l |-> "D3"]>>]
                   [kind |-> "alias", args |-> <<[r |-> j]>>]
                 arg = [r |-> key] | [l |-> "literal"] | [x |-> <<arg, ...>>]
     c.prio[k]   dask.order.order()'s priority of k, taken from the real
                 function (smaller runs first; `ready` is a LIFO stack)
     c.req       requested result: [k |-> key] or [x |-> <<req, ...>>]
     c.nw, c.cs  num_workers, chunksize (-1 = spread evenly)
     c.fails     keys of tasks whose function raises
   Task functions are uninterpreted (Herbrand): the value of a key is the
   *term* that denotes it, written as a string  label(arg,...)  so that values
   can be compared for equality whatever happened:  Den(c, k).

   All transitions are *functions on a state record* st (FireF, CompleteF,
   ConsumeOneF, ...) so that the model-checking actions below and the trace
   validator (LocalSchedulerTrace.tla) share one definition.                 *)
EXTENDS Naturals, Integers, Sequences, FiniteSets, TLC, SequencesExt, FiniteSetsExt

-----------------------------------------------------------------------------
(* Graph vocabulary *)
Keys(c) == 1..c.n
Kind(c, k) == c.nodes[k].kind
IsTask(c, k) == Kind(c, k) # "data"          \* aliases are executed like tasks

RECURSIVE ArgRefs(_)
ArgRefs(a) == IF "r" \in DOMAIN a THEN {a.r}
              ELSE IF "x" \in DOMAIN a THEN UNION {ArgRefs(a.x[i]) : i \in DOMAIN a.x}
              ELSE {}
Deps(c, k) == UNION {ArgRefs(c.nodes[k].args[i]) : i \in DOMAIN c.nodes[k].args}

RECURSIVE Closure(_, _)
Closure(c, S) == LET S2 == S \cup UNION {Deps(c, k) : k \in S}
                 IN IF S2 = S THEN S ELSE Closure(c, S2)

RECURSIVE ReqKeys(_)
ReqKeys(r) == IF "k" \in DOMAIN r THEN {r.k} ELSE UNION {ReqKeys(r.x[i]) : i \in DOMAIN r.x}
Requested(c) == ReqKeys(c.req)
Needed(c) == Closure(c, Requested(c))
NeededTasks(c) == {k \in Needed(c) : IsTask(c, k)}
Dependents(c, k) == {j \in Needed(c) : k \in Deps(c, j)}
StrictAnc(c, k) == Closure(c, Deps(c, k))
Fails(c) == {c.fails[i] : i \in DOMAIN c.fails}

-----------------------------------------------------------------------------
(* Herbrand values as strings *)
Label(k) == "k" \o ToString(k)

RECURSIVE Join(_, _)
Join(ss, sep) == IF ss = <<>> THEN ""
                 ELSE IF Len(ss) = 1 THEN ss[1]
                 ELSE ss[1] \o sep \o Join(Tail(ss), sep)

\* value of an argument given the values `env` (key -> string) of the referenced keys
RECURSIVE ArgVal(_, _)
ArgVal(a, env) == IF "r" \in DOMAIN a THEN env[a.r]
                  ELSE IF "l" \in DOMAIN a THEN a.l
                  ELSE "[" \o Join([i \in DOMAIN a.x |-> ArgVal(a.x[i], env)], ",") \o "]"

\* value computed by node k from the values env of its dependencies
NodeVal(c, k, env) ==
  CASE Kind(c, k) = "data"  -> c.nodes[k].args[1].l
    [] Kind(c, k) = "alias" -> env[c.nodes[k].args[1].r]
    [] OTHER -> Label(k) \o "(" \o Join([i \in DOMAIN c.nodes[k].args |-> ArgVal(c.nodes[k].args[i], env)], ",") \o ")"

\* the denotation of key k: direct recursive evaluation of the graph
RECURSIVE Den(_, _)
Den(c, k) == NodeVal(c, k, [d \in Deps(c, k) |-> Den(c, d)])

\* nested_get: the request packed with values
RECURSIVE Pack(_, _)
Pack(r, env) == IF "k" \in DOMAIN r THEN env[r.k]
                ELSE "<" \o Join([i \in DOMAIN r.x |-> Pack(r.x[i], env)], ",") \o ">"

-----------------------------------------------------------------------------
(* Scheduler state and transition functions *)
CeilDiv(a, b) == (a + b - 1) \div b
Min2(a, b) == IF a < b THEN a ELSE b
Max2(a, b) == IF a > b THEN a ELSE b

\* keys of S as a sequence, highest priority number first (sorted(..., reverse=True))
PrioDesc(c, S) == SetToSortSeq(S, LAMBDA a, b : c.prio[a] > c.prio[b])

Rstr(f, S) == [x \in S |-> f[x]]

InitState == [pc |-> "start", waiting |-> <<>>, wdata |-> <<>>, ready |-> <<>>, running |-> {},
              finished |-> {}, released |-> {}, cache |-> <<>>, inflight |-> {}, queue |-> <<>>,
              cur |-> <<>>, exec |-> <<>>, raised |-> 0, ret |-> "", bad |-> "", finishes |-> 0]

\* start_state_from_dask
StartF(c, st) ==
  LET seen  == Needed(c)
      data  == {k \in seen : Kind(c, k) = "data"}
      tasks == seen \ data
      w     == [k \in {t \in tasks : Deps(c, t) \ data # {}} |-> Deps(c, k) \ data]
  IN [st EXCEPT !.pc = "fire",
                !.cache = [k \in data |-> c.nodes[k].args[1].l],
                !.waiting = w,
                !.wdata = [k \in seen |-> Dependents(c, k)],
                !.ready = PrioDesc(c, tasks \ DOMAIN w),
                !.exec = [k \in Keys(c) |-> 0]]

LoopCond(st) == DOMAIN st.waiting # {} \/ st.ready # <<>> \/ st.running # {}

\* the keys fire_tasks pops this round, in pop order
FirePops(c, st) ==
  LET nready == Len(st.ready)
      ntasks == IF c.cs = -1 THEN nready
                ELSE Min2(nready, c.cs * Max2(c.nw - CeilDiv(Cardinality(st.running), c.cs), 0))
  IN [i \in 1..ntasks |-> st.ready[nready - i + 1]]

RECURSIVE Batches(_, _)
Batches(s, n) == IF s = <<>> THEN {}
                 ELSE {SubSeq(s, 1, Min2(n, Len(s)))} \cup Batches(SubSeq(s, Min2(n, Len(s)) + 1, Len(s)), n)

\* one iteration's fire_tasks (or the end of the main loop)
FireF(c, st) ==
  IF ~LoopCond(st)
  THEN [st EXCEPT !.pc = "done", !.finishes = @ + 1,
                  !.ret = IF Requested(c) \subseteq DOMAIN st.cache THEN Pack(c.req, st.cache) ELSE "KeyError",
                  !.bad = IF Requested(c) \subseteq DOMAIN st.cache THEN @ ELSE "requested-key-released"]
  ELSE
  LET popped == FirePops(c, st)
      ntasks == Len(popped)
      chunk  == IF c.cs = -1 THEN CeilDiv(ntasks, c.nw) ELSE c.cs
      snapok == \A i \in 1..ntasks : Deps(c, popped[i]) \subseteq DOMAIN st.cache
      recs   == [i \in 1..ntasks |-> [k |-> popped[i], data |-> Rstr(st.cache, Deps(c, popped[i]) \cap DOMAIN st.cache)]]
  IN [st EXCEPT !.pc = IF snapok THEN "wait" ELSE "failed",
                !.finishes = IF snapok THEN @ ELSE @ + 1,
                !.bad = IF snapok THEN @ ELSE "dependency-released-early",
                !.ready = SubSeq(st.ready, 1, Len(st.ready) - ntasks),
                !.running = @ \cup Range(popped),
                !.inflight = @ \cup (IF ntasks = 0 THEN {} ELSE Batches(recs, chunk))]

\* a worker runs batch b (batch_execute_tasks): every task of the batch runs, failures are packed
\* With c.pack (threaded / multiprocessing schedulers: pack_exception returns the exception) every
\* task of the batch runs and each gets its own record.  Without it (get_sync, a user Executor
\* passed through get_scheduler: default_pack_exception re-raises) the batch stops at its first
\* failing task and the whole batch surfaces as that one failure.
FirstFail(c, b) == IF \E i \in DOMAIN b : b[i].k \in Fails(c)
                   THEN Min({i \in DOMAIN b : b[i].k \in Fails(c)}) ELSE 0
RanIn(c, b) == IF c.pack \/ FirstFail(c, b) = 0 THEN DOMAIN b ELSE 1..FirstFail(c, b)
RunBatchF(c, st, b) ==
  [st EXCEPT !.exec = [k \in DOMAIN @ |-> IF \E i \in RanIn(c, b) : b[i].k = k THEN @[k] + 1 ELSE @[k]]]
\* ... and its result list lands on the queue (the future's done-callback)
DeliverF(c, st, b) ==
  [st EXCEPT !.inflight = @ \ {b},
             !.queue = Append(@, IF ~c.pack /\ FirstFail(c, b) # 0
                                 THEN <<[k |-> b[FirstFail(c, b)].k, failed |-> TRUE, v |-> ""]>>
                                 ELSE [i \in DOMAIN b |->
                                    IF b[i].k \in Fails(c) THEN [k |-> b[i].k, failed |-> TRUE, v |-> ""]
                                    ELSE [k |-> b[i].k, failed |-> FALSE, v |-> NodeVal(c, b[i].k, b[i].data)]])]
CompleteF(c, st, b) == DeliverF(c, RunBatchF(c, st, b), b)

\* finish_task + release_data for key k
FinishTaskF(c, st, k) ==
  LET depsDesc == PrioDesc(c, Dependents(c, k))
      RECURSIVE W(_, _, _)
      W(i, w, r) == IF i > Len(depsDesc) THEN <<w, r>>
                    ELSE LET d == depsDesc[i]
                             s == w[d] \ {k}
                         IN IF s = {} THEN W(i + 1, Rstr(w, DOMAIN w \ {d}), Append(r, d))
                            ELSE W(i + 1, [w EXCEPT ![d] = s], r)
      wr  == W(1, st.waiting, st.ready)
      wd1 == [x \in DOMAIN st.wdata |-> IF x \in Deps(c, k) THEN st.wdata[x] \ {k} ELSE st.wdata[x]]
      rel == {x \in Deps(c, k) : x \notin Requested(c) /\ (IF x \in DOMAIN st.wdata THEN wd1[x] = {} ELSE TRUE)}
  IN [st EXCEPT !.waiting = wr[1], !.ready = wr[2],
                !.wdata = Rstr(wd1, DOMAIN wd1 \ rel),
                !.released = @ \cup rel,
                !.cache = Rstr(@, DOMAIN @ \ rel),
                !.finished = @ \cup {k},
                !.running = @ \ {k}]

\* the main loop takes the next record of the batch it is consuming
ConsumeOneF(c, st) ==
  LET cur == IF st.cur = <<>> THEN Head(st.queue) ELSE st.cur
      q   == IF st.cur = <<>> THEN Tail(st.queue) ELSE st.queue
      r   == Head(cur)
  IN IF r.failed
     THEN [st EXCEPT !.pc = "failed", !.raised = r.k, !.queue = q, !.cur = Tail(cur), !.finishes = @ + 1]
     ELSE LET st1 == FinishTaskF(c, [st EXCEPT !.cache = (r.k :> r.v) @@ @], r.k)
          IN [st1 EXCEPT !.queue = q, !.cur = Tail(cur),
                         !.pc = IF Tail(cur) = <<>> THEN "fire" ELSE "wait"]

CanConsume(st) == st.pc = "wait" /\ (st.cur # <<>> \/ st.queue # <<>>)
Terminal(s) == s.pc \in {"done", "failed"}

-----------------------------------------------------------------------------
(* Properties, as predicates of (c, st) *)
\* C01
ResultCorrectP(c, st) == st.pc = "done" => st.ret = Pack(c.req, [k \in Requested(c) |-> Den(c, k)])
CacheValuesP(c, st)   == \A k \in DOMAIN st.cache : st.cache[k] = Den(c, k)
NoBadP(c, st)         == st.bad = ""
\* C02
AtMostOnceP(c, st)    == \A k \in Keys(c) : st.pc # "start" => st.exec[k] <= 1
ExactlyNeededP(c, st) == st.pc = "done" => \A k \in Keys(c) : st.exec[k] = IF k \in NeededTasks(c) THEN 1 ELSE 0
OnlyNeededP(c, st)    == st.pc # "start" => \A k \in Keys(c) : st.exec[k] > 0 => k \in NeededTasks(c)
DepsFirstP(c, st)     == \A b \in st.inflight : \A i \in DOMAIN b :
                            /\ Deps(c, b[i].k) \subseteq (st.finished \cup {d \in Keys(c) : Kind(c, d) = "data"})
                            /\ b[i].data = [d \in Deps(c, b[i].k) |-> Den(c, d)]
\* C03
NoEarlyReleaseP(c, st) == \A k \in st.released : k \notin Requested(c) /\ Dependents(c, k) \subseteq st.finished
HeldWhileNeededP(c, st) == \A k \in st.finished \ st.released : k \in DOMAIN st.cache
NoLeakP(c, st)        == st.pc = "done" => DOMAIN st.cache = Requested(c)
\* C04
RaisedIsRealP(c, st)  == st.pc = "failed" /\ st.bad = "" => st.raised \in Fails(c) /\ st.exec[st.raised] = 1
NoDepOfFailedRunsP(c, st) == st.pc # "start" => \A k \in Keys(c) : st.exec[k] > 0 => StrictAnc(c, k) \cap Fails(c) = {}
FinishOnceP(c, st)    == st.finishes = (IF st.pc \in {"done", "failed"} THEN 1 ELSE 0)
NoFailNoRaiseP(c, st) == (Fails(c) \cap NeededTasks(c) = {}) => st.pc # "failed"
FailMustRaiseP(c, st) == st.pc = "done" => Fails(c) \cap NeededTasks(c) = {}
\* every predicate above, by name (used by the trace validator for total verdicts)
Violated(c, st) ==
  (IF ResultCorrectP(c, st) THEN {} ELSE {"ResultCorrect"}) \cup (IF CacheValuesP(c, st) THEN {} ELSE {"CacheValues"})
  \cup (IF NoBadP(c, st) THEN {} ELSE {"NoBad"}) \cup (IF AtMostOnceP(c, st) THEN {} ELSE {"AtMostOnce"})
  \cup (IF ExactlyNeededP(c, st) THEN {} ELSE {"ExactlyNeeded"}) \cup (IF OnlyNeededP(c, st) THEN {} ELSE {"OnlyNeeded"})
  \cup (IF DepsFirstP(c, st) THEN {} ELSE {"DepsFirst"}) \cup (IF NoEarlyReleaseP(c, st) THEN {} ELSE {"NoEarlyRelease"})
  \cup (IF HeldWhileNeededP(c, st) THEN {} ELSE {"HeldWhileNeeded"}) \cup (IF NoLeakP(c, st) THEN {} ELSE {"NoLeak"})
  \cup (IF RaisedIsRealP(c, st) THEN {} ELSE {"RaisedIsReal"}) \cup (IF NoDepOfFailedRunsP(c, st) THEN {} ELSE {"NoDepOfFailedRuns"})
  \cup (IF FinishOnceP(c, st) THEN {} ELSE {"FinishOnce"}) \cup (IF NoFailNoRaiseP(c, st) THEN {} ELSE {"NoFailNoRaise"})
  \cup (IF FailMustRaiseP(c, st) THEN {} ELSE {"FailMustRaise"})

\* bookkeeping consistency (type-level strengthening used for the inductive argument)
ConsistentP(c, st)    == st.pc # "start" =>
                           /\ st.running \cap st.finished = {}
                           /\ Range(st.ready) \cap (st.running \cup st.finished) = {}
                           /\ DOMAIN st.waiting \cap (Range(st.ready) \cup st.running \cup st.finished) = {}
                           /\ \A k \in DOMAIN st.waiting : st.waiting[k] # {} /\ st.waiting[k] \cap st.finished = {}
=============================================================================
