----------------------------- MODULE ConfigTrace -----------------------------
(* code -> spec for C17.  One record per run of the real code:

   kind = "hist"      a whole set/exit history on a private dict:
                      init, ev = <<[op |-> "set", asgs, raised, cfg, g], [op |-> "exit", raised, cfg, g], ...>>
                      (cfg = the dict after the call, g = what config.get returned for probe paths;
                       Leaf(0) stands for "get raised")
   kind = "update"    one call update(old, new, priority, defaults) -> res
   kind = "merge"     one call merge(ds...) -> res
   kind = "env"       one call collect_env(environment built from vars / inh) -> res
   kind = "roundtrip" deserialize(serialize(t)) -> res

   TLC steps the specification of module Config along each history and names the
   first clause the real code violates.                                          *)
EXTENDS Config, TraceIO

Got(c, p) == LET lk == Lookup(c, p) IN IF lk.ok THEN lk.n ELSE Leaf(0)
GetsOK(c, g) == \A x \in DOMAIN g : g[x].r = Got(c, g[x].p)

\* every probe of an assigned path (either spelling) returned the assigned value, unless a later
\* assignment of the same call overwrote it
SeenOK(asgs, g) ==
  \A i \in 1..Len(asgs) : Shadowed(asgs, i) \/
     \A x \in DOMAIN g : (g[x].p = asgs[i].p \/ g[x].p = AltPath(asgs[i].p)) => g[x].r = asgs[i].v

RECURSIVE Walk(_, _, _, _)
Walk(ev, i, c, st) ==
  IF i > Len(ev) THEN {}
  ELSE
    LET e == ev[i] IN
    IF e.op = "set" THEN
      LET s == SetCall(c, e.asgs) IN
      IF ~s.ok THEN
        IF e.raised THEN                              \* must change nothing; the recorder stops here
          (IF e.cfg = c THEN {}
           ELSE IF e.cfg = PartialSet(c, e.asgs) THEN {"FailedSetKeepsEarlierAssignments"}
           ELSE {"FailedSetIsAtomic"})
        \* The code accepted a call the transcription says it rejects (a dotted path through a
        \* scalar).  That alone is no alarm - but the policy-free clauses still bind: get sees the
        \* set values now, and the matching exit must restore the entry configuration c.
        ELSE IF ~SeenOK(e.asgs, e.g) THEN {"GetSeesSet"}
        ELSE Walk(ev, i + 1, e.cfg, Append(st, [snap |-> c, rec |-> <<>>]))
      ELSE IF e.raised THEN {"UnexpectedRaise"}
      ELSE IF e.cfg # s.n THEN {"SetResult"}
      ELSE IF ~(GetsOK(s.n, e.g) /\ GetSeesSetOK(s.n, e.asgs)) THEN {"GetSeesSet"}
      ELSE IF ~NoTwins(s.n) THEN {"CanonicalFirstWins"}
      ELSE Walk(ev, i + 1, s.n, Append(st, [snap |-> c, rec |-> s.r]))
    ELSE
      IF st = <<>> THEN {"MalformedTrace"}
      ELSE LET top == st[Len(st)] IN
           IF e.raised THEN {"ExitRaised"}
           ELSE IF e.cfg # top.snap THEN {"ExitRestores"}
           ELSE IF ~GetsOK(top.snap, e.g) THEN {"GetAfterExit"}
           ELSE Walk(ev, i + 1, top.snap, SubSeq(st, 1, Len(st) - 1))

BadUpdate(r) ==
  LET dc == r.prio # "new" /\ KindConflict(r.old, r.new)      \* precedence unspecified: anything goes
  IN IF r.raised THEN (IF dc THEN {} ELSE {"UnexpectedRaise"})
     ELSE Clause("Precedence", UpdateContract(r.old, r.new, r.prio, r.res))
          \cup (IF dc THEN {} ELSE Clause("UpdateResult", r.res = Update(r.old, r.new, r.prio, r.defs)))

BadMerge(r) ==
  IF r.raised THEN {"UnexpectedRaise"}
  ELSE Clause("MergeResult", r.res = Merge(r.ds))
       \cup Clause("LastWins", Len(r.ds) = 0 \/ Wins(r.ds[Len(r.ds)], r.res))

VarSet(vs) == { vs[i] : i \in DOMAIN vs }
BadEnv(r) ==
  IF r.raised THEN {"UnexpectedRaise"}
  ELSE Clause("EnvResult", NormTree(r.res) = NormTree(EnvResult(r.inh, VarSet(r.vars))))

BadRoundTrip(r) == IF r.raised THEN {"UnexpectedRaise"} ELSE Clause("RoundTrip", r.res = r.t)

Bad(r) == CASE r.kind = "hist"      -> Walk(r.ev, 1, r.init, <<>>)
            [] r.kind = "update"    -> BadUpdate(r)
            [] r.kind = "merge"     -> BadMerge(r)
            [] r.kind = "env"       -> BadEnv(r)
            [] r.kind = "roundtrip" -> BadRoundTrip(r)

Init == TInit
Next == TNext(Bad)
=============================================================================
