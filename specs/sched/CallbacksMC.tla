----------------------------- MODULE CallbacksMC -----------------------------
(* Exhaustive histories for C05 + export of every history of maximal length (or
   that cannot be extended) as JSON for the replay on real Callback objects.   *)
EXTENDS Callbacks, Json

VARIABLE out
mvars == <<vars, out>>

MCInit == Init /\ out = ""
MCNext == /\ Next
          /\ out' = IF Len(hist') = MaxLen THEN ToJson([hist |-> hist']) ELSE ""
=============================================================================
