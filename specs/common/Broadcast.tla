------------------------------ MODULE Broadcast ------------------------------
(* NumPy broadcasting as index projection, and the dtype-KIND promotion table.

   Shapes are sequences of extents (0-d = <<>>).  An operand with shape s takes
   part in a result of shape o (Len(o) >= Len(s)) by right-alignment; an extent
   1 is stretched, i.e. every output index projects to source index 0 there.

   Kinds stand for the concrete dtypes the harness uses:
       "b" bool   "u" uint8   "i" int64   "f" float64   "c" complex128
   For these dtypes NumPy 2 promotion is the chain  b < u < i < f < c.
   Python scalars are *weak* (NEP 50): they only lift the kind of the other
   operands when their own category is higher (int lifts bool; float lifts
   bool/uint/int; complex lifts everything); a Python int never turns uint8
   into int64.                                                               *)
EXTENDS NDArray

\* 0-based index tuple of the 0-based row-major position p in `shape`
RECURSIVE Unravel(_, _)
Unravel(shape, p) == IF shape = <<>> THEN <<>>
                     ELSE LET t == ProdSeq(Tail(shape))
                          IN <<p \div t>> \o Unravel(Tail(shape), p % t)

MaxLen(shapes) == IF shapes = <<>> THEN 0 ELSE Max({Len(shapes[i]) : i \in DOMAIN shapes})
PadLeft(shape, nd) == [j \in 1..(nd - Len(shape)) |-> 1] \o shape

DimsCompatible(a, b) == a = b \/ a = 1 \/ b = 1

\* a sequence of shapes can be broadcast together
BroadcastOK(shapes) ==
  LET nd == MaxLen(shapes)
      P  == [i \in DOMAIN shapes |-> PadLeft(shapes[i], nd)]
  IN \A d \in 1..nd : \A i, j \in DOMAIN shapes : DimsCompatible(P[i][d], P[j][d])

\* the common shape (only meaningful when BroadcastOK)
BroadcastShape(shapes) ==
  LET nd == MaxLen(shapes)
      P  == [i \in DOMAIN shapes |-> PadLeft(shapes[i], nd)]
  IN [d \in 1..nd |-> IF \E i \in DOMAIN shapes : P[i][d] # 1
                      THEN P[CHOOSE i \in DOMAIN shapes : P[i][d] # 1][d]
                      ELSE 1]

\* source index tuple (0-based) in `shape` of the output index tuple oix (0-based)
ProjectIx(shape, oix) ==
  [d \in 1..Len(shape) |-> IF shape[d] = 1 THEN 0 ELSE oix[Len(oix) - Len(shape) + d]]

\* 0-based source position of output position p (0-based) of `oshape`
ProjectPos(shape, oshape, p) == Ravel(shape, ProjectIx(shape, Unravel(oshape, p)))

\* cells (row-major sequence) of an operand stretched to oshape
BroadcastTo(shape, cells, oshape) ==
  [p \in 1..Size(oshape) |-> cells[ProjectPos(shape, oshape, p - 1) + 1]]

-----------------------------------------------------------------------------
Kinds == {"b", "u", "i", "f", "c"}
Rank(k) == CASE k = "b" -> 0 [] k = "u" -> 1 [] k = "i" -> 2 [] k = "f" -> 3 [] k = "c" -> 4
Promote(k1, k2) == IF Rank(k1) >= Rank(k2) THEN k1 ELSE k2

RECURSIVE PromoteAll(_)
PromoteAll(ks) == IF ks = <<>> THEN "b" ELSE Promote(Head(ks), PromoteAll(Tail(ks)))

\* effect of one weak Python scalar of category w on the kind s of the rest
WeakApply(s, w) == CASE w = "b" -> s
                     [] w = "i" -> IF s = "b" THEN "i" ELSE s
                     [] w = "f" -> IF Rank(s) < Rank("f") THEN "f" ELSE s
                     [] w = "c" -> "c"

RECURSIVE WeakAll(_, _)
WeakAll(s, ws) == IF ws = <<>> THEN s ELSE WeakAll(WeakApply(s, Head(ws)), Tail(ws))

\* kind of np.result_type(arrays of kinds `strong`, Python scalars of categories `weak`)
ResultKind(strong, weak) == WeakAll(PromoteAll(strong), weak)

\* casting="same_kind" for the concrete dtypes above (what ufunc out= permits):
\* never to a lower category (int64 -> uint8 is refused as well)
CanCastSameKind(from, to) == Rank(from) <= Rank(to)
=============================================================================
