------------------------------ MODULE TraceIO ------------------------------
(* code -> spec validation of call records.  The harness writes one JSON record
   per line to $TRACE_FILE; a trace specification EXTENDS this module, defines
   Bad(r) == the set of names of the clauses record r violates, and uses
   TInit / TNext(Bad).  Verdicts are total: every record is consumed, rejected
   ones print <<"REJECT", id, clauses>> and the final step prints
   <<"DONE", #records, #rejected>>.                                            *)
EXTENDS Naturals, Sequences, TLC, Json, IOUtils

Recs == ndJsonDeserialize(IOEnv.TRACE_FILE)

VARIABLES l, nbad

TInit == l = 1 /\ nbad = 0

TNext(Bad(_)) ==
  \/ /\ l <= Len(Recs)
     /\ LET r == Recs[l]
            b == Bad(r)
        IN IF b = {} THEN nbad' = nbad
           ELSE /\ nbad' = nbad + 1
                /\ PrintT(<<"REJECT", r.id, b>>)
     /\ l' = l + 1
  \/ /\ l = Len(Recs) + 1
     /\ PrintT(<<"DONE", Len(Recs), nbad>>)
     /\ l' = l + 1
     /\ UNCHANGED nbad

\* conjunction helper: name of a clause if it fails
Clause(name, holds) == IF holds THEN {} ELSE {name}
=============================================================================
