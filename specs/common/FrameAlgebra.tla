---------------------------- MODULE FrameAlgebra ----------------------------
(* Typed tables over the vocabulary of module Frames, and the cell / column
   algebra that the row-wise dataframe specifications (FrameOps, FrameMeta) share.

   A TABLE is a record
       [ser   |-> BOOLEAN,               TRUE: a Series (exactly one column, whose
                                         name is the Series' name, "" = None)
        cols  |-> <<"rid", "a", ...>>,   column names in column order
        kinds |-> <<"i", "f", ...>>,     dtype class of each column:
                                         "i" integer (never holds NA), "f" float,
                                         "b" boolean (cells 0 / 1)
        rows  |-> <<[idx |-> l, v |-> <<c_1, ..., c_k>>], ...>>]
   rows in row order; idx is the index label (small integer), v the cells in
   column order: small integers, or NA (= Frames!NA = 99, the int sentinel for
   NaN).  By convention the column "rid" of a source table holds a value that
   is unique in the table, so every output row names the input row(s) it came
   from.

   A COLUMN (the value of a Series-valued expression over a table) is
       [name |-> STRING, kind |-> "i"|"f"|"b", vals |-> <<cells>>, err |-> BOOLEAN]
   vals is parallel to the rows of the table it was evaluated on.  name "#"
   marks a nameless operand (a broadcast scalar, a bare array), "" an unnamed
   Series.  err = the reference (pandas) raises for this expression: nothing is
   demanded of the implementation then.

   Pure definitions only; meant to be EXTENDed.                                *)
EXTENDS Frames

Bool(p) == IF p THEN 1 ELSE 0

ArithOps == {"add", "sub", "mul"}
CmpOps   == {"lt", "le", "gt", "ge", "eq", "ne"}
LogicOps == {"and", "or", "xor"}

(* ------------------------------------------------------------------ cells *)
\* arithmetic propagates NA
CellArith(f, x, y) ==
  IF x = NA \/ y = NA THEN NA
  ELSE CASE f = "add" -> x + y
         [] f = "sub" -> x - y
         [] f = "mul" -> x * y

\* comparisons with NaN are False, except != which is True
CellCmp(f, x, y) ==
  IF x = NA \/ y = NA THEN Bool(f = "ne")
  ELSE CASE f = "lt" -> Bool(x < y)
         [] f = "le" -> Bool(x <= y)
         [] f = "gt" -> Bool(x > y)
         [] f = "ge" -> Bool(x >= y)
         [] f = "eq" -> Bool(x = y)
         [] f = "ne" -> Bool(x # y)

\* & | ^ on boolean cells
CellLogic(f, x, y) ==
  CASE f = "and" -> x * y
    [] f = "or"  -> Bool(x + y > 0)
    [] f = "xor" -> (x + y) % 2

CellBin(f, x, y) == IF f \in ArithOps THEN CellArith(f, x, y)
                    ELSE IF f \in CmpOps THEN CellCmp(f, x, y)
                    ELSE CellLogic(f, x, y)

HasNA(vals) == \E k \in DOMAIN vals : vals[k] = NA

\* dtype class of an arithmetic / selection result: integer only if nothing is
\* missing and no operand was float (NumPy int + NaN needs a float array)
NumKind(k1, k2, vals) == IF k1 = "f" \/ k2 = "f" \/ HasNA(vals) THEN "f" ELSE "i"

\* positions 1..n satisfying P, ascending
PosSeq(n, P(_)) == SetToSortSeq({ k \in 1..n : P(k) }, LAMBDA a, b : a < b)

(* ----------------------------------------------------------------- tables *)
NRows(T)      == Len(T.rows)
HasCol(T, c)  == \E i \in DOMAIN T.cols : T.cols[i] = c
ColPos(T, c)  == CHOOSE i \in DOMAIN T.cols : T.cols[i] = c
TIdx(T)       == [k \in DOMAIN T.rows |-> T.rows[k].idx]

ColOf(T, c) == LET p == ColPos(T, c)
               IN [name |-> c, kind |-> T.kinds[p], err |-> FALSE,
                   vals |-> [k \in DOMAIN T.rows |-> T.rows[k].v[p]]]

\* the Series a column denotes, carrying the index of table T
SeriesOf(T, col) ==
  [ser |-> TRUE, cols |-> <<col.name>>, kinds |-> <<col.kind>>, err |-> col.err,
   rows |-> [k \in DOMAIN T.rows |-> [idx |-> T.rows[k].idx, v |-> <<col.vals[k]>>]]]

\* the table made of the given columns (a sequence of COLUMNs) over T's index
FrameOfCols(T, columns) ==
  [ser |-> FALSE, err |-> \E j \in DOMAIN columns : columns[j].err,
   cols  |-> [j \in DOMAIN columns |-> columns[j].name],
   kinds |-> [j \in DOMAIN columns |-> columns[j].kind],
   rows  |-> [k \in DOMAIN T.rows |-> [idx |-> T.rows[k].idx,
                                       v |-> [j \in DOMAIN columns |-> columns[j].vals[k]]]]]

\* keep the rows at the given positions (in that order); columns untouched
TakeRows(T, pos) == [T EXCEPT !.rows = [j \in DOMAIN pos |-> T.rows[pos[j]]]]

\* well-formedness of a table (design-check invariant of every reference result)
TableOK(T) ==
  /\ Len(T.cols) = Len(T.kinds)
  /\ T.ser => Len(T.cols) = 1
  /\ \A k \in DOMAIN T.rows : Len(T.rows[k].v) = Len(T.cols)
  /\ \A j \in DOMAIN T.cols :
       /\ T.kinds[j] \in {"i", "f", "b"}
       /\ T.kinds[j] = "i" => \A k \in DOMAIN T.rows : T.rows[k].v[j] # NA
       /\ T.kinds[j] = "b" => \A k \in DOMAIN T.rows : T.rows[k].v[j] \in {0, 1}

(* -------------------------------------------------- alignment on the index *)
(* pandas aligns two objects on their index before a binary operation
   (Series.align / DataFrame.align, join = "outer"):
     - identical label sequences: nothing to do, the operation is positional
       (also with duplicate labels);
     - otherwise the result index is the sorted union of the labels, and a label
       carried by m rows on the left and k rows on the right yields m * k rows,
       left-major (each left row in turn with every right row, both in their
       own order); a label missing on one side yields that side's rows with NA
       for the other.
   Stated for non-decreasing label sequences (what dask's known divisions
   require); the result is the sequence of <<left position, right position>>
   pairs, 0 = no row on that side.                                            *)
AlignPairs(li, ri) ==
  IF li = ri THEN [k \in DOMAIN li |-> <<k, k>>]
  ELSE LET labels == SetToSortSeq(SeqSet(li) \cup SeqSet(ri), LAMBDA a, b : a < b)
           block(x) ==
             LET L == PosSeq(Len(li), LAMBDA k : li[k] = x)
                 R == PosSeq(Len(ri), LAMBDA k : ri[k] = x)
             IN IF L = <<>> THEN [j \in DOMAIN R |-> <<0, R[j]>>]
                ELSE IF R = <<>> THEN [j \in DOMAIN L |-> <<L[j], 0>>]
                ELSE [j \in 1..(Len(L) * Len(R)) |->
                        <<L[((j - 1) \div Len(R)) + 1], R[((j - 1) % Len(R)) + 1]>>]
       IN FlattenSeq([j \in DOMAIN labels |-> block(labels[j])])

\* the label of an aligned pair
PairLabel(li, ri, p) == IF p[1] # 0 THEN li[p[1]] ELSE ri[p[2]]

\* cell of column values `vals` at aligned position q (0 = missing)
AtOrNA(vals, q) == IF q = 0 THEN NA ELSE vals[q]
=============================================================================
