------------------------------ MODULE Rational ------------------------------
(* Exact rational numbers for the "mean / var / quantile" reference semantics.

   A rational is a pair <<num, den>> in normal form: den > 0 and
   gcd(|num|, den) = 1 (so zero is <<0, 1>> and equality of rationals is
   equality of pairs).  The operators keep intermediate products small
   (cross-reduction before multiplying) because TLC integers are 32 bit.
   Floats never enter TLC: the harness converts a float observed from dask with
   fractions.Fraction and compares it with the exported pair in Python.        *)
EXTENDS Integers

RAbs(x) == IF x < 0 THEN -x ELSE x

RECURSIVE RGcd(_, _)
RGcd(a, b) == IF b = 0 THEN a ELSE RGcd(b, a % b)          \* a, b >= 0

\* the normal form of n / d  (d # 0)
RNorm(n, d) == LET s == IF d < 0 THEN -1 ELSE 1
                   g == RGcd(RAbs(n), RAbs(d))
               IN <<(s * n) \div g, (s * d) \div g>>

IsRat(r)  == r[2] > 0 /\ RGcd(RAbs(r[1]), r[2]) = 1
RInt(n)   == <<n, 1>>
RIsInt(x) == x[2] = 1

RNeg(x)    == <<-x[1], x[2]>>
RAdd(x, y) == LET g == RGcd(x[2], y[2])
              IN RNorm(x[1] * (y[2] \div g) + y[1] * (x[2] \div g), (x[2] \div g) * y[2])
RSub(x, y) == RAdd(x, RNeg(y))
RMul(x, y) == LET g1 == RGcd(RAbs(x[1]), y[2])
                  g2 == RGcd(RAbs(y[1]), x[2])
              IN RNorm((x[1] \div g1) * (y[1] \div g2), (x[2] \div g2) * (y[2] \div g1))
RInv(x)    == RNorm(x[2], x[1])                              \* x # 0
RDiv(x, y) == RMul(x, RInv(y))                               \* y # 0

RLt(x, y) == x[1] * y[2] < y[1] * x[2]
RLe(x, y) == x[1] * y[2] <= y[1] * x[2]
RMin(x, y) == IF RLe(x, y) THEN x ELSE y
RMax(x, y) == IF RLe(x, y) THEN y ELSE x

\* floor and ceiling (TLA+ \div rounds towards minus infinity)
RFloor(x) == x[1] \div x[2]
RCeil(x)  == -((-x[1]) \div x[2])
\* round half to even (numpy.around)
RRoundEven(x) == LET f == RFloor(x)
                     two == RSub(x, RInt(f))                 \* fractional part, in [0, 1)
                 IN IF RLt(two, <<1, 2>>) THEN f
                    ELSE IF RLt(<<1, 2>>, two) THEN f + 1
                    ELSE IF f % 2 = 0 THEN f ELSE f + 1

RECURSIVE RPow(_, _)
RPow(b, k) == IF k = 0 THEN 1 ELSE b * RPow(b, k - 1)        \* integer power
=============================================================================
