------------------------------- MODULE Chunks -------------------------------
(* Chunkings of one axis and of n-d shapes; block offsets; validity.          *)
EXTENDS Naturals, Integers, Sequences, FiniteSets, SequencesExt, FiniteSetsExt

RECURSIVE SumSeq(_)
SumSeq(s) == IF s = <<>> THEN 0 ELSE Head(s) + SumSeq(Tail(s))

RECURSIVE ProdSeq(_)
ProdSeq(s) == IF s = <<>> THEN 1 ELSE Head(s) * ProdSeq(Tail(s))

\* all chunkings of an axis of length n into positive chunks (compositions of n)
RECURSIVE Comps(_)
Comps(n) == IF n = 0 THEN {<<>>}
            ELSE UNION { { <<k>> \o c : c \in Comps(n - k) } : k \in 1..n }

\* an axis of length 0 is chunked as (0,)
Chunkings(n) == IF n = 0 THEN {<<0>>} ELSE Comps(n)

\* chunkings that additionally contain exactly one empty chunk somewhere
WithOneZero(n) == UNION { { SubSeq(c, 1, p) \o <<0>> \o SubSeq(c, p + 1, Len(c)) : p \in 0..Len(c) } : c \in Comps(n) }

\* chunkings with at most `m` chunks
CompsAtMost(n, m) == { c \in Chunkings(n) : Len(c) <= m }

\* all chunkings of an n-d shape: sequences of per-axis chunkings
RECURSIVE NDChunkings(_)
NDChunkings(shape) == IF shape = <<>> THEN {<<>>}
                      ELSE { <<c>> \o r : c \in Chunkings(Head(shape)), r \in NDChunkings(Tail(shape)) }

\* a chunk tuple is valid for an extent: non-negative sizes summing to the extent
ValidAxis(n, c) == /\ \A i \in DOMAIN c : c[i] \in Nat
                   /\ SumSeq(c) = n
ValidChunks(shape, chunks) == /\ Len(chunks) = Len(shape)
                              /\ \A d \in DOMAIN shape : ValidAxis(shape[d], chunks[d])

\* offset of block b (1-based) in chunking c
Offset(c, b) == SumSeq(SubSeq(c, 1, b - 1))
=============================================================================
