------------------------------- MODULE Frames -------------------------------
(* Shared vocabulary of the dataframe specifications (DESIGN.md 4.4).

   A ROW is a record with at least the fields
       rid : a row identifier, unique in the *source* frame of a case, so that
             every output row names the input row it came from;
       idx : the index label of the row (a small integer, or NA);
   and any number of further cell fields (small integers, or NA).  Operators of
   this module only touch .rid and .idx, so modules that extend it are free to
   add columns (a, b, k, ...) to their rows.

   A FRAME is a sequence of rows (row order is significant).

   A PARTITIONED FRAME is a record
       [parts |-> <<frame_1, ..., frame_n>>,   n >= 1, empty frames allowed
        divs  |-> <<d_0, ..., d_n>>  or  <<>>] <<>> = divisions unknown
   mirroring a dask collection: `parts` are its partitions in order, `divs` is
   `.divisions` (a tuple of None's is logged as <<>>).

   Everything here is a pure definition (no variables); the module is meant to
   be EXTENDed.  Other modules add joins / group folds / window folds etc.    *)
EXTENDS Chunks        \* Naturals, Integers, Sequences, FiniteSets, SequencesExt, FiniteSetsExt, SumSeq, Comps

\* missing value (NaN / None / NaT) as an integer sentinel: comparing a string
\* with an integer is a TLC error, so NA must be an Int outside the cell range
NA == 99

-----------------------------------------------------------------------------
(* Plain sequences                                                            *)

SeqSet(s) == { s[i] : i \in DOMAIN s }

\* s[1] <= s[2] <= ...   (sequences of integers)
NonDecreasing(s)      == \A i \in 1..(Len(s) - 1) : s[i] <= s[i + 1]
StrictlyIncreasing(s) == \A i \in 1..(Len(s) - 1) : s[i] <  s[i + 1]

\* number of occurrences of x in s
CountIn(s, x) == Cardinality({ i \in DOMAIN s : s[i] = x })

\* s and t hold the same elements with the same multiplicities
SameBag(s, t) == /\ Len(s) = Len(t)
                 /\ \A x \in SeqSet(s) \cup SeqSet(t) : CountIn(s, x) = CountIn(t, x)

\* all non-decreasing sequences of length n over the integer interval lo..hi
RECURSIVE SortedSeqs(_, _, _)
SortedSeqs(n, lo, hi) == IF n = 0 THEN {<<>>}
                         ELSE UNION { { <<v>> \o r : r \in SortedSeqs(n - 1, v, hi) } : v \in lo..hi }

\* all sequences of length n over the set S
RECURSIVE AllSeqs(_, _)
AllSeqs(n, S) == IF n = 0 THEN {<<>>}
                 ELSE { <<v>> \o r : v \in S, r \in AllSeqs(n - 1, S) }

\* stable sort of a sequence by an integer key (reference for sort_index(kind="stable"))
StableSortBy(s, key(_)) ==
  LET srt[n \in 0..Len(s)] ==          \* srt[n] = the first n elements, stably sorted
        IF n = 0 THEN <<>>
        ELSE LET sorted == srt[n - 1]
                 last   == s[n]
                 \* the new element goes *after* every element with a key <= its own
                 pos    == Cardinality({ i \in DOMAIN sorted : key(sorted[i]) <= key(last) })
             IN SubSeq(sorted, 1, pos) \o <<last>> \o SubSeq(sorted, pos + 1, Len(sorted))
  IN srt[Len(s)]

-----------------------------------------------------------------------------
(* Frames                                                                     *)

Rids(f) == [i \in DOMAIN f |-> f[i].rid]
Idxs(f) == [i \in DOMAIN f |-> f[i].idx]

\* the frame whose i-th row has rid = i - 1 and the i-th label of `labels`
\* (the canonical source frame of a case: the harness builds exactly this one)
FrameOfIdx(labels) == [i \in DOMAIN labels |-> [rid |-> i - 1, idx |-> labels[i]]]

\* rows are identified by rid: same row *sequence* / same row *multiset*
SameRowSeq(f, g) == Rids(f) = Rids(g)
SameRowBag(f, g) == SameBag(Rids(f), Rids(g))

\* every row kept its index label (an operation that must not touch the index)
LabelsKept(src, out) ==
  \A i \in DOMAIN out : \A j \in DOMAIN src : out[i].rid = src[j].rid => out[i].idx = src[j].idx

SortedByIdx(f) == NonDecreasing(Idxs(f))
StableSortByIdx(f) == StableSortBy(f, LAMBDA r : r.idx)

IdxMin(f) == Min(SeqSet(Idxs(f)))
IdxMax(f) == Max(SeqSet(Idxs(f)))

-----------------------------------------------------------------------------
(* Partitioned frames                                                         *)

RECURSIVE ConcatParts(_)
ConcatParts(parts) == IF parts = <<>> THEN <<>> ELSE Head(parts) \o ConcatParts(Tail(parts))

NParts(pf)     == Len(pf.parts)
KnownDivs(pf)  == pf.divs # <<>>
Rows(pf)       == ConcatParts(pf.parts)
PartSizes(pf)  == [i \in DOMAIN pf.parts |-> Len(pf.parts[i])]

\* weak compositions: all ways to write n as an ordered sum of exactly m naturals
RECURSIVE WeakComps(_, _)
WeakComps(n, m) == IF m = 0 THEN (IF n = 0 THEN {<<>>} ELSE {})
                   ELSE UNION { { <<k>> \o c : c \in WeakComps(n - k, m - 1) } : k \in 0..n }

\* all row-count layouts of a frame of n rows into 1..maxParts consecutive
\* partitions, empty partitions allowed (what harness.frames.from_parts builds)
Layouts(n, maxParts) == UNION { WeakComps(n, m) : m \in 1..maxParts }
\* the same without empty partitions (what from_pandas can produce)
LayoutsNoEmpty(n, maxParts) == { c \in Layouts(n, maxParts) : \A i \in DOMAIN c : c[i] > 0 }

\* cut frame f into consecutive partitions of the given sizes (SumSeq(sizes) = Len(f))
SplitBySizes(f, sizes) ==
  [i \in DOMAIN sizes |-> SubSeq(f, Offset(sizes, i) + 1, Offset(sizes, i) + sizes[i])]

(* THE DIVISIONS CONTRACT (dask "dataframe-design: partitions"): divisions
   d_0 <= ... <= d_n describe n partitions; partition i (1-based) holds only
   labels in [d_{i-1}, d_i), the last one in the closed interval
   [d_{n-1}, d_n].  Stated on a bare (divs, parts-as-label-sequences) pair so
   that trace specifications can evaluate it on logged observations.          *)
InDivision(divs, i, x) ==
  /\ divs[i] <= x
  /\ IF i = Len(divs) - 1 THEN x <= divs[i + 1] ELSE x < divs[i + 1]

DivisionsTruthful(divs, labelParts) ==
  /\ Len(divs) = Len(labelParts) + 1
  /\ NonDecreasing(divs)
  /\ \A i \in DOMAIN labelParts : \A j \in DOMAIN labelParts[i] : InDivision(divs, i, labelParts[i][j])

LabelParts(pf) == [i \in DOMAIN pf.parts |-> Idxs(pf.parts[i])]
Truthful(pf)   == KnownDivs(pf) => DivisionsTruthful(pf.divs, LabelParts(pf))

\* the tightest divisions a layout of an index-sorted frame admits, if any:
\* d_{i-1} = first label of partition i, d_n = last label.  Only defined when
\* no partition is empty.
NaturalDivs(parts) ==
  [i \in 1..(Len(parts) + 1) |->
      IF i <= Len(parts) THEN parts[i][1].idx ELSE parts[Len(parts)][Len(parts[Len(parts)])].idx]
=============================================================================
