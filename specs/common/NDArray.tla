------------------------------ MODULE NDArray ------------------------------
(* Row-major n-d index arithmetic.  Arrays hold element ids; the id of a cell
   of the *source* array is its row-major (ravel) position, so a result that is
   a sequence of ids says exactly which source cell landed where.             *)
EXTENDS Chunks

\* all index tuples over extents e (each axis 1..e[d]), in row-major order
RECURSIVE Cart(_)
Cart(e) == IF e = <<>> THEN << <<>> >>
           ELSE LET rest == Cart(Tail(e)) IN
                FlattenSeq([i \in 1..Head(e) |-> [j \in 1..Len(rest) |-> <<i>> \o rest[j]]])

\* ravel position (0-based) of a 0-based index tuple in `shape`
RECURSIVE Ravel(_, _)
Ravel(shape, ix) == IF shape = <<>> THEN 0
                    ELSE Head(ix) * ProdSeq(Tail(shape)) + Ravel(Tail(shape), Tail(ix))

Size(shape) == ProdSeq(shape)
=============================================================================
