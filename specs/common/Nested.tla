------------------------------- MODULE Nested -------------------------------
(* Python container algebra shared by the collection-level specifications
   (C14): nested structures whose leaves are dask collections or plain values.

   A structure is a tree of records (every record has the tag k):
     leaves      [k |-> "coll",  c |-> i]          the i-th dask collection
                 [k |-> "plain", pv |-> n]         a plain integer
                 [k |-> "pstr",  ps |-> s]         a plain string
     sequences   [k |-> kind, xs |-> <<children>>]
                   kind in list, tuple, set, iter (a list iterator),
                           dc (dataclass DC(x, y)), nt (namedtuple NT(a, b))
                   (a set is written in construction order; it MEANS the set of its children)
     mappings    [k |-> kind, ks |-> <<key leaves>>, vs |-> <<children>>]
                   kind in dict, odict (collections.OrderedDict)
   After an operation a collection leaf may have become
                 [k |-> "val",  c |-> i]           the computed value of collection i
                 [k |-> "lazy", c |-> i]           a collection that computes to the value of
                                                   collection i (an observed one also carries md,
                                                   its type / shape of __dask_keys__ / metadata as
                                                   one string, to be compared with collection i's)
   Field names are tied to one type each, so TLC can compare any two nodes.   *)
EXTENDS Naturals, Sequences, FiniteSets

Coll(i)    == [k |-> "coll", c |-> i]
Plain(n)   == [k |-> "plain", pv |-> n]
PStr(s)    == [k |-> "pstr", ps |-> s]
SeqN(kind, xs)     == [k |-> kind, xs |-> xs]
MapN(kind, ks, vs) == [k |-> kind, ks |-> ks, vs |-> vs]
Val(i)     == [k |-> "val", c |-> i]
Lazy(i)    == [k |-> "lazy", c |-> i]

SeqKinds  == {"list", "tuple", "set", "iter", "dc", "nt"}
MapKinds  == {"dict", "odict"}
LeafKinds == {"coll", "plain", "pstr", "val", "lazy"}
IsLeaf(s) == s.k \in LeafKinds
IsSeqN(s) == s.k \in SeqKinds
IsMapN(s) == s.k \in MapKinds
\* what unpack_collections descends into (everything else is a leaf to it)
Traversed(s) == IsSeqN(s) \/ IsMapN(s)

RangeOf(q) == { q[i] : i \in DOMAIN q }

RECURSIVE Depth(_)
Depth(s) == IF IsLeaf(s) THEN 0
            ELSE IF IsSeqN(s) THEN 1 + (IF Len(s.xs) = 0 THEN 0 ELSE
                                          LET ds == { Depth(s.xs[i]) : i \in DOMAIN s.xs } IN CHOOSE d \in ds : \A e \in ds : e <= d)
            ELSE 1 + (IF Len(s.vs) = 0 THEN 0 ELSE
                        LET ds == { Depth(s.vs[i]) : i \in DOMAIN s.vs } IN CHOOSE d \in ds : \A e \in ds : e <= d)

RECURSIVE FlattenSeq(_)
\* concatenation of a sequence of sequences
FlattenSeq(ss) == IF Len(ss) = 0 THEN <<>> ELSE Head(ss) \o FlattenSeq(Tail(ss))

\* the collection ids of a structure in traversal order (a mapping is walked key, value, key, value ...)
RECURSIVE Flatten(_)
Flatten(s) ==
  IF s.k \in {"coll", "val", "lazy"} THEN <<s.c>>
  ELSE IF IsLeaf(s) THEN <<>>
  ELSE IF IsSeqN(s) THEN FlattenSeq([i \in DOMAIN s.xs |-> Flatten(s.xs[i])])
  ELSE FlattenSeq([i \in DOMAIN s.vs |-> Flatten(s.ks[i]) \o Flatten(s.vs[i])])

CollIds(s) == RangeOf(Flatten(s))

\* number of nodes
RECURSIVE Size(_)
RECURSIVE SumSeq(_)
SumSeq(q) == IF Len(q) = 0 THEN 0 ELSE Head(q) + SumSeq(Tail(q))
Size(s) == IF IsLeaf(s) THEN 1
           ELSE IF IsSeqN(s) THEN 1 + SumSeq([i \in DOMAIN s.xs |-> Size(s.xs[i])])
           ELSE 1 + SumSeq([i \in DOMAIN s.vs |-> Size(s.ks[i]) + Size(s.vs[i])])

\* the tags of all leaves of kind "coll" replaced by Leaf(i); everything else in place.
\* tag = "val": compute;  tag = "lazy": persist / optimize.  Iterators come back as lists.
NewLeaf(tag, i) == IF tag = "val" THEN Val(i) ELSE Lazy(i)
RECURSIVE MapColl(_, _)
MapColl(s, tag) ==
  IF s.k = "coll" THEN NewLeaf(tag, s.c)
  ELSE IF IsLeaf(s) THEN s
  ELSE IF IsSeqN(s) THEN [k |-> IF s.k = "iter" THEN "list" ELSE s.k, xs |-> [i \in DOMAIN s.xs |-> MapColl(s.xs[i], tag)]]
  ELSE [k |-> s.k, ks |-> [i \in DOMAIN s.ks |-> MapColl(s.ks[i], tag)], vs |-> [i \in DOMAIN s.vs |-> MapColl(s.vs[i], tag)]]

\* the same structure with every collection leaf, computed or not, forgotten (container kinds, order, plain leaves)
RECURSIVE Skeleton(_)
Skeleton(s) ==
  IF s.k \in {"coll", "val", "lazy"} THEN [k |-> "hole", c |-> s.c]
  ELSE IF IsLeaf(s) THEN s
  ELSE IF IsSeqN(s) THEN [k |-> IF s.k = "iter" THEN "list" ELSE s.k, xs |-> [i \in DOMAIN s.xs |-> Skeleton(s.xs[i])]]
  ELSE [k |-> s.k, ks |-> [i \in DOMAIN s.ks |-> Skeleton(s.ks[i])], vs |-> [i \in DOMAIN s.vs |-> Skeleton(s.vs[i])]]

\* comparison form: sets and dicts lose their order (an OrderedDict keeps it)
RECURSIVE Canon(_)
Canon(s) ==
  IF IsLeaf(s) \/ s.k = "hole" THEN s
  ELSE IF s.k = "set" THEN [k |-> "set", els |-> { Canon(s.xs[i]) : i \in DOMAIN s.xs }]
  ELSE IF IsSeqN(s) THEN [k |-> s.k, xs |-> [i \in DOMAIN s.xs |-> Canon(s.xs[i])]]
  ELSE IF s.k = "dict" THEN [k |-> "dict", kvs |-> { <<Canon(s.ks[i]), Canon(s.vs[i])>> : i \in DOMAIN s.vs }]
  ELSE [k |-> s.k, ks |-> [i \in DOMAIN s.ks |-> Canon(s.ks[i])], vs |-> [i \in DOMAIN s.vs |-> Canon(s.vs[i])]]

\* element at a path of 1-based child positions (values of mappings)
RECURSIVE NestedGet(_, _)
NestedGet(s, path) == IF Len(path) = 0 THEN s
                      ELSE NestedGet(IF IsSeqN(s) THEN s.xs[Head(path)] ELSE s.vs[Head(path)], Tail(path))
=============================================================================
