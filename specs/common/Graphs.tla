------------------------------- MODULE Graphs -------------------------------
(* Dependency graphs, shared by the graph-algorithm specifications (C06, C07, ...).

   A graph is a function g from its key set  Keys(g) = DOMAIN g  to dependency
   sets:  g[k] = the keys k refers to ("k depends on d", edge k -> d).  Keys are
   arbitrary values (the enumerations below use 1..n, so a graph over 1..n is
   also a sequence of sets).  A dependency set may mention keys outside
   DOMAIN g ("external" references); Deps(g, k) keeps only the internal ones.

   Nothing here knows about node kinds, values or task arguments: modules that
   need them carry an extra function next to g.                               *)
EXTENDS Naturals, Sequences, FiniteSets

Keys(g)          == DOMAIN g
Refs(g, k)       == g[k]                          \* everything k mentions
Deps(g, k)       == g[k] \cap DOMAIN g            \* dependencies inside the graph
External(g)      == (UNION { g[k] : k \in DOMAIN g }) \ DOMAIN g
Dependents(g, d) == { k \in DOMAIN g : d \in g[k] }
Edges(g)         == { <<k, d>> \in (DOMAIN g) \X (DOMAIN g) : d \in g[k] }
Roots(g)         == { k \in DOMAIN g : Deps(g, k) = {} }          \* no dependencies
Leaves(g)        == { k \in DOMAIN g : Dependents(g, k) = {} }    \* no dependents
Restrict(g, S)   == [k \in S |-> g[k] \cap S]     \* induced subgraph

\* keys reachable from the set S along dependency edges, S included (least fixpoint)
RECURSIVE ReachFrom(_, _)
ReachFrom(g, S) ==
  LET T == S \cup UNION { Deps(g, k) : k \in S \cap DOMAIN g }
  IN IF T = S THEN S ELSE ReachFrom(g, T)

\* transitive dependencies of k (k itself only if it lies on a cycle)
Ancestors(g, k)   == ReachFrom(g, Deps(g, k))
\* the part of the graph needed to compute `keys`
Needed(g, keys)   == ReachFrom(g, keys \cap DOMAIN g)

\* Kahn peeling: repeatedly drop the keys of S none of whose dependencies is in S.
\* What remains is the set of keys of S that lie on, or depend on, a cycle within S.
RECURSIVE Peel(_, _)
Peel(g, S) ==
  LET R == { k \in S : g[k] \cap S = {} }
  IN IF R = {} THEN S ELSE Peel(g, S \ R)

IsDag(g)          == Peel(g, DOMAIN g) = {}
HasCycle(g)       == ~IsDag(g)
\* is a cycle reachable (along dependencies) from the keys in S ?
CycleFrom(g, S)   == Peel(g, ReachFrom(g, S \cap DOMAIN g)) # {}
OnCycle(g, k)     == k \in Ancestors(g, k)

\* pos: a function Keys -> Nat.  "Every key comes after its dependencies."
RespectsDeps(g, pos) == \A k \in DOMAIN g : \A d \in Deps(g, k) : pos[k] > pos[d]
Injective(f)         == \A a, b \in DOMAIN f : a # b => f[a] # f[b]
\* s: a sequence of keys.  A linear extension = every key exactly once, dependencies first.
IsLinearExtension(g, s) ==
  /\ Len(s) = Cardinality(DOMAIN g)
  /\ { s[i] : i \in DOMAIN s } = DOMAIN g
  /\ \A i, j \in DOMAIN s : (s[i] \in Deps(g, s[j])) => i < j
\* c: a sequence of keys.  A closed dependency walk c[1] -> c[2] -> ... -> c[Len] = c[1].
IsCycle(g, c) ==
  /\ Len(c) >= 2
  /\ c[1] = c[Len(c)]
  /\ \A i \in 1..Len(c) : c[i] \in DOMAIN g
  /\ \A i \in 1..(Len(c) - 1) : c[i + 1] \in g[c[i]]

-----------------------------------------------------------------------------
(* Enumerations over the key set 1..n (graphs are then sequences of sets).
   Graphs are decoded from integer codes (one bit per possible edge): TLC walks
   an integer interval much faster than it builds sets of sequences of sets.   *)
Bit(c, b) == (c \div (2 ^ b)) % 2

\* DAGs on 1..n in canonical topological numbering: key i refers only to keys < i.
\* Every DAG is isomorphic to at least one of them.  One bit per pair j < i.
NumDagCodes(n)   == 2 ^ ((n * (n - 1)) \div 2)
PairIndex(i, j)  == ((i - 1) * (i - 2)) \div 2 + (j - 1)
DagOfCode(n, c)  == [i \in 1..n |-> { j \in 1..(i - 1) : Bit(c, PairIndex(i, j)) = 1 }]
AllDags(n)       == { DagOfCode(n, c) : c \in 0..(NumDagCodes(n) - 1) }
AllDagsArity(n, a) == { g \in AllDags(n) : \A i \in 1..n : Cardinality(g[i]) <= a }

\* every directed graph on 1..n, self-loops included: one bit per ordered pair
NumDigraphCodes(n)  == 2 ^ (n * n)
DigraphOfCode(n, c) == [i \in 1..n |-> { j \in 1..n : Bit(c, (i - 1) * n + (j - 1)) = 1 }]
AllDigraphs(n)      == { DigraphOfCode(n, c) : c \in 0..(NumDigraphCodes(n) - 1) }
AllCyclicGraphs(n)  == { g \in AllDigraphs(n) : HasCycle(g) }

\* renumbering: p is a bijection 1..n -> 1..n (a sequence); key i becomes p[i]
Renumber(g, p) == [j \in { p[i] : i \in DOMAIN g } |->
                     LET i == CHOOSE x \in DOMAIN g : p[x] = j IN { p[d] : d \in g[i] \cap DOMAIN g }]
=============================================================================
