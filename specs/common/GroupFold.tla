------------------------------ MODULE GroupFold ------------------------------
(* Grouping of the rows of a frame (module Frames) by key columns, and folds
   per group.  Shared vocabulary of the groupby specification (C38).

   A group key is the tuple of a row's cells in the key columns.  NA (= 99)
   in a key: with dropna the row belongs to no group, without it NA is a key
   value like any other (and, being 99, sorts last - as pandas puts it).
   For a CATEGORICAL key column the set of possible values (`cats`) is known
   beforehand; with observed = FALSE every category is a group, present in
   the data or not.                                                         *)
EXTENDS Frames

KeyOf(r, keys)    == [j \in DOMAIN keys |-> r[keys[j]]]
HasNAKey(r, keys) == \E j \in DOMAIN keys : r[keys[j]] = NA

\* strict lexicographic order of integer tuples of equal length
RECURSIVE TupleLess(_, _)
TupleLess(x, y) == IF x = <<>> THEN FALSE
                   ELSE IF Head(x) # Head(y) THEN Head(x) < Head(y)
                   ELSE TupleLess(Tail(x), Tail(y))

\* the rows that belong to some group
Grouped(rows, keys, dropna) == IF dropna THEN SelectSeq(rows, LAMBDA r : ~HasNAKey(r, keys)) ELSE rows

\* keys that occur / all keys (cats = {} : not categorical; otherwise single-key grouping and
\* cats = the categories, every <<c>> is a key when observed is FALSE)
SeenKeys(rows, keys, dropna) == { KeyOf(r, keys) : r \in SeqSet(Grouped(rows, keys, dropna)) }
GroupKeys(rows, keys, dropna, cats, observed) ==
  SeenKeys(rows, keys, dropna) \cup (IF observed THEN {} ELSE { <<c>> : c \in cats })

SortedKeys(S) == SetToSortSeq(S, TupleLess)

\* keys in order of first appearance (pandas sort=False)
FirstSeenKeys(rows, keys, dropna) ==
  LET g == Grouped(rows, keys, dropna)
      firsts == SelectSeq([i \in DOMAIN g |-> i], LAMBDA i : \A h \in 1..(i - 1) : KeyOf(g[h], keys) # KeyOf(g[i], keys))
  IN [i \in DOMAIN firsts |-> KeyOf(g[firsts[i]], keys)]

\* the rows of group g, in frame order
Members(rows, keys, g) == SelectSeq(rows, LAMBDA r : KeyOf(r, keys) = g)

\* one value per group: f applied to the member rows
GroupMap(rows, keys, dropna, cats, observed, f(_)) ==
  [g \in GroupKeys(rows, keys, dropna, cats, observed) |-> f(Members(rows, keys, g))]

\* one value per ROW: t(members, position of the row among them), NA-keyed rows under dropna get `none`
RowMap(rows, keys, dropna, t(_, _), none) ==
  [i \in DOMAIN rows |->
     IF dropna /\ HasNAKey(rows[i], keys) THEN none
     ELSE LET g == KeyOf(rows[i], keys)
              before == Cardinality({ h \in 1..i : KeyOf(rows[h], keys) = g })
          IN t(Members(rows, keys, g), before)]

\* every grouped row is a member of exactly one group
GroupsPartition(rows, keys, dropna) ==
  LET ks == SeenKeys(rows, keys, dropna)
      RECURSIVE Total(_)
      Total(S) == IF S = {} THEN 0 ELSE LET g == CHOOSE g \in S : TRUE IN Len(Members(rows, keys, g)) + Total(S \ {g})
  IN Total(ks) = Len(Grouped(rows, keys, dropna))
=============================================================================
