----------------------------- MODULE IndexMaps -----------------------------
(* Arrays as records [shape, cells] (cells = row-major sequence of values) and
   the generic machinery for defining array operations as index maps: the
   result is built cell by cell from a function of the 0-based output index
   tuple.  Used by the structural (C24) and creation (C34) specifications.    *)
EXTENDS NDArray

Arr(shape, cells) == [shape |-> shape, cells |-> cells]

\* source array whose cells are base+1, base+2, ... in row-major order
IdArr(shape, base) == Arr(shape, [j \in 1..Size(shape) |-> base + j])

\* all 0-based index tuples of `shape`, in row-major order
Idx0(shape) == IF Size(shape) = 0 THEN <<>>
               ELSE LET c == Cart(shape) IN [j \in DOMAIN c |-> [d \in DOMAIN shape |-> c[j][d] - 1]]

\* cell at 0-based index tuple ix
At(a, ix) == a.cells[Ravel(a.shape, ix) + 1]

\* the array of shape `oshape` whose cell at index tuple t is F(t)
Build(oshape, F(_)) == LET ix == Idx0(oshape) IN Arr(oshape, [j \in DOMAIN ix |-> F(ix[j])])

NDim(a) == Len(a.shape)

\* axis arguments: Python conventions
AxisOK(nd, ax)   == -nd <= ax /\ ax < nd
NormAxis(nd, ax) == IF ax < 0 THEN ax + nd ELSE ax

\* mathematical modulus (result in 0..b-1 for b > 0)
Mod(a, b) == ((a % b) + b) % b

\* sequence surgery, 1-based positions: RemoveAt(s, p) and InsertAt(s, p, v) (v lands at position p)
\* come from SequencesExt
SetAt(s, p, v)    == [s EXCEPT ![p] = v]
Ones(k)           == [j \in 1..k |-> 1]
Iota(n)           == [j \in 1..n |-> j - 1]

\* position (1-based) of value v in sequence s (v occurs exactly once)
PosOf(s, v) == CHOOSE p \in DOMAIN s : s[p] = v
IsPerm(s)   == {s[p] : p \in DOMAIN s} = 0..(Len(s) - 1)

RECURSIVE MaxOfSeq(_)
MaxOfSeq(c) == IF Len(c) = 1 THEN c[1]
               ELSE LET m == MaxOfSeq(Tail(c)) IN IF Head(c) >= m THEN Head(c) ELSE m
RECURSIVE MinOfSeq(_)
MinOfSeq(c) == IF Len(c) = 1 THEN c[1]
               ELSE LET m == MinOfSeq(Tail(c)) IN IF Head(c) <= m THEN Head(c) ELSE m

\* round-half-to-even of the non-negative rational num/den (den > 0)
RoundHalfEven(num, den) ==
  LET q == num \div den
      r == num % den
  IN IF 2 * r < den THEN q
     ELSE IF 2 * r > den THEN q + 1
     ELSE IF q % 2 = 0 THEN q ELSE q + 1

\* in a list of lengths, the (1-based) part and 0-based local offset of global position p
RECURSIVE Locate(_, _)
Locate(lens, p) == IF p < Head(lens) THEN <<1, p>>
                   ELSE LET r == Locate(Tail(lens), p - Head(lens)) IN <<r[1] + 1, r[2]>>
=============================================================================
