------------------------------- MODULE Terms -------------------------------
(* Task graphs over uninterpreted ("Herbrand") task functions, and the terms
   they denote.  Shared by C08 / C09 / C11 (DESIGN 1.3, 3).

   A graph is a function  key -> node,  node = [kind, f, args]:
       kind = "task"   f = label of the (uninterpreted) function, args = its arguments
       kind = "data"   args = <<a>>, the node's value is the value of a (normally a literal)
       kind = "alias"  args = <<Ref(target)>>
   An argument is one of
       [t |-> "ref",  k  |-> key]        reference to the value of key k
       [t |-> "lit",  v  |-> int]        a literal
       [t |-> "list", xs |-> <<args>>]   a list, evaluated elementwise
       [t |-> "call", f |-> label, xs |-> <<args>>]   a nested (anonymous) task
       [t |-> "dict", ks |-> <<strings>>, xs |-> <<args>>]   a dict with literal keys ks[i], values evaluated elementwise
   Keys and labels are strings; literals are small integers, so a literal can
   never be mistaken for a key.

   Values are *tagged* records, so any two values can be compared by TLC
   (comparing an integer with a string or record is a TLC error):
       [t |-> "lit", v]  [t |-> "str", s]  [t |-> "list", xs]  [t |-> "tuple", xs]
       [t |-> "set", els (a set)]  [t |-> "dict", kv (a set of <<key-value, value>>)]
   (no two kinds of value share their field names unless the fields hold the same
    type: TLC would raise an error when it compares, say, a sequence with a set)
       [t |-> "app", f, a]      the term  f(a[1], ..., a[n])
   The value of a task is the term headed by its own label: any wrong, missing,
   reordered or stale argument changes the term.                              *)
EXTENDS Naturals, Sequences, FiniteSets, TLC

\* ---- constructors
Ref(k)    == [t |-> "ref", k |-> k]
Lit(v)    == [t |-> "lit", v |-> v]
ListA(xs) == [t |-> "list", xs |-> xs]
CallA(f, xs) == [t |-> "call", f |-> f, xs |-> xs]
DictA(ks, xs) == [t |-> "dict", ks |-> ks, xs |-> xs]

TaskN(f, args) == [kind |-> "task", f |-> f, args |-> args]
DataN(a)       == [kind |-> "data", f |-> "", args |-> <<a>>]
AliasN(k)      == [kind |-> "alias", f |-> "", args |-> <<Ref(k)>>]

VLit(v)     == [t |-> "lit", v |-> v]
VStr(s)     == [t |-> "str", s |-> s]
VList(xs)   == [t |-> "list", xs |-> xs]
VTuple(xs)  == [t |-> "tuple", xs |-> xs]
VSet(S)     == [t |-> "set", els |-> S]
VDict(kv)   == [t |-> "dict", kv |-> kv]
VApp(f, a)  == [t |-> "app", f |-> f, a |-> a]

Range(s) == {s[i] : i \in DOMAIN s}

\* ---- references and dependency maps
RECURSIVE ArgRefs(_)
ArgRefs(a) == CASE a.t = "ref"  -> {a.k}
                [] a.t \in {"list", "call", "dict"} -> UNION {ArgRefs(a.xs[i]) : i \in DOMAIN a.xs}
                [] OTHER        -> {}

Refs(node)  == UNION {ArgRefs(node.args[i]) : i \in DOMAIN node.args}
Deps(g, k)  == Refs(g[k])
DepMap(g)   == [k \in DOMAIN g |-> Refs(g[k])]

\* A dependency map D is any function key -> set of keys (keys outside DOMAIN D are dangling).
ClosedD(D)  == \A k \in DOMAIN D : D[k] \subseteq DOMAIN D

RECURSIVE ReachD(_, _)
ReachD(D, S) == LET S2 == S \cup UNION {D[k] : k \in S \cap DOMAIN D}
                IN IF S2 = S THEN S ELSE ReachD(D, S2)

\* no key reaches itself through one or more dependency steps
IsDagD(D)   == \A k \in DOMAIN D : k \notin ReachD(D, D[k])

Closed(g)   == ClosedD(DepMap(g))
IsDag(g)    == IsDagD(DepMap(g))
\* keys needed to compute `keys`: least set containing them and closed under Deps
Needed(g, keys) == ReachD(DepMap(g), keys)
Dependents(g, k) == {p \in DOMAIN g : k \in Deps(g, p)}

WellFormed(g) ==
  /\ Closed(g) /\ IsDag(g)
  /\ \A k \in DOMAIN g :
       /\ g[k].kind \in {"task", "data", "alias"}
       /\ g[k].kind = "data"  => Len(g[k].args) = 1
       /\ g[k].kind = "alias" => (Len(g[k].args) = 1 /\ g[k].args[1].t = "ref")

\* ---- denotation (defined on closed acyclic graphs)
RECURSIVE Denote(_, _), DenoteArg(_, _)
DenoteArg(g, a) == CASE a.t = "ref"  -> Denote(g, a.k)
                     [] a.t = "lit"  -> VLit(a.v)
                     [] a.t = "list" -> VList([i \in DOMAIN a.xs |-> DenoteArg(g, a.xs[i])])
                     [] a.t = "call" -> VApp(a.f, [i \in DOMAIN a.xs |-> DenoteArg(g, a.xs[i])])
                     [] a.t = "dict" -> VDict({<<VStr(a.ks[i]), DenoteArg(g, a.xs[i])>> : i \in DOMAIN a.xs})
Denote(g, k) == LET n == g[k] IN
                CASE n.kind = "task"  -> VApp(n.f, [i \in DOMAIN n.args |-> DenoteArg(g, n.args[i])])
                  [] n.kind = "data"  -> DenoteArg(g, n.args[1])
                  [] n.kind = "alias" -> Denote(g, n.args[1].k)

\* JSON has no sets: a value read from a recorded observation carries its set / dict payload as a
\* sequence; this turns it into the value the semantics speaks about.
RECURSIVE ValFromJson(_)
ValFromJson(v) ==
  CASE v.t = "set"   -> VSet({ValFromJson(v.els[i]) : i \in DOMAIN v.els})
    [] v.t = "dict"  -> VDict({<<ValFromJson(v.kv[i][1]), ValFromJson(v.kv[i][2])>> : i \in DOMAIN v.kv})
    [] v.t \in {"list", "tuple"} -> [t |-> v.t, xs |-> [i \in DOMAIN v.xs |-> ValFromJson(v.xs[i])]]
    [] v.t = "app"   -> IF "kw" \in DOMAIN v
                        THEN [t |-> "app", f |-> v.f, a |-> [i \in DOMAIN v.a |-> ValFromJson(v.a[i])],
                              kw |-> [i \in DOMAIN v.kw |-> <<v.kw[i][1], ValFromJson(v.kw[i][2])>>]]
                        ELSE VApp(v.f, [i \in DOMAIN v.a |-> ValFromJson(v.a[i])])
    [] OTHER         -> v
=============================================================================
