-------------------------- MODULE DelayedProgTrace --------------------------
(* C15, code -> spec: each record is one program built with dask.delayed and
   what was observed on the real objects:

     r.prog           the program (nodes as in DelayedProg)
     r.obs.raised     "" or the name of the exception raised while building / computing
     r.obs.vals       per node: the value it computed to when ALL Delayed nodes of the program were handed
                      to one dask.compute (tagged JSON values; [t |-> "none"] for plain nodes)
     r.obs.seen       per node: its value was observed (all Delayed nodes, or only the last one)
     r.obs.keys       per node: class number of its .key (first node with the same key), 0 = plain node
     r.obs.named      per node: the key equals the dask_key_name given (TRUE where none was given)
     r.obs.nouts      per node: len() of the Delayed and the number of elements iteration gave
                      equal the nout given (TRUE where the node is not an nout call)
     r.ref            per node: its value in the EAGER Python program ([t |-> "err"] if that raised):
                      the reference guard - a disagreement with Vals is reported as clause "Guard",
                      which the harness treats as a machinery error

   TLC evaluates the program itself (Vals, Idents) and decides the clauses.     *)
EXTENDS DelayedProg, TraceIO

\* JSON has no sets: sets and dicts arrive as arrays
RECURSIVE Conv(_)
Conv(o) ==
  CASE o.t \in {"list", "tuple"} -> [t |-> o.t, xs |-> [i \in DOMAIN o.xs |-> Conv(o.xs[i])]]
    [] o.t = "set"   -> SetV({ Conv(o.els[i]) : i \in DOMAIN o.els })
    [] o.t = "dict"  -> DictV({ <<Conv(o.kvs[i][1]), Conv(o.kvs[i][2])>> : i \in DOMAIN o.kvs })
    [] o.t = "slice" -> SliceV(Conv(o.sa), Conv(o.sb), Conv(o.sc))
    [] o.t = "obj"   -> [t |-> "obj", of |-> [i \in DOMAIN o.of |-> Conv(o.of[i])]]
    [] o.t = "nt"    -> [t |-> "nt", nf |-> [i \in DOMAIN o.nf |-> Conv(o.nf[i])]]
    [] o.t = "app"   -> AppV(o.fn, [i \in DOMAIN o.ar |-> Conv(o.ar[i])], o.kn, [i \in DOMAIN o.kv |-> Conv(o.kv[i])])
    [] OTHER         -> o

ConvNode(nd) == [nd EXCEPT !.v = Conv(nd.v)]

Bad(r) ==
  LET p == [i \in DOMAIN r.prog |-> ConvNode(r.prog[i])]
      I == Info(p)
      n == Len(p)
      dl == { i \in DOMAIN p : I[i].d }
      fresh(i) == I[i].key.t = "uniq"
  IN IF ~(WellFormed(p) /\ Buildable(p) /\ I[n].d) THEN {"NotAProgram"}
     ELSE IF \E i \in DOMAIN p : Conv(r.ref[i]) # I[i].val THEN {"Guard"}
     ELSE IF \E i \in DOMAIN p : IsErr(I[i].val) THEN Clause("ErrorExpected", r.obs.raised # "")
     ELSE IF r.obs.raised # "" THEN {"UnexpectedRaise"}
     ELSE \* every Delayed node comes back with its own value, all of them computed in one dask.compute
          Clause("Value", r.obs.seen[n] /\ \A i \in DOMAIN p : r.obs.seen[i] => (I[i].d /\ Conv(r.obs.vals[i]) = I[i].val))
          \* plain nodes have no key; delayed nodes have one
          \cup Clause("Modes", \A i \in DOMAIN p : (r.obs.keys[i] # 0) <=> I[i].d)
          \* with pure=True (and for operators / attribute access): same key iff same call on equal arguments
          \cup Clause("PureKeys", \A i, j \in dl : (~fresh(i) /\ ~fresh(j))
                                    => ((r.obs.keys[i] = r.obs.keys[j]) <=> (I[i].key = I[j].key)))
          \* impure calls and objects wrapped without pure=True get a fresh key
          \cup Clause("FreshKeys", \A i, j \in dl : (i # j /\ fresh(i)) => r.obs.keys[i] # r.obs.keys[j])
          \cup Clause("KeyName", \A i \in DOMAIN p : r.obs.named[i])
          \cup Clause("Nout", \A i \in DOMAIN p : r.obs.nouts[i])

Init == TInit
Next == TNext(Bad)
=============================================================================
