----------------------------- MODULE RewriteMC -----------------------------
(* C51, spec -> code: TLC enumerates rule sets x ground terms and computes, from
   the contract of module Rewrite, the exact multiset iter_matches must yield and
   the set of results a top-level rewrite may return.

   Pools: ground terms of depth <= TDepth; patterns (terms over constants and
   variables, repeated variables included) of depth <= 1 ("P1") and <= 2 ("P2").
   Jobs: [k, pool, stride, offset]: rule sets of k patterns from the pool (all
   k-sequences, so equal patterns and both orders occur) x all terms, the
   mixed-radix codes c with c % stride = offset.  Rule i gets the right-hand side
   (h, r_i, <its variables>) so that the result shows which rule fired and how.  *)
EXTENDS Rewrite, SequencesExt, TLC, Json

CONSTANTS Jobs, TDepth

VARIABLES case, out

Apps(S)   == UNION { { <<fs>> \o a : a \in [1..Sig[fs] -> S] } : fs \in DOMAIN Sig }
GLeaves   == { <<c>> : c \in Consts }
Leaves    == { <<c>> : c \in Consts \cup Vars }
RECURSIVE Upto(_, _)
Upto(L, d) == IF d = 0 THEN L ELSE L \cup Apps(Upto(L, d - 1))

TermSeq   == SetToSeq(Upto(GLeaves, TDepth))
PatSeq1   == SetToSeq(Upto(Leaves, 1))        \* zero-arity constant definitions: TLC evaluates them once
PatSeq2   == SetToSeq(Upto(Leaves, 2))
PatSeq(p) == IF p = 1 THEN PatSeq1 ELSE PatSeq2
NT        == Len(TermSeq)

RuleConst == <<"r1", "r2", "r3", "r4">>
RhsOf(i, p) == <<"h", <<RuleConst[i]>>>> \o SetToSeq({ <<v>> : v \in VarsOf(p) })

RECURSIVE Pow(_, _)
Pow(b, e) == IF e = 0 THEN 1 ELSE b * Pow(b, e - 1)

NumCodes(j) == Pow(Len(PatSeq(j.pool)), j.k) * NT
Digit(c, base, pos) == (c \div Pow(base, pos)) % base
CaseOf(j, c) ==
  LET P == PatSeq(j.pool)
      np == Len(P)
      rc == c \div NT IN
  [rules |-> [i \in 1..j.k |-> LET p == P[Digit(rc, np, i - 1) + 1] IN [lhs |-> p, rhs |-> RhsOf(i, p)]],
   term  |-> TermSeq[(c % NT) + 1]]

Expected(c) == LET M == AllMatches(c.rules, c.term) IN
               [matches |-> { [i |-> m[1], s |-> m[2]] : m \in M },
                outs    |-> RewriteResults(c.rules, c.term, M)]

Slices == 16
CodesOf(j, s) == { c \in { q * j.stride + j.offset : q \in { x \in 0..(NumCodes(j) \div j.stride) : x % Slices = s } } :
                     c < NumCodes(j) }

Init == \E p \in DOMAIN Jobs : \E s \in 0..(Slices - 1) :
          /\ case = [seed |-> TRUE, p |-> p, s |-> s]
          /\ out = ""
Next == IF case.seed
        THEN \E c \in CodesOf(Jobs[case.p], case.s) :
               /\ case' = [seed |-> FALSE, c |-> CaseOf(Jobs[case.p], c)]
               /\ out' = ToJson([c |-> case'.c, e |-> Expected(case'.c)])
        ELSE UNCHANGED <<case, out>>

-----------------------------------------------------------------------------
(* design check of the contract *)
IsCase == ~case.seed
Rules  == case.c.rules
Term   == case.c.term
WellFormed      == IsCase => WF(Term) /\ Ground(Term) /\ \A i \in DOMAIN Rules : WF(Rules[i].lhs)
\* the structural matcher computes exactly the declarative set of the statement
MatcherAgrees   == IsCase => AllStructMatches(Rules, Term) = AllMatches(Rules, Term)
\* a pattern matches a term in at most one way
AtMostOne       == IsCase => \A i \in DOMAIN Rules : Cardinality(Matches(Rules[i].lhs, Term)) <= 1
\* not vacuous: instantiating a left-hand side gives a term it matches, with that substitution
SelfMatch       == IsCase => \A i \in DOMAIN Rules :
                     LET s == [v \in VarsOf(Rules[i].lhs) |-> Term] IN
                     s \in Matches(Rules[i].lhs, Subst(Rules[i].lhs, s))
\* the contract accepts the expected answer and rejects a dropped / a spurious match
ContractSharp   == IsCase =>
                     LET M == AllMatches(Rules, Term)
                         y == SetToSeq(M) IN
                     /\ IterMatchesOK(Rules, Term, y)
                     /\ (M # {} => ~IterMatchesOK(Rules, Term, Tail(y)))
                     /\ (M # {} => ~IterMatchesOK(Rules, Term, y \o <<y[1]>>))
                     /\ \A r \in RewriteResults(Rules, Term, M) : RewriteOK(Rules, Term, r)
                     /\ (M # {} => ~RewriteOK(Rules, Term, Term))
=============================================================================
