--------------------------- MODULE BlockwiseAnnMC ---------------------------
(* C10, annotations of fused blockwise layers: design check of FuseAnn (module
   Blockwise) over every combination of the five special annotation keys, and
   enumeration of annotation sequences for the replay (a chain / fork of up to
   three elementwise layers carrying them is fused by optimize_blockwise).

   TLC grows the sequence `anns` level by level.  Mode "perkey": only one key
   varies, over its whole domain, the others are absent (exhaustive per key);
   mode "mixed": all keys vary, candidates are thinned by a seeded hash.        *)
EXTENDS Blockwise, Json, SequencesExt

CONSTANTS Mode, MaxLayers, Mods, Salt

VARIABLES anns, out, h

PriS == << <<>>, <<1>>, <<2>> >>
RetS == << <<>>, <<0>>, <<3>> >>
ResS == << <<>>, << <<[r |-> "GPU", v |-> 1]>> >>, << <<[r |-> "GPU", v |-> 2], [r |-> "MEM", v |-> 1]>> >>,
           << <<[r |-> "MEM", v |-> 3]>> >> >>
WrkS == << <<>>, << <<"a">> >>, << <<"a", "b">> >>, << <<"b", "c">> >> >>
AowS == << <<>>, <<TRUE>>, <<FALSE>> >>

AnnOf(x) == [pri |-> PriS[x[1]], ret |-> RetS[x[2]], res |-> ResS[x[3]], wrk |-> WrkS[x[4]], aow |-> AowS[x[5]]]
Feat(x)  == x[1] + 3 * x[2] + 9 * x[3] + 36 * x[4] + 144 * x[5]

AllIdx == (1..3) \X (1..3) \X (1..4) \X (1..4) \X (1..3)
\* key number k varies, the rest is absent
PerKey(k) == {x \in AllIdx : \A j \in 1..5 : j # k => x[j] = 1}

Cands(lvl, hh, key) ==
  IF Mode = "perkey" THEN PerKey(key)
  ELSE {x \in AllIdx : ((hh * 37 + Feat(x) + Salt) % Mods[lvl]) = 0}

\* the fused record itself
OptSeq(S) == IF S = {} THEN <<>> ELSE <<CHOOSE x \in S : TRUE>>
FuseRec(as) == [pri |-> OptSeq(FusePri(as)), ret |-> OptSeq(FuseRet(as)), aow |-> OptSeq(FuseAow(as)),
                res |-> IF Having(as, "res") = {} THEN <<>> ELSE <<SetToSeq(FuseRes(as))>>,
                wrk |-> IF Having(as, "wrk") = {} THEN <<>> ELSE <<SetToSeq(FuseWrk(as))>>]

VARIABLE key       \* perkey mode: which key varies (0 in mixed mode)

Init == /\ anns = <<>> /\ out = "" /\ h = 0
        /\ key \in (IF Mode = "perkey" THEN 1..5 ELSE {0})

Next == /\ Len(anns) < MaxLayers
        /\ \E x \in Cands(Len(anns) + 1, h, key) :
             /\ anns' = Append(anns, AnnOf(x))
             /\ h' = (h * 37 + Feat(x)) % 10007
             /\ out' = IF Len(anns') >= 2 THEN ToJson([anns |-> anns', fused |-> FuseRec(Range(anns'))]) ELSE ""
        /\ UNCHANGED key

\* ---------------------------------------------------------------- design check
As == Range(anns)
\* the record builder and the acceptance predicate agree
FuseConsistent == Len(anns) > 0 => FuseAnnOK(FuseRec(As), As)
\* fused annotations never loosen a constraint of any member
NeverLoosens == \A a \in As : NoLooser(FuseRec(As), a)
\* fusing one layer changes nothing
Idempotent == Len(anns) = 1 => FuseAnnOK(anns[1], As)
\* fusing in two steps gives the same annotations as fusing at once
Associative == Len(anns) = 3 =>
   FuseAnnOK(FuseRec({FuseRec({anns[1], anns[2]}), anns[3]}), As)
   /\ FuseAnnOK(FuseRec({anns[1], FuseRec({anns[2], anns[3]})}), As)
\* it does not tighten beyond the members either: each fused entry comes from some member
Tight == Len(anns) > 0 =>
   LET o == FuseRec(As) IN
   /\ Len(o.pri) = 1 => \E a \in Having(As, "pri") : a.pri[1] = o.pri[1]
   /\ Len(o.ret) = 1 => \E a \in Having(As, "ret") : a.ret[1] = o.ret[1]
   /\ \A y \in ResOf(o) : \E a \in As : y \in ResOf(a)
=============================================================================
