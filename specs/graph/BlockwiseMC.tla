---------------------------- MODULE BlockwiseMC ----------------------------
(* Case enumeration + design check for C10 (spec -> code).  TLC grows stacks of
   blockwise layers level by level (Next adds one well-formed layer built from a
   menu of index patterns over every choice of argument collections); every
   state with at least one layer is one case and carries, in `out`, the stack,
   the term every block denotes, the dependencies of every block and, for a
   family of requests, what culling must keep.  The invariants check the
   reference itself.                                                          *)
EXTENDS Blockwise, Json, Randomization, SequencesExt

CONSTANTS LeafConfs,   \* set of leaf configurations (each a sequence of [name, nb])
          Consts,      \* sequence of constant key names available to "key" arguments
          Pats,        \* set of patterns [id, oi, ais, nax]: number, output index, argument indices, new-axis indices
          NewN,        \* numbers of blocks a new axis may have
          Decos,       \* subset of {"none", "lit", "ref", "alias", "bidx"}: extra argument of a layer
          MaxLayers,   \* stack height
          Mods,        \* per level m: keep a candidate layer iff its (seeded, deterministic) hash is 0 modulo m; 1 = all
          PatMods,     \* per level m: expand a pattern at all only iff its hash (with the parent's) is 0 modulo m
          Salt,        \* seed of that hash
          ReqCap       \* every non-empty subset of the top layer's blocks is requested up to this many blocks

VARIABLES st, out, h      \* h: hash of the stack (only used to spread the sample)

NoAnn == [pri |-> <<>>, ret |-> <<>>, res |-> <<>>, wrk |-> <<>>, aow |-> <<>>]
Arg(k, name, ind, nb, v, sp) == [k |-> k, name |-> name, ind |-> ind, nb |-> nb, v |-> v, sp |-> sp]

CollNames(s) == LeafNames(s) \cup LayerNames(s)

\* every way of binding the argument indices ais to collections of the right rank
RECURSIVE ArgTuples(_, _)
ArgTuples(s, ais) ==
  IF Len(ais) = 0 THEN {<<>>}
  ELSE { <<Arg("coll", n, Head(ais), NBOf(s, n), 0, "")>> \o r :
           n \in {m \in CollNames(s) : Len(NBOf(s, m)) = Len(Head(ais))}, r \in ArgTuples(s, Tail(ais)) }

RECURSIVE NaxChoices(_)
NaxChoices(ixs) == IF Len(ixs) = 0 THEN {<<>>}
                   ELSE { <<[ix |-> Head(ixs), n |-> n]>> \o r : n \in NewN, r \in NaxChoices(Tail(ixs)) }

Bare(name, p, as, nx, cc) == [out |-> name, oi |-> p.oi, args |-> as, nax |-> nx, conc |-> cc, ann |-> NoAnn]

Deco(L, d) ==
  CASE d = "none"  -> L
    [] d = "lit"   -> [L EXCEPT !.args = Append(@, Arg("lit", "", <<>>, <<>>, 7, ""))]
    [] d = "ref"   -> [L EXCEPT !.args = <<Arg("key", Consts[1], <<>>, <<>>, 0, "ref")>> \o @]
    [] d = "alias" -> [L EXCEPT !.args = Append(@, Arg("key", Consts[1], <<>>, <<>>, 0, "alias"))]
    [] d = "bidx"  -> [L EXCEPT !.args = Append(@, Arg("bidx", "", L.oi, OutNB(L), 0, ""))]

HasDummies(p) == \E i \in DOMAIN p.ais : \E q \in DOMAIN p.ais[i] : p.ais[i][q] \notin Range(p.oi)

DecoIdx(d) == CASE d = "none" -> 0 [] d = "lit" -> 1 [] d = "ref" -> 2 [] d = "alias" -> 3 [] d = "bidx" -> 4

\* position of a collection in the stack (leaves first)
NameIdx(s, n) == IF n \in LeafNames(s) THEN CHOOSE i \in DOMAIN s.leaves : s.leaves[i].name = n
                 ELSE Len(s.leaves) + (CHOOSE i \in DOMAIN s.layers : s.layers[i].out = n)
RECURSIVE SumF(_, _)
SumF(f, i) == IF i > Len(f) THEN 0 ELSE f[i] + SumF(f, i + 1)
Feature(s, p, as, nx, cc, d) ==
  p.id * 31 + SumF([i \in DOMAIN as |-> (i * 7 + NameIdx(s, as[i].name)) * 13], 1)
  + SumF([i \in DOMAIN nx |-> nx[i].n * 11], 1) + (IF cc THEN 3 ELSE 0) + DecoIdx(d) * 5
Kept(hh, lvl, f) == ((hh * 37 + f + Salt) % Mods[lvl]) = 0
PatKept(hh, lvl, p) == ((hh * 13 + p.id * 7 + Salt) % PatMods[lvl]) = 0

\* candidates: [L |-> layer, f |-> feature]
NewLayers(s, hh) ==
  LET name == "L" \o ToString(Len(s.layers) + 1)
      lvl  == Len(s.layers) + 1 IN
  UNION { { [L |-> Deco(x.L, x.d), f |-> x.f] :
            x \in { y \in { [L |-> Bare(name, p, as, nx, cc), d |-> d, f |-> Feature(s, p, as, nx, cc, d)] :
                              as \in ArgTuples(s, p.ais), nx \in NaxChoices(p.nax),
                              cc \in (IF HasDummies(p) THEN BOOLEAN ELSE {FALSE}), d \in Decos }
                     : Kept(hh, lvl, y.f) /\ LayerOK(y.L) } }
          : p \in {q \in Pats : PatKept(hh, lvl, q)} }

Push(s, L) == [s EXCEPT !.layers = Append(@, L)]

\* ---------------------------------------------------------------- requests
TopKeys(s)  == LET T == s.layers[Len(s.layers)] IN {Key(T.out, c) : c \in OutBlocks(T)}
LowKeys(s)  == UNION { {Key(s.layers[i].out, c) : c \in OutBlocks(s.layers[i])} : i \in 1..(Len(s.layers) - 1) }
FirstTop(s) == LET T == s.layers[Len(s.layers)] IN Key(T.out, OutBlockSeq(T)[1])
ReqFamily(s) ==
  LET ks == TopKeys(s) IN
  (IF Cardinality(ks) <= ReqCap THEN (SUBSET ks) \ {{}}
   ELSE {{k} : k \in ks} \cup {ks \ {k} : k \in ks} \cup {ks})
  \cup {{FirstTop(s), k} : k \in LowKeys(s)}        \* requests that span two layers

\* ---------------------------------------------------------------- export
DenExport(s) == LET d == Den(s) IN
  [n \in CollNames(s) |-> LET bs == BoxSeq(NBOf(s, n)) IN [i \in DOMAIN bs |-> d[n][bs[i]]]]
DepsExport(s) ==
  [n \in LayerNames(s) |-> LET L == LayerOf(s, n) bs == OutBlockSeq(L) IN [i \in DOMAIN bs |-> Deps(L, bs[i])]]
Export(s) == LET ps == Prep(s) IN
             [st |-> s, den |-> DenExport(ps), deps |-> DepsExport(ps),
              reqs |-> {[req |-> r, cull |-> Cull(ps, r)] : r \in ReqFamily(ps)}]

Init == /\ st \in {[leaves |-> lc, consts |-> Consts, layers |-> <<>>] : lc \in LeafConfs}
        /\ out = ""
        /\ h = Len(st.leaves[1].nb) + SumF(st.leaves[1].nb, 1) * 3 + SumF(st.leaves[Len(st.leaves)].nb, 1) * 5

Next == /\ Len(st.layers) < MaxLayers
        /\ \E x \in NewLayers(st, h) :
             /\ st' = Push(st, x.L)
             /\ h' = (h * 37 + x.f) % 10007
             /\ out' = ToJson(Export(st'))

\* ---------------------------------------------------------------- design check
WellFormed == StackOK(st)
\* every dependency is a block that exists (in particular: coordinate 0 on a one-block axis)
DepsInRange == LET ps == Prep(st) IN
  \A i \in DOMAIN ps.layers : \A c \in OutBlocks(ps.layers[i]) : Deps(ps.layers[i], c) \subseteq AllKeys(ps)
\* dependencies only point downwards
DepsAcyclic == \A i \in DOMAIN st.layers : \A c \in OutBlocks(st.layers[i]) :
                 \A k \in Deps(st.layers[i], c) : k.n \notin {st.layers[j].out : j \in i..Len(st.layers)}
\* Cull is the least closed set: contains the request, closed, and distributes over union
CullLeast == Len(st.layers) > 0 =>
  LET ps == Prep(st) IN
  \A r \in ReqFamily(ps) :
     LET C == Cull(ps, r) IN
     /\ r \subseteq C /\ C \subseteq AllKeys(ps)
     /\ \A k \in C : DepsOfKey(ps, k) \subseteq C
     /\ C = UNION {Cull(ps, {k}) : k \in r}
\* the number of output blocks is the product of the dims of the output indices
OutCount == \A i \in DOMAIN st.layers :
              LET L == st.layers[i] IN /\ Cardinality(OutBlocks(L)) = Len(OutBlockSeq(L))
                                       /\ NumKeys(st) = Cardinality(AllKeys(st))
=============================================================================
