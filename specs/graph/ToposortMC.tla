----------------------------- MODULE ToposortMC -----------------------------
(* C07: TLC runs the transcription of _toposort (ToposortImpl) on every digraph
   of the plan, for toposort (all keys, any order) and for getcycle with every
   start-key subset, under every iteration order the Python code leaves open.
   Every terminal state exports one (call, outcome) pair: the set of outcomes the
   transcription allows for that call.  Invariants: transcription => contract.

   Plan: sequence of jobs [n, stride, offset]: the digraph codes gc of n nodes
   with gc % stride = offset.                                                 *)
EXTENDS ToposortImpl, TLC, Json

CONSTANTS Plan

VARIABLE out
vars == <<tvars, out>>

Codes(j) == { gc \in { q * j.stride + j.offset : q \in 0..(NumDigraphCodes(j.n) \div j.stride) } :
                gc < NumDigraphCodes(j.n) }

Init == \E p \in DOMAIN Plan : \E gc \in Codes(Plan[p]) :
          LET n == Plan[p].n
              graph == DigraphOfCode(n, gc) IN
          /\ \E nb \in {"written", "repaired"} :
               \/ ImplInit(graph, "toposort", 1..n, nb)
               \/ \E S \in SUBSET (1..n) : ImplInit(graph, "getcycle", S, nb)
          /\ out = ""

Export == ToJson([n |-> Len(g), deps |-> g, fn |-> fn, keys |-> start, nb |-> numbering, o |-> result])

Next == \/ (Outer \/ Inner) /\ out' = IF pc' = "done" THEN Export' ELSE ""
        \/ pc = "done" /\ UNCHANGED vars

\* the contract accepts what the transcription returns - and is not vacuous: it rejects
\* the empty answer / the reversed order whenever those are wrong
ContractRejects ==
  (pc = "done" /\ fn = "getcycle" /\ CycleFrom(g, start)) => ~Accepts(g, fn, start, [res |-> "cycle", c |-> <<>>])
ReversedRejected ==
  (Returned /\ fn = "toposort" /\ result.res = "ok" /\ Edges(g) # {}) =>
     ~Accepts(g, fn, start, [res |-> "ok", order |-> Reverse(result.order)])
=============================================================================
