----------------------------- MODULE NodeEqTrace -----------------------------
(* C11, code -> spec: one record per pair of real nodes
     [id, x, y, o = [eq, teq, vx, vy]]
   x, y = the two expressions the nodes were built from; eq = (node_x == node_y),
   teq = (tokenize(node_x) == tokenize(node_y)); vx / vy = the values the nodes
   computed under each environment of Envs.  TLC decides:
     Sound   eq or teq only if x and y evaluate alike in every environment
     EvalX / EvalY  the nodes computed what the semantics says (binding)            *)
EXTENDS TaskSpec, TraceIO

KA == VStr("a")
KB == VStr("b")
KC == VStr("c")
Keys == {KA, KB, KC}
Envs == << (KA :> VApp("va", <<>>)) @@ (KB :> VApp("vb", <<>>)) @@ (KC :> VApp("vc", <<>>)),
           (KA :> VApp("vb", <<>>)) @@ (KB :> VApp("va", <<>>)) @@ (KC :> VLit(1)) >>

RECURSIVE FromJ(_)
FromJ(v) ==
  CASE v.t = "set"   -> VSet({FromJ(v.els[i]) : i \in DOMAIN v.els})
    [] v.t = "dict"  -> VDict({<<FromJ(v.kv[i][1]), FromJ(v.kv[i][2])>> : i \in DOMAIN v.kv})
    [] v.t \in {"list", "tuple"} -> [t |-> v.t, xs |-> [i \in DOMAIN v.xs |-> FromJ(v.xs[i])]]
    [] v.t = "app"   -> VAppKw(v.f, [i \in DOMAIN v.a |-> FromJ(v.a[i])],
                               IF "kw" \in DOMAIN v THEN [i \in DOMAIN v.kw |-> <<v.kw[i][1], FromJ(v.kw[i][2])>>]
                               ELSE <<>>)
    [] OTHER         -> v

Vals(x) == [i \in DOMAIN Envs |-> EvalWith(Keys, Envs[i], x)]

Bad(r) ==
  Clause("Sound", Sound(r.o.eq, r.o.teq, SameOn(Keys, Envs, r.x, r.y)))
  \cup Clause("EvalX", [i \in DOMAIN r.o.vx |-> FromJ(r.o.vx[i])] = Vals(r.x))
  \cup Clause("EvalY", [i \in DOMAIN r.o.vy |-> FromJ(r.o.vy[i])] = Vals(r.y))

Init == TInit
Next == TNext(Bad)
=============================================================================
