-------------------------- MODULE CollectionsTrace --------------------------
(* C14, code -> spec: each record is one call of dask.compute / dask.persist /
   dask.optimize on an argument tuple, with the projection of what it returned:

     r.op        "compute" | "persist" | "optimize"
     r.args      the argument tuple (sequence of Nested structures)
     r.traverse  the traverse flag
     r.obs.raised   "" or the name of the exception
     r.colls     per collection i its type, shape of __dask_keys__ and metadata as one string
                 (array: shape / dtype / chunks / name kind; bag: npartitions / name kind; dataframe:
                 columns / dtypes / divisions / npartitions; Delayed: the declared length - len() or
                 "no length" - and what tuple unpacking gives)
     r.obs.res      the returned tuple projected back to structures: container kinds and
                    order as found, computed values as [k |-> "val", c |-> i] (i = the collection
                    whose value, computed alone, it equals; 0 = none), returned collections as
                    [k |-> "lazy", c |-> i, md |-> the same string observed on the returned object]
                    (an untouched original: [k |-> "coll", c])

   TLC decides every record against Collections!Expected.  Leniency that the
   statement leaves: an untouched collection where an equivalent new one is
   allowed (and vice versa), an iterator where the list of its items is allowed.  *)
EXTENDS Collections, TraceIO

\* JSON gives sequences; rebuild the set-valued comparison form directly
RECURSIVE Norm(_)
Norm(s) ==
  IF s.k \in {"coll", "lazy"} THEN Lazy(s.c)
  ELSE IF s.k \in {"plain", "pstr", "val", "other", "broken"} THEN s
  ELSE IF s.k = "set" THEN [k |-> "set", els |-> { Norm(s.xs[i]) : i \in DOMAIN s.xs }]
  ELSE IF s.k \in SeqKinds THEN [k |-> IF s.k = "iter" THEN "list" ELSE s.k, xs |-> [i \in DOMAIN s.xs |-> Norm(s.xs[i])]]
  ELSE IF s.k = "dict" THEN [k |-> "dict", kvs |-> { <<Norm(s.ks[i]), Norm(s.vs[i])>> : i \in DOMAIN s.vs }]
  ELSE [k |-> s.k, ks |-> [i \in DOMAIN s.ks |-> Norm(s.ks[i])], vs |-> [i \in DOMAIN s.vs |-> Norm(s.vs[i])]]

\* container kinds, order, plain leaves - which collection sits where is forgotten
RECURSIVE Shape(_)
Shape(s) ==
  IF s.k \in {"coll", "val", "lazy"} THEN [k |-> "hole"]
  ELSE IF s.k \in {"plain", "pstr", "other", "broken"} THEN s
  ELSE IF s.k = "set" THEN [k |-> "set", els |-> { Shape(s.xs[i]) : i \in DOMAIN s.xs }]
  ELSE IF s.k \in SeqKinds THEN [k |-> IF s.k = "iter" THEN "list" ELSE s.k, xs |-> [i \in DOMAIN s.xs |-> Shape(s.xs[i])]]
  ELSE IF s.k = "dict" THEN [k |-> "dict", kvs |-> { <<Shape(s.ks[i]), Shape(s.vs[i])>> : i \in DOMAIN s.vs }]
  ELSE [k |-> s.k, ks |-> [i \in DOMAIN s.ks |-> Shape(s.ks[i])], vs |-> [i \in DOMAIN s.vs |-> Shape(s.vs[i])]]

RECURSIVE LeavesOf(_)
LeavesOf(s) == IF s.k \in SeqKinds THEN UNION { LeavesOf(s.xs[i]) : i \in DOMAIN s.xs }
               ELSE IF s.k \in MapKinds THEN UNION { LeavesOf(s.ks[i]) \cup LeavesOf(s.vs[i]) : i \in DOMAIN s.vs }
               ELSE {s}

\* a leaf that stands for a collection / value: which state it is in (computed or lazy), ignoring which one
RECURSIVE States(_)
States(s) ==
  IF s.k \in {"coll", "lazy"} THEN [k |-> "L"]
  ELSE IF s.k = "val" THEN [k |-> "V"]
  ELSE IF s.k \in {"plain", "pstr", "other", "broken"} THEN s
  ELSE IF s.k = "set" THEN [k |-> "set", els |-> { States(s.xs[i]) : i \in DOMAIN s.xs }]
  ELSE IF s.k \in SeqKinds THEN [k |-> IF s.k = "iter" THEN "list" ELSE s.k, xs |-> [i \in DOMAIN s.xs |-> States(s.xs[i])]]
  ELSE IF s.k = "dict" THEN [k |-> "dict", kvs |-> { <<States(s.ks[i]), States(s.vs[i])>> : i \in DOMAIN s.vs }]
  ELSE [k |-> s.k, ks |-> [i \in DOMAIN s.ks |-> States(s.ks[i])], vs |-> [i \in DOMAIN s.vs |-> States(s.vs[i])]]

Bad(r) ==
  LET want == Expected(r.op, r.args, r.traverse)
      got  == r.obs.res
  IN IF r.obs.raised # "" THEN {"UnexpectedRaise"}
     ELSE IF Len(got) # Len(want) THEN {"Length"}
     ELSE \* container kinds, order, plain leaves, dict keys
          Clause("Structure", \A i \in DOMAIN want : Shape(got[i]) = Shape(want[i]))
          \* every collection leaf is in the right state: computed after compute, a collection after persist / optimize
          \cup Clause("State", \A i \in DOMAIN want : States(got[i]) = States(want[i]))
          \* a returned collection has the type, keys-shape and metadata of the one it replaces and can be computed
          \cup Clause("Lazy", \A i \in DOMAIN got : \A lf \in LeavesOf(got[i]) :
                                 /\ lf.k # "broken"
                                 /\ (lf.k = "lazy" => (lf.c \in DOMAIN r.colls /\ lf.md = r.colls[lf.c])))
          \* the right value / collection at the right position
          \cup Clause("Values", \A i \in DOMAIN want : Norm(got[i]) = Norm(want[i]))

Init == TInit
Next == TNext(Bad)
=============================================================================
