------------------------------ MODULE GraphOpt ------------------------------
(* C09 - contract of the low-level graph optimizations (Pattern B).

   An optimizer call  op(g, keys, params)  returns a graph g2 and possibly a
   dependency map.  The property constrains the result only through what can be
   observed of it - an *observation* is the record
       o = [raised  : "" or the exception type name,
            dom     : the set of keys of g2,
            refs    : [dom -> set of keys]   keys referenced by each node of g2,
            vals    : [requested key -> value] computed from g2 (dask.core.get),
            hasdeps : BOOLEAN, rdeps : [key -> set of keys]  the returned dependency map]
   Everything else about g2 - key names of fused tasks, which tasks are fused,
   inlined or kept, the order of entries - is left free.

   Optimize(op, g, keys, o) is the relation the property states:
     Present   every requested key is still a key of g2
     Values    computing a requested key from g2 gives Denote(g, key)
     Closed    every reference in g2 resolves in g2          (g2 is a graph)
     Acyclic   g2 has no cycle
     Deps      a returned dependency map has exactly the keys of g2 and maps each
               to the keys its node references
     CullDom   (cull only) the keys of g2 are exactly Needed(g, keys)          *)
EXTENDS Terms

CullOps == {"cull", "ts_cull"}

Cl(name, holds) == IF holds THEN {} ELSE {name}

Present(keys, o)     == keys \subseteq o.dom
ValuesOK(g, keys, o) == \A k \in keys : k \in DOMAIN o.vals /\ o.vals[k] = Denote(g, k)
ClosedOK(o)          == ClosedD(o.refs)
AcyclicOK(o)         == IsDagD(o.refs)
DepsOK(o)            == o.hasdeps => /\ DOMAIN o.rdeps = o.dom
                                     /\ \A k \in o.dom : o.rdeps[k] = o.refs[k]
CullExact(g, keys, o) == o.dom = Needed(g, keys)

\* names of the clauses an observation breaks
Broken(op, g, keys, o) ==
  IF o.raised # "" THEN {"Raised"}
  ELSE Cl("Present", Present(keys, o))
       \cup Cl("Values", ValuesOK(g, keys, o))
       \cup Cl("Closed", ClosedOK(o))
       \cup Cl("Acyclic", AcyclicOK(o))
       \cup Cl("Deps", DepsOK(o))
       \cup (IF op \in CullOps THEN Cl("CullDom", CullExact(g, keys, o)) ELSE {})

Optimize(op, g, keys, o) == Broken(op, g, keys, o) = {}

\* the observation a (specification-level) result graph g2 gives rise to
ObsOf(g2, keys, withdeps) ==
  [raised |-> "", dom |-> DOMAIN g2, refs |-> DepMap(g2),
   vals |-> [k \in keys \cap DOMAIN g2 |-> Denote(g2, k)],
   hasdeps |-> withdeps, rdeps |-> DepMap(g2)]

Restrict(g, S) == [k \in S \cap DOMAIN g |-> g[k]]

(* Specification-level optimizers, used by the design check (GraphOptMC) to show that the
   contract is satisfiable by the transformations the implementations are meant to be:
   culling to Needed, and inlining a key into its dependents (the step both `inline` and
   every kind of fusion are made of).                                                      *)
RECURSIVE SubstArg(_, _, _)
SubstArg(a, d, body) ==
  CASE a.t = "ref"  -> IF a.k = d THEN body ELSE a
    [] a.t = "list" -> ListA([i \in DOMAIN a.xs |-> SubstArg(a.xs[i], d, body)])
    [] a.t = "call" -> CallA(a.f, [i \in DOMAIN a.xs |-> SubstArg(a.xs[i], d, body)])
    [] a.t = "dict" -> DictA(a.ks, [i \in DOMAIN a.xs |-> SubstArg(a.xs[i], d, body)])
    [] OTHER        -> a

BodyOf(n) == IF n.kind = "task" THEN CallA(n.f, n.args) ELSE n.args[1]
NodeOf(a) == CASE a.t = "ref"  -> AliasN(a.k)
               [] a.t = "call" -> TaskN(a.f, a.xs)
               [] OTHER        -> DataN(a)

SubstNode(n, d, body) ==
  IF n.kind = "task" THEN TaskN(n.f, [i \in DOMAIN n.args |-> SubstArg(n.args[i], d, body)])
  ELSE NodeOf(SubstArg(n.args[1], d, body))

\* substitute the body of key d into every node that references it, then drop d
InlineKey(g, d) == [k \in DOMAIN g \ {d} |-> SubstNode(g[k], d, BodyOf(g[d]))]
=============================================================================
