------------------------------ MODULE Blockwise ------------------------------
(* C10 - stacks of blockwise layers over uninterpreted ("Herbrand") block
   functions: what every output block denotes, which blocks it depends on,
   what culling must keep, what a fused stack must still compute, and how the
   annotations of fused layers combine.  (Shared with C35: OutBlocks /
   ArgBlocks are the alignment rule of dask.blockwise.)

   A *stack* is  [leaves, consts, layers]:
     leaves  sequence of [name, nb (, ann)] materialized collections; block c of
                                             leaf A has the value "A(c1,..,cn)"
     consts  sequence of names               single (string) keys, value "c()"
     layers  sequence of layers, each referring only to earlier collections
   A *layer* is  [out, oi, args, nax, conc, ann]:
     out   name of the output collection     oi    output index (sequence of index names)
     args  sequence of arguments             nax   new axes: sequence of [ix, n] (n blocks)
     conc  concatenate=True                  ann   annotations (see FuseAnn)
   An *argument* is  [k, name, ind, nb, v]:
     k = "coll"  blocks of collection `name`, indexed by ind, which has nb blocks per axis
                 (this is the layer's own `numblocks` entry, as in dask)
     k = "bidx"  a BlockIndex io-dependency with numblocks nb: "block" c has the value [c1,..,cn]
     k = "lit"   the literal integer v (index None)
     k = "key"   the value of the constant key `name` (index None; TaskRef / Alias spelling)
   Keys are records [n |-> collection, c |-> block coordinates (0-based)].
   Values are strings (terms), so that TLC can compare any two of them:
   block c of layer L has the value  "L(arg1,..,argn)".                       *)
EXTENDS Naturals, Integers, Sequences, FiniteSets, TLC

Range(s) == {s[i] : i \in DOMAIN s}

RECURSIVE Join(_, _)
Join(ss, sep) == IF Len(ss) = 0 THEN ""
                 ELSE IF Len(ss) = 1 THEN ss[1]
                 ELSE ss[1] \o sep \o Join(Tail(ss), sep)

RECURSIVE Concat(_)
Concat(ss) == IF Len(ss) = 0 THEN <<>> ELSE Head(ss) \o Concat(Tail(ss))

IntStrs(c)        == [p \in DOMAIN c |-> ToString(c[p])]
Call(f, argstrs)  == f \o "(" \o Join(argstrs, ",") \o ")"
ListStr(strs)     == "[" \o Join(strs, ",") \o "]"
Key(n, c)         == [n |-> n, c |-> c]

\* ---------------------------------------------------------------- blocks of a collection
\* all block coordinates of a collection with nbs blocks per axis, row-major
RECURSIVE BoxSeq(_)
BoxSeq(nbs) == IF Len(nbs) = 0 THEN << <<>> >>
               ELSE LET rest == BoxSeq(Tail(nbs)) IN
                    Concat([h \in 1..Head(nbs) |-> [t \in DOMAIN rest |-> <<h - 1>> \o rest[t]]])
Box(nbs) == Range(BoxSeq(nbs))

\* ---------------------------------------------------------------- one layer
IsBlockArg(a)  == a.k \in {"coll", "bidx"}
BlockArgs(L)   == {p \in DOMAIN L.args : IsBlockArg(L.args[p])}
ArgInds(L)     == UNION {Range(L.args[p].ind) : p \in BlockArgs(L)}
CollInds(L)    == UNION {Range(L.args[p].ind) : p \in {p \in DOMAIN L.args : L.args[p].k = "coll"}}
NewInds(L)     == {L.nax[q].ix : q \in DOMAIN L.nax}
AllInds(L)     == ArgInds(L) \cup NewInds(L)
Dummies(L)     == AllInds(L) \ Range(L.oi)            \* contracted indices

\* the numbers of blocks the arguments declare for index ix
Sizes(L, ix) == UNION { {L.args[p].nb[q] : q \in {q \in DOMAIN L.args[p].ind : L.args[p].ind[q] = ix}}
                        : p \in BlockArgs(L) }
\* numblocks = 1 broadcasts against any other number of blocks
Eff(S) == IF Cardinality(S) > 1 THEN S \ {1} ELSE S
NewSize(L, ix) == {L.nax[q].n : q \in {q \in DOMAIN L.nax : L.nax[q].ix = ix}}
\* Dims: number of blocks along index ix
DimOfRaw(L, ix) == IF ix \in NewInds(L) THEN CHOOSE n \in NewSize(L, ix) : TRUE
                   ELSE CHOOSE n \in Eff(Sizes(L, ix)) : TRUE
Dims(L) == [ix \in AllInds(L) |-> DimOfRaw(L, ix)]
\* (evaluation speed only: a layer may carry its Dims in an extra field `dm`, see Prep)
WithDims(L)  == [dm |-> Dims(L)] @@ L
DimOf(L, ix) == IF "dm" \in DOMAIN L THEN L.dm[ix] ELSE DimOfRaw(L, ix)

LayerOK(L) ==
  /\ \A p \in BlockArgs(L) : /\ Len(L.args[p].ind) = Len(L.args[p].nb)
                             /\ \A q \in DOMAIN L.args[p].nb : L.args[p].nb[q] >= 1
  /\ \A p, q \in DOMAIN L.oi : p # q => L.oi[p] # L.oi[q]
  /\ Range(L.oi) \subseteq AllInds(L)
  /\ \A ix \in ArgInds(L) : Cardinality(Eff(Sizes(L, ix))) = 1
  /\ NewInds(L) \cap CollInds(L) = {}
  /\ NewInds(L) \subseteq Range(L.oi)
  /\ \A p, q \in DOMAIN L.nax : p # q => L.nax[p].ix # L.nax[q].ix
  /\ \A q \in DOMAIN L.nax : L.nax[q].n >= 1
  \* a contracted index occurs at most once in an argument; a BlockIndex is never contracted
  /\ \A p \in BlockArgs(L) : \A q1, q2 \in DOMAIN L.args[p].ind :
        (q1 # q2 /\ L.args[p].ind[q1] = L.args[p].ind[q2]) => L.args[p].ind[q1] \in Range(L.oi)
  /\ \A p \in BlockArgs(L) : L.args[p].k = "bidx" => Range(L.args[p].ind) \subseteq Range(L.oi)

OutNB(L)     == [p \in DOMAIN L.oi |-> DimOf(L, L.oi[p])]
OutBlocks(L) == Box(OutNB(L))
OutBlockSeq(L) == BoxSeq(OutNB(L))

\* coordinate of output block c along output index ix
CoordOf(L, c, ix) == c[CHOOSE p \in DOMAIN L.oi : L.oi[p] = ix]

\* block coordinates argument a may take at axis q when output block c is computed:
\*   an axis with one block broadcasts to block 0; an output index takes the output
\*   coordinate; a contracted index takes all blocks
AxisCoords(L, a, c, q) ==
  IF a.nb[q] = 1 THEN {0}
  ELSE IF a.ind[q] \in Range(L.oi) THEN {CoordOf(L, c, a.ind[q])}
  ELSE 0..(DimOf(L, a.ind[q]) - 1)

\* all tuples t with t[q] \in sets[q]
RECURSIVE ProdSets(_)
ProdSets(sets) == IF Len(sets) = 0 THEN {<<>>}
                  ELSE {<<h>> \o t : h \in Head(sets), t \in ProdSets(Tail(sets))}

\* ArgBlocks: the blocks of argument a that output block c reads
ArgBlocks(L, a, c) == ProdSets([q \in DOMAIN a.ind |-> AxisCoords(L, a, c, q)])

ArgDeps(L, a, c) == CASE a.k = "coll" -> {Key(a.name, pc) : pc \in ArgBlocks(L, a, c)}
                      [] a.k = "key"  -> {Key(a.name, <<>>)}
                      [] OTHER        -> {}
\* Deps: the keys block c of layer L reads
Deps(L, c) == UNION {ArgDeps(L, L.args[p], c) : p \in DOMAIN L.args}

\* ---------------------------------------------------------------- what the block function is handed
HasDummy(L, a) == \E q \in DOMAIN a.ind : a.ind[q] \notin Range(L.oi)

\* how many entries the list for axis q of argument a has.  (As implemented by
\* _get_coord_mapping: a contracted index over an axis with ONE block repeats block 0 once per
\* block of the index - except with concatenate=True, where it is taken once.)
Reps(L, a, q) == IF a.ind[q] \in Range(L.oi) THEN 1
                 ELSE IF a.nb[q] = 1 /\ L.conc THEN 1
                 ELSE DimOf(L, a.ind[q])

RECURSIVE ProdReps(_, _, _)
ProdReps(L, a, q) == IF q > Len(a.ind) THEN 1 ELSE Reps(L, a, q) * ProdReps(L, a, q + 1)

\* mode "list": one list level per contracted axis (nested in axis order), nothing else;
\* mode "full": the blocks were concatenated - one list level per axis of the argument;
\* mode "flat": a single block, handed over as it is.
RECURSIVE Nest(_, _, _, _, _, _)
Nest(L, a, c, blk, pc, mode) ==
  LET q == Len(pc) + 1 IN
  IF q > Len(a.ind) THEN blk[pc]
  ELSE LET ix   == a.ind[q]
           one  == a.nb[q] = 1
           subs == [v \in 1..Reps(L, a, q) |->
                      Nest(L, a, c, blk,
                           Append(pc, IF one THEN 0
                                      ELSE IF ix \in Range(L.oi) THEN CoordOf(L, c, ix)
                                      ELSE v - 1),
                           mode)]
       IN IF mode = "flat" \/ (mode = "list" /\ ix \in Range(L.oi)) THEN subs[1]
          ELSE ListStr(subs)

ArgStr(L, a, c, tab) ==
  CASE a.k = "lit" -> ToString(a.v)
    [] a.k = "key" -> tab[a.name][<<>>]
    [] OTHER ->
       LET blk == IF a.k = "bidx" THEN [pc \in Box(a.nb) |-> ListStr(IntStrs(pc))] ELSE tab[a.name]
           mode == IF ~HasDummy(L, a) THEN "flat"
                   ELSE IF ~L.conc THEN "list"
                   ELSE IF ProdReps(L, a, 1) = 1 THEN "flat" ELSE "full"
       IN Nest(L, a, c, blk, <<>>, mode)

\* the term block c of layer L denotes, given the table of the collections below it
BlockTerm(L, c, tab) == Call(L.out, [p \in DOMAIN L.args |-> ArgStr(L, L.args[p], c, tab)])

\* ---------------------------------------------------------------- stacks
LeafNames(st)  == {st.leaves[i].name : i \in DOMAIN st.leaves}
ConstNames(st) == Range(st.consts)
LayerNames(st) == {st.layers[i].out : i \in DOMAIN st.layers}
IsLayer(st, n) == n \in LayerNames(st)
LayerOf(st, n) == st.layers[CHOOSE i \in DOMAIN st.layers : st.layers[i].out = n]
LeafOf(st, n)  == st.leaves[CHOOSE i \in DOMAIN st.leaves : st.leaves[i].name = n]

\* numblocks of a collection
NBOf(st, n) == IF IsLayer(st, n) THEN OutNB(LayerOf(st, n)) ELSE LeafOf(st, n).nb

StackOK(st) ==
  /\ \A i, j \in DOMAIN st.leaves : i # j => st.leaves[i].name # st.leaves[j].name
  /\ \A i, j \in DOMAIN st.layers : i # j => st.layers[i].out # st.layers[j].out
  /\ LeafNames(st) \cap LayerNames(st) = {} /\ ConstNames(st) \cap (LeafNames(st) \cup LayerNames(st)) = {}
  /\ \A i \in DOMAIN st.layers :
       LET L == st.layers[i] IN
       /\ LayerOK(L)
       /\ \A p \in DOMAIN L.args :
            LET a == L.args[p] IN
            /\ a.k = "coll" => /\ a.name \in LeafNames(st) \cup {st.layers[j].out : j \in 1..(i - 1)}
                               /\ a.nb = NBOf(st, a.name)
            /\ a.k = "key"  => a.name \in ConstNames(st)

\* the same stack with Dims precomputed in every layer (well-formed stacks only)
Prep(st) == [st EXCEPT !.layers = [i \in DOMAIN st.layers |-> WithDims(st.layers[i])]]

BaseTab(st) ==
  [n \in LeafNames(st) \cup ConstNames(st) |->
     IF n \in ConstNames(st) THEN (<<>> :> Call(n, <<>>))
     ELSE [c \in Box(LeafOf(st, n).nb) |-> Call(n, IntStrs(c))]]

RECURSIVE Tabs(_, _, _)
Tabs(st, i, tab) ==
  IF i > Len(st.layers) THEN tab
  ELSE LET L == st.layers[i] IN
       Tabs(st, i + 1, tab @@ (L.out :> [c \in OutBlocks(L) |-> BlockTerm(L, c, tab)]))

\* Den(st)[n][c] = the term block c of collection n denotes
Den(st) == Tabs(st, 1, BaseTab(st))

AllKeys(st) == UNION {{Key(n, c) : c \in Box(NBOf(st, n))} : n \in LeafNames(st) \cup LayerNames(st)}
                 \cup {Key(n, <<>>) : n \in ConstNames(st)}

RECURSIVE ProdNB(_)
ProdNB(nb) == IF Len(nb) = 0 THEN 1 ELSE Head(nb) * ProdNB(Tail(nb))
RECURSIVE SumNat(_)
SumNat(f) == IF Len(f) = 0 THEN 0 ELSE Head(f) + SumNat(Tail(f))
\* Cardinality(AllKeys(st)), computed arithmetically
NumKeys(st) == SumNat([i \in DOMAIN st.leaves |-> ProdNB(st.leaves[i].nb)])
               + SumNat([i \in DOMAIN st.layers |-> ProdNB(OutNB(st.layers[i]))]) + Len(st.consts)

DepsOfKey(st, k) == IF IsLayer(st, k.n) THEN Deps(LayerOf(st, k.n), k.c) ELSE {}

\* Cull: least set of keys containing the request and closed under Deps
\* (S: keys found so far, F \subseteq S: those whose dependencies have not been added yet)
RECURSIVE Close(_, _, _)
Close(st, S, F) == LET N == (UNION {DepsOfKey(st, k) : k \in F}) \ S
                   IN IF N = {} THEN S ELSE Close(st, S \cup N, N)
Cull(st, req) == Close(st, req, req)

\* the contract of culling / fusion on a request: every requested key is still there and
\* still has the value it denotes (everything else - which layers exist, which other keys
\* are kept, key names inside fused tasks - is free)
ValuesOK(st, den, vals) ==       \* vals: sequence of [n, c, v]
  \A i \in DOMAIN vals : /\ vals[i].n \in DOMAIN den
                         /\ vals[i].c \in DOMAIN den[vals[i].n]
                         /\ vals[i].v = den[vals[i].n][vals[i].c]

\* ---------------------------------------------------------------- annotations of fused layers
(* An annotation record has five optional entries, each a sequence of length 0 (absent) or 1:
     pri, ret : <<int>>     res : << sequence of [r, v] >>     wrk : << sequence of names >>
     aow : <<BOOLEAN>>
   Fusing the layers with annotations `as` (a set):  priority and retries take the maximum,
   resources the per-resource maximum, workers the intersection, allow_other_workers the
   conjunction - each over the layers that carry the entry.                              *)
MaxOf(S) == CHOOSE m \in S : \A x \in S : x <= m

Having(as, f) == {a \in as : Len(a[f]) = 1}
ResOf(a)  == IF Len(a.res) = 0 THEN {} ELSE Range(a.res[1])         \* set of [r, v]
WrkOf(a)  == Range(a.wrk[1])

FusePri(as) == IF Having(as, "pri") = {} THEN {} ELSE {MaxOf({a.pri[1] : a \in Having(as, "pri")})}
FuseRet(as) == IF Having(as, "ret") = {} THEN {} ELSE {MaxOf({a.ret[1] : a \in Having(as, "ret")})}
FuseRes(as) == LET all == UNION {ResOf(a) : a \in as}
                   names == {x.r : x \in all}
               IN {[r |-> nm, v |-> MaxOf({x.v : x \in {y \in all : y.r = nm}})] : nm \in names}
FuseWrk(as) == LET hs == Having(as, "wrk") IN
               IF hs = {} THEN {} ELSE {w \in UNION {WrkOf(a) : a \in hs} : \A a \in hs : w \in WrkOf(a)}
FuseAow(as) == IF Having(as, "aow") = {} THEN {} ELSE {\A a \in Having(as, "aow") : a.aow[1]}

\* does the observed annotation record `o` equal the fusion of `as` ?
OptEq(seq1, S) == (Len(seq1) = 0 /\ S = {}) \/ (Len(seq1) = 1 /\ S = {seq1[1]})
FuseAnnOK(o, as) ==
  /\ OptEq(o.pri, FusePri(as))
  /\ OptEq(o.ret, FuseRet(as))
  /\ OptEq(o.aow, FuseAow(as))
  /\ ResOf(o) = FuseRes(as) /\ (Len(o.res) = 1 <=> Having(as, "res") # {})
  /\ IF Having(as, "wrk") = {} THEN Len(o.wrk) = 0 ELSE Len(o.wrk) = 1 /\ WrkOf(o) = FuseWrk(as)

\* Callable annotation values (dask.annotate(priority=lambda key: ..)) cannot be combined by
\* max: `cal` lists them as [k |-> "pri" | "ret", id |-> which callable].  Layers may only be
\* fused when all members that carry the entry carry the same callable, which the result keeps.
CalIds(a, f) == {x.id : x \in {y \in Range(a.cal) : y.k = f}}
CalOK(o, as) ==
  \A f \in {"pri", "ret"} :
    LET carriers == {a \in as : Len(a[f]) = 1 \/ CalIds(a, f) # {}} IN
    IF \E a \in carriers : CalIds(a, f) # {}
    THEN /\ \A a \in carriers : Len(a[f]) = 0
         /\ Cardinality(UNION {CalIds(a, f) : a \in carriers}) = 1
         /\ CalIds(o, f) = UNION {CalIds(a, f) : a \in carriers}
    ELSE CalIds(o, f) = {}

\* annotations of a collection of the stack (a leaf without `ann` has none)
NoAnnRec == [pri |-> <<>>, ret |-> <<>>, res |-> <<>>, wrk |-> <<>>, aow |-> <<>>, cal |-> <<>>]
AnnOfColl(st, n) == IF IsLayer(st, n) THEN LayerOf(st, n).ann
                    ELSE IF "ann" \in DOMAIN LeafOf(st, n) THEN LeafOf(st, n).ann ELSE NoAnnRec

\* "never loosens a constraint": the fused record o is at least as strict as member a
NoLooser(o, a) ==
  /\ Len(a.pri) = 1 => Len(o.pri) = 1 /\ o.pri[1] >= a.pri[1]
  /\ Len(a.ret) = 1 => Len(o.ret) = 1 /\ o.ret[1] >= a.ret[1]
  /\ \A x \in ResOf(a) : \E y \in ResOf(o) : y.r = x.r /\ y.v >= x.v
  /\ Len(a.wrk) = 1 => Len(o.wrk) = 1 /\ WrkOf(o) \subseteq WrkOf(a)
  /\ (Len(a.aow) = 1 /\ ~a.aow[1]) => Len(o.aow) = 1 /\ ~o.aow[1]
=============================================================================
