--------------------------- MODULE RewriteImplMC ---------------------------
(* C51: TLC runs the transcription of the discrimination-net walk (RewriteImpl)
   on rule sets x terms drawn from the same pools and mixed-radix codes as
   RewriteMC, and exports for every call the SEQUENCE of matches it yields.
   Explicit is a sequence of literal [rules, term] calls that are run as well (used
   for inputs outside the property's domain - heads used at two arities - where the
   invariants do not apply (InDomain) and the outcomes are only exported and compared). *)
EXTENDS RewriteImpl, SequencesExt, TLC, Json

CONSTANTS Jobs, TDepth, Explicit

VARIABLE out
vars == <<ivars, out>>

Apps(S)   == UNION { { <<fs>> \o a : a \in [1..Sig[fs] -> S] } : fs \in DOMAIN Sig }
GLeaves   == { <<c>> : c \in Consts }
Leaves    == { <<c>> : c \in Consts \cup Vars }
RECURSIVE Upto(_, _)
Upto(L, d) == IF d = 0 THEN L ELSE L \cup Apps(Upto(L, d - 1))

TermSeq   == SetToSeq(Upto(GLeaves, TDepth))
PatSeq1   == SetToSeq(Upto(Leaves, 1))
PatSeq2   == SetToSeq(Upto(Leaves, 2))
PatSeq(p) == IF p = 1 THEN PatSeq1 ELSE PatSeq2
NT        == Len(TermSeq)

RECURSIVE Pow(_, _)
Pow(b, e) == IF e = 0 THEN 1 ELSE b * Pow(b, e - 1)
NumCodes(j) == Pow(Len(PatSeq(j.pool)), j.k) * NT
Digit(c, base, pos) == (c \div Pow(base, pos)) % base
RulesOf(j, c) == LET P == PatSeq(j.pool)  np == Len(P)  rc == c \div NT IN
                 [i \in 1..j.k |-> [lhs |-> P[Digit(rc, np, i - 1) + 1], rhs |-> <<"h">>]]
TermOf(c)     == TermSeq[(c % NT) + 1]
Codes(j)      == { c \in { q * j.stride + j.offset : q \in 0..(NumCodes(j) \div j.stride) } : c < NumCodes(j) }

Init == /\ \/ \E p \in DOMAIN Jobs : \E c \in Codes(Jobs[p]) : ImplInit(RulesOf(Jobs[p], c), TermOf(c))
           \/ \E e \in DOMAIN Explicit : ImplInit(Explicit[e].rules, Explicit[e].term)
        /\ out = ""

Export == ToJson([rules |-> [i \in DOMAIN rules |-> rules[i].lhs], term |-> term, pc |-> pc,
                  ys |-> [j \in DOMAIN ys |-> [i |-> ys[j][1], s |-> ys[j][2]]]])

Next == \/ Step /\ out' = IF pc' # "loop" THEN Export' ELSE ""
        \/ pc # "loop" /\ UNCHANGED vars
=============================================================================
