------------------------------- MODULE Order -------------------------------
(* C06 - contract of dask.order.order (Pattern B).

   Input : a graph g (module Graphs: key -> set of referenced keys; references to
           keys outside DOMAIN g are "external").  Node kinds (task / plain data,
           alias, list) are carried by the cases but the contract does not depend
           on them: the statement quantifies over them, it does not distinguish.
   Output: either  [res |-> "raised"]            (order raised an exception), or
                   [res |-> "ok", prio |-> <<k1, p1>>, <<k2, p2>>, ...]  the returned
           dict as a sequence of <<key, priority>> pairs (one per dict item).

   The statement, clause by clause:
     Domain    a priority for each key of the graph and for no other key
     Distinct  priorities are pairwise distinct
     DepsFirst every key's priority is greater than that of each dependency
               inside the graph
     and a cyclic graph is rejected with an error (any exception).
   Nothing is said about WHICH linear extension is returned, nor about the range
   of the numbers: both are left free.                                        *)
EXTENDS Graphs, Integers

\* sequence of sets / of sequences  ->  graph  (JSON arrays arrive as sequences)
SeqRange(s)      == { s[i] : i \in DOMAIN s }
GraphOfSeqs(n, deps) == [k \in 1..n |-> SeqRange(deps[k])]

PrioKeys(prio)   == { prio[i][1] : i \in DOMAIN prio }
PrioVals(prio)   == { prio[i][2] : i \in DOMAIN prio }
PrioOf(prio, k)  == prio[CHOOSE i \in DOMAIN prio : prio[i][1] = k][2]

Domain(g, prio)    == PrioKeys(prio) = DOMAIN g /\ Len(prio) = Cardinality(DOMAIN g)
Distinct(prio)     == Cardinality(PrioVals(prio)) = Len(prio)
PrioFn(prio)       == [k \in PrioKeys(prio) |-> PrioOf(prio, k)]
DepsFirst(g, prio) == LET P == PrioFn(prio) IN
                      \A k \in DOMAIN g \cap DOMAIN P : \A d \in Deps(g, k) \cap DOMAIN P : P[k] > P[d]

\* the contract on a successful return
OrderOK(g, prio) == Domain(g, prio) /\ Distinct(prio) /\ DepsFirst(g, prio)

\* the whole contract: what `order` may do on input g
Accepts(g, out) == IF HasCycle(g) THEN out.res = "raised"
                   ELSE out.res = "ok" /\ OrderOK(g, out.prio)

\* Apply as a relation on outputs whose priorities are a permutation of 0..n-1
\* (used by the design check to show the contract is satisfiable exactly on DAGs)
PermOutputs(g) ==
  LET n == Cardinality(DOMAIN g)
      ks == CHOOSE s \in [1..n -> DOMAIN g] : SeqRange(s) = DOMAIN g
  IN { [i \in 1..n |-> <<ks[i], f[i]>>] : f \in { h \in [1..n -> 0..(n - 1)] : Injective(h) } }
=============================================================================
