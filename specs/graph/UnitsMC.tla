------------------------------- MODULE UnitsMC -------------------------------
(* C18: enumeration of the inputs (spec -> code) and design check of the
   contracts of module Units.  Every initial state is one input; the harness
   runs the real function on it and TLC (UnitsTrace) judges the recorded output. *)
EXTENDS Units, Json

CONSTANTS Fam,       \* "format" | "parsebytes" | "timedelta" | "strings" | "all"
          Ms,        \* integer parts m enumerated per band (MiB .. PiB)
          Ms1,       \* integer parts m for which EVERY byte count m*1024 + j of the kiB band is enumerated
          StrLen     \* strings over the alphabet up to this length

VARIABLES case, out

(* ---- format_bytes: every band x integer part x fraction at a band boundary / rounding edge *)
TieFracs  == { ((2 * j + 1) * P20) \div 200 + dd : j \in {0, 1, 12, 37, 49, 50, 62, 87, 98, 99}, dd \in {-1, 0, 1, 2} }
EdgeFracs == {0, 1, P20 - 1, 943717, 943718, 943719, 629145, 629146} \cup TieFracs
D(m, F, e) == [m |-> m, r1 |-> F \div 1024, r2 |-> F % 1024, e |-> e]
FormatCases ==
  [fam: {"format"}, b: {0}, d: { D(m, 0, 0) : m \in 0..921 }]
  \cup [fam: {"format"}, b: {1}, d: { D(m, 1024 * j, 0) : m \in Ms1, j \in 0..1023 }]          \* every byte count of the band rows
  \cup [fam: {"format"}, b: {2}, d: { D(m, F, 0) : m \in Ms, F \in EdgeFracs }]
  \cup [fam: {"format"}, b: 3..5, d: { D(m, F, e) : m \in Ms, F \in EdgeFracs, e \in {0, 1} }]

InBand(c) == LET T == TOf(c.d) IN
  IF c.b = 0 THEN TRUE
  ELSE /\ T >= 943719 \/ (T = 943718 /\ c.d.e = 1)
       /\ c.b = 5 \/ T < 966367641 \/ (T = 966367641 /\ c.d.e = 0)

(* ---- parse_bytes / parse_timedelta: every unit x letter case x prefix x optional space *)
ParseBytesCases == { c \in [fam: {"parsebytes"}, unit: ByteUnits, mask: -3..7, pre: Prefixes, sp: {0, 1}] :
                       c.mask \in CaseMasks(c.unit) /\ ~(c.unit.u = "" /\ c.pre.txt = "") /\ (c.unit.u = "" => c.sp = 0) }
TimeCases       == { c \in [fam: {"timedelta"}, unit: TimeUnits, mask: -3..7, pre: Prefixes, sp: {0, 1}] :
                       c.mask \in CaseMasks(c.unit) /\ ~(c.unit.u = "" /\ c.pre.txt = "") /\ (c.unit.u = "" => c.sp = 0) }

(* ---- natural_sort_key / key_split: all short strings over the alphabet + hash-like words *)
Codes == 1..7
RECURSIVE Strs(_)
Strs(n) == IF n = 0 THEN { <<>> } ELSE Strs(n - 1) \cup { Append(s, c) : s \in { x \in Strs(n - 1) : Len(x) = n - 1 }, c \in Codes }
Curated == { <<1, 3, 1, 8, 1, 8, 1, 8, 1, 8, 3, 2>>,           \* a-abababab-1   (8 hex letters: a hash)
             <<1, 3, 1, 8, 1, 8, 1, 8, 1, 3, 2>>,              \* a-abababa-1    (7 letters: a word)
             <<1, 8, 1, 8, 1, 8, 1, 8, 3, 1, 3, 9, 2>>,        \* abababab-a-21
             <<8, 3, 1, 3, 8, 3, 2, 9, 3, 1>>,                 \* b-a-b-29-a
             <<1, 9, 2, 8, 2, 2, 9, 1, 3, 2>>,                 \* a21b129a-1
             <<4, 5, 1, 3, 2, 5, 6, 2>> }                      \* ('a-1',1
StringCases == [fam: {"strings"}, s: Strs(StrLen) \cup Curated]

Cases == CASE Fam = "format"     -> FormatCases
           [] Fam = "parsebytes" -> ParseBytesCases
           [] Fam = "timedelta"  -> TimeCases
           [] Fam = "strings"    -> StringCases
           [] Fam = "all"        -> FormatCases \cup ParseBytesCases \cup TimeCases \cup StringCases

Init == case \in Cases /\ out = ToJson([c |-> case])
Next == UNCHANGED <<case, out>>

(* ------------------------------------------------------------ design check *)
\* the printed-precision contract is satisfiable: rounding the exact value half-to-even meets it
RefMeetsDigits ==
  (case.fam = "format" /\ case.b >= 1) =>
     LET H == RefHundredths(case.d) IN DigitsOK(case.d, case.b, H \div 100, H % 100)
\* ... and the 10-character bound can be met inside the band everywhere except at the top of
\* the PiB band (>= 999.995 PiB), where a larger unit is needed
OnlyTopPiBNeedsBiggerUnit ==
  (case.fam = "format" /\ case.b >= 1 /\ InBand(case)) =>
     (LenOK(RefLen(case.d)) <=> ~(case.b = 5 /\ RefHundredths(case.d) >= 100000))
\* every multiplier has its full spelling and (except B) an abbreviation; spellings are unique
UnitTableConsistent ==
  /\ \A u \in ByteUnits, v \in ByteUnits : u.u = v.u => u = v
  /\ \A u \in ByteUnits : u.exp > 0 => \E v \in ByteUnits : v # u /\ v.base = u.base /\ v.exp = u.exp
  /\ \A u \in TimeUnits, v \in TimeUnits : u.u = v.u => u = v
\* runs partition the string and alternate
RECURSIVE JoinRun(_)
JoinRun(r) == IF r = <<>> THEN 0 ELSE r[1].len + JoinRun(Tail(r))
RunsPartition ==
  case.fam = "strings" =>
     LET r == Runs(case.s) IN
       /\ Len(case.s) = JoinRun(r)
       /\ \A i \in 1..(Len(r) - 1) : r[i].dig # r[i + 1].dig
=============================================================================
