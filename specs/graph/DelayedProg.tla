---------------------------- MODULE DelayedProg ----------------------------
(* C15 - delayed programs evaluate like the eager Python program.

   A *program* is a sequence of nodes; node i may refer only to nodes j < i, so a
   program is a DAG with shared sub-expressions (a node referred to twice is ONE
   Python object).  Every node is a uniform record

     [op, nm, v, xs, kn, kx, w, pure, dkn, i]

     op = "const"    the constant v                                    (leaf)
          "cont"     a Python container of kind nm built from the values of the
                     nodes xs (list, tuple, set, slice, slice_to, obj = dataclass
                     Pt(x, y), nt = namedtuple NT(a, b), dictk = {xs[1]: xs[2]})
                     or, for nm = "dict", {kn[1]: kx[1], kn[2]: kx[2], ...}
          "call"     f(xs.., kn=kx..) for the function labelled nm; "tup" returns
                     the tuple of its arguments (i = nout, 0 = no nout), every
                     other label is uninterpreted: its value IS the term
          "getitem"  xs[1][xs[2]]
          "getattr"  getattr(xs[1], nm)
          "meth"     xs[1].nm(rest of xs.., kn=kx..)    (tag: uninterpreted; count)
          "bin"      xs[1] <nm> xs[2]     nm in add sub mul floordiv lt
          "un"       <nm> xs[1]           nm in neg invert
          "nout"     the i-th (0-based) element obtained by ITERATING over the
                     nout-call xs[1]
     w    (const / cont only)  the Python object is wrapped in dask.delayed(...)
     pure the pure= flag of a call / method call / of the wrapping delayed(obj, pure=...);
     dkn = dask_key_name ("" = none)

   The MEANING of a program, Vals(p), does not look at w, pure, dkn: that is the
   property.  How a program is BUILT with dask does: a node is *delayed* (Mode)
   when it is a wrapped leaf / container or any operation node; Buildable says
   when Python + dask can express the node at all (a[i] needs a delayed a, a
   binary operator needs a delayed operand).

   Purity rules as a registry: Idents(p)[i] is the *identity* of the key of the
   delayed node i - two delayed nodes must have the same key iff their
   identities are equal:
     * operators, item access, iteration over nout, attribute access are pure;
     * a call / method call is pure iff its pure flag is set; dask_key_name
       overrides (identity = the name);
     * an impure call and a wrapped object are identified by the node itself
       (a fresh key for every object) - unless the object is wrapped with
       pure=True: then by the object (its value, or its structure over the
       Delayed objects it holds);
     * an argument is identified by its key identity when it is delayed and by
       its (structural) value when it is plain; plain containers are identified
       elementwise (sets and dicts without order).
   Values are tagged records with pairwise different field names (apart from t),
   so TLC can compare any two of them.                                          *)
EXTENDS Naturals, Integers, Sequences, FiniteSets, TLC

\* ---------------------------------------------------------------- values
IntV(n)    == [t |-> "int", v |-> n]
BoolV(b)   == [t |-> "bool", b |-> b]
StrV(s)    == [t |-> "str", s |-> s]
NoneV     == [t |-> "none"]
ErrV      == [t |-> "err"]
ListV(xs) == [t |-> "list", xs |-> xs]
TupleV(xs) == [t |-> "tuple", xs |-> xs]
SetV(S)   == [t |-> "set", els |-> S]
DictV(P)  == [t |-> "dict", kvs |-> P]                 \* P: set of <<key, value>>
SliceV(a, b, c) == [t |-> "slice", sa |-> a, sb |-> b, sc |-> c]
ObjV(x, y) == [t |-> "obj", of |-> <<x, y>>]           \* dataclass Pt(x, y)
NtV(a, b) == [t |-> "nt", nf |-> <<a, b>>]             \* namedtuple NT(a, b)
AppV(f, ar, kn, kv) == [t |-> "app", fn |-> f, ar |-> ar, kn |-> kn, kv |-> kv]

IsErr(v)  == v.t = "err"
IsInt(v)  == v.t = "int"
IsSeq(v)  == v.t \in {"list", "tuple"}
Hashable(v) == v.t \in {"int", "str"}
Range(s)  == { s[i] : i \in DOMAIN s }
AnyErr(vs) == \E i \in DOMAIN vs : IsErr(vs[i])

\* ---------------------------------------------------------------- nodes
Node(op, nm, v, xs, kn, kx, w, pure, dkn, i) ==
  [op |-> op, nm |-> nm, v |-> v, xs |-> xs, kn |-> kn, kx |-> kx, w |-> w, pure |-> pure, dkn |-> dkn, i |-> i]
Const(v, w)         == Node("const", "", v, <<>>, <<>>, <<>>, w, FALSE, "", 0)
Cont(kind, xs, w)   == Node("cont", kind, NoneV, xs, <<>>, <<>>, w, FALSE, "", 0)
DictC(kn, kx, w)    == Node("cont", "dict", NoneV, <<>>, kn, kx, w, FALSE, "", 0)
Call(f, xs, kn, kx, pure, dkn, nout) == Node("call", f, NoneV, xs, kn, kx, FALSE, pure, dkn, nout)
GetItem(a, k)       == Node("getitem", "", NoneV, <<a, k>>, <<>>, <<>>, FALSE, FALSE, "", 0)
GetAttr(a, nm)      == Node("getattr", nm, NoneV, <<a>>, <<>>, <<>>, FALSE, FALSE, "", 0)
Meth(a, nm, xs, kn, kx, pure, dkn) == Node("meth", nm, NoneV, <<a>> \o xs, kn, kx, FALSE, pure, dkn, 0)
Bin(nm, a, b)       == Node("bin", nm, NoneV, <<a, b>>, <<>>, <<>>, FALSE, FALSE, "", 0)
Un(nm, a)           == Node("un", nm, NoneV, <<a>>, <<>>, <<>>, FALSE, FALSE, "", 0)
NoutItem(a, i)      == Node("nout", "", NoneV, <<a>>, <<>>, <<>>, FALSE, FALSE, "", i)

NodeRefs(nd) == Range(nd.xs) \cup Range(nd.kx)

WellFormed(p) ==
  \A i \in DOMAIN p :
    /\ NodeRefs(p[i]) \subseteq 1..(i - 1)
    /\ Len(p[i].kn) = Len(p[i].kx)

\* ---------------------------------------------------------------- Python semantics
\* Python's xs[a:b] (step None) on a sequence of length n: clamp like slice.indices
Clamp(i, n) == IF i.t = "none" THEN -1            \* caller substitutes the default
               ELSE IF i.v < 0 THEN (IF i.v + n < 0 THEN 0 ELSE i.v + n)
               ELSE IF i.v > n THEN n ELSE i.v
SliceSeq(xs, sl) ==
  LET n  == Len(xs)
      lo == IF sl.sa.t = "none" THEN 0 ELSE Clamp(sl.sa, n)
      hi == IF sl.sb.t = "none" THEN n ELSE Clamp(sl.sb, n)
  IN IF hi <= lo THEN <<>> ELSE SubSeq(xs, lo + 1, hi)

SliceOK(sl) == /\ sl.sa.t \in {"int", "none"} /\ sl.sb.t \in {"int", "none"} /\ sl.sc.t = "none"

ItemOf(c, k) ==
  IF IsSeq(c) THEN
     IF IsInt(k) THEN
        (LET n == Len(c.xs) IN
         IF k.v >= n \/ k.v < -n THEN ErrV
         ELSE c.xs[(IF k.v < 0 THEN k.v + n ELSE k.v) + 1])
     ELSE IF k.t = "slice" /\ SliceOK(k) THEN [t |-> c.t, xs |-> SliceSeq(c.xs, k)]
     ELSE ErrV
  ELSE IF c.t = "dict" THEN
     (IF \E pr \in c.kvs : pr[1] = k THEN (CHOOSE pr \in c.kvs : pr[1] = k)[2] ELSE ErrV)
  ELSE ErrV

FloorDiv(a, b) == IF b > 0 THEN a \div b ELSE (-a) \div (-b)

RECURSIVE Repeat(_, _)
Repeat(xs, n) == IF n <= 0 THEN <<>> ELSE xs \o Repeat(xs, n - 1)

BinOf(nm, a, b) ==
  IF IsInt(a) /\ IsInt(b) THEN
     CASE nm = "add" -> IntV(a.v + b.v)
       [] nm = "sub" -> IntV(a.v - b.v)
       [] nm = "mul" -> IntV(a.v * b.v)
       [] nm = "floordiv" -> (IF b.v = 0 THEN ErrV ELSE IntV(FloorDiv(a.v, b.v)))
       [] nm = "lt"  -> BoolV(a.v < b.v)
       [] OTHER -> ErrV
  ELSE IF nm = "add" /\ IsSeq(a) /\ a.t = b.t THEN [t |-> a.t, xs |-> a.xs \o b.xs]
  ELSE IF nm = "mul" /\ IsSeq(a) /\ IsInt(b) THEN [t |-> a.t, xs |-> Repeat(a.xs, b.v)]
  ELSE IF nm = "mul" /\ IsInt(a) /\ IsSeq(b) THEN [t |-> b.t, xs |-> Repeat(b.xs, a.v)]
  ELSE ErrV

UnOf(nm, a) == IF ~IsInt(a) THEN ErrV
               ELSE CASE nm = "neg" -> IntV(-a.v) [] nm = "invert" -> IntV(-a.v - 1) [] OTHER -> ErrV

AttrOf(nm, a) == CASE a.t = "obj" /\ nm = "x" -> a.of[1]
                   [] a.t = "obj" /\ nm = "y" -> a.of[2]
                   [] a.t = "nt"  /\ nm = "a" -> a.nf[1]
                   [] a.t = "nt"  /\ nm = "b" -> a.nf[2]
                   [] OTHER -> ErrV

\* the supported part of Python's == for list.count: ints only (1 == True in Python)
CountOf(c, x) == IF IsSeq(c) /\ IsInt(x) /\ \A i \in DOMAIN c.xs : IsInt(c.xs[i])
                 THEN IntV(Cardinality({ i \in DOMAIN c.xs : c.xs[i] = x }))
                 ELSE ErrV

Injective(s) == \A i, j \in DOMAIN s : i # j => s[i] # s[j]

ContOf(nd, xs, kvals) ==
  LET k == nd.nm IN
  CASE k = "list"     -> ListV(xs)
    [] k = "tuple"    -> TupleV(xs)
    [] k = "set"      -> (IF \A i \in DOMAIN xs : Hashable(xs[i]) THEN SetV(Range(xs)) ELSE ErrV)
    [] k = "dict"     -> (IF Injective(nd.kn) THEN DictV({ <<StrV(nd.kn[i]), kvals[i]>> : i \in DOMAIN kvals }) ELSE ErrV)
    [] k = "dictk"    -> (IF Len(xs) = 2 /\ Hashable(xs[1]) THEN DictV({ <<xs[1], xs[2]>> }) ELSE ErrV)
    [] k = "slice"    -> (IF Len(xs) = 2 THEN SliceV(xs[1], xs[2], NoneV) ELSE ErrV)
    [] k = "slice_to" -> (IF Len(xs) = 1 THEN SliceV(NoneV, xs[1], NoneV) ELSE ErrV)
    [] k = "obj"      -> (IF Len(xs) = 2 THEN ObjV(xs[1], xs[2]) ELSE ErrV)
    [] k = "nt"       -> (IF Len(xs) = 2 THEN NtV(xs[1], xs[2]) ELSE ErrV)
    [] OTHER          -> ErrV

\* value of node nd, given the values V of the earlier nodes (errors are strict)
EvalNode(nd, V) ==
  LET xs == [i \in DOMAIN nd.xs |-> V[nd.xs[i]]]
      kv == [i \in DOMAIN nd.kx |-> V[nd.kx[i]]]
  IN IF nd.op = "const" THEN nd.v
     ELSE IF AnyErr(xs) \/ AnyErr(kv) THEN ErrV
     ELSE CASE nd.op = "cont"    -> ContOf(nd, xs, kv)
            [] nd.op = "call"    -> (IF nd.nm = "tup" THEN (IF Len(kv) = 0 THEN TupleV(xs) ELSE ErrV)
                                     ELSE AppV(nd.nm, xs, nd.kn, kv))
            [] nd.op = "getitem" -> ItemOf(xs[1], xs[2])
            [] nd.op = "getattr" -> AttrOf(nd.nm, xs[1])
            [] nd.op = "meth"    -> (IF nd.nm = "tag" /\ xs[1].t = "obj" THEN AppV("tag", xs, nd.kn, kv)
                                     ELSE IF nd.nm = "count" /\ Len(xs) = 2 /\ Len(kv) = 0 THEN CountOf(xs[1], xs[2])
                                     ELSE ErrV)
            [] nd.op = "bin"     -> BinOf(nd.nm, xs[1], xs[2])
            [] nd.op = "un"      -> UnOf(nd.nm, xs[1])
            [] nd.op = "nout"    -> ItemOf(xs[1], IntV(nd.i))
            [] OTHER             -> ErrV

\* ---------------------------------------------------------------- building with dask
BuildableNode(nd, D) ==
  CASE nd.op \in {"getitem", "getattr", "meth", "un", "nout"} -> D[nd.xs[1]]
    [] nd.op = "bin" -> D[nd.xs[1]] \/ D[nd.xs[2]]
    [] OTHER -> TRUE

\* ---------------------------------------------------------------- key identities
Uniq(n) == [t |-> "uniq", n |-> n]

\* identity of node j used as an ARGUMENT: by key if delayed, by structure if plain
\* (I: identities of earlier nodes as arguments)
PlainIdent(nd, V, I) ==
  IF nd.op = "const" THEN [t |-> "val", pv |-> nd.v]
  ELSE IF nd.nm \in {"set"} THEN [t |-> "pset", pe |-> { I[nd.xs[i]] : i \in DOMAIN nd.xs }]
  ELSE IF nd.nm = "dict" THEN [t |-> "pdict", pp |-> { <<[t |-> "val", pv |-> StrV(nd.kn[i])], I[nd.kx[i]]>> : i \in DOMAIN nd.kx }]
  ELSE IF nd.nm = "dictk" THEN [t |-> "pdict", pp |-> { <<I[nd.xs[1]], I[nd.xs[2]]>> }]
  ELSE [t |-> "pseq", pk |-> nd.nm, pa |-> [i \in DOMAIN nd.xs |-> I[nd.xs[i]]]]

\* a plain container of plain values is identified by its VALUE (a list built from the
\* constants 1 and 2 is the same argument as the constant [1, 2])
KeyIdent(nd, n, I, parg) ==
  LET A == [j \in DOMAIN I |-> I[j].arg]
      xa == [i \in DOMAIN nd.xs |-> A[nd.xs[i]]]
      ka == [i \in DOMAIN nd.kx |-> A[nd.kx[i]]]
  IN CASE nd.op \in {"const", "cont"} -> (IF nd.pure THEN [t |-> "wpure", wa |-> parg] ELSE Uniq(n))
       [] nd.op \in {"call", "meth"} ->
            (IF nd.dkn # "" THEN [t |-> "named", name |-> nd.dkn]
             ELSE IF nd.pure THEN [t |-> nd.op, cf |-> nd.nm, cn |-> nd.i, ca |-> xa, ck |-> { <<nd.kn[i], ka[i]>> : i \in DOMAIN ka }]
             ELSE Uniq(n))
       [] nd.op = "bin"     -> [t |-> "oper", on |-> nd.nm, sw |-> ~I[nd.xs[1]].d, oa |-> xa]
       [] nd.op = "un"      -> [t |-> "oper", on |-> nd.nm, sw |-> FALSE, oa |-> xa]
       [] nd.op = "getitem" -> [t |-> "oper", on |-> "getitem", sw |-> FALSE, oa |-> xa]
       [] nd.op = "nout"    -> [t |-> "oper", on |-> "getitem", sw |-> FALSE, oa |-> <<xa[1], [t |-> "val", pv |-> IntV(nd.i)]>>]
       [] nd.op = "getattr" -> [t |-> "attr", an |-> nd.nm, ao |-> xa[1]]

\* per node: d = delayed?, key = key identity (delayed nodes), arg = identity as an argument,
\* h = holds a Delayed somewhere, val = value
InfoAt(nd, n, I) ==
  LET V  == [j \in DOMAIN I |-> I[j].val]
      A  == [j \in DOMAIN I |-> I[j].arg]
      d  == IF nd.op \in {"const", "cont"} THEN nd.w ELSE TRUE
      hc == nd.op = "cont" /\ \E j \in NodeRefs(nd) : I[j].h       \* a member holds a Delayed
      h  == d \/ hc
      val == EvalNode(nd, V)
      \* identity of the Python object before any wrapping: its value, or its structure over Delayed members
      parg == IF ~hc THEN [t |-> "val", pv |-> val] ELSE PlainIdent(nd, V, A)
      key == KeyIdent(nd, n, I, parg)
  IN [d |-> d, h |-> h, val |-> val, key |-> key,
      arg |-> IF d THEN [t |-> "key", kid |-> key] ELSE parg]
RECURSIVE InfoUpTo(_, _)
InfoUpTo(p, n) == IF n = 0 THEN <<>>
                  ELSE LET prev == InfoUpTo(p, n - 1) IN Append(prev, InfoAt(p[n], n, prev))
Info(p) == InfoUpTo(p, Len(p))

Vals(p)   == LET I == Info(p) IN [i \in DOMAIN p |-> I[i].val]
Result(p) == Vals(p)[Len(p)]
Modes(p)  == LET I == Info(p) IN [i \in DOMAIN p |-> I[i].d]      \* TRUE = the node is a Delayed object
Buildable(p) == LET D == Modes(p) IN \A i \in DOMAIN p : BuildableNode(p[i], D)

Idents(p) == LET I == Info(p) IN [i \in DOMAIN p |-> I[i].key]

\* class of node i = least j with the same key identity (0 for plain nodes)
Classes(p) == LET I == Info(p) IN
  [i \in DOMAIN p |-> IF ~I[i].d THEN 0
                      ELSE CHOOSE j \in 1..i : I[j].d /\ I[j].key = I[i].key
                                               /\ \A k \in 1..(j - 1) : ~(I[k].d /\ I[k].key = I[i].key)]

\* nodes every node of which is an ancestor of (or is) the last node
RECURSIVE ReachDown(_, _)
ReachDown(p, S) == LET T == S \cup UNION { NodeRefs(p[i]) : i \in S }
                   IN IF T = S THEN S ELSE ReachDown(p, T)
Connected(p) == ReachDown(p, {Len(p)}) = DOMAIN p

NOps(p) == Cardinality({ i \in DOMAIN p : p[i].op # "const" })
=============================================================================
