-------------------------------- MODULE Units --------------------------------
(* C18 - contracts of the size / duration / key helpers of dask/utils.py
   (format_bytes, parse_bytes, parse_timedelta, natural_sort_key, key_split).
   Pattern B: the module states what an output must satisfy (it does not say
   how to compute it); UnitsMC enumerates the inputs, UnitsTrace decides every
   recorded call.

   TLC integers are 32 bit, byte counts go up to 2^60.  A byte count n is
   therefore written relative to a unit k = 2^(10b):

        n = m*k + r1*(k/2^10) + r2*(k/2^20) + rest,      0 <= r1, r2 < 1024,
                                                         0 <= rest < k/2^20

   and `rest` is only known as e = 0 (rest = 0) or e = 1 (0 < rest).  Every
   quantity the contracts need is then an integer below 2^31, and the one thing
   that is lost (digits of n/k beyond 2^-20) is handled by widening the
   accepted interval by the 100/2^20 hundredths that `rest` can contribute.     *)
EXTENDS Integers, Sequences, FiniteSets, TLC

Abs(x) == IF x < 0 THEN -x ELSE x
P20 == 1048576
P19 == 524288

(* ------------------------------------------------------------ format_bytes *)
\* binary units format_bytes may print: name |-> b with k = 2^(10b)
FmtUnits == [B |-> 0, kiB |-> 1, MiB |-> 2, GiB |-> 3, TiB |-> 4, PiB |-> 5, EiB |-> 6]

\* T = (n - rest) * 2^20 / k : n in units of k/2^20, an integer < 2^31 for m <= 2047
TOf(d) == d.m * P20 + d.r1 * 1024 + d.r2

\* one byte expressed in 2^-20 hundredths of k (the "+1" of the round-trip bound), at least 1
ByteSlack(b) == CASE b = 0 -> 100 * P20 [] b = 1 -> 102400 [] b = 2 -> 100 [] OTHER -> 1

\* "<ip>.<fp> <unit>" with n decomposed (d) relative to the printed unit k = 2^(10b):
\* the printed hundredths differ from the exact value 100n/k by at most half a
\* hundredth (the printed precision) plus one byte.
\*   exact hundredths = d.m*100 + H0 + (R + 100*rest*2^20/k) / 2^20
DigitsOK(d, b, ip, fp) ==
  LET W  == (d.r1 * 1024 + d.r2) * 100
      H0 == W \div P20
      R  == W % P20
      dH == (ip * 100 + fp) - (d.m * 100 + H0)
  IN /\ fp \in 0..99
     /\ Abs(dH) <= 1000
     /\ dH * P20 - R >= -(P19 + ByteSlack(b))
     /\ dH * P20 - R <= P19 + ByteSlack(b) + 100 * d.e
\* a byte count printed without a fraction ("<n> B") must be exact
PlainOK(d, ip) == d.r1 = 0 /\ d.r2 = 0 /\ d.e = 0 /\ ip = d.m

\* parse_bytes(format_bytes(n)) = tp (in units of k/2^20, rounded down) is within
\* k/200 + 1 bytes of n:  2^20/200 = 5242.88
\* (for the unit B, tp is the parsed byte count itself and must be exact)
RoundTripOK(d, b, tp) ==
  IF b = 0 THEN tp = d.m
  ELSE Abs(tp - TOf(d)) <= 5243 + (IF b = 1 THEN 1024 ELSE 1) + 1 + d.e

\* documented: "For all values < 2**60, the output is always <= 10 characters"
LenOK(len) == len <= 10

\* ---- reference formatter inside the band of the case (round half to even on the exact
\* value; used only to show that the contract above is satisfiable and where it is tight)
RefHundredths(d) ==
  LET W  == (d.r1 * 1024 + d.r2) * 100
      H0 == W \div P20
      R  == W % P20
      up == IF d.e = 1 THEN R >= P19              \* 0 < rest: strictly above R
            ELSE R > P19 \/ (R = P19 /\ (d.m * 100 + H0) % 2 = 1)
  IN d.m * 100 + H0 + (IF up THEN 1 ELSE 0)
NumDigits(x) == IF x < 10 THEN 1 ELSE IF x < 100 THEN 2 ELSE IF x < 1000 THEN 3 ELSE IF x < 10000 THEN 4 ELSE 5
RefLen(d) == NumDigits(RefHundredths(d) \div 100) + 7     \* "<ip>.<2 digits> <3 letters>"

(* ----------------------------------------------- parse_bytes / parse_timedelta *)
\* numeric prefixes as they are typed, with their value in millionths
Prefixes ==
  { [txt |-> "1", micro |-> 1000000], [txt |-> "5", micro |-> 5000000], [txt |-> "5.4", micro |-> 5400000],
    [txt |-> "0.5", micro |-> 500000], [txt |-> "100", micro |-> 100000000], [txt |-> "1e3", micro |-> 1000000000],
    [txt |-> "1.5e2", micro |-> 150000000], [txt |-> "12.25", micro |-> 12250000], [txt |-> "", micro |-> 1000000] }

\* documented byte units: spelling, number of letters (for the case masks), multiplier base^exp
ByteUnits ==
  { [u |-> "",    n |-> 0, base |-> 10, exp |-> 0],  [u |-> "B",   n |-> 1, base |-> 10, exp |-> 0],
    [u |-> "kB",  n |-> 2, base |-> 10, exp |-> 3],  [u |-> "MB",  n |-> 2, base |-> 10, exp |-> 6],
    [u |-> "GB",  n |-> 2, base |-> 10, exp |-> 9],  [u |-> "TB",  n |-> 2, base |-> 10, exp |-> 12],
    [u |-> "PB",  n |-> 2, base |-> 10, exp |-> 15],
    [u |-> "k",   n |-> 1, base |-> 10, exp |-> 3],  [u |-> "M",   n |-> 1, base |-> 10, exp |-> 6],
    [u |-> "G",   n |-> 1, base |-> 10, exp |-> 9],  [u |-> "T",   n |-> 1, base |-> 10, exp |-> 12],
    [u |-> "P",   n |-> 1, base |-> 10, exp |-> 15],
    [u |-> "KiB", n |-> 3, base |-> 2, exp |-> 10],  [u |-> "MiB", n |-> 3, base |-> 2, exp |-> 20],
    [u |-> "GiB", n |-> 3, base |-> 2, exp |-> 30],  [u |-> "TiB", n |-> 3, base |-> 2, exp |-> 40],
    [u |-> "PiB", n |-> 3, base |-> 2, exp |-> 50],
    [u |-> "Ki",  n |-> 2, base |-> 2, exp |-> 10],  [u |-> "Mi",  n |-> 2, base |-> 2, exp |-> 20],
    [u |-> "Gi",  n |-> 2, base |-> 2, exp |-> 30],  [u |-> "Ti",  n |-> 2, base |-> 2, exp |-> 40],
    [u |-> "Pi",  n |-> 2, base |-> 2, exp |-> 50] }

\* the multiplier when it is at most 10^6 (else 0 = "huge": truncation is invisible in millionths)
SmallMul(u) == IF u.exp = 0 THEN 1
               ELSE IF u.base = 10 /\ u.exp = 3 THEN 1000
               ELSE IF u.base = 10 /\ u.exp = 6 THEN 1000000
               ELSE IF u.base = 2 /\ u.exp = 10 THEN 1024
               ELSE 0

\* parse_bytes(text) = q*M + rem, reported as q and f = floor(rem * 10^6 / M):
\* the result is prefix * M, truncated to an integer
ParseBytesOK(c, q, f) ==
  LET slack == 2 + (IF SmallMul(c.unit) = 0 THEN 0 ELSE 1000000 \div SmallMul(c.unit))
  IN /\ q >= 0 /\ q <= 2000 /\ f \in 0..999999
     /\ Abs(q * 1000000 + f - c.pre.micro) <= slack

\* documented duration units with their value in seconds num/den; `words` are spelled out
\* units (case masks: lower / UPPER / Capitalised / aLtErNaTiNg only)
TimeUnits ==
  { [u |-> "s",  n |-> 1, num |-> 1, den |-> 1, word |-> FALSE],   [u |-> "ms", n |-> 2, num |-> 1, den |-> 1000, word |-> FALSE],
    [u |-> "us", n |-> 2, num |-> 1, den |-> 1000000, word |-> FALSE], [u |-> "ns", n |-> 2, num |-> 1, den |-> 1000000000, word |-> FALSE],
    [u |-> "m",  n |-> 1, num |-> 60, den |-> 1, word |-> FALSE],  [u |-> "h",  n |-> 1, num |-> 3600, den |-> 1, word |-> FALSE],
    [u |-> "d",  n |-> 1, num |-> 86400, den |-> 1, word |-> FALSE], [u |-> "w", n |-> 1, num |-> 604800, den |-> 1, word |-> FALSE],
    [u |-> "second", n |-> 6, num |-> 1, den |-> 1, word |-> TRUE],  [u |-> "seconds", n |-> 7, num |-> 1, den |-> 1, word |-> TRUE],
    [u |-> "minute", n |-> 6, num |-> 60, den |-> 1, word |-> TRUE], [u |-> "minutes", n |-> 7, num |-> 60, den |-> 1, word |-> TRUE],
    [u |-> "hour", n |-> 4, num |-> 3600, den |-> 1, word |-> TRUE], [u |-> "hours", n |-> 5, num |-> 3600, den |-> 1, word |-> TRUE],
    [u |-> "day", n |-> 3, num |-> 86400, den |-> 1, word |-> TRUE], [u |-> "days", n |-> 4, num |-> 86400, den |-> 1, word |-> TRUE],
    [u |-> "week", n |-> 4, num |-> 604800, den |-> 1, word |-> TRUE], [u |-> "weeks", n |-> 5, num |-> 604800, den |-> 1, word |-> TRUE],
    [u |-> "millisecond", n |-> 11, num |-> 1, den |-> 1000, word |-> TRUE], [u |-> "milliseconds", n |-> 12, num |-> 1, den |-> 1000, word |-> TRUE],
    [u |-> "microsecond", n |-> 11, num |-> 1, den |-> 1000000, word |-> TRUE], [u |-> "microseconds", n |-> 12, num |-> 1, den |-> 1000000, word |-> TRUE],
    [u |-> "nanosecond", n |-> 10, num |-> 1, den |-> 1000000000, word |-> TRUE], [u |-> "nanoseconds", n |-> 11, num |-> 1, den |-> 1000000000, word |-> TRUE],
    [u |-> "", n |-> 0, num |-> 1, den |-> 1, word |-> FALSE] }        \* no unit: the default, seconds

\* parse_timedelta(text) / (num/den), in millionths (rounded): the typed number
ParseTimeOK(c, micro) == Abs(micro - c.pre.micro) <= 1

\* letter-case variants of a unit of n letters: bit i of the mask upper-cases letter i
\* (applied by the harness - TLC cannot edit strings)
Pow2(n) == IF n = 0 THEN 1 ELSE IF n = 1 THEN 2 ELSE IF n = 2 THEN 4 ELSE 8
CaseMasks(u) == IF u.n <= 3 THEN 0..(Pow2(u.n) - 1) ELSE {0, 1, -1, -2, -3}
                \* words: 0 lower, 1 Capitalised, -1 UPPER, -2 aLtErNaTe, -3 AlTeRnAtE

(* -------------------------------------------- natural_sort_key / key_split *)
\* strings are sequences over a small alphabet; the harness maps the codes to characters
\*   1 'a'   2 '1'   3 '-'   4 '('   5 "'"   6 ','   7 SUPERSCRIPT TWO (isdigit() but not a decimal digit)
\*   8 'b'   9 '2'
IsDigitCode(c) == c \in {2, 9}
IsAlphaCode(c) == c \in {1, 8}

\* maximal runs of decimal digits / of other characters: <<[dig |-> BOOLEAN, len |-> n], ...>>
RECURSIVE RunsFrom(_, _, _)
RunsFrom(s, i, acc) ==
  IF i > Len(s) THEN acc
  ELSE LET d == IsDigitCode(s[i]) IN
       IF acc # <<>> /\ acc[Len(acc)].dig = d
       THEN RunsFrom(s, i + 1, [acc EXCEPT ![Len(acc)].len = @ + 1])
       ELSE RunsFrom(s, i + 1, Append(acc, [dig |-> d, len |-> 1]))
Runs(s) == RunsFrom(s, 1, <<>>)

\* natural_sort_key(s) = parts, reported as <<[int |-> BOOLEAN, len |-> characters it stands for], ...>>:
\* strings and integers alternate starting with a string (so two keys always compare), and the
\* non-empty parts are exactly the maximal digit / non-digit runs of s
NonEmpty(parts) == SelectSeq(parts, LAMBDA p : p.len > 0)
NaturalKeyOK(s, parts) ==
  /\ \A i \in DOMAIN parts : parts[i].int = (i % 2 = 0)
  /\ \A i \in DOMAIN parts : parts[i].int => parts[i].len > 0
  /\ LET ne == NonEmpty(parts) IN
       /\ Len(ne) = Len(Runs(s))
       /\ \A i \in DOMAIN ne : ne[i].int = Runs(s)[i].dig /\ ne[i].len = Runs(s)[i].len

\* key_split on a "name(-name)*(-number...)" key (documented examples 'x-1', 'hello-world-1'):
\* the result is the leading alphabetic words.  A word of exactly 8 letters a-f counts as a hash.
\* words(s) = the '-'-separated pieces
RECURSIVE SplitDash(_, _, _)
SplitDash(s, i, acc) ==
  IF i > Len(s) THEN acc
  ELSE IF s[i] = 3 THEN SplitDash(s, i + 1, Append(acc, <<>>))
  ELSE SplitDash(s, i + 1, [acc EXCEPT ![Len(acc)] = Append(@, s[i])])
Words(s) == SplitDash(s, 1, << <<>> >>)
IsAlphaWord(w) == w # <<>> /\ \A i \in DOMAIN w : IsAlphaCode(w[i])
IsHashWord(w) == Len(w) = 8 /\ \A i \in DOMAIN w : IsAlphaCode(w[i])      \* 'a', 'b' are hex letters
\* the rule applies when the key starts with an alphabetic word and has only letters, digits, dashes
PlainKey(s) == /\ \A i \in DOMAIN s : s[i] \in {1, 2, 3, 8, 9}
               /\ IsAlphaWord(Words(s)[1])
RECURSIVE LeadWords(_, _)
LeadWords(ws, i) == IF i > Len(ws) \/ ~IsAlphaWord(ws[i]) \/ IsHashWord(ws[i]) THEN 0 ELSE 1 + LeadWords(ws, i + 1)
RECURSIVE JoinLen(_, _)
JoinLen(ws, k) == IF k = 0 THEN 0 ELSE Len(ws[k]) + (IF k > 1 THEN 1 ELSE 0) + JoinLen(ws, k - 1)
\* expected result = the first PrefixLen(s) characters of s
PrefixLen(s) == LET ws == Words(s) IN JoinLen(ws, 1 + LeadWords(ws, 2))

\* o = [raised, isstr, preflen] : preflen = n if the result is exactly the first n characters of
\* the key text, else -1
KeySplitTotal(o) == ~o.raised /\ o.isstr
KeySplitRuleOK(s, o) == PlainKey(s) => o.preflen = PrefixLen(s)
=============================================================================
