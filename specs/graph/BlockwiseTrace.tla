--------------------------- MODULE BlockwiseTrace ---------------------------
(* code -> spec for C10.  One record = one stack of blockwise layers built in
   dask (dask.blockwise.blockwise over materialized Herbrand leaf layers in a
   HighLevelGraph) + one request (set of keys) + what the real code did with it:

     base    [n, c, v]   value of every key of the unoptimized, unculled graph
     pipes   one entry per pipeline p that was run on the graph for the request:
               [p, cull, err, keys, vals]: exception type ("" = none), keys of the resulting
               graph, values [n, c, v] of the requested keys computed from it;
             cull = TRUE: the pipeline only culls (HighLevelGraph.cull), FALSE: it
             fuses (optimize_blockwise / fuse_roots), possibly culling afterwards
     lcull   per blockwise layer: [layer, blocks, cdeps, mdeps, err]: the blocks asked for,
             the dependency map returned by layer.cull (entries [c, deps]) and the dependencies
             of the materialized tasks of the culled layer (layers are culled top-down the way
             HighLevelGraph.cull does it: wanted keys of lower layers come from the maps above)
     err     exception while building / evaluating the plain graph ("" = none)
     fused   [p, root, group, ann]: a layer of a fused graph, the original layers it
             absorbed (root included) and its annotations

   Verdict clauses (short names, TLC wraps long PrintT lines):
     WF  the record's stack is not well-formed (harness error, never a verdict on dask)
     DN  a key of the plain graph does not have the value the stack denotes
     RZ  a pipeline raised
     CK  a culled graph lacks a key the request needs
     CV  a requested key is missing from / has another value in a culled graph
     FV  the same after fusion
     LD  layer.cull's dependency map differs from the materialized tasks' dependencies,
         lacks a needed block, or does not cover exactly the requested blocks
     FA  a fused layer's annotations are not the documented combination            *)
EXTENDS Blockwise, TraceIO

KeysOf(seq) == {Key(seq[i].n, seq[i].c) : i \in DOMAIN seq}
PipeBad(st, den, req, need, pp) ==
  IF pp.err # "" THEN {"RZ"}
  ELSE LET vok == ValuesOK(st, den, pp.vals) /\ KeysOf(pp.vals) = req IN
       IF pp.cull
       THEN Clause("CK", need \subseteq KeysOf(pp.keys)) \cup Clause("CV", vok)
       ELSE Clause("FV", vok)

DepsEntryOK(L, e, m) ==        \* e from cdeps, m the mdeps entry of the same block
  /\ KeysOf(e.deps) = KeysOf(m.deps)
  /\ Deps(L, e.c) \subseteq KeysOf(e.deps)

LCullOK(st, lc) ==
  LET L == LayerOf(st, lc.layer)
      want == Range(lc.blocks)
  IN /\ lc.err = ""
     /\ want \subseteq OutBlocks(L)
     /\ {lc.cdeps[i].c : i \in DOMAIN lc.cdeps} = want
     /\ {lc.mdeps[i].c : i \in DOMAIN lc.mdeps} = want
     /\ Len(lc.cdeps) = Cardinality(want) /\ Len(lc.mdeps) = Cardinality(want)
     /\ \A i \in DOMAIN lc.cdeps : \E j \in DOMAIN lc.mdeps :
           lc.mdeps[j].c = lc.cdeps[i].c /\ DepsEntryOK(L, lc.cdeps[i], lc.mdeps[j])

FusedOK(st, f) ==
  LET as == {AnnOfColl(st, n) : n \in Range(f.group)} IN
  /\ Range(f.group) \subseteq LayerNames(st) \cup LeafNames(st)
  /\ f.root \in Range(f.group)
  /\ ~f.ann.bad
  /\ FuseAnnOK(f.ann, as)
  /\ CalOK(f.ann, as)

Bad(r) ==
  IF ~StackOK(r.st) \/ ~(KeysOf(r.req) \subseteq AllKeys(r.st)) THEN {"WF"}
  ELSE IF r.err # "" THEN {"RZ"}
  ELSE
  LET st   == Prep(r.st)
      den  == Den(st)
      req  == KeysOf(r.req)
      need == Cull(st, req)
  IN Clause("DN", ValuesOK(st, den, r.base) /\ Cardinality(KeysOf(r.base)) = NumKeys(st))
     \cup UNION {PipeBad(st, den, req, need, r.pipes[i]) : i \in DOMAIN r.pipes}
     \cup Clause("LD", \A i \in DOMAIN r.lcull : LCullOK(st, r.lcull[i]))
     \cup Clause("FA", \A i \in DOMAIN r.fused : FusedOK(st, r.fused[i]))

Init == TInit
Next == TNext(Bad)
=============================================================================
