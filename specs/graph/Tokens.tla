------------------------------- MODULE Tokens -------------------------------
(* C12 - dask.tokenize: tokens are deterministic, observably different values
   get different tokens (dask/tokenize.py: _tokenize, normalize_token and its
   registered normalisers for containers, ndarray, memmap, pandas objects,
   dataclasses, partials, callables).

   The module has three parts.

   (1) An abstract universe of Python values, GENERATED HERE (no value and no
       equality decision comes from the harness).  Every value is a record
       tagged by its kind `k`.  A field name always holds the same TLA+ type
       whatever the kind (i: Int, s/dt/lay/nm/fn/cls: STRING, xs/zs: Seq(value),
       kv: Seq(<<value, value>>), cells/shape: Seq(Int), strs/cats: Seq(STRING),
       rows: Seq(Seq(Int)), cols: Seq(column record), ix: value), so that TLC
       can compare any two values without a type error.
          int bool float str bytes none                 scalars (float carries repr text)
          list tuple set frozenset                      xs = elements in construction order
          dict                                          kv = items in insertion order
          reclist [xs, zs] / recdict [s]                l = xs + [l] + zs ;  d = {s: d}
          nd   [dt, shape, lay, cells]                  ndarray; cells = LOGICAL content, C order
                                                        lay = memory layout the harness must build:
                                                        C, F, S2 (step-2 view), NEG (negative stride),
                                                        BC (0-stride broadcast view), TV (non-contiguous
                                                        view of an F-ordered buffer)
          mm   [dt, shape, cells]                       numpy.memmap on a scratch file
          oa   [shape, xs]                              object ndarray of str / bytes / int scalars
          ri ix mi cat ea ser df                        pandas RangeIndex, Index, MultiIndex,
                                                        Categorical, masked/string extension array,
                                                        Series, DataFrame (lay = how the frame is built,
                                                        i.e. its internal block structure)
          dc par fn lam                                 dataclass instance, functools.partial,
                                                        module-level function, lambda x: x + i
   (2) Eqv(a, b, strict): observable equality, structural.  Container order is
       significant for list/tuple, not for set/frozenset/dict (Python ==).
       Memory layout (nd.lay) and block structure (df.lay) are NOT observable:
       Eqv(.., FALSE) ignores them - this is the class used for DISTINCTNESS, so
       a layout-only pair is a don't-care there.  Eqv(.., TRUE) also compares
       lay: this finer class is the one DETERMINISM is demanded on (the same
       description rebuilt, deep-copied, pickled; equal containers built in
       another insertion order), so the property never demands that a C-order
       and an F-order array of equal content share a token.
   (3) The registry state machine (Pattern A).  An observation
          e = [det, cls, plain, tok, proc, how, raised]
       says: in interpreter `proc` a value of class `cls` (strict class `det`)
       was tokenised by route `how` and gave token `tok` (tokens and classes are
       interned positive integers).  The registry keeps
          tokOf : <<strict class, interpreter>> -> tok   (must stay a FUNCTION: determinism
                                                          inside one interpreter, every route)
          xtok  : strict class -> tok        (plain data only: the first token each interpreter
                                              produces must agree with the first one of any
                                              interpreter - the statement limits the promise
                                              across hash seeds to plain data)
          clsOf : tok -> cls                 (must stay a function: tokens injective on classes)  RegStep returns the new registry and the set
       of clauses the observation breaks; TokensMC checks the incremental
       registry against the global definition on all small histories,
       TokensTrace runs it over the observations recorded from dask.          *)
EXTENDS Naturals, Integers, Sequences, FiniteSets, TLC

CONSTANTS Big,      \* BOOLEAN: FALSE = quick menus, TRUE = thorough menus
          Fams      \* which families of the universe to generate (a set of the names below)

-----------------------------------------------------------------------------
\* (1) constructors and menus

I(n)  == [k |-> "int", i |-> n]
B(n)  == [k |-> "bool", i |-> n]
F(s)  == [k |-> "float", s |-> s]
S(s)  == [k |-> "str", s |-> s]
Y(s)  == [k |-> "bytes", s |-> s]
NoneV == [k |-> "none"]
L(xs)  == [k |-> "list", xs |-> xs]
Tu(xs) == [k |-> "tuple", xs |-> xs]
St(xs) == [k |-> "set", xs |-> xs]
Fs(xs) == [k |-> "frozenset", xs |-> xs]
D(kv)  == [k |-> "dict", kv |-> kv]

SeqsUpTo(A, n) == UNION { [1..m -> A] : m \in 0..n }
SeqsFromTo(A, lo, n) == UNION { [1..m -> A] : m \in lo..n }
NoDup(s) == \A p, q \in DOMAIN s : p # q => s[p] # s[q]

Scalars ==
  { I(0), I(1), I(-1), I(2), B(0), B(1), F("0.0"), F("1.0"), F("-0.0"), F("1.5"),
    S(""), S("1"), S("a"), S("a-b"), S("None"), S("True"), S("1.0"), S("0"),
    Y(""), Y("1"), Y("a"), NoneV }
  \cup (IF Big THEN { I(3), I(255), I(256), F("2.0"), F("inf"), S(" "), S("(1,)"), S("b"), Y("a-b"), S("-") } ELSE {})

\* elements of depth-1 sequences
Elem1 == { I(1), B(1), F("1.0"), S("1"), S("a"), NoneV, Y("1") } \cup (IF Big THEN { I(0), S("") } ELSE {})
Seqs1 == { L(xs) : xs \in SeqsUpTo(Elem1, 2) } \cup { Tu(xs) : xs \in SeqsUpTo(Elem1, 2) }
         \cup (IF Big THEN { L(xs) : xs \in [1..3 -> {I(1), S("1"), NoneV}] } ELSE {})

\* hashable menu for sets and dict keys: no two members are equal as Python keys;
\* several collide under str()
Hash1 == { I(1), I(2), S("1"), S("a"), NoneV, S("None") } \cup (IF Big THEN { S("2"), Y("1"), F("1.5"), S("1.5") } ELSE {})
HSeqs(n) == { s \in SeqsUpTo(Hash1, n) : NoDup(s) }
Sets1 == { St(xs) : xs \in HSeqs(IF Big THEN 3 ELSE 2) } \cup { Fs(xs) : xs \in HSeqs(2) }

DVals == { I(1), S("x"), S("y") }
Dicts1 == { D(<<>>) }
          \cup { D(<< <<ky, v>> >>) : ky \in Hash1, v \in DVals }
          \cup { D(<< <<ks[1], vs[1]>>, <<ks[2], vs[2]>> >>) :
                   ks \in { s \in [1..2 -> Hash1] : NoDup(s) },
                   vs \in { <<S("x"), S("y")>>, <<S("y"), S("x")>>, <<S("x"), S("x")>>, <<I(1), S("x")>> } }

\* depth 2: containers of depth-1 containers, chosen around the str()-collisions
Inner == { L(<<>>), L(<<I(1)>>), Tu(<<I(1)>>), L(<<S("1")>>), Tu(<<>>), I(1), S("1"),
           D(<< <<I(1), S("x")>>, <<S("1"), S("y")>> >>), D(<< <<S("1"), S("y")>>, <<I(1), S("x")>> >>),
           D(<< <<I(1), S("y")>>, <<S("1"), S("x")>> >>),
           St(<<I(1), S("1")>>), St(<<S("1"), I(1)>>), L(<<I(1), S("1")>>) }
         \cup (IF Big THEN { Tu(<<I(1), S("1")>>), Fs(<<NoneV, S("None")>>), Fs(<<S("None"), NoneV>>), D(<<>>), NoneV } ELSE {})
Seqs2 == { L(xs) : xs \in SeqsFromTo(Inner, 1, 2) } \cup { Tu(xs) : xs \in SeqsFromTo(Inner, 1, 2) }
TKey1 == Tu(<<I(1), S("1")>>)
TKey2 == Tu(<<I(1)>>)
Dicts2 == { D(<< <<ky, v>> >>) : ky \in { I(1), S("1"), S("a") }, v \in Inner }
          \cup { D(<< <<ks[1], S("x")>>, <<ks[2], S("y")>> >>) :
                   ks \in { s \in [1..2 -> { TKey1, S("(1, '1')"), TKey2, S("(1,)"), Tu(<<S("1"), I(1)>>) }] : NoDup(s) } }
          \cup { St(xs) : xs \in { s \in SeqsFromTo({ TKey2, S("(1,)"), Tu(<<>>), S("()") }, 1, 2) : NoDup(s) } }

\* self-referential containers, and the plain lists that spell dask's back-reference marker
RecVals == { [k |-> "reclist", xs |-> pre, zs |-> post] :
           pre \in SeqsUpTo({ I(1), I(2) }, 1), post \in SeqsUpTo({ I(1), I(2) }, 1) }
        \cup { [k |-> "recdict", s |-> ky] : ky \in { "a", "b" } }
        \cup { L(<< L(<<S("__seen"), I(n)>>) >>) : n \in 0..2 }
        \cup { L(<< I(1), L(<<S("__seen"), I(n)>>) >>) : n \in 1..2 }

\* ---- ndarrays: logical contents whose memory images coincide across layouts
Cells6 == { <<0, 1, 2, 3, 4, 5>>, <<0, 2, 4, 1, 3, 5>>, <<0, 3, 1, 4, 2, 5>>, <<0, 0, 1, 1, 2, 2>>,
            <<0, 1, 2, 0, 1, 2>>, <<5, 4, 3, 2, 1, 0>>, <<3, 4, 5, 0, 1, 2>>, <<0, 1, 0, 1, 0, 1>>, <<0, 0, 0, 1, 1, 1>> }
          \cup (IF Big THEN { <<1, 0, 3, 2, 5, 4>>, <<4, 5, 2, 3, 0, 1>>, <<2, 1, 0, 5, 4, 3>>, <<0, 4, 2, 1, 5, 3>>, <<1, 1, 1, 1, 1, 1>> } ELSE {})
Shapes6 == { <<6>>, <<2, 3>>, <<3, 2>> } \cup (IF Big THEN { <<1, 6>>, <<6, 1>>, <<2, 1, 3>>, <<3, 1, 2>> } ELSE {})
DTypes  == { "i8", "u8" } \cup (IF Big THEN { "f8", "i4" } ELSE {})

RECURSIVE ProdFrom(_, _)
ProdFrom(sh, j) == IF j > Len(sh) THEN 1 ELSE sh[j] * ProdFrom(sh, j + 1)
Prod(sh) == ProdFrom(sh, 1)
\* broadcast along axis 0 is possible iff every index along axis 0 shows the same sub-array
RowsEqual(sh, cells) == /\ Len(sh) >= 2 /\ sh[1] >= 2
                        /\ LET inner == Prod(sh) \div sh[1]
                           IN \A p \in 1..Len(cells) : cells[p] = cells[((p - 1) % inner) + 1]
NonUnit(sh) == Cardinality({ p \in DOMAIN sh : sh[p] > 1 })
\* a layout is offered only where it is a real layout (an axis of extent 1 has no stride to speak of)
Layouts(sh, cells) == { "C" }
                      \cup (IF sh[Len(sh)] >= 2 THEN { "S2" } ELSE {})
                      \cup (IF sh[1] >= 2 THEN { "NEG" } ELSE {})
                      \cup (IF NonUnit(sh) >= 2 THEN { "F" } ELSE {})
                      \cup (IF NonUnit(sh) >= 2 /\ sh[1] >= 2 THEN { "TV" } ELSE {})
                      \cup (IF RowsEqual(sh, cells) THEN { "BC" } ELSE {})
ND(dt, sh, lay, cells) == [k |-> "nd", dt |-> dt, shape |-> sh, lay |-> lay, cells |-> cells]
NDs == UNION { UNION { { ND(dt, sh, lay, c) : lay \in Layouts(sh, c), dt \in DTypes } : sh \in Shapes6 } : c \in Cells6 }
       \cup { ND(dt, sh, "C", <<n>>) : dt \in DTypes \cup { "f8" }, sh \in { <<>>, <<1>>, <<1, 1>> }, n \in { 0, 1 } }
MMs == { [k |-> "mm", dt |-> dt, shape |-> sh, cells |-> c] :
           dt \in { "i8", "u8" }, sh \in { <<6>>, <<2, 3>>, <<3, 2>> },
           c \in { <<0, 1, 2, 3, 4, 5>>, <<0, 2, 4, 1, 3, 5>>, <<5, 4, 3, 2, 1, 0>> } }

\* ---- object arrays of strings / bytes whose "-"-joins coincide
OStr == { "a", "b", "c", "a-b", "b-c", "-", "", "a-", "-b" }
OAs == { [k |-> "oa", shape |-> <<2>>, xs |-> <<S(p), S(q)>>] : p, q \in OStr }
       \cup { [k |-> "oa", shape |-> <<3>>, xs |-> <<S(p), S(q), S(r)>>] : p, q, r \in { "a", "b", "-", "" } }
       \cup { [k |-> "oa", shape |-> sh, xs |-> <<S(p), S(q)>>] : sh \in { <<2, 1>>, <<1, 2>> }, p, q \in { "a-b", "c", "a", "b-c" } }
       \cup { [k |-> "oa", shape |-> <<2>>, xs |-> <<Y(p), Y(q)>>] : p, q \in { "a-b", "c", "a", "b-c" } }
       \cup { [k |-> "oa", shape |-> <<2>>, xs |-> xs] : xs \in { <<I(1), S("1")>>, <<S("1"), I(1)>>, <<I(1), I(1)>>, <<S("a"), Y("a")>>,
                                                               <<Y("a"), S("a")>>, <<NoneV, S("None")>>, <<S("None"), NoneV>> } }

\* ---- pandas
NoName == "~"                  \* the harness builds name=None for "~"
RI(n, nm) == [k |-> "ri", i |-> n, nm |-> nm]
IXc(nm, dt, cells) == [k |-> "ix", nm |-> nm, dt |-> dt, cells |-> cells]
IXs(nm, dt, strs)  == [k |-> "ix", nm |-> nm, dt |-> dt, strs |-> strs]
Names == { NoName, "a", "b" }
IntVals2 == { <<1, 2>>, <<2, 1>>, <<1, 1>> }
StrVals2 == { <<"a-b", "c">>, <<"a", "b-c">>, <<"a", "b">>, <<"a-", "b-c">> }
Indexes == { IXc(nm, dt, c) : nm \in Names, dt \in { "i8", "f8", "Int64", "Int8" }, c \in IntVals2 }
           \cup { IXs(nm, dt, s) : nm \in Names, dt \in { "str", "obj" }, s \in StrVals2 }
           \cup { RI(n, nm) : n \in { 2, 3 }, nm \in Names }
SerIx == { RI(2, NoName), IXc(NoName, "i8", <<0, 1>>), IXc(NoName, "i8", <<1, 0>>), IXc("a", "i8", <<0, 1>>) }
         \cup (IF Big THEN { IXc(NoName, "i8", <<0, 2>>), IXs(NoName, "str", <<"a", "b">>), IXs(NoName, "str", <<"a-b", "c">>), IXs(NoName, "str", <<"a", "b-c">>) } ELSE {})
Series == { [k |-> "ser", nm |-> nm, dt |-> dt, ix |-> ix, cells |-> c] :
              nm \in Names, dt \in { "i8", "f8" } \cup (IF Big THEN { "Int64", "u8" } ELSE {}), ix \in SerIx, c \in IntVals2 }
          \cup { [k |-> "ser", nm |-> nm, dt |-> dt, ix |-> ix, strs |-> s] :
                   nm \in Names, dt \in { "str", "obj" }, ix \in SerIx, s \in StrVals2 }
MIs == { [k |-> "mi", strs |-> nms, rows |-> rw] :
           nms \in { <<"a", "b">>, <<"a", "c">>, <<NoName, NoName>>, <<"b", "a">> },
           rw \in { << <<1, 2>>, <<3, 4>> >>, << <<1, 4>>, <<3, 2>> >>, << <<3, 4>>, <<1, 2>> >>, << <<1, 2>>, <<1, 4>> >>, << <<2, 1>>, <<4, 3>> >> } }
Cats == UNION { { [k |-> "cat", cats |-> cs, strs |-> vs, i |-> o] : vs \in [1..2 -> { cs[p] : p \in DOMAIN cs }], o \in { 0, 1 } }
                : cs \in { <<"a", "b">>, <<"b", "a">>, <<"a", "b", "c">>, <<"a-b", "c">>, <<"a", "b-c">> } }
EAs == { [k |-> "ea", dt |-> dt, cells |-> c] : dt \in { "Int64", "Int8", "UInt8", "Float64" }, c \in IntVals2 \cup { <<1, -99>>, <<-99, 1>> } }
       \cup { [k |-> "ea", dt |-> "string", strs |-> s] : s \in StrVals2 }       \* -99 stands for pd.NA
Col(nm, dt, cells) == [nm |-> nm, dt |-> dt, cells |-> cells]
ColS(nm, dt, strs) == [nm |-> nm, dt |-> dt, strs |-> strs]
ColSets == { << Col("a", "i8", <<1>>), Col("b", "i8", <<2>>), Col("c", "f8", <<9>>) >>,
             << Col("a", "i8", <<1>>), Col("b", "f8", <<9>>), Col("c", "i8", <<2>>) >>,
             << Col("a", "f8", <<9>>), Col("b", "i8", <<1>>), Col("c", "i8", <<2>>) >>,
             << Col("a", "i8", <<2>>), Col("b", "i8", <<1>>), Col("c", "f8", <<9>>) >>,
             << Col("a", "i8", <<1, 2>>), Col("b", "i8", <<3, 4>>) >>,
             << Col("a", "i8", <<1, 3>>), Col("b", "i8", <<2, 4>>) >>,
             << Col("a", "i8", <<3, 4>>), Col("b", "i8", <<1, 2>>) >>,
             << Col("b", "i8", <<1, 2>>), Col("a", "i8", <<3, 4>>) >>,
             << Col("a", "f8", <<1, 2>>), Col("b", "i8", <<3, 4>>) >>,
             << Col("a", "i8", <<1, 2>>) >>,
             << ColS("a", "str", <<"a-b", "c">>) >>, << ColS("a", "str", <<"a", "b-c">>) >>,
             << ColS("a", "obj", <<"a-b", "c">>) >>, << ColS("a", "obj", <<"a", "b-c">>) >>,
             << Col("a", "i8", <<1, 2>>), ColS("b", "str", <<"a-b", "c">>) >>,
             << Col("a", "i8", <<1, 2>>), ColS("b", "str", <<"a", "b-c">>) >> }
NRows(cs) == IF "cells" \in DOMAIN cs[1] THEN Len(cs[1].cells) ELSE Len(cs[1].strs)
DFs == UNION { { [k |-> "df", cols |-> cs, ix |-> ix, lay |-> lay] :
                   lay \in { "dict", "colwise", "2d" },
                   ix \in { RI(NRows(cs), NoName) } \cup (IF NRows(cs) = 2 THEN { IXc(NoName, "i8", <<1, 0>>), IXc("a", "i8", <<0, 1>>) }
                                                          ELSE { IXc(NoName, "i8", <<5>>) }) }
               : cs \in ColSets }

\* ---- dataclasses, partials, callables (classes A, B and functions f, g live in harness/tokvals.py)
Arg == { I(1), I(2), S("1"), L(<<I(1)>>), Tu(<<I(1)>>) }
DCs == { [k |-> "dc", cls |-> c, xs |-> <<p, q>>] : c \in { "A", "B" }, p, q \in Arg }
Pars == { [k |-> "par", fn |-> f, xs |-> a, kv |-> kw] :
            f \in { "f", "g" }, a \in SeqsUpTo({ I(1), I(2), S("1") }, 2),
            kw \in { <<>>, << <<S("p"), I(1)>> >>, << <<S("q"), I(1)>> >>, << <<S("p"), I(2)>> >>,
                     << <<S("p"), I(1)>>, <<S("q"), I(2)>> >>, << <<S("q"), I(2)>>, <<S("p"), I(1)>> >> } }
Fns == { [k |-> "fn", fn |-> f] : f \in { "f", "g", "A", "B" } } \cup { [k |-> "lam", i |-> c] : c \in 0..3 }

AllFams == { "scalars", "seqs1", "sets1", "dicts1", "seqs2", "dicts2", "recs", "nds", "mms", "oas", "indexes", "series",
             "mis", "cats", "eas", "dfs", "dcs", "pars", "fns" }
Family(fm) == CASE fm = "scalars" -> Scalars [] fm = "seqs1" -> Seqs1 [] fm = "sets1" -> Sets1 [] fm = "dicts1" -> Dicts1
                [] fm = "seqs2" -> Seqs2 [] fm = "dicts2" -> Dicts2 [] fm = "recs" -> RecVals [] fm = "nds" -> NDs [] fm = "mms" -> MMs
                [] fm = "oas" -> OAs [] fm = "indexes" -> Indexes [] fm = "series" -> Series [] fm = "mis" -> MIs [] fm = "cats" -> Cats
                [] fm = "eas" -> EAs [] fm = "dfs" -> DFs [] fm = "dcs" -> DCs [] fm = "pars" -> Pars [] fm = "fns" -> Fns
\* (TLCEval forces the lazily represented sets / functions into explicit values once)
Universe == TLCEval(UNION { Family(fm) : fm \in Fams })

\* Buckets: a cheap discriminator that observable equality respects (Eqv(a, b, _) => Sig(a) = Sig(b), checked by
\* TokensMC!SigRespected against the whole kind), so that class representatives are searched in small sets
SigI(v) == CASE v.k \in { "list", "tuple", "set", "frozenset", "oa", "dc" } -> Len(v.xs)
             [] v.k = "dict" -> Len(v.kv)
             [] v.k = "nd"   -> Len(v.shape)
             [] v.k = "par"  -> Len(v.xs) * 4 + Len(v.kv)
             [] v.k = "df"   -> Len(v.cols)
             [] OTHER -> 0
SigS(v) == CASE v.k \in { "list", "tuple" } -> (IF Len(v.xs) > 0 THEN v.xs[1].k ELSE "")
             [] v.k = "oa"   -> v.xs[1].k \o (IF v.xs[1].k \in { "str", "bytes" } THEN v.xs[1].s ELSE "")
             [] v.k = "nd"   -> v.dt
             [] v.k \in { "ser", "ix" } -> v.nm \o v.dt
             [] v.k = "dc"   -> v.cls
             [] v.k = "par"  -> v.fn
             [] v.k = "df"   -> v.cols[1].dt
             [] v.k = "cat"  -> v.cats[1]
             [] OTHER -> ""
Sig(v) == <<v.k, SigI(v), SigS(v)>>
Kinds == TLCEval({ v.k : v \in Universe })
ByKind == TLCEval([kd \in Kinds |-> TLCEval({ v \in Universe : v.k = kd })])
Sigs == TLCEval({ Sig(v) : v \in Universe })
Bucket == TLCEval([sg \in Sigs |-> TLCEval({ v \in Universe : Sig(v) = sg })])

-----------------------------------------------------------------------------
\* (2) observable equality

RECURSIVE Eqv(_, _, _)
SeqEqv(a, b, st) == Len(a) = Len(b) /\ \A p \in DOMAIN a : Eqv(a[p], b[p], st)
Member(x, s, st) == \E p \in DOMAIN s : Eqv(x, s[p], st)
BagEqv(a, b, st) == (\A p \in DOMAIN a : Member(a[p], b, st)) /\ (\A p \in DOMAIN b : Member(b[p], a, st))
MapEqv(a, b, st) == /\ Len(a) = Len(b)
                    /\ \A p \in DOMAIN a : \E q \in DOMAIN b : Eqv(a[p][1], b[q][1], st) /\ Eqv(a[p][2], b[q][2], st)
Payload(a, b) ==  \* cells or strs, whichever the record carries
  /\ ("cells" \in DOMAIN a) = ("cells" \in DOMAIN b)
  /\ IF "cells" \in DOMAIN a THEN a.cells = b.cells ELSE a.strs = b.strs

Eqv(a, b, st) ==
  /\ a.k = b.k
  /\ CASE a.k \in { "int", "bool" }           -> a.i = b.i
       [] a.k \in { "float", "str", "bytes" } -> a.s = b.s
       [] a.k = "none"                        -> TRUE
       [] a.k \in { "list", "tuple" }         -> SeqEqv(a.xs, b.xs, st)
       [] a.k \in { "set", "frozenset" }      -> BagEqv(a.xs, b.xs, st)
       [] a.k = "dict"                        -> MapEqv(a.kv, b.kv, st)
       [] a.k = "reclist"                     -> SeqEqv(a.xs, b.xs, st) /\ SeqEqv(a.zs, b.zs, st)
       [] a.k = "recdict"                     -> a.s = b.s
       [] a.k = "nd"                          -> a.dt = b.dt /\ a.shape = b.shape /\ a.cells = b.cells /\ (st => a.lay = b.lay)
       [] a.k = "mm"                          -> a.dt = b.dt /\ a.shape = b.shape /\ a.cells = b.cells
       [] a.k = "oa"                          -> a.shape = b.shape /\ SeqEqv(a.xs, b.xs, st)
       [] a.k = "ri"                          -> a.i = b.i /\ a.nm = b.nm
       [] a.k = "ix"                          -> a.nm = b.nm /\ a.dt = b.dt /\ Payload(a, b)
       [] a.k = "mi"                          -> a.strs = b.strs /\ a.rows = b.rows
       [] a.k = "cat"                         -> a.cats = b.cats /\ a.strs = b.strs /\ a.i = b.i
       [] a.k = "ea"                          -> a.dt = b.dt /\ Payload(a, b)
       [] a.k = "ser"                         -> a.nm = b.nm /\ a.dt = b.dt /\ Eqv(a.ix, b.ix, st) /\ Payload(a, b)
       [] a.k = "df"                          -> /\ Len(a.cols) = Len(b.cols)
                                                 /\ \A p \in DOMAIN a.cols : a.cols[p].nm = b.cols[p].nm /\ a.cols[p].dt = b.cols[p].dt
                                                                            /\ Payload(a.cols[p], b.cols[p])
                                                 /\ Eqv(a.ix, b.ix, st) /\ (st => a.lay = b.lay)
       [] a.k = "dc"                          -> a.cls = b.cls /\ SeqEqv(a.xs, b.xs, st)
       [] a.k = "par"                         -> a.fn = b.fn /\ SeqEqv(a.xs, b.xs, st) /\ MapEqv(a.kv, b.kv, st)
       [] a.k = "fn"                          -> a.fn = b.fn
       [] a.k = "lam"                         -> a.i = b.i

\* class representatives: the first member of the universe (in TLC's fixed enumeration order) that is equivalent
Rep(v)    == CHOOSE w \in Bucket[Sig(v)] : Eqv(v, w, FALSE)
DetRep(v) == CHOOSE w \in Bucket[Sig(v)] : Eqv(v, w, TRUE)

\* plain data in the sense of the statement: the token must not depend on the interpreter / hash seed
RECURSIVE Plain(_)
Plain(v) == CASE v.k \in { "int", "bool", "float", "str", "bytes", "none" } -> TRUE
              [] v.k \in { "list", "tuple" } -> \A p \in DOMAIN v.xs : Plain(v.xs[p])
              [] v.k = "dict" -> \A p \in DOMAIN v.kv : Plain(v.kv[p][1]) /\ Plain(v.kv[p][2])
              [] v.k \in { "reclist", "recdict", "nd", "mm", "oa", "ri", "ix", "mi", "cat", "ea", "ser", "df" } -> TRUE
              [] OTHER -> FALSE

\* the routes on which the token of v must be reproduced inside one interpreter
Hows(v) == { "same", "again", "deepcopy", "pickle" } \cup (IF v.k = "lam" THEN {} ELSE { "rebuilt" })

-----------------------------------------------------------------------------
\* (3) the registry

EmptyReg == [tokOf |-> <<>>, xtok |-> <<>>, clsOf |-> <<>>]       \* functions with growing domain (<<>> = empty function)

FKey(e) == e.det * 8 + e.proc          \* interpreters are numbered 0..7

RegStep(reg, e) ==
  IF e.raised THEN [reg |-> reg, bad |-> { "Raised" }]
  ELSE
  LET fk   == FKey(e)
      hadF == fk \in DOMAIN reg.tokOf
      isX  == e.plain /\ ~hadF                  \* the first observation of a plain class in this interpreter ...
      hadX == isX /\ e.det \in DOMAIN reg.xtok  \* ... is compared with the first one of any interpreter
      hadI == e.tok \in DOMAIN reg.clsOf
      badF == IF hadF /\ reg.tokOf[fk] # e.tok THEN { "Det_" \o e.how } ELSE {}
      badX == IF hadX /\ reg.xtok[e.det] # e.tok THEN { "DetAcrossInterpreters" } ELSE {}
      badI == IF hadI /\ reg.clsOf[e.tok] # e.cls THEN { "Distinct" } ELSE {}
      tok2 == IF hadF THEN reg.tokOf ELSE (fk :> e.tok) @@ reg.tokOf
      xtk2 == IF isX /\ ~hadX THEN (e.det :> e.tok) @@ reg.xtok ELSE reg.xtok
      cls2 == IF hadI THEN reg.clsOf ELSE (e.tok :> e.cls) @@ reg.clsOf
  IN [reg |-> [tokOf |-> tok2, xtok |-> xtk2, clsOf |-> cls2], bad |-> badF \cup badX \cup badI]

\* the global definitions the registry implements, on a set of observations
Functional(es)      == \A e1, e2 \in es : FKey(e1) = FKey(e2) => e1.tok = e2.tok
PlainFunctional(es) == \A e1, e2 \in es : (e1.plain /\ e1.det = e2.det) => e1.tok = e2.tok
Injective(es)       == \A e1, e2 \in es : e1.tok = e2.tok => e1.cls = e2.cls
=============================================================================
