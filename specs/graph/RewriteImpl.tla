---------------------------- MODULE RewriteImpl ----------------------------
(* C51: an implementation-shaped transcription of dask/rewrite.py -
   RuleSet.add (the discrimination net), Traverser (pre-order traversal with an
   explicit stack), _match (the net walk with its backtracking stack and
   restore_state_flag) and _process_match - as a deterministic state machine,
   one step per iteration of the `while True` loop of _match.
   TLC checks transcription => contract (module Rewrite) on the bounded space
   (RewriteImplMC); the sequence of matches the real iter_matches yields is
   compared with the sequence the transcription yields.

   Python                                   here
   ------                                   ----
   head(term) / Token VAR / Token END       the head string / "?" / "$end"
   the net: Node(edges, patterns)           a node is the token sequence leading to it; the net is
                                            the set of prefixes of the rules' pre-order traversals
   Traverser(term, _stack)                  sterm, sstk   (END term at the bottom of sstk)
   stack / restore_state_flag / matches     bstack / flag / matches
   the generator's yields, run through      ys: the sequence of <<rule index, substitution>>
   _process_match in iter_matches           iter_matches yields                               *)
EXTENDS Rewrite

VARIABLES rules, term,                        \* the call
          sterm, sstk, node, matches, bstack, flag, ys, pc

ivars == <<rules, term, sterm, sstk, node, matches, bstack, flag, ys, pc>>

VarTok == "?"
EndTok == "$end"
EndTerm == <<EndTok>>

RECURSIVE Cat(_)
Cat(ss) == IF ss = <<>> THEN <<>> ELSE Head(ss) \o Cat(Tail(ss))
\* pre-order traversal of a left-hand side as RuleSet.add sees it (variables become VAR)
RECURSIVE Pre(_)
Pre(t) == IF IsVar(t) THEN <<VarTok>>
          ELSE <<t[1]>> \o Cat([i \in 1..(Len(t) - 1) |-> Pre(t[i + 1])])
\* rule._varlist: the variable occurrences in traversal order
RECURSIVE VarList(_)
VarList(t) == IF IsVar(t) THEN <<t[1]>>
              ELSE Cat([i \in 1..(Len(t) - 1) |-> VarList(t[i + 1])])

Prefixes(q)  == { SubSeq(q, 1, n) : n \in 0..Len(q) }
Nodes        == UNION { Prefixes(Pre(rules[i].lhs)) : i \in DOMAIN rules }
HasEdge(n, tok) == Append(n, tok) \in Nodes
PatternsAt(n)   == { i \in DOMAIN rules : Pre(rules[i].lhs) = n }

Reverse(q) == [i \in 1..Len(q) |-> q[Len(q) + 1 - i]]

\* _process_match: {substitution} or {} (inconsistent repeated variable)
RECURSIVE Proc(_, _, _)
Proc(vl, sy, s) == IF vl = <<>> THEN {s}
                   ELSE IF Head(vl) \in DOMAIN s /\ s[Head(vl)] # Head(sy) THEN {}
                   ELSE Proc(Tail(vl), Tail(sy), Ext(s, Head(vl), Head(sy)))

\* what iter_matches yields for one (N.patterns, matches) pair, in pattern (= rule index) order;
\* a rule whose variable count differs from len(matches) makes _process_match raise RuntimeError
RECURSIVE EmitFrom(_, _, _)
EmitFrom(i, n, ms) ==
  IF i > Len(rules) THEN <<>>
  ELSE IF i \notin PatternsAt(n) THEN EmitFrom(i + 1, n, ms)
  ELSE LET vl == VarList(rules[i].lhs) IN
       IF Len(vl) # Len(ms) THEN << <<0, EmptySub>> >>            \* marker: RuntimeError
       ELSE LET r == Proc(vl, ms, EmptySub) IN
            (IF r = {} THEN <<>> ELSE << <<i, CHOOSE s \in r : TRUE>> >>) \o EmitFrom(i + 1, n, ms)

ImplInit(rs, t) ==
  /\ rules = rs /\ term = t
  /\ sterm = t /\ sstk = <<EndTerm>> /\ node = <<>> /\ matches = <<>>
  /\ bstack = <<>> /\ flag = FALSE /\ ys = <<>> /\ pc = "loop"

Step ==
  /\ pc = "loop"
  /\ LET cur  == sterm[1]
         emit == IF cur = EndTok THEN EmitFrom(1, node, matches) ELSE <<>>
         err  == \E j \in DOMAIN emit : emit[j][1] = 0
     IN
     IF err THEN /\ pc' = "runtimeerror"
                 /\ UNCHANGED <<rules, term, sterm, sstk, node, matches, bstack, flag, ys>>
     ELSE
     /\ ys' = ys \o emit
     /\ IF HasEdge(node, cur) /\ ~flag
        THEN \* follow the constant / function-symbol edge, remember the state for backtracking; S.next()
             /\ bstack' = Append(bstack, [sterm |-> sterm, sstk |-> sstk, node |-> node, matches |-> matches])
             /\ node' = Append(node, cur)
             /\ IF Len(sterm) = 1
                THEN /\ sterm' = sstk[Len(sstk)]
                     /\ sstk' = SubSeq(sstk, 1, Len(sstk) - 1)
                ELSE /\ sterm' = sterm[2]
                     /\ sstk' = sstk \o Reverse(SubSeq(sterm, 3, Len(sterm)))
             /\ UNCHANGED <<rules, term, matches, flag, pc>>
        ELSE IF HasEdge(node, VarTok)
        THEN \* bind the variable to the whole sub-term; S.skip()
             IF sstk = <<>> THEN /\ pc' = "indexerror"         \* deque.pop() on an empty deque
                                 /\ UNCHANGED <<rules, term, sterm, sstk, node, matches, bstack, flag>>
             ELSE /\ flag' = FALSE
                  /\ matches' = Append(matches, sterm)
                  /\ sterm' = sstk[Len(sstk)]
                  /\ sstk' = SubSeq(sstk, 1, Len(sstk) - 1)
                  /\ node' = Append(node, VarTok)
                  /\ UNCHANGED <<rules, term, bstack, pc>>
        ELSE IF bstack # <<>>
        THEN \* backtrack
             LET b == bstack[Len(bstack)] IN
             /\ sterm' = b.sterm /\ sstk' = b.sstk /\ node' = b.node /\ matches' = b.matches
             /\ bstack' = SubSeq(bstack, 1, Len(bstack) - 1)
             /\ flag' = TRUE
             /\ UNCHANGED <<rules, term, pc>>
        ELSE /\ pc' = "done"
             /\ UNCHANGED <<rules, term, sterm, sstk, node, matches, bstack, flag>>

ImplNext == Step \/ (pc # "loop" /\ UNCHANGED ivars)

\* transcription => contract, for input inside the property's domain (well-formed over the
\* fixed-arity signature); outside it the transcription is only run and compared with the code
InDomain       == WF(term) /\ Ground(term) /\ \A i \in DOMAIN rules : WF(rules[i].lhs)
Finished       == pc # "loop"
ImplContract   == (pc = "done" /\ InDomain) => IterMatchesOK(rules, term, ys)
NoIndexError   == InDomain => pc # "indexerror"
NoRuntimeError == InDomain => pc # "runtimeerror"
\* the traversal never loses the END sentinel while the walk is running
SentinelKept   == pc = "loop" => (sterm = EndTerm /\ sstk = <<>>) \/ (sstk # <<>> /\ sstk[1] = EndTerm)
NodeInNet      == node \in Nodes
=============================================================================
