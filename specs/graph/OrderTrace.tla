----------------------------- MODULE OrderTrace -----------------------------
(* C06, code -> spec: one record per real call of dask.order.order:
     [id, n, deps: <<<<d, ...>>, ...>> (keys renamed to 1..n, external keys > n),
      res: "ok" | "raised" | "hang", prio: << <<key, priority>>, ... >>,
      ints: TRUE iff every returned priority was a Python int]
   Keys of the returned dict that are neither graph keys nor external keys are
   recorded as 0.  TLC decides every record against the contract of Order.    *)
EXTENDS Order, TraceIO

Bad(r) ==
  LET g == GraphOfSeqs(r.n, r.deps) IN
  IF HasCycle(g) THEN Clause("CycleNotRejected", r.res = "raised")
  ELSE IF r.res = "raised" THEN {"UnexpectedRaise"}
  ELSE IF r.res # "ok" THEN {"Hang"}
  ELSE IF ~r.ints THEN {"PriorityType"}
  ELSE Clause("Domain", Domain(g, r.prio))
       \cup Clause("Distinct", Distinct(r.prio))
       \cup Clause("DepsFirst", DepsFirst(g, r.prio))

Init == TInit
Next == TNext(Bad)
=============================================================================
