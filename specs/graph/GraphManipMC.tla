--------------------------- MODULE GraphManipMC ---------------------------
(* C16, design check + case enumeration.

   Configurations: N collections in a DAG (collection i is computed blockwise,
   chunk by chunk, from the collections Dag[i], all with P chunks), an operation
   (clone / bind / wait_on / checkpoint) and its arguments: children, parents,
   omit (sets of collections).  Every configuration is one initial state.

   A reference transcription of dask.graph_manipulation on these graphs (what
   bind / clone are documented to build: regenerate the children down to, and
   excluding, the omit collections; bind the leaves of the regeneration to one
   blocker that waits for every chunk of the parents) must satisfy the contract
   of module GraphManip on every configuration (invariants Ref...).  With
   Impl = "unsubstituted" the transcription models Layer.clone as it treats
   task OBJECTS: the regenerated tasks get new keys but keep referring to the
   original keys - TLC must then report RefRegenerated violated (the harness
   checks that it does: the clause has teeth).

   The exported configuration drives the real functions (harness/drivers/C16.py).  *)
EXTENDS GraphManip, Json

CONSTANTS N,        \* number of collections (2..4)
          P,        \* chunks per collection in the reference graphs
          Ops,      \* subset of {"clone", "bind", "wait_on", "checkpoint"}
          Impl      \* "ref" | "unsubstituted"

VARIABLES case, out

Ref(k)     == [t |-> "ref", k |-> k]
Call(f, a) == [t |-> "call", f |-> f, a |-> a]
ListE(a)   == [t |-> "list", a |-> a]
Lit(s)     == [t |-> "lit", s |-> s]

FName == <<"f1", "f2", "f3", "f4">>
Colls == 1..N
Chunks == 1..P

\* the x-th smallest element of a set of naturals, as a sequence
RECURSIVE Sorted(_)
Sorted(S) == IF S = {} THEN <<>> ELSE LET m == CHOOSE x \in S : \A y \in S : x <= y IN <<m>> \o Sorted(S \ {m})

Dags == { d \in [Colls -> SUBSET Colls] : \A i \in Colls : d[i] \subseteq 1..(i - 1) /\ Cardinality(d[i]) <= 2 }
NonEmpty == (SUBSET Colls) \ {{}}

\* second = {}: one call.  Otherwise TWO calls that share a member and whose results are used in one graph:
\*   wait_on / checkpoint: a second group of collections (second) that shares a collection with the first;
\*   bind: the same child bound to other parents (second);   clone: the same children cloned with another seed.
Singletons == { {i} : i \in Colls }
Cases ==
  UNION {
    (IF "clone" \in Ops THEN [dag : {d}, op : {"clone"}, children : NonEmpty, parents : {{}}, omit : SUBSET Colls, second : {{}}]
                              \cup { [dag |-> d, op |-> "clone", children |-> ch, parents |-> {}, omit |-> {}, second |-> ch] : ch \in NonEmpty }
     ELSE {})
    \cup (IF "bind" \in Ops THEN [dag : {d}, op : {"bind"}, children : NonEmpty, parents : NonEmpty, omit : SUBSET Colls, second : {{}}]
                                 \cup { x \in [dag : {d}, op : {"bind"}, children : Singletons, parents : NonEmpty, omit : {{}}, second : Singletons]
                                         : x.second # x.parents }
           ELSE {})
    \cup (IF "wait_on" \in Ops THEN { x \in [dag : {d}, op : {"wait_on"}, children : NonEmpty, parents : {{}}, omit : {{}}, second : SUBSET Colls]
                                        : x.second = {} \/ (x.second # x.children /\ x.second \cap x.children # {}) } ELSE {})
    \cup (IF "checkpoint" \in Ops THEN { x \in [dag : {d}, op : {"checkpoint"}, children : NonEmpty, parents : {{}}, omit : {{}}, second : SUBSET Colls]
                                           : x.second = {} \/ (x.second # x.children /\ x.second \cap x.children # {}) } ELSE {})
    : d \in Dags }

\* omit names collections the children are built from (or unrelated ones): a call that omits a child, or a
\* collection that is itself computed from a child, is not meaningful (with assume_layers = False the whole
\* graph of an omit collection is left alone, a child inside it included)
RECURSIVE AncOrSelf(_, _)
AncOrSelf(dag, S) == LET T == S \cup UNION { dag[i] : i \in S } IN IF T = S THEN S ELSE AncOrSelf(dag, T)
Meaningful(c) == c.children \cap AncOrSelf(c.dag, c.omit) = {}

\* ---------------------------------------------------------------- reference graphs
K(i, j, gen) == <<i, j, gen>>
BKeyT(tag) == <<0, 0, 9 + tag>>
BKey == BKeyT(0)

G0(c) == [k \in { K(i, j, 0) : i \in Colls, j \in Chunks } |->
            LET ds == Sorted(c.dag[k[1]]) IN
            Call(FName[k[1]], IF Len(ds) = 0 THEN <<Lit("L")>> ELSE [x \in DOMAIN ds |-> Ref(K(ds[x], k[2], 0))])]

\* collections regenerated: reachable from the children along dependencies without passing through omit
RECURSIVE RegenFrom(_, _)
RegenFrom(c, S) == LET T == S \cup UNION { c.dag[i] \ c.omit : i \in S } IN IF T = S THEN S ELSE RegenFrom(c, T)
Regen(c) == RegenFrom(c, c.children)

ChunksOf(S, gen) == { K(i, j, gen) : i \in S, j \in Chunks }
SeqChunks(S, gen) == LET cs == Sorted(S) IN
  [x \in 1..(Len(cs) * P) |-> K(cs[((x - 1) \div P) + 1], ((x - 1) % P) + 1, gen)]

Blocker(S) == Call("CHECKPOINT", <<ListE([x \in DOMAIN SeqChunks(S, 0) |-> Ref(SeqChunks(S, 0)[x])])>>)

Merge(f, h) == [k \in (DOMAIN f) \cup (DOMAIN h) |-> IF k \in DOMAIN h THEN h[k] ELSE f[k]]

\* the result of one call; tag = 0 / 1 keeps the keys of two calls apart (another seed, another blocker)
G2T(c, tag) ==
  LET g  == G0(c)
      rg == Regen(c)
      g1 == 1 + 10 * tag
      g2 == 2 + 10 * tag
      bk == BKeyT(tag)
      bound == c.op = "bind"
      newexpr(i, j) ==
        LET ds == Sorted(c.dag[i])
            e  == Call(FName[i], IF Len(ds) = 0 THEN <<Lit("L")>>
                                 ELSE [x \in DOMAIN ds |-> Ref(K(ds[x], j, IF ds[x] \in rg /\ Impl = "ref" THEN g1 ELSE 0))])
            leaf == c.dag[i] \cap rg = {}
        IN IF bound /\ leaf THEN Call("BIND", <<e, Ref(bk)>>) ELSE e
  IN CASE c.op \in {"clone", "bind"} ->
            Merge(Merge(g, [k \in ChunksOf(rg, g1) |-> newexpr(k[1], k[2])]),
                  IF bound THEN [k \in {bk} |-> Blocker(c.parents)] ELSE [k \in {} |-> NoneT])
       [] c.op = "wait_on" ->
            Merge(Merge(g, [k \in ChunksOf(c.children, g2) |-> Call("BIND", <<Ref(K(k[1], k[2], 0)), Ref(bk)>>)]),
                  [k \in {bk} |-> Blocker(c.children)])
       [] c.op = "checkpoint" -> Merge(g, [k \in {bk} |-> Blocker(c.children)])

\* the second call of a configuration
SecondOf(c) == CASE c.op = "bind"  -> [c EXCEPT !.parents = c.second]
                 [] c.op = "clone" -> c
                 [] OTHER          -> [c EXCEPT !.children = c.second]
Double(c) == c.second # {}
\* the graph in which the results are used together
G2(c) == IF Double(c) THEN Merge(G2T(c, 0), G2T(SecondOf(c), 1)) ELSE G2T(c, 0)

Out(c)  == SeqChunks(c.children, 0)
Out2T(c, tag) == CASE c.op \in {"clone", "bind"} -> SeqChunks(c.children, 1 + 10 * tag)
                   [] c.op = "wait_on"           -> SeqChunks(c.children, 2 + 10 * tag)
                   [] c.op = "checkpoint"        -> <<BKeyT(tag)>>
Out2(c) == Out2T(c, 0)
OmitOut(c)   == ChunksOf(c.omit, 0)
ParentOut(c) == ChunksOf(c.parents, 0)

\* collections whose ORIGINAL chunks the result still needs
KeptNeeded(c) == { i \in Colls : \E j \in Chunks : K(i, j, 0) \in Needed(G2T(c, 0), RangeS(Out2(c))) }

Export(c) == [n |-> N, dag |-> [i \in Colls |-> Sorted(c.dag[i])], op |-> c.op, children |-> Sorted(c.children),
              parents |-> Sorted(c.parents), omit |-> Sorted(c.omit), second |-> Sorted(c.second),
              regen |-> IF c.op \in {"clone", "bind"} THEN Sorted(Regen(c)) ELSE <<>>,
              kept |-> Sorted(KeptNeeded(c))]

Init == /\ case \in { c \in Cases : Meaningful(c) }
        /\ out = ToJson(Export(case))
Next == UNCHANGED <<case, out>>

\* ---------------------------------------------------------------- the contract holds for the reference
\* every clause for the first call and, in a double configuration, for the second call - both in the joint graph
C2 == SecondOf(case)
RefDenotes       == /\ Denotes(case.op, G0(case), Out(case), G2(case), Out2T(case, 0))
                    /\ Double(case) => Denotes(case.op, G0(case), Out(C2), G2(case), Out2T(C2, 1))
RefDisjoint      == case.op \in {"clone", "bind"} =>
                      /\ Disjoint(Out(case), Out2T(case, 0), OmitOut(case))
                      /\ Double(case) => Disjoint(Out(C2), Out2T(C2, 1), OmitOut(C2))
RefRegenerated   == case.op \in {"clone", "bind"} =>
                      /\ Regenerated(G0(case), G2(case), Out2T(case, 0), OmitOut(case) \cup ParentOut(case))
                      /\ Double(case) => Regenerated(G0(case), G2(case), Out2T(C2, 1), OmitOut(C2) \cup ParentOut(C2))
RefHappensBefore == /\ HappensBefore(case.op, G0(case), Out(case), G2(case), Out2T(case, 0), ParentOut(case))
                    /\ Double(case) => HappensBefore(case.op, G0(case), Out(C2), G2(case), Out2T(C2, 1), ParentOut(C2))
\* bind really binds something: the clause is not vacuous
RefBindsSomething == case.op = "bind" => ChildTasks(G0(case), G2(case), Out2(case)) # {}
\* the results of two different calls are different tasks
RefSeparate == Double(case) => RangeS(Out2T(case, 0)) \cap RangeS(Out2T(C2, 1)) = {}
=============================================================================
