---------------------------- MODULE Collections ----------------------------
(* C14 - compute, persist and optimize preserve structure and values.

   args is the sequence of positional arguments of dask.compute / dask.persist /
   dask.optimize: nested Python structures (module Nested) whose leaves are
   dask collections (numbered 1..3) or plain values.

   ComputeOf    every collection leaf is replaced by the value of that collection
                (Val(i)); container kinds, order, plain leaves and dict keys stay
                (a collection used as a dict key is replaced as well); iterators
                come back as lists.  With traverse = FALSE only arguments that are
                collections themselves are replaced, every other argument is
                returned as it is.
   PersistOf /  the same with Lazy(i): a collection of the same type, keys-shape and
   OptimizeOf   metadata that computes to the value of collection i.

   Nothing is said about which scheduler runs the graph, about optimize_graph,
   about key names, or about the order in which collections are computed.     *)
EXTENDS Nested, TLC

Apply(args, traverse, tag) ==
  [i \in DOMAIN args |->
     IF traverse THEN MapColl(args[i], tag)
     ELSE IF args[i].k = "coll" THEN NewLeaf(tag, args[i].c) ELSE args[i]]

ComputeOf(args, traverse)  == Apply(args, traverse, "val")
PersistOf(args, traverse)  == Apply(args, traverse, "lazy")
OptimizeOf(args, traverse) == Apply(args, traverse, "lazy")

Expected(op, args, traverse) == IF op = "compute" THEN ComputeOf(args, traverse) ELSE PersistOf(args, traverse)

\* comparison of a whole result (a tuple of structures), sets and dicts without order
CanonArgs(res) == [i \in DOMAIN res |-> Canon(res[i])]

\* the collections dask has to look at: in traversal order, first occurrences
RECURSIVE Dedup(_)
Dedup(q) == IF Len(q) = 0 THEN <<>>
            ELSE LET r == Dedup(SubSeq(q, 1, Len(q) - 1)) IN
                 IF \E i \in DOMAIN r : r[i] = q[Len(q)] THEN r ELSE Append(r, q[Len(q)])
Found(args, traverse) ==
  Dedup(FlattenSeq([i \in DOMAIN args |-> IF traverse \/ args[i].k = "coll" THEN Flatten(args[i]) ELSE <<>>]))
=============================================================================
