----------------------------- MODULE GraphOptMC -----------------------------
(* C09, spec -> code: TLC enumerates every graph of the bounded space in canonical
   topological numbering (node i refers only to nodes j < i) and exports, per graph,
   the value every key denotes and, for every non-empty requested subset, the
   needed keys.  The invariants are the design check of the contract (module
   GraphOpt): it is satisfied by the identity, by culling to Needed and by inlining
   any non-requested key, and it rejects a dropped needed key / swapped arguments.   *)
EXTENDS GraphOpt, Json, Randomization

CONSTANTS N,        \* graphs have 1..N nodes
          Wraps,    \* subset of {"list", "call", "dict"}: the arguments may be wrapped in a list / nested task / dict
          Last      \* 0: every option for node N; k > 0: a (seeded) random k-subset of the options for node N

VARIABLES g, out

Keyname == <<"k1", "k2", "k3", "k4", "k5", "k6", "k7">>
Fname   == <<"f1", "f2", "f3", "f4", "f5", "f6", "f7">>
Gname   == <<"g1", "g2", "g3", "g4", "g5", "g6", "g7">>
K(i) == Keyname[i]

Atoms(i) == {Ref(K(j)) : j \in 1..(i - 1)} \cup {Lit(i)}
ArgSeqs(i) == ({<<>>} \cup {<<a>> : a \in Atoms(i)}
               \cup {<<a, b>> : a \in Atoms(i), b \in Atoms(i)}) \ {<<Lit(i), Lit(i)>>}
Wrapped(i, s) == {s}
                 \cup (IF "list" \in Wraps /\ s # <<>> THEN {<<ListA(s)>>} ELSE {})
                 \cup (IF "call" \in Wraps /\ s # <<>> THEN {<<CallA(Gname[i], s)>>} ELSE {})
                 \cup (IF "dict" \in Wraps /\ s # <<>> THEN {<<DictA(SubSeq(<<"p", "q">>, 1, Len(s)), s)>>} ELSE {})
Options(i) == {DataN(Lit(10 + i))}
              \cup {AliasN(K(j)) : j \in 1..(i - 1)}
              \cup {TaskN(Fname[i], w) : w \in UNION {Wrapped(i, s) : s \in ArgSeqs(i)}}

Requests(gg) == SUBSET (DOMAIN gg) \ {{}}

Case(gg) ==
  [g   |-> gg,
   den |-> [k \in DOMAIN gg |-> Denote(gg, k)],
   req |-> LET D == DepMap(gg) IN {[ks |-> S, nd |-> ReachD(D, S)] : S \in Requests(gg)}]

\* The graph is built node by node, so every reachable state (but the empty one) is a case
\* and TLC's workers share the enumeration.
Init == /\ g = <<>>
        /\ out = ToJson(Case(g))
Next == LET n == Cardinality(DOMAIN g) IN
        /\ n < N
        /\ \E o \in (IF Last > 0 /\ n + 1 = N /\ Cardinality(Options(N)) > Last
                    THEN RandomSubset(Last, Options(N)) ELSE Options(n + 1)) :
              g' = (g @@ (K(n + 1) :> o))
        /\ out' = ToJson(Case(g'))

g0 == g

\* ---- design check
WF == WellFormed(g0)
NeededSane == \A S \in Requests(g0) :
                LET nd == Needed(g0, S) IN
                /\ S \subseteq nd /\ nd \subseteq DOMAIN g0
                /\ \A k \in nd : Deps(g0, k) \subseteq nd
                /\ \A k \in nd \ S : \E p \in nd : k \in Deps(g0, p)
\* (Present and Values are monotone in the requested set and the other clauses do not depend
\*  on it, so the largest admissible request set decides all of them)
IdentityOK == g0 # <<>> => Optimize("id", g0, DOMAIN g0, ObsOf(g0, DOMAIN g0, TRUE))
CullOK     == \A S \in Requests(g0) :
                Optimize("cull", g0, S, ObsOf(Restrict(g0, Needed(g0, S)), S, TRUE))
InlineOK   == \A d \in DOMAIN g0 :
                LET S == DOMAIN g0 \ {d} IN Optimize("inline", g0, S, ObsOf(InlineKey(g0, d), S, TRUE))
\* the contract is not vacuous: dropping a needed key, or swapping two different
\* arguments of a requested task, is rejected
RejectsDrop == \A k \in DOMAIN g0 : \A d \in Deps(g0, k) :
                 LET S == {k}
                     o == [ObsOf(g0, S, FALSE) EXCEPT !.dom = DOMAIN g0 \ {d},
                                                      !.refs = [j \in DOMAIN g0 \ {d} |-> Deps(g0, j)]]
                     b == Broken("cull", g0, S, o)
                 IN "Closed" \in b /\ "CullDom" \in b
Swap(n) == [n EXCEPT !.args = <<n.args[2], n.args[1]>>]
RejectsSwap == \A k \in DOMAIN g0 :
                 (g0[k].kind = "task" /\ Len(g0[k].args) = 2
                    /\ DenoteArg(g0, g0[k].args[1]) # DenoteArg(g0, g0[k].args[2]))
                 => "Values" \in Broken("id", g0, {k}, ObsOf([g0 EXCEPT ![k] = Swap(g0[k])], {k}, FALSE))
=============================================================================
