-------------------------- MODULE GraphManipTrace --------------------------
(* C16, code -> spec: one record per call of clone / bind / wait_on / checkpoint
   on real collections.  The harness materializes the graphs before and after
   the call and abstracts every task to an expression (module GraphManip);
   keys are renamed "k1", "k2", ... consistently over both graphs.

     r.op        "clone" | "bind" | "wait_on" | "checkpoint"
     r.g, r.g2   graphs before / after: sequences of [k |-> key, e |-> expression].  r.g2 is the JOINT graph
                 of everything returned: a record may hold TWO calls that share a member collection (one
                 collection in two wait_on groups, one child bound to two different parents, two clones
                 with different seeds) whose results are then used together, as one dask.compute does
     r.ms        one record per call:
       out         output keys of the children (inputs of wait_on / checkpoint), flattened
       out2        output keys of the returned collections, in the same order
       omitout     output keys of the omit collections
       keep        keys of the input graph the result may still use (graphs of omit / parents)
       parents     output keys of the parents
     r.obs.raised     "" or the exception raised by the call or by computing the result
     r.obs.same       the returned collections compute to the values of the inputs (None for checkpoint)
     r.obs.meta       every returned collection has the type, the shape of __dask_keys__ and the metadata of the
                      collection it replaces (array shape / dtype / chunks, bag npartitions, Delayed declared
                      length and tuple unpacking); checkpoint: a Delayed without length
     r.obs.seed       clone / bind: the same seed regenerates the same keys, another seed (or none) other keys
     r.obs.events     events of an execution of the result under an adversarial schedule (may be empty)

   TLC computes denotations and ancestry itself and decides the clauses.       *)
EXTENDS GraphManip, TraceIO

ExprOf(q, k) == q[CHOOSE i \in DOMAIN q : q[i].k = k].e
Graph(q) == [k \in { q[i].k : i \in DOMAIN q } |-> ExprOf(q, k)]

\* the clauses of one call m = [out, out2, omitout, keep, parents] in the joint result graph g2
BadM(op, g, g2, m, events) ==
  LET cb == op \in {"clone", "bind"} IN
  Clause("Denotes", Denotes(op, g, m.out, g2, m.out2))
  \cup (IF cb THEN Clause("Disjoint", Disjoint(m.out, m.out2, RangeS(m.omitout)))
                   \cup Clause("Regenerated", Regenerated(g, g2, m.out2, RangeS(m.keep)))
        ELSE {})
  \cup Clause("HappensBefore", HappensBefore(op, g, m.out, g2, m.out2, RangeS(m.parents)))
  \cup Clause("Order", Len(events) = 0
                       \/ OrderOK(events, Waiters(op, g, g2, m.out2), Awaited(op, m.out, RangeS(m.parents))))

Bad(r) ==
  LET g  == Graph(r.g)
      g2 == Graph(r.g2)
  IN IF r.obs.raised # "" THEN {"UnexpectedRaise"}
     ELSE Clause("Computes", r.obs.same)
          \cup Clause("Meta", r.obs.meta)
          \cup Clause("Seed", r.obs.seed)
          \cup UNION { BadM(r.op, g, g2, r.ms[i], r.obs.events) : i \in DOMAIN r.ms }

Init == TInit
Next == TNext(Bad)
=============================================================================
