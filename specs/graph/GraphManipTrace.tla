-------------------------- MODULE GraphManipTrace --------------------------
(* C16, code -> spec: one record per call of clone / bind / wait_on / checkpoint
   on real collections.  The harness materializes the graphs before and after
   the call and abstracts every task to an expression (module GraphManip);
   keys are renamed "k1", "k2", ... consistently over both graphs.

     r.op        "clone" | "bind" | "wait_on" | "checkpoint"
     r.g, r.g2   graphs before / after: sequences of [k |-> key, e |-> expression]
     r.out       output keys of the children (inputs of wait_on / checkpoint), flattened
     r.out2      output keys of the returned collections, in the same order
     r.omitout   output keys of the omit collections
     r.keep      keys of the input graph the result may still use (graphs of omit / parents)
     r.parents   output keys of the parents
     r.obs.raised     "" or the exception raised by the call or by computing the result
     r.obs.same       the returned collections compute to the values of the inputs (None for checkpoint)
     r.obs.events     events of an execution of the result under an adversarial schedule (may be empty)

   TLC computes denotations and ancestry itself and decides the clauses.       *)
EXTENDS GraphManip, TraceIO

ExprOf(q, k) == q[CHOOSE i \in DOMAIN q : q[i].k = k].e
Graph(q) == [k \in { q[i].k : i \in DOMAIN q } |-> ExprOf(q, k)]

Bad(r) ==
  LET g  == Graph(r.g)
      g2 == Graph(r.g2)
      cb == r.op \in {"clone", "bind"}
  IN IF r.obs.raised # "" THEN {"UnexpectedRaise"}
     ELSE Clause("Computes", r.obs.same)
          \cup Clause("Denotes", Denotes(r.op, g, r.out, g2, r.out2))
          \cup (IF cb THEN Clause("Disjoint", Disjoint(r.out, r.out2, RangeS(r.omitout)))
                           \cup Clause("Regenerated", Regenerated(g, g2, r.out2, RangeS(r.keep)))
                ELSE {})
          \cup Clause("HappensBefore", HappensBefore(r.op, g, r.out, g2, r.out2, RangeS(r.parents)))
          \cup Clause("Order", Len(r.obs.events) = 0
                               \/ OrderOK(r.obs.events, Waiters(r.op, g, g2, r.out2), Awaited(r.op, r.out, RangeS(r.parents))))

Init == TInit
Next == TNext(Bad)
=============================================================================
