---------------------------- MODULE GraphOptTrace ----------------------------
(* C09, code -> spec: every record is one call of a real optimizer,
     [id, op, g (the input graph, specification form), keys (requested),
      o = [raised, evalerr, dom, refs, vals, hasdeps, rdeps]]
   with dom / refs / rdeps the projection of the returned graph and dependency
   map and vals the values dask computed from the returned graph.  TLC decides
   each record against the contract of module GraphOpt (value equality is decided
   here, against Denote of the input graph).                                   *)
EXTENDS GraphOpt, TraceIO

SetMap(f) == [k \in DOMAIN f |-> Range(f[k])]

\* JSON arrays arrive as sequences: turn the projection into the sets the contract speaks about.
\* Keys of the returned graph without an entry in refs reference nothing.
ObsIn(o) ==
  LET dom == Range(o.dom) IN
  [raised |-> o.raised, dom |-> dom,
   refs |-> [k \in dom |-> IF k \in DOMAIN o.refs THEN Range(o.refs[k]) ELSE {}],
   vals |-> [k \in DOMAIN o.vals |-> ValFromJson(o.vals[k])], hasdeps |-> o.hasdeps,
   rdeps |-> SetMap(o.rdeps)]

Bad(r) ==
  IF ~WellFormed(r.g) THEN {"InputNotWellFormed"}
  ELSE Broken(r.op, r.g, Range(r.keys), ObsIn(r.o))
       \cup (IF r.o.raised = "" /\ r.o.evalerr # "" THEN {"Eval"} ELSE {})

Init == TInit
Next == TNext(Bad)
=============================================================================
