------------------------------ MODULE TaskSpec ------------------------------
(* C08 / C11 - meaning of task graphs: the legacy expression language and the
   task-object language, over uninterpreted task functions (module Terms).

   Keys and atoms are *values* (tagged records of module Terms): an atom is an
   integer VLit(n), a string VStr(s) or a tuple VTuple(<<atoms>>) - so tuple keys
   such as ("x", 0) are ordinary keys.  A graph is a function  key -> expression.

   Expressions
     [e |-> "atom",  a]        a hashable atom written in a legacy graph: a *reference*
                               when it equals a key of the graph, otherwise a literal
     [e |-> "ref",   k]        an explicit reference (TaskRef / Alias of the task objects)
     [e |-> "quote", v]        a quoted literal: the value v, never interpreted
                               (legacy: (literal(v),) ; task objects: a plain argument)
     [e |-> "call",  f, xs, kw]  f applied to positional xs and keywords kw: callable-headed tuple / Task;
                               kw is a sequence of <<name, expression>> sorted by name
     [e |-> "list",  xs]  [e |-> "tuple", xs]  [e |-> "set", xs]     containers, elementwise
     [e |-> "dict",  ks, xs]   dict with literal string keys ks[i] and values xs[i], elementwise

   Legacy graphs use atom / quote / call / list / dict (and sets / tuples of literals);
   task-object graphs use ref / quote / call / list / tuple / set / dict.                 *)
EXTENDS Terms

Atom(a)        == [e |-> "atom", a |-> a]
RefE(k)        == [e |-> "ref", k |-> k]
Quote(v)       == [e |-> "quote", v |-> v]
Call(f, xs)    == [e |-> "call", f |-> f, xs |-> xs, kw |-> <<>>]
CallKw(f, xs, kw) == [e |-> "call", f |-> f, xs |-> xs, kw |-> kw]
ListE(xs)      == [e |-> "list", xs |-> xs]
TupleE(xs)     == [e |-> "tuple", xs |-> xs]
SetE(xs)       == [e |-> "set", xs |-> xs]
DictE(ks, xs)  == [e |-> "dict", ks |-> ks, xs |-> xs]

Cl2(name, holds) == IF holds THEN {} ELSE {name}

VAppKw(f, a, kw) == IF kw = <<>> THEN VApp(f, a) ELSE [t |-> "app", f |-> f, a |-> a, kw |-> kw]

\* ---- the keys an expression references, given the key set of its graph
RECURSIVE RefsOf(_, _)
RefsOf(keys, x) ==
  CASE x.e = "atom"  -> IF x.a \in keys THEN {x.a} ELSE {}
    [] x.e = "ref"   -> {x.k}
    [] x.e = "quote" -> {}
    [] x.e = "call"  -> UNION {RefsOf(keys, x.xs[i]) : i \in DOMAIN x.xs}
                        \cup UNION {RefsOf(keys, x.kw[i][2]) : i \in DOMAIN x.kw}
    [] OTHER         -> UNION {RefsOf(keys, x.xs[i]) : i \in DOMAIN x.xs}

\* ---- value of an expression, given the key set and the values env[k] of the keys it references
\*      (this is what  node(values)  /  Task.__call__  computes)
RECURSIVE EvalWith(_, _, _)
EvalWith(keys, env, x) ==
  CASE x.e = "atom"  -> IF x.a \in keys THEN env[x.a] ELSE x.a
    [] x.e = "ref"   -> env[x.k]
    [] x.e = "quote" -> x.v
    [] x.e = "call"  -> VAppKw(x.f, [i \in DOMAIN x.xs |-> EvalWith(keys, env, x.xs[i])],
                               [i \in DOMAIN x.kw |-> <<x.kw[i][1], EvalWith(keys, env, x.kw[i][2])>>])
    [] x.e = "list"  -> VList([i \in DOMAIN x.xs |-> EvalWith(keys, env, x.xs[i])])
    [] x.e = "tuple" -> VTuple([i \in DOMAIN x.xs |-> EvalWith(keys, env, x.xs[i])])
    [] x.e = "set"   -> VSet({EvalWith(keys, env, x.xs[i]) : i \in DOMAIN x.xs})
    [] x.e = "dict"  -> VDict({<<VStr(x.ks[i]), EvalWith(keys, env, x.xs[i])>> : i \in DOMAIN x.xs})

\* ---- value of a key of a closed acyclic graph (LegacyEval for legacy graphs, NodeEval for task objects)
RECURSIVE Val(_, _)
Val(g, k) == LET keys == DOMAIN g
                 deps == RefsOf(keys, g[k])
             IN EvalWith(keys, [d \in deps |-> Val(g, d)], g[k])

GDeps(g)     == [k \in DOMAIN g |-> RefsOf(DOMAIN g, g[k])]
GClosed(g)   == ClosedD(GDeps(g))
GAcyclic(g)  == IsDagD(GDeps(g))

(* ---- the property, per key k of graph g, over an observation
        o = [deps, ldeps, kdeps, get, exec, call, pdeps, pcall]
   deps  = node.dependencies of the converted / constructed node
   ldeps = dask.core.get_dependencies(graph, k)      kdeps = dask.core.keys_in_tasks(keys, [graph[k]])
           (the dependency report of the graph helpers that cull / order / fuse rely on)
   get   = dask.core.get(graph, k)          exec = execute_graph(converted graph)[k]
   call  = node(values of its dependencies)
   pdeps, pcall = the same for pickle.loads(pickle.dumps(node))
   "A node's reported dependencies are exactly the keys it references": every report - the node's own and
   the graph helpers' - equals RefsOf.                                                               *)
KeyBroken(g, k, o) ==
  LET want == Val(g, k)
      refs == RefsOf(DOMAIN g, g[k])
  IN Cl2("Deps", o.deps = refs) \cup Cl2("Get", o.get = want) \cup Cl2("Exec", o.exec = want)
     \cup Cl2("Call", o.call = want) \cup Cl2("PickleDeps", o.pdeps = refs) \cup Cl2("PickleCall", o.pcall = want)
     \cup Cl2("LegacyDeps", o.ldeps = refs /\ o.kdeps = refs)

(* ---- C11: equal nodes compute equal values.
   The implementation's verdict on two nodes x, y is recorded: eq (x == y) and teq
   (tokenize(x) == tokenize(y)).  Two nodes are *semantically the same* when they
   evaluate to the same value under every environment of the (finite) family envs;
   the family always contains a Herbrand environment that gives every key its own
   opaque value, so differing anywhere means differing there.                      *)
SameOn(keys, envs, x, y) == \A i \in DOMAIN envs : EvalWith(keys, envs[i], x) = EvalWith(keys, envs[i], y)
Sound(eq, teq, same)     == (eq \/ teq) => same
=============================================================================
