------------------------------ MODULE TokensMC ------------------------------
(* Model checking for C12.

   Universe mode (UInit/UNext): every initial state is one value of the
   universe of module Tokens together with its class representatives, whether
   it is plain data and the routes its token must be reproduced on; exported
   as JSON for the harness, which only CONSTRUCTS the value.  Invariants check
   that Eqv is an equivalence on the universe and that the strict class
   refines the class (design check of the oracle itself).

   Registry mode (RInit/RNext): all histories of observations over a tiny
   alphabet of classes / tokens / interpreters.  The incremental registry
   (RegStep: what TokensTrace runs over recorded observations) must accept a
   history exactly when the accepted observations are Functional and Injective
   in the global sense, and must reject exactly the observation that breaks
   one of them.                                                              *)
EXTENDS Tokens, Json

VARIABLES val, out, reg, acc, lastbad, n
rvars == <<reg, acc, lastbad, n>>
UInit == /\ reg = EmptyReg /\ acc = {} /\ lastbad = {} /\ n = 0 /\ val \in Universe
         /\ out = ToJson([v |-> val, c |-> Rep(val), d |-> DetRep(val), plain |-> Plain(val), hows |-> Hows(val)])
UNext == UNCHANGED <<val, out, rvars>>

EqvReflexive  == Eqv(val, val, TRUE) /\ Eqv(val, val, FALSE)
EqvSymmetric  == \A w \in ByKind[val.k] : /\ Eqv(val, w, FALSE) = Eqv(w, val, FALSE)
                                          /\ Eqv(val, w, TRUE) = Eqv(w, val, TRUE)
\* transitivity through the representative: everything equivalent to val is equivalent to val's representative
EqvTransitive == \A w \in ByKind[val.k] : /\ Eqv(val, w, FALSE) => Eqv(Rep(val), w, FALSE)
                                          /\ Eqv(val, w, TRUE) => Eqv(DetRep(val), w, TRUE)
StrictRefines == \A w \in ByKind[val.k] : Eqv(val, w, TRUE) => Eqv(val, w, FALSE)
\* the universe is not vacuous: it contains layout-only pairs and insertion-order-only pairs
HasTwins      == (val.k \in { "nd", "df" } /\ val.lay \notin { "C", "dict" }) => \E w \in ByKind[val.k] : w # val /\ Eqv(val, w, FALSE)

-----------------------------------------------------------------------------
CONSTANTS NDet, NTok, NProc, MaxLen

\* strict class d belongs to class (d + 1) \div 2 ; strict classes 1, 2 are plain
Events == { [det |-> d, cls |-> (d + 1) \div 2, plain |-> d <= 2, tok |-> t, proc |-> p, how |-> h, raised |-> FALSE] :
              d \in 1..NDet, t \in 1..NTok, p \in 0..(NProc - 1), h \in { "same", "pickle" } }
RInit == val = NoneV /\ out = "" /\ reg = EmptyReg /\ acc = {} /\ lastbad = {} /\ n = 0
RNext == /\ n < MaxLen
         /\ \E e \in Events :
              LET r == RegStep(reg, e) IN
              /\ reg' = r.reg
              /\ lastbad' = r.bad
              /\ acc' = IF r.bad = {} THEN acc \cup { e } ELSE acc
              /\ n' = n + 1
         /\ UNCHANGED <<val, out>>

\* the registry is exactly the relation of the accepted observations
RegistryIsAccepted ==
  /\ \A e \in acc : FKey(e) \in DOMAIN reg.tokOf /\ reg.tokOf[FKey(e)].tok = e.tok
  /\ \A e \in acc : e.tok \in DOMAIN reg.clsOf /\ reg.clsOf[e.tok] = e.cls
\* accepted observations never contradict each other
AcceptedConsistent == Functional(acc) /\ Injective(acc)
=============================================================================
