------------------------------ MODULE TokensMC ------------------------------
(* Model checking for C12.

   Universe mode (UInit/UNext): every initial state is one value of the
   universe of module Tokens together with its class representatives, whether
   it is plain data and the routes its token must be reproduced on; exported
   as JSON for the harness, which only CONSTRUCTS the value.  Invariants check
   that Eqv is an equivalence on the universe and that the strict class
   refines the class (design check of the oracle itself).

   Registry mode (RInit/RNext): all histories of observations over a tiny
   alphabet of classes / tokens / interpreters.  The incremental registry
   (RegStep: what TokensTrace runs over recorded observations) must reject an
   observation only when it contradicts an earlier one in the named way, and
   must reject at least one observation of every history whose observations
   are not Functional and Injective in the global sense.                                                              *)
EXTENDS Tokens, Json

VARIABLES val, out, rg, seen, prev, laste, lastbad, nrej, cnt
rgvars == <<rg, seen, prev, laste, lastbad, nrej, cnt>>
UInit == /\ rg = EmptyReg /\ seen = {} /\ prev = {} /\ laste = [none |-> TRUE] /\ lastbad = {} /\ nrej = 0 /\ cnt = 0 /\ val \in Universe
         /\ out = ToJson([v |-> val, c |-> Rep(val), d |-> DetRep(val), plain |-> Plain(val), hows |-> Hows(val)])
UNext == UNCHANGED <<val, out, rgvars>>

\* Eqv is an equivalence on the universe, the strict class refines the class, representatives represent
EqvReflexive == Eqv(val, val, TRUE) /\ Eqv(val, val, FALSE)
EqvOK == LET rp == Rep(val) IN
         \A w \in Bucket[Sig(val)] :
            LET a == Eqv(val, w, FALSE)
                b == Eqv(val, w, TRUE)
            IN /\ a = Eqv(w, val, FALSE) /\ b = Eqv(w, val, TRUE)       \* symmetric
               /\ b => a                                               \* strict refines
               /\ a => Eqv(rp, w, FALSE)                               \* transitive through the representative
\* the bucket discriminator never separates equivalent values
SigRespected == \A w \in ByKind[val.k] : Sig(w) # Sig(val) => ~Eqv(val, w, FALSE)
\* the universe is not vacuous: it contains layout-only pairs and insertion-order-only pairs
HasTwins      == (val.k \in { "nd", "df" } /\ val.lay \notin { "C", "dict" }) => \E w \in ByKind[val.k] : w # val /\ Eqv(val, w, FALSE)

-----------------------------------------------------------------------------
CONSTANTS NDet, NTok, NProc, MaxLen

\* strict class d belongs to class (d + 1) \div 2 ; strict classes 1, 2 are plain
Events == { [det |-> d, cls |-> (d + 1) \div 2, plain |-> d <= 2, tok |-> t, proc |-> p, how |-> h, raised |-> FALSE] :
              d \in 1..NDet, t \in 1..NTok, p \in 0..(NProc - 1), h \in { "same", "pickle" } }
NoEvent == [none |-> TRUE]
RInit == /\ val = NoneV /\ out = "" /\ rg = EmptyReg /\ seen = {} /\ prev = {} /\ laste = NoEvent /\ lastbad = {} /\ nrej = 0 /\ cnt = 0
RNext == /\ cnt < MaxLen
         /\ \E e \in Events :
              LET r == RegStep(rg, e) IN
              /\ rg' = r.reg
              /\ laste' = e /\ lastbad' = r.bad
              /\ prev' = seen /\ seen' = seen \cup { e }
              /\ nrej' = IF r.bad = {} THEN nrej ELSE nrej + 1
              /\ cnt' = cnt + 1
         /\ UNCHANGED <<val, out>>

\* soundness of a rejection: the rejected observation really contradicts an earlier one, in the named way
RejectionIsConflict ==
  /\ ("Distinct" \in lastbad) => \E e1 \in prev : e1.tok = laste.tok /\ e1.cls # laste.cls
  /\ (lastbad \ { "Distinct", "DetAcrossInterpreters" } # {}) => \E e1 \in prev : FKey(e1) = FKey(laste) /\ e1.tok # laste.tok
  /\ ("DetAcrossInterpreters" \in lastbad) =>
        laste.plain /\ \E e1 \in prev : e1.det = laste.det /\ e1.proc # laste.proc /\ e1.tok # laste.tok
\* completeness of the verdict: a history whose observations are not functional / injective has a rejection
ConflictIsRejected == (~Functional(seen) \/ ~PlainFunctional(seen) \/ ~Injective(seen)) => nrej > 0
\* every observation is in the registry unless an earlier one holds its slot
RegistryCoversSeen == \A e \in seen : FKey(e) \in DOMAIN rg.tokOf /\ e.tok \in DOMAIN rg.clsOf
=============================================================================
