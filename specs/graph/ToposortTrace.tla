---------------------------- MODULE ToposortTrace ----------------------------
(* C07, code -> spec: one record per real call
     [id, fn: "toposort" | "getcycle" | "isdag", n, deps: <<<<d, ...>>, ...>> (keys 1..n),
      keys: <<k, ...>> start keys (all keys for toposort),
      res: "ok" | "cycle" | "bool" | "raised" | "hang", order / c: <<k, ...>>, b: BOOLEAN]
   Keys in the output that are not graph keys are recorded as 0.               *)
EXTENDS Toposort, TraceIO

G(r) == [k \in 1..r.n |-> SeqRange(r.deps[k])]

Bad(r) ==
  LET gr == G(r)
      ks == SeqRange(r.keys) IN
  IF r.res = "hang" THEN {"Hang"}
  ELSE CASE r.fn = "toposort" ->
              IF HasCycle(gr) THEN Clause("CycleNotRaised", r.res = "raised")
              ELSE IF r.res = "raised" THEN {"UnexpectedRaise"}
              ELSE Clause("EachKeyOnce", Len(r.order) = r.n /\ SeqRange(r.order) = 1..r.n)
                   \cup Clause("DepsFirst", \A i, j \in DOMAIN r.order :
                                              (r.order[i] \in Deps(gr, r.order[j]) /\ r.order[j] \in 1..r.n) => i < j)
         [] r.fn = "getcycle" ->
              IF r.res # "cycle" THEN {"UnexpectedRaise"}
              ELSE IF ~CycleFrom(gr, ks) THEN Clause("CycleInvented", r.c = <<>>)
              ELSE IF r.c = <<>> THEN {"CycleMissed"}
              ELSE Clause("NotACycle", IsCycle(gr, r.c))
                   \cup Clause("Unreachable", SeqRange(r.c) \subseteq ReachFrom(gr, ks))
         [] r.fn = "isdag" ->
              IF r.res # "bool" THEN {"UnexpectedRaise"}
              ELSE Clause("IsdagWrong", r.b <=> ~CycleFrom(gr, ks))

\* the clauses above are the contract of module Toposort spelled out per clause
AgreesWithContract(r) ==
  (Bad(r) = {}) <=> Accepts(G(r), r.fn, SeqRange(r.keys),
                           CASE r.res = "ok" -> [res |-> "ok", order |-> r.order]
                             [] r.res = "cycle" -> [res |-> "cycle", c |-> r.c]
                             [] r.res = "bool" -> [res |-> "bool", b |-> r.b]
                             [] OTHER -> [res |-> r.res])

Bad2(r) == Bad(r) \cup (IF AgreesWithContract(r) THEN {} ELSE {"SPEC-INCONSISTENT"})

Init == TInit
Next == TNext(Bad2)
=============================================================================
