----------------------------- MODULE KeySpaceMC -----------------------------
(* Model checking for C13.

   Design mode (DInit/DNext): every tuple of <= MaxTuple single-task collections
   over NKeys keys, NVals values and two kinds; the model of dask.compute
   (KeySpace!ModelResults) must give each member its alone value whenever the
   tuple is clash-free (TogetherEqualsAlone), and the clauses TogetherBad blames
   must be the right ones (BlameIsRight).  With Impl = "grouped" TLC must find
   the interleaving counterexample.

   Plan mode (PInit/PNext): enumerates the test plans replayed into dask: an
   input family (near-identical inputs taken from the collision families of
   module Tokens, named here and built by harness/tokvals.py), a program, and a
   tuple pattern over the slots
        A, B   the two near-identical inputs under the same program
        A2     A's input built again (an equal-token collection)
        Xa Xb Xd Xf   fillers of the four kinds with unrelated values
   (all sequences of length 2..MaxPlan with at least one of A/B/A2), so that
   collection kinds are interleaved in every possible way.

   Sibling mode (SInit/SNext): the sibling-pair cases (see SibOps at the end of
   the module); the design invariant SameNameIsWrong (design mode) shows why the
   results property forces different names on siblings with different values.                   *)
EXTENDS KeySpace, Chunks, Json

CONSTANTS NKeys, NVals, MaxTuple, MaxPlan
VARIABLES tup, res, out

Kinds2 == { "array", "delayed" }
Coll1 == [id: { 0 }, kind: Kinds2, out: 1..NKeys, alone: 1..NVals]
Mk(c) == [id |-> c.id, kind |-> c.kind, out |-> c.out, alone |-> c.alone, keys |-> <<[key |-> c.out, val |-> c.alone]>>]
Tuples == UNION { [1..m -> { Mk(c) : c \in Coll1 }] : m \in 1..MaxTuple }

DInit == /\ tup \in Tuples
         /\ res \in ModelResults(tup)
         /\ out = ""
DNext == UNCHANGED <<tup, res, out>>

TogetherEqualsAlone == TupleClashes(tup) = {} => TogetherOK(tup, res)
BlameIsRight == LET b == TogetherBad(tup, res, FALSE) IN
                /\ (b = {}) = TogetherOK(tup, res)
                /\ ("KeyClash" \in b) => \E i, j \in DOMAIN tup : tup[i].out = tup[j].out /\ tup[i].alone # tup[j].alone
                /\ ("Interleaved" \in b) => \E i, j \in DOMAIN tup : tup[i].kind # tup[j].kind
\* two collections that share their output key but have different values cannot both come back right:
\* this is why sibling collections must get different names whenever their values differ
SameNameIsWrong == (Len(tup) = 2 /\ tup[1].out = tup[2].out /\ tup[1].alone # tup[2].alone) => ~TogetherOK(tup, res)
\* the regrouping model goes wrong on clash-free tuples only when kinds are interleaved (checked with Impl = "grouped")
GroupedWrongOnlyIfInterleaved == (TupleClashes(tup) = {} /\ ~TogetherOK(tup, res)) => Interleaved(tup)

-----------------------------------------------------------------------------
Families == { [fam |-> "nd-layout",   progs |-> { "array", "array+1", "array.sum", "delayed.pure", "delayed.value" }],
              [fam |-> "nd-dtype",    progs |-> { "array", "array+1", "delayed.pure" }],
              [fam |-> "nd-differ",   progs |-> { "array", "array+1", "array.sum", "delayed.pure", "delayed.value" }],
              [fam |-> "nd-equal",    progs |-> { "array", "array+1", "delayed.pure", "delayed.value" }],
              [fam |-> "mm-dtype",    progs |-> { "array", "array+1", "delayed.pure" }],
              [fam |-> "oa-join",     progs |-> { "array", "array.map", "delayed.pure", "bag", "frame.series", "frame.series.map" }],
              [fam |-> "dict-order",  progs |-> { "delayed.pure", "bag" }],
              [fam |-> "df-permuted", progs |-> { "frame", "frame+1", "delayed.pure" }],
              [fam |-> "df-blocks",   progs |-> { "frame", "frame+1", "delayed.pure" }],
              [fam |-> "ix-dtype",    progs |-> { "frame.series", "delayed.pure" }] }
Slots == { "A", "B", "A2", "Xa", "Xb", "Xd", "Xf" }
Patterns == { p \in UNION { [1..m -> Slots] : m \in 2..MaxPlan } : \E i \in DOMAIN p : p[i] \in { "A", "B", "A2" } }

PInit == /\ tup = <<>> /\ res = <<>>
         /\ \E f \in Families : \E g \in f.progs : \E p \in Patterns :
              out = ToJson([fam |-> f.fam, prog |-> g, pat |-> p])
PNext == UNCHANGED <<tup, res, out>>
-----------------------------------------------------------------------------
(* Sibling mode (SInit/SNext): every case [op, ckind, shape, chunks, a, b] of the table below: a base
   collection of kind ckind with the given shape under EVERY chunking (all-unit chunks included), one
   operation, and two values a # b of its one varied argument (written as text; harness/drivers/C13.py
   holds the interpretation of each operation for dask and for the eager reference).  nds = the
   numbers of base dimensions the operation is applied to (0 = the base is not an array).      *)
CONSTANT SibShapes          \* array base shapes
O(op, ckind, nds, args) == [op |-> op, ckind |-> ckind, nds |-> nds, args |-> args]
SibOps == {
  O("array.setitem.value", "array", {1, 2}, <<"-1", "-2", "7">>),
  O("array.setitem.arrayvalue", "array", {1, 2}, <<"70", "80">>),
  O("array.setitem.index", "array", {1, 2}, <<"0", "1", "-1">>),
  O("array.setitem.slice", "array", {1, 2}, <<"::2", "1::2", ":1">>),
  O("array.setitem.mask", "array", {1, 2}, <<"0", "1", "2">>),
  O("array.stack.axis", "array", {1, 2}, <<"0", "1", "2", "-1">>),
  O("array.concatenate.axis", "array", {2}, <<"0", "1">>),
  O("array.getitem.int", "array", {1, 2}, <<"0", "1", "-1">>),
  O("array.getitem.slice", "array", {1, 2}, <<"0:1", "1:2", "::-1", "::2">>),
  O("array.getitem.list", "array", {1, 2}, <<"0,1", "1,0", "1,1">>),
  O("array.getitem.lastaxis", "array", {2}, <<"0", "1">>),
  O("array.getitem.newaxis", "array", {1, 2}, <<"0", "1">>),
  O("array.sum.axis", "array", {2}, <<"0", "1", "None", "-1">>),
  O("array.sum.keepdims", "array", {1, 2}, <<"0", "1">>),
  O("array.sum.dtype", "array", {1, 2}, <<"f8", "i8">>),
  O("array.max.axis", "array", {2}, <<"0", "1">>),
  O("array.argmax.axis", "array", {2}, <<"0", "1">>),
  O("array.cumsum.axis", "array", {2}, <<"0", "1">>),
  O("array.mean.axis", "array", {2}, <<"0", "1", "None">>),
  O("array.var.ddof", "array", {1, 2}, <<"0", "1">>),
  O("array.map_blocks.func", "array", {1, 2}, <<"inc", "dec", "neg">>),
  O("array.map_blocks.closure", "array", {1, 2}, <<"1", "2">>),
  O("array.map_blocks.kwargs", "array", {1, 2}, <<"1", "2">>),
  O("array.map_blocks.args", "array", {1, 2}, <<"1", "2">>),
  O("array.elemwise.add", "array", {1, 2}, <<"1", "2", "1.0">>),
  O("array.elemwise.mul", "array", {1, 2}, <<"2", "3">>),
  O("array.elemwise.rsub", "array", {1, 2}, <<"1", "2">>),
  O("array.elemwise.pow", "array", {1, 2}, <<"2", "3">>),
  O("array.elemwise.cmp", "array", {1, 2}, <<"0", "1">>),
  O("array.elemwise.arrayoperand", "array", {1, 2}, <<"1", "2">>),
  O("array.where.cond", "array", {1, 2}, <<"0", "1">>),
  O("array.where.x", "array", {1, 2}, <<"-1", "-2">>),
  O("array.where.y", "array", {1, 2}, <<"-1", "-2">>),
  O("array.astype.dtype", "array", {1, 2}, <<"f8", "i4", "u8">>),
  O("array.transpose.axes", "array", {2}, <<"0,1", "1,0">>),
  O("array.reshape.target", "array", {1, 2}, <<"-1", "1,-1", "-1,1", "2,-1">>),
  O("array.roll.shift", "array", {1, 2}, <<"1", "2">>),
  O("array.roll.axis", "array", {2}, <<"0", "1">>),
  O("array.pad.width", "array", {1, 2}, <<"1", "2">>),
  O("array.pad.mode", "array", {1, 2}, <<"constant", "edge", "wrap">>),
  O("array.pad.cval", "array", {1, 2}, <<"0", "5">>),
  O("array.clip.max", "array", {1, 2}, <<"1", "2">>),
  O("array.flip.axis", "array", {2}, <<"0", "1">>),
  O("array.repeat.repeats", "array", {1, 2}, <<"1", "2">>),
  O("array.repeat.axis", "array", {2}, <<"0", "1">>),
  O("array.tile.reps", "array", {1, 2}, <<"1", "2">>),
  O("array.expand_dims.axis", "array", {1, 2}, <<"0", "1">>),
  O("array.rot90.k", "array", {2}, <<"1", "2", "3">>),
  O("array.tril.k", "array", {2}, <<"0", "1", "-1">>),
  O("array.diagonal.offset", "array", {2}, <<"0", "1">>),
  O("array.take.indices", "array", {1, 2}, <<"0,1", "1,0", "1">>),
  O("array.take.axis", "array", {2}, <<"0", "1">>),
  O("array.isin.values", "array", {1, 2}, <<"0", "1", "0,1">>),
  O("array.full_like.fill", "array", {1, 2}, <<"1", "2">>),
  O("array.broadcast_to.shape", "array", {1}, <<"2", "3">>),
  O("array.rechunk.target", "array", {1, 2}, <<"1", "2">>),
  O("array.dot.operand", "array", {1, 2}, <<"1", "2">>),
  O("array.diff.n", "array", {1, 2}, <<"1", "2">>),
  O("array.squeezeexpand.axis", "array", {2}, <<"0", "1", "2">>),
  O("bag.map.func", "bag", {0}, <<"inc", "dec", "neg">>),
  O("bag.map.closure", "bag", {0}, <<"1", "2">>),
  O("bag.map.kwargs", "bag", {0}, <<"1", "2">>),
  O("bag.map.args", "bag", {0}, <<"1", "2">>),
  O("bag.filter.pred", "bag", {0}, <<"even", "odd", "pos">>),
  O("bag.remove.pred", "bag", {0}, <<"even", "odd">>),
  O("bag.fold.initial", "bag", {0}, <<"0", "10">>),
  O("bag.fold.binop", "bag", {0}, <<"add", "mul", "max">>),
  O("bag.reduction.func", "bag", {0}, <<"sum", "max", "min">>),
  O("bag.topk.k", "bag", {0}, <<"1", "2">>),
  O("bag.pluck.key", "bag", {0}, <<"0", "1">>),
  O("bag.pluck.default", "bag", {0}, <<"0", "9">>),
  O("bag.map_partitions.func", "bag", {0}, <<"list", "rev", "len1">>),
  O("bag.map_partitions.kwargs", "bag", {0}, <<"1", "2">>),
  O("bag.starmap.kwargs", "bag", {0}, <<"1", "2">>),
  O("bag.accumulate.initial", "bag", {0}, <<"0", "10">>),
  O("bag.foldby.initial", "bag", {0}, <<"0", "10">>),
  O("bag.groupby.key", "bag", {0}, <<"even", "mod3">>),
  O("bag.repartition.n", "bag", {0}, <<"1", "2">>),
  O("delayed.call.args", "delayed", {0}, <<"1", "2", "1.0">>),
  O("delayed.call.kwargs", "delayed", {0}, <<"1", "2">>),
  O("delayed.call.kwname", "delayed", {0}, <<"k", "m">>),
  O("delayed.call.func", "delayed", {0}, <<"inc", "dec", "neg">>),
  O("delayed.call.closure", "delayed", {0}, <<"1", "2">>),
  O("delayed.call.listarg", "delayed", {0}, <<"1", "2">>),
  O("delayed.call.dictarg", "delayed", {0}, <<"1", "2">>),
  O("delayed.call.delayedarg", "delayed", {0}, <<"1", "2">>),
  O("delayed.call.nout", "delayed", {0}, <<"0", "1">>),
  O("delayed.value", "delayed", {0}, <<"1", "2", "1.0">>),
  O("delayed.getitem", "delayed", {0}, <<"0", "1">>),
  O("delayed.attr", "delayed", {0}, <<"real", "imag">>),
  O("delayed.method.args", "delayed", {0}, <<"1", "2">>),
  O("delayed.operator.const", "delayed", {0}, <<"1", "2">>),
  O("frame.add.const", "frame", {0}, <<"1", "2">>),
  O("frame.getitem.col", "frame", {0}, <<"a", "b">>),
  O("frame.getitem.cols", "frame", {0}, <<"a,b", "b,a">>),
  O("frame.assign.value", "frame", {0}, <<"1", "2">>),
  O("frame.loc.start", "frame", {0}, <<"1", "2">>),
  O("frame.clip.upper", "frame", {0}, <<"2", "3">>),
  O("frame.shift.periods", "frame", {0}, <<"1", "2">>),
  O("frame.map_partitions.kwargs", "frame", {0}, <<"1", "2">>),
  O("frame.astype.dtype", "frame", {0}, <<"f8", "i4">>),
  O("frame.rename.col", "frame", {0}, <<"x", "y">>),
  O("frame.isin.values", "frame", {0}, <<"1", "2">>),
  O("frame.series.map.func", "frame", {0}, <<"inc", "dec">>),
  O("frame.filter.threshold", "frame", {0}, <<"1", "2">>),
  O("frame.sum.axis", "frame", {0}, <<"0", "1">>),
  O("frame.drop.col", "frame", {0}, <<"a", "b">>),
  O("frame.fillna.value", "frame", {0}, <<"0", "9">>) }

Parts6 == { << <<6>> >>, << <<3, 3>> >>, << <<2, 4>> >>, << <<1, 1, 1, 1, 1, 1>> >> }
Parts4 == { << <<4>> >>, << <<2, 2>> >>, << <<1, 1, 1, 1>> >> }
SibBases(o) == IF o.ckind = "array"
               THEN UNION { [shape: { sh }, chunks: NDChunkings(sh)] : sh \in { x \in SibShapes : Len(x) \in o.nds } }
               ELSE IF o.ckind = "bag" THEN [shape: { <<6>> }, chunks: Parts6]
               ELSE IF o.ckind = "frame" THEN [shape: { <<4>> }, chunks: Parts4]
               ELSE [shape: { <<1>> }, chunks: { << <<1>> >> }]
SiblingCases == UNION { UNION { { [op |-> o.op, ckind |-> o.ckind, shape |-> bs.shape, chunks |-> bs.chunks, a |-> o.args[ij[1]], b |-> o.args[ij[2]]]
                                  : ij \in { pq \in (DOMAIN o.args) \X (DOMAIN o.args) : pq[1] < pq[2] } }   \* unordered pairs a # b
                                : bs \in SibBases(o) } : o \in SibOps }
ArgsDiffer == \A o \in SibOps : \A i, j \in DOMAIN o.args : i # j => o.args[i] # o.args[j]
SInit == /\ tup = <<>> /\ res = <<>>
         /\ \E c \in SiblingCases : out = ToJson(c)
SNext == UNCHANGED <<tup, res, out>>
=============================================================================
