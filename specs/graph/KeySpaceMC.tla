----------------------------- MODULE KeySpaceMC -----------------------------
(* Model checking for C13.

   Design mode (DInit/DNext): every tuple of <= MaxTuple single-task collections
   over NKeys keys, NVals values and two kinds; the model of dask.compute
   (KeySpace!ModelResults) must give each member its alone value whenever the
   tuple is clash-free (TogetherEqualsAlone), and the clauses TogetherBad blames
   must be the right ones (BlameIsRight).  With Impl = "grouped" TLC must find
   the interleaving counterexample.

   Plan mode (PInit/PNext): enumerates the test plans replayed into dask: an
   input family (near-identical inputs taken from the collision families of
   module Tokens, named here and built by harness/tokvals.py), a program, and a
   tuple pattern over the slots
        A, B   the two near-identical inputs under the same program
        A2     A's input built again (an equal-token collection)
        Xa Xb Xd Xf   fillers of the four kinds with unrelated values
   (all sequences of length 2..MaxPlan with at least one of A/B/A2), so that
   collection kinds are interleaved in every possible way.                   *)
EXTENDS KeySpace, Json

CONSTANTS NKeys, NVals, MaxTuple, MaxPlan
VARIABLES tup, res, out

Kinds2 == { "array", "delayed" }
Coll1 == [id: { 0 }, kind: Kinds2, out: 1..NKeys, alone: 1..NVals]
Mk(c) == [id |-> c.id, kind |-> c.kind, out |-> c.out, alone |-> c.alone, keys |-> <<[key |-> c.out, val |-> c.alone]>>]
Tuples == UNION { [1..m -> { Mk(c) : c \in Coll1 }] : m \in 1..MaxTuple }

DInit == /\ tup \in Tuples
         /\ res \in ModelResults(tup)
         /\ out = ""
DNext == UNCHANGED <<tup, res, out>>

TogetherEqualsAlone == TupleClashes(tup) = {} => TogetherOK(tup, res)
BlameIsRight == LET b == TogetherBad(tup, res, FALSE) IN
                /\ (b = {}) = TogetherOK(tup, res)
                /\ ("KeyClash" \in b) => \E i, j \in DOMAIN tup : tup[i].out = tup[j].out /\ tup[i].alone # tup[j].alone
                /\ ("Interleaved" \in b) => \E i, j \in DOMAIN tup : tup[i].kind # tup[j].kind
\* the regrouping model goes wrong on clash-free tuples only when kinds are interleaved (checked with Impl = "grouped")
GroupedWrongOnlyIfInterleaved == (TupleClashes(tup) = {} /\ ~TogetherOK(tup, res)) => Interleaved(tup)

-----------------------------------------------------------------------------
Families == { [fam |-> "nd-layout",   progs |-> { "array", "array+1", "array.sum", "delayed.pure", "delayed.value" }],
              [fam |-> "nd-dtype",    progs |-> { "array", "array+1", "delayed.pure" }],
              [fam |-> "nd-differ",   progs |-> { "array", "array+1", "array.sum", "delayed.pure", "delayed.value" }],
              [fam |-> "nd-equal",    progs |-> { "array", "array+1", "delayed.pure", "delayed.value" }],
              [fam |-> "mm-dtype",    progs |-> { "array", "array+1", "delayed.pure" }],
              [fam |-> "oa-join",     progs |-> { "array", "array.map", "delayed.pure", "bag", "frame.series", "frame.series.map" }],
              [fam |-> "dict-order",  progs |-> { "delayed.pure", "bag" }],
              [fam |-> "df-permuted", progs |-> { "frame", "frame+1", "delayed.pure" }],
              [fam |-> "df-blocks",   progs |-> { "frame", "frame+1", "delayed.pure" }],
              [fam |-> "ix-dtype",    progs |-> { "frame.series", "delayed.pure" }] }
Slots == { "A", "B", "A2", "Xa", "Xb", "Xd", "Xf" }
Patterns == { p \in UNION { [1..m -> Slots] : m \in 2..MaxPlan } : \E i \in DOMAIN p : p[i] \in { "A", "B", "A2" } }

PInit == /\ tup = <<>> /\ res = <<>>
         /\ \E f \in Families : \E g \in f.progs : \E p \in Patterns :
              out = ToJson([fam |-> f.fam, prog |-> g, pat |-> p])
PNext == UNCHANGED <<tup, res, out>>
=============================================================================
