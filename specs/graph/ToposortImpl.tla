---------------------------- MODULE ToposortImpl ----------------------------
(* C07, part (b): an implementation-shaped transcription of dask.core._toposort
   as a state machine (one step per iteration of its loops), with everything the
   Python code leaves to dict / set iteration order left nondeterministic.
   TLC checks transcription => contract (module Toposort) on all small digraphs
   (ToposortMC), and the outcomes of the real function are compared with the
   outcomes of the transcription.                                             *)
EXTENDS Toposort

-----------------------------------------------------------------------------
(* Transcription of _toposort(dsk, keys, returncycle).

   Python                                  here
   ------                                  ----
   for key in keys                         todo: the start keys not yet taken; any order
   nodes (list used as stack)              nodes (sequence, top = last)
   seen, completed (sets)                  seen, completed
   ordered (list)                          ordered
   for nxt in dependencies[cur] (a set)    any iteration order: if some dependency is seen
                                           and not completed the first such one (any of
                                           them) triggers the cycle branch; otherwise the
                                           not-completed dependencies are pushed in any order
   priorities[nodes.pop()] = -len(priorities)   Prio (DistinctPrio = FALSE)
   min(deps, key=priorities.__getitem__)   any minimiser (ties: set iteration order)

   numbering = "written" is the code as it stands; numbering = "repaired" counts the
   pops instead (proposed fix): priorities are then pairwise distinct.  Both are
   explored, the variable never changes during a run.                          *)

VARIABLES g, fn, start,              \* the call: graph, "toposort" | "getcycle", start key set
          numbering,                 \* "written" | "repaired"
          todo, nodes, seen, completed, ordered, pc, result

tvars == <<g, fn, start, numbering, todo, nodes, seen, completed, ordered, pc, result>>
DistinctPrio == numbering = "repaired"

\* priorities assigned while popping `popped` (top first), then nxt
RECURSIVE PrioFold(_, _, _)
PrioFold(popped, prio, cnt) ==
  IF popped = <<>> THEN prio
  ELSE LET x == Head(popped)
           v == IF DistinctPrio THEN -cnt ELSE -Cardinality(DOMAIN prio)
       IN PrioFold(Tail(popped), [k \in DOMAIN prio \cup {x} |-> IF k = x THEN v ELSE prio[k]], cnt + 1)

EmptyFn == [k \in {} |-> 0]

\* index of the topmost occurrence of x in the stack
TopIndex(stk, x) == CHOOSE i \in DOMAIN stk : stk[i] = x /\ \A j \in (i + 1)..Len(stk) : stk[j] # x

Reverse(s) == [i \in 1..Len(s) |-> s[Len(s) + 1 - i]]

\* all results of the greedy walk  `while prev != cycle[0]: ...`  from the partial cycle cyc
\* (a revisited key means the deterministic Python loop never ends: "diverged")
RECURSIVE Walk(_, _, _)
Walk(cyc, prio, inplay) ==
  IF Last(cyc) = cyc[1] /\ Len(cyc) > 1 THEN { [res |-> "cycle", c |-> Reverse(cyc)] }
  ELSE LET deps == { k \in inplay : Last(cyc) \in g[k] }
       IN IF deps = {} THEN { [res |-> "valueerror"] }
          ELSE LET m == CHOOSE v \in { prio[k] : k \in deps } : \A k \in deps : v <= prio[k]
               IN UNION { IF p # cyc[1] /\ p \in SeqRange(cyc) THEN { [res |-> "diverged"] }
                          ELSE Walk(Append(cyc, p), prio, inplay)
                          : p \in { k \in deps : prio[k] = m } }

\* the cycle branch: nxt (a seen dependency of the top of the stack) was met again
CycleResults(nxt) ==
  LET i      == TopIndex(nodes, nxt)
      popped == Reverse(SubSeq(nodes, i + 1, Len(nodes)))
      prio   == PrioFold(Append(popped, nxt), EmptyFn, 0)
      prev   == Last(nodes)
  IN Walk(<<nxt, prev>>, prio, DOMAIN prio)

Perms(S) == { s \in [1..Cardinality(S) -> S] : \A i, j \in DOMAIN s : i # j => s[i] # s[j] }

ImplInit(graph, f, keys, nb) ==
  /\ g = graph /\ fn = f /\ start = keys /\ numbering = nb
  /\ todo = keys /\ nodes = <<>> /\ seen = {} /\ completed = {} /\ ordered = <<>>
  /\ pc = "outer" /\ result = [res |-> "none"]

Finish(r) == /\ pc' = "done" /\ result' = r
             /\ UNCHANGED <<g, fn, start, numbering, todo, nodes, seen, completed, ordered>>

Outer ==
  /\ pc = "outer"
  /\ IF todo = {}
     THEN Finish(IF fn = "toposort" THEN [res |-> "ok", order |-> ordered] ELSE [res |-> "cycle", c |-> <<>>])
     ELSE \E key \in todo :
            /\ todo' = todo \ {key}
            /\ IF key \in completed THEN UNCHANGED <<nodes, pc>>
               ELSE nodes' = <<key>> /\ pc' = "inner"
            /\ UNCHANGED <<g, fn, start, numbering, seen, completed, ordered, result>>

Inner ==
  /\ pc = "inner"
  /\ IF nodes = <<>> THEN pc' = "outer" /\ UNCHANGED <<g, fn, start, numbering, todo, nodes, seen, completed, ordered, result>>
     ELSE LET cur == Last(nodes) IN
          IF cur \in completed
          THEN nodes' = Front(nodes) /\ UNCHANGED <<g, fn, start, numbering, todo, seen, completed, ordered, pc, result>>
          ELSE LET seen1 == seen \cup {cur}
                   live  == g[cur] \ completed
                   hits  == live \cap seen1
               IN IF hits # {}
                  THEN \E nxt \in hits : \E r \in CycleResults(nxt) :
                         Finish(IF r.res = "cycle" /\ fn = "toposort" THEN [res |-> "raised"] ELSE r)
                  ELSE IF live # {}
                  THEN /\ \E p \in Perms(live) : nodes' = nodes \o p
                       /\ seen' = seen1
                       /\ UNCHANGED <<g, fn, start, numbering, todo, completed, ordered, pc, result>>
                  ELSE /\ ordered' = IF fn = "toposort" THEN Append(ordered, cur) ELSE ordered
                       /\ completed' = completed \cup {cur}
                       /\ seen' = seen \ {cur}
                       /\ nodes' = Front(nodes)
                       /\ UNCHANGED <<g, fn, start, numbering, todo, pc, result>>

ImplNext == Outer \/ Inner \/ (pc = "done" /\ UNCHANGED tvars)

\* transcription => contract, for runs that return or raise
Returned      == pc = "done" /\ result.res \notin {"diverged", "valueerror"}
ContractHolds == Returned => Accepts(g, fn, start, result)
\* the repaired numbering always terminates; the numbering as written does not (known finding)
NoDivergence  == (pc = "done" /\ numbering = "repaired") => result.res # "diverged"
NoValueError  == pc = "done" => result.res # "valueerror"
\* structural invariants of the traversal the comments in the Python code claim
SeenCompletedDisjoint == seen \cap completed = {}
SeenOnStack   == seen \subseteq SeqRange(nodes)
CompletedClosed == \A k \in completed : g[k] \subseteq completed
=============================================================================
