----------------------------- MODULE GraphManip -----------------------------
(* C16 - graph manipulation keeps values and changes only keys and ordering.

   A materialized task graph is abstracted to a function  key -> expression:
     [t |-> "ref",  k |-> key]                   the value of another key
     [t |-> "lit",  s |-> digest]                a literal
     [t |-> "list", a |-> <<expr>>]              a list of expressions
     [t |-> "call", f |-> name, a |-> <<expr>>]  a function applied to expressions
   The two functions dask.graph_manipulation inserts have fixed names and a
   fixed meaning:  BIND(node, deps...) returns node,  CHECKPOINT(deps...) returns
   None.  Every other function is uninterpreted: a key denotes the term
   f(denotations of the arguments) - the same term before and after a
   manipulation means the same value whatever the functions are.

   The contract (clauses are named after what they demand):
     Denotes        every output key of the result denotes what the corresponding
                    output key of the input denotes (None for checkpoint);
     Disjoint       clone / bind: no output key of the result is an output key of
                    the input, except keys of the omit collections;
     Regenerated    clone / bind: a key of the input graph that the result still
                    needs belongs to the graph of an omit collection (or, for bind,
                    of a parent: the blocker waits on the original parents);
     HappensBefore  bind: every regenerated task of the children has every output
                    key of the parents among its graph ancestors; wait_on: every
                    output key of the result has every chunk of every input among
                    its ancestors; checkpoint: its single key has every chunk of
                    every input among its ancestors.
   Graph ancestry implies execution order under every schedule (C02); an
   observed schedule is checked directly by  OrderOK.                          *)
EXTENDS Naturals, Sequences, FiniteSets, TLC

NoneT == [t |-> "none"]
RangeS(q) == { q[i] : i \in DOMAIN q }

RECURSIVE RefsE(_)
RefsE(e) == CASE e.t = "ref" -> {e.k}
              [] e.t = "lit" -> {}
              [] OTHER       -> UNION { RefsE(e.a[i]) : i \in DOMAIN e.a }

Deps(g, k) == IF k \in DOMAIN g THEN RefsE(g[k]) ELSE {}
\* dependency map, computed once per graph: key -> keys it refers to
DepMap(g) == [k \in DOMAIN g |-> RefsE(g[k])]
DepsD(D, k) == IF k \in DOMAIN D THEN D[k] ELSE {}

RECURSIVE ReachD(_, _)
ReachD(D, S) == LET T == S \cup UNION { DepsD(D, k) : k \in S } IN IF T = S THEN S ELSE ReachD(D, T)
Reach(g, S)     == ReachD(DepMap(g), S)
Needed(g, S)    == Reach(g, S)                    \* S and everything S needs
Ancestors(g, k) == Reach(g, Deps(g, k))           \* proper ancestors (k only if it lies on a cycle)
\* keys that need k (k excluded unless it lies on a cycle): fixpoint over the reversed dependency map
RECURSIVE UpD(_, _)
UpD(D, S) == LET T == S \cup { x \in DOMAIN D : D[x] \cap S # {} } IN IF T = S THEN S ELSE UpD(D, T)
DescendantsD(D, k) == UpD(D, { x \in DOMAIN D : k \in D[x] })
\* every key of A is a proper ancestor of every key of C  (computed from the few keys of A upwards)
AllBefore(g, A, C) == LET D == DepMap(g) IN \A p \in A : C \subseteq DescendantsD(D, p)
Acyclic(g, S)   == LET D == DepMap(g) IN \A k \in ReachD(D, S) : k \notin ReachD(D, DepsD(D, k))

\* ---- denotation (defined on the acyclic part; a reference to a key that is not in the graph denotes "missing")
RECURSIVE DenE(_, _), DenK(_, _)
DenE(g, e) ==
  CASE e.t = "ref"  -> DenK(g, e.k)
    [] e.t = "lit"  -> [t |-> "lit", s |-> e.s]
    [] e.t = "list" -> [t |-> "list", a |-> [i \in DOMAIN e.a |-> DenE(g, e.a[i])]]
    [] e.t = "call" -> IF e.f = "BIND" THEN (IF Len(e.a) = 0 THEN [t |-> "bad"] ELSE DenE(g, e.a[1]))
                       ELSE IF e.f = "CHECKPOINT" THEN NoneT
                       ELSE [t |-> "app", f |-> e.f, a |-> [i \in DOMAIN e.a |-> DenE(g, e.a[i])]]
DenK(g, k) == IF k \in DOMAIN g THEN DenE(g, g[k]) ELSE [t |-> "missing", k |-> k]

\* nodes of the blocker machinery (checkpoint and its map step)
IsBlocker(e) == e.t = "call" /\ e.f = "CHECKPOINT"

\* ---- the clauses.  g, out: input graph and its output keys (a sequence); g2, out2: result
Denotes(op, g, out, g2, out2) ==
  /\ Acyclic(g2, RangeS(out2))
  /\ IF op = "checkpoint" THEN \A i \in DOMAIN out2 : DenK(g2, out2[i]) = NoneT
     ELSE /\ Len(out2) = Len(out)
          /\ \A i \in DOMAIN out : DenK(g2, out2[i]) = DenK(g, out[i])

Disjoint(out, out2, omitout) == (RangeS(out2) \cap RangeS(out)) \subseteq omitout

Regenerated(g, g2, out2, keep) == (Needed(g2, RangeS(out2)) \cap DOMAIN g) \subseteq Needed(g, keep)

\* the regenerated tasks of the children: needed by the result, new, and not part of the blocker
ChildTasks(g, g2, out2) == { k \in Needed(g2, RangeS(out2)) \ DOMAIN g : k \in DOMAIN g2 /\ ~IsBlocker(g2[k]) }

HappensBefore(op, g, out, g2, out2, parents) ==
  CASE op = "bind"       -> AllBefore(g2, parents, ChildTasks(g, g2, out2))
    [] op = "wait_on"    -> AllBefore(g2, RangeS(out), RangeS(out2))
    [] op = "checkpoint" -> AllBefore(g2, RangeS(out), RangeS(out2))
    [] OTHER             -> TRUE

\* who must wait for whom in an observed run
Waiters(op, g, g2, out2) == IF op = "bind" THEN ChildTasks(g, g2, out2) ELSE RangeS(out2)
Awaited(op, out, parents) == IF op = "bind" THEN parents ELSE RangeS(out)

\* events: a sequence of [e |-> "start" | "finish", k |-> key]
OrderOK(events, waiters, awaited) ==
  \A i \in DOMAIN events :
    (events[i].e = "start" /\ events[i].k \in waiters)
      => \A p \in awaited : \E j \in 1..(i - 1) : events[j].e = "finish" /\ events[j].k = p
=============================================================================
