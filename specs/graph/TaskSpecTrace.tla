---------------------------- MODULE TaskSpecTrace ----------------------------
(* C08, code -> spec: every record is one graph (legacy or task objects) with what
   the real code did for each of its keys:
     [id, fam, g = <<[k, e], ...>>, o = <<[deps, get, exec, call, pdeps, pcall], ...>>]
   o[i] belongs to key g[i].k.  TLC decides every key against module TaskSpec.  The
   verdict of a rejected record is one string with two characters per key: the two
   base-64 digits (low, high) of the bit mask of its broken clauses (Deps = 1, Get = 2,
   Exec = 4, Call = 8, PickleDeps = 16, PickleCall = 32, LegacyDeps = 64) - kept that
   short because TLC wraps printed values at 80 columns.                                                  *)
EXTENDS TaskSpec, TraceIO

\* JSON has no sets: observed set / dict values arrive as sequences
RECURSIVE FromJ(_)
FromJ(v) ==
  CASE v.t = "set"   -> VSet({FromJ(v.els[i]) : i \in DOMAIN v.els})
    [] v.t = "dict"  -> VDict({<<FromJ(v.kv[i][1]), FromJ(v.kv[i][2])>> : i \in DOMAIN v.kv})
    [] v.t \in {"list", "tuple"} -> [t |-> v.t, xs |-> [i \in DOMAIN v.xs |-> FromJ(v.xs[i])]]
    [] v.t = "app"   -> VAppKw(v.f, [i \in DOMAIN v.a |-> FromJ(v.a[i])],
                               IF "kw" \in DOMAIN v THEN [i \in DOMAIN v.kw |-> <<v.kw[i][1], FromJ(v.kw[i][2])>>]
                               ELSE <<>>)
    [] OTHER         -> v

GraphOf(gs) == [k \in {gs[i].k : i \in DOMAIN gs} |-> gs[CHOOSE i \in DOMAIN gs : gs[i].k = k].e]

ObsIn(o) == [deps |-> Range(o.deps), ldeps |-> Range(o.ldeps), kdeps |-> Range(o.kdeps), get |-> FromJ(o.get), exec |-> FromJ(o.exec), call |-> FromJ(o.call),
             pdeps |-> Range(o.pdeps), pcall |-> FromJ(o.pcall)]

Digits == <<"0", "1", "2", "3", "4", "5", "6", "7", "8", "9", "a", "b", "c", "d", "e", "f", "g", "h", "i", "j", "k", "l", "m", "n", "o", "p", "q", "r", "s", "t", "u", "v", "w", "x", "y", "z", "A", "B", "C", "D", "E", "F", "G", "H", "I", "J", "K", "L", "M", "N", "O", "P", "Q", "R", "S", "T", "U", "V", "W", "X", "Y", "Z", "+", "-">>
Bit(S, c, w) == IF c \in S THEN w ELSE 0
Mask(S) == Bit(S, "Deps", 1) + Bit(S, "Get", 2) + Bit(S, "Exec", 4) + Bit(S, "Call", 8)
           + Bit(S, "PickleDeps", 16) + Bit(S, "PickleCall", 32) + Bit(S, "LegacyDeps", 64)

RECURSIVE Concat(_)
Concat(ss) == IF ss = <<>> THEN "" ELSE Head(ss) \o Concat(Tail(ss))

Bad(r) ==
  LET g == GraphOf(r.g) IN
  IF ~(GClosed(g) /\ GAcyclic(g) /\ Len(r.o) = Len(r.g)) THEN {"InputNotWellFormed"}
  ELSE LET masks == [i \in DOMAIN r.g |-> Mask(KeyBroken(g, r.g[i].k, ObsIn(r.o[i])))]
       IN IF \A i \in DOMAIN masks : masks[i] = 0 THEN {}
          ELSE {Concat([i \in DOMAIN masks |-> Digits[(masks[i] % 64) + 1] \o Digits[(masks[i] \div 64) + 1]])}

Init == TInit
Next == TNext(Bad)
=============================================================================
