------------------------------ MODULE NodeEqMC ------------------------------
(* C11, spec -> code: TLC enumerates pairs of task-object expressions (x, y) where
   y is x after ONE edit - swapped elements, changed container type, extra nesting,
   duplicated / dropped element, re-paired or renamed dict entries, changed function,
   keyword name, positional <-> keyword, another reference, reference <-> the same
   string as a plain literal, another literal - and exports for each pair whether the
   two are semantically the same (SameOn over two environments) and the values both
   must evaluate to.  The implementation may call two nodes equal only if `same`.   *)
EXTENDS TaskSpec, Json, Randomization

CONSTANTS Deep     \* number of (seeded random) depth-2 base expressions; 0 = depth <= 1 only

VARIABLES case, out

KA == VStr("a")
KB == VStr("b")
KC == VStr("c")
Keys == {KA, KB, KC}
Lits == {VLit(1), VLit(2), KA}          \* "a" as a plain literal looks like the key "a"

\* Herbrand environment, and one that swaps a / b and makes c collide with the literal 1
Envs == << (KA :> VApp("va", <<>>)) @@ (KB :> VApp("vb", <<>>)) @@ (KC :> VApp("vc", <<>>)),
           (KA :> VApp("vb", <<>>)) @@ (KB :> VApp("va", <<>>)) @@ (KC :> VLit(1)) >>

Leaves == {RefE(k) : k \in Keys} \cup {Quote(v) : v \in Lits}
Hashable(x) == x.e \in {"ref", "quote", "call", "tuple"}
Pairs(A, B) == { <<x, y>> : x \in A, y \in B }

Inner(d, one, two) ==
  LET f == <<"c1", "c2">>[d] IN
  { Call(f, <<>>), ListE(<<>>), DictE(<<>>, <<>>), TupleE(<<>>), SetE(<<>>) }
  \cup { Call(f, <<x>>) : x \in one } \cup { CallKw(f, <<>>, << <<"p", x>> >>) : x \in one }
  \cup { ListE(<<x>>) : x \in one } \cup { TupleE(<<x>>) : x \in one }
  \cup { SetE(<<x>>) : x \in {y \in one : Hashable(y)} } \cup { DictE(<<"p">>, <<x>>) : x \in one }
  \cup { Call(f, p) : p \in two } \cup { CallKw(f, <<p[1]>>, << <<"q", p[2]>> >>) : p \in two }
  \cup { ListE(p) : p \in two } \cup { TupleE(p) : p \in two }
  \cup { SetE(p) : p \in {q \in two : Hashable(q[1]) /\ Hashable(q[2])} }
  \cup { DictE(<<"p", "q">>, p) : p \in two }

D1 == Leaves \cup Inner(1, Leaves, Pairs(Leaves, Leaves))
D2 == Inner(2, D1 \ Leaves, Pairs(D1 \ Leaves, Leaves) \cup Pairs(Leaves, D1 \ Leaves))
Bases == D1 \cup (IF Deep = 0 THEN {} ELSE RandomSubset(Deep, D2))

\* ---- one-edit neighbours of an expression: records [x, ed, at]
E(x, ed, at) == [x |-> x, ed |-> ed, at |-> at]
Swap2(s) == <<s[2], s[1]>>

TopEdits(x) ==
  CASE x.e = "ref" ->
         { E(RefE(k), "ref", "ref") : k \in Keys \ {x.k} } \cup { E(Quote(x.k), "unref", "ref") }
    [] x.e = "quote" ->
         { E(Quote(v), "lit", "quote") : v \in Lits \ {x.v} }
    [] x.e = "call" ->
         { E([x EXCEPT !.f = "other"], "fn", "call") }
         \cup (IF Len(x.xs) = 2 /\ x.xs[1] # x.xs[2] THEN { E([x EXCEPT !.xs = Swap2(x.xs)], "swap", "call") } ELSE {})
         \cup (IF Len(x.xs) >= 1 THEN { E([x EXCEPT !.xs = Tail(x.xs)], "drop", "call") } ELSE {})
         \cup (IF Len(x.kw) = 1 THEN { E([x EXCEPT !.kw = << <<"r", x.kw[1][2]>> >>], "kwname", "call"),
                                       E([x EXCEPT !.kw = <<>>, !.xs = Append(x.xs, x.kw[1][2])], "kwpos", "call") }
               ELSE {})
    [] x.e \in {"list", "tuple", "set"} ->
         { E([x EXCEPT !.e = t], "retype", x.e) : t \in {"list", "tuple"} \ {x.e} }
         \cup (IF x.e # "set" /\ \A i \in DOMAIN x.xs : Hashable(x.xs[i])
               THEN { E([x EXCEPT !.e = "set"], "retype", x.e) } ELSE {})
         \cup (IF Len(x.xs) = 2 /\ x.xs[1] # x.xs[2] THEN { E([x EXCEPT !.xs = Swap2(x.xs)], "swap", x.e) } ELSE {})
         \cup (IF Len(x.xs) >= 1 THEN { E([x EXCEPT !.xs = Tail(x.xs)], "drop", x.e),
                                        E([x EXCEPT !.xs = Append(x.xs, x.xs[1])], "dup", x.e) } ELSE {})
         \cup (IF x.e # "set" THEN { E([x EXCEPT !.xs = <<x>>], "nest", x.e) } ELSE {})
    [] x.e = "dict" ->
         (IF Len(x.xs) = 2 /\ x.xs[1] # x.xs[2]
          THEN { E([x EXCEPT !.xs = Swap2(x.xs)], "swap", "dict"),                           \* re-pair keys and values
                 E([x EXCEPT !.xs = Swap2(x.xs), !.ks = Swap2(x.ks)], "reorder", "dict") }  \* same pairs, other order
          ELSE {})
         \cup (IF Len(x.xs) >= 1 THEN { E([x EXCEPT !.ks[1] = "r"], "dictkey", "dict"),
                                        E([x EXCEPT !.xs = Tail(x.xs), !.ks = Tail(x.ks)], "drop", "dict") } ELSE {})

RECURSIVE Edits(_)
Edits(x) ==
  TopEdits(x)
  \cup (IF x.e \in {"ref", "quote"} THEN {}
        ELSE UNION { { E([x EXCEPT !.xs[i] = r.x], r.ed, r.at) : r \in Edits(x.xs[i]) } : i \in DOMAIN x.xs })
  \cup (IF x.e = "call"
        THEN UNION { { E([x EXCEPT !.kw[i] = <<x.kw[i][1], r.x>>], r.ed, r.at) : r \in Edits(x.kw[i][2]) } : i \in DOMAIN x.kw }
        ELSE {})

\* an edit may produce an ill-typed set (unhashable element); those are not nodes
RECURSIVE WellTyped(_)
WellTyped(x) == IF x.e \in {"ref", "quote"} THEN TRUE
                ELSE /\ \A i \in DOMAIN x.xs : WellTyped(x.xs[i])
                     /\ x.e = "set" => \A i \in DOMAIN x.xs : Hashable(x.xs[i])
                     /\ x.e = "call" => \A i \in DOMAIN x.kw : WellTyped(x.kw[i][2])

Vals(x) == [i \in DOMAIN Envs |-> EvalWith(Keys, Envs[i], x)]
Export(c) == [x |-> c.x, y |-> c.y, ed |-> c.ed, at |-> c.at,
              same |-> SameOn(Keys, Envs, c.x, c.y), vx |-> Vals(c.x), vy |-> Vals(c.y)]

Init == /\ case = <<>>
        /\ out = ""
Next == /\ case = <<>>
        /\ \E x \in Bases :
             \E r \in {q \in Edits(x) : WellTyped(q.x)} \cup {E(x, "same", x.e)} :
               case' = [x |-> x, y |-> r.x, ed |-> r.ed, at |-> r.at]
        /\ out' = ToJson(Export(case'))

\* ---- design check of the semantics: what the property calls "part of a node's identity" really
\*      changes the value (so an implementation that ignores it is unsound), and what does not, does not
IsCase == case # <<>>
Same0 == SameOn(Keys, Envs, case.x, case.y)
Reflexive    == IsCase /\ case.ed = "same" => Same0
DictOrderFree == IsCase /\ case.ed = "reorder" => Same0
\* swapping two elements with different values changes a call, a list, a tuple and a dict - never a set
OrderMatters == IsCase /\ case.ed = "swap" => (Same0 <=> case.at = "set")
\* an edit of a function, a keyword name, a reference or a literal is always visible in the Herbrand environment
AtomsMatter  == IsCase /\ case.ed \in {"fn", "kwname", "kwpos", "unref", "lit", "retype", "nest", "dictkey"} => ~Same0
=============================================================================
