--------------------------- MODULE DelayedProgMC ---------------------------
(* C15, spec -> code: TLC grows programs node by node.  A state is a program;
   Init picks the leaves (a prefix of the constants 1, 2, 0, optionally the
   string "kk", each wrapped in dask.delayed or plain - every choice), Next
   appends one operation chosen from a *value-directed* menu: an operation is
   offered exactly when the reference semantics gives it a value (no Python
   error) and Python + dask can express it (Buildable).  Every exportable
   state (all nodes feed the last node, the last node is a Delayed) carries
   the program with the value of every node and the key classes demanded by
   the purity registry.

   Rate[l] = 1000: every operation of the menu is appended at level l
   (exhaustive); Rate[l] = r < 1000: each candidate is kept with probability
   r/1000, decided by a hash of (Seed, program, candidate) - a function of the
   state, so the sample is reproducible with any number of TLC workers.        *)
EXTENDS DelayedProg, Json

CONSTANTS MaxLeaves,    \* 1..3: leaves are a prefix of <<1, 2, 0>>
          MaxOps,       \* number of operation nodes
          Rate,         \* sequence of length MaxOps: per-mille of the menu appended at each level
          Seed,         \* salt of the sampling hash
          Pures,        \* subset of BOOLEAN: the pure flag given to every call of the program
          Mode          \* "grow": programs grown from the menus; "pairs": see PairMenu (MaxOps = 3, Rate unused)

VARIABLES prog, info, hash, pure, out     \* info = Info(prog) and hash = ProgHash(prog), carried along (InfoOK)

LeafSeq == <<IntV(1), IntV(2), IntV(0)>>
LeafConfigs ==
  UNION { { [i \in 1..(n + s) |-> Const(IF i <= n THEN LeafSeq[i] ELSE StrV("kk"), w[i])] : w \in [1..(n + s) -> BOOLEAN] }
          : n \in 1..MaxLeaves, s \in {0, 1} }

Small(v) == CASE v.t = "int" -> v.v \in -40..40
              [] IsSeq(v)    -> Len(v.xs) <= 5
              [] OTHER       -> TRUE

\* ---------------------------------------------------------------- sampling hash (small moduli: TLC ints are 32 bit)
P1 == 40009
SeqCode(xs) == IF Len(xs) = 0 THEN 0 ELSE IF Len(xs) = 1 THEN 1 + xs[1] ELSE IF Len(xs) = 2 THEN 10 + 9 * xs[1] + xs[2]
               ELSE 100 + 81 * xs[1] + 9 * xs[2] + xs[3]
OpNames == <<"const", "cont", "call", "getitem", "getattr", "meth", "bin", "un", "nout">>
NmNames == <<"", "list", "tuple", "set", "dict", "dictk", "slice", "slice_to", "obj", "nt", "f1", "f2", "tup", "tag", "count",
             "add", "sub", "mul", "floordiv", "lt", "neg", "invert", "x", "y", "a", "b", "j", "k", "p", "q", "kk">>
\* name -> position (constant functions, evaluated once)
OpCode == [s \in Range(OpNames) |-> CHOOSE i \in DOMAIN OpNames : OpNames[i] = s]
NmCode == [s \in Range(NmNames) |-> CHOOSE i \in DOMAIN NmNames : NmNames[i] = s]
NodeCode(nd) == (OpCode[nd.op] * 977 + NmCode[nd.nm] * 131 + SeqCode(nd.xs) * 17 + SeqCode(nd.kx) * 5
                 + (IF nd.w THEN 3 ELSE 0) + nd.i * 7 + (IF nd.dkn = "" THEN 0 ELSE 11)
                 + (IF Len(nd.kn) = 0 THEN 0 ELSE NmCode[nd.kn[1]] * 29 + Len(nd.kn) * 53)
                 + (IF nd.pure /\ nd.op = "cont" THEN 23 ELSE 0)
                 + (IF nd.op = "const" /\ nd.v.t = "int" THEN nd.v.v ELSE 0)) % P1
Mix(a, b) == LET x == ((a + 1) * 7919 + b * 104 + 13) % P1
                 y == (x * ((b % 211) + 17) + a) % P1
             IN (y * 31 + (x \div 7)) % P1
RECURSIVE ProgHashUpTo(_, _)
ProgHashUpTo(p, n) == IF n = 0 THEN Seed % P1 ELSE Mix(NodeCode(p[n]), ProgHashUpTo(p, n - 1))
ProgHash(p) == ProgHashUpTo(p, Len(p))

\* ---------------------------------------------------------------- the menu
\* keyword shapes of a call: argument tuples <<xs, kn, kx>>; keyword names in sorted order ("j" < "k")
CallShapes(A0, A1, A2) ==
  { <<xs, <<>>, <<>>>> : xs \in A0 \cup A1 \cup A2 }
  \cup { <<<<>>, <<nm>>, kx>> : nm \in {"j", "k"}, kx \in A1 }
  \cup { <<<<ab[1]>>, <<nm>>, <<ab[2]>>>> : nm \in {"j", "k"}, ab \in A2 }
  \cup { <<<<>>, <<"j", "k">>, ab>> : ab \in A2 }

\* how a container is used: plain, wrapped in delayed(...), wrapped in delayed(..., pure=True)
WrapModes == { <<FALSE, FALSE>>, <<TRUE, FALSE>>, <<TRUE, TRUE>> }
Wrapped(nd, wp) == [nd EXCEPT !.w = wp[1], !.pure = wp[2]]

ContsOver(A1, A2, W) ==
  { Wrapped(Cont(k, xs, FALSE), wp) : k \in {"list", "tuple", "set"}, xs \in A1 \cup A2, wp \in W }
  \cup { Wrapped(Cont(k, xs, FALSE), wp) : k \in {"obj", "nt", "slice", "dictk"}, xs \in A2, wp \in W }
  \cup { Wrapped(Cont("slice_to", xs, FALSE), wp) : xs \in A1, wp \in W }
  \cup { Wrapped(DictC(<<"p">>, xs, FALSE), wp) : xs \in A1, wp \in W }
  \cup { Wrapped(DictC(<<"p", "q">>, xs, FALSE), wp) : xs \in A2, wp \in W }

\* value-directed: the reference semantics gives a (small) value, and dask can express the node
NodeOK(nd, p, I, VV, DD) ==
  LET v == EvalNode(nd, VV) IN
  /\ ~IsErr(v) /\ Small(v)
  /\ BuildableNode(nd, DD)
  /\ (nd.op = "nout" => nd.i < p[nd.xs[1]].i)
  \* slices hold ints; set members that are two different Delayed objects with one key cannot be
  \* compared by Python (Delayed.__eq__ is lazy): not a program
  /\ (nd.op = "cont" /\ nd.nm \in {"slice", "slice_to"} => \A i \in DOMAIN nd.xs : IsInt(VV[nd.xs[i]]))
  /\ (nd.op = "cont" /\ nd.nm = "set" /\ Len(nd.xs) = 2 /\ nd.xs[1] # nd.xs[2]
        => I[nd.xs[1]].arg # I[nd.xs[2]].arg /\ VV[nd.xs[1]] # VV[nd.xs[2]])

Menu(p, I, pu, salt, rate) ==
  LET m  == Len(p)
      R  == 1..m
      VV == [j \in R |-> I[j].val]
      DD == [j \in R |-> I[j].d]
      \* at the last level only operations that complete an exportable program are candidates: they use every
      \* node that is still unused (then every node feeds the last one) and are Delayed objects
      last   == NOps(p) + 1 = MaxOps
      unused == { i \in R : \A j \in (i + 1)..m : i \notin NodeRefs(p[j]) }
      Cov(S) == IF last THEN { xs \in S : unused \subseteq Range(xs) } ELSE S
      A0 == Cov({<<>>})
      A1 == Cov({ <<a>> : a \in R })
      A2 == Cov({ <<a, b>> : a \in R, b \in R })
      D1 == { xs \in A1 : DD[xs[1]] }                 \* first operand is a Delayed
      D2 == { xs \in A2 : DD[xs[1]] }
      W  == IF last THEN { wp \in WrapModes : wp[1] } ELSE WrapModes
      Fs == IF \E j \in R : p[j].op = "call" /\ p[j].nm = "f1" THEN {"f1", "f2"} ELSE {"f1"}
      named == \E j \in R : p[j].dkn # ""
      calls ==
        { Call(f, sh[1], sh[2], sh[3], pu, "", 0) : f \in Fs, sh \in CallShapes(A0, A1, A2) }
        \cup (IF named THEN {} ELSE { Call("f1", xs, <<>>, <<>>, pu, "kk", 0) : xs \in A1 })
        \cup { Call("tup", xs, <<>>, <<>>, pu, "", Len(xs)) : xs \in A1 \cup A2 }
      access ==
        { GetItem(ab[1], ab[2]) : ab \in D2 }
        \cup { NoutItem(a[1], i) : a \in { x \in D1 : p[x[1]].op = "call" /\ p[x[1]].i > 0 }, i \in 0..1 }
        \cup { GetAttr(a[1], nm) : a \in { x \in D1 : VV[x[1]].t \in {"obj", "nt"} }, nm \in {"x", "y", "a", "b"} }
        \cup { Meth(a[1], "tag", <<>>, <<>>, <<>>, pu, "") : a \in { x \in D1 : VV[x[1]].t = "obj" } }
        \cup { Meth(ab[1], "tag", <<ab[2]>>, <<>>, <<>>, pu, "") : ab \in { x \in D2 : VV[x[1]].t = "obj" } }
        \cup { Meth(ab[1], "tag", <<>>, <<nm>>, <<ab[2]>>, pu, "") : nm \in {"j", "k"}, ab \in { x \in D2 : VV[x[1]].t = "obj" } }
        \cup { Meth(ab[1], "count", <<ab[2]>>, <<>>, <<>>, pu, "") : ab \in { x \in D2 : IsSeq(VV[x[1]]) } }
        \cup { Bin(nm, ab[1], ab[2]) : nm \in {"add", "sub", "mul", "floordiv", "lt"}, ab \in { x \in A2 : DD[x[1]] \/ DD[x[2]] } }
        \cup { Un(nm, a[1]) : nm \in {"neg", "invert"}, a \in { x \in D1 : IsInt(VV[x[1]]) } }
      conts == ContsOver(A1, A2, W)
      ok(nd) == NodeOK(nd, p, I, VV, DD)
      \* access operations are 4 times as likely as calls, containers half (their menu is the largest)
      sel(nd, r) == r >= 1000 \/ Mix(NodeCode(nd), salt) % 1000 < r
  IN { nd \in calls : sel(nd, rate) /\ ok(nd) }
     \cup { nd \in access : sel(nd, 4 * rate) /\ ok(nd) }
     \cup { nd \in conts : sel(nd, IF rate >= 1000 THEN rate ELSE (rate + 1) \div 2) /\ ok(nd) }

\* ---------------------------------------------------------------- Mode = "pairs": the pure-key clause, exhaustively
\* Universe of keyed pure things over the leaves only: every call shape (positional / keyword "j" / keyword "k" /
\* both keywords, any order of the leaves, nout calls, a dask_key_name), and every container wrapped with
\* pure=True.  A program = leaves, two members of ONE family of the universe (every unordered pair, the same
\* member twice included), and a call that consumes both - so both are computed in one graph.
PairUniverse(p, I) ==
  LET nl == Len(p) - NOps(p)                 \* the leaves come first
      R  == 1..nl
      m  == Len(p)
      VV == [j \in 1..m |-> I[j].val]
      DD == [j \in 1..m |-> I[j].d]
      A0 == {<<>>}
      A1 == { <<a>> : a \in R }
      A2 == { <<a, b>> : a \in R, b \in R }
      calls == { Call("f1", sh[1], sh[2], sh[3], TRUE, "", 0) : sh \in CallShapes(A0, A1, A2) }
               \cup { Call("f1", xs, <<>>, <<>>, TRUE, "kk", 0) : xs \in A1 }
               \cup { Call("tup", xs, <<>>, <<>>, TRUE, "", Len(xs)) : xs \in A1 \cup A2 }
      \* containers wrapped with pure=True: the sequence, mapping and dataclass paths of unpack_collections
      conts == { nd \in ContsOver(A1, A2, { <<TRUE, TRUE>> }) : nd.nm \in {"list", "tuple", "dict", "obj"} }
  IN [calls |-> { nd \in calls : NodeOK(nd, p, I, VV, DD) }, conts |-> { nd \in conts : NodeOK(nd, p, I, VV, DD) }]

PairMenu(p, I) ==
  LET U == PairUniverse(p, I)
      k == NOps(p)
      m == Len(p)
  IN IF k = 0 THEN U.calls \cup U.conts
     ELSE IF k = 1 THEN { nd \in (IF p[m].op = "call" THEN U.calls ELSE U.conts) :
                            NodeCode(nd) >= NodeCode(p[m]) /\ (p[m].dkn = "" \/ nd.dkn = "" \/ nd = p[m]) }
     ELSE { Call("f2", <<m - 1, m>>, <<>>, <<>>, TRUE, "", 0) }

\* leaves and results nobody uses yet; every operation uses at most 3 nodes
Unused(p) == Cardinality({ i \in 1..(Len(p) - 1) : \A j \in (i + 1)..Len(p) : i \notin NodeRefs(p[j]) })
CanFinish(p) == Unused(p) <= 2 * (MaxOps - NOps(p))

ClassesI(p, I) ==
  [i \in DOMAIN p |-> IF ~I[i].d THEN 0
                      ELSE CHOOSE j \in 1..i : I[j].d /\ I[j].key = I[i].key
                                               /\ \A k \in 1..(j - 1) : ~(I[k].d /\ I[k].key = I[i].key)]
Export(p, I) == [prog |-> p, vals |-> [i \in DOMAIN p |-> I[i].val], cls |-> ClassesI(p, I), dl |-> [i \in DOMAIN p |-> I[i].d]]
Exportable(p, I) == IF Mode = "pairs" THEN NOps(p) = 3
                    ELSE NOps(p) >= 1 /\ I[Len(p)].d /\ Connected(p)

\* pairs mode: the leaves 1, 2 with the first one a Delayed (so keywords and members can be Delayed-valued)
PairLeafConfigs == { <<Const(IntV(1), TRUE), Const(IntV(2), w)>> : w \in BOOLEAN }

Init == /\ prog \in (IF Mode = "pairs" THEN PairLeafConfigs ELSE LeafConfigs)
        /\ info = Info(prog)
        /\ hash = ProgHash(prog)
        /\ pure \in Pures
        /\ out = ""

Next == /\ NOps(prog) < MaxOps
        /\ \E nd \in (IF Mode = "pairs" THEN PairMenu(prog, info) ELSE Menu(prog, info, pure, hash, Rate[NOps(prog) + 1])) :
                /\ prog' = Append(prog, nd)
                /\ hash' = Mix(NodeCode(nd), hash)
                /\ info' = Append(info, InfoAt(nd, Len(prog) + 1, info))
                /\ (Mode = "pairs" \/ CanFinish(prog'))
        /\ UNCHANGED pure
        /\ out' = IF Exportable(prog', info') THEN ToJson(Export(prog', info')) ELSE ""

\* ---------------------------------------------------------------- design checks
InfoOK == info = Info(prog) /\ ClassesI(prog, info) = Classes(prog) /\ hash = ProgHash(prog)
Sane == WellFormed(prog) /\ \A i \in DOMAIN prog : BuildableNode(prog[i], [j \in DOMAIN info |-> info[j].d])
\* the menu is value-directed: no generated program has a Python error anywhere
NoErrors == \A i \in DOMAIN prog : ~IsErr(info[i].val)
\* soundness of the registry: nodes that must share a key denote the same value
IdentSound ==
  \A i, j \in DOMAIN prog : (info[i].d /\ info[j].d /\ info[i].key = info[j].key) => info[i].val = info[j].val
\* the meaning does not look at how the program is built
Strip(p) == [i \in DOMAIN p |-> [p[i] EXCEPT !.w = FALSE, !.pure = FALSE, !.dkn = ""]]
BuildFree == Vals(Strip(prog)) = [i \in DOMAIN prog |-> info[i].val]
\* iterating over an nout call yields the elements of the returned tuple
NoutLen == \A i \in DOMAIN prog : (prog[i].op = "call" /\ prog[i].i > 0)
              => (info[i].val.t = "tuple" /\ Len(info[i].val.xs) = prog[i].i)
NoutElems == \A i \in DOMAIN prog : prog[i].op = "nout"
              => info[i].val = info[prog[i].xs[1]].val.xs[prog[i].i + 1]
\* an impure call never shares its key
ImpureFresh ==
  \A i, j \in DOMAIN prog : (i # j /\ info[i].d /\ info[j].d /\ prog[i].op \in {"call", "meth"} /\ ~prog[i].pure /\ prog[i].dkn = "")
                               => info[i].key # info[j].key
=============================================================================
