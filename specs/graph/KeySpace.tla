------------------------------ MODULE KeySpace ------------------------------
(* C13 - collections computed together give the same values as computed alone
   (dask/base.py: compute, collections_to_expr; dask/_expr.py: _ExprSequence,
   _HLGExprSequence._tune_down, HLGFinalizeCompute; the key-naming sites
   dask/array/core.py from_array / elemwise, dask/delayed.py call_function).

   A collection is a record
       [id, kind, alone, keys]
   id    : the collection (an integer)
   kind  : which family built it ("array", "bag", "delayed", "frame") - dask merges
           the graphs of one kind and optimizes them together
   alone : fingerprint of the value the collection has when it is computed ALONE
   keys  : <<[key, val]>> - every task key of its graph with the fingerprint of
           the value that key denotes when the collection is computed alone
   (keys and fingerprints are interned integers).

   The registry `denotes` maps a key to the first value registered for it.
   Register(reg, c) adds c's keys; a key that is already registered with ANOTHER
   value is a clash (two different computations named alike).  The property is
   about results only:
       ComputeTogether(colls, res) is correct  iff  res[i] = colls[i].alone for all i
   a clash is not a violation by itself; it is reported as the cause when the
   results are wrong.

   The second half of the module is a small model of what dask.compute does with
   a tuple - merge the graphs (a clashing key keeps ONE of its values), evaluate,
   hand the results back - in the two variants
       Impl = "positional" : result i is the value of output key i
       Impl = "grouped"    : outputs are regrouped by kind (first appearance
                             order) and handed back in THAT order (the code as
                             found: _HLGExprSequence._tune_down + repack)
   KeySpaceMC checks  TogetherEqualsAlone  on all small tuples: it holds for
   "positional" on clash-free tuples and fails for "grouped" as soon as kinds
   are interleaved.                                                          *)
EXTENDS Naturals, Sequences, FiniteSets, TLC

NoVal == 0                         \* fingerprints and keys are positive

\* ---- registry
EmptyDenotes == <<>>
RECURSIVE AddKeys(_, _, _)
AddKeys(den, ks, j) ==
  IF j > Len(ks) THEN den
  ELSE AddKeys(IF ks[j].key \in DOMAIN den THEN den ELSE (ks[j].key :> ks[j].val) @@ den, ks, j + 1)
Register(den, c) == AddKeys(den, c.keys, 1)
ClashKeys(den, c) == { c.keys[j].key : j \in { q \in DOMAIN c.keys : c.keys[q].key \in DOMAIN den /\ den[c.keys[q].key] # c.keys[q].val } }

RECURSIVE RegisterAll(_, _, _)
RegisterAll(den, colls, j) == IF j > Len(colls) THEN den ELSE RegisterAll(Register(den, colls[j]), colls, j + 1)
\* keys on which some member of the tuple disagrees with an earlier member
RECURSIVE ClashesIn(_, _, _)
ClashesIn(den, colls, j) == IF j > Len(colls) THEN {}
                            ELSE ClashKeys(den, colls[j]) \cup ClashesIn(Register(den, colls[j]), colls, j + 1)
TupleClashes(colls) == ClashesIn(EmptyDenotes, colls, 1)

\* ---- the property
TogetherOK(colls, res) == Len(res) = Len(colls) /\ \A i \in DOMAIN colls : res[i] = colls[i].alone
IsPermutation(colls, res) ==
  /\ Len(res) = Len(colls)
  /\ \A v \in { res[i] : i \in DOMAIN res } \cup { colls[i].alone : i \in DOMAIN colls } :
        Cardinality({ i \in DOMAIN res : res[i] = v }) = Cardinality({ i \in DOMAIN colls : colls[i].alone = v })

\* kinds are interleaved: some kind occurs on both sides of another kind (regrouping by kind then moves results)
Interleaved(colls) == \E i, j, q \in DOMAIN colls : i < j /\ j < q /\ colls[i].kind = colls[q].kind /\ colls[i].kind # colls[j].kind

\* every wrong result is the alone value of another member with which the collection shares a clashing key
SharesClash(ci, cj) == \E p \in DOMAIN ci.keys, q \in DOMAIN cj.keys : ci.keys[p].key = cj.keys[q].key /\ ci.keys[p].val # cj.keys[q].val
ClashExplains(colls, res) == /\ Len(res) = Len(colls)
                             /\ \A i \in DOMAIN colls : \/ res[i] = colls[i].alone
                                                         \/ \E j \in DOMAIN colls : SharesClash(colls[i], colls[j]) /\ res[i] = colls[j].alone

\* clauses a recorded ComputeTogether violates (the first one is the verdict, the others name the cause)
TogetherBad(colls, res, raised) ==
  IF raised THEN { "Raised" }
  ELSE IF TogetherOK(colls, res) THEN {}
  ELSE { "Together" }
       \cup (IF TupleClashes(colls) # {} THEN { "KeyClash" } ELSE {})
       \cup (IF TupleClashes(colls) # {} /\ ClashExplains(colls, res) THEN { "ClashExplains" } ELSE {})
       \cup (IF Interleaved(colls) THEN { "Interleaved" } ELSE {})
       \cup (IF IsPermutation(colls, res) THEN { "Permuted" } ELSE {})

-----------------------------------------------------------------------------
\* ---- sibling pairs
(* Two collections built from the SAME base by the SAME operation with ONE differing
   argument (a # b).  A recorded pair is
       [names: <<na, nb>>, alone: <<va, vb>>, tog: <<.,.>>, togrev: <<.,.>>, derived, want, raised]
   names   : the collection names (interned);  alone : the values computed one at a time
   tog     : dask.compute(A, B);  togrev : dask.compute(B, A)
   derived : the value of ONE collection that consumes both (a task receiving A and B),
             want : the value it must have, composed from `alone`  (0, 0 = not observed)
   Requirement: together == alone in both orders and inside a consumer; and - this is what the
   results property needs, see KeySpaceMC!SameNameIsWrong - the names differ whenever the
   values differ.  "SameName" is also reported as the CAUSE of wrong results.             *)
SiblingBad(r) ==
  IF r.raised THEN { "Raised" }
  ELSE LET differ == r.alone[1] # r.alone[2]
           same   == r.names[1] = r.names[2]
           bad    == (IF r.tog = r.alone /\ r.togrev = <<r.alone[2], r.alone[1]>> THEN {} ELSE { "Together" })
                     \cup (IF r.derived = r.want THEN {} ELSE { "Derived" })
                     \cup (IF differ /\ same THEN { "SameName" } ELSE {})
       IN bad

-----------------------------------------------------------------------------
\* ---- model of dask.compute on a tuple (each collection: one output key `out` among its keys)
CONSTANT Impl

KindOrder(colls) ==           \* kinds in order of first appearance
  LET RECURSIVE F(_, _)
      F(j, acc) == IF j > Len(colls) THEN acc
                   ELSE F(j + 1, IF \E q \in DOMAIN acc : acc[q] = colls[j].kind THEN acc ELSE Append(acc, colls[j].kind))
  IN F(1, <<>>)
\* positions of the tuple, regrouped by kind
Regrouped(colls) ==
  LET ko == KindOrder(colls)
      RECURSIVE G(_)
      G(q) == IF q > Len(ko) THEN <<>>
              ELSE SelectSeq([i \in DOMAIN colls |-> i], LAMBDA i : colls[i].kind = ko[q]) \o G(q + 1)
  IN G(1)
\* all results the model can hand back: `merged` is any graph obtained by keeping one value per key
Merged(colls) ==
  LET ks == UNION { { c.keys[j].key : j \in DOMAIN c.keys } : c \in { colls[i] : i \in DOMAIN colls } }
      vals(k) == UNION { { c.keys[j].val : j \in { q \in DOMAIN c.keys : c.keys[q].key = k } } : c \in { colls[i] : i \in DOMAIN colls } }
  IN { g \in [ks -> UNION { vals(k) : k \in ks }] : \A k \in ks : g[k] \in vals(k) }
ModelResults(colls) ==
  { IF Impl = "positional" THEN [i \in DOMAIN colls |-> g[colls[i].out]]
    ELSE LET perm == Regrouped(colls) IN [j \in DOMAIN colls |-> g[colls[perm[j]].out]]
    : g \in Merged(colls) }
=============================================================================
