----------------------------- MODULE TaskSpecMC -----------------------------
(* C08, spec -> code: TLC enumerates every expression of the bounded space as
   the value of key "out" of a small graph (keys: the string "a", the tuple
   ("x", 0), the integer 5, "out") and exports the graph with, per key, the value
   it must compute and the keys it references.
     Fam = "legacy": legacy expressions - nested calls, lists, dicts, literal
           tuples and sets, tuple / integer keys, quoted values, key-like literals;
     Fam = "ts":     task objects - Task with positional / keyword arguments,
           nested List / Tuple / Set / Dict containers, explicit references,
           literals that merely look like keys.                                 *)
EXTENDS TaskSpec, Json, Randomization

CONSTANTS Fam,      \* "legacy" | "ts"
          Depth,    \* nesting depth of the expression under test (1..3)
          Last      \* 0 = all expressions; k > 0: a seeded random k-subset of the deepest level

VARIABLES case, out

KA == VStr("a")
KX == VTuple(<<VStr("x"), VLit(0)>>)
K5 == VLit(5)
KO == VStr("out")
NotKeyStr == VStr("zz")
NotKeyTup == VTuple(<<VStr("x"), VLit(9)>>)        \* looks like the key ("x", 0)
LitTup    == VTuple(<<VLit(1), VStr("zz")>>)       \* a literal tuple

\* ---------------- legacy
LLeaves == { Atom(VLit(1)), Atom(KA), Atom(NotKeyStr), Atom(KX), Atom(NotKeyTup), Atom(K5), Atom(LitTup),
             Quote(KA), Quote(KX), Quote(VList(<<KA, VLit(1)>>)),
             SetE(<<Atom(VLit(1)), Atom(VLit(2))>>) }

LInner(d, one, two) ==
  LET f == <<"c1", "c2", "c3">>[d] IN
  { Call(f, <<>>), ListE(<<>>), DictE(<<>>, <<>>) }
  \cup { Call(f, <<x>>) : x \in one } \cup { ListE(<<x>>) : x \in one } \cup { DictE(<<"p">>, <<x>>) : x \in one }
  \cup { Call(f, p) : p \in two } \cup { ListE(p) : p \in two } \cup { DictE(<<"p", "q">>, p) : p \in two }

Pairs(A, B) == { <<x, y>> : x \in A, y \in B }

\* ---------------- task objects
TLeaves == { RefE(KA), RefE(KX), RefE(K5), Quote(VLit(1)), Quote(KA), Quote(KX), Quote(VList(<<KA>>)) }
Hashable(x) == x.e \in {"ref", "quote"} /\ (x.e = "quote" => x.v.t # "list")

TInner(d, one, two) ==
  LET f == <<"c1", "c2", "c3">>[d] IN
  { Call(f, <<>>), ListE(<<>>), DictE(<<>>, <<>>), TupleE(<<>>) }
  \cup { Call(f, <<x>>) : x \in one } \cup { CallKw(f, <<>>, << <<"p", x>> >>) : x \in one }
  \cup { ListE(<<x>>) : x \in one } \cup { TupleE(<<x>>) : x \in one }
  \cup { SetE(<<x>>) : x \in {y \in one : Hashable(y)} } \cup { DictE(<<"p">>, <<x>>) : x \in one }
  \cup { Call(f, p) : p \in two } \cup { CallKw(f, <<p[1]>>, << <<"q", p[2]>> >>) : p \in two }
  \cup { ListE(p) : p \in two } \cup { TupleE(p) : p \in two }
  \cup { SetE(p) : p \in {q \in two : Hashable(q[1]) /\ Hashable(q[2])} }
  \cup { DictE(<<"p", "q">>, p) : p \in two }

Leaves == IF Fam = "legacy" THEN LLeaves ELSE TLeaves
Inner(d, one, two) == IF Fam = "legacy" THEN LInner(d, one, two) ELSE TInner(d, one, two)

\* expressions of depth <= d; at depth >= 2 a pair has at most one non-leaf child
RECURSIVE Upto(_)
Upto(d) == IF d = 0 THEN Leaves
           ELSE LET sub == Upto(d - 1)
                    two == IF d = 1 THEN Pairs(Leaves, Leaves)
                           ELSE Pairs(sub, Leaves) \cup Pairs(Leaves, sub)
                IN sub \cup Inner(d, sub, two)

Exprs == LET all == Upto(Depth)
             deep == all \ Upto(Depth - 1)
         IN IF Last > 0 /\ Cardinality(deep) > Last THEN Upto(Depth - 1) \cup RandomSubset(Last, deep) ELSE all

\* the surrounding graph: two shapes of the nodes the expression can refer to
Base(b) == IF b = 1
           THEN (KA :> Call("fa", <<>>)) @@ (KX :> Call("fx", <<IF Fam = "legacy" THEN Atom(KA) ELSE RefE(KA)>>))
                @@ (K5 :> Call("f5", <<>>))
           ELSE (KA :> Quote(VLit(7))) @@ (KX :> (IF Fam = "legacy" THEN Atom(KA) ELSE RefE(KA)))
                @@ (K5 :> Call("f5", <<IF Fam = "legacy" THEN Atom(KX) ELSE RefE(KX)>>))

\* the key under test must be a node: in task-object graphs a Task (call), an alias or data
TopOK(x) == Fam = "legacy" \/ x.e \in {"call", "ref", "quote"}

Order == <<KA, KX, K5, KO>>
Export(g) == [g |-> [i \in 1..4 |-> [k |-> Order[i], e |-> g[Order[i]]]],
              val |-> [i \in 1..4 |-> Val(g, Order[i])],
              refs |-> [i \in 1..4 |-> RefsOf(DOMAIN g, g[Order[i]])]]

Init == /\ case = <<>>
        /\ out = ""
Next == /\ case = <<>>
        /\ \E b \in {1, 2} : \E x \in {y \in Exprs : TopOK(y)} :
             case' = (Base(b) @@ (KO :> x))
        /\ out' = ToJson(Export(case'))

\* ---- design check of the semantics itself
IsCase == case # <<>>
\* an expression's value mentions the value of every key it references, and Val is defined (closed, acyclic)
Sane == IsCase => GClosed(case) /\ GAcyclic(case)
\* references are exactly what the value depends on: changing a non-referenced key's node never changes
\* the value, changing a referenced one always does (the Herbrand property of the semantics)
Probe(k) == [case EXCEPT ![k] = Call("probe", <<>>)]
RefsExact == IsCase => \A k \in {KA, KX, K5} :
               (k \in ReachD(GDeps(case), {KO}) \ {KO}) <=> (Val(Probe(k), KO) # Val(case, KO))
\* quoting protects: a quoted key-like value is never a reference
QuoteInert == IsCase => (case[KO].e = "quote" => (RefsOf(DOMAIN case, case[KO]) = {} /\ Val(case, KO) = case[KO].v))
=============================================================================
