---------------------------- MODULE KeySpaceTrace ----------------------------
(* code -> spec for C13.  One record per dask.compute(c1, ..., cn) call made on
   real collections:
      [id, kind |-> "tuple", colls: <<[id, kind, alone, keys: <<[key, val]>>]>>, res: <<fingerprint>>, raised]
   or per sibling pair (KeySpace!SiblingBad)
      [id, kind |-> "sibling", names, alone, tog, togrev, derived, want, raised]
   colls[i].alone and colls[i].keys were observed when collection i was computed
   ALONE (every key of its graph evaluated on its own).  The record is rejected
   when some res[i] differs from colls[i].alone; the extra clauses name the cause
   (kinds interleaved; a key registered with two different values inside the tuple;
   results that are a permutation of the expected ones).                                       *)
EXTENDS KeySpace, TraceIO

Bad(r) == IF r.kind = "sibling" THEN SiblingBad(r) ELSE TogetherBad(r.colls, r.res, r.raised)
Init == TInit
Next == TNext(Bad)
=============================================================================
