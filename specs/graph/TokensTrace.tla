----------------------------- MODULE TokensTrace -----------------------------
(* code -> spec for C12.  Each record of $TRACE_FILE is one observation
      [id, det, cls, plain, tok, proc, how, raised]
   made on the real dask.tokenize (classes and tokens interned to positive
   integers; det/cls/plain are the ones module TokensMC computed for the value
   that was tokenised).  The records are run, in order, through the registry of
   module Tokens; an observation that makes tokOf stop being a function
   (determinism, clause Det_<route> or DetAcrossInterpreters), makes clsOf stop
   being a function (clause Distinct) or reports an exception (Raised) is
   rejected.  Output protocol of TraceIO: one REJECT line per rejected record
   and a final DONE line with the number of records consumed.                *)
EXTENDS Tokens, TraceIO

VARIABLE rg

Init == TInit /\ rg = EmptyReg
Next ==
  \/ /\ l <= Len(Recs)
     /\ LET r == Recs[l]
            s == RegStep(rg, r)
        IN /\ rg' = s.reg
           /\ IF s.bad = {} THEN nbad' = nbad
              ELSE /\ nbad' = nbad + 1
                   /\ PrintT(<<"REJECT", r.id, s.bad>>)
     /\ l' = l + 1
  \/ /\ l = Len(Recs) + 1
     /\ PrintT(<<"DONE", Len(Recs), nbad>>)
     /\ l' = l + 1
     /\ UNCHANGED <<nbad, rg>>
=============================================================================
