------------------------------ MODULE UnitsTrace ------------------------------
(* code -> spec for C18: one record per call of the real helper, with the output
   projected into the scaled domain of module Units by the harness:

   kind "format"     n (as decomposition d relative to the unit that was PRINTED, b = its
                     exponent/10, -1 if the text has not the documented form), ip, fp = printed
                     integer part and hundredths, len = len(text), tp = parse_bytes(text) in
                     units of k/2^20 (rounded down; the byte count itself for b = 0)
   kind "parsebytes" c = the case (unit, prefix), q, f = result / multiplier (integer part, millionths)
   kind "timedelta"  c, micro = result / (num/den) in millionths
   kind "nsk"        s = the string (alphabet codes), parts = the returned list (int?, length)
   kind "ksplit"     s, o = [raised, isstr, preflen];  known = FALSE for arbitrary keys (totality only)  *)
EXTENDS Units, TraceIO

BadFormat(r) ==
  IF r.raised THEN {"Total"}
  ELSE IF r.b < 0 THEN {"Shape"}
  ELSE Clause("LenBound", LenOK(r.len))
       \cup Clause("PrintedPrecision", IF r.b = 0 THEN PlainOK(r.d, r.ip) ELSE DigitsOK(r.d, r.b, r.ip, r.fp))
       \cup (IF r.praised THEN {"RoundTripRaises"} ELSE Clause("RoundTrip", RoundTripOK(r.d, r.b, r.tp)))

BadParseBytes(r) == IF r.raised THEN {"UnitAccepted"} ELSE Clause("Multiplier", ParseBytesOK(r.c, r.q, r.f))
BadTime(r)       == IF r.raised THEN {"UnitAccepted"} ELSE Clause("Multiplier", ParseTimeOK(r.c, r.micro))
BadNsk(r)        == IF r.raised THEN {"Total"} ELSE Clause("Shape", NaturalKeyOK(r.s, r.parts))
BadKsplit(r)     == Clause("Total", KeySplitTotal(r.o))
                    \cup (IF r.known /\ KeySplitTotal(r.o) THEN Clause("LeadingWords", KeySplitRuleOK(r.s, r.o)) ELSE {})

Bad(r) == CASE r.kind = "format"     -> BadFormat(r)
            [] r.kind = "parsebytes" -> BadParseBytes(r)
            [] r.kind = "timedelta"  -> BadTime(r)
            [] r.kind = "nsk"        -> BadNsk(r)
            [] r.kind = "ksplit"     -> BadKsplit(r)

Init == TInit
Next == TNext(Bad)
=============================================================================
