--------------------------- MODULE CollectionsMC ---------------------------
(* C14, spec -> code: TLC enumerates the argument tuples of dask.compute /
   persist / optimize - every structure of depth <= 3 (the argument tuple
   counts as the first level) built from three collections and two plain
   leaves, every container kind, every order of the collections (so every
   order of their kinds, A-B-A included: which KIND a collection has is chosen
   by the harness among assignments under which the structure can be built -
   only Delayed objects are hashable, HashIds tells which collections sit in
   sets or are dict keys), repeated occurrences, traverse on / off - together
   with the results the contract demands.                                      *)
EXTENDS Collections, Json

CONSTANTS RootW,     \* max number of arguments (1..3)
          SibW,      \* max number of leaf siblings next to a nested argument
          Deep       \* TRUE: containers of containers as well

VARIABLES case, out

Colls  == { Coll(1), Coll(2), Coll(3) }
Leaves == Colls \cup { Plain(7), PStr("s") }
HLeaves == Leaves                       \* candidates for set members / dict keys (collections there must be Delayed)

Seqs(S, n) == [1..n -> S]
UpTo(S, n) == UNION { Seqs(S, m) : m \in 1..n }
Distinct(q) == \A i, j \in DOMAIN q : i # j => q[i] # q[j]

Keys1 == { <<PStr("p")>> } \cup { <<c>> : c \in Colls }
Keys2 == { <<PStr("p"), PStr("q")>> } \cup { <<c, PStr("q")>> : c \in Colls }

\* containers of leaves
C2 ==
  { SeqN(kind, xs) : kind \in {"list", "tuple", "iter"}, xs \in UpTo(Leaves, 2) }
  \cup { SeqN("list", xs) : xs \in Seqs(Colls, 3) }
  \cup { SeqN("set", xs) : xs \in { q \in UpTo(HLeaves, 2) : Distinct(q) } }
  \cup { SeqN(kind, xs) : kind \in {"dc", "nt"}, xs \in Seqs(Leaves, 2) }
  \cup { MapN(kind, ks, vs) : kind \in {"dict", "odict"}, ks \in Keys1, vs \in Seqs(Leaves, 1) }
  \cup { MapN(kind, ks, vs) : kind \in {"dict", "odict"}, ks \in { q \in Keys2 : Distinct(q) }, vs \in Seqs(Leaves, 2) }

\* containers holding one container of leaves and at most one leaf
C3 ==
  { SeqN(kind, <<c>>) : kind \in {"list", "tuple", "iter"}, c \in C2 }
  \cup { SeqN(kind, <<c, l>>) : kind \in {"list", "tuple", "dc", "nt"}, c \in C2, l \in Leaves }
  \cup { SeqN(kind, <<l, c>>) : kind \in {"list", "tuple", "dc", "nt"}, c \in C2, l \in Leaves }
  \cup { MapN(kind, <<PStr("p")>>, <<c>>) : kind \in {"dict", "odict"}, c \in C2 }
  \cup { MapN(kind, <<l, PStr("q")>>, <<PStr("s"), c>>) : kind \in {"dict", "odict"}, c \in C2, l \in Colls }

Nested2 == IF Deep THEN C2 \cup C3 ELSE C2

\* argument tuples: leaves only, or exactly one nested argument among at most SibW leaves
Insert(q, p, x) == SubSeq(q, 1, p) \o <<x>> \o SubSeq(q, p + 1, Len(q))
ArgTuples ==
  UpTo(Leaves, RootW)
  \cup { <<c>> : c \in Nested2 }
  \cup UNION { { Insert(q, p, c) : p \in 0..Len(q) } : c \in Nested2, q \in UpTo(Leaves, IF SibW < RootW - 1 THEN SibW ELSE RootW - 1) }

HashIds(args) ==
  LET RECURSIVE H(_)
      H(s) == IF IsLeaf(s) THEN {}
              ELSE IF s.k = "set" THEN { s.xs[i].c : i \in { j \in DOMAIN s.xs : s.xs[j].k = "coll" } }
                                       \cup UNION { H(s.xs[i]) : i \in DOMAIN s.xs }
              ELSE IF IsSeqN(s) THEN UNION { H(s.xs[i]) : i \in DOMAIN s.xs }
              ELSE { s.ks[i].c : i \in { j \in DOMAIN s.ks : s.ks[j].k = "coll" } } \cup UNION { H(s.vs[i]) : i \in DOMAIN s.vs }
  IN UNION { H(args[i]) : i \in DOMAIN args }

Export(c) == [args |-> c.args, traverse |-> c.traverse, hash |-> HashIds(c.args),
              found |-> Found(c.args, c.traverse),
              compute |-> ComputeOf(c.args, c.traverse), persist |-> PersistOf(c.args, c.traverse)]

Init == /\ case \in [args : ArgTuples, traverse : BOOLEAN]
        /\ out = ToJson(Export(case))
Next == UNCHANGED <<case, out>>

\* ---------------------------------------------------------------- design checks of the contract itself
A == case.args
T == case.traverse
\* the result has the container kinds, the order and the plain leaves of the arguments
ShapeKept   == T => \A i \in DOMAIN A : Skeleton(ComputeOf(A, T)[i]) = Skeleton(A[i])
\* with traverse: no lazy leaf is left, and exactly the collections that occur are computed, position by position
AllComputed == T => \A i \in DOMAIN A : Flatten(ComputeOf(A, T)[i]) = Flatten(A[i])
                                        /\ Flatten(MapColl(ComputeOf(A, T)[i], "lazy")) = Flatten(ComputeOf(A, T)[i])
\* without traverse nothing below the top level is touched
TopOnly     == ~T => \A i \in DOMAIN A : (A[i].k # "coll") => ComputeOf(A, T)[i] = A[i] /\ PersistOf(A, T)[i] = A[i]
\* computing a computed structure changes nothing
Idempotent  == ComputeOf(ComputeOf(A, T), T) = ComputeOf(A, T)
\* persist then compute = compute
PersistThenCompute ==
  LET P == PersistOf(A, T)
      back(s) == s        \* a Lazy(i) leaf computes to Val(i): compare the collection ids position by position
  IN \A i \in DOMAIN A : Flatten(P[i]) = Flatten(ComputeOf(A, T)[i]) /\ Skeleton(P[i]) = Skeleton(ComputeOf(A, T)[i])
\* the collections found are exactly the ones that occur (under traverse)
FoundAll    == T => RangeOf(Found(A, T)) = UNION { CollIds(A[i]) : i \in DOMAIN A }
DepthBound  == \A i \in DOMAIN A : Depth(A[i]) <= 2
=============================================================================
