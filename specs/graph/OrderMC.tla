------------------------------ MODULE OrderMC ------------------------------
(* C06, spec -> code: TLC enumerates the bounded input space of `order`; every
   non-seed state is one case.  The invariants check the contract itself.

   Plan is a sequence of enumeration jobs
       [fam, n, allkinds, maxext, stride, offset]
   fam = "dag" : every DAG on 1..n in canonical numbering x every assignment of
                 node kinds  "t" (task) / "p" (plain: data if it has no dependency,
                 alias or list otherwise)
   fam = "ext" : the same x every non-empty set of at most maxext references
                 from task nodes to the external keys n+1, n+2
   fam = "cyc" : every cyclic digraph on 1..n (self-loops included) x kinds
   allkinds = FALSE restricts the kinds to all-task and all-plain;
   (stride, offset) = (1, 0) enumerates every graph code, otherwise only the codes
   gc with gc % stride = offset (a declared sample, used above the exhaustive bound). *)
EXTENDS Order, TLC, Json

CONSTANTS Plan,
          UnsatN     \* CyclicUnsatisfiable is checked by brute force up to this many nodes

VARIABLES case, out

KindsOfCode(n, c) == [i \in 1..n |-> IF Bit(c, i - 1) = 1 THEN "p" ELSE "t"]
KindCodes(j)      == IF j.allkinds THEN 0..(2 ^ j.n - 1) ELSE {0, 2 ^ j.n - 1}

ExtPairs(n, kinds)  == { <<k, e>> \in (1..n) \X {n + 1, n + 2} : kinds[k] = "t" }
ExtSets(n, kinds, m) == { X \in SUBSET ExtPairs(n, kinds) : Cardinality(X) \in 1..m }
WithExt(g, X)       == [k \in DOMAIN g |-> g[k] \cup { p[2] : p \in { q \in X : q[1] = k } }]

G(c) == [k \in 1..c.n |-> c.deps[k]]
Export(c) == ToJson([c |-> c, e |-> [dag |-> IsDag(G(c))]])

\* Two-level enumeration so that TLC's workers share the work: an initial "seed" state
\* per (job, slice); its successors are the cases of that slice.  Seeds export nothing.
Slices == 16
NumCodes(j) == IF j.fam = "cyc" THEN NumDigraphCodes(j.n) ELSE NumDagCodes(j.n)
CodesOf(j, s) == { gc \in { q * j.stride + j.offset : q \in { x \in 0..(NumCodes(j) \div j.stride) : x % Slices = s } } :
                     gc < NumCodes(j) }

Init == \E p \in DOMAIN Plan : \E s \in 0..(Slices - 1) :
          /\ case = [fam |-> "seed", p |-> p, s |-> s]
          /\ out = ""

Gen(j, s) ==
  \E gc \in CodesOf(j, s) : \E kc \in KindCodes(j) :
    LET n == j.n
        kinds == KindsOfCode(n, kc) IN
    CASE j.fam = "dag" -> /\ case' = [fam |-> "dag", n |-> n, deps |-> DagOfCode(n, gc), kinds |-> kinds]
                          /\ out' = Export(case')
      [] j.fam = "ext" -> \E X \in ExtSets(n, kinds, j.maxext) :
                          /\ case' = [fam |-> "ext", n |-> n, deps |-> WithExt(DagOfCode(n, gc), X), kinds |-> kinds]
                          /\ out' = Export(case')
      [] j.fam = "cyc" -> /\ HasCycle(DigraphOfCode(n, gc))
                          /\ case' = [fam |-> "cyc", n |-> n, deps |-> DigraphOfCode(n, gc), kinds |-> kinds]
                          /\ out' = Export(case')

Next == IF case.fam = "seed" THEN Gen(Plan[case.p], case.s) ELSE UNCHANGED <<case, out>>

IsCase == case.fam # "seed"

-----------------------------------------------------------------------------
(* Design check of the contract.                                             *)
Canonical(c) == [k \in 1..c.n |-> <<k, k - 1>>]

\* on every enumerated DAG the contract is satisfiable (the canonical numbering is a witness)
DagSatisfiable == (IsCase /\ IsDag(G(case))) => Accepts(G(case), [res |-> "ok", prio |-> Canonical(case)])
\* ... and reversing a witness breaks DepsFirst as soon as there is an edge
ReversedRejected == (IsCase /\ IsDag(G(case)) /\ Edges(G(case)) # {}) =>
                      ~OrderOK(G(case), [k \in 1..case.n |-> <<k, case.n - k>>])
\* no assignment at all is accepted for a cyclic graph: the three clauses are jointly
\* unsatisfiable, so "reject with an error" is the only behaviour left (small n: all permutations)
CyclicUnsatisfiable == (IsCase /\ case.n <= UnsatN) =>
                         (HasCycle(G(case)) <=> \A p \in PermOutputs(G(case)) : ~OrderOK(G(case), p))
\* priorities for an external key, a missing key, or a repeated priority are rejected
ExternalRejected == (IsCase /\ IsDag(G(case))) =>
                      /\ ~OrderOK(G(case), Append(Canonical(case), <<case.n + 1, case.n>>))
                      /\ ~OrderOK(G(case), Tail(Canonical(case)))
                      /\ (case.n >= 2 => ~OrderOK(G(case), [Canonical(case) EXCEPT ![2] = <<2, 0>>]))
\* the enumeration is what it claims to be
FamilyShape == IsCase =>
               /\ (case.fam \in {"dag", "ext"} => IsDag(G(case)))
               /\ (case.fam = "cyc" => HasCycle(G(case)))
               /\ (case.fam = "ext" => External(G(case)) # {})
               /\ (case.fam # "ext" => External(G(case)) = {})
=============================================================================
