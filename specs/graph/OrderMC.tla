------------------------------ MODULE OrderMC ------------------------------
(* C06, spec -> code: TLC enumerates the bounded input space of `order`; every
   non-seed state is one case.  The invariants check the contract itself.

   Plan is a sequence of enumeration jobs
       [fam, n, allkinds, maxext, stride, offset, d, t]
   fam = "dag" : every DAG on 1..n in canonical numbering x every assignment of
                 node kinds  "t" (task) / "p" (plain: data if it has no dependency,
                 alias or list otherwise)
   fam = "ext" : the same x every non-empty set of at most maxext references
                 from task nodes to the external keys n+1, n+2
   fam = "cyc" : every cyclic digraph on 1..n (self-loops included) x kinds
   fam = "nest": the shapes da.store / lists of delayed objects produce: keys 1..d are
                 literal data roots, d+1..d+t tasks without dependencies, the remaining
                 n-d-t keys non-task list nodes, each referring to 2 or 3 EARLIER keys
                 (data roots, tasks, earlier list nodes: nested lists over shared roots)
   allkinds = FALSE restricts the kinds to all-task and all-plain;
   (stride, offset) = (1, 0) enumerates every graph code, otherwise only the codes
   gc with gc % stride = offset (a declared sample, used above the exhaustive bound). *)
EXTENDS Order, TLC, Json

CONSTANTS Plan,
          UnsatN     \* CyclicUnsatisfiable is checked by brute force up to this many nodes

VARIABLES case, out

KindsOfCode(n, c) == [i \in 1..n |-> IF Bit(c, i - 1) = 1 THEN "p" ELSE "t"]
KindCodes(j)      == IF j.allkinds THEN 0..(2 ^ j.n - 1) ELSE {0, 2 ^ j.n - 1}

ExtPairs(n, kinds)  == { <<k, e>> \in (1..n) \X {n + 1, n + 2} : kinds[k] = "t" }
ExtSets(n, kinds, m) == { X \in SUBSET ExtPairs(n, kinds) : Cardinality(X) \in 1..m }
WithExt(g, X)       == [k \in DOMAIN g |-> g[k] \cup { p[2] : p \in { q \in X : q[1] = k } }]

G(c) == [k \in 1..c.n |-> c.deps[k]]
Export(c) == ToJson([c |-> c, e |-> [dag |-> IsDag(G(c))]])

\* Two-level enumeration so that TLC's workers share the work: an initial "seed" state
\* per (job, slice); its successors are the cases of that slice.  Seeds export nothing.
Slices == 16
\* "nest": the rows of the d+t dependency-free keys are the low bits of a DAG code (PairIndex); the codes of
\* the family number only the remaining bits (a 9-key DAG code would not fit TLC's 32-bit integers)
LowBits(j)  == ((j.d + j.t) * (j.d + j.t - 1)) \div 2
NumCodes(j) == CASE j.fam = "cyc"  -> NumDigraphCodes(j.n)
                 [] j.fam = "nest" -> 2 ^ ((j.n * (j.n - 1)) \div 2 - LowBits(j))
                 [] OTHER          -> NumDagCodes(j.n)
CodesOf(j, s) == { c \in { x * j.stride + j.offset : x \in { y \in 0..(NumCodes(j) \div j.stride) : y % Slices = s } } :
                     c < NumCodes(j) }
NestOfCode(j, c) == [i \in 1..j.n |-> IF i <= j.d + j.t THEN {}
                                      ELSE { k \in 1..(i - 1) : Bit(c, PairIndex(i, k) - LowBits(j)) = 1 }]
NestKinds(j) == [i \in 1..j.n |-> IF i <= j.d THEN "p" ELSE IF i <= j.d + j.t THEN "t" ELSE "p"]
NestOK(j, g) == \A i \in (j.d + j.t + 1)..j.n : Cardinality(g[i]) \in 2..3

Init == \E p \in DOMAIN Plan : \E s \in 0..(Slices - 1) :
          /\ case = [fam |-> "seed", p |-> p, s |-> s]
          /\ out = ""

Gen(j, s) ==
  \E gc \in CodesOf(j, s) : \E kc \in (IF j.fam = "nest" THEN {0} ELSE KindCodes(j)) :
    LET n == j.n
        kinds == KindsOfCode(n, kc) IN
    CASE j.fam = "nest" -> /\ NestOK(j, NestOfCode(j, gc))
                           /\ case' = [fam |-> "nest", n |-> n, deps |-> NestOfCode(j, gc), kinds |-> NestKinds(j)]
                           /\ out' = Export(case')
      [] j.fam = "dag" -> /\ case' = [fam |-> "dag", n |-> n, deps |-> DagOfCode(n, gc), kinds |-> kinds]
                          /\ out' = Export(case')
      [] j.fam = "ext" -> \E X \in ExtSets(n, kinds, j.maxext) :
                          /\ case' = [fam |-> "ext", n |-> n, deps |-> WithExt(DagOfCode(n, gc), X), kinds |-> kinds]
                          /\ out' = Export(case')
      [] j.fam = "cyc" -> /\ HasCycle(DigraphOfCode(n, gc))
                          /\ case' = [fam |-> "cyc", n |-> n, deps |-> DigraphOfCode(n, gc), kinds |-> kinds]
                          /\ out' = Export(case')

Next == IF case.fam = "seed" THEN Gen(Plan[case.p], case.s) ELSE UNCHANGED <<case, out>>

IsCase == case.fam # "seed"

-----------------------------------------------------------------------------
(* Design check of the contract.                                             *)
Canonical(c) == [k \in 1..c.n |-> <<k, k - 1>>]

\* on every enumerated DAG the contract is satisfiable (the canonical numbering is a witness)
DagSatisfiable == (IsCase /\ IsDag(G(case))) => Accepts(G(case), [res |-> "ok", prio |-> Canonical(case)])
\* ... and reversing a witness breaks DepsFirst as soon as there is an edge
ReversedRejected == (IsCase /\ IsDag(G(case)) /\ Edges(G(case)) # {}) =>
                      ~OrderOK(G(case), [k \in 1..case.n |-> <<k, case.n - k>>])
\* no assignment at all is accepted for a cyclic graph: the three clauses are jointly
\* unsatisfiable, so "reject with an error" is the only behaviour left (small n: all permutations)
CyclicUnsatisfiable == (IsCase /\ case.n <= UnsatN) =>
                         (HasCycle(G(case)) <=> \A p \in PermOutputs(G(case)) : ~OrderOK(G(case), p))
\* priorities for an external key, a missing key, or a repeated priority are rejected
ExternalRejected == (IsCase /\ IsDag(G(case))) =>
                      /\ ~OrderOK(G(case), Append(Canonical(case), <<case.n + 1, case.n>>))
                      /\ ~OrderOK(G(case), Tail(Canonical(case)))
                      /\ (case.n >= 2 => ~OrderOK(G(case), [Canonical(case) EXCEPT ![2] = <<2, 0>>]))
\* the enumeration is what it claims to be
FamilyShape == IsCase =>
               /\ (case.fam \in {"dag", "ext", "nest"} => IsDag(G(case)))
               /\ (case.fam = "nest" => \A k \in 1..case.n :
                                          IF case.kinds[k] = "t" THEN G(case)[k] = {}
                                          ELSE Cardinality(G(case)[k]) \in {0, 2, 3})
               /\ (case.fam = "cyc" => HasCycle(G(case)))
               /\ (case.fam = "ext" => External(G(case)) # {})
               /\ (case.fam # "ext" => External(G(case)) = {})
=============================================================================
