------------------------------ MODULE OrderMC ------------------------------
(* C06, spec -> code: TLC enumerates the bounded input space of `order`; every
   initial state is one case.  The invariants check the contract itself.

   Fam = "dag" : every DAG on 1..n (n <= N) in canonical numbering x every
                 assignment of node kinds  "t" (task) / "p" (plain: data if it has
                 no dependency, alias or list otherwise)
   Fam = "ext" : the same (n <= N) x every set of at most MaxExt references from
                 task nodes to the external keys n+1, n+2
   Fam = "cyc" : every cyclic digraph on 1..n (n <= N, self-loops included)
                 x kinds (all kinds if AllKinds, else all-task and all-plain)  *)
EXTENDS Order, TLC, Json

CONSTANTS Fam, N, MaxExt, AllKinds, UnsatN,
          Stride, Offset   \* graph codes gc with gc % Stride = Offset are enumerated (1, 0 = all)

VARIABLES case, out

KindsOfCode(n, c) == [i \in 1..n |-> IF Bit(c, i - 1) = 1 THEN "p" ELSE "t"]
KindCodes(n)      == IF AllKinds THEN 0..(2 ^ n - 1) ELSE {0, 2 ^ n - 1}

ExtPairs(n, kinds) == { <<k, e>> \in (1..n) \X {n + 1, n + 2} : kinds[k] = "t" }
ExtSets(n, kinds)  == { X \in SUBSET ExtPairs(n, kinds) : Cardinality(X) \in 1..MaxExt }
WithExt(g, X)      == [k \in DOMAIN g |-> g[k] \cup { p[2] : p \in { q \in X : q[1] = k } }]

G(c) == [k \in 1..c.n |-> c.deps[k]]
Export(c) == ToJson([c |-> c, e |-> [dag |-> IsDag(G(c))]])

\* Two-level enumeration so that TLC's workers share the work: an initial "seed" state
\* per (n, slice); its successors are the cases of that slice.  Seeds export nothing.
Slices == 16
NumCodes(n) == IF Fam = "cyc" THEN NumDigraphCodes(n) ELSE NumDagCodes(n)
CodesOf(n, s) == { gc \in { q * Stride + Offset : q \in { x \in 0..(NumCodes(n) \div Stride) : x % Slices = s } } :
                     gc < NumCodes(n) }

Init == \E n \in 1..N : \E s \in 0..(Slices - 1) :
          /\ case = [fam |-> "seed", n |-> n, s |-> s]
          /\ out = ""

Gen(n, s) ==
  \E gc \in CodesOf(n, s) : \E kc \in KindCodes(n) :
    LET kinds == KindsOfCode(n, kc) IN
    CASE Fam = "dag" -> /\ case' = [fam |-> "dag", n |-> n, deps |-> DagOfCode(n, gc), kinds |-> kinds]
                        /\ out' = Export(case')
      [] Fam = "ext" -> \E X \in ExtSets(n, kinds) :
                        /\ case' = [fam |-> "ext", n |-> n, deps |-> WithExt(DagOfCode(n, gc), X), kinds |-> kinds]
                        /\ out' = Export(case')
      [] Fam = "cyc" -> /\ HasCycle(DigraphOfCode(n, gc))
                        /\ case' = [fam |-> "cyc", n |-> n, deps |-> DigraphOfCode(n, gc), kinds |-> kinds]
                        /\ out' = Export(case')

Next == IF case.fam = "seed" THEN Gen(case.n, case.s) ELSE UNCHANGED <<case, out>>

IsCase == case.fam # "seed"

-----------------------------------------------------------------------------
(* Design check of the contract.                                             *)
Canonical(c) == [k \in 1..c.n |-> <<k, k - 1>>]

\* on every enumerated DAG the contract is satisfiable (the canonical numbering is a witness)
DagSatisfiable == (IsCase /\ IsDag(G(case))) => Accepts(G(case), [res |-> "ok", prio |-> Canonical(case)])
\* ... and reversing a witness breaks DepsFirst as soon as there is an edge
ReversedRejected == (IsCase /\ IsDag(G(case)) /\ Edges(G(case)) # {}) =>
                      ~OrderOK(G(case), [k \in 1..case.n |-> <<k, case.n - k>>])
\* no assignment at all is accepted for a cyclic graph: the three clauses are jointly
\* unsatisfiable, so "reject with an error" is the only behaviour left (small n: all permutations)
CyclicUnsatisfiable == (IsCase /\ case.n <= UnsatN) =>
                         (HasCycle(G(case)) <=> \A p \in PermOutputs(G(case)) : ~OrderOK(G(case), p))
\* priorities for an external key, a missing key, or a repeated priority are rejected
ExternalRejected == (IsCase /\ IsDag(G(case))) =>
                      /\ ~OrderOK(G(case), Append(Canonical(case), <<case.n + 1, case.n>>))
                      /\ ~OrderOK(G(case), Tail(Canonical(case)))
                      /\ (case.n >= 2 => ~OrderOK(G(case), [Canonical(case) EXCEPT ![2] = <<2, 0>>]))
\* the enumeration is what it claims to be
FamilyShape == IsCase =>
               /\ (case.fam \in {"dag", "ext"} => IsDag(G(case)))
               /\ (case.fam = "cyc" => HasCycle(G(case)))
               /\ (case.fam = "ext" => External(G(case)) # {})
               /\ (case.fam # "ext" => External(G(case)) = {})
=============================================================================
