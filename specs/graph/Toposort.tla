------------------------------ MODULE Toposort ------------------------------
(* C07 - dask.core.toposort / getcycle / isdag.

   Part (a), the contract (Pattern B).  A graph g is a closed dependency graph
   (module Graphs; every reference resolves inside the graph).
     toposort(g)        returns every key exactly once, each key after all of its
                        dependencies (any linear extension), or raises on a cycle;
     getcycle(g, keys)  returns <<>> iff no cycle is reachable from `keys`, otherwise
                        a closed dependency walk c (c[1] = c[Len(c)], c[i+1] is a
                        dependency of c[i]) all of whose keys are reachable from `keys`;
     isdag(g, keys)     = (getcycle(g, keys) = <<>>).
   Which linear extension / which cycle is left free.

   Part (b), an implementation-shaped transcription of dask.core._toposort, is
   module ToposortImpl; TLC checks transcription => contract (ToposortMC).     *)
EXTENDS Graphs, Integers

SeqRange(s) == { s[i] : i \in DOMAIN s }
Last(s)     == s[Len(s)]
Front(s)    == SubSeq(s, 1, Len(s) - 1)

-----------------------------------------------------------------------------
(* (a) contract.  An outcome is a record with field res:
       "ok"      toposort returned  order  (a sequence of keys)
       "cycle"   getcycle returned  c      (a sequence of keys, <<>> = none)
       "bool"    isdag returned     b
       "raised"  an exception left the function
       anything else ("hang", "diverged") is never accepted.                  *)
StartKeys(g, keys) == keys \cap DOMAIN g

ToposortAccepts(g, o) ==
  IF HasCycle(g) THEN o.res = "raised"
  ELSE o.res = "ok" /\ IsLinearExtension(g, o.order)

CycleOK(g, keys, c) == /\ IsCycle(g, c)
                       /\ SeqRange(c) \subseteq ReachFrom(g, StartKeys(g, keys))

GetcycleAccepts(g, keys, o) ==
  /\ o.res = "cycle"
  /\ IF CycleFrom(g, keys) THEN CycleOK(g, keys, o.c) ELSE o.c = <<>>

IsdagAccepts(g, keys, o) == o.res = "bool" /\ (o.b <=> ~CycleFrom(g, keys))

Accepts(g, fn, keys, o) ==
  CASE fn = "toposort" -> ToposortAccepts(g, o)
    [] fn = "getcycle" -> GetcycleAccepts(g, keys, o)
    [] fn = "isdag"    -> IsdagAccepts(g, keys, o)

=============================================================================
