---------------------------- MODULE RewriteTrace ----------------------------
(* C51, code -> spec: one record per rule set and term, holding what the real
   RuleSet did:
     [id, rules: << <<lhs, rhs>>, ... >>, term,
      mres: "ok" | "raised",  yielded: << <<i, << <<var, term>>, ... >> >>, ... >>   (iter_matches, i 1-based)
      rres: "ok" | "raised",  result: term                                        (rewrite, strategy "top_level")]
   Terms are encoded as in module Rewrite (JSON arrays whose first element is a string).
   Soundness is decided literally (Subst(lhs, s) = term); the expected set for completeness
   is computed by the structural matcher, which RewriteMC proves equal to the declarative
   set on the bounded space.                                                   *)
EXTENDS Rewrite, TraceIO

RulesOf(r) == [i \in DOMAIN r.rules |-> [lhs |-> r.rules[i][1], rhs |-> r.rules[i][2]]]
SubOf(pairs) == [v \in { pairs[k][1] : k \in DOMAIN pairs } |->
                   pairs[CHOOSE k \in DOMAIN pairs : pairs[k][1] = v][2]]
YieldOf(r) == [j \in DOMAIN r.yielded |-> <<r.yielded[j][1], SubOf(r.yielded[j][2])>>]

Bad(r) ==
  LET rules == RulesOf(r)
      M == AllStructMatches(rules, r.term)
  IN (IF r.mres # "ok" THEN {"IterMatchesRaised"}
      ELSE LET y == YieldOf(r) IN
           Clause("Sound", Sound(rules, r.term, y))
           \cup Clause("Complete", Complete(r.term, y, M))
           \cup Clause("NoDuplicates", NoDuplicates(y)))
     \cup (IF r.rres # "ok" THEN {"RewriteRaised"}
           ELSE Clause("Rewrite", r.result \in RewriteResults(rules, r.term, M)))

Init == TInit
Next == TNext(Bad)
=============================================================================
