------------------------------ MODULE Rewrite ------------------------------
(* C51 - dask.rewrite: contract of RuleSet.iter_matches and of the top-level
   rewrite (Pattern B).

   Terms.  First-order terms over a signature with FIXED arities:
       Sig    function symbol -> arity   (the symbol "l" stands for a Python list
                                          argument, whose length is its arity)
       Consts constants, Vars variables (disjoint).
   Every term is a tuple whose first element is a string:
       <<"a">>  constant,  <<"x">>  variable,  <<"g", t1, t2>>  application.
   (Uniform tuples keep TLC from comparing a string with a tuple.)

   Domain of the property.  Pattern variables range over ground terms; a rule
   matches a term when some substitution makes its left-hand side EQUAL to the
   term.  That presupposes a signature: with a head used at two arities (Python
   callables are variadic, lists have any length) the discrimination net of
   dask.rewrite, which stores pre-order traversals without arity marks, binds
   variables across sub-term boundaries - the RuleSet docstring itself shows
   (f, (g, 'a', 3)) being rewritten by the rule (f, (g, 'x'), 'y').  Such inputs
   are outside the stated property (the harness reports them separately, unjudged).

   Contract.
     iter_matches(rules, t) yields, as a multiset, exactly
         { (i, s) : i \in DOMAIN rules, s \in Matches(rules[i].lhs, t) }
     rewrite(rules, t, "top_level") returns Subst(rules[i].rhs, s) for one of those
         (i, s) if there is any, and t itself otherwise.                       *)
EXTENDS Naturals, Sequences, FiniteSets

CONSTANTS Sig, Consts, Vars

SeqRange(q) == { q[i] : i \in DOMAIN q }
IsVar(t)    == Len(t) = 1 /\ t[1] \in Vars
Args(t)     == 2..Len(t)

RECURSIVE WF(_)
WF(t) == IF Len(t) = 1 THEN t[1] \in Consts \cup Vars
         ELSE t[1] \in DOMAIN Sig /\ Len(t) = Sig[t[1]] + 1 /\ \A i \in Args(t) : WF(t[i])

RECURSIVE SubTerms(_)
SubTerms(t) == {t} \cup UNION { SubTerms(t[i]) : i \in Args(t) }

RECURSIVE VarsOf(_)
VarsOf(t) == IF IsVar(t) THEN {t[1]} ELSE UNION { VarsOf(t[i]) : i \in Args(t) }

Ground(t) == VarsOf(t) = {}

RECURSIVE Subst(_, _)
Subst(t, s) == IF IsVar(t) THEN (IF t[1] \in DOMAIN s THEN s[t[1]] ELSE t)
               ELSE [i \in 1..Len(t) |-> IF i = 1 THEN t[1] ELSE Subst(t[i], s)]

\* the statement, literally: the substitutions (over the variables of lhs) that make lhs equal to t
Matches(lhs, t) == { s \in [VarsOf(lhs) -> SubTerms(t)] : Subst(lhs, s) = t }

\* the same set computed structurally (equality with Matches is a design invariant of RewriteMC;
\* the trace specification uses it where [VarsOf -> SubTerms] is too large to enumerate)
EmptySub == [v \in {} |-> <<"?">>]
Ext(s, v, t) == [k \in DOMAIN s \cup {v} |-> IF k = v THEN t ELSE s[k]]
RECURSIVE MatchS(_, _, _)
RECURSIVE MatchArgs(_, _, _, _)
MatchS(p, t, s) ==
  IF IsVar(p) THEN (IF p[1] \in DOMAIN s THEN (IF s[p[1]] = t THEN {s} ELSE {}) ELSE {Ext(s, p[1], t)})
  ELSE IF p[1] # t[1] \/ Len(p) # Len(t) THEN {}
  ELSE MatchArgs(p, t, 2, s)
MatchArgs(p, t, i, s) ==
  IF i > Len(p) THEN {s} ELSE UNION { MatchArgs(p, t, i + 1, s2) : s2 \in MatchS(p[i], t[i], s) }
StructMatches(lhs, t) == MatchS(lhs, t, EmptySub)

\* rules: a sequence of [lhs, rhs]
AllMatches(rules, t)       == UNION { { <<i, s>> : s \in Matches(rules[i].lhs, t) } : i \in DOMAIN rules }
AllStructMatches(rules, t) == UNION { { <<i, s>> : s \in StructMatches(rules[i].lhs, t) } : i \in DOMAIN rules }
RewriteResults(rules, t, M) == IF M = {} THEN {t} ELSE { Subst(rules[m[1]].rhs, m[2]) : m \in M }

\* yielded: a sequence of <<i, s>> as produced by iter_matches (s a function on variable names)
Sound(rules, t, yielded)    == \A j \in DOMAIN yielded :
                                 LET i == yielded[j][1]  s == yielded[j][2] IN
                                 /\ i \in DOMAIN rules
                                 /\ DOMAIN s = VarsOf(rules[i].lhs)
                                 /\ Subst(rules[i].lhs, s) = t
Complete(t, yielded, M)     == M \subseteq SeqRange(yielded)
NoDuplicates(yielded)       == Cardinality(SeqRange(yielded)) = Len(yielded)
IterMatchesOK(rules, t, yielded) == /\ Sound(rules, t, yielded)
                                    /\ Complete(t, yielded, AllMatches(rules, t))
                                    /\ NoDuplicates(yielded)
RewriteOK(rules, t, result) == result \in RewriteResults(rules, t, AllMatches(rules, t))
=============================================================================
