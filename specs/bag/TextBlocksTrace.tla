--------------------------- MODULE TextBlocksTrace ---------------------------
(* code -> spec for C50: records of real read_bytes / read_text calls.
   [kind |-> "bytes", f, dl, blocks]      blocks as read (sequences of symbols)
   [kind |-> "text",  fs, dl, lines]      lines returned by read_text for the files fs (in order)
   [kind |-> "parts", nfiles, fpp, nparts] read_text(files_per_partition = fpp) on nfiles files built nparts partitions *)
EXTENDS TextBlocks, TraceIO

Bad(r) ==
  IF r.kind = "bytes"
  THEN Clause("BlocksConcatenateToFile", Concat(r.blocks) = r.f)
       \cup Clause("BoundaryAfterDelimiter",
                   \A i \in 2..Len(r.blocks) :
                      LET start == SumLen(SubSeq(r.blocks, 1, i - 1)) IN start = Len(r.f) \/ EndsDelimAt(r.f, r.dl, start))
  ELSE IF r.kind = "parts"
  THEN \* every file belongs to exactly one partition, fpp files per partition, the last one may be short
       Clause("PartitionCount", r.nparts = (r.nfiles + r.fpp - 1) \div r.fpp)
  ELSE \* strict, as the statement says; for a self-overlapping delimiter the block-wise parse is
       \* genuinely ambiguous (TextBlocksMC!BlockwiseLinesEqual) - the driver classifies such a
       \* rejection separately
       Clause("LinesEqualSplitAfter", r.lines = Concat([i \in DOMAIN r.fs |-> SplitAfter(r.fs[i], r.dl)]))

Init == TInit
Next == TNext(Bad)
=============================================================================
