------------------------------ MODULE BagOpsMC ------------------------------
(* Case enumeration for C48 (spec -> code) and design check of the reference.

   Initial states are SEEDS: one per sequence over Vals of length <= MaxLen, and
   one per length for the table of partitionings.  The successors of a sequence
   seed are the evaluated cases: one per operation variant, carrying the result
   module BagOps demands.  Because the reference is a function of the
   concatenation only, the expected result is computed once per (sequence,
   operation); ALL partitionings of n elements into 1..MaxParts consecutive
   partitions (empty ones allowed) are exported once per n (fam = "layouts") and
   the harness runs dask on (case, layout, split_every, shuffle) combinations.
   take(k, npartitions) depends on the partitioning: its expected value is
   exported as a table indexed by the number of elements in the partitions looked
   at, and TakeTableOK proves the table equal to Take on every partitioning.

   The invariants are the design check: the reference is a homomorphism of the
   partitioning (what a chunk -> combine implementation needs), quantified over
   every partitioning with <= DesignParts parts of the case's own sequence.     *)
EXTENDS BagOps, Json, TLC

CONSTANTS MaxLen,       \* every sequence of length 0..MaxLen
          ExtraSeqs,    \* further (longer) sequences chosen by the harness; length <= MaxLen + 1
          Vals,         \* element values
          MaxParts,     \* partitionings with 1..MaxParts parts (exported)
          DesignParts   \* the invariants quantify over partitionings with <= DesignParts parts

VARIABLES bcase, bdone, out

O(op, w, p, q) == [op |-> op, w |-> w, p |-> p, q |-> q]

Variants ==
       {O("map", w, 0, 0) : w \in {"f", "const", "bag", "kw"}}
  \cup {O(op, "", 0, 0) : op \in {"starmap", "flatten", "product", "zip", "concat", "count", "sum", "min", "max",
                                  "any", "all", "mean"}}
  \cup {O(op, "", p, 0) : op \in {"filter", "remove"}, p \in {1, 2, 4}}
  \cup {O("mappart", w, 0, 0) : w \in {"f", "bag", "item"}}
  \cup {O("pluck", "pair", p, 0) : p \in {0, 1}} \cup {O("pluck", "default", 1, 0)}
  \cup {O("distinct", w, 0, 0) : w \in {"", "key", "key0", "keylen"}}
  \cup {O("frequencies", w, 0, 0) : w \in {"", "sort"}}
  \cup {O("topk", w, p, 0) : w \in {"", "neg"}, p \in {0, 1, 2, 7}} \cup {O("topk", "half", p, 0) : p \in {1, 2, 3}}
  \cup {O("fold", w, 0, 0) : w \in {"add", "add0", "cnt", "sq", "cat"}}
  \cup {O("reduction", w, 0, 0) : w \in {"sum", "len", "uniq"}}
  \cup {O("foldby", w, p, 0) : w \in {"add", "add0", "add00", "cnt", "sq"}, p \in {2, 3}}
  \cup {O("groupby", "", p, 0) : p \in {0, 2, 3}}
  \cup {O("join", w, p, 0) : w \in {"list", "bag", "delayed"}, p \in {0, 2}}
  \cup {O("accumulate", w, 1, q) : w \in {"add", "nc"}, q \in {0, 1}}
  \cup {O("take", "", p, q) : p \in {0, 1, 2, 7}, q \in {1, 2, 3, -1, 5}}
  \cup {O("repartition", "", p, 0) : p \in {1, 2, 3, 5}}
  \cup {O(op, "", 0, q) : op \in {"var", "std"}, q \in {0, 1}}
  \cup {O("pipe", w, 0, 0) : w \in PipeNames}

AllSeqs == UNION {[1..n -> Vals] : n \in 0..MaxLen}

\* all partitionings of n elements into 1..mp consecutive partitions, empty ones allowed
Layouts(n, mp) == UNION {{c \in [1..p -> 0..n] : SumS(c) = n} : p \in 1..mp}
LayTable    == [n \in 0..(MaxLen + 1) |-> Layouts(n, MaxParts)]
DesignTable == [n \in 0..(MaxLen + 1) |-> Layouts(n, DesignParts)]

RECURSIVE SplitBy(_, _)
SplitBy(sq, lay) == IF lay = <<>> THEN <<>>
                    ELSE <<SubSeq(sq, 1, Head(lay))>> \o SplitBy(SubSeq(sq, Head(lay) + 1, Len(sq)), Tail(lay))

\* the set as a sequence (any order)
RECURSIVE SetSeq(_)
SetSeq(S) == IF S = {} THEN <<>> ELSE LET x == CHOOSE y \in S : TRUE IN <<x>> \o SetSeq(S \ {x})

\* take: expected result for each possible number m of elements in the partitions looked at
TakeTable(sq, kk) == [m1 \in 1..(Len(sq) + 1) |-> Prefix(SubSeq(sq, 1, m1 - 1), kk)]

Export(sq, o) ==
  IF o.op = "take" THEN R("take", TakeTable(sq, o.p)) ELSE Expected(o, <<sq>>)

Seeds == {[fam |-> "seed", s |-> sq] : sq \in AllSeqs \cup ExtraSeqs} \cup {[fam |-> "layouts", n |-> n] : n \in 0..(MaxLen + 1)}

Init == /\ bcase \in Seeds
        /\ bdone = FALSE
        /\ out = ""
Next == /\ ~bdone
        /\ bdone' = TRUE
        /\ IF bcase.fam = "layouts"
           THEN /\ bcase' = bcase
                /\ out' = ToJson([c |-> bcase, e |-> SetSeq(LayTable[bcase.n])])
           ELSE \E o \in Variants :
                /\ bcase' = [fam |-> "case", s |-> bcase.s, o |-> o]
                /\ out' = ToJson([c |-> bcase', e |-> Export(bcase.s, o)])

-----------------------------------------------------------------------------
(* Design check *)
Judged  == bdone /\ bcase.fam = "case"
Sq      == bcase.s
Op      == bcase.o
Lays    == DesignTable[Len(Sq)]
Want    == Expected(Op, <<Sq>>)
NonEmpty(ps) == SelectSeq(ps, LAMBDA part : part # <<>>)

\* (that the expected value does not depend on the partitioning holds by construction: Expected looks at
\* Flat(parts) only, except for take, whose dependence is the documented one - TakeTableOK)
TakeTableOK ==
  Judged /\ Op.op = "take" =>
    \A lay \in Lays :
       LET ps == SplitBy(Sq, lay)
           e  == Expected(Op, ps)
           m  == IF Op.q <= -1 THEN Len(Sq) ELSE SumS(SubSeq(lay, 1, MinI(Op.q, Len(lay))))
       IN IF Op.q > Len(lay) THEN e.k = "err"
          ELSE e.k = "seq" /\ e.v = TakeTable(Sq, Op.p)[m + 1]

ElementwiseLen ==
  Judged /\ Op.op \in {"map", "starmap", "mappart", "pluck", "zip"} => Len(Want.v) = Len(Sq)

FilterRemoveSplit ==
  Judged /\ Op.op \in {"filter", "remove"} =>
    /\ SameBag(Filter(Op.p, Sq) \o Remove(Op.p, Sq), Sq)
    /\ \A i \in DOMAIN Want.v : Pred(Op.p, Want.v[i]) = (Op.op = "filter")

\* chunk -> combine: partial results of the non-empty partitions combine to the reference
RECURSIVE AccParts(_, _, _, _)
AccParts(w, has, carry, ps) ==          \* accumulate partition by partition, carrying the last value
  IF ps = <<>> THEN <<>>
  ELSE LET part == Accumulate(w, has, carry, Head(ps))
           res  == IF has THEN Tail(part) ELSE part           \* the carried value was emitted before
           has2 == has \/ res # <<>>
           c2   == IF res # <<>> THEN res[Len(res)] ELSE carry
       IN res \o AccParts(w, has2, c2, Tail(ps))

ChunkCombine ==
  Judged =>
    \A lay \in Lays :
      LET ps  == SplitBy(Sq, lay)
          nz  == NonEmpty(ps)
          x2  == SumS([b \in DOMAIN ps |-> SumSq(ps[b])])
          x1  == SumS([b \in DOMAIN ps |-> SumS(ps[b])])
          cnt == SumS([b \in DOMAIN ps |-> Len(ps[b])])
      IN CASE Op.op \in {"sum", "count"} -> Want.v = (IF Op.op = "sum" THEN x1 ELSE cnt)
           [] Op.op = "max" /\ Sq # <<>> -> Want.v = SeqMax([b \in DOMAIN nz |-> SeqMax(nz[b])])
           [] Op.op = "min" /\ Sq # <<>> -> Want.v = SeqMin([b \in DOMAIN nz |-> SeqMin(nz[b])])
           [] Op.op = "any" -> Want.v = (\E b \in DOMAIN ps : \E i \in DOMAIN ps[b] : ps[b][i] # 0)
           [] Op.op = "all" -> Want.v = (\A b \in DOMAIN ps : \A i \in DOMAIN ps[b] : ps[b][i] # 0)
           [] Op.op = "distinct" /\ Op.w = "" ->
                SameBag(Distinct(Flat([b \in DOMAIN ps |-> Distinct(ps[b])])), Want.v)
           [] Op.op = "distinct" /\ Op.w # "" ->          \* first representatives: per partition, then over the partials
                LET els == CASE Op.w = "key" -> Sq [] Op.w = "key0" -> Pairs(Sq) [] Op.w = "keylen" -> Nest(Sq)
                    eps == SplitBy(els, lay)
                IN DistinctW(Op.w, Flat([b \in DOMAIN eps |-> DistinctW(Op.w, eps[b])])) = Want.v
           [] Op.op = "topk" /\ Op.w = "half" ->
                \* the k largest keys of the partitions' k largest keys are the k largest keys
                TopK(Op.p, Flat([b \in DOMAIN ps |-> TopK(Op.p, [i \in DOMAIN ps[b] |-> ps[b][i] \div 2])])) = Want.v
           [] Op.op = "topk" /\ Op.w # "half" ->
                Want.v = (IF Op.w = "neg" THEN BottomK(Op.p, Flat([b \in DOMAIN ps |-> BottomK(Op.p, ps[b])]))
                          ELSE TopK(Op.p, Flat([b \in DOMAIN ps |-> TopK(Op.p, ps[b])])))
           [] Op.op = "frequencies" ->
                \A i \in DOMAIN Want.v :
                   Want.v[i][2] = SumS([b \in DOMAIN ps |-> CountOf(ps[b], Want.v[i][1])])
           [] Op.op = "foldby" ->
                \A i \in DOMAIN Want.v :
                   Want.v[i][2] = SumS([b \in DOMAIN ps |->
                                        LET mem == Members(Op.p, ps[b], Want.v[i][1])
                                        IN FoldOf(Op.w, mem)])
           [] Op.op = "mean" /\ Sq # <<>> -> Want.v = RNorm(x1, cnt)
           [] Op.op \in {"var", "std"} /\ Len(Sq) > Op.q ->
                \* chunk.var_aggregate: ((x2 / n) - (x / n)^2) * n / (n - ddof)
                Want.v = RMul(RSub(RNorm(x2, cnt), RMul(RNorm(x1, cnt), RNorm(x1, cnt))), RNorm(cnt, cnt - Op.q))
           [] Op.op = "accumulate" ->
                Want.v = (IF Op.q = 1 THEN <<Op.p>> ELSE <<>>) \o AccParts(Op.w, Op.q = 1, Op.p, ps)
           [] OTHER -> TRUE

GroupsPartition ==
  Judged /\ Op.op = "groupby" =>
    /\ SameBag(Flat([i \in DOMAIN Want.v |-> Want.v[i][2]]), Sq)
    /\ \A i, j \in DOMAIN Want.v : i # j => Want.v[i][1] # Want.v[j][1]
    /\ \A i \in DOMAIN Want.v : \A j \in DOMAIN Want.v[i][2] : KeyOf(Op.p, Want.v[i][2][j]) = Want.v[i][1]

JoinProductSize ==
  /\ Judged /\ Op.op = "product" => Len(Want.v) = Len(Sq) * Len(Sq)
  /\ Judged /\ Op.op = "join" =>
       Len(Want.v) = SumS([i \in DOMAIN Sq |->
                           Cardinality({j \in DOMAIN Sq : KeyOf(Op.p, Second(Sq)[j]) = KeyOf(Op.p, Sq[i])})])
=============================================================================
