----------------------------- MODULE TextBlocks -----------------------------
(* Block-wise reading of delimited files (dask/bytes/core.py read_bytes with
   fsspec's read_block, dask/bag/text.py read_text).  C50 (and the block half
   of C47).  A file is a sequence of symbols, a delimiter a non-empty sequence.
   Positions are 0-based byte offsets, as in the code.                        *)
EXTENDS Naturals, Integers, Sequences, FiniteSets, SequencesExt, TLC

OccursAt(f, dl, off) == /\ off + Len(dl) <= Len(f)
                        /\ SubSeq(f, off + 1, off + Len(dl)) = dl

\* read_block's seek_delimiter: from offset `off`, the position just after the first
\* delimiter occurrence that STARTS at or after off; the file start stays put; no
\* occurrence => end of file
Cut(f, dl, off) ==
  IF off = 0 THEN 0
  ELSE IF off >= Len(f) THEN Len(f)
  ELSE LET S == {p \in off..(Len(f) - 1) : OccursAt(f, dl, p)} IN
       IF S = {} THEN Len(f) ELSE (CHOOSE p \in S : \A q \in S : p <= q) + Len(dl)

Slice(f, a, b) == SubSeq(f, a + 1, b)          \* f[a:b]

\* the blocks read for a list of offsets (first 0, increasing): block i = f[Cut(off_i) : Cut(off_{i+1})]
BlocksByCut(f, dl, offs) ==
  [i \in DOMAIN offs |-> Slice(f, Cut(f, dl, offs[i]),
                                  IF i = Len(offs) THEN Len(f) ELSE Cut(f, dl, offs[i + 1]))]

RECURSIVE Concat(_)
Concat(ss) == IF ss = <<>> THEN <<>> ELSE Head(ss) \o Concat(Tail(ss))

RECURSIVE SumLen(_)
SumLen(ss) == IF ss = <<>> THEN 0 ELSE Len(Head(ss)) + SumLen(Tail(ss))

\* THE CONTRACT of read_bytes (what C50 states): the blocks concatenate to the file and every
\* block after the first starts just after a delimiter (or is empty at the end of the file)
EndsDelimAt(f, dl, pos) == pos >= Len(dl) /\ SubSeq(f, pos - Len(dl) + 1, pos) = dl
BlocksOK(f, dl, blocks) ==
  /\ Concat(blocks) = f
  /\ \A i \in 2..Len(blocks) :
        LET start == SumLen(SubSeq(blocks, 1, i - 1)) IN start = Len(f) \/ EndsDelimAt(f, dl, start)

\* offset planning of read_bytes, with exact rationals where the code uses floats:
\*   blocksize1 = size / (size // blocksize)  if size % blocksize and size > blocksize  else blocksize
\*   while size - place > 2 * blocksize1 - 1: place += blocksize1; off.append(int(place))
\* place after k steps is k * num / den
RECURSIVE PlanFrom(_, _, _, _)
PlanFrom(size, num, den, k) ==
  \* size - k*num/den > 2*num/den - 1   <=>   size*den - k*num > 2*num - den
  IF size * den - k * num > 2 * num - den
  THEN <<((k + 1) * num) \div den>> \o PlanFrom(size, num, den, k + 1)
  ELSE <<>>
Offsets(size, bs) ==
  IF size = 0 THEN <<>>
  ELSE LET q == size \div bs IN
       IF size % bs # 0 /\ size > bs THEN <<0>> \o PlanFrom(size, size, q, 0)
       ELSE <<0>> \o PlanFrom(size, bs, 1, 0)
OffsetsOK(size, offs) ==
  /\ size = 0 => offs = <<>>
  /\ size > 0 => (offs # <<>> /\ offs[1] = 0)
  /\ \A i \in 1..(Len(offs) - 1) : offs[i] < offs[i + 1]
  /\ \A i \in DOMAIN offs : offs[i] < size

\* read_text: the file split AFTER each delimiter (left-to-right, non-overlapping occurrences,
\* as str.split does), with no empty trailing element
RECURSIVE SplitAfter(_, _)
SplitAfter(f, dl) ==
  IF f = <<>> THEN <<>>
  ELSE LET S == {p \in 0..(Len(f) - 1) : OccursAt(f, dl, p)} IN
       IF S = {} THEN <<f>>
       ELSE LET p == CHOOSE x \in S : \A y \in S : x <= y IN
            <<Slice(f, 0, p + Len(dl))>> \o SplitAfter(Slice(f, p + Len(dl), Len(f)), dl)

\* a delimiter overlaps itself when a proper suffix is also a prefix ("dd", "ded"): then the
\* occurrences found from a block boundary need not be the ones found from the file start, and
\* "the lines" of a block-wise read are genuinely ambiguous
SelfOverlapping(dl) == \E n \in 1..(Len(dl) - 1) : SubSeq(dl, 1, n) = SubSeq(dl, Len(dl) - n + 1, Len(dl))
=============================================================================
