--------------------------- MODULE BagSampleTrace ---------------------------
(* code -> spec for C49: records of real dask.bag sampling calls.
     [id, kind |-> "sample" | "choices", parts, k, obs |-> [raised, exc, v]]
     [id, kind |-> "random_sample", parts, prob |-> <<num, den>>, obs]
     [id, kind |-> "registry", parts, prob, state, runs |-> << [how, raised, v], ... >>]
       all the runs made for ONE registry key (population partitions, prob, random_state):
       schedulers sync / threads / processes, compute() repeated, the call rebuilt          *)
EXTENDS BagSample, TraceIO

Bad(r) ==
  LET pop == FlatP(r.parts) IN
  CASE r.kind = "sample"        -> SampleBad(pop, r.k, r.obs)
    [] r.kind = "choices"       -> ChoicesBad(pop, r.k, r.obs)
    [] r.kind = "random_sample" -> RandomSampleBad(pop, r.prob, r.obs)
    [] r.kind = "registry"      -> RegistryBad(pop, r.runs)

Init == TInit
Next == TNext(Bad)
=============================================================================
