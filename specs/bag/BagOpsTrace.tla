---------------------------- MODULE BagOpsTrace ----------------------------
(* code -> spec for C48: each record is one bag operation run on the real
   dask.bag with exactly the partitions r.parts:
     [id, o |-> [op, w, p, q], parts |-> <<partition, ...>>,
      obs |-> [raised |-> BOOLEAN, v |-> result (shaped by the driver per kind), np |-> declared npartitions]]
   TLC computes the reference result from r.parts with the operators of module
   BagOps and decides the record.                                              *)
EXTENDS BagOps, TraceIO

Bad(r) == Mismatch(Expected(r.o, r.parts), r.obs, Flat(r.parts))

Init == TInit
Next == TNext(Bad)
=============================================================================
