---------------------------- MODULE BagSampleRegMC ----------------------------
(* The determinism registry of C49 as a state machine (design check).

   Keys stand for (population, partitioning, prob, random_state) tuples; a draw returns a
   subsequence of the key's population.  The implementation is modelled as what the code
   does: the result is a FUNCTION of the key (the per-partition random states are derived
   from random_state alone, random_state_data_python), whatever the scheduler.  TLC explores
   every order of draws over the keys and schedulers and checks that the history is
   reproducible; a second, deliberately wrong machine (SharedStream = TRUE: the draws consume
   one shared random stream, so the result depends on how many draws came before) violates
   Reproducible - the harness runs it and demands the violation (the invariant is not vacuous). *)
EXTENDS BagSample, TLC

CONSTANTS Pops,          \* sequence of populations, one per key
          Scheds,        \* scheduler tags
          MaxDraws,
          SharedStream   \* FALSE: the faithful model;  TRUE: the broken one

VARIABLES drawn, hist, ticks

KeysR == DOMAIN Pops
\* the result the "random bits" b select: keep position i iff bit i of the number is set
Bit(num, i) == (num \div (2 ^ (i - 1))) % 2
Keep(pop, num) == SelectSeq([i \in DOMAIN pop |-> <<i, pop[i]>>], LAMBDA e : Bit(num, e[1]) = 1)
ResultOf(pop, num) == LET kp == Keep(pop, num) IN [i \in DOMAIN kp |-> kp[i][2]]
\* faithful: bits derived from the key only;  broken: from the key and the number of earlier draws
BitsFor(key, t) == IF SharedStream THEN (5 * key + 3 * t) % 8 ELSE (5 * key + 3) % 8

RInit == drawn = <<>> /\ hist = <<>> /\ ticks = 0
RNext == /\ ticks < MaxDraws
         /\ \E key \in KeysR, how \in Scheds :
              LET res == ResultOf(Pops[key], BitsFor(key, ticks)) IN
              /\ hist' = Append(hist, [key |-> key, how |-> how, v |-> res])
              /\ drawn' = RegDraw(drawn, key, res)
              /\ ticks' = ticks + 1

Reproducible == \A i, j \in DOMAIN hist : hist[i].key = hist[j].key => hist[i].v = hist[j].v
RegistryFaithful == \A i \in DOMAIN hist : RegOK(drawn, hist[i].key, hist[i].v)
ResultsAreSubsequences == \A i \in DOMAIN hist : IsSubseq(hist[i].v, Pops[hist[i].key])
=============================================================================
