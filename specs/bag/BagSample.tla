------------------------------ MODULE BagSample ------------------------------
(* Contracts of the random bag operations (C49): dask.bag.random.sample,
   dask.bag.random.choices, Bag.random_sample.

   A population is the concatenation of the partitions of a bag.  Nothing is
   said about probabilities: the contracts state which RESULTS are samples at
   all, and the registry states reproducibility - the same (population,
   partitioning, probability, random_state) always yields the same result, on
   every scheduler and on every recomputation.

   An observation is obs = [raised |-> BOOLEAN, exc |-> exception class name, v |-> result].   *)
EXTENDS Naturals, Integers, Sequences, FiniteSets

RECURSIVE FlatP(_)
FlatP(ps) == IF ps = <<>> THEN <<>> ELSE Head(ps) \o FlatP(Tail(ps))

MinOf(a, b) == IF a <= b THEN a ELSE b
Occ(sq, x)  == Cardinality({i \in DOMAIN sq : sq[i] = x})
\* a is a sub-multiset of b / the same multiset
SubBag(a, b)  == \A i \in DOMAIN a : Occ(a, a[i]) <= Occ(b, a[i])
EqualBag(a, b) == Len(a) = Len(b) /\ SubBag(a, b)
\* a is a subsequence of b (greedy matching decides it)
RECURSIVE IsSubseq(_, _)
IsSubseq(a, b) == IF a = <<>> THEN TRUE
                  ELSE IF b = <<>> THEN FALSE
                  ELSE IF Head(a) = Head(b) THEN IsSubseq(Tail(a), Tail(b))
                  ELSE IsSubseq(a, Tail(b))

-----------------------------------------------------------------------------
(* sample(population, k): k elements drawn WITHOUT replacement.
   k <= n : a sub-multiset of the population with exactly k elements (k = 0: the empty bag).
   k >  n : the property statement says "all of b"; the code base documents (pinned test
            test_sample_k_bigger_than_bag_size, and random.sample itself) ValueError
            "Sample larger than population".  Both are accepted, nothing else is.           *)
IsSample(pop, k, res) == Len(res) = MinOf(k, Len(pop)) /\ SubBag(res, pop)

SampleBad(pop, k, obs) ==
  IF k <= Len(pop)
  THEN IF obs.raised THEN {"Raised"}
       ELSE (IF Len(obs.v) = k THEN {} ELSE {"Size"})
            \cup (IF SubBag(obs.v, pop) THEN {} ELSE {"NotSubBag"})
  ELSE IF obs.raised THEN (IF obs.exc = "ValueError" THEN {} ELSE {"BigWrongError"})
       ELSE (IF EqualBag(obs.v, pop) THEN {} ELSE {"BigNotAll"})

(* choices(population, k): k elements drawn WITH replacement: length k, every element occurs
   in the population.  An empty population has no elements to choose: the documented error
   (random.choices raises IndexError); only k = 0 may also answer the empty bag.             *)
IsChoices(pop, k, res) == Len(res) = k /\ \A i \in DOMAIN res : Occ(pop, res[i]) > 0

ChoicesBad(pop, k, obs) ==
  IF pop = <<>>
  THEN IF obs.raised \/ (k = 0 /\ obs.v = <<>>) THEN {} ELSE {"FromEmpty"}
  ELSE IF obs.raised THEN {"Raised"}
       ELSE (IF Len(obs.v) = k THEN {} ELSE {"Size"})
            \cup (IF \A i \in DOMAIN obs.v : Occ(pop, obs.v[i]) > 0 THEN {} ELSE {"NotInPop"})

(* random_sample(prob, random_state): every element is kept or dropped, order kept: a
   subsequence of the population; prob = 0 keeps nothing, prob = 1 keeps everything
   (random() lies in [0, 1)).  prob is a rational <<num, den>>.                              *)
RandomSampleBad(pop, prob, obs) ==
  IF obs.raised THEN {"Raised"}
  ELSE (IF IsSubseq(obs.v, pop) THEN {} ELSE {"NotSubseq"})
       \cup (IF prob[1] = 0 /\ obs.v # <<>> THEN {"Prob0Keeps"} ELSE {})
       \cup (IF prob[1] = prob[2] /\ obs.v # pop THEN {"Prob1Drops"} ELSE {})

-----------------------------------------------------------------------------
(* The determinism registry.  `drawn` maps a key <<population partitions, prob, state>> to the
   result first observed for it; a later draw with the same key - another scheduler, another
   compute() of the same collection, the same call made again - must return the same result. *)
RegDraw(drawn, key, res) ==
  IF key \in DOMAIN drawn THEN drawn                       \* enabled only if res = drawn[key], see RegOK
  ELSE [x \in DOMAIN drawn \cup {key} |-> IF x = key THEN res ELSE drawn[x]]
RegOK(drawn, key, res) == key \in DOMAIN drawn => drawn[key] = res

\* a whole run group for ONE key: runs = << [how |-> scheduler / recompute tag, raised, v], ... >>
RegistryBad(pop, runs) ==
  (IF \A i, j \in DOMAIN runs : runs[i].raised = runs[j].raised /\ runs[i].v = runs[j].v THEN {} ELSE {"NotReproducible"})
  \cup (IF \A i \in DOMAIN runs : ~runs[i].raised /\ IsSubseq(runs[i].v, pop) THEN {} ELSE {"RunInvalid"})
=============================================================================
