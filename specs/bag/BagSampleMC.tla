----------------------------- MODULE BagSampleMC -----------------------------
(* Case enumeration for C49 and design check of the contracts.

   Seeds: one per population over Vals of length <= MaxLen (duplicates included), one per
   length for the table of partitionings; successors: one case per (operation, k).
   What is exported is the CONTRACT data of the case (required length, whether an error is
   the documented outcome); the harness runs dask under seeds / partitionings / split_every
   and every observation is decided by TLC (BagSampleTrace).

   Design check (what a partition-wise implementation needs, for EVERY partitioning with
   <= DesignParts parts):
     Satisfiable    the contract admits a result whenever it demands one
     MergePossible  per-partition reservoirs of min(k, n_i) elements hold enough elements
     MergeSound     ANY min(k, n) positions out of ANY such reservoirs are a sample of the whole
     ChoicesSound   ANY k elements from the partitions' own choices are choices of the whole
     SubseqSound    concatenating ANY per-partition subsequences gives a subsequence of the whole
     SubseqExact    the greedy subsequence test accepts exactly the kept-position sequences      *)
EXTENDS BagSample, Json, TLC

CONSTANTS MaxLen, Vals, MaxParts, DesignParts, Ks,
          DesignLen     \* the position-set invariants (MergeSound, SubseqSound) look at populations up to this length

VARIABLES scase, sdone, out

AllPops == UNION {[1..n -> Vals] : n \in 0..MaxLen}
RECURSIVE SumQ(_)
SumQ(sq) == IF sq = <<>> THEN 0 ELSE Head(sq) + SumQ(Tail(sq))
Layouts(n, mp) == UNION {{c \in [1..p -> 0..n] : SumQ(c) = n} : p \in 1..mp}
LayTable    == [n \in 0..MaxLen |-> Layouts(n, MaxParts)]
DesignTable == [n \in 0..MaxLen |-> Layouts(n, DesignParts)]
RECURSIVE SetSeq(_)
SetSeq(S) == IF S = {} THEN <<>> ELSE LET x == CHOOSE y \in S : TRUE IN <<x>> \o SetSeq(S \ {x})

Contract(pop, op, k) ==
  IF op = "sample"
  THEN [len |-> MinOf(k, Len(pop)), mayraise |-> k > Len(pop), mustraise |-> FALSE]
  ELSE [len |-> k, mayraise |-> pop = <<>>, mustraise |-> pop = <<>> /\ k > 0]

Seeds == {[fam |-> "seed", pop |-> p] : p \in AllPops} \cup {[fam |-> "layouts", n |-> n] : n \in 0..MaxLen}

Init == /\ scase \in Seeds
        /\ sdone = FALSE
        /\ out = ""
Next == /\ ~sdone
        /\ sdone' = TRUE
        /\ IF scase.fam = "layouts"
           THEN /\ scase' = scase
                /\ out' = ToJson([c |-> scase, e |-> SetSeq(LayTable[scase.n])])
           ELSE \E op \in {"sample", "choices"}, k \in Ks :
                /\ scase' = [fam |-> "case", pop |-> scase.pop, op |-> op, k |-> k]
                /\ out' = ToJson([c |-> scase', e |-> Contract(scase.pop, op, k)])

-----------------------------------------------------------------------------
Judged == sdone /\ scase.fam = "case"
Pop == scase.pop
K   == scase.k
N   == Len(Pop)
Lays == DesignTable[N]
Good(v) == [raised |-> FALSE, exc |-> "", v |-> v]

Satisfiable ==
  Judged =>
    IF scase.op = "sample"
    THEN SampleBad(Pop, K, Good(SubSeq(Pop, 1, MinOf(K, N)))) = {} /\ IsSample(Pop, K, SubSeq(Pop, 1, MinOf(K, N)))
    ELSE Pop # <<>> => ChoicesBad(Pop, K, Good([i \in 1..K |-> Pop[1]])) = {}

\* positions of partition b (1-based) of the layout
Offs(lay, b) == SumQ(SubSeq(lay, 1, b - 1))
PosOf(lay, b) == (Offs(lay, b) + 1)..(Offs(lay, b) + lay[b])
AtPositions(S) == LET sq == SetSeq(S) IN [i \in DOMAIN sq |-> Pop[sq[i]]]

MergePossible ==
  Judged /\ scase.op = "sample" =>
    \A lay \in Lays : SumQ([b \in DOMAIN lay |-> MinOf(K, lay[b])]) >= MinOf(K, N)

\* a set of positions can come out of per-partition reservoirs of min(K, n_b) elements iff it takes at most
\* that many positions from every partition; every such pick of min(K, N) positions must be a sample of the whole
MergeSound ==
  Judged /\ scase.op = "sample" /\ N <= DesignLen =>
    \A lay \in Lays :
      \A pick \in {S \in SUBSET (1..N) : /\ Cardinality(S) = MinOf(K, N)
                                         /\ \A b \in DOMAIN lay : Cardinality(S \cap PosOf(lay, b)) <= MinOf(K, lay[b])} :
        IsSample(Pop, K, AtPositions(pick))

ChoicesSound ==
  Judged /\ scase.op = "choices" /\ Pop # <<>> =>
    \A idx \in [1..MinOf(K, 3) -> 1..N] : IsChoices(Pop, MinOf(K, 3), [i \in DOMAIN idx |-> Pop[idx[i]]])

\* positions in increasing order
RECURSIVE IncSeq(_)
IncSeq(S) == IF S = {} THEN <<>> ELSE LET m == CHOOSE x \in S : \A y \in S : x <= y IN <<m>> \o IncSeq(S \ {m})
Kept(keep) == LET sq == IncSeq(keep) IN [i \in DOMAIN sq |-> Pop[sq[i]]]

\* the greedy IsSubseq is exactly "some set of positions was kept" (checked once per population)
SubseqExact ==
  Judged /\ scase.op = "sample" /\ K = 0 =>
    /\ \A keep \in SUBSET (1..N) : IsSubseq(Kept(keep), Pop)
    /\ N <= 3 => \A m \in 0..N : \A cand \in [1..m -> Vals] :
                    IsSubseq(cand, Pop) => \E keep \in SUBSET (1..N) : Kept(keep) = cand

\* partition-wise filtering: concatenating per-partition subsequences gives a subsequence of the whole
SubseqSound ==
  Judged /\ scase.op = "sample" /\ K = 0 /\ N <= DesignLen =>
    \A lay \in Lays : \A keep \in SUBSET (1..N) :
       LET piece(b) == Kept(keep \cap PosOf(lay, b))
           RECURSIVE Cat(_)
           Cat(b) == IF b > Len(lay) THEN <<>> ELSE piece(b) \o Cat(b + 1)
       IN Cat(1) = Kept(keep) /\ IsSubseq(Cat(1), Pop)
=============================================================================
