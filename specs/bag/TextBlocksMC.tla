---------------------------- MODULE TextBlocksMC ----------------------------
(* Enumeration of files x delimiters for C50, with the design checks:
   - the Cut-defined blocks satisfy the read_bytes contract for EVERY blocksize,
     with the transcription of the offset planning;
   - the planned offsets are increasing, start at 0 and stay inside the file;
   - for delimiters that do not overlap themselves, the lines of the Cut-defined
     blocks are the lines of the whole file (blocksize invariance of read_text). *)
EXTENDS TextBlocks, Json

CONSTANTS MaxLen, Alphabet, Delims

VARIABLES case, out

RECURSIVE Files(_)
Files(n) == IF n = 0 THEN {<<>>} ELSE Files(n - 1) \cup {Append(f, a) : f \in {g \in Files(n - 1) : Len(g) = n - 1}, a \in Alphabet}

Init == /\ case \in [f : Files(MaxLen), dl : Delims]
        /\ out = ToJson([f |-> case.f, dl |-> case.dl, lines |-> SplitAfter(case.f, case.dl)])
Next == UNCHANGED <<case, out>>

F == case.f
DL == case.dl
AllBs == 1..(Len(F) + 1)

ContractForEveryBlocksize == \A bs \in AllBs : BlocksOK(F, DL, BlocksByCut(F, DL, Offsets(Len(F), bs)))
PlannedOffsetsOK == \A bs \in AllBs : OffsetsOK(Len(F), Offsets(Len(F), bs))
LinesPartitionFile == LET ls == SplitAfter(F, DL) IN
                        /\ Concat(ls) = F
                        /\ \A i \in DOMAIN ls : ls[i] # <<>>
                        /\ \A i \in 1..(Len(ls) - 1) : EndsDelimAt(ls[i], DL, Len(ls[i]))
BlockwiseLinesEqual == ~SelfOverlapping(DL) =>
                         \A bs \in AllBs :
                            LET bl == BlocksByCut(F, DL, Offsets(Len(F), bs)) IN
                            Concat([i \in DOMAIN bl |-> SplitAfter(bl[i], DL)]) = SplitAfter(F, DL)
=============================================================================
