------------------------------- MODULE BagOps -------------------------------
(* Reference semantics of dask.bag operations (C48).

   A bag is a sequence of PARTITIONS, each a sequence of elements; what a bag
   denotes is the concatenation Flat(parts).  Every operation below is defined
   as the plain-Python computation on that concatenation, so - by construction -
   its result does not depend on how the elements are partitioned.  That is the
   property: dask must compute the same thing for EVERY partitioning (empty
   partitions included), every split_every, every shuffle method.

   Elements are small naturals; pairs <<a, b>> and nested lists are DERIVED from
   the naturals by fixed functions (Pairs, Nest, Second), so one enumerated
   sequence serves every operation.  The user functions handed to dask (F, G,
   Pred, KeyOf, Binop) are fixed small arithmetic functions, transcribed
   literally in the driver.

   Expected(o, parts) is a record [k |-> kind, v |-> value]; the kind says how a
   result is compared, i.e. what the bag API promises about order:
     "seq"   the sequence itself (elementwise operations keep partition order and
             compute() concatenates the partitions in order; accumulate, take,
             zip, concat, repartition are defined through that order)
     "mset"  a multiset: order not promised (distinct, frequencies, foldby, join,
             product, and fold with a concatenating binop: the order in which
             partial results are combined is the implementation's).  WHICH elements
             are in the result is content, not order: distinct(key=) keeps the FIRST
             element (in sequence order) of every key class, as toolz.unique does
     "grp"   groupby: one <<key, members>> pair per key, members as a multiset (the
             order inside a group depends on the shuffle and is not promised)
     "topkkey" topk(k, key=) with a key that has ties: the keys of the result are the k
             largest keys in descending order and the result is a sub-multiset of the
             bag; which of several elements with equal keys is kept is free
     "fsort" frequencies(sort=True): the multiset, counts non-increasing
     "int" "bool" "rat" (exact <<num, den>>)  scalar results
     "rat2"  std: the SQUARE of the result is the rational
     "rep"   repartition: [s |-> sequence, np |-> number of partitions]
     "err"   plain Python raises on this input: any exception is accepted
   take(k, npartitions) is documented to look at the first `npartitions`
   partitions only, so it is the one operation whose result depends on `parts`. *)
EXTENDS Naturals, Integers, Sequences, FiniteSets, Rational

-----------------------------------------------------------------------------
(* sequences *)
RECURSIVE Flat(_)
Flat(ps) == IF ps = <<>> THEN <<>> ELSE Head(ps) \o Flat(Tail(ps))

RECURSIVE SumS(_)
SumS(s) == IF s = <<>> THEN 0 ELSE Head(s) + SumS(Tail(s))

MinI(a, b) == IF a <= b THEN a ELSE b
MaxI(a, b) == IF a >= b THEN a ELSE b
SeqMax(s) == CHOOSE x \in {s[i] : i \in DOMAIN s} : \A j \in DOMAIN s : s[j] <= x     \* s # <<>>
SeqMin(s) == CHOOSE x \in {s[i] : i \in DOMAIN s} : \A j \in DOMAIN s : s[j] >= x

CountOf(s, x) == Cardinality({i \in DOMAIN s : s[i] = x})
\* equal as multisets
SameBag(a, b) == Len(a) = Len(b) /\ \A i \in DOMAIN a : CountOf(a, a[i]) = CountOf(b, a[i])
SubBagOf(a, b) == \A i \in DOMAIN a : CountOf(a, a[i]) <= CountOf(b, a[i])
Prefix(s, k) == SubSeq(s, 1, MinI(k, Len(s)))

\* the subsequence at the index set I
RECURSIVE PickFrom(_, _, _)
PickFrom(s, I, i) == IF i > Len(s) THEN <<>>
                     ELSE (IF i \in I THEN <<s[i]>> ELSE <<>>) \o PickFrom(s, I, i + 1)
\* first occurrences, in order of appearance
FirstOccs(s) == PickFrom(s, {i \in DOMAIN s : \A j \in 1..(i - 1) : s[j] # s[i]}, 1)

RemoveAt(s, i) == SubSeq(s, 1, i - 1) \o SubSeq(s, i + 1, Len(s))
RECURSIVE SortDesc(_)
SortDesc(s) == IF s = <<>> THEN <<>>
               ELSE LET m == SeqMax(s)
                        i == CHOOSE j \in DOMAIN s : s[j] = m /\ \A h \in 1..(j - 1) : s[h] # m
                    IN <<m>> \o SortDesc(RemoveAt(s, i))
Rev(s) == [i \in DOMAIN s |-> s[Len(s) + 1 - i]]
SortAsc(s) == Rev(SortDesc(s))

-----------------------------------------------------------------------------
(* the user functions given to dask (transcribed in harness/drivers/C48.py) *)
F(x) == 2 * x + 1
G(x, y) == 4 * x + y
Pred(p, x) == x >= p
KeyOf(m, x) == IF m = 0 THEN x ELSE x % m
Binop(w, a, x) == IF w = "add" THEN a + x ELSE (2 * a + x) % 5      \* "nc": not commutative, not associative

(* derived inputs *)
Second(s) == [i \in DOMAIN s |-> (s[i] + i) % 4]                    \* the elements of the second bag
Pairs(s)  == [i \in DOMAIN s |-> <<s[i], (s[i] + i) % 3>>]
Nest(s)   == [i \in DOMAIN s |-> [j \in 1..(s[i] % 3) |-> s[i] + j - 1]]

-----------------------------------------------------------------------------
(* the operations on the concatenation *)
MapF(s)        == [i \in DOMAIN s |-> F(s[i])]
Filter(p, s)   == SelectSeq(s, LAMBDA x : Pred(p, x))
Remove(p, s)   == SelectSeq(s, LAMBDA x : ~Pred(p, x))
Flatten(ns)    == Flat(ns)
Distinct(s)    == FirstOccs(s)
\* distinct(key=): the first element of every key class; ks[i] is the key of els[i]
DistinctBy(ks, els) == PickFrom(els, {i \in DOMAIN els : \A j \in 1..(i - 1) : ks[j] # ks[i]}, 1)
\* the keyed variants: "key" x % 2 on the naturals, "key0" the first field of the pairs (a non-callable key),
\* "keylen" the length of the nested lists - none of them injective on the data
KeySeq(w, els) == CASE w = "key"    -> [i \in DOMAIN els |-> els[i] % 2]
                    [] w = "key0"   -> [i \in DOMAIN els |-> els[i][1]]
                    [] w = "keylen" -> [i \in DOMAIN els |-> Len(els[i])]
DistinctW(w, els) == DistinctBy(KeySeq(w, els), els)
Keys(m, s)     == FirstOccs([i \in DOMAIN s |-> KeyOf(m, s[i])])
Frequencies(s) == LET d == FirstOccs(s) IN [i \in DOMAIN d |-> <<d[i], CountOf(s, d[i])>>]
TopK(k, s)     == Prefix(SortDesc(s), k)
BottomK(k, s)  == Prefix(SortAsc(s), k)                               \* topk(k, key = negation)
Members(m, s, key) == SelectSeq(s, LAMBDA x : KeyOf(m, x) = key)
GroupBy(m, s)  == LET ks == Keys(m, s) IN [i \in DOMAIN ks |-> <<ks[i], Members(m, s, ks[i])>>]
SumSq(s) == SumS([i \in DOMAIN s |-> s[i] * s[i]])
FoldOf(w, mem) == CASE w = "cnt" -> Len(mem) [] w = "sq" -> SumSq(mem) [] OTHER -> SumS(mem)
FoldBy(w, m, s) == LET ks == Keys(m, s) IN
                   [i \in DOMAIN ks |-> <<ks[i], FoldOf(w, Members(m, s, ks[i]))>>]
\* toolz.join(on_other, other, on_self, self): pairs <<other element, self element>> with equal keys
Join(m, s, t)  == Flat([i \in DOMAIN s |->
                        LET hit == SelectSeq(t, LAMBDA y : KeyOf(m, y) = KeyOf(m, s[i]))
                        IN [j \in DOMAIN hit |-> <<hit[j], s[i]>>]])
Product(s, t)  == Flat([i \in DOMAIN s |-> [j \in DOMAIN t |-> <<s[i], t[j]>>]])
Zip(s, t)      == [i \in 1..MinI(Len(s), Len(t)) |-> <<s[i], t[i]>>]

RECURSIVE AccFrom(_, _, _)
AccFrom(w, a, s) == IF s = <<>> THEN <<>>
                    ELSE LET v == Binop(w, a, Head(s)) IN <<v>> \o AccFrom(w, v, Tail(s))
\* itertools.accumulate(s, binop[, initial])
Accumulate(w, hasinit, c, s) ==
  IF hasinit THEN <<c>> \o AccFrom(w, c, s)
  ELSE IF s = <<>> THEN <<>> ELSE <<Head(s)>> \o AccFrom(w, Head(s), Tail(s))

Mean(s) == RNorm(SumS(s), Len(s))                                                     \* s # <<>>
\* sum((x - mean)^2) / (n - ddof)  =  (n * sum(x^2) - sum(x)^2) / (n * (n - ddof))
Var(s, ddof) == RNorm(Len(s) * SumSq(s) - SumS(s) * SumS(s), Len(s) * (Len(s) - ddof))   \* Len(s) > ddof

\* take(k, npartitions): the first k elements of the first np partitions; np = -1 means all
TakeParts(parts, np) == IF np <= -1 THEN parts ELSE SubSeq(parts, 1, np)
Take(parts, k, np) == Prefix(Flat(TakeParts(parts, np)), k)

-----------------------------------------------------------------------------
(* results *)
R(kind, value) == [k |-> kind, v |-> value]
Err == R("err", 0)

Pipe(w, s) ==
  CASE w = "filter.acc"       -> R("seq", Accumulate("add", FALSE, 0, Filter(2, s)))
    [] w = "map.filter.sum"   -> R("int", SumS(Filter(4, MapF(s))))
    [] w = "filter.max"       -> IF Filter(2, s) = <<>> THEN Err ELSE R("int", SeqMax(Filter(2, s)))
    [] w = "flatten.distinct" -> R("mset", Distinct(Flatten(Nest(s))))
    [] w = "map.repart.take"  -> R("seq", Prefix(MapF(s), 2))
    [] w = "remove.mean"      -> IF Remove(2, s) = <<>> THEN Err ELSE R("rat", Mean(Remove(2, s)))
    [] w = "filter.groupby.len" -> R("mset", FoldBy("cnt", 2, Filter(1, s)))
    [] w = "filter.foldby"    -> R("mset", FoldBy("add", 2, Filter(2, s)))
    [] w = "mappart.topk"     -> R("seq", TopK(2, MapF(s)))
    [] w = "filter.freq"      -> R("mset", Frequencies(Filter(2, s)))
    [] w = "filter.fold0"     -> R("int", SumS(Filter(3, s)))
    [] w = "filter.count"     -> R("int", Len(Filter(3, s)))
    [] w = "accumulate.sum"   -> R("int", SumS(Accumulate("add", FALSE, 0, s)))

PipeNames == {"filter.acc", "map.filter.sum", "filter.max", "flatten.distinct", "map.repart.take", "remove.mean",
              "filter.groupby.len", "filter.foldby", "mappart.topk", "filter.freq", "filter.fold0", "filter.count",
              "accumulate.sum"}

\* o = [op, w, p, q]: operation, variant, two integer parameters (0 when unused)
Expected(o, parts) ==
  LET s == Flat(parts)
      t == Second(s)
      n == Len(s)
  IN
  CASE o.op = "map" ->
         R("seq", CASE o.w = "f"     -> MapF(s)
                    [] o.w = "const" -> [i \in DOMAIN s |-> G(s[i], 3)]
                    [] o.w = "bag"   -> [i \in DOMAIN s |-> G(s[i], t[i])]
                    [] o.w = "kw"    -> [i \in DOMAIN s |-> G(s[i], n)])        \* y = b.count()
    [] o.op = "starmap"  -> R("seq", [i \in DOMAIN s |-> G(Pairs(s)[i][1], Pairs(s)[i][2])])
    [] o.op = "filter"   -> R("seq", Filter(o.p, s))
    [] o.op = "remove"   -> R("seq", Remove(o.p, s))
    [] o.op = "mappart"  ->
         R("seq", CASE o.w = "f"    -> MapF(s)
                    [] o.w = "bag"  -> [i \in DOMAIN s |-> G(s[i], t[i])]
                    [] o.w = "item" -> [i \in DOMAIN s |-> G(s[i], SumS(s))])   \* c = b.sum()
    [] o.op = "pluck"    ->
         IF o.w = "pair" THEN R("seq", [i \in DOMAIN s |-> Pairs(s)[i][o.p + 1]])
         ELSE R("seq", [i \in DOMAIN s |-> IF Len(Nest(s)[i]) > o.p THEN Nest(s)[i][o.p + 1] ELSE 9])   \* default = 9
    [] o.op = "flatten"  -> R("seq", Flatten(Nest(s)))
    [] o.op = "distinct" ->
         R("mset", CASE o.w = ""       -> Distinct(s)
                     [] o.w = "key"    -> DistinctW("key", s)
                     [] o.w = "key0"   -> DistinctW("key0", Pairs(s))
                     [] o.w = "keylen" -> DistinctW("keylen", Nest(s)))
    [] o.op = "frequencies" -> R(IF o.w = "sort" THEN "fsort" ELSE "mset", Frequencies(s))
    [] o.op = "topk"     ->
         IF o.w = "half" THEN R("topkkey", TopK(o.p, [i \in DOMAIN s |-> s[i] \div 2]))       \* key = x // 2: ties
         ELSE R("seq", IF o.w = "neg" THEN BottomK(o.p, s) ELSE TopK(o.p, s))
    [] o.op = "fold"     ->
         (CASE o.w = "add"  -> IF s = <<>> THEN Err ELSE R("int", SumS(s))      \* reduce(add, []) raises
            [] o.w = "add0" -> R("int", SumS(s))
            [] o.w = "cnt"  -> R("int", n)
            [] o.w = "sq"   -> R("int", SumSq(s))                                  \* binop acc + x*x, combine +
            [] o.w = "cat"  -> R("mset", s))
    [] o.op = "reduction" ->
         (CASE o.w = "sum"  -> R("int", SumS(s))
            [] o.w = "len"  -> R("int", n)
            [] o.w = "uniq" -> R("seq", SortAsc(Distinct(s))))
    [] o.op = "foldby"   -> R("mset", FoldBy(o.w, o.p, s))
    [] o.op = "groupby"  -> R("grp", GroupBy(o.p, s))
    [] o.op = "join"     -> R("mset", Join(o.p, s, t))
    [] o.op = "product"  -> R("mset", Product(s, t))
    [] o.op = "accumulate" -> R("seq", Accumulate(o.w, o.q = 1, o.p, s))
    [] o.op = "take"     -> IF o.q > Len(parts) THEN Err ELSE R("seq", Take(parts, o.p, o.q))
    [] o.op = "repartition" -> R("rep", [s |-> s, np |-> o.p])
    [] o.op = "zip"      -> R("seq", Zip(s, t))
    [] o.op = "concat"   -> R("seq", s \o t)
    [] o.op = "count"    -> R("int", n)
    [] o.op = "sum"      -> R("int", SumS(s))
    [] o.op = "min"      -> IF s = <<>> THEN Err ELSE R("int", SeqMin(s))
    [] o.op = "max"      -> IF s = <<>> THEN Err ELSE R("int", SeqMax(s))
    [] o.op = "any"      -> R("bool", \E i \in DOMAIN s : s[i] # 0)
    [] o.op = "all"      -> R("bool", \A i \in DOMAIN s : s[i] # 0)
    [] o.op = "mean"     -> IF s = <<>> THEN Err ELSE R("rat", Mean(s))
    [] o.op = "var"      -> IF n <= o.q THEN Err ELSE R("rat", Var(s, o.q))
    [] o.op = "std"      -> IF n <= o.q THEN Err ELSE R("rat2", Var(s, o.q))
    [] o.op = "pipe"     -> Pipe(o.w, s)

-----------------------------------------------------------------------------
(* comparison of an observed result with an expected one, by kind.
   obs = [raised |-> BOOLEAN, v |-> value, np |-> declared number of partitions] ; the driver
   guarantees that obs.v has the shape of the kind (a wrong shape is reported by the driver).   *)
IsGroupsOf(got, want) ==
  /\ Len(got) = Len(want)
  /\ \A i \in DOMAIN want : \E j \in DOMAIN got : got[j][1] = want[i][1] /\ SameBag(got[j][2], want[i][2])
IsTopByKey(got, keys, s) ==
  /\ [i \in DOMAIN got |-> got[i] \div 2] = keys
  /\ SubBagOf(got, s)

Mismatch(e, obs, s) ==
  IF e.k = "err" THEN (IF obs.raised THEN {} ELSE {"ErrorExpected"})
  ELSE IF obs.raised THEN {"UnexpectedRaise"}
  ELSE IF CASE e.k \in {"seq", "int", "bool", "rat", "rat2"} -> obs.v = e.v
            [] e.k = "mset"  -> SameBag(obs.v, e.v)
            [] e.k = "grp"   -> IsGroupsOf(obs.v, e.v)
            [] e.k = "topkkey" -> IsTopByKey(obs.v, e.v, s)
            [] e.k = "fsort" -> SameBag(obs.v, e.v) /\ \A i \in 1..(Len(obs.v) - 1) : obs.v[i][2] >= obs.v[i + 1][2]
            [] e.k = "rep"   -> obs.v = e.v.s /\ obs.np = e.v.np
       THEN {} ELSE {"Content"}
=============================================================================
