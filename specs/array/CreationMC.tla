----------------------------- MODULE CreationMC -----------------------------
(* Case enumeration and design check for C34.  A state is one creation call
   (routine + arguments, without the chunks argument) with the result the
   reference demands, or - op = "chunkspecs" - for one output shape the list
   of all explicit chunkings (the harness adds the int / -1 / "auto" / byte
   string / dict spellings) under which every case of that shape is run.      *)
EXTENDS Creation

CONSTANTS Ops, Starts, Steps, LinEnds, MaxNum, MaxN, Shapes2, MeshLens, FullShapes

VARIABLES case, exp, out

ArangeCases   == [op: {"arange"}, a: Starts, b: Starts, s: Steps]
LinspaceCases == [op: {"linspace"}, a: LinEnds, b: LinEnds, num: 0..MaxNum, endpoint: BOOLEAN]
EyeCases      == [op: {"eye", "tri"}, N: 0..MaxN, M: (0..MaxN) \cup {None}, k: (-(MaxN + 1))..(MaxN + 1)]
DiagCases     == [op: {"diag"}, shape: {<<n>> : n \in 0..MaxN}, k: -3..3]
                 \cup [op: {"diag"}, shape: Shapes2, k: (-MaxN)..MaxN]
AxPairs(nd)   == {p \in ((-nd)..(nd - 1)) \X ((-nd)..(nd - 1)) : (p[1] < 0) = (p[2] < 0)}
DiagonalCases == UNION {{[op |-> "diagonal", shape |-> sh, k |-> k, a1 |-> p[1], a2 |-> p[2]]
                         : k \in -3..3, p \in AxPairs(Len(sh))} : sh \in Shapes2 \cup {<<2, 3, 2>>, <<1, 2, 3>>}}
IndicesCases  == [op: {"indices", "fromfunction"}, shape: FullShapes]
FullCases     == [op: {"full"}, shape: FullShapes, v: {0, 1, 7}, kind: {"i", "f"}]
MeshCases     == [op: {"meshgrid"}, shape: MeshLens, xy: BOOLEAN, sparse: BOOLEAN]

OpCases(op) == CASE op = "arange"   -> ArangeCases
                 [] op = "linspace" -> LinspaceCases
                 [] op = "eye"      -> EyeCases
                 [] op = "diag"     -> DiagCases
                 [] op = "diagonal" -> DiagonalCases
                 [] op = "indices"  -> IndicesCases
                 [] op = "full"     -> FullCases
                 [] op = "meshgrid" -> MeshCases
AllOpCases == UNION {OpCases(op) : op \in Ops}

\* shapes for which explicit chunkings are handed to the harness: results and inputs
ResShape(c) == IF c.op = "meshgrid" THEN {} ELSE LET r == Res(c) IN IF r.err THEN {} ELSE {r.shape}
InShape(c)  == IF c.op \in {"diag", "diagonal"} THEN {c.shape} ELSE IF c.op = "meshgrid" THEN {<<c.shape[i]>> : i \in DOMAIN c.shape} ELSE {}
SpecShapes  == {sh \in UNION {ResShape(c) \cup InShape(c) : c \in AllOpCases} : Len(sh) >= 1 /\ Size(sh) <= 40}

ZAxis(n) == IF n = 0 THEN {} ELSE {<<0, n>>, <<n, 0>>}
PlainAxis(n) == IF n = 0 THEN {<<0>>} ELSE {<<n>>}
RECURSIVE ZeroAt(_, _)
ZeroAt(sh, d) == IF sh = <<>> THEN {<<>>}
                 ELSE {<<c>> \o r : c \in (IF d = 1 THEN ZAxis(Head(sh)) ELSE PlainAxis(Head(sh))), r \in ZeroAt(Tail(sh), d - 1)}
MenuAxis(n) == IF n = 0 THEN {<<0>>} ELSE {<<n>>, [j \in 1..n |-> 1]} \cup (IF n >= 2 THEN {<<1, n - 1>>, <<n - 1, 1>>} ELSE {})
RECURSIVE MenuChunkings(_)
MenuChunkings(sh) == IF sh = <<>> THEN {<<>>}
                     ELSE {<<c>> \o r : c \in MenuAxis(Head(sh)), r \in MenuChunkings(Tail(sh))}
AllOf(sh) == (Len(sh) = 1 /\ Size(sh) <= 6) \/ (Len(sh) = 2 /\ Size(sh) <= 9)      \* at most 32 chunkings
ChunkingsOf(sh) == (IF AllOf(sh) THEN NDChunkings(sh) ELSE MenuChunkings(sh))
                   \cup UNION {ZeroAt(sh, d) : d \in DOMAIN sh}
SpecCases == [op: {"chunkspecs"}, shape: SpecShapes]

Expected(c) == IF c.op = "chunkspecs"
               THEN [err |-> FALSE, shape |-> c.shape, cells |-> <<>>, den |-> 1, kind |-> "", all |-> SetToSeq(ChunkingsOf(c.shape))]
               ELSE IF c.op = "linspace" THEN [r |-> Res(c), step |-> LinStep(c.a, c.b, c.num, c.endpoint)]
               ELSE [r |-> Res(c)]

Init == /\ case \in AllOpCases \cup SpecCases
        /\ exp = Expected(case)
        /\ out = ToJson([c |-> case, e |-> exp])
Next == UNCHANGED <<case, exp, out>>

-----------------------------------------------------------------------------
(* sanity of the reference (design check) *)
IsOp  == case.op # "chunkspecs"
Plain == IsOp /\ case.op # "meshgrid" /\ ~exp.r.err
CellCount == Plain => Len(exp.r.cells) = Size(exp.r.shape)

\* arange: consecutive cells differ by the step, all lie on the correct side of stop, the next one would not
ArangeContract == (Plain /\ case.op = "arange") =>
   LET cs == exp.r.cells IN
   /\ \A j \in 1..(Len(cs) - 1) : cs[j + 1] - cs[j] = case.s
   /\ \A j \in DOMAIN cs : IF case.s > 0 THEN cs[j] < case.b ELSE cs[j] > case.b
   /\ (Len(cs) > 0 => cs[1] = case.a /\ (IF case.s > 0 THEN cs[Len(cs)] + case.s >= case.b ELSE cs[Len(cs)] + case.s <= case.b))
   /\ (Len(cs) = 0 => (IF case.s > 0 THEN case.a >= case.b ELSE case.a <= case.b))

\* linspace: first cell is start; with endpoint the last is stop; equal spacing
LinspaceContract == (Plain /\ case.op = "linspace") =>
   LET cs == exp.r.cells
       d  == exp.r.den \div 8
   IN /\ (Len(cs) > 0 => cs[1] = case.a * d)
      /\ ((case.endpoint /\ Len(cs) > 1) => cs[Len(cs)] = case.b * d)
      /\ \A j \in 1..(Len(cs) - 1) : cs[j + 1] - cs[j] = case.b - case.a

\* eye is the difference of two tri's
EyeIsTriDiff == (Plain /\ case.op = "eye") =>
   LET t1 == TriM(case.N, case.M, case.k).cells
       t0 == TriM(case.N, case.M, case.k - 1).cells
   IN \A j \in DOMAIN exp.r.cells : exp.r.cells[j] = t1[j] - t0[j]

\* diag of a 1-d array and diagonal are inverse to each other
DiagRoundTrip == (Plain /\ case.op = "diag" /\ Len(case.shape) = 1) =>
   Diagonal(Arr(exp.r.shape, exp.r.cells), case.k, 0, 1).cells = IdArr(case.shape, 0).cells

\* every output of meshgrid has as many cells as its shape says; dense outputs share one shape
MeshShapes == (IsOp /\ case.op = "meshgrid") =>
   /\ \A i \in DOMAIN exp.r.outs : Len(exp.r.outs[i].cells) = Size(exp.r.outs[i].shape)
   /\ (~case.sparse => \A i \in DOMAIN exp.r.outs : exp.r.outs[i].shape = exp.r.outs[1].shape)

ChunkingsValid == case.op = "chunkspecs" => \A j \in DOMAIN exp.all : ValidChunks(case.shape, exp.all[j])
=============================================================================
