----------------------------- MODULE Reductions -----------------------------
(* Reference semantics of NumPy reductions and scans.  C22.

   An array is a shape and its cells in row-major order.  A cell is a small
   natural number or NaN (an integer sentinel, because TLC cannot compare a
   string with a number).  Integer-valued results (sum, prod, min, max, any,
   all, arg-reductions, scans, topk) are integers or NaN; mean / var / std /
   moment / median / quantile are exact rationals <<num, den>> (module Rational)
   or RNaN.  std is specified by its square (the variance): the harness squares
   what dask returns.

   A reduction is a fold over *lanes*: the cells that share their coordinates on
   the kept axes, in row-major order of the reduced axes.  Nothing here mentions
   chunks or split_every: the property says precisely that the result does not
   depend on either.  What NumPy leaves free (argtopk among equal values) is
   left free here too (ArgTopKOK).                                             *)
EXTENDS NDArray, Rational, TLC, Json

NaN  == -1           \* a NaN cell / integer-valued NaN result
RNaN == <<0, 0>>     \* a NaN rational result
None == 99           \* axis = None

Asc(S)    == IF S = {} THEN <<>> ELSE SelectSeq([i \in 1..Max(S) |-> i], LAMBDA d : d \in S)   \* S: set of axes
Pos(s, d) == CHOOSE j \in DOMAIN s : s[j] = d
Sub(s, p) == [j \in DOMAIN p |-> s[p[j]]]
Tuples(e) == IF ProdSeq(e) = 0 THEN <<>> ELSE Cart(e)          \* 1-based index tuples, row-major
Rng(l)    == {l[j] : j \in DOMAIN l}

RECURSIVE Insert(_, _)
Insert(v, s) == IF s = <<>> THEN <<v>>
                ELSE IF v <= Head(s) THEN <<v>> \o s ELSE <<Head(s)>> \o Insert(v, Tail(s))
RECURSIVE Sorted(_)
Sorted(l) == IF l = <<>> THEN <<>> ELSE Insert(Head(l), Sorted(Tail(l)))        \* ascending

-----------------------------------------------------------------------------
(* Axes.  `ax` is <<None>> or a sequence of (possibly negative) 0-based axes. *)
NormAx(nd, a)  == (IF a < 0 THEN a + nd ELSE a) + 1             \* 1-based
AxesOK(nd, ax) == \/ ax = <<None>>
                  \/ /\ \A j \in DOMAIN ax : ax[j] \in (-nd)..(nd - 1)
                     /\ \A i, j \in DOMAIN ax : i # j => NormAx(nd, ax[i]) # NormAx(nd, ax[j])
RedSet(nd, ax) == IF ax = <<None>> THEN 1..nd ELSE {NormAx(nd, ax[j]) : j \in DOMAIN ax}

\* the lane of output position t (an index tuple over the kept axes `kept`); `red` are the reduced
\* axes and `us` the index tuples over them (Lanes computes the three once for all lanes)
LaneOf(shape, cells, kept, red, us, t) ==
  LET ix(u) == [d \in 1..Len(shape) |-> IF \E j \in DOMAIN red : red[j] = d THEN u[Pos(red, d)] - 1
                                                                            ELSE t[Pos(kept, d)] - 1]
  IN [j \in DOMAIN us |-> cells[Ravel(shape, ix(us[j])) + 1]]
LaneAt(shape, cells, R, t) ==
  LET red == Asc(R) IN LaneOf(shape, cells, Asc((1..Len(shape)) \ R), red, Tuples(Sub(shape, red)), t)
\* all lanes, in row-major order of the kept axes
Lanes(shape, cells, R) ==
  LET kept == Asc((1..Len(shape)) \ R)
      red  == Asc(R)
      us   == Tuples(Sub(shape, red))
      outs == Tuples(Sub(shape, kept))
  IN [j \in DOMAIN outs |-> LaneOf(shape, cells, kept, red, us, outs[j])]

-----------------------------------------------------------------------------
(* Folds of one lane.                                                         *)
HasNaN(l)  == NaN \in Rng(l)
DropNaN(l) == SelectSeq(l, LAMBDA v : v # NaN)
First(l, v) == Min({j \in DOMAIN l : l[j] = v}) - 1            \* first occurrence, 0-based

NanOps == {"nansum", "nanprod", "nanmin", "nanmax", "nanargmin", "nanargmax", "nanmean", "nanvar",
           "nanstd", "nanmedian", "nancumsum", "nancumprod"}
RatOps == {"mean", "var", "std", "moment", "median", "quantile", "nanmean", "nanvar", "nanstd", "nanmedian"}

\* NumPy raises (ValueError) for these lanes
LaneErr(op, l) == CASE op \in {"min", "max", "argmin", "argmax", "nanmin", "nanmax"} -> l = <<>>
                    [] op \in {"nanargmin", "nanargmax"} -> DropNaN(l) = <<>>
                    [] OTHER -> FALSE

IntVal(op, l) ==
  CASE op = "sum"     -> IF HasNaN(l) THEN NaN ELSE SumSeq(l)
    [] op = "prod"    -> IF HasNaN(l) THEN NaN ELSE ProdSeq(l)
    [] op = "min"     -> IF HasNaN(l) THEN NaN ELSE Min(Rng(l))
    [] op = "max"     -> IF HasNaN(l) THEN NaN ELSE Max(Rng(l))
    [] op = "any"     -> IF \E j \in DOMAIN l : l[j] # 0 THEN 1 ELSE 0          \* NaN is truthy
    [] op = "all"     -> IF \A j \in DOMAIN l : l[j] # 0 THEN 1 ELSE 0
    [] op = "nansum"  -> SumSeq(DropNaN(l))
    [] op = "nanprod" -> ProdSeq(DropNaN(l))
    [] op = "nanmin"  -> IF DropNaN(l) = <<>> THEN NaN ELSE Min(Rng(DropNaN(l)))
    [] op = "nanmax"  -> IF DropNaN(l) = <<>> THEN NaN ELSE Max(Rng(DropNaN(l)))
    [] op = "argmin"  -> IF HasNaN(l) THEN First(l, NaN) ELSE First(l, Min(Rng(l)))
    [] op = "argmax"  -> IF HasNaN(l) THEN First(l, NaN) ELSE First(l, Max(Rng(l)))
    [] op = "nanargmin" -> First(l, Min(Rng(DropNaN(l))))
    [] op = "nanargmax" -> First(l, Max(Rng(DropNaN(l))))

\* sum over the lane of (n*x - S)^k : the k-th central moment times n^(k+1), in integers
RECURSIVE DevPow(_, _, _, _)
DevPow(l, n, S, k) == IF l = <<>> THEN 0 ELSE RPow(n * Head(l) - S, k) + DevPow(Tail(l), n, S, k)

Mean(l) == IF l = <<>> \/ HasNaN(l) THEN RNaN ELSE RNorm(SumSeq(l), Len(l))
\* k-th central moment with divisor n - ddof (var: k = 2); NumPy gives nan when n - ddof <= 0
\* (for ddof <= 1 this means n <= 1, where the numerator is 0 as well)
Moment(l, k, ddof) == LET n == Len(l) IN
                      IF n - ddof <= 0 \/ HasNaN(l) THEN RNaN
                      ELSE RNorm(DevPow(l, n, SumSeq(l), k), RPow(n, k) * (n - ddof))
Median(l) == LET n == Len(l)  s == Sorted(l) IN
             IF n = 0 \/ HasNaN(l) THEN RNaN
             ELSE IF n % 2 = 1 THEN RInt(s[(n + 1) \div 2]) ELSE RNorm(s[n \div 2] + s[n \div 2 + 1], 2)
\* numpy.quantile(l, q, method) for a rational q in [0, 1] and a non-empty lane
Quantile(l, q, method) ==
  LET n == Len(l)  s == Sorted(l)
      pos == RMul(q, RInt(n - 1))
      lo  == RFloor(pos)  hi == RCeil(pos)
      fr  == RSub(pos, RInt(lo))
  IN IF HasNaN(l) THEN RNaN
     ELSE CASE method = "linear"   -> RAdd(RInt(s[lo + 1]), RMul(RInt(s[hi + 1] - s[lo + 1]), fr))
            [] method = "lower"    -> RInt(s[lo + 1])
            [] method = "higher"   -> RInt(s[hi + 1])
            [] method = "midpoint" -> RNorm(s[lo + 1] + s[hi + 1], 2)
            [] method = "nearest"  -> RInt(s[RRoundEven(pos) + 1])

\* p = ddof (var, std), order (moment); q, method only for quantile
RatVal(op, p, q, method, l) ==
  CASE op = "mean"      -> Mean(l)
    [] op = "nanmean"   -> Mean(DropNaN(l))
    [] op \in {"var", "std"}       -> Moment(l, 2, p)
    [] op \in {"nanvar", "nanstd"} -> Moment(DropNaN(l), 2, p)
    [] op = "moment"    -> Moment(l, p, 0)
    [] op = "median"    -> Median(l)
    [] op = "nanmedian" -> Median(DropNaN(l))
    [] op = "quantile"  -> Quantile(l, q, method)

-----------------------------------------------------------------------------
(* Results: [shape, cells, err]; err = NumPy raises.                          *)
Failure == [shape |-> <<>>, cells |-> <<>>, err |-> TRUE]

\* op(a, axis=ax, keepdims=kd): f gives the value of a lane
FoldWith(shape, cells, ax, kd, f(_), bad(_)) ==
  LET nd == Len(shape) IN
  IF ~AxesOK(nd, ax) THEN Failure ELSE
  LET R      == RedSet(nd, ax)
      kept   == Asc((1..nd) \ R)
      lanes  == Lanes(shape, cells, R)
      oshape == IF kd THEN [d \in 1..nd |-> IF d \in R THEN 1 ELSE shape[d]] ELSE Sub(shape, kept)
  IN IF \E j \in DOMAIN lanes : bad(lanes[j]) THEN Failure
     ELSE [shape |-> oshape, cells |-> [j \in DOMAIN lanes |-> f(lanes[j])], err |-> FALSE]

Fold(shape, cells, op, p, ax, kd) ==
  IF op \in RatOps
  THEN FoldWith(shape, cells, ax, kd, LAMBDA l : RatVal(op, p, <<0, 1>>, "", l), LAMBDA l : FALSE)
  ELSE FoldWith(shape, cells, ax, kd, LAMBDA l : IntVal(op, l), LAMBDA l : LaneErr(op, l))

\* numpy.quantile(a, qs, axis, method, keepdims): the q axis comes first (dropped for a scalar q)
Quant(shape, cells, qs, scalarq, method, ax, kd) ==
  LET per(q) == FoldWith(shape, cells, ax, kd, LAMBDA l : RatVal("quantile", 0, q, method, l), LAMBDA l : FALSE)
      one    == per(qs[1])
  IN IF one.err THEN Failure
     ELSE [shape |-> (IF scalarq THEN <<>> ELSE <<Len(qs)>>) \o one.shape,
           cells |-> FlattenSeq([j \in DOMAIN qs |-> per(qs[j]).cells]),
           err   |-> FALSE]

\* argmin / argmax family: axis None (flattened) or one axis
ArgRed(shape, cells, op, ax, kd) ==
  IF ax # <<None>> /\ Len(ax) # 1 THEN Failure ELSE Fold(shape, cells, op, 0, ax, kd)

\* cumsum / cumprod (and nan variants): axis None scans the flattened array
ScanOp(op) == CASE op = "cumsum" -> "sum" [] op = "cumprod" -> "prod"
                [] op = "nancumsum" -> "nansum" [] op = "nancumprod" -> "nanprod"
Scan(shape0, cells, op, ax) ==
  LET shape == IF ax = <<None>> THEN <<Size(shape0)>> ELSE shape0
      nd    == Len(shape)
      ok    == ax = <<None>> \/ (Len(ax) = 1 /\ AxesOK(nd, ax))
  IN IF ~ok THEN Failure ELSE
  LET a   == IF ax = <<None>> THEN 1 ELSE NormAx(nd, ax[1])
      ixs == Tuples(shape)
      rest(ix) == [j \in 1..(nd - 1) |-> ix[IF j < a THEN j ELSE j + 1]]
      val(ix)  == IntVal(ScanOp(op), SubSeq(LaneAt(shape, cells, {a}, rest(ix)), 1, ix[a]))
  IN [shape |-> shape, cells |-> [j \in DOMAIN ixs |-> val(ixs[j])], err |-> FALSE]

\* topk(a, k, axis): the k largest in descending order (k < 0: the -k smallest, ascending)
Abs(k) == IF k < 0 THEN -k ELSE k
TopKLane(l, k) == LET s == IF k > 0 THEN Reverse(Sorted(l)) ELSE Sorted(l)
                      m == IF Abs(k) < Len(l) THEN Abs(k) ELSE Len(l)
                  IN SubSeq(s, 1, m)
TopK(shape, cells, k, ax) ==
  LET nd == Len(shape) IN
  IF ~(Len(ax) = 1 /\ ax # <<None>> /\ AxesOK(nd, ax)) THEN Failure ELSE
  LET a  == NormAx(nd, ax[1])
      m  == IF Abs(k) < shape[a] THEN Abs(k) ELSE shape[a]
      oshape == [shape EXCEPT ![a] = m]
      ixs == Tuples(oshape)
      rest(ix) == [j \in 1..(nd - 1) |-> ix[IF j < a THEN j ELSE j + 1]]
  IN [shape |-> oshape,
      cells |-> [j \in DOMAIN ixs |-> TopKLane(LaneAt(shape, cells, {a}, rest(ixs[j])), k)[ixs[j][a]]],
      err |-> FALSE]

\* argtopk: `got` (cells of the observed index array, same layout as TopK's result) is acceptable
\* iff along every lane the indices are distinct, in range and select exactly the topk values
ArgTopKOK(shape, cells, k, ax, got) ==
  LET nd == Len(shape)
      a  == NormAx(nd, ax[1])
      want == TopK(shape, cells, k, ax)
      ixs  == Tuples(want.shape)
      rest(ix) == [j \in 1..(nd - 1) |-> ix[IF j < a THEN j ELSE j + 1]]
      lane(ix) == LaneAt(shape, cells, {a}, rest(ix))
  IN /\ Len(got) = Len(want.cells)
     /\ \A j \in DOMAIN ixs : /\ got[j] \in 0..(shape[a] - 1)
                              /\ lane(ixs[j])[got[j] + 1] = want.cells[j]
     /\ \A i, j \in DOMAIN ixs : (i # j /\ rest(ixs[i]) = rest(ixs[j])) => got[i] # got[j]

\* dtype class of the result: b(ool), i(nt), f(loat).  numpy.quantile keeps the input dtype for
\* the methods that select a data point and computes in floating point for the interpolating ones
OutKind(c) == IF c.op \in {"any", "all"} THEN "b"
              ELSE IF c.fam = "arg" \/ c.op = "argtopk" THEN "i"
              ELSE IF c.op = "quantile" THEN (IF c.method \in {"lower", "higher", "nearest"} THEN c.kind ELSE "f")
              ELSE IF c.op \in RatOps THEN "f" ELSE c.kind

\* A case record (fields by family, see ReductionsMC) and what it must evaluate to
Expected(c) ==
  LET r == CASE c.fam = "fold"  -> Fold(c.shape, c.cells, c.op, c.p, c.ax, c.kd)
             [] c.fam = "arg"   -> ArgRed(c.shape, c.cells, c.op, c.ax, c.kd)
             [] c.fam = "cum"   -> Scan(c.shape, c.cells, c.op, c.ax)
             [] c.fam = "topk"  -> TopK(c.shape, c.cells, c.k, c.ax)
             [] c.fam = "quant" -> IF c.op = "quantile"
                                   THEN Quant(c.shape, c.cells, c.q, c.sq, c.method, c.ax, c.kd)
                                   ELSE Fold(c.shape, c.cells, c.op, 0, c.ax, c.kd)
  IN [shape |-> r.shape, cells |-> r.cells, err |-> r.err, kind |-> OutKind(c),
      rat |-> c.op \in RatOps]

-----------------------------------------------------------------------------
(* Lazy-metadata clause evaluated on observations of the implementation
   (unknown sizes are logged as -1 and are a don't-care).                     *)
Known(c) == \A j \in DOMAIN c : c[j] >= 0
MetaOK(obs) ==
  /\ Len(obs.chunks) = Len(obs.cshape)
  /\ \A a \in DOMAIN obs.chunks :
        Known(obs.chunks[a]) => /\ SumSeq(obs.chunks[a]) = obs.cshape[a]
                                /\ obs.lshape[a] = obs.cshape[a]
  /\ obs.blocksok

-----------------------------------------------------------------------------
(* Implementation-shaped transcriptions, used only by the design check
   (ReductionsMC): dask reduces per block, then combines groups of at most
   `se` neighbouring partial results until one is left (_tree_reduce /
   partial_reduce), and scans either sequentially or by the Brent-Kung
   up-sweep / down-sweep of prefixscan_blelloch.                              *)
RECURSIVE Groups(_, _)
Groups(s, k) == IF Len(s) <= k THEN <<s>> ELSE <<SubSeq(s, 1, k)>> \o Groups(SubSeq(s, k + 1, Len(s)), k)

\* the lane cut into blocks by a chunking of its axis
Blocks(l, ch) == [b \in DOMAIN ch |-> SubSeq(l, Offset(ch, b) + 1, Offset(ch, b) + ch[b])]

RECURSIVE TreeFold(_, _, _)
TreeFold(op, parts, se) ==          \* parts: partial results, combined with `op` over groups of se
  IF Len(parts) <= se THEN IntVal(op, parts)
  ELSE LET g == Groups(parts, se) IN TreeFold(op, [j \in DOMAIN g |-> IntVal(op, g[j])], se)

\* prefix_vals after the up-sweep and down-sweep of prefixscan_blelloch.  The values are
\* sequences and the binary operation is concatenation (the free monoid), so a mis-paired
\* or repeated combination cannot cancel out.  pv is 0-based in the code: pv[i] there is
\* pv[i + 1] here.
CeilLog2(m) == CHOOSE e \in 0..30 : RPow(2, e) >= m /\ (e = 0 \/ RPow(2, e - 1) < m)
RECURSIVE Level(_, _, _, _)
Level(pv, i, stride, stride2) ==      \* for i in range(<start>, n_vals, stride2): pv[i] = binop(pv[i - stride], pv[i])
  IF i >= Len(pv) THEN pv
  ELSE Level([pv EXCEPT ![i + 1] = pv[i - stride + 1] \o pv[i + 1]], i + stride2, stride, stride2)
RECURSIVE UpSweep(_, _, _)
UpSweep(pv, stride, stride2) ==
  IF stride2 > Len(pv) THEN pv
  ELSE UpSweep(Level(pv, stride2 - 1, stride, stride2), stride2, stride2 * 2)
RECURSIVE DownSweep(_, _, _)
DownSweep(pv, stride, stride2) ==
  IF stride <= 0 THEN pv
  ELSE DownSweep(Level(pv, stride2 + stride - 1, stride, stride2), stride \div 2, stride)
Blelloch(pv) ==
  IF Len(pv) < 2 THEN pv
  ELSE LET up == UpSweep(pv, 1, 2)
           s2 == LET e == RPow(2, CeilLog2(Len(pv) \div 2)) IN IF e < 2 THEN 2 ELSE e
       IN DownSweep(up, s2 \div 2, s2)
\* the contract of the two sweeps: entry i is the combination of values 0..i, in order
BlellochOK(n) == Blelloch([i \in 1..n |-> <<i>>]) = [i \in 1..n |-> [j \in 1..i |-> j]]
=============================================================================
