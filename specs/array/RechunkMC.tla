----------------------------- MODULE RechunkMC -----------------------------
(* Case enumeration and design check for C23.  Every initial state is one case
   with what the specification demands of it.

   Fam = "norm"    : the normalize_chunks grid  Shapes x per-axis spec menu x
                     Limits x Itemsizes x previous_chunks menu (3-d shapes: Limits3)
   Fam = "prev"    : previous_chunks as a first-class dimension of automatic chunking: every axis "auto",
                     1, 2 and 3 axes; the previous chunking of an axis is any sequence of at most PrevLen
                     pieces from PrevPieces (a small piece, one in the tolerance band above twice /
                     2.5 times it, an oversize one, and 0 - in every order, zero-width pieces at the
                     start, inside and at the end, after small and after oversize pieces);
                     PrevLimits[k] = element limits for k axes, byte limit = elements x itemsize
   Fam = "rechunk" : every (source, target) pair of chunkings of every shape in
                     Shapes, ZShapes and the 1-d extents 0..N (when N >= 0); for the
                     1-d shapes and ZShapes, chunkings with one zero-width block are
                     included on axes of extent 1..Z                              *)
EXTENDS Rechunk

CONSTANTS Fam, N, Z, Shapes, ZShapes, Limits, Limits3, Itemsizes,
          PrevPieces, PrevLen, PrevAxisMenu, PrevLimits     \* Fam = "prev"

VARIABLES case, exp, out

-----------------------------------------------------------------------------
IntC(v) == [k |-> "int", v |-> v]
FullC   == [k |-> "full"]
AutoC   == [k |-> "auto"]
TupC(v) == [k |-> "tuple", t |-> v]

Irregular(n) == IF n >= 3 THEN <<n - 2, 1, 1>> ELSE <<n>>

TupleMenu(n) == IF n = 0 THEN {<<0>>}
                ELSE {<<n>>, Irregular(n), Uniform(n, 2), <<n, 1>>}     \* the last one does not add up

AxisMenu(n) == {IntC(1), IntC(3), IntC(n + 1), FullC, AutoC} \cup {TupC(c) : c \in TupleMenu(n)}

RECURSIVE PerAxis(_)
PerAxis(shape) == IF shape = <<>> THEN {<<>>}
                  ELSE { <<c>> \o r : c \in AxisMenu(Head(shape)), r \in PerAxis(Tail(shape)) }

\* previous_chunks menu: <<>> stands for "not given"
PrevMenu(shape) == { <<>>,
                     [d \in DOMAIN shape |-> Uniform(shape[d], 1)],
                     [d \in DOMAIN shape |-> <<shape[d]>>],
                     [d \in DOMAIN shape |-> Uniform(shape[d], IF d % 2 = 1 THEN 2 ELSE 3)],
                     [d \in DOMAIN shape |-> Irregular(shape[d])],
                     \* a zero-width block in front (dask produces such chunkings itself)
                     [d \in DOMAIN shape |-> IF shape[d] = 0 THEN <<0>> ELSE <<0, shape[d]>>] }

HasAuto(spec) == \E d \in DOMAIN spec : IsAuto(spec[d])

NormCases ==
  UNION { UNION { IF HasAuto(sp)
                  THEN [fam: {"norm"}, shape: {sh}, spec: {sp}, limit: IF Len(sh) >= 3 THEN Limits3 ELSE Limits,
                        itemsize: Itemsizes, prev: PrevMenu(sh)]
                  ELSE [fam: {"norm"}, shape: {sh}, spec: {sp}, limit: {Max(Limits)}, itemsize: {Min(Itemsizes)}, prev: {<<>>}]
                  : sp \in PerAxis(sh) }
          : sh \in Shapes }

-----------------------------------------------------------------------------
AxisChunkings(n, z) == Chunkings(n) \cup (IF n \in 1..z THEN WithOneZero(n) ELSE {})
RECURSIVE NDC(_, _)
NDC(shape, z) == IF shape = <<>> THEN {<<>>}
                 ELSE { <<c>> \o r : c \in AxisChunkings(Head(shape), z), r \in NDC(Tail(shape), z) }

OneD == IF N >= 0 THEN { <<n>> : n \in 0..N } ELSE {}
ZFor(sh) == IF sh \in ZShapes \cup OneD THEN Z ELSE 0

RechunkCases ==
  UNION { [fam: {"rechunk"}, shape: {sh}, chunks: NDC(sh, ZFor(sh)), target: NDC(sh, ZFor(sh))]
          : sh \in Shapes \cup ZShapes \cup OneD }

RECURSIVE SeqsOfLen(_, _)
SeqsOfLen(S, k) == IF k = 0 THEN {<<>>} ELSE {<<x>> \o r : x \in S, r \in SeqsOfLen(S, k - 1)}
PrevAxisAll(L) == {p \in UNION {SeqsOfLen(PrevPieces, k) : k \in 1..L} : SumSeq(p) > 0}
PrevND ==       \* <<set of previous chunkings, number of axes>>
  { <<p>> : p \in PrevAxisAll(PrevLen) }
  \cup { <<p, p>> : p \in PrevAxisAll(PrevLen) }
  \cup { <<a, b>> : a \in PrevAxisAll(PrevLen - 1), b \in PrevAxisMenu }
  \cup { <<b, a>> : a \in PrevAxisAll(PrevLen - 1), b \in PrevAxisMenu }
  \cup { <<p, p, p>> : p \in PrevAxisAll(PrevLen) }
  \cup (PrevAxisMenu \X PrevAxisMenu \X PrevAxisMenu)
PrevCases ==
  UNION { [fam: {"norm"}, shape: {ShapeOf(pv)}, spec: {[d \in DOMAIN pv |-> AutoC]},
           limit: {l * i : l \in PrevLimits[Len(pv)], i \in Itemsizes} , itemsize: Itemsizes, prev: {pv}]
          : pv \in PrevND }

Cases == CASE Fam = "norm"    -> NormCases
           [] Fam = "prev"    -> {c \in PrevCases : c.limit % c.itemsize = 0 /\ (c.limit \div c.itemsize) \in PrevLimits[Len(c.shape)]}
           [] Fam = "rechunk" -> RechunkCases

Expected(c) ==
  CASE c.fam = "norm" ->
         LET err == NormExpectErr(c.shape, c.spec) IN
         [err |-> err,
          explicit |-> [d \in DOMAIN c.shape |->
                          IF IsAuto(c.spec[d]) \/ err THEN <<>> ELSE ExplicitAxis(c.shape[d], c.spec[d])]]
    [] c.fam = "rechunk" ->
         [err |-> FALSE, cells |-> Identity(c.shape), chunks |-> c.target]

Init == /\ case \in Cases
        /\ exp = Expected(case)
        /\ out = ToJson([c |-> case, e |-> exp])
Next == UNCHANGED <<case, exp, out>>

-----------------------------------------------------------------------------
(* Design check: the contracts are satisfiable / the references satisfy them *)

\* the normalize_chunks contract can be met on every case that is not an error
WitnessOK == (case.fam = "norm" /\ ~exp.err) =>
               NormOK(case.shape, case.spec, case.limit, case.itemsize, <<1, 1>>, NormWitness(case.shape, case.spec))

\* ... and really constrains: a result with a wrong sum is rejected
ContractRejects == (case.fam = "norm" /\ ~exp.err /\ case.shape # <<>> /\ case.prev = <<>>) =>
                     LET w   == NormWitness(case.shape, case.spec)
                         bad == [w EXCEPT ![1] = <<Head(w[1]) + 1>> \o Tail(w[1])]
                     IN ~NormOK(case.shape, case.spec, case.limit, case.itemsize, <<1, 1>>, bad)

UniformStrict == case.fam = "norm" =>
                   \A d \in DOMAIN case.shape : \A k \in 1..3 : StrictAxis(case.shape[d], Uniform(case.shape[d], k))

\* the canonical pieces tile every new block exactly once, in order
RefTiles == case.fam = "rechunk" =>
              \A d \in DOMAIN case.shape : TilesOK(case.chunks[d], case.target[d], RefPieces(case.chunks[d], case.target[d]))

\* per-axis tilings compose: each new n-d block assembled from the listed pieces
\* of old blocks holds exactly the cells of that block of the identity array
\* (evaluated on the n-d cases whose target has at most 4 blocks: the composition
\* is the same Cart/Ravel arithmetic for every block, RefTiles covers every case)
RECURSIVE BlockIdx(_)
BlockIdx(chunks) == IF chunks = <<>> THEN {<<>>}
                    ELSE { <<b>> \o r : b \in DOMAIN Head(chunks), r \in BlockIdx(Tail(chunks)) }
BlocksFromPieces == (case.fam = "rechunk" /\ Len(case.shape) >= 2 /\ Cardinality(BlockIdx(case.target)) <= 4) =>
   LET pcs == [d \in DOMAIN case.shape |-> RefPieces(case.chunks[d], case.target[d])] IN
   \A b \in BlockIdx(case.target) :
      BlockFromPieces(case.shape, case.chunks, pcs, b) = BlockCells(case.shape, case.target, b)

\* the target blocks partition the identity array
TargetCovers == (case.fam = "rechunk" /\ Len(case.shape) >= 2 /\ Cardinality(BlockIdx(case.target)) <= 4) =>
   LET all == UNION { {BlockCells(case.shape, case.target, b)[t] : t \in DOMAIN BlockCells(case.shape, case.target, b)}
                      : b \in BlockIdx(case.target) }
   IN all = {exp.cells[j] : j \in DOMAIN exp.cells}

\* the trivial one-step plan satisfies the plan contract
TrivialPlanOK == case.fam = "rechunk" => PlanOK(case.chunks, case.target, <<case.target>>)
=============================================================================
