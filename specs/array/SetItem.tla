------------------------------ MODULE SetItem ------------------------------
(* C21 - reference semantics of NumPy item assignment  x[idx] = v,  on arrays
   whose cells hold element ids: the cells of x are their own row-major
   position (or whatever earlier assignments left there), the cells of the
   value are *fresh* ids, so every cell of the result is attributable - either
   to the cell of x that was there or to exactly one cell of the value.

   An index is either
       [k |-> "comps", comps |-> <<...>>]   components as in module Indexing
                                            (slices of any step sign, integers,
                                            one integer list or boolean list)
       [k |-> "mask",  m |-> <<0/1 ...>>]   a boolean mask of the full shape
   The selection (which cells are written, in which order, with which shape) is
   the one module Indexing defines for reading x[idx]; the value is broadcast to
   the selection (leading axes of length 1 of the value may be dropped); where an
   integer list repeats a position the last value wins.
   The second half of the property - assignment never changes the chunks of x -
   is the clause ChunksKept of the trace specification.                        *)
EXTENDS Indexing, Broadcast

AErr  == [err |-> TRUE, free |-> FALSE, cells |-> <<>>]
\* NumPy refuses, but for a reason that is an implementation restriction of NumPy rather than part
\* of the meaning of assignment: the implementation may do anything (don't-care)
AFree == [err |-> TRUE, free |-> TRUE, cells |-> <<>>]

Selection(shape, idx) ==
  IF idx.k = "mask"
  THEN IF Len(idx.m) # Size(shape) THEN [shape |-> <<>>, cells |-> <<>>, err |-> TRUE]
       ELSE LET pos == SelectSeq([p \in 1..Size(shape) |-> p - 1], LAMBDA q : idx.m[q + 1] = 1)
            IN [shape |-> <<Len(pos)>>, cells |-> pos, err |-> FALSE]
  ELSE Result(shape, idx.comps)

\* NumPy drops leading axes of length 1 the value has in excess of the selection
RECURSIVE StripLead(_, _)
StripLead(vsh, n) == IF Len(vsh) > n /\ Head(vsh) = 1 THEN StripLead(Tail(vsh), n) ELSE vsh

\* can a value of shape vsh be assigned to a selection of shape ssh
\* (an element - a selection without axes - only takes a value without axes:
\* NumPy 2 refuses "setting an array element with a sequence")
Fits(vsh, ssh) ==
  LET vs == StripLead(vsh, Len(ssh))
  IN /\ ssh = <<>> => vsh = <<>>
     /\ Len(vs) <= Len(ssh)
     /\ BroadcastOK(<<vs, ssh>>)
     /\ BroadcastShape(<<vs, ssh>>) = ssh

\* a single boolean array as large as x (for 1-d x that is also a boolean list component)
IsFullMask(shape, idx) ==
  \/ idx.k = "mask"
  \/ (Len(shape) = 1 /\ Len(idx.comps) = 1 /\ idx.comps[1].k = "b")

\* x[idx] = val  where x has shape `shape` and cells `cur`; val = [sh, v]
Assign(shape, cur, idx, val) ==
  LET sel == Selection(shape, idx) IN
  IF sel.err \/ ~Fits(val.sh, sel.shape) THEN AErr
  ELSE IF IsFullMask(shape, idx) /\ Len(val.sh) > 1  \* "boolean array indexing assignment requires a 0 or 1-dimensional input"
  THEN AFree
  ELSE LET vs == StripLead(val.sh, Len(sel.shape))
           vb == BroadcastTo(vs, val.v, sel.shape)
       IN [err |-> FALSE, free |-> FALSE,
           cells |-> [p \in 1..Size(shape) |->
                        LET hits == {j \in DOMAIN sel.cells : sel.cells[j] = p - 1}
                        IN IF hits = {} THEN cur[p] ELSE vb[Max(hits)]]]

Identity(shape) == [p \in 1..Size(shape) |-> p - 1]
FreshBase == 1000
=============================================================================
