----------------------------- MODULE RandomTrace -----------------------------
(* code -> spec for C28.  Records (fingerprints, names, keys interned to positive
   integers; 0 = the computation raised):
     [id, kind |-> "draw",     obs: <<[how, obj, fp]>>]
     [id, kind |-> "unseeded", names, keys, alone, together]
     [id, kind |-> "choice",   pop, size, res, raised]                        *)
EXTENDS Random, TraceIO

Bad(r) == CASE r.kind = "draw"     -> DrawBad(r.obs)
            [] r.kind = "unseeded" -> UnseededBad(r)
            [] r.kind = "choice"   -> IF r.raised THEN { "Raised" } ELSE ChoiceBad(r.pop, r.size, r.res)
Init == TInit
Next == TNext(Bad)
=============================================================================
