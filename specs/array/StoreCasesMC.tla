--------------------------- MODULE StoreCasesMC ---------------------------
(* C29: case enumeration (spec -> code) for the geometry of da.store and for the npy stack.

   fam = "geom": one source of every shape in `shapes`, every chunking (plus, with `zero`, the
     chunkings of 1-d sources that carry one zero-width chunk), stored into a target that is
     larger by `start` cells in front and `pad` cells behind on every axis, through the region
     slice(start, ., step) on every axis - all combinations of starts x steps x pads per axis.
     Exported: the call, the expected content of the target, the block writes.
   fam = "tile": ONE source of every shape in `shapes`, every chunking, stored TWICE into ONE target in a
     single call (store([x, x], [t, t], regions=[r1, r2])): r1 starts at row 0, r2 is r1 moved along axis 0
     so that the two regions are separated by a gap, adjacent, interleaved (step 2, r2 fills the holes of
     r1) or overlapping by a whole number of periods of a periodic source (equal content on the overlap);
     row step in `steps`.  The other axes use start 1, step 1 inside a target that is one cell larger.
   fam = "npy":  every shape in `shapes`, every chunking, every axis.

   Init only picks the case; the expected result is computed in one Next step. *)
EXTENDS Store, Json

CONSTANTS Plans    \* a set of records [fam, shapes, starts, steps, pads, zero]: several enumerations in one run

VARIABLES cs, out
vars == <<cs, out>>

RegionChoice(pl) == [start : pl.starts, step : pl.steps, pad : pl.pads]
RECURSIVE Regions(_, _)
Regions(pl, k) == IF k = 0 THEN {<<>>} ELSE { <<x>> \o r : x \in RegionChoice(pl), r \in Regions(pl, k - 1) }

ChunkChoices(pl, shape) ==
  NDChunkings(shape) \cup (IF pl.zero /\ Len(shape) = 1 THEN { <<c>> : c \in WithOneZero(shape[1]) } ELSE {})

Max1(v) == IF v < 1 THEN 1 ELSE v
CallOf(shape, chunks, rg) ==
  [tshape |-> << [d \in DOMAIN shape |-> rg[d].start + rg[d].step * (Max1(shape[d]) - 1) + 1 + rg[d].pad] >>,
   src    |-> << [shape |-> shape, chunks |-> chunks, tgt |-> 1, base |-> 0, per |-> Max1(Size(shape)),
                  start |-> [d \in DOMAIN shape |-> rg[d].start], step |-> [d \in DOMAIN shape |-> rg[d].step]] >>]

\* the second region of a tiling: [start of r2 on axis 0, period of the source in rows (0 = not periodic)]
TileMoves(n0, st) ==
  { <<st * (n0 - 1) + 2, 0>>, <<st * (n0 - 1) + 1, 0>> }                  \* gap, adjacent
  \cup (IF st = 2 THEN { <<1, 0>> } ELSE {})                               \* interleaved
  \cup { <<st * m, m>> : m \in 1..(n0 - 1) }                              \* overlapping by n0 - m rows
TileCall(shape, chunks, st, mv) ==
  LET nd   == Len(shape)
      row  == ProdSeq(Tail(shape))
      one(a0) == [shape |-> shape, chunks |-> chunks, tgt |-> 1, base |-> 0,
                  per |-> IF mv[2] = 0 THEN Max1(Size(shape)) ELSE mv[2] * row,
                  start |-> [d \in 1..nd |-> IF d = 1 THEN a0 ELSE 1], step |-> [d \in 1..nd |-> IF d = 1 THEN st ELSE 1]]
  IN [tshape |-> << [d \in 1..nd |-> IF d = 1 THEN mv[1] + st * (shape[1] - 1) + 1 ELSE shape[d] + 1] >>,
      src    |-> << one(0), one(mv[1]) >>]

Init ==
  /\ out = ""
  /\ \E pl \in Plans :
     \/ /\ pl.fam = "tile"
        /\ \E shape \in pl.shapes : \E chunks \in NDChunkings(shape) : \E st \in pl.steps : \E mv \in TileMoves(shape[1], st) :
              cs = [fam |-> "tile", call |-> TileCall(shape, chunks, st, mv)]
     \/ /\ pl.fam = "geom"
        /\ \E shape \in pl.shapes : \E chunks \in ChunkChoices(pl, shape) : \E rg \in Regions(pl, Len(shape)) :
              cs = [fam |-> "geom", call |-> CallOf(shape, chunks, rg)]
     \/ /\ pl.fam = "npy"
        /\ \E shape \in pl.shapes : \E chunks \in NDChunkings(shape) : \E ax \in 1..Len(shape) :
              cs = [fam |-> "npy", shape |-> shape, chunks |-> chunks, axis |-> ax]

Expect ==
  IF cs.fam \in {"geom", "tile"}
  THEN [exp |-> ExpectedAll(cs.call), blocks |-> AllBlocks(cs.call)]
  ELSE [shape |-> cs.shape, axchunks |-> cs.chunks[cs.axis], cells |-> [j \in 1..Size(cs.shape) |-> j]]

Next == /\ out = ""
        /\ out' = ToJson([c |-> cs, e |-> Expect])
        /\ UNCHANGED cs

\* design checks
GeomOK == cs.fam = "geom" =>
  /\ WellFormed(cs.call) /\ BlocksDisjoint(cs.call) /\ BlocksCover(cs.call)
  /\ LET ex == Expected(cs.call, 1)
     IN { ex[p] : p \in DOMAIN ex } \ {0} = 1..Size(cs.call.src[1].shape)
\* a tiling: both stores are well-formed together, every cell is covered by as many block writes as elements
\* go to it, and the target ends up holding the source twice (equal elements where the regions overlap)
TileOK == cs.fam = "tile" =>
  /\ WellFormed(cs.call) /\ BlocksDisjoint(cs.call) /\ BlocksCover(cs.call)
  /\ \A q \in 1..2 : LET sr == cs.call.src[q]
                          gs == Idx0(sr.shape)
                      IN \A j \in DOMAIN gs : Expected(cs.call, 1)[TPos(cs.call, sr, gs[j])] = SVal(cs.call, q, gs[j])
\* the contract accepts the array itself cut like the input, and rejects a changed axis chunking
NpyOK == cs.fam = "npy" =>
  LET ident == [shape |-> cs.shape, chunks |-> cs.chunks, lchunks |-> cs.chunks, cells |-> [j \in 1..Size(cs.shape) |-> j]]
  IN /\ NpyRoundTripBad(cs.shape, cs.chunks, cs.axis, ident) = {}
     /\ Len(cs.chunks[cs.axis]) > 1 =>
           "AxisChunks" \in NpyRoundTripBad(cs.shape, cs.chunks, cs.axis,
                                            [ident EXCEPT !.chunks[cs.axis] = <<cs.shape[cs.axis]>>])
=============================================================================
