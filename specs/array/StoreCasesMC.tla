--------------------------- MODULE StoreCasesMC ---------------------------
(* C29: case enumeration (spec -> code) for the geometry of da.store and for the npy stack.

   fam = "geom": one source of every shape in `shapes`, every chunking (plus, with `zero`, the
     chunkings of 1-d sources that carry one zero-width chunk), stored into a target that is
     larger by `start` cells in front and `pad` cells behind on every axis, through the region
     slice(start, ., step) on every axis - all combinations of starts x steps x pads per axis.
     Exported: the call, the expected content of the target, the block writes.
   fam = "npy":  every shape in `shapes`, every chunking, every axis.

   Init only picks the case; the expected result is computed in one Next step. *)
EXTENDS Store, Json

CONSTANTS Plans    \* a set of records [fam, shapes, starts, steps, pads, zero]: several enumerations in one run

VARIABLES cs, out
vars == <<cs, out>>

RegionChoice(pl) == [start : pl.starts, step : pl.steps, pad : pl.pads]
RECURSIVE Regions(_, _)
Regions(pl, k) == IF k = 0 THEN {<<>>} ELSE { <<x>> \o r : x \in RegionChoice(pl), r \in Regions(pl, k - 1) }

ChunkChoices(pl, shape) ==
  NDChunkings(shape) \cup (IF pl.zero /\ Len(shape) = 1 THEN { <<c>> : c \in WithOneZero(shape[1]) } ELSE {})

Max1(v) == IF v < 1 THEN 1 ELSE v
CallOf(shape, chunks, rg) ==
  [tshape |-> << [d \in DOMAIN shape |-> rg[d].start + rg[d].step * (Max1(shape[d]) - 1) + 1 + rg[d].pad] >>,
   src    |-> << [shape |-> shape, chunks |-> chunks, tgt |-> 1, base |-> 0,
                  start |-> [d \in DOMAIN shape |-> rg[d].start], step |-> [d \in DOMAIN shape |-> rg[d].step]] >>]

Init ==
  /\ out = ""
  /\ \E pl \in Plans :
     \/ /\ pl.fam = "geom"
        /\ \E shape \in pl.shapes : \E chunks \in ChunkChoices(pl, shape) : \E rg \in Regions(pl, Len(shape)) :
              cs = [fam |-> "geom", call |-> CallOf(shape, chunks, rg)]
     \/ /\ pl.fam = "npy"
        /\ \E shape \in pl.shapes : \E chunks \in NDChunkings(shape) : \E ax \in 1..Len(shape) :
              cs = [fam |-> "npy", shape |-> shape, chunks |-> chunks, axis |-> ax]

Expect ==
  IF cs.fam = "geom"
  THEN [exp |-> ExpectedAll(cs.call), blocks |-> AllBlocks(cs.call)]
  ELSE [shape |-> cs.shape, axchunks |-> cs.chunks[cs.axis], cells |-> [j \in 1..Size(cs.shape) |-> j]]

Next == /\ out = ""
        /\ out' = ToJson([c |-> cs, e |-> Expect])
        /\ UNCHANGED cs

\* design checks
GeomOK == cs.fam = "geom" =>
  /\ WellFormed(cs.call) /\ BlocksDisjoint(cs.call) /\ BlocksCover(cs.call)
  /\ LET ex == Expected(cs.call, 1)
     IN { ex[p] : p \in DOMAIN ex } \ {0} = 1..Size(cs.call.src[1].shape)
\* the contract accepts the array itself cut like the input, and rejects a changed axis chunking
NpyOK == cs.fam = "npy" =>
  LET ident == [shape |-> cs.shape, chunks |-> cs.chunks, lchunks |-> cs.chunks, cells |-> [j \in 1..Size(cs.shape) |-> j]]
  IN /\ NpyRoundTripBad(cs.shape, cs.chunks, cs.axis, ident) = {}
     /\ Len(cs.chunks[cs.axis]) > 1 =>
           "AxisChunks" \in NpyRoundTripBad(cs.shape, cs.chunks, cs.axis,
                                            [ident EXCEPT !.chunks[cs.axis] = <<cs.shape[cs.axis]>>])
=============================================================================
