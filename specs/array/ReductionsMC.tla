---------------------------- MODULE ReductionsMC ----------------------------
(* Case enumeration for C22 (spec -> code) and design check of the reference.

   Every initial state is one case: a data fill (shape, cells, dtype class; the
   fills are chosen by the harness, seeded), an operation with its parameters,
   an axis selection and keepdims, and the set of ALL chunkings of the shape
   (plus chunkings with an empty chunk for the smallest shapes) - together with
   the result the reference semantics of module Reductions demands.  The
   expected result does not depend on the chunking (that is the property), so
   it is computed once per case and the harness runs dask on every chunking of
   `chunkings` (or a seeded sample).  split_every / the scan method are not
   part of a case either: the harness varies them.

   The invariants check the reference against independent characterisations
   and against implementation-shaped transcriptions of dask's tree reduction
   and Blelloch scan over the case's own chunking.                            *)
EXTENDS Reductions

CONSTANTS Fam,         \* "fold" | "arg" | "cum" | "topk" | "quant" | "all"
          Fills,       \* set of [shape, cells, kind]; kind "i" or "f"; NaN cells only with "f"
          ZeroChunks,  \* BOOLEAN: also chunkings with one empty chunk (small shapes)
          Orders,      \* orders of `moment`
          QForms,      \* quantile argument forms [q, sq, kd]: q a sequence of rationals, sq = passed as a scalar
          EmptyAxes,   \* BOOLEAN: also axis=() for folds
          NanBase,     \* NaN-free float fills on which ALL NaN placements are enumerated (nan-arg reductions)
          LongFills    \* fills with a long axis for the arg-reductions and scans: many, irregular blocks

VARIABLES case, done, exp, out

ChunkingsOf(sh) ==
  NDChunkings(sh) \cup
  (IF ~ZeroChunks THEN {}
   ELSE IF Len(sh) = 1 /\ sh[1] \in 1..3 THEN { <<c>> : c \in WithOneZero(sh[1]) }
   ELSE IF Len(sh) = 2 /\ sh[1] \in 1..2 /\ sh[2] \in 1..2
        THEN { <<c, r>> : c \in WithOneZero(sh[1]), r \in Chunkings(sh[2]) }
             \cup { <<c, r>> : c \in Chunkings(sh[1]), r \in WithOneZero(sh[2]) }
   ELSE {})

Singles(nd)  == { <<a>> : a \in 0..(nd - 1) } \cup (IF nd > 0 THEN { <<-1>> } ELSE {})
FoldAxes(nd) == {<<None>>} \cup Singles(nd) \cup (IF nd = 2 THEN { <<0, 1>>, <<-1, -2>> } ELSE {})
                \cup (IF EmptyAxes THEN { <<>> } ELSE {})
ArgAxes(nd)  == {<<None>>} \cup Singles(nd) \cup (IF nd = 2 THEN { <<0, 1>> } ELSE {})
QuantAxes(nd) == {<<None>>} \cup Singles(nd) \cup (IF nd = 2 THEN { <<0, 1>> } ELSE {})

NaNFree(f) == ~HasNaN(f.cells)

FoldOpP == ({"sum", "prod", "min", "max", "any", "all", "mean",
             "nansum", "nanprod", "nanmin", "nanmax", "nanmean"} \X {0})
           \cup ({"var", "std", "nanvar", "nanstd"} \X {0, 1})
           \cup ({"moment"} \X Orders)

FoldCases(FS) ==
  UNION { { [fam |-> "fold", shape |-> f.shape, cells |-> f.cells, kind |-> f.kind, chunkings |-> ChunkingsOf(f.shape),
             op |-> o[1], p |-> o[2], ax |-> ax, kd |-> kd]
            : o \in { o \in FoldOpP : o[1] = "moment" => (NaNFree(f) /\ Size(f.shape) > 0) },
              ax \in FoldAxes(Len(f.shape)), kd \in BOOLEAN }
          : f \in FS }

ArgCases(FS) ==
  UNION { { [fam |-> "arg", shape |-> f.shape, cells |-> f.cells, kind |-> f.kind, chunkings |-> ChunkingsOf(f.shape),
             op |-> o, ax |-> ax, kd |-> kd]
            : o \in {"argmin", "argmax", "nanargmin", "nanargmax"},
              ax \in ArgAxes(Len(f.shape)), kd \in BOOLEAN }
          : f \in FS }

\* Every NaN placement: each subset of the cells of a base fill turned into NaN - in particular lanes that are
\* all-NaN inside one block but not in the whole array, next to lanes with a NaN ahead of their extreme value.
\* The nan-arg reductions are taken along each axis (the harness adds every chunking and split_every).
NanPlacements(f) == { [f EXCEPT !.cells = [j \in DOMAIN f.cells |-> IF j \in S THEN NaN ELSE f.cells[j]]]
                      : S \in SUBSET DOMAIN f.cells }
NanPlaceCases(FS) ==
  UNION { { [fam |-> "arg", grp |-> "nanplace", shape |-> g.shape, cells |-> g.cells, kind |-> "f",
             chunkings |-> NDChunkings(g.shape), op |-> o, ax |-> ax, kd |-> FALSE]
            : g \in NanPlacements(f), o \in {"nanargmin", "nanargmax"}, ax \in { <<a>> : a \in 0..(Len(f.shape) - 1) } }
          : f \in FS }

CumCases(FS) ==
  UNION { { [fam |-> "cum", shape |-> f.shape, cells |-> f.cells, kind |-> f.kind, chunkings |-> ChunkingsOf(f.shape),
             op |-> o, ax |-> ax]
            : o \in {"cumsum", "cumprod", "nancumsum", "nancumprod"},
              ax \in {<<None>>} \cup Singles(Len(f.shape)) }
          : f \in FS }

TopKCases(FS) ==
  UNION { { [fam |-> "topk", shape |-> f.shape, cells |-> f.cells, kind |-> f.kind, chunkings |-> ChunkingsOf(f.shape),
             op |-> o, k |-> k, ax |-> ax]
            : o \in {"topk", "argtopk"}, k \in {1, 2, -1, -2, 5, -5},
              ax \in Singles(Len(f.shape)) }
          : f \in { f \in FS : NaNFree(f) /\ Size(f.shape) > 0 } }

QuantCases(FS) ==
  UNION { { [fam |-> "quant", shape |-> f.shape, cells |-> f.cells, kind |-> f.kind, chunkings |-> ChunkingsOf(f.shape),
             op |-> o, ax |-> ax, kd |-> kd, q |-> << <<1, 2>> >>, sq |-> TRUE, method |-> "linear"]
            : o \in {"median", "nanmedian"}, ax \in QuantAxes(Len(f.shape)), kd \in BOOLEAN }
          \cup
          { [fam |-> "quant", shape |-> f.shape, cells |-> f.cells, kind |-> f.kind, chunkings |-> ChunkingsOf(f.shape),
             op |-> "quantile", ax |-> ax, kd |-> qf.kd, q |-> qf.q, sq |-> qf.sq, method |-> m]
            : qf \in QForms, m \in {"linear", "lower", "higher", "midpoint", "nearest"},
              ax \in QuantAxes(Len(f.shape)) }
          : f \in { f \in FS : Size(f.shape) > 0 } }

\* Arg-reductions (block offsets) and scans (sequential carry, Blelloch pairing) depend on how MANY blocks an
\* axis has and on their irregularity: long fills get every chunking, the 1-d ones with 7 or more cells every
\* chunking into at least n - 2 blocks (up to n blocks, all patterns of the few larger chunks).
LongChunkings(sh) == IF Len(sh) = 1 /\ sh[1] >= 7
                     THEN { <<c>> : c \in { c \in Chunkings(sh[1]) : Len(c) >= sh[1] - 2 } }
                     ELSE NDChunkings(sh)
LongCases(FS) == { [c EXCEPT !.chunkings = LongChunkings(c.shape)] @@ [grp |-> "long" \o c.fam]
                   : c \in ArgCases(FS) \cup CumCases(FS) }

\* (the case sets take the fills as a parameter so that TLC, which evaluates constant
\* definitions eagerly, builds only the family that is asked for)
Cases == CASE Fam = "fold"  -> FoldCases(Fills)
           [] Fam = "arg"   -> ArgCases(Fills) \cup NanPlaceCases(NanBase)
           [] Fam = "long"  -> LongCases(LongFills)
           [] Fam = "cum"   -> CumCases(Fills)
           [] Fam = "topk"  -> TopKCases(Fills)
           [] Fam = "quant" -> QuantCases(Fills)
           [] Fam = "all"   -> FoldCases(Fills) \cup ArgCases(Fills) \cup NanPlaceCases(NanBase) \cup CumCases(Fills)
                               \cup TopKCases(Fills) \cup QuantCases(Fills) \cup LongCases(LongFills)

(* TLC generates initial states in one thread but successors in parallel, so a case is picked
   in Init and evaluated in the one step it can take; the invariants speak about evaluated
   states (done), whose `out` is what the harness reads from the state dump.          *)
NotYet == [shape |-> <<>>, cells |-> <<>>, err |-> TRUE, kind |-> "", rat |-> FALSE]
Init == /\ case \in Cases
        /\ done = FALSE
        /\ exp = NotYet
        /\ out = "null"
Next == /\ ~done
        /\ done' = TRUE
        /\ exp' = Expected(case)
        /\ out' = ToJson([c |-> case, e |-> exp'])
        /\ UNCHANGED case

-----------------------------------------------------------------------------
(* Design check.                                                              *)
ASSUME \A n \in 0..24 : BlellochOK(n)

Data      == case.cells
Clean     == ~HasNaN(Data)
OneD      == Len(case.shape) = 1
RatCells  == exp.rat

CellCount == (done /\ ~exp.err) => Len(exp.cells) = ProdSeq(exp.shape)

\* every partition of the cells into lanes preserves the total
SumPreserved == (done /\ case.fam = "fold" /\ ~exp.err /\ AxesOK(Len(case.shape), case.ax)) =>
                   /\ (case.op = "sum" /\ Clean) => SumSeq(exp.cells) = SumSeq(Data)
                   /\ case.op = "nansum" => SumSeq(exp.cells) = SumSeq(DropNaN(Data))

\* averages and order statistics lie within the data
Within == (done /\ RatCells /\ ~exp.err /\ Clean /\ case.op \in {"mean", "nanmean", "median", "nanmedian", "quantile"}) =>
             \A j \in DOMAIN exp.cells :
                 exp.cells[j] = RNaN \/ ( /\ RLe(RInt(Min(Rng(Data))), exp.cells[j])
                                           /\ RLe(exp.cells[j], RInt(Max(Rng(Data)))) )
NonNegative == (done /\ RatCells /\ ~exp.err /\ case.op \in {"var", "std", "nanvar", "nanstd"}) =>
                  \A j \in DOMAIN exp.cells : exp.cells[j] = RNaN \/ (IsRat(exp.cells[j]) /\ exp.cells[j][1] >= 0)

\* arg-reductions of the flattened array point at the first extreme cell
ArgFirst == (done /\ case.fam = "arg" /\ case.ax = <<None>> /\ ~exp.err /\ Clean) =>
               LET i == exp.cells[1] + 1
                   e == IF case.op \in {"argmin", "nanargmin"} THEN Min(Rng(Data)) ELSE Max(Rng(Data))
               IN Data[i] = e /\ \A j \in 1..(i - 1) : Data[j] # e

\* nan-arg reductions along an axis never point at a NaN cell: the selected cell of every lane holds the
\* extreme of the lane's non-NaN cells, and no earlier cell of the lane does
NanArgSkipsNaN == (done /\ case.fam = "arg" /\ case.op \in {"nanargmin", "nanargmax"} /\ ~exp.err /\ Len(case.ax) = 1
                   /\ case.ax # <<None>>) =>
                     LET lanes == Lanes(case.shape, Data, RedSet(Len(case.shape), case.ax))
                     IN \A j \in DOMAIN lanes :
                          LET l == lanes[j]  i == exp.cells[j] + 1
                              e == IF case.op = "nanargmin" THEN Min(Rng(DropNaN(l))) ELSE Max(Rng(DropNaN(l)))
                          IN l[i] = e /\ \A k \in 1..(i - 1) : l[k] # e

\* the last cell of a scan of the flattened array is the fold of everything
ScanLast == (done /\ case.fam = "cum" /\ case.ax = <<None>> /\ Data # <<>>) =>
               exp.cells[Len(exp.cells)] = IntVal(ScanOp(case.op), Data)

TopKSorted == (done /\ case.fam = "topk" /\ OneD /\ ~exp.err) =>
                 \A j \in 1..(Len(exp.cells) - 1) :
                     IF case.k > 0 THEN exp.cells[j] >= exp.cells[j + 1] ELSE exp.cells[j] <= exp.cells[j + 1]

\* keepdims changes the shape only
KeepdimsShapeOnly == (done /\ "kd" \in DOMAIN case /\ ~exp.err) =>
                        LET other == Expected([case EXCEPT !.kd = ~case.kd])
                        IN other.cells = exp.cells /\ ProdSeq(other.shape) = ProdSeq(exp.shape)

\* dask's tree reduction over every chunking of the case (1-d, whole-array folds): per-block
\* partial results combined in groups of at most se, for every se - equals the flat fold
AggOp(op) == CASE op = "nansum" -> "sum" [] op = "nanprod" -> "prod" [] OTHER -> op
NonEmpty(bl) == SelectSeq(bl, LAMBDA b : b # <<>>)
TreeIndependent == (done /\ case.fam = "fold" /\ OneD /\ ~exp.err /\ case.ax # <<>>
   /\ case.op \in {"sum", "prod", "min", "max", "any", "all", "nansum", "nanprod", "nanmin", "nanmax"}) =>
     \A chs \in case.chunkings :
       LET bl    == IF case.op \in {"min", "max", "nanmin", "nanmax"}        \* chunk_min drops empty blocks
                    THEN NonEmpty(Blocks(Data, chs[1])) ELSE Blocks(Data, chs[1])
           parts == [b \in DOMAIN bl |-> IntVal(case.op, bl[b])]
       IN \A se \in 2..4 : TreeFold(AggOp(case.op), parts, se) = exp.cells[1]

\* arg-reduction through the tree: a partial result is <<extreme value, global position>>; a
\* combine step keeps the first partial result holding the extreme value
ArgPart(op, l, off) == <<IntVal(IF op = "argmin" THEN "min" ELSE "max", l), IntVal(op, l) + off>>
ArgCombine(op, parts) == parts[IntVal(op, [j \in DOMAIN parts |-> parts[j][1]]) + 1]
RECURSIVE ArgTree(_, _, _)
ArgTree(op, parts, se) == IF Len(parts) <= se THEN ArgCombine(op, parts)
                          ELSE LET g == Groups(parts, se) IN ArgTree(op, [j \in DOMAIN g |-> ArgCombine(op, g[j])], se)
ArgTreeIndependent == (done /\ case.fam = "arg" /\ OneD /\ ~exp.err /\ Clean /\ case.op \in {"argmin", "argmax"}) =>
     \A chs \in { c \in case.chunkings : \A b \in DOMAIN c[1] : c[1][b] > 0 } :
       LET ch    == chs[1]
           bl    == Blocks(Data, ch)
           parts == [b \in DOMAIN bl |-> ArgPart(case.op, bl[b], Offset(ch, b))]
       IN \A se \in 2..4 : ArgTree(case.op, parts, se)[2] = exp.cells[1]

\* prefixscan_blelloch over every chunking of the case (1-d): block totals combined along the
\* up-sweep / down-sweep pairing, then added to the scan of each block - equals the flat scan
ScanSeq(op, l) == [j \in DOMAIN l |-> IntVal(op, SubSeq(l, 1, j))]
BlellochScan(op, l, ch) ==
  LET bl  == Blocks(l, ch)
      nb  == Len(ch)
      bop == AggOp(op)                                        \* the binop on block totals
      pv  == Blelloch([i \in 1..(nb - 1) |-> <<i>>])
      pre(b) == IntVal(bop, [i \in DOMAIN pv[b - 1] |-> IntVal(op, bl[pv[b - 1][i]])])
      blk(b) == IF b = 1 THEN ScanSeq(op, bl[1])
                ELSE [j \in DOMAIN bl[b] |-> IntVal(bop, <<pre(b), ScanSeq(op, bl[b])[j]>>)]
  IN FlattenSeq([b \in 1..nb |-> blk(b)])
BlellochEqualsScan == (done /\ case.fam = "cum" /\ OneD /\ ~exp.err) =>
     \A chs \in case.chunkings : BlellochScan(ScanOp(case.op), Data, chs[1]) = exp.cells

\* the same two transcriptions on a longer lane than the enumerated shapes have, for all of its
\* 2^8 chunkings (checked once, when the model is loaded)
Long == <<2, 0, 3, 1, 1, 3, 0, 2, 1>>
ASSUME \A ch \in Chunkings(Len(Long)) :
         /\ BlellochScan("sum", Long, ch) = ScanSeq("sum", Long)
         /\ \A se \in 2..4 : \A op \in {"sum", "max"} :
               TreeFold(op, [b \in DOMAIN ch |-> IntVal(op, Blocks(Long, ch)[b])], se) = IntVal(op, Long)
=============================================================================
