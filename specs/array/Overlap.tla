------------------------------- MODULE Overlap -------------------------------
(* C26 - overlap computations match the unchunked stencil.

   Arrays are records [shape, cells] (module IndexMaps); the source array of a
   case holds the element ids 1 .. N in row-major order, the constant boundary
   value is N + 1 and 0 is what a stencil reads outside the array it is given.

     depth : one pair <<before, after>> per axis
     bnd   : one of "none" "periodic" "reflect" "nearest" "constant" per axis
     eff   : a chunking (one sequence of block lengths per axis) - the chunking
             the overlap is taken on.  dask may re-chunk first when blocks are
             smaller than the depth; the specification leaves that choice free
             and only demands EffOK (every block at least as long as the depth).

     PadWhole     the whole array extended by its boundary conditions
     OverlapArr   every block of `eff` replaced by its window of PadWhole
     TrimArr      what dask.array.overlap._trim cuts off again, block by block
     Stencil      f(x)[i] = << x[i + o] : o in the box -before .. after >>  (0 outside x):
                  the result cell lists exactly which neighbours were read
     MapOverlapWhole  = TrimWhole(Stencil(PadWhole(x)))   (the property's right-hand side)
     MapOverlapBlocks = TrimArr(Stencil applied block by block to OverlapArr) (what dask does)
     SlidingWindow    numpy.lib.stride_tricks.sliding_window_view as an index map
     EnsureMinOK      contract of ensure_minimum_chunksize; EnsureMinAlg its transcription *)
EXTENDS IndexMaps, TLC, Json

Modes == {"none", "periodic", "reflect", "nearest", "constant"}

Ok(a) == [err |-> FALSE, shape |-> a.shape, cells |-> a.cells]
Fail  == [err |-> TRUE, shape |-> <<>>, cells |-> <<>>]

Max2(x, y) == IF x >= y THEN x ELSE y
Min2(x, y) == IF x <= y THEN x ELSE y

-----------------------------------------------------------------------------
(* Boundary conditions.  dask documents depth > extent as an error ("The
   overlapping depth is larger than your array"): such cases have no result.  *)
DepthFits(shape, depth) == \A d \in DOMAIN shape : Max2(depth[d][1], depth[d][2]) <= shape[d]

\* how much is added before / after each axis: nothing where the boundary is "none"
PadAmt(depth, bnd) == [d \in DOMAIN depth |-> IF bnd[d] = "none" THEN <<0, 0>> ELSE depth[d]]

\* the position that position p outside 0 .. n-1 copies  (|p| overshoots by at most n)
SrcPos(mode, p, n) ==
  CASE mode = "periodic" -> Mod(p, n)
    [] mode = "reflect"  -> LET q == Mod(p, 2 * n) IN IF q < n THEN q ELSE 2 * n - 1 - q    \* the edge cell is repeated
    [] mode = "nearest"  -> IF p < 0 THEN 0 ELSE n - 1

PadAxis(a, d, before, after, mode, cval) ==
  LET n == a.shape[d] IN
  IF before + after = 0 THEN a
  ELSE Build(SetAt(a.shape, d, n + before + after),
             LAMBDA t : LET p == t[d] - before IN
                        IF 0 <= p /\ p < n THEN At(a, SetAt(t, d, p))
                        ELSE IF mode = "constant" THEN cval
                        ELSE At(a, SetAt(t, d, SrcPos(mode, p, n))))

RECURSIVE PadFrom(_, _, _, _, _)
PadFrom(a, d, pad, bnd, cval) ==
  IF d > NDim(a) THEN a
  ELSE PadFrom(PadAxis(a, d, pad[d][1], pad[d][2], bnd[d], cval), d + 1, pad, bnd, cval)

PadWhole(a, depth, bnd, cval) == PadFrom(a, 1, PadAmt(depth, bnd), bnd, cval)

\* cut `pad` off again
TrimWhole(p, pad) ==
  Build([d \in DOMAIN p.shape |-> p.shape[d] - pad[d][1] - pad[d][2]],
        LAMBDA t : At(p, [d \in DOMAIN t |-> t[d] + pad[d][1]]))

-----------------------------------------------------------------------------
(* Overlapping and trimming on a chunking.                                    *)
EffOK(eff, depth) == \A d \in DOMAIN eff : \A b \in DOMAIN eff[d] : eff[d][b] >= Max2(depth[d][1], depth[d][2])

\* what is cut from / added to the front and the back of block b of nb on one axis
CutFront(mode, dp, b)     == IF mode = "none" /\ b = 1 THEN 0 ELSE dp[1]
CutBack(mode, dp, b, nb)  == IF mode = "none" /\ b = nb THEN 0 ELSE dp[2]

\* chunks of the overlapped array, given the chunking it was taken on - and back
OverChunks(eff, depth, bnd) ==
  [d \in DOMAIN eff |-> [b \in DOMAIN eff[d] |->
      eff[d][b] + CutFront(bnd[d], depth[d], b) + CutBack(bnd[d], depth[d], b, Len(eff[d]))]]
EffOfOver(och, depth, bnd) ==
  [d \in DOMAIN och |-> [b \in DOMAIN och[d] |->
      och[d][b] - CutFront(bnd[d], depth[d], b) - CutBack(bnd[d], depth[d], b, Len(och[d]))]]

ShapeOf(ch) == [d \in DOMAIN ch |-> SumSeq(ch[d])]

\* block b of axis d sees the padded array from position WinLo on (padded coordinates)
WinLo(eff, depth, bnd, d, b) ==
  Offset(eff[d], b) + PadAmt(depth, bnd)[d][1] - CutFront(bnd[d], depth[d], b)

\* per axis: the position in the padded array P that each position of the overlapped array shows
OverlapMap(eff, depth, bnd) ==
  LET och == OverChunks(eff, depth, bnd) IN
  [d \in DOMAIN eff |-> [q \in 1..SumSeq(och[d]) |->
      LET loc == Locate(och[d], q - 1) IN WinLo(eff, depth, bnd, d, loc[1]) + loc[2]]]

\* the overlapped array, given the padded array P == PadWhole(a, depth, bnd, cval)
OverlapOn(P, eff, depth, bnd) ==
  LET src == OverlapMap(eff, depth, bnd) IN
  Build([d \in DOMAIN src |-> Len(src[d])], LAMBDA t : At(P, [d \in DOMAIN t |-> src[d][t[d] + 1]]))

OverlapArr(a, eff, depth, bnd, cval) == OverlapOn(PadWhole(a, depth, bnd, cval), eff, depth, bnd)

\* dask.array.overlap.trim_internal / _trim on an array with chunks och: block b keeps what lies between
\* CutFront and CutBack
TrimMap(och, depth, bnd) ==
  LET tch == EffOfOver(och, depth, bnd) IN
  [d \in DOMAIN och |-> [q \in 1..SumSeq(tch[d]) |->
      LET loc == Locate(tch[d], q - 1) IN Offset(och[d], loc[1]) + CutFront(bnd[d], depth[d], loc[1]) + loc[2]]]
TrimArr(o, och, depth, bnd) ==
  LET src == TrimMap(och, depth, bnd) IN
  Build([d \in DOMAIN src |-> Len(src[d])], LAMBDA t : At(o, [d \in DOMAIN t |-> src[d][t[d] + 1]]))

-----------------------------------------------------------------------------
(* Stencils.  rad: one pair <<before, after>> per axis; the result cell is the
   sequence of the cells read, in row-major order of the offsets.             *)
BoxShape(rad) == [d \in DOMAIN rad |-> rad[d][1] + rad[d][2] + 1]
RadFits(rad, depth) == \A d \in DOMAIN rad : rad[d][1] <= depth[d][1] /\ rad[d][2] <= depth[d][2]

StencilIn(a, rad, Visible(_, _)) ==          \* Visible(t, s): may the cell at t read the cell at s?
  LET offs == Idx0(BoxShape(rad)) IN
  Build(a.shape,
        LAMBDA t : [j \in DOMAIN offs |->
                      LET s == [d \in DOMAIN t |-> t[d] + offs[j][d] - rad[d][1]]
                      IN IF (\A d \in DOMAIN s : 0 <= s[d] /\ s[d] < a.shape[d]) /\ Visible(t, s) THEN At(a, s) ELSE 0])

Stencil(a, rad) == StencilIn(a, rad, LAMBDA t, s : TRUE)

\* the same function applied to every block of chunking ch separately
BlockIndex(ch) == [d \in DOMAIN ch |-> [q \in 1..SumSeq(ch[d]) |-> Locate(ch[d], q - 1)[1]]]
StencilBlocks(a, ch, rad) ==
  LET bi == BlockIndex(ch) IN
  StencilIn(a, rad, LAMBDA t, s : \A d \in DOMAIN t : bi[d][t[d] + 1] = bi[d][s[d] + 1])

MapOverlapWhole(a, depth, bnd, cval, rad) ==
  TrimWhole(Stencil(PadWhole(a, depth, bnd, cval), rad), PadAmt(depth, bnd))

\* P == PadWhole(a, depth, bnd, cval)
MapOverlapBlocksOn(P, eff, depth, bnd, rad) ==
  LET och == OverChunks(eff, depth, bnd)
  IN TrimArr(StencilBlocks(OverlapOn(P, eff, depth, bnd), och, rad), och, depth, bnd)
MapOverlapBlocks(a, eff, depth, bnd, cval, rad) == MapOverlapBlocksOn(PadWhole(a, depth, bnd, cval), eff, depth, bnd, rad)

-----------------------------------------------------------------------------
(* sliding_window_view(x, w, axis): axes = the (possibly repeated, possibly
   negative) axes the windows w run along; axis=None is axes = 0 .. nd-1.      *)
SlidingWindow(a, w, axes) ==
  LET nd == NDim(a) IN
  IF Len(w) # Len(axes) \/ (\E j \in DOMAIN w : w[j] < 0) \/ (\E j \in DOMAIN axes : ~AxisOK(nd, axes[j])) THEN Fail
  ELSE LET ax  == [j \in DOMAIN axes |-> NormAxis(nd, axes[j]) + 1]
           On(d) == {j \in DOMAIN ax : ax[j] = d}
           red == [d \in 1..nd |-> SumSeq([j \in DOMAIN w |-> IF ax[j] = d THEN w[j] - 1 ELSE 0])]
           tsh == [d \in 1..nd |-> a.shape[d] - red[d]]
       IN IF \E d \in 1..nd : On(d) # {} /\ tsh[d] < 1 THEN Fail
          ELSE Ok(Build(tsh \o w,
                        LAMBDA t : At(a, [d \in 1..nd |->
                                           t[d] + SumSeq([j \in DOMAIN w |-> IF ax[j] = d THEN t[nd + j] ELSE 0])])))

-----------------------------------------------------------------------------
(* ensure_minimum_chunksize(size, chunks): Pattern B.  res = [raised, out].    *)
EnsureMinOK(size, chunks, res) ==
  IF SumSeq(chunks) < size /\ ~(size <= MinOfSeq(chunks))
  THEN res.raised \/ SumSeq(res.out) = SumSeq(chunks)       \* no chunking can satisfy it: raising is what is documented
  ELSE /\ ~res.raised
       /\ SumSeq(res.out) = SumSeq(chunks)
       /\ Len(res.out) >= 1
       /\ \A b \in DOMAIN res.out : res.out[b] >= size /\ res.out[b] >= 0

\* transcription of the loop in dask/array/overlap.py
RECURSIVE EmcLoop(_, _, _, _)
EmcLoop(size, cs, output, new) ==
  IF cs = <<>> THEN <<output, new>>
  ELSE LET c  == Head(cs)
           s1 == IF c < size
                 THEN IF new > size + (size - c) THEN <<Append(output, new - (size - c)), size>> ELSE <<output, new + c>>
                 ELSE <<output, new>>
           s2 == IF s1[2] >= size THEN <<Append(s1[1], s1[2]), 0>> ELSE s1
           s3 == IF c >= size THEN <<s2[1], s2[2] + c>> ELSE s2
       IN EmcLoop(size, Tail(cs), s3[1], s3[2])
EnsureMinAlg(size, chunks) ==
  IF size <= MinOfSeq(chunks) THEN [raised |-> FALSE, out |-> chunks]
  ELSE LET st == EmcLoop(size, chunks, <<>>, 0) IN
       IF st[2] >= size THEN [raised |-> FALSE, out |-> Append(st[1], st[2])]
       ELSE IF Len(st[1]) >= 1 THEN [raised |-> FALSE, out |-> [st[1] EXCEPT ![Len(st[1])] = @ + st[2]]]
       ELSE [raised |-> TRUE, out |-> <<>>]

-----------------------------------------------------------------------------
(* A case c = [fam, shape, depth, bnd, ...] and what the property demands.     *)
Source(shape) == IdArr(shape, 0)
CVal(shape)   == Size(shape) + 1

Res(c) ==
  LET a == Source(c.shape) IN
  CASE c.fam = "overlap" ->          \* overlap(x, depth, boundary) taken on chunking c.eff
         IF ~DepthFits(c.shape, c.depth) THEN Fail
         ELSE Ok(OverlapArr(a, c.eff, c.depth, c.bnd, CVal(c.shape))) @@ [chunks |-> OverChunks(c.eff, c.depth, c.bnd)]
    [] c.fam = "trim" ->             \* trim_overlap(overlap(x, depth, boundary), depth, boundary) = x
         IF ~DepthFits(c.shape, c.depth) THEN Fail ELSE Ok(a)
    [] c.fam = "map" ->              \* map_overlap(stencil of radius c.rad, depth, boundary)
         IF ~DepthFits(c.shape, c.depth) \/ ~RadFits(c.rad, c.depth) THEN Fail
         ELSE Ok(MapOverlapWhole(a, c.depth, c.bnd, CVal(c.shape), c.rad))
    [] c.fam = "swv" -> SlidingWindow(a, c.w, c.axes)

-----------------------------------------------------------------------------
(* Lazy-metadata clause on observations (unknown sizes are logged as -1).      *)
Known(ch) == \A j \in DOMAIN ch : ch[j] >= 0
MetaOK(obs) ==
  /\ Len(obs.chunks) = Len(obs.cshape)
  /\ \A x \in DOMAIN obs.chunks :
        Known(obs.chunks[x]) => /\ SumSeq(obs.chunks[x]) = obs.cshape[x]
                                /\ obs.lshape[x] = obs.cshape[x]
  /\ obs.blocksok
=============================================================================
