------------------------------ MODULE Creation ------------------------------
(* C34 - reference semantics of NumPy's array creation routines.  A case is a
   record with field `op` and the routine's arguments (never the chunks
   argument: the result must not depend on it - that is the chunk-invariance
   clause, which the harness checks by running every case under every chunk
   specification against the one result below).

   Numbers.  All results are exact: Res(c) = [err, shape, cells, den, kind]
   denotes the array cells[j] / den.  arange takes start/stop/step in eighths
   (dyadic rationals k/8 are exactly representable in binary floating point, so
   the float semantics of NumPy and this rational semantics coincide), den = 8;
   linspace over eighths has den = 8 * div; everything else has den = 1.
   kind is the dtype class NumPy infers: "i" or "f".                          *)
EXTENDS IndexMaps, TLC, Json

None == 99

Ok(a, den, kind) == [err |-> FALSE, shape |-> a.shape, cells |-> a.cells, den |-> den, kind |-> kind]
Fail == [err |-> TRUE, shape |-> <<>>, cells |-> <<>>, den |-> 1, kind |-> ""]

CeilDivPos(a, b) == (a + b - 1) \div b         \* a >= 0, b > 0

(* arange(start, stop, step), all in eighths *)
ArangeLen(a, b, s) == IF s > 0 THEN (IF b > a THEN CeilDivPos(b - a, s) ELSE 0)
                      ELSE (IF a > b THEN CeilDivPos(a - b, -s) ELSE 0)
Arange(a, b, s) ==
  IF s = 0 THEN Fail
  ELSE LET n == ArangeLen(a, b, s) IN
       Ok(Arr(<<n>>, [i \in 1..n |-> a + (i - 1) * s]), 8,
          IF a % 8 = 0 /\ b % 8 = 0 /\ s % 8 = 0 THEN "i" ELSE "f")

(* linspace(start, stop, num, endpoint): start/stop in eighths.  cells are numerators over 8 * div;
   the step is (stop - start) / div, not a number when div = 0 (NumPy returns nan).            *)
LinDiv(num, endpoint) == LET d == IF endpoint THEN num - 1 ELSE num IN IF d <= 0 THEN 1 ELSE d
Linspace(a, b, num, endpoint) ==
  IF num < 0 THEN Fail
  ELSE LET div == LinDiv(num, endpoint) IN
       Ok(Arr(<<num>>, [i \in 1..num |-> a * div + (i - 1) * (b - a)]), 8 * div, "f")
LinStep(a, b, num, endpoint) ==
  [nan |-> (IF endpoint THEN num - 1 ELSE num) <= 0, num |-> b - a, den |-> 8 * LinDiv(num, endpoint)]

(* eye / tri: N x M, 1 on (eye) / on and below (tri) the k-th diagonal *)
Cols(N, M) == IF M = None THEN N ELSE M
Eye(N, M, k) == Ok(Build(<<N, Cols(N, M)>>, LAMBDA t : IF t[2] - t[1] = k THEN 1 ELSE 0), 1, "f")
TriM(N, M, k) == Ok(Build(<<N, Cols(N, M)>>, LAMBDA t : IF t[2] - t[1] <= k THEN 1 ELSE 0), 1, "f")

(* diagonal(a, offset, axis1, axis2): the remaining axes in order, then the diagonal *)
Abs(x) == IF x < 0 THEN -x ELSE x
Diagonal(a, off, x, y) ==
  LET nd == NDim(a) IN
  IF nd < 2 \/ ~AxisOK(nd, x) \/ ~AxisOK(nd, y) THEN Fail
  ELSE LET p  == NormAxis(nd, x) + 1
           q  == NormAxis(nd, y) + 1
           r0 == IF off < 0 THEN -off ELSE 0
           c0 == IF off > 0 THEN off ELSE 0
           l1 == a.shape[p] - r0
           l2 == a.shape[q] - c0
           L  == IF l1 <= 0 \/ l2 <= 0 THEN 0 ELSE IF l1 < l2 THEN l1 ELSE l2
           rest == SelectSeq([d \in 1..nd |-> d], LAMBDA d : d # p /\ d # q)      \* the free axes, in order
       IN IF p = q THEN Fail
          ELSE Ok(Build([j \in 1..(nd - 1) |-> IF j = nd - 1 THEN L ELSE a.shape[rest[j]]],
                        LAMBDA t : At(a, [d \in 1..nd |-> IF d = p THEN r0 + t[nd - 1]
                                                          ELSE IF d = q THEN c0 + t[nd - 1]
                                                          ELSE t[PosOf(rest, d)]])),
                  1, "i")
(* diag: a 1-d input is laid on the k-th diagonal of a square matrix of zeros; a 2-d input gives its diagonal *)
Diag(a, k) ==
  IF NDim(a) = 1
  THEN LET n == a.shape[1] + Abs(k) IN
       Ok(Build(<<n, n>>, LAMBDA t : IF t[2] - t[1] = k THEN a.cells[(IF k >= 0 THEN t[1] ELSE t[2]) + 1] ELSE 0), 1, "i")
  ELSE IF NDim(a) = 2 THEN Diagonal(a, k, 0, 1)
  ELSE Fail

(* indices(dims): shape (nd, *dims); cell [d, i1, .., ind] = i_d *)
Indices(dims) == Ok(Build(<<Len(dims)>> \o dims, LAMBDA t : t[t[1] + 2]), 1, "i")

(* fromfunction(f, shape) with f(i1, .., in) = sum of i_d * 10^(n-d) *)
RECURSIVE Digits(_)
Digits(t) == IF t = <<>> THEN 0 ELSE Digits(SubSeq(t, 1, Len(t) - 1)) * 10 + t[Len(t)]
FromFunction(shape) == Ok(Build(shape, LAMBDA t : Digits(t)), 1, "i")

(* ones / zeros / full and the *_like variants: a constant array *)
Full(shape, v, kind) == Ok(Build(shape, LAMBDA t : v), 1, kind)

(* meshgrid(x1, .., xn, indexing, sparse): input i is the 1-d array of ids 100*(i-1)+1 ..;
   the result is a sequence of arrays.  With "xy" the first two axes are exchanged.        *)
MeshAxis(i, n, xy) == IF xy /\ n >= 2 /\ i = 1 THEN 2 ELSE IF xy /\ n >= 2 /\ i = 2 THEN 1 ELSE i
Meshgrid(lens, xy, sparse) ==
  LET n    == Len(lens)
      full == [d \in 1..n |-> lens[CHOOSE i \in 1..n : MeshAxis(i, n, xy) = d]]
  IN [i \in 1..n |->
        LET ax == MeshAxis(i, n, xy)
            sh == IF sparse THEN [d \in 1..n |-> IF d = ax THEN lens[i] ELSE 1] ELSE full
        IN Build(sh, LAMBDA t : 100 * (i - 1) + t[ax] + 1)]

-----------------------------------------------------------------------------
Res(c) ==
  CASE c.op = "arange"       -> Arange(c.a, c.b, c.s)
    [] c.op = "linspace"     -> Linspace(c.a, c.b, c.num, c.endpoint)
    [] c.op = "eye"          -> Eye(c.N, c.M, c.k)
    [] c.op = "tri"          -> TriM(c.N, c.M, c.k)
    [] c.op = "diag"         -> Diag(IdArr(c.shape, 0), c.k)
    [] c.op = "diagonal"     -> Diagonal(IdArr(c.shape, 0), c.k, c.a1, c.a2)
    [] c.op = "indices"      -> Indices(c.shape)
    [] c.op = "fromfunction" -> FromFunction(c.shape)
    [] c.op = "full"         -> Full(c.shape, c.v, c.kind)       \* ones, zeros, full, *_like: v and kind say which
    [] c.op = "meshgrid"     -> [err |-> FALSE, shape |-> <<>>, cells |-> <<>>, den |-> 1, kind |-> "i",
                                 outs |-> Meshgrid(c.shape, c.xy, c.sparse)]

-----------------------------------------------------------------------------
(* Clauses on observations.  obs.cells are the observed values times den (exact: the harness only
   records a case here when every observed value times den is an integer).                     *)
Known(ch) == \A j \in DOMAIN ch : ch[j] >= 0
MetaOK(obs) ==
  /\ Len(obs.chunks) = Len(obs.cshape)
  /\ \A x \in DOMAIN obs.chunks :
        Known(obs.chunks[x]) => /\ SumSeq(obs.chunks[x]) = obs.cshape[x]
                                /\ obs.lshape[x] = obs.cshape[x]
  /\ obs.blocksok

(* Chunk invariance where the rational model is silent (non-dyadic steps): an observation made
   under some chunking against the observation made with a single chunk.  Values are recorded in
   units of 10^-6 (rounded); equal length, equal dtype class, values within one unit.          *)
AbsDiff(x, y) == IF x < y THEN y - x ELSE x - y
SameAsSingleChunk(ref, obs) ==
  /\ obs.cshape = ref.cshape
  /\ obs.kind = ref.kind
  /\ Len(obs.cells) = Len(ref.cells)
  /\ \A j \in DOMAIN obs.cells : AbsDiff(obs.cells[j], ref.cells[j]) <= 1
=============================================================================
