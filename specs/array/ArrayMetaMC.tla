----------------------------- MODULE ArrayMetaMC -----------------------------
(* Design check of the C25 clauses (module ArrayMeta) and spec -> code cases.
   For every chunking of every small shape TLC builds the observation a correct
   implementation gives for the array of element ids (Good) - it is exported and
   compared with what the harness observes on dask.array.from_array, which binds
   the observation function to the vocabulary of the specification - and a family
   of corrupted observations, each of which must be caught by exactly the clause
   that names the corruption (the clauses are neither vacuous nor redundant).

   A second exhaustive family (spec -> code): every *basic index* of at most
   MaxLen components - None (up to three, anywhere), integers, slices, Ellipsis -
   on every chunking of the shapes in IdxShapes, with the shape NumPy gives the
   result; the driver applies x[index] and TLC evaluates the clauses (plus that
   shape) on what it observes: new axes placed one position off, or counted
   wrongly against dropped integer axes, show up as declared chunks that do not
   fit the computed blocks.

   Third family: every 1-d slice with step in +-1..+-3 and start / stop variants
   on ALL chunkings of the extents in SliceExtents (up to 7 or more, so that the
   per-chunk counts are not palindromic): a negative step lists the pieces back
   to front, and a chunks tuple with the right sum whose parts are attached to
   the wrong blocks is exactly what clause BlockShape sees.
   Fourth family: operations that take an explicit dtype (scans and reductions
   with dtype=, astype) on all chunkings of small 1-d arrays of another dtype:
   the declared dtype must be the requested one and - clause Dtype - every
   single block must have it, not only the assembled result.                  *)
EXTENDS ArrayMeta, Indexing, TLC, Json

CONSTANTS Shapes, IdxShapes, MaxLen,
          SliceExtents,   \* slice family: set of 1-d extents
          DtypeExtents    \* dtype family: set of 1-d extents

VARIABLES case, out

\* cells (= element ids = codes) of the block with 0-based index idx
BlockOf(shape, chunks, idx) ==
  LET bs == [a \in DOMAIN shape |-> chunks[a][idx[a] + 1]]
      T  == IF ProdSeq(bs) = 0 THEN <<>> ELSE Cart(bs)
  IN [i |-> idx, s |-> bs, dt |-> "int64",
      c |-> [t \in DOMAIN T |-> Ravel(shape, [a \in DOMAIN shape |-> Offset(chunks[a], idx[a] + 1) + T[t][a] - 1])]]

Good(shape, chunks) ==
  LET nb == [a \in DOMAIN shape |-> Len(chunks[a])]
      T  == Cart(nb)
  IN [lshape |-> shape, chunks |-> chunks, dt |-> "int64", raised |-> "",
      blocks |-> [j \in DOMAIN T |-> BlockOf(shape, chunks, [a \in DOMAIN nb |-> T[j][a] - 1])],
      whole  |-> [s |-> shape, dt |-> "int64", c |-> [p \in 1..Size(shape) |-> p - 1]]]

\* corruptions: [name, the observation, the clauses that must flag it]
Swap(s, i, j) == [s EXCEPT ![i] = s[j], ![j] = s[i]]
Corruptions(shape, chunks) ==
  LET g == Good(shape, chunks) IN
  {[name |-> "dtype", obs |-> [g EXCEPT !.dt = "float64"], want |-> {"Dtype"}]}
  \cup (IF Len(g.blocks) > 1
        THEN {[name |-> "drop-block", obs |-> [g EXCEPT !.blocks = Tail(g.blocks)], want |-> {"Keys"}]}
        ELSE {})
  \cup (IF shape # <<>> /\ shape[1] > 0
        THEN {[name |-> "lazy-shape", obs |-> [g EXCEPT !.lshape[1] = @ + 1], want |-> {"LazyShape"}]}
        ELSE {})
  \* a chunks tuple with the right sum but wrong parts: (.., a, b, ..) declared as (.., a+1, b-1, ..)
  \cup UNION {{[name |-> "chunk-parts", want |-> {"BlockShape"},
                obs |-> [g EXCEPT !.chunks[a] = [@ EXCEPT ![j] = @ + 1, ![j + 1] = @ - 1]]]
               : j \in {j \in 1..(Len(chunks[a]) - 1) : chunks[a][j + 1] >= 1}}
              : a \in DOMAIN shape}
  \* one cell of one block differs from the whole
  \cup (IF Size(shape) > 0
        THEN LET b == CHOOSE j \in DOMAIN g.blocks : Len(g.blocks[j].c) > 0
             IN {[name |-> "cell", want |-> {"Reassemble"},
                  obs |-> [g EXCEPT !.blocks[b].c[1] = @ + 1000]]}
        ELSE {})

-----------------------------------------------------------------------------
\* basic indices: "n" None, "i" the integer 0, "j" the integer -1, "f" the full slice,
\* "s" slice(1, None), "e" Ellipsis
Menu == {"n", "i", "j", "f", "s", "e"}
Consuming == {"i", "j", "f", "s"}
Count(ix, S) == Cardinality({p \in DOMAIN ix : ix[p] \in S})
ValidIdx(ix, nd) == Count(ix, {"e"}) <= 1 /\ Count(ix, {"n"}) <= 3 /\ Count(ix, Consuming) <= nd
IdxSeqs(nd) == UNION {{ix \in [1..L -> Menu] : ValidIdx(ix, nd)} : L \in 1..MaxLen}

\* Ellipsis (or the end of the index) stands for the full slices that are missing
Expand(ix, nd) ==
  LET fill == [q \in 1..(nd - Count(ix, Consuming)) |-> "f"]
  IN IF \E p \in DOMAIN ix : ix[p] = "e"
     THEN LET p == CHOOSE p \in DOMAIN ix : ix[p] = "e" IN SubSeq(ix, 1, p - 1) \o fill \o SubSeq(ix, p + 1, Len(ix))
     ELSE ix \o fill

\* shape of x[index]: a new axis of length 1 per None, integers drop their axis
RECURSIVE OutShape(_, _)
OutShape(ex, shape) ==
  IF ex = <<>> THEN <<>>
  ELSE CASE Head(ex) = "n" -> <<1>> \o OutShape(Tail(ex), shape)
         [] Head(ex) \in {"i", "j"} -> OutShape(Tail(ex), Tail(shape))
         [] Head(ex) = "f" -> <<Head(shape)>> \o OutShape(Tail(ex), Tail(shape))
         [] Head(ex) = "s" -> <<IF Head(shape) > 0 THEN Head(shape) - 1 ELSE 0>> \o OutShape(Tail(ex), Tail(shape))

\* start / stop of the slice family: absent, inside, negative, at and beyond the end
SliceBounds(n) == {None, 1, -2, n - 1, n + 1}
\* operations with an explicit dtype; "/s" sequential and "/b" Blelloch scans
Scans    == {"cumsum/s", "cumsum/b", "cumprod/s", "cumprod/b", "nancumsum/s", "nancumprod/b"}
DtypeOps == Scans \cup {"sum", "prod", "mean", "nansum", "astype"}

Init ==
  \/ \E sh \in Shapes : \E ch \in NDChunkings(sh) :
        /\ case = [fam |-> "from_array", shape |-> sh, chunks |-> ch]
        /\ out = ToJson([c |-> case, e |-> Good(sh, ch)])
  \/ \E sh \in IdxShapes : \E ch \in NDChunkings(sh) : \E ix \in IdxSeqs(Len(sh)) :
        /\ case = [fam |-> "index", shape |-> sh, chunks |-> ch, idx |-> ix]
        /\ out = ToJson([c |-> case, e |-> [shape |-> OutShape(Expand(ix, Len(sh)), sh)]])
  \/ \E n \in SliceExtents : \E ch \in Chunkings(n) : \E a \in SliceBounds(n) : \E b \in SliceBounds(n) :
     \E st \in {-3, -2, -1, 1, 2, 3} :
        /\ case = [fam |-> "slice", shape |-> <<n>>, chunks |-> <<ch>>, a |-> a, b |-> b, st |-> st]
        /\ out = ToJson([c |-> case, e |-> [shape |-> <<Len(SliceIdx(n, a, b, st))>>]])
  \/ \E n \in DtypeExtents : \E ch \in Chunkings(n) : \E op \in DtypeOps : \E src \in {"i8", "f8"} :
     \E dst \in {"i4", "i8", "f4", "f8"} :
        /\ case = [fam |-> "dtype", shape |-> <<n>>, chunks |-> <<ch>>, op |-> op, src |-> src, dst |-> dst]
        /\ out = ToJson([c |-> case, e |-> [shape |-> IF op \in Scans \cup {"astype"} THEN <<n>> ELSE <<>>, dt |-> dst]])
Next == UNCHANGED <<case, out>>

\* the observation of a correct implementation satisfies every clause
GoodHolds == case.fam = "from_array" => MetaHolds(Good(case.shape, case.chunks))
\* every corruption is flagged, by exactly the clauses that name it
CorruptionsCaught == case.fam = "from_array" =>
                       \A k \in Corruptions(case.shape, case.chunks) : MetaClauses(k.obs) = k.want
\* the result of a basic index has one axis per None / slice, none per integer
IndexRank == case.fam = "index" =>
               Len(OutShape(Expand(case.idx, Len(case.shape)), case.shape))
                 = Len(case.shape) + Count(case.idx, {"n"}) - Count(case.idx, {"i", "j"})
=============================================================================
