------------------------------ MODULE MapBlocks ------------------------------
(* C35 - what the user function of map_blocks / blockwise is handed, for which
   output block, and what block_id / block_info must say; and apply_gufunc as
   numpy.vectorize.

   Arrays hold element ids: the cell at row-major position p of input array
   number i (1-based) holds  IdBase * (i - 1) + p,  so "the cells a call saw"
   says exactly which part of which input it was handed.  A *view* is what one
   argument of one call looked like:
       [dims |-> lengths of the nested lists around the blocks (<<>> = a bare block),
        blocks |-> the blocks in nesting order, each [shape, cells]]
   A *call* is [bid, args (views), info, ret]:  the output block it computes,
   what it is handed, the block_info it must be given, and the block it returns
   (the recorder of the harness returns a block that is a fixed function of
   what it saw, so the computed array also tells which call produced which key).

   Block alignment itself (OutBlocks, ArgBlocks, Reps: one-block axes broadcast,
   output indices take the output coordinate, contracted indices take all
   blocks) is the definition of module Blockwise (C10).                        *)
EXTENDS Broadcast, TLC

BW == INSTANCE Blockwise

IdBase == 100
None == 99

RangeOf(s) == {s[i] : i \in DOMAIN s}
MaxOfSet(S) == CHOOSE m \in S : \A x \in S : x <= m
MinOfSet(S) == CHOOSE m \in S : \A x \in S : m <= x

\* ---------------------------------------------------------------- geometry of chunked arrays
NBlocks(chunks) == [d \in DOMAIN chunks |-> Len(chunks[d])]
ShapeOf(chunks) == [d \in DOMAIN chunks |-> SumSeq(chunks[d])]
\* region of block bc (0-based coordinates): per axis <<start, stop>>
BlockRegion(chunks, bc) ==
  [d \in DOMAIN chunks |-> <<Offset(chunks[d], bc[d] + 1), Offset(chunks[d], bc[d] + 1) + chunks[d][bc[d] + 1]>>]
RegShape(reg) == [d \in DOMAIN reg |-> reg[d][2] - reg[d][1]]
\* ids of the cells of region reg of input number i with the given shape, row-major
RegCells(i, shape, reg) ==
  LET rs == RegShape(reg) IN
  [p \in 1..Size(rs) |->
     IdBase * (i - 1) + Ravel(shape, [d \in DOMAIN reg |-> reg[d][1] + Unravel(rs, p - 1)[d]])]
Block(i, shape, reg) == [shape |-> RegShape(reg), cells |-> RegCells(i, shape, reg)]
Bare(b) == [dims |-> <<>>, blocks |-> <<b>>]

\* all block coordinates, row-major (0-based)
Coords(nbs) == LET c == Cart(nbs) IN [k \in DOMAIN c |-> [d \in DOMAIN c[k] |-> c[k][d] - 1]]

\* ================================================================ map_blocks
(* case = [fam |-> "mb", arrs (sequence of [shape, chunks]), drop, newax (0-based axis numbers,
           ascending), nsz (size of a new axis), chk ("none" | "same" | "first"), dom, kw]
   Arrays are aligned like NumPy operands: by their trailing axes.  A "full axis" f in 1..nd
   (nd = largest rank) is axis  f - (nd - rank)  of an array that has it.                    *)
ND(a)             == Len(a.shape)
MaxND(arrs)       == MaxOfSet({ND(arrs[i]) : i \in DOMAIN arrs})
Own(a, nd, f)     == f - (nd - ND(a))
Has(a, nd, f)     == Own(a, nd, f) >= 1
NBAt(a, nd, f)    == IF Has(a, nd, f) THEN Len(a.chunks[Own(a, nd, f)]) ELSE 1
FullNB(arrs, f)   == MaxOfSet({NBAt(arrs[i], MaxND(arrs), f) : i \in DOMAIN arrs})
\* numbers of blocks must agree up to broadcasting of one-block axes
MbCompatible(arrs) ==
  \A f \in 1..MaxND(arrs) : \A i \in DOMAIN arrs : NBAt(arrs[i], MaxND(arrs), f) \in {1, FullNB(arrs, f)}
\* the argument whose chunks define the output along full axis f: the first with the most blocks
Definer(arrs, f) ==
  MinOfSet({i \in DOMAIN arrs : Has(arrs[i], MaxND(arrs), f) /\ NBAt(arrs[i], MaxND(arrs), f) = FullNB(arrs, f)})

\* output axes: kept full axes, then new axes inserted one by one (ascending) at their position
RECURSIVE InsertNew(_, _)
InsertNew(axes, newax) ==
  IF Len(newax) = 0 THEN axes
  ELSE LET p == Head(newax) IN
       InsertNew(SubSeq(axes, 1, p) \o <<[t |-> "n", f |-> 0]>> \o SubSeq(axes, p + 1, Len(axes)), Tail(newax))
KeptAxes(c) == LET nd == MaxND(c.arrs) IN
               SelectSeq([f \in 1..nd |-> [t |-> "k", f |-> f]], LAMBDA x : (x.f - 1) \notin RangeOf(c.drop))
OutAxes(c)  == InsertNew(KeptAxes(c), c.newax)
PosOfFull(axes, f) == CHOOSE p \in DOMAIN axes : axes[p].t = "k" /\ axes[p].f = f

MbValid(c) ==
  LET nd == MaxND(c.arrs) IN
  /\ MbCompatible(c.arrs)
  /\ ND(c.arrs[c.dom]) = nd
  /\ \A f \in 1..nd : NBAt(c.arrs[c.dom], nd, f) = FullNB(c.arrs, f)
  \* the recorder derives its result from argument dom: it must be the one whose chunks the metadata follows
  /\ \A f \in 1..nd : (f - 1) \notin RangeOf(c.drop) =>
        c.arrs[Definer(c.arrs, f)].chunks[Own(c.arrs[Definer(c.arrs, f)], nd, f)] = c.arrs[c.dom].chunks[f]
  /\ RangeOf(c.drop) \subseteq 0..(nd - 1)
  /\ \A k \in DOMAIN c.newax : c.newax[k] <= Len(KeptAxes(c)) + k - 1
  /\ (c.chk = "none" => c.nsz = 1)
  \* "first" (the function keeps one cell per axis) needs blocks that have a cell
  /\ (c.chk = "first" => \A d \in DOMAIN c.arrs[c.dom].chunks : \A k \in DOMAIN c.arrs[c.dom].chunks[d] : c.arrs[c.dom].chunks[d][k] > 0)
  /\ \A i \in DOMAIN c.arrs : \A d \in DOMAIN c.arrs[i].shape : c.arrs[i].shape[d] = SumSeq(c.arrs[i].chunks[d])

MbOutNB(c) == LET ax == OutAxes(c) IN
              [p \in DOMAIN ax |-> IF ax[p].t = "k" THEN FullNB(c.arrs, ax[p].f) ELSE 1]

\* region of argument i that the call for output block bc is handed
MbArgRegion(c, i, bc) ==
  LET a == c.arrs[i]  nd == MaxND(c.arrs)  ax == OutAxes(c) IN
  [o \in DOMAIN a.shape |->
     LET f == o + (nd - ND(a)) IN
     IF (f - 1) \in RangeOf(c.drop) THEN <<0, a.shape[o]>>                 \* concatenated along dropped axes
     ELSE IF Len(a.chunks[o]) = 1 THEN <<0, a.shape[o]>>                    \* one block: broadcast
     ELSE LET b == bc[PosOfFull(ax, f)] IN
          <<Offset(a.chunks[o], b + 1), Offset(a.chunks[o], b + 1) + a.chunks[o][b + 1]>>]

\* chunk-location of argument i for output block bc
MbArgLoc(c, i, bc) ==
  LET a == c.arrs[i]  nd == MaxND(c.arrs)  ax == OutAxes(c) IN
  [o \in DOMAIN a.shape |->
     LET f == o + (nd - ND(a)) IN
     IF (f - 1) \in RangeOf(c.drop) \/ Len(a.chunks[o]) = 1 THEN 0 ELSE bc[PosOfFull(ax, f)]]

\* the block the recorder returns: of argument dom, the first cell along dropped axes (= the minimum),
\* new axes of size nsz, and with chk = "first" only the first cell along every axis
MbRet(c, bc) ==
  LET a   == c.arrs[c.dom]
      reg == MbArgRegion(c, c.dom, bc)
      ax  == OutAxes(c)
      rs  == [p \in DOMAIN ax |-> IF c.chk = "first" THEN 1
                                  ELSE IF ax[p].t = "n" THEN c.nsz
                                  ELSE reg[ax[p].f][2] - reg[ax[p].f][1]]
      src(ix) == [o \in DOMAIN a.shape |->
                    IF (o - 1) \in RangeOf(c.drop) THEN reg[o][1]
                    ELSE reg[o][1] + ix[PosOfFull(ax, o)]]
  IN [shape |-> rs,
      cells |-> [p \in 1..Size(rs) |-> IdBase * (c.dom - 1) + Ravel(a.shape, src(Unravel(rs, p - 1)))]]

MbCall(c, bc) ==
  [bid  |-> bc,
   args |-> [i \in DOMAIN c.arrs |-> Bare(Block(i, c.arrs[i].shape, MbArgRegion(c, i, bc)))],
   locs |-> [i \in DOMAIN c.arrs |-> MbArgLoc(c, i, bc)],
   regs |-> [i \in DOMAIN c.arrs |-> MbArgRegion(c, i, bc)],
   ret  |-> MbRet(c, bc)]

MbExpect(c) ==
  IF ~MbValid(c) THEN [ok |-> FALSE, soft |-> FALSE, calls |-> <<>>, onb |-> <<>>]
  ELSE LET cs == Coords(MbOutNB(c)) IN
       [ok |-> TRUE, soft |-> FALSE, onb |-> MbOutNB(c), calls |-> [k \in DOMAIN cs |-> MbCall(c, cs[k])]]

\* ================================================================ blockwise (index strings)
(* case = [fam |-> "bw", arrs, inds (one index string per array), oi, conc, nax (sequence of
           [ix, sz]), adj (indices whose chunk sizes the function changes), adjk (how: see AdjSize)]
   Alignment is Blockwise!ArgBlocks on the layer below.                                    *)
BwLayer(c) ==
  [out |-> "o", oi |-> c.oi, conc |-> c.conc,
   nax |-> [q \in DOMAIN c.nax |-> [ix |-> c.nax[q].ix, n |-> 1]],
   args |-> [i \in DOMAIN c.arrs |-> [k |-> "coll", name |-> "a", ind |-> c.inds[i], nb |-> NBlocks(c.arrs[i].chunks),
                                     v |-> 0, sp |-> ""]]]

\* chunk sizes along index ix as far as the arguments say: those of the first argument with the most blocks
BwDefiner(c, ix) ==
  LET L == BwLayer(c)
      cands == {<<i, q>> \in (DOMAIN c.arrs) \X (1..4) :
                  q \in DOMAIN c.inds[i] /\ c.inds[i][q] = ix /\ Len(c.arrs[i].chunks[q]) = BW!DimOf(L, ix)}
      i0 == MinOfSet({x[1] : x \in cands})
      q0 == MinOfSet({x[2] : x \in {y \in cands : y[1] = i0}})
  IN c.arrs[i0].chunks[q0]

BwValid(c) ==
  LET L == BwLayer(c) IN
  /\ BW!LayerOK(L)
  /\ \A i \in DOMAIN c.arrs : /\ Len(c.inds[i]) = ND(c.arrs[i])
                              /\ \A d \in DOMAIN c.arrs[i].shape : c.arrs[i].shape[d] = SumSeq(c.arrs[i].chunks[d])
  \* arguments that share an index agree on its chunks unless they have one block there (align_arrays=False)
  /\ \A i \in DOMAIN c.arrs : \A q \in DOMAIN c.inds[i] :
        Len(c.arrs[i].chunks[q]) > 1 => c.arrs[i].chunks[q] = BwDefiner(c, c.inds[i][q])
  /\ RangeOf(c.adj) \subseteq RangeOf(c.oi)

\* region of argument i that belongs to its block pc
BwView(c, i, bc) ==
  LET L == BwLayer(c)  a == L.args[i]  arr == c.arrs[i]
      dummyax == {q \in DOMAIN a.ind : a.ind[q] \notin RangeOf(L.oi)}
  IN IF dummyax = {} \/ c.conc
     THEN \* one block, or the concatenation of all blocks along the contracted axes
          Bare(Block(i, arr.shape,
                     [q \in DOMAIN a.ind |->
                        IF q \in dummyax THEN <<0, arr.shape[q]>>
                        ELSE LET b == IF a.nb[q] = 1 THEN 0 ELSE BW!CoordOf(L, bc, a.ind[q]) IN
                             BlockRegion(arr.chunks, [z \in DOMAIN a.ind |-> IF z = q THEN b ELSE 0])[q]]))
     ELSE \* nested lists, one level per contracted axis in axis order, Reps entries each
          LET dax  == SetToSortSeq(dummyax, <)
              reps == [k \in DOMAIN dax |-> BW!Reps(L, a, dax[k])]
              ks   == Coords(reps)
              coord(q, kk) == IF a.nb[q] = 1 THEN 0
                              ELSE IF q \in dummyax THEN kk[CHOOSE k \in DOMAIN dax : dax[k] = q]
                              ELSE BW!CoordOf(L, bc, a.ind[q])
          IN [dims |-> reps,
              blocks |-> [k \in DOMAIN ks |->
                            Block(i, arr.shape, BlockRegion(arr.chunks, [q \in DOMAIN a.ind |-> coord(q, ks[k])]))]]

\* every cell id a view contains
ViewCells(v) == UNION {RangeOf(v.blocks[k].cells) : k \in DOMAIN v.blocks}
ViewMin(v)   == IF ViewCells(v) = {} THEN 0 ELSE MinOfSet(ViewCells(v))

\* the recorder fills its result block with  sum_i ViewMin(arg i) * 1000^(i-1)... kept small: 2 arguments at most
BwTag(views) == IF Len(views) = 1 THEN ViewMin(views[1]) ELSE ViewMin(views[1]) * 1000 + ViewMin(views[2])

\* size of output block bc along output axis p, before adjust_chunks doubling
BwBlockSize(c, bc, p) ==
  LET ix == c.oi[p]
      nw == {q \in DOMAIN c.nax : c.nax[q].ix = ix}
  IN IF nw # {} THEN c.nax[CHOOSE q \in nw : TRUE].sz
     ELSE BwDefiner(c, ix)[bc[p] + 1]

\* adjust_chunks: "dbl" a callable n -> 2n, "int3" the integer 3 (every block gets that size),
\* "inc" an explicit tuple (each block one larger); the recorder returns blocks of exactly these sizes
AdjSize(kind, b) == CASE kind = "dbl" -> 2 * b [] kind = "int3" -> 3 [] kind = "inc" -> b + 1

BwCall(c, bc) ==
  LET views == [i \in DOMAIN c.arrs |-> BwView(c, i, bc)]
      shp   == [p \in DOMAIN c.oi |-> IF c.oi[p] \in RangeOf(c.adj) THEN AdjSize(c.adjk, BwBlockSize(c, bc, p))
                                       ELSE BwBlockSize(c, bc, p)]
  IN [bid |-> bc, args |-> views,
      ret |-> [shape |-> shp, cells |-> [p \in 1..Size(shp) |-> BwTag(views)]]]

BwExpect(c) ==
  IF ~BwValid(c) THEN [ok |-> FALSE, soft |-> FALSE, calls |-> <<>>, onb |-> <<>>]
  ELSE LET onb == BW!OutNB(BwLayer(c))
           cs  == Coords(onb) IN
       [ok |-> TRUE, soft |-> FALSE, onb |-> onb, calls |-> [k \in DOMAIN cs |-> BwCall(c, cs[k])]]

\* ================================================================ apply_gufunc = numpy.vectorize
(* case = [fam |-> "gu", sig, arrs, K, vec, rechunk].  The signature menu and the core functions
   (the harness passes exactly these functions):
     s1  ()->()          f(x)    = x + 1
     s2  (i)->()         f(v)    = sum_k (k + 1) * v[k]
     s3  (i),(i)->()     f(v, w) = sum_k v[k] * w[k]
     s4  (i,j),(j)->(i)  f(A, b) = [sum_j A[i, j] * b[j]]_i
     s5  ()->(k)         f(x)    = [10 * x + k]_k,  k < K          (output_sizes = {k: K})
     s6  (i)->(i),()     f(v)    = ([2 * v[k] + k]_k, sum_k v[k])
   Loop dimensions (the leading ones) broadcast like NumPy operands.                          *)
NCore(sig) == CASE sig = "s1" -> <<0>> [] sig = "s2" -> <<1>> [] sig = "s3" -> <<1, 1>>
                [] sig = "s4" -> <<2, 1>> [] sig = "s5" -> <<0>> [] sig = "s6" -> <<1>>
LoopShp(a, nc) == SubSeq(a.shape, 1, ND(a) - nc)
CoreShp(a, nc) == SubSeq(a.shape, ND(a) - nc + 1, ND(a))
ElemAt(i, a, ix) == IdBase * (i - 1) + Ravel(a.shape, ix)

SumTo(n, F(_)) == SumSeq([k \in 1..n |-> F(k - 1)])      \* sum_{k < n} F(k)

GuShapesOK(c) ==
  LET nc == NCore(c.sig) IN
  /\ Len(c.arrs) = Len(nc)
  /\ \A i \in DOMAIN c.arrs : /\ ND(c.arrs[i]) >= nc[i]
                              /\ \A d \in DOMAIN c.arrs[i].shape : c.arrs[i].shape[d] = SumSeq(c.arrs[i].chunks[d])
  /\ BroadcastOK([i \in DOMAIN c.arrs |-> LoopShp(c.arrs[i], nc[i])])
  /\ (c.sig = "s3" => CoreShp(c.arrs[1], 1) = CoreShp(c.arrs[2], 1))
  /\ (c.sig = "s4" => CoreShp(c.arrs[1], 2)[2] = CoreShp(c.arrs[2], 1)[1])

\* without allow_rechunk dask documents two preconditions: core dimensions are single chunks, and
\* loop dimensions of extent > 1 are chunked alike in all arguments
GuChunksOK(c) ==
  LET nc == NCore(c.sig)
      ml == MaxOfSet({ND(c.arrs[i]) - nc[i] : i \in DOMAIN c.arrs})
      \* loop axis l (1..ml, right-aligned) of argument i, or 0
      lax(i, l) == l - (ml - (ND(c.arrs[i]) - nc[i]))
  IN c.rechunk \/
     /\ \A i \in DOMAIN c.arrs : \A d \in (ND(c.arrs[i]) - nc[i] + 1)..ND(c.arrs[i]) : Len(c.arrs[i].chunks[d]) = 1
     /\ \A l \in 1..ml : \A i, j \in DOMAIN c.arrs :
           (lax(i, l) >= 1 /\ lax(j, l) >= 1 /\ c.arrs[i].shape[lax(i, l)] > 1 /\ c.arrs[j].shape[lax(j, l)] > 1)
              => c.arrs[i].chunks[lax(i, l)] = c.arrs[j].chunks[lax(j, l)]

GuOuts(c) ==
  LET nc  == NCore(c.sig)
      lsh == BroadcastShape([i \in DOMAIN c.arrs |-> LoopShp(c.arrs[i], nc[i])])
      \* index of argument i for loop index l and core index k
      aix(i, l, k) == ProjectIx(LoopShp(c.arrs[i], nc[i]), l) \o k
      X(i, l, k) == ElemAt(i, c.arrs[i], aix(i, l, k))
      mk(shape, V(_)) == [shape |-> shape, cells |-> [p \in 1..Size(shape) |-> V(Unravel(shape, p - 1))]]
      lp(ix) == SubSeq(ix, 1, Len(lsh))
      n1 == IF nc[1] >= 1 THEN c.arrs[1].shape[ND(c.arrs[1])] ELSE 0      \* extent of the last core dim of argument 1
  IN CASE c.sig = "s1" -> << mk(lsh, LAMBDA ix : X(1, ix, <<>>) + 1) >>
       [] c.sig = "s2" -> << mk(lsh, LAMBDA ix : SumTo(n1, LAMBDA k : (k + 1) * X(1, ix, <<k>>))) >>
       [] c.sig = "s3" -> << mk(lsh, LAMBDA ix : SumTo(n1, LAMBDA k : X(1, ix, <<k>>) * X(2, ix, <<k>>))) >>
       [] c.sig = "s4" -> LET ni == c.arrs[1].shape[ND(c.arrs[1]) - 1] IN
                          << mk(lsh \o <<ni>>, LAMBDA ix : SumTo(n1, LAMBDA j : X(1, lp(ix), <<ix[Len(ix)], j>>) * X(2, lp(ix), <<j>>))) >>
       [] c.sig = "s5" -> << mk(lsh \o <<c.K>>, LAMBDA ix : 10 * X(1, lp(ix), <<>>) + ix[Len(ix)]) >>
       [] c.sig = "s6" -> << mk(lsh \o <<n1>>, LAMBDA ix : 2 * X(1, lp(ix), <<ix[Len(ix)]>>) + ix[Len(ix)]),
                             mk(lsh, LAMBDA ix : SumTo(n1, LAMBDA k : X(1, ix, <<k>>))) >>

\* ok: inside the documented domain.  soft: only the documented chunking precondition is violated - dask
\* may refuse the call, but if it answers, the answer must still be numpy.vectorize's.
GuExpect(c) ==
  IF ~GuShapesOK(c) THEN [ok |-> FALSE, soft |-> FALSE, outs |-> <<>>]
  ELSE [ok |-> GuChunksOK(c), soft |-> ~GuChunksOK(c), outs |-> GuOuts(c)]

Expect(c) == CASE c.fam = "mb" -> MbExpect(c)
               [] c.fam = "bw" -> BwExpect(c)
               [] c.fam = "gu" -> GuExpect(c)
=============================================================================
