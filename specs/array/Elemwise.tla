------------------------------ MODULE Elemwise ------------------------------
(* C19 - reference semantics of NumPy broadcasting and elementwise operations.

   An operand is a record
       [f  : "d" dask array | "n" NumPy array | "s" Python scalar | "-" absent
        k  : dtype kind  b u i f c   (bool, uint8, int64, float64, complex128;
                                       for "s": the Python type bool/int/float/complex)
        sh : shape (<<>> for 0-d and for scalars)
        v  : cells, row-major, small integers
        ch : chunks (only "d"; irrelevant to the result - that is the property) ]
   Cells are integers whatever the kind: bool cells are 0/1, float and complex
   cells hold integral values (complex: imaginary part 0), uint8 wraps mod 256.
   The harness derives the cells from element ids (ElemwiseMC), so a result cell
   says which operand cells were combined.

   Kernel-mode operations (names k_...): division-like and multi-output ufuncs
   on operands that contain zeros, negative numbers, inf and nan.  What NumPy's
   scalar kernel makes of two numbers is left *uninterpreted*: a result cell is
   the term <<"K", a, b>> (<<"K", a>> for unary ones) naming the operand cells
   the kernel is applied to (INF / NINF / NAN are codes for the float values);
   the specification decides only what dask adds - which cells meet at which
   position, which of the outputs is returned, the dtype kind, the error.

   Every operator returns  [err, shape, kind, cells]:  err = TRUE when NumPy
   raises (then any exception of the implementation is accepted).  A cell equal
   to DC is a don't-care (ufunc where= without out= leaves it uninitialised);
   a true-division cell is the exact rational <<num, den>>.                   *)
EXTENDS Broadcast, TLC, Json

DC  == 99999
Err == [err |-> TRUE, shape |-> <<>>, kind |-> "", cells |-> <<>>]

Absent == [f |-> "-", k |-> "b", sh |-> <<>>, v |-> <<>>, ch |-> <<>>]
Present(x) == x.f # "-"
IsWeak(x)  == x.f = "s"

SelKinds(xs, weak) ==
  LET idx == SelectSeq([j \in DOMAIN xs |-> j], LAMBDA j : Present(xs[j]) /\ (IsWeak(xs[j]) = weak))
  IN [j \in DOMAIN idx |-> xs[idx[j]].k]

\* np.result_type of the operands (arrays strong, Python scalars weak)
KindOf(xs) == ResultKind(SelKinds(xs, FALSE), SelKinds(xs, TRUE))

ShapesOf(xs) ==
  LET idx == SelectSeq([j \in DOMAIN xs |-> j], LAMBDA j : Present(xs[j]))
  IN [j \in DOMAIN idx |-> xs[idx[j]].sh]

\* value of the integer v stored in / cast to kind k
Cast(k, v) == CASE k = "b" -> (IF v # 0 THEN 1 ELSE 0)
                [] k = "u" -> v % 256
                [] OTHER   -> v

-----------------------------------------------------------------------------
BinOps   == {"add", "sub", "mul", "floordiv", "mod", "min", "max",
             "eq", "ne", "lt", "le", "gt", "ge", "and", "or", "xor", "truediv"}
CmpOps   == {"eq", "ne", "lt", "le", "gt", "ge"}
DivOps   == {"floordiv", "mod", "truediv"}
BitOps   == {"and", "or", "xor"}
UnOps    == {"neg", "abs", "square", "lnot"}
KBinOps  == {"k_floordiv", "k_mod", "k_truediv", "k_fmod", "k_power", "k_divmod0", "k_divmod1"}
KUnOps   == {"k_modf0", "k_modf1", "k_frexp0", "k_frexp1"}
KOps     == KBinOps \cup KUnOps
INF == 70001   NINF == 70002   NAN == 70003     \* codes of float cells (kernel mode only)

\* result kind of op on operands whose promoted kind is p; "E" = TypeError
OpKind(op, p) ==
  CASE op \in CmpOps                 -> "b"
    [] op = "lnot"                   -> "b"
    [] op \in {"truediv", "k_truediv"} -> (IF p = "c" THEN "c" ELSE "f")
    [] op \in {"k_floordiv", "k_mod", "k_fmod", "k_divmod0", "k_divmod1"}
                                     -> (IF p = "c" THEN "E" ELSE IF p = "b" THEN "i" ELSE p)
    [] op = "k_power"                -> (IF p = "b" THEN "i" ELSE p)
    [] op \in {"k_modf0", "k_modf1", "k_frexp0"} -> (IF p = "c" THEN "E" ELSE "f")
    [] op = "k_frexp1"               -> (IF p = "c" THEN "E" ELSE "i")
    [] op \in {"floordiv", "mod"}    -> (IF p = "c" THEN "E" ELSE IF p = "b" THEN "i" ELSE p)
    [] op = "sub"                    -> (IF p = "b" THEN "E" ELSE p)
    [] op = "neg"                    -> (IF p = "b" THEN "E" ELSE p)
    [] op \in BitOps                 -> (IF p \in {"f", "c"} THEN "E" ELSE p)
    [] op = "abs"                    -> (IF p = "c" THEN "f" ELSE p)
    [] op = "square"                 -> (IF p = "b" THEN "i" ELSE p)
    [] OTHER                         -> p        \* add mul min max

B2I(c) == IF c THEN 1 ELSE 0

RECURSIVE BitAnd(_, _), BitOr(_, _), BitXor(_, _)      \* on naturals
BitAnd(a, b) == IF a = 0 \/ b = 0 THEN 0 ELSE ((a % 2) * (b % 2)) + (2 * BitAnd(a \div 2, b \div 2))
BitOr(a, b)  == IF a = 0 THEN b ELSE IF b = 0 THEN a
                ELSE (IF ((a % 2) + (b % 2)) > 0 THEN 1 ELSE 0) + (2 * BitOr(a \div 2, b \div 2))
BitXor(a, b) == IF a = 0 THEN b ELSE IF b = 0 THEN a
                ELSE (((a % 2) + (b % 2)) % 2) + (2 * BitXor(a \div 2, b \div 2))

\* one cell; rk = result kind.  Divisors are non-zero (the case spaces see to it).
BinVal(op, a, b, rk) ==
  CASE op = "add"      -> Cast(rk, a + b)
    [] op = "sub"      -> Cast(rk, a - b)
    [] op = "mul"      -> Cast(rk, a * b)
    [] op = "floordiv" -> (IF b > 0 THEN a \div b ELSE (-a) \div (-b))
    [] op = "mod"      -> (IF b > 0 THEN a % b ELSE -((-a) % (-b)))
    [] op = "min"      -> (IF a <= b THEN a ELSE b)
    [] op = "max"      -> (IF a >= b THEN a ELSE b)
    [] op = "eq"       -> B2I(a = b)
    [] op = "ne"       -> B2I(a # b)
    [] op = "lt"       -> B2I(a < b)
    [] op = "le"       -> B2I(a <= b)
    [] op = "gt"       -> B2I(a > b)
    [] op = "ge"       -> B2I(a >= b)
    [] op = "and"      -> BitAnd(a, b)
    [] op = "or"       -> BitOr(a, b)
    [] op = "xor"      -> BitXor(a, b)
    [] op = "truediv"  -> <<a, b>>
    [] op \in KBinOps  -> <<"K", a, b>>

UnVal(op, a, rk) ==
  CASE op = "neg"    -> Cast(rk, -a)
    [] op = "abs"    -> (IF a < 0 THEN -a ELSE a)
    [] op = "square" -> Cast(rk, a * a)
    [] op = "lnot"   -> B2I(a = 0)
    [] op \in KUnOps -> <<"K", a>>

-----------------------------------------------------------------------------
\* x op y  /  ufunc(x, y)
Binary(op, x, y) ==
  LET shapes == <<x.sh, y.sh>>
      rk     == OpKind(op, KindOf(<<x, y>>))
  IN IF ~BroadcastOK(shapes) \/ rk = "E" THEN Err
     ELSE LET osh == BroadcastShape(shapes)
              xa  == BroadcastTo(x.sh, x.v, osh)
              ya  == BroadcastTo(y.sh, y.v, osh)
          IN \* "Integers to negative integer powers are not allowed" (checked per element)
             IF op = "k_power" /\ rk = "i" /\ y.k = "i" /\ \E j \in DOMAIN ya : ya[j] < 0 THEN Err
             ELSE [err |-> FALSE, shape |-> osh, kind |-> rk,
                   cells |-> [j \in 1..Size(osh) |-> BinVal(op, xa[j], ya[j], rk)]]

Unary(op, x) ==
  LET rk == OpKind(op, KindOf(<<x>>))
  IN IF rk = "E" THEN Err
     ELSE [err |-> FALSE, shape |-> x.sh, kind |-> rk,
           cells |-> [j \in DOMAIN x.v |-> UnVal(op, x.v[j], rk)]]

\* where(c, x, y)
Where(c, x, y) ==
  LET shapes == <<c.sh, x.sh, y.sh>>
      rk     == KindOf(<<x, y>>)
  IN IF ~BroadcastOK(shapes) THEN Err
     ELSE LET osh == BroadcastShape(shapes)
              ca  == BroadcastTo(c.sh, c.v, osh)
              xa  == BroadcastTo(x.sh, x.v, osh)
              ya  == BroadcastTo(y.sh, y.v, osh)
          IN [err |-> FALSE, shape |-> osh, kind |-> rk,
              cells |-> [j \in 1..Size(osh) |-> Cast(rk, IF ca[j] # 0 THEN xa[j] ELSE ya[j])]]

\* clip(x, lo, hi); lo and hi may be Absent (None)
Clip(x, lo, hi) ==
  LET ops    == <<x, lo, hi>>
      shapes == ShapesOf(ops)
      rk     == KindOf(ops)
  IN IF ~BroadcastOK(shapes) THEN Err
     ELSE LET osh == BroadcastShape(shapes)
              xa  == BroadcastTo(x.sh, x.v, osh)
              la  == IF Present(lo) THEN BroadcastTo(lo.sh, lo.v, osh) ELSE xa
              ha  == IF Present(hi) THEN BroadcastTo(hi.sh, hi.v, osh) ELSE xa
              mx(a, b) == IF a >= b THEN a ELSE b
              mn(a, b) == IF a <= b THEN a ELSE b
          IN [err |-> FALSE, shape |-> osh, kind |-> rk,
              cells |-> [j \in 1..Size(osh) |->
                           LET lowered == IF Present(lo) THEN mx(xa[j], la[j]) ELSE xa[j]
                           IN IF Present(hi) THEN mn(lowered, ha[j]) ELSE lowered]]

\* x.astype(k)
Astype(x, k) == [err |-> FALSE, shape |-> x.sh, kind |-> k,
                 cells |-> [j \in DOMAIN x.v |-> Cast(k, x.v[j])]]

\* ufunc(x, y, out=o, where=w); o, w may be Absent.  The result has the kind of
\* out; cells where w is false keep out's value (don't-care without out); the
\* mask array must be boolean (NumPy casts where= with the rule 'safe'; a Python
\* scalar is taken by its truth value).
OutWhere(op, x, y, o, w) ==
  LET shapes == ShapesOf(<<x, y, w, o>>)
      rk     == OpKind(op, KindOf(<<x, y>>))
  IN IF ~BroadcastOK(shapes) \/ rk = "E" \/ (Present(w) /\ w.k # "b" /\ w.f # "s") THEN Err
     ELSE LET osh == BroadcastShape(shapes) IN
     IF Present(o) /\ (o.sh # osh \/ ~CanCastSameKind(rk, o.k)) THEN Err
     ELSE LET xa == BroadcastTo(x.sh, x.v, osh)
              ya == BroadcastTo(y.sh, y.v, osh)
              wa == IF Present(w) THEN BroadcastTo(w.sh, w.v, osh) ELSE [j \in 1..Size(osh) |-> 1]
              k  == IF Present(o) THEN o.k ELSE rk
          IN [err |-> FALSE, shape |-> osh, kind |-> k,
              cells |-> [j \in 1..Size(osh) |->
                           IF wa[j] # 0 THEN Cast(k, BinVal(op, xa[j], ya[j], rk))
                           ELSE IF Present(o) THEN o.v[j] ELSE DC]]

\* the expected result of a call record / case  [fam, op, xs, (k)]
Expected(c) ==
  CASE c.fam = "binary"   -> Binary(c.op, c.xs[1], c.xs[2])
    [] c.fam = "unary"    -> Unary(c.op, c.xs[1])
    [] c.fam = "where"    -> Where(c.xs[1], c.xs[2], c.xs[3])
    [] c.fam = "clip"     -> Clip(c.xs[1], c.xs[2], c.xs[3])
    [] c.fam = "astype"   -> Astype(c.xs[1], c.op)
    [] c.fam = "outwhere" -> OutWhere(c.op, c.xs[1], c.xs[2], c.xs[3], c.xs[4])
=============================================================================
