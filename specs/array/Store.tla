------------------------------- MODULE Store -------------------------------
(* C29 - dask.array.store (dask/array/core.py: store, load_store_chunk, load_chunk)
   and the npy stack (to_npy_stack / from_npy_stack).

   A store CALL is a record
       [tshape |-> <<shape of target 1, shape of target 2, ...>>,
        src    |-> << [shape, chunks, tgt, start, step, base, per], ... >>]
   source q (an array of shape `shape` cut into `chunks`) is written into target
   number `tgt`, region  start[d] + step[d] * i  along every axis d  (the Python
   region slice(start, ., step); no region = start 0, step 1).  Cells hold element
   ids: the cell of source q at 0-based index tuple g holds
       base + (Ravel(shape, g) % per) + 1    (positive; the harness gives different sources disjoint id
                                              ranges - the same range twice = the same array stored twice;
                                              per < Size(shape) makes the content periodic, so that one
                                              array can be stored into overlapping regions with equal content),
   target cells start as 0 ("untouched").  Positions in a target are 1-based
   row-major ravel positions.

   GEOMETRY.   store() turns every block of every source into one task
   (load_store_chunk) which writes  Block(q, bt)  at  RegionOffset + BlockOffset:
   BlockWrite(call, q, bt) gives the target, the positions and the values of that
   write.  Expected(call, t) is the content target t must have in the end.

   STATE (a record, so that the state machine StoreMC and the trace validator
   StoreTrace share one definition):
       tg      tg[t][p]  the cells of target t
       wn      wn[t][p]  how many writes of cell p of target t have completed
       wr      the set of cells <<t, p>> whose write has completed
       fl      the writes in flight (entered __setitem__, not yet left it)
       hold    who holds the lock (0 = nobody)
   A write w = [who, t, pos, val] is judged cell by cell - the property promises
   where every element lands and that writes exclude each other when a lock is in
   force; it does not promise how many __setitem__ calls are used, so the clauses
   below never mention blocks.  StoreMC (implementation-shaped) issues exactly one
   write per block, which is what the code does.

   Lock modes:  "none" lock=False;  "auto" lock=True (dask builds one lock for the
   whole call; it cannot be observed, only its effect can);  "user" a Lock object
   passed by the caller (acquire/release are observed).                          *)
EXTENDS IndexMaps, TLC

Cl(name, holds) == IF holds THEN {} ELSE {name}

NSrc(call) == Len(call.src)
NTgt(call) == Len(call.tshape)
Base(call, q) == call.src[q].base

----------------------------------------------------------------------------
(* geometry *)
NumBlocks(sr)   == [d \in DOMAIN sr.chunks |-> Len(sr.chunks[d])]
BlockTuples(sr) == Cart(NumBlocks(sr))            \* 1-based block index tuples, row-major

\* 0-based source index tuples of block bt, row-major inside the block
BlockIdx(sr, bt) ==
  LET ext == [d \in DOMAIN bt |-> sr.chunks[d][bt[d]]]
      loc == Idx0(ext)
  IN [j \in DOMAIN loc |-> [d \in DOMAIN bt |-> Offset(sr.chunks[d], bt[d]) + loc[j][d]]]

\* target index tuple / target position (1-based ravel) of source index tuple g: region[g]
TIndex(sr, g)     == [d \in DOMAIN g |-> sr.start[d] + sr.step[d] * g[d]]
TPos(call, sr, g) == Ravel(call.tshape[sr.tgt], TIndex(sr, g)) + 1
SVal(call, q, g)  == Base(call, q) + (Ravel(call.src[q].shape, g) % call.src[q].per) + 1
SourceCells(call, q) == [j \in 1..Size(call.src[q].shape) |-> Base(call, q) + ((j - 1) % call.src[q].per) + 1]

\* StoreBlock(q, bt):  out[fuse_slice(region, index)] = x
BlockWrite(call, q, bt) ==
  LET sr == call.src[q]
      gs == BlockIdx(sr, bt)
  IN [t |-> sr.tgt, pos |-> [j \in DOMAIN gs |-> TPos(call, sr, gs[j])],
      val |-> [j \in DOMAIN gs |-> SVal(call, q, gs[j])]]

\* every block task of the call: sources in order, blocks row-major
AllBlocks(call) ==
  FlattenSeq([q \in 1..NSrc(call) |->
     LET bts == BlockTuples(call.src[q])
     IN [j \in DOMAIN bts |-> [q |-> q, bt |-> bts[j]] @@ BlockWrite(call, q, bts[j])]])

SrcCells(call, q) ==
  LET sr == call.src[q]
      gs == Idx0(sr.shape)
  IN { <<TPos(call, sr, gs[j]), SVal(call, q, gs[j])>> : j \in DOMAIN gs }
TgtPairs(call, t) == UNION { SrcCells(call, q) : q \in { u \in 1..NSrc(call) : call.src[u].tgt = t } }

\* what target t must hold when the call is over: target[region] = source, the rest untouched
Expected(call, t) ==
  LET pr == TgtPairs(call, t)
  IN [p \in 1..Size(call.tshape[t]) |-> IF \E w \in pr : w[1] = p THEN (CHOOSE w \in pr : w[1] = p)[2] ELSE 0]
ExpectedAll(call) == [t \in 1..NTgt(call) |-> Expected(call, t)]

\* how many (source, element) pairs of the call go to cell p of target t: the same array may be stored
\* several times (into different targets, into different regions of one target - tiling -, even into
\* overlapping regions when the overlapping elements are equal); 1 everywhere for disjoint regions
PosSeq(call, t) ==
  FlattenSeq([q \in 1..NSrc(call) |->
     IF call.src[q].tgt # t THEN <<>>
     ELSE LET gs == Idx0(call.src[q].shape) IN [j \in DOMAIN gs |-> TPos(call, call.src[q], gs[j])]])
Cover(call, t) == LET ps == PosSeq(call, t)
                  IN [p \in 1..Size(call.tshape[t]) |-> Cardinality({ i \in DOMAIN ps : ps[i] = p })]
CoverAll(call) == [t \in 1..NTgt(call) |-> Cover(call, t)]

SrcOK(call, sr) ==
  /\ sr.tgt \in 1..NTgt(call)
  /\ Len(sr.chunks) = Len(sr.shape) /\ Len(sr.start) = Len(sr.shape) /\ Len(sr.step) = Len(sr.shape)
  /\ Len(call.tshape[sr.tgt]) = Len(sr.shape)
  /\ ValidChunks(sr.shape, sr.chunks) /\ sr.per >= 1
  /\ \A d \in DOMAIN sr.shape :
        /\ sr.step[d] >= 1 /\ sr.start[d] >= 0
        /\ sr.shape[d] = 0 \/ sr.start[d] + sr.step[d] * (sr.shape[d] - 1) < call.tshape[sr.tgt][d]
\* the caller's obligation: where the regions of a call overlap, they carry equal elements
\* (so the result does not depend on the order of the writes)
WellFormed(call) ==
  /\ \A q \in 1..NSrc(call) : SrcOK(call, call.src[q])
  /\ \A t \in 1..NTgt(call) : \A w1, w2 \in TgtPairs(call, t) : w1[1] = w2[1] => w1[2] = w2[2]

PosSet(w) == { w.pos[j] : j \in DOMAIN w.pos }

\* design facts about the geometry (checked by TLC for every enumerated call):
\* every cell is in exactly as many block writes as (source, element) pairs go to it - in particular
\* the block writes never overlap where the regions do not -, and together they cover exactly the regions
BlocksDisjoint(call) ==
  LET bl == AllBlocks(call)
  IN \A t \in 1..NTgt(call) : \A p \in 1..Size(call.tshape[t]) :
        Cardinality({ i \in DOMAIN bl : bl[i].t = t /\ p \in PosSet(bl[i]) }) = Cover(call, t)[p]
BlocksCover(call) ==
  LET bl == AllBlocks(call)
  IN \A t \in 1..NTgt(call) :
        UNION { { <<bl[i].pos[j], bl[i].val[j]>> : j \in DOMAIN bl[i].pos } : i \in { u \in DOMAIN bl : bl[u].t = t } }
          = TgtPairs(call, t)

----------------------------------------------------------------------------
(* state and operations *)
S0(call) == [tg |-> [t \in 1..NTgt(call) |-> [p \in 1..Size(call.tshape[t]) |-> 0]],
             wn |-> [t \in 1..NTgt(call) |-> [p \in 1..Size(call.tshape[t]) |-> 0]],
             wr |-> {}, fl |-> {}, hold |-> 0]

WriteShapeOK(exp, w) == /\ w.t \in DOMAIN exp
                        /\ Len(w.pos) = Len(w.val)
                        /\ \A j \in DOMAIN w.pos : w.pos[j] \in DOMAIN exp[w.t]

\* names of the clauses of the property a write that enters __setitem__ now would break
WriteBeginBad(exp, cov, lockm, st, w) ==
  IF ~WriteShapeOK(exp, w) THEN {"OutOfBounds"}
  ELSE Cl("InRegion",  \A j \in DOMAIN w.pos : exp[w.t][w.pos[j]] # 0)                 \* nothing outside the region
       \cup Cl("Values", \A j \in DOMAIN w.pos : exp[w.t][w.pos[j]] \in {0, w.val[j]})  \* the cell's own source element
       \* no cell is written more often than elements go to it (once, unless the caller's regions overlap)
       \cup Cl("WriteOnce", /\ \A j \in DOMAIN w.pos :
                                  st.wn[w.t][w.pos[j]] + Cardinality({ f \in st.fl : f.t = w.t /\ w.pos[j] \in PosSet(f) })
                                     < cov[w.t][w.pos[j]]
                            /\ Cardinality(PosSet(w)) = Len(w.pos))
       \cup Cl("NoOverlap", \A f \in st.fl : f.t = w.t => \A p \in PosSet(f) \cap PosSet(w) : cov[w.t][p] > 1)
       \cup Cl("MutualExclusion", lockm # "none" => st.fl = {})
       \cup Cl("HoldsLock", lockm = "user" => st.hold = w.who)

DoWriteBegin(st, w) == [st EXCEPT !.fl = @ \cup {w}]
InFlight(st, who)   == { f \in st.fl : f.who = who }
DoWriteEnd(st, w) ==
  [st EXCEPT !.fl = @ \ {w},
             !.wr = @ \cup { <<w.t, w.pos[j]>> : j \in DOMAIN w.pos },
             !.wn[w.t] = [p \in DOMAIN @ |-> IF p \in PosSet(w) THEN @[p] + 1 ELSE @[p]],
             !.tg[w.t] = [p \in DOMAIN @ |-> IF p \in PosSet(w) THEN w.val[CHOOSE j \in DOMAIN w.pos : w.pos[j] = p] ELSE @[p]]]

\* a read of region cells (return_stored): only after the cells were stored, and it sees the source
ReadBad(exp, st, rd) ==
  IF ~WriteShapeOK(exp, rd) THEN {"OutOfBounds"}
  ELSE LET js == { j \in DOMAIN rd.pos : exp[rd.t][rd.pos[j]] # 0 }
       IN Cl("LoadAfterStore", \A j \in js : <<rd.t, rd.pos[j]>> \in st.wr)
          \cup Cl("LoadedValue", \A j \in js : rd.val[j] = exp[rd.t][rd.pos[j]])
ReadOf(st, t, pos) == [j \in DOMAIN pos |-> st.tg[t][pos[j]]]

CanAcquire(st)      == st.hold = 0
DoAcquire(st, who)  == [st EXCEPT !.hold = who]
CanRelease(st, who) == st.hold = who
DoRelease(st)       == [st EXCEPT !.hold = 0]

----------------------------------------------------------------------------
(* the property, as predicates on a state *)
RegionCells(exp)  == { <<t, p>> \in UNION { {t} \X DOMAIN exp[t] : t \in DOMAIN exp } : exp[t][p] # 0 }
OutsideUntouchedIn(exp, st) == \A t \in DOMAIN exp : \A p \in DOMAIN exp[t] : exp[t][p] = 0 => st.tg[t][p] = 0
WrittenCorrectIn(exp, st)   == \A t \in DOMAIN exp : \A p \in DOMAIN exp[t] :
                                  st.tg[t][p] = IF <<t, p>> \in st.wr THEN exp[t][p] ELSE 0
NoOverlapIn(cov, st)   == \A f \in st.fl, g \in st.fl : (f # g /\ f.t = g.t) => \A p \in PosSet(f) \cap PosSet(g) : cov[f.t][p] > 1
WriteCountsIn(cov, st) == \A t \in DOMAIN cov : \A p \in DOMAIN cov[t] : st.wn[t][p] <= cov[t][p]
MutexIn(lockm, st)     == lockm # "none" => Cardinality(st.fl) <= 1
CompleteIn(exp, st)    == st.wr = RegionCells(exp) /\ st.fl = {} /\ st.tg = exp
FinalBad(exp, lockm, st, cells) ==
  Cl("AllWritten", st.wr = RegionCells(exp) /\ st.fl = {})
  \cup Cl("FinalContent", cells = exp)
  \cup Cl("LockReleased", lockm = "user" => st.hold = 0)

----------------------------------------------------------------------------
(* npy stack: to_npy_stack(dirname, x, axis) followed by from_npy_stack(dirname) gives the array
   back, cut along `axis` exactly like x was (the chunking of the other axes is not promised).
   o = [shape, chunks, lchunks, cells] is the array read back: computed shape, extents of the computed
   blocks, declared chunks, cells = ids 1..Size in row-major order. *)
NpyRoundTripBad(shape, chunks, axis, o) ==
  Cl("Shape", o.shape = shape)
  \cup Cl("LazyChunks", o.lchunks = o.chunks)
  \cup Cl("Content", o.cells = [j \in 1..Size(shape) |-> j])
  \cup Cl("AxisChunks", Len(o.chunks) = Len(shape) /\ o.chunks[axis] = chunks[axis])
  \cup Cl("ValidChunks", ValidChunks(shape, o.chunks))
=============================================================================
