------------------------------- MODULE Tensor -------------------------------
(* C31 - reference semantics of NumPy's tensor products as integer sums of
   products over element ids.

   Operand k of a case with operand shapes `shapes` is the array of shape
   shapes[k] whose cells are, in row-major order,
        Base(shapes, k) + 1, Base(shapes, k) + 2, ...      (Base = sizes of the operands before it)
   so every operand cell has its own small positive id and a result cell says
   exactly which cells were multiplied and summed.  Res(c) = [err, shape, cells]
   is what NumPy returns for case c (err = TRUE: NumPy raises).  Nothing is said
   about output chunks.

   qr / svd / tsqr / sfqr: the numerical content of the factors is floating-point
   linear algebra that an explicit-state integer model cannot compute.  What IS
   specified (last section) is the structure: for which chunkings the functions
   are defined, the shapes of the factors, the consistency of their declared
   chunks, and - on error measures the harness computes from the real factors and
   reports as integers - exact triangularity and reconstruction / orthonormality /
   singular values within a fixed relative tolerance.                          *)
EXTENDS IndexMaps, Broadcast, TLC

Ok(a) == [err |-> FALSE, shape |-> a.shape, cells |-> a.cells]
Fail  == [err |-> TRUE, shape |-> <<>>, cells |-> <<>>]

Base(shapes, k)    == SumSeq([u \in 1..(k - 1) |-> Size(shapes[u])])
Operand(shapes, k) == IdArr(shapes[k], Base(shapes, k))

Rng(s) == { s[i] : i \in DOMAIN s }
Distinct(s) == Cardinality(Rng(s)) = Len(s)
SumOver(ixs, F(_)) == SumSeq([j \in DOMAIN ixs |-> F(ixs[j])])

-----------------------------------------------------------------------------
(* tensordot(a, b, axes=(la, ra)): contract axis la[i] of a with axis ra[i] of b; the result has the
   free axes of a (in order) followed by the free axes of b *)
FreeAxes(nd, used) == SelectSeq(Iota(nd), LAMBDA x : x \notin Rng(used))

Contract(a, b, la, ra) ==        \* la, ra: normalised (0-based, non-negative), distinct, extents agree
  LET nda == NDim(a)
      ndb == NDim(b)
      fa  == FreeAxes(nda, la)
      fb  == FreeAxes(ndb, ra)
      osh == [i \in 1..Len(fa) |-> a.shape[fa[i] + 1]] \o [i \in 1..Len(fb) |-> b.shape[fb[i] + 1]]
      cs  == Idx0([i \in DOMAIN la |-> a.shape[la[i] + 1]])
      ia(t, c) == [x \in 1..nda |-> IF x - 1 \in Rng(la) THEN c[PosOf(la, x - 1)] ELSE t[PosOf(fa, x - 1)]]
      ib(t, c) == [y \in 1..ndb |-> IF y - 1 \in Rng(ra) THEN c[PosOf(ra, y - 1)] ELSE t[Len(fa) + PosOf(fb, y - 1)]]
  IN Build(osh, LAMBDA t : SumOver(cs, LAMBDA c : At(a, ia(t, c)) * At(b, ib(t, c))))

TensorDot(a, b, la0, ra0) ==
  IF Len(la0) # Len(ra0) THEN Fail
  ELSE IF (\E i \in DOMAIN la0 : ~AxisOK(NDim(a), la0[i])) \/ (\E i \in DOMAIN ra0 : ~AxisOK(NDim(b), ra0[i])) THEN Fail
  ELSE LET la == [i \in DOMAIN la0 |-> NormAxis(NDim(a), la0[i])]
           ra == [i \in DOMAIN ra0 |-> NormAxis(NDim(b), ra0[i])]
       IN IF ~Distinct(la) \/ ~Distinct(ra) THEN Fail
          ELSE IF \E i \in DOMAIN la : a.shape[la[i] + 1] # b.shape[ra[i] + 1] THEN Fail
          ELSE Ok(Contract(a, b, la, ra))

\* axes = n: the last n axes of a with the first n axes of b
TensorDotInt(a, b, n) ==
  IF n > NDim(a) \/ n > NDim(b) THEN Fail
  ELSE TensorDot(a, b, [i \in 1..n |-> NDim(a) - n + i - 1], [i \in 1..n |-> i - 1])

(* dot: last axis of a with the second-to-last axis of b (the only axis of a 1-d b); operands >= 1-d *)
Dot(a, b) ==
  IF NDim(a) = 0 \/ NDim(b) = 0 THEN Fail       \* (NumPy multiplies; not in the bounded space)
  ELSE TensorDot(a, b, <<NDim(a) - 1>>, <<IF NDim(b) = 1 THEN 0 ELSE NDim(b) - 2>>)

(* inner: last axis of a with the last axis of b *)
Inner(a, b) ==
  IF NDim(a) = 0 \/ NDim(b) = 0 THEN Fail
  ELSE TensorDot(a, b, <<NDim(a) - 1>>, <<NDim(b) - 1>>)

(* outer: both operands flattened *)
Outer(a, b) ==
  Ok(Build(<<Size(a.shape), Size(b.shape)>>, LAMBDA t : a.cells[t[1] + 1] * b.cells[t[2] + 1]))

(* vdot: flattened operands of equal size, scalar result *)
VDot(a, b) ==
  IF Size(a.shape) # Size(b.shape) THEN Fail
  ELSE Ok(Arr(<<>>, << SumSeq([j \in 1..Size(a.shape) |-> a.cells[j] * b.cells[j]]) >>))

(* matmul: a 1-d operand is promoted to a row / column matrix (and the added axis removed again);
   the last two axes are matrices, all axes before them broadcast *)
MatMul(a, b) ==
  IF NDim(a) = 0 \/ NDim(b) = 0 THEN Fail
  ELSE LET a2  == IF NDim(a) = 1 THEN Arr(<<1>> \o a.shape, a.cells) ELSE a
           b2  == IF NDim(b) = 1 THEN Arr(b.shape \o <<1>>, b.cells) ELSE b
           na  == NDim(a2)
           nb  == NDim(b2)
           bsa == SubSeq(a2.shape, 1, na - 2)
           bsb == SubSeq(b2.shape, 1, nb - 2)
       IN IF a2.shape[na] # b2.shape[nb - 1] \/ ~BroadcastOK(<<bsa, bsb>>) THEN Fail
          ELSE LET bs   == BroadcastShape(<<bsa, bsb>>)
                   nbt  == Len(bs)
                   m    == a2.shape[na - 1]
                   kk   == a2.shape[na]
                   p    == b2.shape[nb]
                   full == Build(bs \o <<m, p>>,
                                 LAMBDA t : SumSeq([q \in 1..kk |->
                                    At(a2, ProjectIx(bsa, SubSeq(t, 1, nbt)) \o <<t[nbt + 1], q - 1>>)
                                    * At(b2, ProjectIx(bsb, SubSeq(t, 1, nbt)) \o <<q - 1, t[nbt + 2]>>)]))
                   sh1  == IF NDim(a) = 1 THEN RemoveAt(full.shape, nbt + 1) ELSE full.shape
                   sh2  == IF NDim(b) = 1 THEN RemoveAt(sh1, Len(sh1)) ELSE sh1
               IN Ok(Arr(sh2, full.cells))

-----------------------------------------------------------------------------
(* einsum.  Subscripts are sequences of labels: letters a..z are 1..26, Ell (0) is the ellipsis.
   ins[k] = subscripts of operand k, out = output subscripts; impl = TRUE: no "->" was written and the
   output is the ellipsis axes followed by the letters that occur exactly once, in alphabetical order. *)
Ell == 0
EllLabel(i) == 100 + i

EllCount(ins, ops, k) == IF Ell \in Rng(ins[k]) THEN NDim(ops[k]) - (Len(ins[k]) - 1) ELSE 0
Longest(ins, ops) == Max({0} \cup { EllCount(ins, ops, k) : k \in DOMAIN ins })
\* the ellipsis of an operand that stands for e axes: the last e of the `longest` broadcast axes
ExpandSub(sub, e, longest) ==
  IF Ell \notin Rng(sub) THEN sub
  ELSE LET p == PosOf(sub, Ell)
       IN SubSeq(sub, 1, p - 1) \o [i \in 1..e |-> EllLabel(longest - e + i)] \o SubSeq(sub, p + 1, Len(sub))
Occurrences(ins, lb) == SumSeq([k \in DOMAIN ins |-> Cardinality({ d \in DOMAIN ins[k] : ins[k][d] = lb })])
ImplicitOut(xins, longest) ==
  [i \in 1..longest |-> EllLabel(i)]
  \o SetToSortSeq({ lb \in UNION { Rng(xins[k]) : k \in DOMAIN xins } : lb < 100 /\ Occurrences(xins, lb) = 1 },
                  LAMBDA x, y : x < y)

EinsumWellFormed(ins, out, impl, ops) ==
  /\ Len(ins) = Len(ops)
  /\ \A k \in DOMAIN ins : /\ Cardinality({ d \in DOMAIN ins[k] : ins[k][d] = Ell }) <= 1
                           /\ EllCount(ins, ops, k) >= 0
                           /\ (Ell \notin Rng(ins[k]) => Len(ins[k]) = NDim(ops[k]))
  /\ impl \/ Cardinality({ d \in DOMAIN out : out[d] = Ell }) <= 1

Einsum(ins, out, impl, ops) ==
  IF ~EinsumWellFormed(ins, out, impl, ops) THEN Fail
  ELSE
  LET longest == Longest(ins, ops)
      xins == [k \in DOMAIN ins |-> ExpandSub(ins[k], EllCount(ins, ops, k), longest)]
      xout == IF impl THEN ImplicitOut(xins, longest) ELSE ExpandSub(out, longest, longest)
      labels == UNION { Rng(xins[k]) : k \in DOMAIN xins }
      Exts(lb) == UNION { { ops[k].shape[d] : d \in { e \in DOMAIN xins[k] : xins[k][e] = lb } } : k \in DOMAIN xins }
      Ext(lb)  == IF Exts(lb) \ {1} = {} THEN 1 ELSE CHOOSE v \in Exts(lb) \ {1} : TRUE
  IN IF (\E lb \in labels : Cardinality(Exts(lb) \ {1}) > 1)         \* extents of one label disagree
        \/ ~Distinct(xout) \/ ~(Rng(xout) \subseteq labels)          \* output letter twice / not in the inputs
     THEN Fail
     ELSE
     LET cl   == SetToSortSeq(labels \ Rng(xout), LAMBDA x, y : x < y)     \* the contracted labels
         cs   == Idx0([i \in DOMAIN cl |-> Ext(cl[i])])
         val(lb, t, c) == IF lb \in Rng(xout) THEN t[PosOf(xout, lb)] ELSE c[PosOf(cl, lb)]
         ix(k, t, c)   == [d \in DOMAIN xins[k] |-> IF ops[k].shape[d] = 1 THEN 0 ELSE val(xins[k][d], t, c)]
     IN Ok(Build([i \in DOMAIN xout |-> Ext(xout[i])],
                 LAMBDA t : SumOver(cs, LAMBDA c : ProdSeq([k \in DOMAIN ops |-> At(ops[k], ix(k, t, c))]))))

-----------------------------------------------------------------------------
(* a case: [op, shapes, ...];  Res(c) = the NumPy result *)
Res(c) ==
  LET a == Operand(c.shapes, 1)
      b == IF Len(c.shapes) >= 2 THEN Operand(c.shapes, 2) ELSE a
  IN CASE c.op = "tensordot"  -> TensorDot(a, b, c.la, c.ra)
       [] c.op = "tensordotn" -> TensorDotInt(a, b, c.n)
       [] c.op = "dot"        -> Dot(a, b)
       [] c.op = "inner"      -> Inner(a, b)
       [] c.op = "outer"      -> Outer(a, b)
       [] c.op = "vdot"       -> VDot(a, b)
       [] c.op = "matmul"     -> MatMul(a, b)
       [] c.op = "einsum"     -> Einsum(c.ins, c.out, c.impl, [k \in DOMAIN c.shapes |-> Operand(c.shapes, k)])

\* what the property says about the observed dask result `o` (module arrays.observe) for case c
MetaOK(o) ==
  /\ Len(o.chunks) = Len(o.cshape) /\ Len(o.lshape) = Len(o.cshape) /\ o.blocksok
  /\ \A d \in DOMAIN o.chunks :
        (\A i \in DOMAIN o.chunks[d] : o.chunks[d][i] >= 0)
           => (SumSeq(o.chunks[d]) = o.cshape[d] /\ o.lshape[d] = o.cshape[d])
Cl2(name, holds) == IF holds THEN {} ELSE {name}

-----------------------------------------------------------------------------
(* decompositions of an (m, n) matrix cut into chunks = <<row chunks, column chunks>>.
   Reduced factorizations, k = min(m, n):   qr / tsqr / sfqr:  Q (m, k), R (k, n);   svd:  U (m, k), S (k), V (k, n).
   The documented preconditions (everything else raises ValueError / NotImplementedError, or is outside
   "tall-and-skinny or short-and-fat" and not judged):
     tsqr  one column of blocks, and - if there are several row blocks - at least as many rows as columns
           (row blocks may be shorter than the matrix is wide);
     sfqr  one row of blocks, the first block at least as wide as the matrix is high (or a single block);
     qr    = tsqr for one column of several blocks, sfqr for one row of blocks;
     svd   chunked along one axis only. *)
Min2t(x, y) == IF x < y THEN x ELSE y
DecompOps == {"qr", "tsqr", "sfqr", "svd"}
SfqrOK(chunks) == Len(chunks[1]) = 1 /\ (chunks[1][1] <= chunks[2][1] \/ Len(chunks[2]) = 1)
InDomain(op, shape, chunks) ==
  LET nr == Len(chunks[1])
      nc == Len(chunks[2])
  IN CASE op = "tsqr" -> nc = 1 /\ (nr = 1 \/ shape[1] >= shape[2])
       [] op = "sfqr" -> SfqrOK(chunks)
       [] op = "qr"   -> IF nc = 1 /\ nr > 1 THEN shape[1] >= shape[2] ELSE SfqrOK(chunks)
       [] op = "svd"  -> ~(nr > 1 /\ nc > 1)
FactorShapes(op, shape) ==
  LET k == Min2t(shape[1], shape[2])
  IN IF op = "svd" THEN << <<shape[1], k>>, <<k>>, <<k, shape[2]>> >> ELSE << <<shape[1], k>>, <<k, shape[2]>> >>

\* error measures are reported in units of 1e-10 relative to max |A|; the tolerance is 1e-6
Tol == 10000
\* r = [c = [op, shapes = <<shape>>, dch = chunks], raised, f = factor observations, rlow = number of non-zero entries
\* of R below the diagonal, recon / orth / sv = error of the reconstruction, of Q'Q = I (U'U, VV'), of the singular values]
DecompBad(r) ==
  LET op == r.c.op
      fs == FactorShapes(op, r.c.shapes[1])
  IN IF ~InDomain(op, r.c.shapes[1], r.c.dch) THEN {}
     ELSE IF r.raised # "" THEN {"UnexpectedRaise"}
     ELSE IF [i \in DOMAIN r.f |-> r.f[i].cshape] # fs THEN {"FactorShapes"}
     ELSE Cl2("Meta", \A i \in DOMAIN r.f : MetaOK(r.f[i]))
          \cup Cl2("Triangular", op = "svd" \/ r.rlow = 0)
          \cup Cl2("Reconstruction", r.recon <= Tol)
          \cup Cl2("Orthonormal", r.orth <= Tol)
          \cup Cl2("SingularValues", op # "svd" \/ r.sv <= Tol)

=============================================================================
