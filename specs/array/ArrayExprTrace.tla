--------------------------- MODULE ArrayExprTrace ---------------------------
(* code -> spec for C30: one record per pipeline executed in an interpreter with
   array.query-planning enabled:  [shape, pipe, obs [raised, cshape, cells, chunks, lshape, blocksok]]. *)
EXTENDS ArrayExpr, TraceIO

Bad(r) ==
  LET res  == Run(Source(r.shape), r.pipe)
      last == r.pipe[Len(r.pipe)]
  IN IF ~res.ok THEN Clause("ErrorExpected", r.obs.raised # "")
     ELSE IF r.obs.raised # "" THEN {"UnexpectedRaise"}
     ELSE Clause("Shape", r.obs.cshape = res.val.shape)
          \cup Clause("Content", r.obs.cells = res.val.cells)
          \cup Clause("Meta", MetaOK(r.obs))
          \* (dask deliberately does not rechunk an array all of whose extents are zero)
          \cup (IF last.op = "rechunk" /\ ~(res.val.shape # <<>> /\ \A a \in DOMAIN res.val.shape : res.val.shape[a] = 0)
                THEN Clause("RechunkTarget", r.obs.chunks = RechunkTarget(res.val.shape, last.how)) ELSE {})

Init == TInit
Next == TNext(Bad)
=============================================================================
