----------------------------- MODULE SetItemMC -----------------------------
(* Case enumeration for C21 (spec -> code).  Every initial state is one
   assignment x[idx] = v on a fresh array (cells = element ids): shape, chunking,
   index, value (form, shape, chunking, fresh ids) together with the content the
   reference semantics of module SetItem demands.  TLC checks sanity properties
   of the reference itself on every case (design check).                      *)
EXTENDS SetItem, TLC, Json

CONSTANTS Fams,     \* subset of {"slice1d", "nd", "mask"}
          N1,       \* slice1d: extents 0..N1
          Shapes2,  \* nd: set of shapes
          ShapesM,  \* mask: set of shapes
          Lite,     \* BOOLEAN: the short per-axis menu
          Zero      \* BOOLEAN: also chunkings with one zero-width chunk (1-d)

VARIABLES case, exp, out

S(a, b, st) == [k |-> "s", a |-> a, b |-> b, st |-> st]
I(i) == [k |-> "i", i |-> i]
L(v) == [k |-> "l", v |-> v]
B(v) == [k |-> "b", v |-> v]

Bnd(n) == (-(n + 1)..(n + 1)) \cup {None}
Steps  == {-3, -2, -1, 1, 2, 3}

\* per-axis component menu for an axis of length n
Menu(n) ==
  IF Lite
  THEN { S(None, None, 1), S(1, None, 1), S(None, None, -1), S(None, None, 2), S(-2, None, -2) }
       \cup { I(0), I(-1) }
       \cup (IF n = 0 THEN {L(<<>>)} ELSE { L(<<n - 1, 0>>), L(<<0, 0>>), L(<<>>) })
       \cup { B([j \in 1..n |-> j % 2]) }
  ELSE { S(None, None, 1), S(1, None, 1), S(None, -1, 1), S(None, None, -1), S(None, None, 2),
         S(-2, None, -2), S(n, None, 1), S(None, 0, -1), S(-1, 0, -1) }
       \cup { I(i) : i \in {0, -1, n} }
       \cup (IF n = 0 THEN {L(<<>>)} ELSE
             { L(<<0>>), L(<<n - 1, 0>>), L(<<0, 0>>), L(<<-1, 0, n - 1>>), L(<<>>), L(<<n>>) })
       \cup { B([j \in 1..n |-> j % 2]), B([j \in 1..n |-> 0]), B([j \in 1..n |-> 1]) }

NArr(cs) == Cardinality({p \in DOMAIN cs : cs[p].k \in {"l", "b"}})
RECURSIVE PerAxis(_)
PerAxis(shape) == IF shape = <<>> THEN {<<>>}
                  ELSE { <<c>> \o r : c \in Menu(Head(shape)), r \in PerAxis(Tail(shape)) }

\* values: fresh ids, in the forms "s" Python scalar, "n" NumPy array, "d" dask array
Val(f, sh, ch) == [f |-> f, sh |-> sh, ch |-> ch, v |-> [j \in 1..Size(sh) |-> FreshBase + j - 1]]
AllOnes(sh) == [d \in DOMAIN sh |-> IF sh[d] = 0 THEN <<0>> ELSE [j \in 1..sh[d] |-> 1]]
Single(sh)  == [d \in DOMAIN sh |-> <<sh[d]>>]
VShapes(ssh) ==
  {<<>>, ssh, <<1>> \o ssh} \cup {[ssh EXCEPT ![d] = 1] : d \in DOMAIN ssh}
  \cup (IF ssh # <<>> THEN {Tail(ssh), [ssh EXCEPT ![Len(ssh)] = @ + 1]} ELSE {})
Values(ssh) ==
  {Val("s", <<>>, <<>>)}
  \cup {Val("n", sh, <<>>) : sh \in VShapes(ssh)}
  \cup UNION {{Val("d", sh, ch) : ch \in {AllOnes(sh), Single(sh)}}
              : sh \in {<<>>, ssh} \cup {[ssh EXCEPT ![d] = 1] : d \in DOMAIN ssh}}

\* the shorter list used for the exhaustive 1-d slices
Values1(ssh) ==
  {Val("s", <<>>, <<>>), Val("n", ssh, <<>>), Val("n", <<1>>, <<>>), Val("n", [ssh EXCEPT ![1] = @ + 1], <<>>),
   Val("d", ssh, AllOnes(ssh)), Val("d", ssh, Single(ssh))}

\* the values tried for an index: everything when the selection exists, a scalar otherwise
ValuesFor(shape, idx, short) ==
  LET sel == Selection(shape, idx)
  IN IF sel.err THEN {Val("s", <<>>, <<>>)} ELSE IF short THEN Values1(sel.shape) ELSE Values(sel.shape)

Chunks1(n) == Chunkings(n) \cup (IF Zero /\ n \in 1..3 THEN WithOneZero(n) ELSE {})

MaskMenu(n) == { [j \in 1..n |-> j % 2], [j \in 1..n |-> 0], [j \in 1..n |-> 1],
                 [j \in 1..n |-> IF j = n THEN 1 ELSE 0], [j \in 1..n |-> IF j % 3 = 1 THEN 1 ELSE 0] }

CompsIdx(cs) == [k |-> "comps", comps |-> cs]

Emit(c) == /\ case = c
           /\ exp = Assign(c.shape, Identity(c.shape), c.idx, c.val)
           /\ out = ToJson([c |-> case, e |-> exp])

Init ==
  \/ /\ "slice1d" \in Fams
     /\ \E n \in 0..N1 : \E ch \in Chunks1(n) : \E a \in Bnd(n) : \E b \in Bnd(n) : \E st \in Steps :
          LET idx == CompsIdx(<<S(a, b, st)>>) IN
          \E v \in ValuesFor(<<n>>, idx, TRUE) :
             Emit([fam |-> "slice1d", shape |-> <<n>>, chunks |-> <<ch>>, idx |-> idx, val |-> v])
  \/ /\ "nd" \in Fams
     /\ \E sh \in Shapes2 : \E cs \in {x \in PerAxis(sh) : NArr(x) <= 1} : \E ch \in NDChunkings(sh) :
          LET idx == CompsIdx(cs) IN
          \E v \in ValuesFor(sh, idx, FALSE) :
             Emit([fam |-> "nd", shape |-> sh, chunks |-> ch, idx |-> idx, val |-> v])
  \/ /\ "mask" \in Fams
     /\ \E sh \in ShapesM : \E ch \in NDChunkings(sh) : \E m \in MaskMenu(Size(sh)) :
        \E mf \in {<<"n", <<>>>>} \cup {<<"d", c>> : c \in NDChunkings(sh)} :
          LET idx == [k |-> "mask", m |-> m, f |-> mf[1], ch |-> mf[2]]
              cnt == Selection(sh, idx).shape
          IN \E v \in {Val("s", <<>>, <<>>), Val("n", <<>>, <<>>), Val("d", <<>>, <<>>), Val("n", cnt, <<>>), Val("n", <<1>>, <<>>)} :
             Emit([fam |-> "mask", shape |-> sh, chunks |-> ch, idx |-> idx, val |-> v])
Next == UNCHANGED <<case, exp, out>>

-----------------------------------------------------------------------------
\* sanity of the reference itself (design check)
\* every cell is the cell that was there or a fresh id of the value
Attributable ==
  ~exp.err => /\ Len(exp.cells) = Size(case.shape)
              /\ \A p \in DOMAIN exp.cells :
                    \/ exp.cells[p] = p - 1
                    \/ exp.cells[p] \in {case.val.v[j] : j \in DOMAIN case.val.v}

\* exactly the selected positions are overwritten
WritesSelection ==
  ~exp.err => LET sel == Selection(case.shape, case.idx)
                  hit == {sel.cells[j] : j \in DOMAIN sel.cells}
              IN \A p \in DOMAIN exp.cells : (exp.cells[p] >= FreshBase) <=> ((p - 1) \in hit)

\* assigning a value of exactly the selection's shape, then reading the selection back, gives the
\* value (when no position is selected twice)
ReadBack ==
  (~exp.err /\ case.val.sh = Selection(case.shape, case.idx).shape) =>
     LET sel == Selection(case.shape, case.idx) IN
     (Cardinality({sel.cells[j] : j \in DOMAIN sel.cells}) = Len(sel.cells))
        => [j \in DOMAIN sel.cells |-> exp.cells[sel.cells[j] + 1]] = case.val.v

\* a scalar is written to every selected cell
ScalarFills ==
  (~exp.err /\ case.val.sh = <<>>) =>
     \A p \in DOMAIN exp.cells : exp.cells[p] \in {p - 1, FreshBase}
=============================================================================
