--------------------------- MODULE ArrayMetaTrace ---------------------------
(* code -> spec for C25: each record is the observation of one intermediate
   array of a recorded pipeline of dask.array operations (the operation and its
   arguments are carried along for the report only).  TLC evaluates the lazy
   metadata clauses of module ArrayMeta on every record:
       Keys        one key per cell of the declared block grid
       BlockShape  each block computed through its own key has the shape .chunks declares
       LazyShape   .shape = sums of .chunks = shape of the computed array
       Dtype       .dtype = dtype of the computed array and of every block
       Reassemble  the blocks, placed by their block index, are the computed array   *)
EXTENDS ArrayMeta, TraceIO

\* records of the exhaustive families also carry `want`, the shape NumPy gives, and - for
\* operations with an explicit dtype - `wantdt`, the dtype that was asked for
Bad(r) == IF r.obs.raised # "" THEN {"Raised"}
          ELSE TrimClauses(MetaClauses(r.obs)
                           \cup (IF "want" \in DOMAIN r THEN Clause("Shape", r.obs.whole.s = r.want) ELSE {})
                           \cup (IF "wantdt" \in DOMAIN r THEN Clause("AskedDtype", r.obs.dt = r.wantdt) ELSE {}),
                           <<"Shape", "AskedDtype">> \o MetaOrder)

Init == TInit
Next == TNext(Bad)
=============================================================================
