------------------------------ MODULE Indexing ------------------------------
(* Reference semantics of NumPy indexing, on arrays whose cells hold their own
   row-major position ("element ids").  C20.

   An index is a sequence of components
       [k |-> "s", a, b, st]   slice  (a, b = None for an absent bound)
       [k |-> "i", i]          integer
       [k |-> "l", v]          list of integers        (one advanced index)
       [k |-> "b", v]          list of 0/1 of the axis length (boolean mask)
       [k |-> "n"]             None / numpy.newaxis
   Missing trailing components are full slices (that is also what Ellipsis
   expands to; the harness spells the same index with and without Ellipsis).
   Result(shape, comps) = [shape, cells, err]: cells is the row-major sequence
   of source ids, err = TRUE when NumPy raises IndexError.                     *)
EXTENDS NDArray, TLC, Json

None == 99

Clamp(x, lo, hi) == IF x < lo THEN lo ELSE IF x > hi THEN hi ELSE x

NormStart(n, s, st) == IF s = None THEN (IF st > 0 THEN 0 ELSE n - 1)
                       ELSE LET a == IF s < 0 THEN s + n ELSE s IN
                            IF st > 0 THEN Clamp(a, 0, n) ELSE Clamp(a, -1, n - 1)
NormStop(n, s, st)  == IF s = None THEN (IF st > 0 THEN n ELSE -1)
                       ELSE LET a == IF s < 0 THEN s + n ELSE s IN
                            IF st > 0 THEN Clamp(a, 0, n) ELSE Clamp(a, -1, n - 1)

RECURSIVE Walk(_, _, _)
Walk(i, stop, st) == IF (st > 0 /\ i >= stop) \/ (st < 0 /\ i <= stop) THEN <<>>
                     ELSE <<i>> \o Walk(i + st, stop, st)

\* 0-based source positions selected by slice(a, b, st) on an axis of length n
SliceIdx(n, a, b, st) == Walk(NormStart(n, a, st), NormStop(n, b, st), st)

NormInt(n, i) == IF i < 0 THEN i + n ELSE i
IntOK(n, i) == -n <= i /\ i < n

BoolIdx(v) == SelectSeq([j \in 1..Len(v) |-> j - 1], LAMBDA p : v[p + 1] = 1)

FullSlice == [k |-> "s", a |-> None, b |-> None, st |-> 1]

\* number of array axes consumed by comps[1..p]
AxisAt(comps, p) == Cardinality({q \in 1..p : comps[q].k # "n"})
Full(comps, nd) == comps \o [j \in 1..(nd - AxisAt(comps, Len(comps))) |-> FullSlice]

\* positions selected on its axis by component c (axis length n)
IdxOf(c, n) == CASE c.k = "s" -> SliceIdx(n, c.a, c.b, c.st)
                 [] c.k = "i" -> <<NormInt(n, c.i)>>
                 [] c.k = "l" -> [j \in DOMAIN c.v |-> NormInt(n, c.v[j])]
                 [] c.k = "b" -> BoolIdx(c.v)
                 [] OTHER     -> <<0>>

CompOK(c, n) == CASE c.k = "i" -> IntOK(n, c.i)
                  [] c.k = "l" -> \A j \in DOMAIN c.v : IntOK(n, c.v[j])
                  [] c.k = "b" -> Len(c.v) = n
                  [] OTHER     -> TRUE

Asc(S) == SetToSortSeq(S, LAMBDA x, y : x < y)

Result(shape, comps0) ==
  LET nd    == Len(shape)
      F     == Full(comps0, nd)
      P     == DOMAIN F
      ax(p) == AxisAt(F, p)
      ok    == /\ AxisAt(F, Len(F)) = nd
               /\ \A p \in P : F[p].k = "n" \/ CompOK(F[p], shape[ax(p)])
  IN IF ~ok THEN [shape |-> <<>>, cells |-> <<>>, err |-> TRUE]
     ELSE
     LET idx(p)  == IdxOf(F[p], shape[ax(p)])
         arrP    == {p \in P : F[p].k \in {"l", "b"}}
         hasArr  == arrP # {}
         advP    == {p \in P : F[p].k \in {"l", "b"} \/ (hasArr /\ F[p].k = "i")}
         basicP  == {p \in P : F[p].k \in {"s", "n"}}
         first   == Min(advP)
         adjacent == advP = first..Max(advP)
         \* the output dimensions, each named by the component position it comes
         \* from; 0 names the (single, broadcast) advanced dimension
         dims    == IF ~hasArr THEN Asc(basicP)
                    ELSE IF adjacent
                         THEN Asc({p \in basicP : p < first}) \o <<0>> \o Asc({p \in basicP : p > first})
                         ELSE <<0>> \o Asc(basicP)
         theArr  == CHOOSE p \in arrP : TRUE
         ext(d)  == IF d = 0 THEN Len(idx(theArr))
                    ELSE IF F[d].k = "n" THEN 1 ELSE Len(idx(d))
         oshape  == [j \in DOMAIN dims |-> ext(dims[j])]
         dimOf(p) == CHOOSE j \in DOMAIN dims : dims[j] = p
         \* source coordinate on the axis of component p for output tuple t
         src(p, t) == CASE F[p].k = "s" -> idx(p)[t[dimOf(p)]]
                        [] F[p].k = "i" -> NormInt(shape[ax(p)], F[p].i)
                        [] OTHER        -> idx(p)[t[dimOf(0)]]
         axisPos(a) == CHOOSE p \in P : F[p].k # "n" /\ ax(p) = a
         tuples  == IF ProdSeq(oshape) = 0 THEN <<>> ELSE Cart(oshape)
     IN [shape |-> oshape,
         cells |-> [j \in DOMAIN tuples |-> Ravel(shape, [a \in 1..nd |-> src(axisPos(a), tuples[j])])],
         err   |-> FALSE]

\* x.vindex[p1, p2, ...]: one equal-length integer list per axis, selected pointwise
VIndex(shape, pts) ==
  LET nd == Len(shape)
      L  == Len(pts[1])
      ok == /\ Len(pts) = nd
            /\ \A a \in 1..nd : Len(pts[a]) = L /\ \A j \in 1..L : IntOK(shape[a], pts[a][j])
  IN IF ~ok THEN [shape |-> <<>>, cells |-> <<>>, err |-> TRUE]
     ELSE [shape |-> <<L>>,
           cells |-> [j \in 1..L |-> Ravel(shape, [a \in 1..nd |-> NormInt(shape[a], pts[a][j])])],
           err |-> FALSE]

\* x.vindex[c1, c2, ...] where each component is an integer list ("l") or a single integer ("i",
\* broadcast against the lists): pointwise selection, one output cell per list position
VIndexC(shape, comps) ==
  LET nd    == Len(shape)
      lists == {a \in DOMAIN comps : comps[a].k = "l"}
      L     == IF lists = {} THEN 0 ELSE Len(comps[CHOOSE a \in lists : TRUE].v)
      at(a, j) == IF comps[a].k = "l" THEN comps[a].v[j] ELSE comps[a].i
      ok == /\ Len(comps) = nd /\ lists # {}
            /\ \A a \in lists : Len(comps[a].v) = L
            /\ \A a \in 1..nd : comps[a].k \in {"l", "i"} /\ \A j \in 1..L : IntOK(shape[a], at(a, j))
            /\ \A a \in 1..nd : comps[a].k = "i" => IntOK(shape[a], comps[a].i)
  IN IF ~ok THEN [shape |-> <<>>, cells |-> <<>>, err |-> TRUE]
     ELSE [shape |-> <<L>>,
           cells |-> [j \in 1..L |-> Ravel(shape, [a \in 1..nd |-> NormInt(shape[a], at(a, j))])],
           err |-> FALSE]

\* x[mask] with a boolean mask of the full shape of x (flat row-major 0/1 sequence): the selected
\* cells in row-major order, as a 1-d array
MaskResult(shape, mask) ==
  IF Len(mask) # Size(shape) THEN [shape |-> <<>>, cells |-> <<>>, err |-> TRUE]
  ELSE LET sel == SelectSeq([j \in 1..Len(mask) |-> j - 1], LAMBDA p : mask[p + 1] = 1)
       IN [shape |-> <<Len(sel)>>, cells |-> sel, err |-> FALSE]

\* x.blocks[b1, b2, ...]: components select *blocks*; every axis is kept
RECURSIVE Concat(_)
Concat(ss) == IF ss = <<>> THEN <<>> ELSE Head(ss) \o Concat(Tail(ss))
BlockRange(c, b) == [j \in 1..c[b + 1] |-> Offset(c, b + 1) + j - 1]     \* b 0-based
BlocksResult(shape, chunks, bcomps) ==
  LET nd == Len(shape)
      F  == bcomps \o [j \in 1..(nd - Len(bcomps)) |-> FullSlice]
      \* a dask array cannot have zero blocks along an axis, so an empty block
      \* selection has no representable result: any exception is accepted
      ok == \A a \in 1..nd : /\ CompOK(F[a], Len(chunks[a])) /\ F[a].k \in {"s", "i", "l"}
                              /\ Len(IdxOf(F[a], Len(chunks[a]))) > 0
  IN IF ~ok THEN [shape |-> <<>>, cells |-> <<>>, chunks |-> <<>>, err |-> TRUE]
     ELSE
     LET sel(a)   == IdxOf(F[a], Len(chunks[a]))                       \* selected block numbers
         eidx(a)  == Concat([j \in DOMAIN sel(a) |-> BlockRange(chunks[a], sel(a)[j])])
         oshape   == [a \in 1..nd |-> Len(eidx(a))]
         tuples   == IF ProdSeq(oshape) = 0 THEN <<>> ELSE Cart(oshape)
     IN [shape |-> oshape,
         cells |-> [j \in DOMAIN tuples |-> Ravel(shape, [a \in 1..nd |-> eidx(a)[tuples[j][a]]])],
         chunks |-> [a \in 1..nd |-> [j \in DOMAIN sel(a) |-> chunks[a][sel(a)[j] + 1]]],
         err |-> FALSE]

-----------------------------------------------------------------------------
(* Lazy-metadata clause, evaluated on observations of the implementation:
   declared shape = computed shape, declared chunks valid, every block has the
   shape its chunk entry declares.  Unknown (NaN) sizes are logged as -1 and
   are a don't-care.                                                          *)
Known(c) == \A j \in DOMAIN c : c[j] >= 0
MetaOK(obs) ==
  /\ Len(obs.chunks) = Len(obs.cshape)
  /\ \A a \in DOMAIN obs.chunks :
        Known(obs.chunks[a]) => /\ SumSeq(obs.chunks[a]) = obs.cshape[a]
                                /\ obs.lshape[a] = obs.cshape[a]
  /\ obs.blocksok
=============================================================================
