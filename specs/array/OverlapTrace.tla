---------------------------- MODULE OverlapTrace ----------------------------
(* code -> spec for C26: each record is one call made on real dask arrays
   (r.c = the case in the vocabulary of module Overlap plus the input chunking;
   the source holds the ids 1 .. N) with what was observed - lazy shape and
   chunks, per-block shapes, assembled content (stencil cells decoded into the
   list of cells read) - or one call of ensure_minimum_chunksize with its
   result.  TLC decides every record.

   The raw result of overlap() is judged on the chunking read off the observed
   chunks: it must be a chunking of the input with every block at least as long
   as the depth (dask chooses it), and the content must be the windows of the
   padded array for exactly that chunking.                                    *)
EXTENDS Overlap, TraceIO

Observed(r, want) ==
  Clause("Shape", r.obs.cshape = want.shape)
  \cup Clause("Content", r.obs.cells = want.cells)
  \cup Clause("Meta", MetaOK(r.obs))

BadOverlap(r) ==
  LET c == r.c IN
  IF ~DepthFits(c.shape, c.depth) THEN {}
  ELSE IF r.obs.raised # "" THEN {"UnexpectedRaise"}
  ELSE IF Len(r.obs.chunks) # Len(c.shape) THEN {"EffChunks"}
  ELSE LET eff == EffOfOver(r.obs.chunks, c.depth, c.bnd) IN
       IF ~ValidChunks(c.shape, eff) \/ ~EffOK(eff, c.depth) THEN {"EffChunks"}
       ELSE Observed(r, OverlapArr(Source(c.shape), eff, c.depth, c.bnd, CVal(c.shape)))

Bad(r) ==
  IF r.c.fam = "emc" THEN Clause("Contract", EnsureMinOK(r.c.size, r.c.chunks, r.obs))
  ELSE IF r.c.fam = "overlap" THEN BadOverlap(r)
  ELSE LET w == Res(r.c) IN
       IF w.err THEN {}               \* no result is promised: whatever dask does is accepted
       ELSE IF r.obs.raised # "" THEN {"UnexpectedRaise"}
       ELSE Observed(r, w)

Init == TInit
Next == TNext(Bad)
=============================================================================
