------------------------------ MODULE TensorMC ------------------------------
(* Case enumeration and design check for C31.  A state is one (operation, operand shapes,
   arguments) case with the result the reference demands, or - op = "chunkings" - the complete
   list of chunkings of one operand shape (the result does not depend on the chunking, so the
   chunkings are enumerated once per shape and the harness runs every case under them).
   Init only picks the case; the expected result is computed in one Next step.            *)
EXTENDS Tensor, Json

CONSTANTS Ops,        \* subset of {"tensordot", "dot", "inner", "outer", "vdot", "matmul", "einsum"}
          Shapes,     \* operand shapes of tensordot / dot / inner / outer / vdot (all ordered pairs)
          MMShapes,   \* operand shapes of matmul (all ordered pairs)
          Swapped,    \* TRUE: the einsum menu is enumerated a second time with extents 2 and 3 exchanged
          DShapes     \* matrix shapes of the decompositions (ops "qr", "tsqr", "sfqr", "svd")

VARIABLES cs, out
vars == <<cs, out>>

Min2(x, y) == IF x < y THEN x ELSE y
InjSeqs(nd, n) == { q \in [1..n -> 0..(nd - 1)] : Distinct(q) }

\* every axes specification: n = 0..min(ndim) contracted pairs, any axes in any order; for n >= 2 only
\* the ones whose extents agree (NumPy raises otherwise - one failing pair per n = 1 is enough)
TensorDotCases(sa, sb) ==
  UNION { { [op |-> "tensordot", shapes |-> <<sa, sb>>, la |-> la, ra |-> ra] :
              la \in InjSeqs(Len(sa), n), ra \in InjSeqs(Len(sb), n) }
          : n \in 0..Min2(Len(sa), Len(sb)) }
ValidTD(c) == \A i \in DOMAIN c.la : c.shapes[1][c.la[i] + 1] = c.shapes[2][c.ra[i] + 1]
TDCases(sa, sb) ==
  { c \in TensorDotCases(sa, sb) : Len(c.la) <= 1 \/ ValidTD(c) }
  \cup { [c EXCEPT !.la = << c.la[1] - Len(sa) >>, !.ra = << c.ra[1] - Len(sb) >>] :      \* negative spelling
           c \in { x \in TensorDotCases(sa, sb) : Len(x.la) = 1 /\ ValidTD(x) } }
  \cup { [op |-> "tensordotn", shapes |-> <<sa, sb>>, n |-> n] : n \in 0..3 }

PairCases(op) == { [op |-> op, shapes |-> <<sa, sb>>] : sa \in Shapes, sb \in Shapes }
MMCases == { [op |-> "matmul", shapes |-> <<sa, sb>>] : sa \in MMShapes, sb \in MMShapes }

\* ---------------------------------------------------------------- the einsum menu
I == 9
J == 10
K == 11
L == 12
E(ins, o, shapes) == [op |-> "einsum", ins |-> ins, out |-> o, impl |-> FALSE, shapes |-> shapes]
EI(ins, shapes)   == [op |-> "einsum", ins |-> ins, out |-> <<>>, impl |-> TRUE, shapes |-> shapes]
EinsumMenu == {
  \* contractions
  E(<< <<I, J>>, <<J, K>> >>, <<I, K>>, << <<2, 3>>, <<3, 2>> >>),
  EI(<< <<I, J>>, <<J, K>> >>, << <<2, 3>>, <<3, 2>> >>),
  E(<< <<I, J>>, <<K, J>> >>, <<I, K>>, << <<2, 3>>, <<2, 3>> >>),
  E(<< <<I, J>>, <<I, J>> >>, <<>>, << <<2, 3>>, <<2, 3>> >>),
  E(<< <<I, J>>, <<I, J>> >>, <<I, J>>, << <<2, 3>>, <<2, 3>> >>),
  E(<< <<I, J>>, <<I, J>> >>, <<I>>, << <<2, 3>>, <<2, 3>> >>),
  E(<< <<I, J>>, <<J>> >>, <<I>>, << <<2, 3>>, <<3>> >>),
  E(<< <<I>>, <<I>> >>, <<>>, << <<3>>, <<3>> >>),
  EI(<< <<I>>, <<I>> >>, << <<3>>, <<3>> >>),
  E(<< <<I>>, <<J>> >>, <<I, J>>, << <<2>>, <<3>> >>),
  E(<< <<I>>, <<J>> >>, <<J, I>>, << <<2>>, <<3>> >>),
  E(<< <<I, J, K>>, <<J, K>> >>, <<I>>, << <<2, 3, 2>>, <<3, 2>> >>),
  E(<< <<I, J, K>>, <<K, L>> >>, <<I, J, L>>, << <<2, 3, 2>>, <<2, 3>> >>),
  E(<< <<I, J, K>>, <<I, K, L>> >>, <<I, J, L>>, << <<2, 3, 2>>, <<2, 2, 3>> >>),
  E(<< <<I, J>>, <<J, K>>, <<K, L>> >>, <<I, L>>, << <<2, 3>>, <<3, 2>>, <<2, 3>> >>),
  E(<< <<I, J>>, <<J>>, <<J>> >>, <<I>>, << <<2, 3>>, <<3>>, <<3>> >>),
  \* one operand: transposes and sums
  E(<< <<I, J>> >>, <<J, I>>, << <<2, 3>> >>),
  E(<< <<I, J>> >>, <<>>, << <<2, 3>> >>),
  E(<< <<I, J>> >>, <<J>>, << <<2, 3>> >>),
  E(<< <<I, J>> >>, <<I>>, << <<2, 3>> >>),
  E(<< <<I, J, K>> >>, <<K, J, I>>, << <<2, 3, 2>> >>),
  E(<< <<I, J, K>> >>, <<I, K>>, << <<2, 3, 2>> >>),
  \* traces and diagonals: a letter twice in one operand
  E(<< <<I, I>> >>, <<>>, << <<3, 3>> >>),
  E(<< <<I, I>> >>, <<I>>, << <<3, 3>> >>),
  EI(<< <<I, I>> >>, << <<3, 3>> >>),
  E(<< <<I, I, J>> >>, <<I, J>>, << <<2, 2, 3>> >>),
  E(<< <<I, I, J>> >>, <<J>>, << <<2, 2, 3>> >>),
  E(<< <<I, J, I>> >>, <<J>>, << <<2, 3, 2>> >>),
  E(<< <<I, I>>, <<I>> >>, <<I>>, << <<3, 3>>, <<3>> >>),
  E(<< <<I, J>>, <<J, J>> >>, <<I>>, << <<2, 3>>, <<3, 3>> >>),
  \* broadcasts: ellipsis
  E(<< <<Ell, J>>, <<Ell, J>> >>, <<Ell>>, << <<2, 3>>, <<2, 3>> >>),
  E(<< <<Ell, I, J>>, <<Ell, J, K>> >>, <<Ell, I, K>>, << <<2, 2, 3>>, <<2, 3, 2>> >>),
  E(<< <<Ell, I, J>>, <<J, K>> >>, <<Ell, I, K>>, << <<2, 2, 3>>, <<3, 2>> >>),
  E(<< <<Ell>>, <<Ell>> >>, <<Ell>>, << <<2, 3>>, <<3>> >>),
  E(<< <<I, Ell>> >>, <<Ell>>, << <<2, 3>> >>),
  E(<< <<Ell, I>> >>, <<Ell>>, << <<2, 3>> >>),
  E(<< <<Ell, I, J>> >>, <<Ell, J, I>>, << <<2, 2, 3>> >>),
  E(<< <<I, J, Ell>>, <<J, K, Ell>> >>, <<I, K, Ell>>, << <<2, 3, 2>>, <<3, 2, 2>> >>),
  EI(<< <<Ell, J>>, <<J>> >>, << <<2, 3>>, <<3>> >>),
  \* broadcasts: extent 1 against extent n
  E(<< <<Ell, J>>, <<Ell, J>> >>, <<Ell, J>>, << <<1, 3>>, <<2, 3>> >>),
  E(<< <<I, J>>, <<I, J>> >>, <<I, J>>, << <<1, 3>>, <<2, 3>> >>),
  \* NumPy raises: output letter twice, output letter not in the inputs, extents disagree
  E(<< <<I, J>>, <<J, K>> >>, <<I, I>>, << <<2, 3>>, <<3, 2>> >>),
  E(<< <<I, J>>, <<K, L>> >>, <<13>>, << <<2, 3>>, <<3, 2>> >>),
  E(<< <<I, J>>, <<J, K>> >>, <<I, K>>, << <<2, 3>>, <<2, 2>> >>)
}
SwapExt(v) == IF v = 2 THEN 3 ELSE IF v = 3 THEN 2 ELSE v
SwapCase(c) == [c EXCEPT !.shapes = [k \in DOMAIN c.shapes |-> [d \in DOMAIN c.shapes[k] |-> SwapExt(c.shapes[k][d])]]]
EinsumCases == EinsumMenu \cup (IF Swapped THEN { SwapCase(c) : c \in EinsumMenu } ELSE {})

\* decompositions: the chunking is part of the case (it decides whether the function is defined).  The long axis
\* is cut in every way, the short axis is one block or split once (squares: both axes in every way)
OneOrSplit(n) == {<<n>>} \cup (IF n >= 2 THEN {<<1, n - 1>>, <<n - 1, 1>>} ELSE {})
DChunkings(sh) ==
  IF sh[1] > sh[2] THEN { <<rc, cc>> : rc \in Comps(sh[1]), cc \in OneOrSplit(sh[2]) }
  ELSE IF sh[1] < sh[2] THEN { <<rc, cc>> : rc \in OneOrSplit(sh[1]), cc \in Comps(sh[2]) }
  ELSE { <<rc, cc>> : rc \in Comps(sh[1]), cc \in Comps(sh[2]) }
DecompCases(op) == UNION { { [op |-> op, shapes |-> <<sh>>, dch |-> ch] : ch \in DChunkings(sh) } : sh \in DShapes }

OpCases(op) ==
  CASE op \in DecompOps  -> {}
    [] op = "tensordot" -> UNION { TDCases(sa, sb) : sa \in Shapes, sb \in Shapes }
    [] op = "matmul"    -> MMCases
    [] op = "einsum"    -> EinsumCases
    [] OTHER            -> PairCases(op)
AllOpCases == UNION { OpCases(op) : op \in Ops }
AllShapes  == UNION { { c.shapes[k] : k \in DOMAIN c.shapes } : c \in AllOpCases }

\* chunkings with one zero-width block (front, back, inside) on one axis, the other axes in one block
ZeroChunkings(sh) ==
  UNION { { [e \in DOMAIN sh |-> IF e = d THEN z ELSE <<sh[e]>>] : z \in WithOneZero(sh[d]) } : d \in DOMAIN sh }

Init == /\ out = ""
        /\ \/ \E op \in Ops : cs \in OpCases(op)
           \/ \E op \in Ops \cap DecompOps : cs \in DecompCases(op)
           \/ \E sh \in AllShapes : cs = [op |-> "chunkings", shape |-> sh]

Expect == IF cs.op = "chunkings"
          THEN [all |-> SetToSeq(NDChunkings(cs.shape)), zero |-> SetToSeq(ZeroChunkings(cs.shape))]
          ELSE IF cs.op \in DecompOps
          THEN [dom |-> InDomain(cs.op, cs.shapes[1], cs.dch), fshapes |-> FactorShapes(cs.op, cs.shapes[1])]
          ELSE Res(cs)

Next == /\ out = ""
        /\ out' = ToJson([c |-> cs, e |-> Expect])
        /\ UNCHANGED cs

-----------------------------------------------------------------------------
(* design checks: the reference agrees with itself *)
IsOp(o) == cs.op = o
A1 == Operand(cs.shapes, 1)
B1 == Operand(cs.shapes, 2)
Letters(n, from) == [i \in 1..n |-> from + i]

\* tensordot is the einsum that gives every free axis its own letter and every contracted pair one letter
TensorDotIsEinsum ==
  (IsOp("tensordot") /\ ~Res(cs).err) =>
    LET nda == Len(cs.shapes[1])
        ndb == Len(cs.shapes[2])
        la  == [i \in DOMAIN cs.la |-> NormAxis(nda, cs.la[i])]
        ra  == [i \in DOMAIN cs.ra |-> NormAxis(ndb, cs.ra[i])]
        sa  == Letters(nda, 0)
        sb  == [y \in 1..ndb |-> IF y - 1 \in Rng(ra) THEN sa[la[PosOf(ra, y - 1)] + 1] ELSE nda + y]
        fa  == FreeAxes(nda, la)
        fb  == FreeAxes(ndb, ra)
        o   == [i \in 1..Len(fa) |-> sa[fa[i] + 1]] \o [i \in 1..Len(fb) |-> sb[fb[i] + 1]]
    IN Res(cs) = Einsum(<<sa, sb>>, o, FALSE, <<A1, B1>>)
\* matmul of matrices is tensordot over (last, first); dot of matrices likewise; inner contracts the last axes
MatrixProductsAgree ==
  /\ (IsOp("matmul") /\ Len(cs.shapes[1]) = 2 /\ Len(cs.shapes[2]) = 2) => Res(cs) = TensorDot(A1, B1, <<1>>, <<0>>)
  /\ (IsOp("dot") /\ Len(cs.shapes[1]) = 2 /\ Len(cs.shapes[2]) = 2) => Res(cs) = MatMul(A1, B1)
  /\ (IsOp("matmul") /\ Len(cs.shapes[1]) = 1 /\ Len(cs.shapes[2]) = 1) => Res(cs) = Inner(A1, B1)
\* batch matmul is the einsum ...ij,...jk->...ik whenever both operands have at least two axes
MatMulIsEinsum ==
  (IsOp("matmul") /\ ~Res(cs).err /\ Len(cs.shapes[1]) >= 2 /\ Len(cs.shapes[2]) >= 2) =>
     Res(cs) = Einsum(<< <<Ell, I, J>>, <<Ell, J, K>> >>, <<Ell, I, K>>, FALSE, <<A1, B1>>)
OuterIsEinsum ==
  IsOp("outer") => Res(cs) = Einsum(<< <<I>>, <<J>> >>, <<I, J>>, FALSE,
                                     << Arr(<<Size(A1.shape)>>, A1.cells), Arr(<<Size(B1.shape)>>, B1.cells) >>)
\* every result cell is a non-negative sum of products of positive ids; it is positive unless nothing is summed
CellsSane ==
  (cs.op \notin DecompOps \cup {"chunkings"} /\ ~Res(cs).err) =>
     /\ Len(Res(cs).cells) = Size(Res(cs).shape)
     /\ \A j \in DOMAIN Res(cs).cells : Res(cs).cells[j] >= 0
\* decompositions: the factor shapes chain (m, k)(k, n) with k = min(m, n); qr is defined exactly where tsqr or sfqr
\* is; a tall matrix in one column of blocks is in the domain of qr, tsqr and svd whatever its row chunking
DecompSane ==
  cs.op \in DecompOps =>
    LET sh == cs.shapes[1]
        fs == FactorShapes(cs.op, sh)
    IN /\ fs[1][1] = sh[1] /\ fs[Len(fs)][2] = sh[2] /\ fs[1][2] = fs[Len(fs)][1] /\ fs[1][2] \in {sh[1], sh[2]}
       /\ fs[1][2] <= sh[1] /\ fs[1][2] <= sh[2]
       /\ (cs.op = "qr" /\ InDomain("qr", sh, cs.dch)) => (InDomain("tsqr", sh, cs.dch) \/ InDomain("sfqr", sh, cs.dch))
       /\ (sh[1] >= sh[2] /\ Len(cs.dch[2]) = 1 /\ cs.op # "sfqr") => InDomain(cs.op, sh, cs.dch)
=============================================================================
