----------------------------- MODULE MaskedTrace -----------------------------
(* code -> spec for C33: each record is one numpy.ma-style call made on real
   dask arrays - the case fields of module Masked (shape, data, mask, maskform,
   fv, op and its parameters), the chunkings it was run with (which the expected
   result must not depend on, so the specification does not look at them), and
   what was observed: lazy shape / chunks / dtype class, per-block shapes, and
   the assembled data and mask, canonicalised (0 under the mask; means as the
   rational with a small denominator next to the float, obs.close saying the
   float was within tolerance of it).                                          *)
EXTENDS Masked, TraceIO

Bad(r) ==
  LET w == MExpected(r) IN
  IF w.err THEN Clause("ErrorExpected", r.obs.raised # "")
  ELSE IF r.obs.raised # "" THEN {"UnexpectedRaise"}
  ELSE IF r.obs.cshape # w.shape THEN {"Shape"}
  ELSE Clause("Mask", r.obs.mask = MaskOf(w.cells))
       \cup Clause("Data", r.obs.close /\ r.obs.data = DataOf(w.cells))
       \* a fully masked 0-d result is numpy.ma's constant `masked`, which has no dtype of its own
       \cup Clause("Kind", \/ (w.shape = <<>> /\ w.cells[1][2] = 1)
                            \/ (r.obs.kind = w.kind /\ r.obs.ckind = w.kind))
       \cup Clause("Meta", MetaOK(r.obs))

Init == TInit
Next == TNext(Bad)
=============================================================================
