--------------------------- MODULE MapBlocksTrace ---------------------------
(* code -> spec for C35.  One record = one case (module MapBlocks) run on the
   real dask.array.map_blocks / blockwise / apply_gufunc with a recording user
   function, and what was observed:

   map_blocks / blockwise:  obs = [raised, oshape, ochunks, dtk, events, blocks]
     events  one entry per call of the user function during ONE evaluation of all
             output keys: [hasid, bid, hasinfo, info, args]; args are views (module
             MapBlocks), info = [args |-> per array [shape, nch, loc, aloc],
             out |-> [shape, nch, loc, aloc, cshape, dtk]]
     blocks  the computed output blocks [shape, cells], row-major over the declared
             number of blocks; oshape / ochunks / dtk: the lazy metadata
   apply_gufunc:            obs = [raised, outs]; outs: per output [lshape, chunks,
             shape, cells, blocksok]

   Clauses:  NA  the case is outside the specified domain, or violates a documented chunking
                 precondition and dask refused it (counted as skipped)
             RZ  dask raised              ONCE  the calls are not exactly one per output block
             ARGS a block id was handed other blocks than its alignment says
             INFO block_info is wrong     RES  a computed block is not what its call returned
             META lazy shape / chunks / dtype disagree with the computed blocks
             GV   gufunc values or shape differ from numpy.vectorize      GM  gufunc metadata   *)
EXTENDS MapBlocks, TraceIO

Count(S) == Cardinality(S)

OnceOK(e, evs) ==
  /\ Len(evs) = Len(e.calls)
  /\ \A k \in DOMAIN e.calls :
       Count({j \in DOMAIN evs : evs[j].args = e.calls[k].args}) = Count({k2 \in DOMAIN e.calls : e.calls[k2].args = e.calls[k].args})

CallOf(e, bid) == e.calls[CHOOSE k \in DOMAIN e.calls : e.calls[k].bid = bid]
IsBid(e, bid)  == \E k \in DOMAIN e.calls : e.calls[k].bid = bid

ArgsOK(e, evs) ==
  \A j \in DOMAIN evs : evs[j].hasid => (IsBid(e, evs[j].bid) /\ evs[j].args = CallOf(e, evs[j].bid).args)

RegionOf(chunks, bc) == BlockRegion(chunks, bc)

InfoOK(c, e, obs, ev) ==
  LET inf  == ev.info
      bid  == inf.out.loc
  IN /\ inf.ok                                  \* (the harness could read every documented field)
     /\ IsBid(e, bid)
     /\ (ev.hasid => ev.bid = bid)
     /\ LET call == CallOf(e, bid) IN
        /\ ev.args = call.args
        /\ Len(inf.args) = Len(c.arrs)
        /\ \A i \in DOMAIN c.arrs :
             /\ inf.args[i].shape = c.arrs[i].shape
             /\ inf.args[i].loc = call.locs[i]              \* true chunk location (0 on broadcast / concatenated axes)
             /\ inf.args[i].aloc = call.regs[i]             \* true array location of the data handed over
             /\ Len(inf.args[i].nch) = ND(c.arrs[i])
             /\ \A o \in DOMAIN c.arrs[i].shape :            \* (axes concatenated by drop_axis count as one chunk or as they are)
                  (o + (MaxND(c.arrs) - ND(c.arrs[i])) - 1) \notin RangeOf(c.drop)
                     => inf.args[i].nch[o] = Len(c.arrs[i].chunks[o])
     /\ inf.out.shape = obs.oshape
     /\ inf.out.nch = NBlocks(obs.ochunks)
     /\ Len(bid) = Len(obs.ochunks) /\ \A d \in DOMAIN bid : bid[d] < Len(obs.ochunks[d])
     /\ inf.out.aloc = RegionOf(obs.ochunks, bid)
     /\ inf.out.cshape = [d \in DOMAIN bid |-> obs.ochunks[d][bid[d] + 1]]
     /\ inf.out.dtk = obs.dtk

ResOK(e, obs) ==
  /\ NBlocks(obs.ochunks) = e.onb
  /\ Len(obs.blocks) = Len(e.calls)
  /\ \A k \in DOMAIN e.calls : obs.blocks[k].shape = e.calls[k].ret.shape /\ obs.blocks[k].cells = e.calls[k].ret.cells

MetaOK(e, obs) ==
  /\ obs.oshape = ShapeOf(obs.ochunks)
  /\ obs.dtk = "i"
  /\ Len(obs.blocks) = Size(NBlocks(obs.ochunks))
  /\ LET cs == Coords(NBlocks(obs.ochunks)) IN
     \A k \in DOMAIN cs : obs.blocks[k].shape = [d \in DOMAIN cs[k] |-> obs.ochunks[d][cs[k][d] + 1]]

GuBad(e, obs) ==
  Clause("GV", /\ Len(obs.outs) = Len(e.outs)
               /\ \A o \in DOMAIN e.outs : obs.outs[o].shape = e.outs[o].shape /\ obs.outs[o].cells = e.outs[o].cells)
  \cup Clause("GM", \A o \in DOMAIN obs.outs : /\ obs.outs[o].lshape = obs.outs[o].shape
                                               /\ ShapeOf(obs.outs[o].chunks) = obs.outs[o].shape
                                               /\ obs.outs[o].blocksok)

Bad(r) ==
  LET c == r.c  e == Expect(c)  obs == r.obs IN
  IF ~e.ok /\ ~e.soft THEN {"NA"}
  ELSE IF ~e.ok THEN (IF obs.raised # "" THEN {"NA"} ELSE GuBad(e, obs))     \* refused, or answered: then correctly
  ELSE IF obs.raised # "" THEN {"RZ"}
  ELSE IF c.fam = "gu" THEN GuBad(e, obs)
  ELSE Clause("ONCE", OnceOK(e, obs.events))
       \cup Clause("ARGS", ArgsOK(e, obs.events))
       \cup Clause("INFO", \A j \in DOMAIN obs.events : obs.events[j].hasinfo => InfoOK(c, e, obs, obs.events[j]))
       \cup Clause("RES", ResOK(e, obs))
       \cup Clause("META", MetaOK(e, obs))

Init == TInit
Next == TNext(Bad)
=============================================================================
