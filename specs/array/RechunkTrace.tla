---------------------------- MODULE RechunkTrace ----------------------------
(* code -> spec for C23.  Each record is one call made on the real code:

   fam = "norm"    normalize_chunks(spec, shape, limit, dtype, previous_chunks):
                   obs = [raised, chunks]
   fam = "o2n"     old_to_new(old, new): pieces[d][j] = <<i, a, b>>...
   fam = "plan"    plan_rechunk(old, new, ...): steps
   fam = "rechunk" x.rechunk(target spec, threshold, block_size_limit, method) on an
                   id array: obs = lazy shape/chunks, per-block shapes, assembled cells.
                   The target is given as a spec in the vocabulary of Part 1 (an explicit
                   target is a sequence of "tuple" components), so "exactly the requested
                   chunks" and the automatic-axis rules are one clause.              *)
EXTENDS Rechunk, TraceIO

BadNorm(r) ==
  IF NormExpectErr(r.shape, r.spec) THEN Clause("ErrorExpected", r.obs.raised # "")
  ELSE IF r.obs.raised # "" THEN {"UnexpectedRaise"}
  ELSE NormBad(r.shape, r.spec, r.limit, r.itemsize, r.tol, r.obs.chunks)

BadO2N(r) ==
  IF r.raised # "" THEN {"UnexpectedRaise"}
  ELSE IF Len(r.pieces) # Len(r.old) THEN {"Rank"}
  ELSE Clause("Tiles", \A d \in DOMAIN r.old : TilesOK(r.old[d], r.new[d], r.pieces[d]))

BadPlan(r) ==
  IF r.raised # "" THEN {"UnexpectedRaise"}
  ELSE Clause("Plan", PlanOK(r.old, r.new, r.steps))

BadRechunk(r) ==
  IF r.obs.raised # "" THEN {"UnexpectedRaise"}
  ELSE Clause("Shape", r.obs.cshape = r.shape)
       \cup Clause("Content", r.obs.cells = Identity(r.shape))
       \cup (LET b == NormBad(r.shape, r.spec, r.limit, r.itemsize, r.tol, r.obs.chunks)
             IN IF b = {} THEN {} ELSE {"Chunks"})
       \cup Clause("Meta", MetaOK(r.obs))

Bad(r) == CASE r.fam = "norm"    -> BadNorm(r)
            [] r.fam = "o2n"     -> BadO2N(r)
            [] r.fam = "plan"    -> BadPlan(r)
            [] r.fam = "rechunk" -> BadRechunk(r)

Init == TInit
Next == TNext(Bad)
=============================================================================
