----------------------------- MODULE IndexingMC -----------------------------
(* Case enumeration for C20 (spec -> code).  Every initial state is one case
   together with the result the reference semantics demands; TLC additionally
   checks sanity invariants of the reference itself on every case.            *)
EXTENDS Indexing

CONSTANTS Fam,      \* "slice1d" | "nd" | "vindex" | "blocks"
          N,        \* bound on the 1-d extent (slice1d)
          Shapes    \* set of shapes (nd / vindex / blocks)

VARIABLES case, out

Bnd(n) == (-(n + 1)..(n + 1)) \cup {None}
Steps  == {-3, -2, -1, 1, 2, 3}

Slice1dCases ==
  UNION { [fam: {"slice1d"}, shape: {<<n>>},
           chunks: { <<c>> : c \in Chunkings(n) \cup (IF n \in 1..3 THEN WithOneZero(n) ELSE {}) },
           a: Bnd(n), b: Bnd(n), st: Steps] : n \in 0..N }

S(a, b, st) == [k |-> "s", a |-> a, b |-> b, st |-> st]
I(i) == [k |-> "i", i |-> i]
L(v) == [k |-> "l", v |-> v]
B(v) == [k |-> "b", v |-> v]
NA   == [k |-> "n"]

\* per-axis component menu for an axis of length n
Menu(n) ==
  { S(None, None, 1), S(1, None, 1), S(None, -1, 1), S(None, None, -1), S(None, None, 2),
    S(-2, None, -2), S(n, None, 1), S(1, 1, 1), S(-2, None, 1), S(None, 0, -1) }
  \cup { I(i) : i \in {0, -1, n - 1, n} }
  \cup (IF n = 0 THEN {L(<<>>)} ELSE
        { L(<<0>>), L(<<n - 1, 0>>), L(<<0, 0>>), L(<<-1, 0, n - 1>>), L(<<>>), L([j \in 1..n |-> j - 1]), L(<<n>>) }
        \cup (IF n >= 3 THEN { L([j \in 1..n |-> IF j = 2 THEN 0 ELSE j - 1]) } ELSE {}))
  \cup { B([j \in 1..n |-> j % 2]), B([j \in 1..n |-> 0]), B([j \in 1..n |-> 1]) }

NArr(cs) == Cardinality({p \in DOMAIN cs : cs[p].k \in {"l", "b"}})

RECURSIVE PerAxis(_)
PerAxis(shape) == IF shape = <<>> THEN {<<>>}
                  ELSE { <<c>> \o r : c \in Menu(Head(shape)), r \in PerAxis(Tail(shape)) }

InsertNone(cs) == {cs} \cup { SubSeq(cs, 1, p) \o <<NA>> \o SubSeq(cs, p + 1, Len(cs)) : p \in 0..Len(cs) }

NdCases ==
  UNION { UNION { UNION { [fam: {"nd"}, shape: {sh}, chunks: NDChunkings(sh), comps: {cs}]
                          : cs \in InsertNone(base) }
                  : base \in { x \in PerAxis(sh) : NArr(x) <= 1 } }
          : sh \in Shapes }

PtsMenu(n) == IF n = 0 THEN {} ELSE { <<0, n - 1>>, <<-1, 0>>, <<0, 0>>, <<n - 1, n - 1>>, <<n, 0>> }
RECURSIVE PerAxisPts(_)
PerAxisPts(shape) == IF shape = <<>> THEN {<<>>}
                     ELSE { <<c>> \o r : c \in PtsMenu(Head(shape)), r \in PerAxisPts(Tail(shape)) }
VindexCases ==
  UNION { [fam: {"vindex"}, shape: {sh}, chunks: NDChunkings(sh), pts: PerAxisPts(sh)] : sh \in Shapes }

\* block selectors for an axis with nb blocks
BMenu(nb) == { S(None, None, 1), S(None, None, -1), S(1, None, 1), S(None, None, 2), I(0), I(-1), I(nb),
               L(<<nb - 1, 0>>), L(<<0, 0>>) }
RECURSIVE PerAxisB(_)
PerAxisB(chunks) == IF chunks = <<>> THEN {<<>>}
                    ELSE { <<c>> \o r : c \in BMenu(Len(Head(chunks))), r \in PerAxisB(Tail(chunks)) }
BlocksCases ==
  UNION { UNION { [fam: {"blocks"}, shape: {sh}, chunks: {ch}, comps: { x \in PerAxisB(ch) : NArr(x) <= 1 }]
                  : ch \in NDChunkings(sh) } : sh \in Shapes }

\* vindex with a single integer on some axes (broadcast against the point lists)
PtsOrInt(n) == { L(v) : v \in PtsMenu(n) } \cup (IF n = 0 THEN {} ELSE { I(0), I(-1), I(n - 1) })
RECURSIVE PerAxisPI(_)
PerAxisPI(shape) == IF shape = <<>> THEN {<<>>}
                    ELSE { <<c>> \o r : c \in PtsOrInt(Head(shape)), r \in PerAxisPI(Tail(shape)) }
VindexIntCases ==
  UNION { [fam: {"vindexc"}, shape: {sh}, chunks: NDChunkings(sh),
           comps: { x \in PerAxisPI(sh) : (\E a \in DOMAIN x : x[a].k = "l") /\ (\E a \in DOMAIN x : x[a].k = "i") }]
          : sh \in Shapes }

\* full-shape boolean masks; the mask has its own chunking when it is a dask array
Masks(n) == { [j \in 1..n |-> IF j \in MS THEN 1 ELSE 0] : MS \in SUBSET (1..n) }
MaskCases ==
  UNION { [fam: {"mask"}, shape: {sh}, chunks: NDChunkings(sh), mchunks: NDChunkings(sh), mask: Masks(Size(sh))]
          : sh \in Shapes }

Cases == CASE Fam = "slice1d" -> Slice1dCases
           [] Fam = "vindexc" -> VindexIntCases
           [] Fam = "mask"    -> MaskCases
           [] Fam = "nd"      -> NdCases
           [] Fam = "vindex"  -> VindexCases
           [] Fam = "blocks"  -> BlocksCases

Expected(c) == CASE c.fam = "slice1d" -> Result(c.shape, <<S(c.a, c.b, c.st)>>)
                 [] c.fam = "nd"      -> Result(c.shape, c.comps)
                 [] c.fam = "vindex"  -> VIndex(c.shape, c.pts)
                 [] c.fam = "blocks"  -> BlocksResult(c.shape, c.chunks, c.comps)
                 [] c.fam = "vindexc" -> VIndexC(c.shape, c.comps)
                 [] c.fam = "mask"    -> MaskResult(c.shape, c.mask)

VARIABLE exp
Init == /\ case \in Cases
        /\ exp = Expected(case)
        /\ out = ToJson([c |-> case, e |-> exp])
Next == UNCHANGED <<case, out, exp>>

\* sanity of the reference itself (design check)
CellsInRange == ~exp.err => \A j \in DOMAIN exp.cells : exp.cells[j] \in 0..(Size(case.shape) - 1)
CellCount    == ~exp.err => Len(exp.cells) = ProdSeq(exp.shape)
\* a positive-step slice selects an increasing, a negative-step a decreasing, run of positions
SliceMonotone == case.fam = "slice1d" =>
                   \A j \in 1..(Len(exp.cells) - 1) : exp.cells[j + 1] - exp.cells[j] = case.st
\* selecting all blocks in order is the identity
BlocksIdentity == (case.fam = "blocks" /\ ~exp.err /\ \A a \in DOMAIN case.comps : case.comps[a] = FullSlice)
                    => exp.cells = [j \in 1..Size(case.shape) |-> j - 1]
=============================================================================
