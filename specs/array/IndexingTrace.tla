---------------------------- MODULE IndexingTrace ----------------------------
(* code -> spec for C20: each record is one indexing call made on the real
   dask array, with what was observed: lazy shape/chunks, per-block shapes,
   assembled content (as source ids).  TLC decides each record against the
   reference semantics of module Indexing.                                    *)
EXTENDS Indexing, TraceIO

Want(r) == CASE r.fam = "vindex" -> VIndex(r.shape, r.pts)
             [] r.fam = "vindexc" -> VIndexC(r.shape, r.comps)
             [] r.fam = "mask"    -> MaskResult(r.shape, r.mask)
             [] r.fam = "blocks" -> BlocksResult(r.shape, r.chunks, r.comps)
             [] OTHER            -> Result(r.shape, r.comps)

Bad(r) ==
  LET w == Want(r) IN
  IF w.err THEN Clause("ErrorExpected", r.obs.raised # "")
  ELSE IF r.obs.raised # "" THEN {"UnexpectedRaise"}
  ELSE Clause("Shape", r.obs.cshape = w.shape)
       \cup Clause("Content", r.obs.cells = w.cells)
       \cup Clause("Meta", MetaOK(r.obs))
       \cup (IF r.fam = "blocks" THEN Clause("BlockChunks", r.obs.chunks = w.chunks) ELSE {})

Init == TInit
Next == TNext(Bad)
=============================================================================
