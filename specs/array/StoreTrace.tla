----------------------------- MODULE StoreTrace -----------------------------
(* code -> spec for C29.  One record per run of the real code.

   kind = "store":  one da.store call (any scheduler) on instrumented targets:
       call    the call (module Store)              lm    "none" | "auto" | "user"
       lazy    compute=False                        ret   return_stored=True
       ev      the events in the order of their sequence numbers (taken under one harness lock):
                 [a |-> "return"]                       da.store returned
                 [a |-> "compute"] / "computed"         the harness starts / finished computing what
                                                        da.store returned (compute=False, or the lazy
                                                        arrays of return_stored=True)
                 [a |-> "acq"|"rel", who]               the caller's Lock object (lm = "user")
                 [a |-> "wb", who, t, pos, val]         target t: __setitem__ entered by thread `who`
                 [a |-> "we", who]                      ... left
                 [a |-> "rd", who, t, pos, val]         target t: __getitem__ returned val
       final   the cells of every target after everything
       obs     "events" (instrumented targets) | "final" (plain ndarray targets: ev is empty, only the
               final content and the returned arrays are judged)
       retc    (ret) the computed content of the returned arrays, one per source
   kind = "npy":   to_npy_stack + from_npy_stack of an id array:  shape, chunks, axis (1-based),
       o = [shape, chunks, cells] as read back.

   The events are stepped through the operations of module Store; the first clause of the
   property that fails is named.                                                         *)
EXTENDS Store, TraceIO

RECURSIVE Walk(_, _, _, _, _, _)
Walk(r, exp, cov, i, st, go) ==
  IF i > Len(r.ev) THEN FinalBad(exp, r.lm, st, r.final)
  ELSE LET e == r.ev[i] IN
    CASE e.a = "compute"  -> Walk(r, exp, cov, i + 1, st, TRUE)
      [] e.a = "return"   -> IF ~r.lazy /\ ~CompleteIn(exp, st) THEN {"StoredOnReturn"}
                             ELSE Walk(r, exp, cov, i + 1, st, go)
      [] e.a = "computed" -> IF ~CompleteIn(exp, st) THEN {"StoredOnCompute"}
                             ELSE Walk(r, exp, cov, i + 1, st, go)
      [] e.a = "acq"      -> IF ~CanAcquire(st) THEN {"LockFree"}
                             ELSE Walk(r, exp, cov, i + 1, DoAcquire(st, e.who), go)
      [] e.a = "rel"      -> IF ~CanRelease(st, e.who) THEN {"ReleaseByHolder"}
                             ELSE Walk(r, exp, cov, i + 1, DoRelease(st), go)
      [] e.a = "wb"       -> LET w   == [who |-> e.who, t |-> e.t, pos |-> e.pos, val |-> e.val]
                                 bad == WriteBeginBad(exp, cov, r.lm, st, w)
                                        \cup Cl("NothingBeforeCompute", go)
                                        \cup Cl("MalformedTrace", InFlight(st, e.who) = {})
                             IN IF bad # {} THEN bad ELSE Walk(r, exp, cov, i + 1, DoWriteBegin(st, w), go)
      [] e.a = "we"       -> LET fs == InFlight(st, e.who)
                             IN IF fs = {} THEN {"MalformedTrace"}
                                ELSE Walk(r, exp, cov, i + 1, DoWriteEnd(st, CHOOSE f \in fs : TRUE), go)
      [] e.a = "rd"       -> LET bad == ReadBad(exp, st, [t |-> e.t, pos |-> e.pos, val |-> e.val])
                             IN IF bad # {} THEN bad ELSE Walk(r, exp, cov, i + 1, st, go)
      [] OTHER            -> {"MalformedTrace"}


StoreBad(r) ==
  IF r.raised # "" THEN {"UnexpectedRaise"}
  ELSE IF ~WellFormed(r.call) THEN {"MalformedTrace"}
  ELSE LET ex == TLCEval(ExpectedAll(r.call))      \* evaluated once per record
           w  == IF r.obs = "final" THEN Cl("FinalContent", r.final = ex)
                 ELSE Walk(r, ex, TLCEval(CoverAll(r.call)), 1, TLCEval(S0(r.call)), ~r.lazy)
       IN IF w # {} THEN w
          ELSE Cl("ReturnedContent", r.ret => r.retc = [q \in 1..NSrc(r.call) |-> SourceCells(r.call, q)])

NpyBad(r) ==
  IF r.raised # "" THEN {"UnexpectedRaise"}
  ELSE NpyRoundTripBad(r.shape, r.chunks, r.axis, r.o)

\* TLC wraps long printed lines: report the first failing clause (in this order) and "More"
Order == <<"UnexpectedRaise", "MalformedTrace", "OutOfBounds", "NothingBeforeCompute", "InRegion", "Values", "WriteOnce",
           "NoOverlap", "MutualExclusion", "HoldsLock", "LockFree", "ReleaseByHolder", "LoadAfterStore", "LoadedValue",
           "StoredOnReturn", "StoredOnCompute", "AllWritten", "FinalContent", "LockReleased", "ReturnedContent",
           "Shape", "Content", "LazyChunks", "AxisChunks", "ValidChunks">>
Trim(b) == IF Cardinality(b) <= 1 THEN b
           ELSE LET i == CHOOSE i \in DOMAIN Order : Order[i] \in b /\ \A j \in 1..(i - 1) : Order[j] \notin b
                IN {Order[i], "More"}

Bad(r) == Trim(CASE r.kind = "store" -> StoreBad(r)
                 [] r.kind = "npy"   -> NpyBad(r)
                 [] OTHER            -> {"MalformedTrace"})

Init == TInit
Next == TNext(Bad)
=============================================================================
