------------------------------ MODULE RandomMC ------------------------------
(* Case enumeration and design checks for C28.

   Mode "draw":   every configuration [api, seed, dist, shape, chunks, nth] of the
                  bounded space (all chunkings of the listed shapes; dist ranges over
                  every distribution method of the API, choice with / without
                  replacement / probabilities / array population, permutation).
   Mode "pairs":  k = 2, 3 successive identical calls on ONE unseeded generator object,
                  every distribution, every chunking.
   Mode "choice": every choice(replace=False) request: population size n <= N
                  given as an integer or as an array under every chunking, every
                  size 0..n, output in one chunk or (size >= 2) split in two
                  (dask documents NotImplementedError for that: skipped), both
                  APIs, several seeds, shuffle on/off.
   Mode "design": all observation sequences of length <= 3 over 2 fingerprints
                  and all small choice results: the folds of module Random agree
                  with their global definitions.                              *)
EXTENDS Random, Chunks, Json

CONSTANTS Mode, N, Shapes, Seeds
VARIABLES case, out

CommonDists == { "beta", "binomial", "chisquare", "exponential", "f", "gamma", "geometric", "gumbel", "hypergeometric", "laplace",
                 "logistic", "lognormal", "logseries", "negative_binomial", "noncentral_chisquare", "noncentral_f", "normal",
                 "pareto", "poisson", "power", "rayleigh", "standard_cauchy", "standard_exponential", "standard_gamma",
                 "standard_normal", "standard_t", "triangular", "uniform", "vonmises", "wald", "weibull", "zipf", "multinomial",
                 "normal_nparg", "normal_daarg",
                 "choice", "choice_arraypop", "choice_p", "choice_norep", "permutation" }
GenDists == CommonDists \cup { "random", "integers", "choice_noshuffle" }
RsDists  == CommonDists \cup { "random_sample", "randint", "tomaxint", "random_integers" }
\* Mode "pairs": k successive identical calls on ONE unseeded generator object.  permutation is left out: the
\* permuted array is an indexing of its argument by the index drawn at creation, so two calls that happen to
\* draw the same permutation of a tiny axis rightly share their name
PairCases == UNION { [api: { "Generator" }, dist: GenDists \ { "permutation" }, shape: { sh }, chunks: NDChunkings(sh), k: { 2, 3 }]
                     \cup [api: { "RandomState" }, dist: RsDists \ { "permutation" }, shape: { sh }, chunks: NDChunkings(sh), k: { 2, 3 }]
                     : sh \in Shapes }
DrawCases == UNION { [api: { "Generator" }, seed: Seeds, dist: GenDists, shape: { sh }, chunks: NDChunkings(sh), nth: { 1, 2 }]
                     \cup [api: { "RandomState" }, seed: Seeds, dist: RsDists, shape: { sh }, chunks: NDChunkings(sh), nth: { 1, 2 }]
                     : sh \in Shapes }

IntPop == <<>>                  \* the population given as the integer n (no chunking)
ChoiceCases == UNION { UNION { [api: { "Generator", "RandomState" }, seed: Seeds, n: { n }, size: { k },
                                 popchunks: { IntPop } \cup Comps(n),
                                 outsplit: IF k >= 2 THEN { FALSE, TRUE } ELSE { FALSE },
                                 shuffle: BOOLEAN]
                               : k \in 0..n } : n \in 1..N }

\* design mode
Fps == { 0, 1, 2 }
ObsSeqs == UNION { [1..m -> [how: { "sync", "threads" }, obj: { 1, 2 }, fp: Fps]] : m \in 1..3 }
ResSeqs == UNION { [1..m -> 1..3] : m \in 0..3 }

Init == /\ case \in (CASE Mode = "draw" -> DrawCases
                       [] Mode = "pairs" -> PairCases
                       [] Mode = "choice" -> { c \in ChoiceCases : c.api = "Generator" \/ c.shuffle }   \* RandomState has no shuffle flag
                       [] Mode = "design" -> [kind: { "obs" }, obs: ObsSeqs] \cup [kind: { "res" }, res: ResSeqs, size: 0..3])
        /\ out = IF Mode = "design" THEN "" ELSE ToJson(case)
Next == UNCHANGED <<case, out>>

\* the fold rejects exactly the non-deterministic / raised observation sequences
DrawFoldIsGlobal == (Mode = "design" /\ case.kind = "obs") => ((DrawBad(case.obs) = {}) = DrawDeterministic(case.obs))
\* a Recompute clause is raised only for a history in which one collection object had two values, and every such history is rejected
RecomputeBlame == (Mode = "design" /\ case.kind = "obs") =>
                    /\ (DrawBad(case.obs) \cap { "Recompute_sync", "Recompute_threads" } # {}) => ~RecomputeOK(case.obs)
                    /\ ~RecomputeOK(case.obs) => DrawBad(case.obs) # {}
\* the clause set of a choice result is empty exactly when the contract holds (population <<1, 2>>)
ChoiceFoldIsGlobal == (Mode = "design" /\ case.kind = "res") =>
                        ((ChoiceBad(<<1, 2>>, case.size, case.res) = {}) = ChoiceOK(<<1, 2>>, case.size, case.res))
\* a result of the right length without repeats exists iff size <= population (the contract is satisfiable where dask must answer)
ChoiceSatisfiable == (Mode = "choice") => case.size <= case.n
=============================================================================
