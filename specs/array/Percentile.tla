----------------------------- MODULE Percentile -----------------------------
(* C32.  Two specifications.

   (1) Contract of the approximate percentile da.percentile(a, q) of a 1-d,
   NaN-free array (Pattern B).  The algorithm (per-chunk percentiles merged by
   merge_percentiles) is approximate, so the specification does not say which
   values come out - only what the property states: one value per requested
   percentile, every value between the minimum and the maximum of the data,
   non-decreasing in q, and - up to floating-point rounding - the minimum for
   q = 0 and the maximum for q = 100.  Values are compared in the fixed-point
   domain Fx(x) = floor(x * 2^10): flooring is monotone, so a true order
   relation never becomes false and a violation larger than 2^-10 is never
   masked; the two equalities allow one unit of rounding.
   q is a sequence of percents given as rationals <<num, den>>, sorted.

   (2) Reference semantics of nanquantile / nanpercentile along axes (Pattern C):
   the quantile (module Reductions, exact rationals) of every lane with its NaN
   cells dropped; a lane of NaNs only gives NaN.  The data may be integer
   (NaN-free) or float; q is an exact rational fraction, in particular one whose
   percent value is not an integer (12.5 %, 37.5 %, 62.5 %).  On NaN-free data it
   is also what percentile(a, 100 q, axis=...) of an n-d array must return.    *)
EXTENDS Reductions

Scale  == 1024
Fx(n)  == n * Scale                                   \* fixed point of an integer
FxR(x) == (x[1] * Scale) \div x[2]                    \* fixed point (floor) of a rational

\* names of the clauses an output `out` (fixed-point integers) violates for data d and percents q
ContractBad(d, q, out) ==
  LET lo == Fx(Min(Rng(d)))  hi == Fx(Max(Rng(d)))
      near(a, b) == a - b \in -1..1
  IN IF Len(out) # Len(q) THEN {"Length"}
     ELSE (IF \A i \in DOMAIN out : lo <= out[i] /\ out[i] <= hi THEN {} ELSE {"Within"})
          \cup (IF \A i \in 1..(Len(out) - 1) : out[i] <= out[i + 1] THEN {} ELSE {"Monotone"})
          \cup (IF \A i \in DOMAIN q : /\ q[i] = <<0, 1>> => near(out[i], lo)
                                       /\ q[i] = <<100, 1>> => near(out[i], hi)
                THEN {} ELSE {"Ends"})

SortedQ(q) == \A i \in 1..(Len(q) - 1) : RLe(q[i], q[i + 1])

\* the exact percentile of the whole data (numpy.percentile), used to show the contract satisfiable
ExactPercentile(d, q, method) == [i \in DOMAIN q |-> Quantile(d, RDiv(q[i], <<100, 1>>), method)]

-----------------------------------------------------------------------------
\* nanquantile(a, qs, axis, method, keepdims): q axis first (dropped for a scalar q); qs are fractions in [0, 1]
NanLaneQuantile(l, q, method) == IF DropNaN(l) = <<>> THEN RNaN ELSE Quantile(DropNaN(l), q, method)
NanQuant(shape, cells, qs, scalarq, method, ax, kd) ==
  LET per(q) == FoldWith(shape, cells, ax, kd, LAMBDA l : NanLaneQuantile(l, q, method), LAMBDA l : FALSE)
      one    == per(qs[1])
  IN IF one.err THEN Failure
     ELSE [shape |-> (IF scalarq THEN <<>> ELSE <<Len(qs)>>) \o one.shape,
           cells |-> FlattenSeq([j \in DOMAIN qs |-> per(qs[j]).cells]),
           err   |-> FALSE]
\* case fields: shape, cells, kind, q (fractions), sq, method, ax, kd.  dtype class as for quantile: the
\* methods that select a data point keep the dtype of the data, the interpolating ones compute in floating point
NanExpected(c) ==
  LET r == NanQuant(c.shape, c.cells, c.q, c.sq, c.method, c.ax, c.kd)
  IN [shape |-> r.shape, cells |-> r.cells, err |-> r.err, rat |-> TRUE,
      kind |-> IF c.method \in {"lower", "higher", "nearest"} THEN c.kind ELSE "f"]
=============================================================================
