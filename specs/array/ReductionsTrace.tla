--------------------------- MODULE ReductionsTrace ---------------------------
(* code -> spec for C22: each record is one reduction / scan call made on a real
   dask array - the case fields of module Reductions (fam, op, shape, cells,
   kind, ax, kd, p, k, q, sq, method), the chunking and split_every / method
   variant it was run with (which the expected result must not depend on, so
   the specification does not look at them), and what was observed: lazy
   shape / chunks / dtype class, per-block shapes, the assembled content.

   Observed floats are logged as the rational with a small denominator next to
   them when they are within the stated tolerance of it (obs.close; std is
   logged squared), so that TLC decides equality of exact rationals.          *)
EXTENDS Reductions, TraceIO

Bad(r) ==
  LET w == Expected(r) IN
  IF w.err THEN Clause("ErrorExpected", r.obs.raised # "")
  ELSE IF r.obs.raised # "" THEN {"UnexpectedRaise"}
  ELSE IF r.obs.cshape # w.shape THEN {"Shape"}
  ELSE Clause("Content", /\ r.obs.close
                         /\ IF r.op = "argtopk" THEN ArgTopKOK(r.shape, r.cells, r.k, r.ax, r.obs.cells)
                            ELSE r.obs.cells = w.cells)
       \cup Clause("Kind", r.obs.kind = w.kind /\ r.obs.ckind = w.kind)
       \cup Clause("Meta", MetaOK(r.obs))

Init == TInit
Next == TNext(Bad)
=============================================================================
