---------------------------- MODULE CreationTrace ----------------------------
(* code -> spec for C34.  Records:
   fam = "call": one creation call on real dask (r.c = the case, r.obs = lazy shape/chunks, per-block
                 shapes, assembled cells times the reference denominator, dtype class); decided against Res.
   fam = "inv" : chunk invariance where the rational model is silent (non-dyadic arange / linspace):
                 r.ref = the observation under a single chunk, r.obs = the observation under another
                 chunk specification, values in units of 10^-6.                                          *)
EXTENDS Creation, TraceIO

BadCall(r) ==
  LET w == Res(r.c) IN
  IF w.err THEN {}
  ELSE IF r.obs.raised # "" THEN {"UnexpectedRaise"}
  ELSE Clause("Shape", r.obs.cshape = w.shape)
       \cup Clause("Content", r.obs.cells = w.cells)
       \cup Clause("Kind", r.obs.kind = w.kind)
       \cup Clause("Meta", MetaOK(r.obs))

BadInv(r) ==
  IF r.ref.raised # "" THEN {}           \* the single-chunk call itself failed: nothing to compare with
  ELSE IF r.obs.raised # "" THEN {"UnexpectedRaise"}
  ELSE Clause("ChunkInvariance", SameAsSingleChunk(r.ref, r.obs)) \cup Clause("Meta", MetaOK(r.obs))

Bad(r) == IF r.fam = "inv" THEN BadInv(r) ELSE BadCall(r)

Init == TInit
Next == TNext(Bad)
=============================================================================
