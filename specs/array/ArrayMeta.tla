------------------------------ MODULE ArrayMeta ------------------------------
(* C25 - lazy array metadata matches the computed data.  Thin specification:
   only predicates over one *observation* of a dask array,

     obs = [ lshape : declared .shape            (-1 = unknown / NaN)
             chunks : declared .chunks           (-1 = unknown / NaN)
             dt     : declared .dtype (string)
             raised : "" or the name of the exception
             blocks : sequence of [i : 0-based block index, taken from the key
                                   s : shape of the value computed for that key
                                   dt: its dtype (string)
                                   c : its cells, row-major, as value codes]
             whole  : [s, dt, c] of x.compute() ]

   Value codes are small integers assigned by the recorder so that equal codes
   mean equal values (NaN = NaN); only equality of codes is used here.
   Unknown extents are a don't-care for the clauses that mention them; what is
   *computed* is never unknown, so the block grid and the reassembly are always
   decided.  Used by ArrayMetaTrace (C25) and by the Elemwise / SetItem trace
   specifications (C19, C21) for their lazy-metadata clause.                  *)
EXTENDS NDArray

NumBlocks(obs) == [a \in DOMAIN obs.chunks |-> Len(obs.chunks[a])]
ND(obs)        == Len(obs.chunks)
BlockSet(obs)  == {obs.blocks[j] : j \in DOMAIN obs.blocks}

\* all 0-based block indices of the declared grid
GridIndices(obs) ==
  LET nb == NumBlocks(obs)
  IN IF ProdSeq(nb) = 0 THEN {}
     ELSE LET T == Cart(nb) IN {[a \in DOMAIN nb |-> T[j][a] - 1] : j \in DOMAIN T}

-----------------------------------------------------------------------------
\* one key, hence one computed block, per cell of the declared block grid
KeysMatchGrid(obs) ==
  /\ Len(obs.blocks) = ProdSeq(NumBlocks(obs))
  /\ {b.i : b \in BlockSet(obs)} = GridIndices(obs)

\* every computed block has the rank of the array and the shape .chunks declares
BlockShapesDeclared(obs) ==
  \A b \in BlockSet(obs) :
     /\ Len(b.s) = ND(obs)
     /\ Len(b.i) = ND(obs)
     /\ \A a \in 1..ND(obs) :
           (b.i[a] < Len(obs.chunks[a]) /\ obs.chunks[a][b.i[a] + 1] >= 0)
              => b.s[a] = obs.chunks[a][b.i[a] + 1]

\* declared shape = sum of declared chunks = computed shape (where known)
ShapeAgrees(obs) ==
  /\ Len(obs.lshape) = Len(obs.whole.s)
  /\ Len(obs.lshape) = ND(obs)
  /\ \A a \in DOMAIN obs.lshape :
        /\ obs.lshape[a] >= 0 => obs.lshape[a] = obs.whole.s[a]
        /\ (\A j \in DOMAIN obs.chunks[a] : obs.chunks[a][j] >= 0)
              => /\ SumSeq(obs.chunks[a]) = obs.whole.s[a]
                 /\ obs.lshape[a] = obs.whole.s[a]

\* declared dtype = dtype of the computed whole = dtype of every computed block
DtypeAgrees(obs) ==
  /\ obs.whole.dt = obs.dt
  /\ \A b \in BlockSet(obs) : b.dt = obs.dt

-----------------------------------------------------------------------------
(* Reassembly.  Offsets are taken from the shapes of the *computed* blocks, so
   the clause is decided even when .chunks is unknown: blocks sharing a block
   coordinate on an axis must agree on their extent there (a grid), the extents
   add up to the whole, and every cell of every block equals the cell of the
   whole at (offset of the block + local index).                              *)
BlockAt(obs, idx) == CHOOSE b \in BlockSet(obs) : b.i = idx

\* extent along axis a of the blocks with coordinate j (0-based) there
AxisExtent(obs, a, j) ==
  LET b == CHOOSE x \in BlockSet(obs) : x.i[a] = j IN b.s[a]

IsGrid(obs) ==
  \A b \in BlockSet(obs) : \A a \in 1..ND(obs) : b.s[a] = AxisExtent(obs, a, b.i[a])

RECURSIVE AxisOffset(_, _, _)
AxisOffset(obs, a, j) == IF j = 0 THEN 0 ELSE AxisExtent(obs, a, j - 1) + AxisOffset(obs, a, j - 1)

Reassembles(obs) ==
  /\ KeysMatchGrid(obs)
  /\ \A b \in BlockSet(obs) : Len(b.s) = ND(obs) /\ Len(b.c) = ProdSeq(b.s)
  /\ Len(obs.whole.s) = ND(obs)
  /\ Len(obs.whole.c) = ProdSeq(obs.whole.s)
  /\ IsGrid(obs)
  /\ \A a \in 1..ND(obs) : AxisOffset(obs, a, Len(obs.chunks[a])) = obs.whole.s[a]
  /\ \A b \in BlockSet(obs) :
        LET T == IF ProdSeq(b.s) = 0 THEN <<>> ELSE Cart(b.s) IN
        \A t \in DOMAIN T :
           b.c[t] = obs.whole.c[Ravel(obs.whole.s,
                                      [a \in 1..ND(obs) |-> AxisOffset(obs, a, b.i[a]) + T[t][a] - 1]) + 1]

-----------------------------------------------------------------------------
\* the clauses of the property, by (short) name
MetaClauses(obs) ==
  (IF KeysMatchGrid(obs) THEN {} ELSE {"Keys"})
  \cup (IF KeysMatchGrid(obs) /\ ~BlockShapesDeclared(obs) THEN {"BlockShape"} ELSE {})
  \cup (IF ShapeAgrees(obs) THEN {} ELSE {"LazyShape"})
  \cup (IF DtypeAgrees(obs) THEN {} ELSE {"Dtype"})
  \cup (IF KeysMatchGrid(obs) /\ ~Reassembles(obs) THEN {"Reassemble"} ELSE {})

\* TLC wraps printed values longer than a line, which the verdict reader does not
\* follow: report at most three clause names, in the fixed order `ord`
TrimClauses(b, ord) ==
  LET sel == SelectSeq(ord, LAMBDA c : c \in b)
  IN IF Len(sel) <= 3 THEN b ELSE {sel[1], sel[2], sel[3], "More"}
MetaOrder == <<"Keys", "BlockShape", "LazyShape", "Dtype", "Reassemble">>

MetaHolds(obs) == MetaClauses(obs) = {}
=============================================================================
