---------------------------- MODULE PercentileMC ----------------------------
(* Input enumeration for C32 and design check.

   fam "pct": every data sequence over 0..MaxVal of length 1..AllUpTo (ALL of
   them), plus the seeded longer sequences LongData, x a menu of sorted percent
   vectors that contain 0, 100, both or neither x the five interpolation
   methods, with the set of ALL chunkings of the data (plus chunkings with one
   empty chunk for short data).  The contract has no expected value to export;
   the state carries the bounds and the exact percentile of the whole data, and
   the invariants show that the contract is satisfiable and not over-strict: the
   exact NumPy percentile fulfils every clause, for every method.

   fam "nanq": seeded NaN-containing fills x q forms x methods x axes x keepdims
   with the expected nanquantile of module Percentile.                        *)
EXTENDS Percentile

CONSTANTS Fam,        \* "pct" | "nanq"
          MaxVal, AllUpTo, LongData,     \* pct
          Fills, QForms                  \* nanq: [shape, cells, kind], [q, sq, kd]

VARIABLES case, done, exp, out

R(n) == <<n, 1>>
QMenu == { <<R(0), R(100)>>, <<R(0), <<1, 2>>, <<199, 2>>, R(100)>>, <<R(0), R(25), R(50), R(75), R(100)>>,
           <<R(50)>>, <<R(0)>>, <<R(100)>>, <<R(25), R(75)>>, <<R(0), R(0), R(50), R(100), R(100)>> }
Methods == {"linear", "lower", "higher", "midpoint", "nearest"}

AllData == UNION { [1..n -> 0..MaxVal] : n \in 1..AllUpTo }     \* (a set of functions = sequences)
ChunkingsOf(n) == { <<c>> : c \in Chunkings(n) \cup (IF n <= 3 THEN WithOneZero(n) ELSE {}) }

PctCases(LD) == { [fam |-> "pct", d |-> d, q |-> q, sq |-> FALSE, method |-> m, chunkings |-> ChunkingsOf(Len(d))]
              : d \in AllData \cup LD, q \in QMenu, m \in Methods }
            \cup { [fam |-> "pct", d |-> d, q |-> <<qq>>, sq |-> TRUE, method |-> "linear", chunkings |-> ChunkingsOf(Len(d))]
                   : d \in LD, qq \in {R(0), R(50), R(100)} }

Singles(nd)  == { <<a>> : a \in 0..(nd - 1) } \cup { <<-1>> }
NanAxes(nd)  == {<<None>>} \cup Singles(nd) \cup (IF nd = 2 THEN { <<0, 1>> } ELSE {})
NanCases(FS) == UNION { { [fam |-> "nanq", shape |-> f.shape, cells |-> f.cells, kind |-> f.kind,
                           chunkings |-> NDChunkings(f.shape), q |-> qf.q, sq |-> qf.sq, kd |-> qf.kd, method |-> m, ax |-> ax]
                          : qf \in QForms, m \in Methods, ax \in NanAxes(Len(f.shape)) } : f \in FS }

\* (parameterised so that TLC, which evaluates constant definitions eagerly, builds only the family asked for)
PctOrNan(fam) == IF fam = "pct" THEN PctCases(LongData) ELSE NanCases(Fills)
Cases == PctOrNan(Fam)

PctInfo(c) == [lo |-> Fx(Min(Rng(c.d))), hi |-> Fx(Max(Rng(c.d))),
               ref |-> LET e == ExactPercentile(c.d, c.q, c.method) IN [i \in DOMAIN e |-> FxR(e[i])]]

NotYet == [err |-> TRUE]
Init == /\ case \in Cases
        /\ done = FALSE
        /\ exp = NotYet
        /\ out = "null"
Next == /\ ~done
        /\ done' = TRUE
        /\ exp' = IF case.fam = "pct" THEN PctInfo(case) ELSE NanExpected(case)
        /\ out' = ToJson([c |-> case, e |-> exp'])
        /\ UNCHANGED case

-----------------------------------------------------------------------------
QsSorted == (done /\ case.fam = "pct") => SortedQ(case.q)
\* the exact percentile of the whole data satisfies the contract: it is satisfiable and no stricter than NumPy
ReferenceSatisfies == (done /\ case.fam = "pct") => ContractBad(case.d, case.q, exp.ref) = {}
\* and the contract is not trivial: shifting the output of q = 0 above the minimum by one data unit is rejected
ContractBites == (done /\ case.fam = "pct" /\ case.q[1] = <<0, 1>> /\ Min(Rng(case.d)) < Max(Rng(case.d))) =>
                    "Ends" \in ContractBad(case.d, case.q, [exp.ref EXCEPT ![1] = exp.ref[1] + Scale])
\* nanquantile: every value lies within the non-NaN data; a NaN result only for a lane of NaNs
NanWithin == (done /\ case.fam = "nanq" /\ ~exp.err /\ DropNaN(case.cells) # <<>>) =>
                \A j \in DOMAIN exp.cells :
                   exp.cells[j] = RNaN \/ ( /\ RLe(RInt(Min(Rng(DropNaN(case.cells)))), exp.cells[j])
                                             /\ RLe(exp.cells[j], RInt(Max(Rng(DropNaN(case.cells))))) )
NanCellCount == (done /\ case.fam = "nanq" /\ ~exp.err) => Len(exp.cells) = ProdSeq(exp.shape)
\* without NaN cells nanquantile is quantile
NanFreeIsQuantile == (done /\ case.fam = "nanq" /\ ~exp.err /\ ~HasNaN(case.cells)) =>
                        exp.cells = Quant(case.shape, case.cells, case.q, case.sq, case.method, case.ax, case.kd).cells
=============================================================================
