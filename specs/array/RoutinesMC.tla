----------------------------- MODULE RoutinesMC -----------------------------
(* Case enumeration and design check for C27.

   A state is one case - an operation, a data fill chosen by the harness
   (seeded; all short fills, a sample of the longer ones; NaN is the value 9)
   and the operation's arguments from a menu - with the result the reference of
   module Routines demands, or (op = "chunkings") the complete list of
   chunkings of one shape.  The results do not depend on the chunking of any
   input, so the harness runs every case under the chunkings of its inputs.

   A case is picked in Init and evaluated in the one step it can take (TLC
   generates initial states in one thread, successors in parallel).           *)
EXTENDS Routines

CONSTANTS Ops,        \* set of operation names
          Fills,      \* set of [shape, cells]: 1-d and 2-d data fills over 0..3 (and NaN)
          CoShapes,   \* shapes for coarsen / compress (cells are element ids)
          ZeroN       \* chunkings with one zero-width block for extents <= ZeroN

VARIABLES kase, fin, xpd, out

Clean(f) == ~HasNaN(f.cells)
OneD(f)  == Len(f.shape) = 1
Nd(f)    == Len(f.shape)
N(f)     == Len(f.cells)

-----------------------------------------------------------------------------
(* argument menus                                                             *)
EdgeMenu == {<<0, 1, 2, 3, 4>>, <<0, 2, 4>>, <<1, 3>>, <<0, 1, 3>>, <<2, 5>>, <<-1, 0>>}
LinMenu  == {<<2, 0, 4>>, <<4, 0, 4>>, <<1, 1, 3>>, <<3, 0, 3>>}             \* <<bins, lo, hi>>
BinsMenu == {<<1>>, <<0, 2>>, <<1, 2, 3>>, <<0, 1, 1, 3>>, <<3, 1>>, <<2, 2, 0>>, <<3, 2, 0>>, <<>>}
VMenu    == {[shape |-> <<6>>, cells |-> <<-1, 0, 1, 2, 3, 4>>], [shape |-> <<2, 3>>, cells |-> <<3, 0, 2, 4, 1, -1>>],
             [shape |-> <<2>>, cells |-> <<NaN, 1>>], [shape |-> <<0>>, cells |-> <<>>]}
TestMenu == {[shape |-> <<0>>, cells |-> <<>>], [shape |-> <<1>>, cells |-> <<0>>], [shape |-> <<2>>, cells |-> <<1, 3>>],
             [shape |-> <<3>>, cells |-> <<3, 1, 1>>], [shape |-> <<2, 2>>, cells |-> <<2, 0, 2, 5>>],
             [shape |-> <<2>>, cells |-> <<NaN, 2>>]}
AxesMenu(nd) == {<<None>>, <<0>>, <<-1>>} \cup (IF nd = 2 THEN {<<1>>, <<0, 1>>, <<-2>>} ELSE {<<1>>})
DimsMenu == {<<4>>, <<2, 3>>, <<2, 2, 2>>}
UDims    == {<<4>>, <<2, 2>>, <<2, 3>>, <<4, 1>>, <<3>>}

Rev(s) == [j \in DOMAIN s |-> s[Len(s) + 1 - j]]

RECURSIVE FacMenu(_)
FacMenu(sh) == IF sh = <<>> THEN {<<>>}
               ELSE {<<f>> \o r : f \in {g \in {1, 2, 3} : g <= Head(sh) \/ g = 1}, r \in FacMenu(Tail(sh))}
Bits(k) == [1..k -> {0, 1}]

-----------------------------------------------------------------------------
Pick ==
  \/ /\ "unique" \in Ops
     /\ \E f \in Fills : \E ri \in BOOLEAN, rv \in BOOLEAN, rc \in BOOLEAN :
           kase = [op |-> "unique", shape |-> f.shape, cells |-> f.cells, ri |-> ri, rv |-> rv, rc |-> rc]
  \/ /\ "bincount" \in Ops
     /\ \E f \in {g \in Fills : Clean(g) /\ OneD(g)} : \E hw \in BOOLEAN : \E ml \in {0, 2, 6} :
           kase = [op |-> "bincount", shape |-> f.shape, cells |-> f.cells, hasw |-> hw, minlength |-> ml]
  \/ /\ "histogram" \in Ops
     /\ \E f \in Fills : \E hw \in BOOLEAN, dn \in BOOLEAN :
           \/ \E e \in EdgeMenu : kase = [op |-> "histogram", shape |-> f.shape, cells |-> f.cells, edges |-> e, lin |-> <<>>,
                                          hasw |-> hw, density |-> dn]
           \/ \E g \in LinMenu : kase = [op |-> "histogram", shape |-> f.shape, cells |-> f.cells,
                                         edges |-> LinEdges(g[1], g[2], g[3]), lin |-> g, hasw |-> hw, density |-> dn]
  \/ /\ "histogram2d" \in Ops
     /\ \E f \in {g \in Fills : Clean(g) /\ OneD(g)} : \E hw \in BOOLEAN, dn \in BOOLEAN :
        \E e \in {<<0, 2, 4>>, <<0, 1, 2, 3, 4>>} : \E ey \in {<<0, 1, 4>>, <<1, 3>>} :
           kase = [op |-> "histogram2d", shape |-> f.shape, cells |-> f.cells, ycells |-> Rev(f.cells), edges |-> e, yedges |-> ey,
                   hasw |-> hw, density |-> dn]
  \/ /\ "digitize" \in Ops
     /\ \E f \in Fills : \E b \in BinsMenu : \E rt \in BOOLEAN :
           kase = [op |-> "digitize", shape |-> f.shape, cells |-> f.cells, bins |-> b, right |-> rt]
  \/ /\ "searchsorted" \in Ops
     /\ \E f \in {g \in Fills : OneD(g)} : \E v \in VMenu : \E sd \in {"left", "right"} :
           kase = [op |-> "searchsorted", shape |-> f.shape, cells |-> f.cells, vshape |-> v.shape, v |-> v.cells, side |-> sd]
  \/ /\ "isin" \in Ops
     /\ \E f \in Fills : \E ts \in TestMenu : \E iv \in BOOLEAN :
           kase = [op |-> "isin", shape |-> f.shape, cells |-> f.cells, tshape |-> ts.shape, test |-> ts.cells, invert |-> iv]
  \/ /\ "nonzero" \in Ops
     /\ \E f \in Fills : \E o \in {"argwhere", "nonzero", "flatnonzero"} :
           kase = [op |-> o, shape |-> f.shape, cells |-> f.cells]
  \/ /\ "count_nonzero" \in Ops
     /\ \E f \in Fills : \E ax \in AxesMenu(Nd(f)) :
           kase = [op |-> "count_nonzero", shape |-> f.shape, cells |-> f.cells, axes |-> ax]
  \/ /\ "ravel_multi_index" \in Ops
     /\ \E f \in {g \in Fills : Clean(g)} : \E dm \in DimsMenu : \E bp \in {0, 1} : \E ov \in {0, 1} :
           /\ ov = 1 => bp = 0
           /\ kase = [op |-> "ravel_multi_index", shape |-> f.shape, cells |-> f.cells, dims |-> dm, bump |-> bp, over |-> ov]
  \/ /\ "unravel_index" \in Ops
     /\ \E f \in {g \in Fills : Clean(g)} : \E dm \in UDims :
           kase = [op |-> "unravel_index", shape |-> f.shape, cells |-> f.cells, dims |-> dm]
  \/ /\ "coarsen" \in Ops
     /\ \E sh \in CoShapes : \E rd \in {"sum", "max"} : \E fc \in FacMenu(sh) : \E tr \in BOOLEAN :
           kase = [op |-> "coarsen", shape |-> sh, red |-> rd, fac |-> fc, trim |-> tr]
  \/ /\ "compress" \in Ops
     /\ \E sh \in CoShapes : \E ax \in {None} \cup (-Len(sh))..(Len(sh) - 1) :
        \E k \in 0..((IF ax = None THEN Size(sh) ELSE sh[NormAxis(Len(sh), ax) + 1]) + 1) : \E cd \in Bits(IF k <= 5 THEN k ELSE 5) :
           kase = [op |-> "compress", shape |-> sh, cond |-> cd, axis |-> ax]
  \/ \E sh \in {f.shape : f \in Fills} \cup CoShapes \cup {v.shape : v \in VMenu} \cup {ts.shape : ts \in TestMenu}
               \cup {<<Len(dm)>> \o f.shape : dm \in DimsMenu, f \in Fills} \cup {<<k>> : k \in 0..6} :
        kase = [op |-> "chunkings", shape |-> sh]

-----------------------------------------------------------------------------
ZAxis(e) == IF e >= 1 /\ e <= ZeroN THEN WithOneZero(e) ELSE {}
PlainAxis(e) == IF e = 0 THEN {<<0>>} ELSE {<<e>>, [j \in 1..e |-> 1]}
RECURSIVE ZeroAt(_, _)
ZeroAt(sh, d) == IF sh = <<>> THEN {<<>>}
                 ELSE {<<c>> \o r : c \in (IF d = 1 THEN ZAxis(Head(sh)) ELSE PlainAxis(Head(sh))), r \in ZeroAt(Tail(sh), d - 1)}
ZeroChunkings(sh) == UNION {ZeroAt(sh, d) : d \in DOMAIN sh}
ChunkingsOf(sh) == NDChunkings(sh) \cup ZeroChunkings(sh)

(* Strata the harness never samples out (field `must` of the exported result):
   - searchsorted with the one-dimensional integer needles: the positions p such that the sorted
     array holds the same value at p and p + 1 - a run of equal values that a chunk border after
     position p cuts in two; the harness always runs the case under every chunking that has such a
     border, for side left and right (both are cases of their own);
   - digitize over bins that decrease somewhere: always run (under chunkings the harness rotates
     through), for right = FALSE and TRUE.                                                       *)
RunBorders(c) == LET a == SortSeq(c.cells, Le) IN {p \in 1..(Len(a) - 1) : a[p] = a[p + 1] /\ a[p] # NaN}
Must(c) == IF c.op = "searchsorted" /\ c.vshape = <<6>> THEN SetToSeq(RunBorders(c))
           ELSE IF c.op = "digitize" /\ Decreasing(c.bins) /\ ~Increasing(c.bins) THEN <<1>>
           ELSE <<>>

Expected(c) == IF c.op = "chunkings" THEN [err |-> FALSE, outs |-> <<>>, all |-> SetToSeq(ChunkingsOf(c.shape))]
               ELSE IF c.op \in {"searchsorted", "digitize"} THEN Res(c) @@ [must |-> Must(c)]
               ELSE Res(c)

NotYet == [err |-> TRUE, outs |-> <<>>]
Init == /\ Pick
        /\ fin = FALSE
        /\ xpd = NotYet
        /\ out = "null"
Next == /\ ~fin
        /\ fin' = TRUE
        /\ xpd' = Expected(kase)
        /\ out' = ToJson([c |-> kase, e |-> xpd'])
        /\ UNCHANGED kase

-----------------------------------------------------------------------------
(* Design check: independent characterisations of the reference.              *)
Good(o) == fin /\ kase.op = o /\ ~xpd.err
Cells   == kase.cells
Out(k)  == xpd.outs[k]

CellCount == (fin /\ kase.op # "chunkings" /\ ~xpd.err) =>
               \A k \in DOMAIN xpd.outs : Len(Out(k).cells) = Size(Out(k).shape)

\* unique: strictly increasing values that are exactly the values present; first positions, inverse
\* and counts are consistent with the data
UniqueOK == Good("unique") =>
   LET u == Out(1).cells
       pi == 2
       pv == 2 + (IF kase.ri THEN 1 ELSE 0)
       pc == pv + (IF kase.rv THEN 1 ELSE 0)
   IN /\ \A j \in 1..(Len(u) - 1) : Lt(u[j], u[j + 1])
      /\ Rng(u) = Rng(Cells)
      /\ kase.ri => \A p \in DOMAIN u : /\ Cells[Out(pi).cells[p] + 1] = u[p]
                                         /\ \A q \in 1..Out(pi).cells[p] : Cells[q] # u[p]
      /\ kase.rv => /\ Out(pv).shape = kase.shape
                    /\ \A j \in DOMAIN Cells : u[Out(pv).cells[j] + 1] = Cells[j]
      /\ kase.rc => /\ SumSeq(Out(pc).cells) = Len(Cells)
                    /\ \A p \in DOMAIN u : Out(pc).cells[p] >= 1

BincountOK == Good("bincount") =>
   /\ Len(Out(1).cells) >= kase.minlength
   /\ SumSeq(Out(1).cells) = (IF kase.hasw THEN SumSeq(Weights(Len(Cells))) ELSE Len(Cells))
   /\ Cells # <<>> => Len(Out(1).cells) >= MaxOfSeq(Cells) + 1

\* the counts of a histogram add up to the (weight of the) cells inside the outer edges; densities integrate to 1
HistogramOK == Good("histogram") =>
   LET e == kase.edges
       w == Weights(Len(Cells))
       inside(v) == v # NaN /\ e[1] <= v /\ v <= e[Len(e)]
       tot == IF kase.hasw THEN SumIf(Cells, w, inside) ELSE CountIf(Cells, inside)
       RSum(s) == LET RECURSIVE go(_) go(j) == IF j = 0 THEN RInt(0) ELSE RAdd(go(j - 1), s[j]) IN go(Len(s))
   IN IF ~kase.density THEN SumSeq(Out(1).cells) = tot
      ELSE IF tot = 0 THEN \A b \in DOMAIN Out(1).cells : Out(1).cells[b] = RNaN
      ELSE RSum([b \in DOMAIN Out(1).cells |-> RMul(Out(1).cells[b], RInt(e[b + 1] - e[b]))]) = RInt(1)

\* digitize over increasing bins is searchsorted on the bins
DigitizeOK == (Good("digitize") /\ Increasing(kase.bins)) =>
   Out(1).cells = SearchSorted(Arr(<<Len(kase.bins)>>, kase.bins), Arr(kase.shape, Cells),
                               IF kase.right THEN "left" ELSE "right").outs[1].cells

\* searchsorted: inserting at the returned position keeps the array sorted
SearchSortedOK == Good("searchsorted") =>
   LET a == SortSeq(Cells, Le) IN
   \A j \in DOMAIN kase.v :
      LET p == Out(1).cells[j]
          x == kase.v[j]
      IN /\ 0 <= p /\ p <= Len(a)
         /\ \A q \in 1..p : IF kase.side = "left" THEN Lt(a[q], x) ELSE Le(a[q], x)
         /\ \A q \in (p + 1)..Len(a) : IF kase.side = "left" THEN ~Lt(a[q], x) ELSE ~Le(a[q], x)

IsInOK == Good("isin") =>
   Out(1).cells = [j \in DOMAIN Cells |-> 1 - IsIn(Arr(kase.shape, Cells), Arr(kase.tshape, kase.test), ~kase.invert).outs[1].cells[j]]

\* the three spellings of "where is it non-zero" agree with each other and with count_nonzero
NonZeroOK == (fin /\ kase.op \in {"argwhere", "nonzero", "flatnonzero"}) =>
   LET a  == Arr(kase.shape, Cells)
       k  == CountNonZero(a, <<None>>).outs[1].cells[1]
       aw == ArgWhere(a).outs[1]
   IN /\ aw.shape = <<k, Len(kase.shape)>>
      /\ Len(NonZero(a).outs) = Len(kase.shape)
      /\ \A d \in 1..Len(kase.shape) : NonZero(a).outs[d].cells = [j \in 1..k |-> aw.cells[(j - 1) * Len(kase.shape) + d]]
      /\ FlatNonZero(a).outs[1].cells = [j \in 1..k |-> Ravel(kase.shape, SubSeq(aw.cells, (j - 1) * Len(kase.shape) + 1, j * Len(kase.shape)))]
      /\ \A j \in 1..k : a.cells[FlatNonZero(a).outs[1].cells[j] + 1] # 0

CountNonZeroOK == Good("count_nonzero") =>
   SumSeq(Out(1).cells) = CountIf(Cells, LAMBDA v : v # 0)

\* unravel_index inverts ravel_multi_index
RavelOK == Good("ravel_multi_index") =>
   LET mi == MultiIdx(kase)
       back == UnravelIndex(Arr(Out(1).shape, Out(1).cells), kase.dims)
   IN /\ ~back.err
      /\ FlattenSeq([d \in DOMAIN kase.dims |-> back.outs[d].cells]) = mi.cells
UnravelOK == Good("unravel_index") =>
   \A j \in DOMAIN Cells : Ravel(kase.dims, [d \in DOMAIN kase.dims |-> Out(d).cells[j]]) = Cells[j]

CoarsenOK == Good("coarsen") =>
   /\ (kase.red = "sum" /\ ~kase.trim) => SumSeq(Out(1).cells) = SumSeq(Ids(kase.shape).cells)
   /\ \A d \in DOMAIN kase.shape : Out(1).shape[d] = kase.shape[d] \div kase.fac[d]
   /\ (kase.red = "max" /\ Out(1).cells # <<>> /\ \A d \in DOMAIN kase.shape : kase.shape[d] % kase.fac[d] = 0) =>
          MaxOfSeq(Out(1).cells) = Size(kase.shape)

CompressOK == Good("compress") =>
   /\ Len(Out(1).cells) = Size(Out(1).shape)
   /\ \A j \in DOMAIN Out(1).cells : Out(1).cells[j] \in 1..Size(kase.shape)
   /\ \A j \in 1..(Len(Out(1).cells) - 1) : kase.axis = None => Out(1).cells[j] < Out(1).cells[j + 1]

\* the strata are not empty: every run of equal values is reported, decreasing bins are recognised
StrataOK == /\ Good("searchsorted") /\ kase.vshape = <<6>> =>
                 (xpd.must # <<>>) = (\E p \in DOMAIN Cells : \E q \in DOMAIN Cells : p # q /\ Cells[p] = Cells[q] /\ Cells[p] # NaN)
            /\ Good("digitize") => (xpd.must # <<>>) = (\E j \in 1..(Len(kase.bins) - 1) : kase.bins[j] > kase.bins[j + 1])

ChunkingsValid == (fin /\ kase.op = "chunkings") => \A j \in DOMAIN xpd.all : ValidChunks(kase.shape, xpd.all[j])
=============================================================================
