----------------------------- MODULE TensorTrace -----------------------------
(* code -> spec for C31: each record is one tensor-product call made on real dask arrays
     c       the case (op, shapes, la, ra, n, ins, out, impl - unused fields are empty)
     chunks  the chunking of every operand,   variant  the spelling used
     obs     what was observed: raised, lazy shape / chunks, per-block consistency, the computed
             shape and the assembled content (cells)
   A decomposition record (op qr / tsqr / sfqr / svd) carries the matrix shape and chunking in c, one
   observation per factor in f, and the error measures rlow / recon / orth / sv (see Tensor!DecompBad).
   TLC decides each record against the reference semantics of module Tensor.           *)
EXTENDS Tensor, TraceIO

\* TLC wraps long printed lines: report the first failing clause (in this order) and "More"
Order == <<"UnexpectedRaise", "FactorShapes", "Meta", "Triangular", "Reconstruction", "Orthonormal", "SingularValues">>
Trim(b) == IF Cardinality(b) <= 1 THEN b
           ELSE LET i == CHOOSE i \in DOMAIN Order : Order[i] \in b /\ \A j \in 1..(i - 1) : Order[j] \notin b
                IN {Order[i], "More"}

Bad(r) ==
  IF r.c.op \in DecompOps THEN Trim(DecompBad(r)) ELSE
  LET w == Res(r.c) IN
  IF w.err THEN Clause("ErrorExpected", r.obs.raised # "")
  ELSE IF r.obs.raised # "" THEN {"UnexpectedRaise"}
  ELSE IF r.obs.cshape # w.shape THEN {"Shape"}
  ELSE Clause("Content", r.obs.cells = w.cells) \cup Clause("Meta", MetaOK(r.obs))

Init == TInit
Next == TNext(Bad)
=============================================================================
