----------------------------- MODULE TensorTrace -----------------------------
(* code -> spec for C31: each record is one tensor-product call made on real dask arrays
     c       the case (op, shapes, la, ra, n, ins, out, impl - unused fields are empty)
     chunks  the chunking of every operand,   variant  the spelling used
     obs     what was observed: raised, lazy shape / chunks, per-block consistency, the computed
             shape and the assembled content (cells)
   TLC decides each record against the reference semantics of module Tensor.           *)
EXTENDS Tensor, TraceIO

Bad(r) ==
  LET w == Res(r.c) IN
  IF w.err THEN Clause("ErrorExpected", r.obs.raised # "")
  ELSE IF r.obs.raised # "" THEN {"UnexpectedRaise"}
  ELSE IF r.obs.cshape # w.shape THEN {"Shape"}
  ELSE Clause("Content", r.obs.cells = w.cells) \cup Clause("Meta", MetaOK(r.obs))

Init == TInit
Next == TNext(Bad)
=============================================================================
