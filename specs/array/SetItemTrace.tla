---------------------------- MODULE SetItemTrace ----------------------------
(* code -> spec for C21: each record is one assignment x[idx] = v made on a real
   dask array (a step of a sequence of assignments to the same array), with the
   cells x held before, the index, the value and what was observed afterwards:
   declared shape / chunks / dtype, every block computed through its own key,
   the assembled content.  TLC decides each record against module SetItem, the
   chunks-unchanged clause and the lazy-metadata clauses of module ArrayMeta.

   r = [id, shape, chunks, dt, cur, idx, val, obs]; obs is an ArrayMeta
   observation extended with  cells : assembled content (row-major).           *)
EXTENDS SetItem, ArrayMeta, TraceIO

Bad(r) ==
  LET w == Assign(r.shape, r.cur, r.idx, r.val) IN
  IF w.free THEN {}
  ELSE IF w.err THEN Clause("ErrorExpected", r.obs.raised # "")
  ELSE IF r.obs.raised # "" THEN {"UnexpectedRaise"}
  ELSE TrimClauses(Clause("Shape", r.obs.whole.s = r.shape)
                    \cup Clause("Content", r.obs.cells = w.cells)
                    \cup Clause("ChunksKept", r.obs.chunks = r.chunks)
                    \cup Clause("DtypeKept", r.obs.dt = r.dt)
                    \cup MetaClauses(r.obs),
                    <<"Shape", "Content", "ChunksKept", "DtypeKept">> \o MetaOrder)

Init == TInit
Next == TNext(Bad)
=============================================================================
