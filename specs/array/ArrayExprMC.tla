---------------------------- MODULE ArrayExprMC ----------------------------
(* Enumeration of pipelines for C30: every pipeline of up to Depth operations
   over the source arrays of Shapes under all chunkings.  Init only picks the
   case; one Next step evaluates the reference (TLC builds initial states on a
   single thread).                                                            *)
EXTENDS ArrayExpr

CONSTANTS Shapes, Depth

VARIABLES case, done, out

Sl(a, b, st) == [k |-> "s", a |-> a, b |-> b, st |-> st]
AxisMenu(n) == { Sl(None, None, 1), Sl(1, None, 1), Sl(None, None, -1), Sl(None, None, 2), Sl(None, -1, 1) }
               \cup (IF n > 0 THEN { [k |-> "i", i |-> 0] } ELSE {})
RECURSIVE SliceMenus(_)
SliceMenus(shape) == IF shape = <<>> THEN {<<>>}
                     ELSE { <<c>> \o r : c \in AxisMenu(Head(shape)), r \in SliceMenus(Tail(shape)) }

Perms(n) == { q \in [1..n -> 1..n] : IsPerm(q, n) }
\* 3-d sources get a reduced menu (the slice menus alone would be 5^3 per step): what matters there are
\* permutations that do not commute, and structure-changing steps around them
Ops3(sh) ==
  { [op |-> "perm", axes |-> p] : p \in { q \in Perms(Len(sh)) : \E i \in 1..Len(sh) : q[i] # i } }
  \cup { [op |-> "T"], [op |-> "addrev"], [op |-> "addk", k |-> 7], [op |-> "rechunk", how |-> "ones"] }
  \cup { [op |-> "sum", axis |-> a] : a \in 0..Len(sh) }
  \cup { [op |-> "concatr", axis |-> a, how |-> "split1"] : a \in 1..Len(sh) }
  \cup { [op |-> "slice", comps |-> <<[k |-> "i", i |-> 0]>> \o [j \in 1..(Len(sh) - 1) |-> Sl(None, None, IF j = 1 THEN 1 ELSE -1)]],
         [op |-> "slice", comps |-> [j \in 1..Len(sh) |-> IF j = 2 THEN Sl(1, None, 1) ELSE Sl(None, None, 1)]] }

OpsFor(sh) == IF Len(sh) >= 3 THEN Ops3(sh) ELSE
  { [op |-> "slice", comps |-> cs] : cs \in { x \in SliceMenus(sh) : \E p \in DOMAIN x : x[p] # Sl(None, None, 1) } }
  \cup { [op |-> "addk", k |-> 7], [op |-> "mulk", k |-> 3], [op |-> "neg"], [op |-> "mapb"], [op |-> "addself"], [op |-> "T"], [op |-> "stack"] }
  \cup (IF Len(sh) >= 1 THEN { [op |-> "addrev"] } ELSE {})
  \cup { [op |-> kind, axis |-> a] : kind \in {"sum", "max"}, a \in 0..Len(sh) }
  \cup { [op |-> "rechunk", how |-> h] : h \in {"one", "ones", "split1"} }
  \cup { [op |-> "concat", axis |-> a] : a \in 1..Len(sh) }
  \cup { [op |-> "concatr", axis |-> a, how |-> h] : a \in 1..Len(sh), h \in {"ones", "split1"} }
  \cup { [op |-> "perm", axes |-> p] : p \in { q \in Perms(Len(sh)) : \E i \in 1..Len(sh) : q[i] # i } }

RECURSIVE Pipes(_, _)
Pipes(sh, d) ==
  IF d = 0 THEN {<<>>}
  ELSE {<<>>} \cup UNION { { <<o>> \o p : p \in Pipes(Apply(Source(sh), o).shape, d - 1) }
                           : o \in { q \in OpsFor(sh) : Applicable(Source(sh), q) } }

Cases == UNION { [shape : {sh}, chunks : NDChunkings(sh), pipe : Pipes(sh, Depth) \ {<<>>}] : sh \in Shapes }

Init == case \in Cases /\ done = FALSE /\ out = ""
Next == /\ ~done /\ done' = TRUE /\ UNCHANGED case
        /\ LET r == Run(Source(case.shape), case.pipe)
               last == case.pipe[Len(case.pipe)]
           IN out' = ToJson([c |-> case, ok |-> r.ok, shape |-> r.val.shape, cells |-> r.val.cells,
                             tgt |-> IF r.ok /\ last.op = "rechunk" THEN RechunkTarget(r.val.shape, last.how) ELSE <<>>])

\* design checks on the reference itself
CellCountOK == done => LET r == Run(Source(case.shape), case.pipe) IN r.ok => Len(r.val.cells) = Size(r.val.shape)
\* transposing twice, negating twice and rechunking are identities of the reference
Involutions == \A sh \in Shapes : /\ Transpose(Transpose(Source(sh))) = Source(sh)
                                  /\ Apply(Apply(Source(sh), [op |-> "neg"]), [op |-> "neg"]) = Source(sh)
\* reversing the axes is the permutation <<n, ..., 1>>; composing two permutations p then q is the single
\* permutation i |-> p[q[i]] (the law a transpose-fusing rewrite must implement)
PermLaws == \A sh \in Shapes :
              LET n == Len(sh)
                  P == Perms(n)
              IN /\ Permute(Source(sh), [i \in 1..n |-> n + 1 - i]) = Transpose(Source(sh))
                 /\ \A p \in P, q \in P : Permute(Permute(Source(sh), p), q) = Permute(Source(sh), [i \in 1..n |-> p[q[i]]])
=============================================================================
