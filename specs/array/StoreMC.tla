------------------------------ MODULE StoreMC ------------------------------
(* C29, Pattern A: the state machine of one da.store call.

   Every block of every source is one task (load_store_chunk):
        [Start: lock.acquire()]  WriteBegin  WriteEnd  [Load: out[index]]  [Finish: lock.release()]
   Start / Finish exist when a lock is in force (lmode # "none"); Load is part of the task for
   compute=False with return_stored=True.  The tasks of one call run in any interleaving the
   scheduler likes: TLC explores all of them.

   smode (what the caller asked for):
     "now"      compute=True,  return_stored=False   tasks run inside the call
     "nowret"   compute=True,  return_stored=True    tasks run inside the call (persist); the returned
                                                     arrays are lazy, computing them runs one load_chunk
                                                     task per block: [LStart] LRead [LFinish]
     "lazy"     compute=False, return_stored=False   nothing happens before Compute
     "lazyret"  compute=False, return_stored=True    nothing happens before Compute; tasks store and load
   phs:  "lazy" -Compute-> "run" -Return-> "ret" [-Compute2-> "run2" -End-> "end"]

   KeepHist = TRUE makes every behaviour a state of its own; complete behaviours are exported
   in `out` and replayed on the real code with a gate-controlled scheduler (harness/drivers/C29.py). *)
EXTENDS Store, Json

CONSTANTS Calls,       \* sequence of calls (see Store.tla)
          Combos,      \* the configurations to explore: a set of <<call number, lock mode, store mode>>,
                       \* lock mode in {"none", "auto", "user"}, store mode in {"now", "nowret", "lazy", "lazyret"}
          KeepHist

VARIABLES cid, lmode, smode,      \* the configuration picked by Init
          tgs, wcn, wrt, infl, lkh,  \* the Store state: targets, write counts, written cells, writes in flight, lock holder
          pcs, lpcs, phs, lds,    \* task program counters, phase, loaded values
          hst, out
vars == <<cid, lmode, smode, tgs, wcn, wrt, infl, lkh, pcs, lpcs, phs, lds, hst, out>>

\* constant tables, evaluated once per call
Blk == [c \in DOMAIN Calls |-> AllBlocks(Calls[c])]
Exp == [c \in DOMAIN Calls |-> ExpectedAll(Calls[c])]
Cov == [c \in DOMAIN Calls |-> CoverAll(Calls[c])]

\* the geometry of every call: block writes never overlap and cover exactly the regions
ASSUME \A c \in DOMAIN Calls : WellFormed(Calls[c]) /\ BlocksDisjoint(Calls[c]) /\ BlocksCover(Calls[c])

St     == [tg |-> tgs, wn |-> wcn, wr |-> wrt, fl |-> infl, hold |-> lkh]
Tasks  == DOMAIN Blk[cid]
NB     == Len(Blk[cid])
W(k)   == [who |-> k, t |-> Blk[cid][k].t, pos |-> Blk[cid][k].pos, val |-> Blk[cid][k].val]
Locked == lmode # "none"
LoadsInTask == smode = "lazyret"
Becomes(s2) == tgs' = s2.tg /\ wcn' = s2.wn /\ wrt' = s2.wr /\ infl' = s2.fl /\ lkh' = s2.hold

Init == /\ \E cb \in Combos : cid = cb[1] /\ lmode = cb[2] /\ smode = cb[3]
        /\ tgs = S0(Calls[cid]).tg /\ wcn = S0(Calls[cid]).wn /\ wrt = {} /\ infl = {} /\ lkh = 0
        /\ pcs = [k \in DOMAIN Blk[cid] |-> "idle"] /\ lpcs = [k \in DOMAIN Blk[cid] |-> "idle"]
        /\ phs = IF smode \in {"lazy", "lazyret"} THEN "lazy" ELSE "run"
        /\ lds = [k \in DOMAIN Blk[cid] |-> <<>>]
        /\ hst = <<>> /\ out = ""

Terminal == phs = "end" \/ (phs = "ret" /\ smode # "nowret")

\* the projected state the real objects are compared with after every step
Log(a, k) ==
  LET e == [a |-> a, k |-> k, tg |-> tgs', hold |-> lkh', fl |-> { f.who : f \in infl' }, nwr |-> Cardinality(wrt'), ld |-> lds']
  IN /\ hst' = IF KeepHist THEN Append(hst, e) ELSE hst
     /\ out' = IF KeepHist /\ Terminal'
               THEN ToJson([c |-> cid, lm |-> lmode, sm |-> smode, blk |-> Blk[cid], ev |-> Append(hst, e)]) ELSE ""

After(k) == IF LoadsInTask THEN "wrote" ELSE IF Locked THEN "wrote" ELSE "done"

Compute == /\ phs = "lazy" /\ phs' = "run"
           /\ UNCHANGED <<cid, lmode, smode, tgs, wcn, wrt, infl, lkh, pcs, lpcs, lds>> /\ Log("compute", 0)
Start(k) == /\ phs = "run" /\ Locked /\ pcs[k] = "idle" /\ CanAcquire(St)
            /\ Becomes(DoAcquire(St, k)) /\ pcs' = [pcs EXCEPT ![k] = "held"]
            /\ UNCHANGED <<cid, lmode, smode, lpcs, phs, lds>> /\ Log("start", k)
WriteBegin(k) == /\ phs = "run" /\ pcs[k] = (IF Locked THEN "held" ELSE "idle")
                 /\ Becomes(DoWriteBegin(St, W(k))) /\ pcs' = [pcs EXCEPT ![k] = "writing"]
                 /\ UNCHANGED <<cid, lmode, smode, lpcs, phs, lds>> /\ Log("wbegin", k)
WriteEnd(k) == /\ pcs[k] = "writing"
               /\ Becomes(DoWriteEnd(St, W(k))) /\ pcs' = [pcs EXCEPT ![k] = After(k)]
               /\ UNCHANGED <<cid, lmode, smode, lpcs, phs, lds>> /\ Log("wend", k)
Load(k) == /\ LoadsInTask /\ pcs[k] = "wrote"
           /\ lds' = [lds EXCEPT ![k] = ReadOf(St, W(k).t, W(k).pos)]
           /\ pcs' = [pcs EXCEPT ![k] = IF Locked THEN "read" ELSE "done"]
           /\ UNCHANGED <<cid, lmode, smode, tgs, wcn, wrt, infl, lkh, lpcs, phs>> /\ Log("load", k)
Finish(k) == /\ Locked /\ pcs[k] = (IF LoadsInTask THEN "read" ELSE "wrote") /\ CanRelease(St, k)
             /\ Becomes(DoRelease(St)) /\ pcs' = [pcs EXCEPT ![k] = "done"]
             /\ UNCHANGED <<cid, lmode, smode, lpcs, phs, lds>> /\ Log("finish", k)
Return == /\ phs = "run" /\ \A k \in Tasks : pcs[k] = "done"
          /\ phs' = "ret"
          /\ UNCHANGED <<cid, lmode, smode, tgs, wcn, wrt, infl, lkh, pcs, lpcs, lds>> /\ Log("return", 0)
\* second phase of "nowret": the caller computes the returned arrays
Compute2 == /\ smode = "nowret" /\ phs = "ret" /\ phs' = "run2"
            /\ UNCHANGED <<cid, lmode, smode, tgs, wcn, wrt, infl, lkh, pcs, lpcs, lds>> /\ Log("compute2", 0)
LStart(k) == /\ phs = "run2" /\ Locked /\ lpcs[k] = "idle" /\ CanAcquire(St)
             /\ Becomes(DoAcquire(St, NB + k)) /\ lpcs' = [lpcs EXCEPT ![k] = "held"]
             /\ UNCHANGED <<cid, lmode, smode, pcs, phs, lds>> /\ Log("lstart", k)
LRead(k) == /\ phs = "run2" /\ lpcs[k] = (IF Locked THEN "held" ELSE "idle")
            /\ lds' = [lds EXCEPT ![k] = ReadOf(St, W(k).t, W(k).pos)]
            /\ lpcs' = [lpcs EXCEPT ![k] = IF Locked THEN "read" ELSE "done"]
            /\ UNCHANGED <<cid, lmode, smode, tgs, wcn, wrt, infl, lkh, pcs, phs>> /\ Log("lread", k)
LFinish(k) == /\ Locked /\ lpcs[k] = "read" /\ CanRelease(St, NB + k)
              /\ Becomes(DoRelease(St)) /\ lpcs' = [lpcs EXCEPT ![k] = "done"]
              /\ UNCHANGED <<cid, lmode, smode, pcs, phs, lds>> /\ Log("lfinish", k)
End == /\ phs = "run2" /\ \A k \in Tasks : lpcs[k] = "done"
       /\ phs' = "end"
       /\ UNCHANGED <<cid, lmode, smode, tgs, wcn, wrt, infl, lkh, pcs, lpcs, lds>> /\ Log("end", 0)
Done == Terminal /\ UNCHANGED vars

AStart      == \E k \in Tasks : Start(k)
AWriteBegin == \E k \in Tasks : WriteBegin(k)
AWriteEnd   == \E k \in Tasks : WriteEnd(k)
ALoad       == \E k \in Tasks : Load(k)
AFinish     == \E k \in Tasks : Finish(k)
ALStart     == \E k \in Tasks : LStart(k)
ALRead      == \E k \in Tasks : LRead(k)
ALFinish    == \E k \in Tasks : LFinish(k)
Next == Compute \/ AStart \/ AWriteBegin \/ AWriteEnd \/ ALoad \/ AFinish \/ Return
        \/ Compute2 \/ ALStart \/ ALRead \/ ALFinish \/ End \/ Done
Spec == Init /\ [][Next]_vars /\ WF_vars(Next)

----------------------------------------------------------------------------
(* the property *)
\* whenever the code is about to write a block, the write breaks no clause of the contract:
\* it lands inside the region on the cells of its own elements, on cells nobody wrote or is writing,
\* alone if a lock is in force, and by the lock holder
WritesRespectContract ==
  \A k \in Tasks : (phs = "run" /\ pcs[k] = (IF Locked THEN "held" ELSE "idle"))
                      => WriteBeginBad(Exp[cid], Cov[cid], lmode, St, W(k)) = {}
NoOverlap          == NoOverlapIn(Cov[cid], St)
WriteCounts        == WriteCountsIn(Cov[cid], St)
MutualExclusion    == MutexIn(lmode, St)
OutsideUntouched   == OutsideUntouchedIn(Exp[cid], St)
WrittenCorrect     == WrittenCorrectIn(Exp[cid], St)
NothingBeforeCompute == phs = "lazy" => (wrt = {} /\ infl = {} /\ tgs = S0(Calls[cid]).tg)
\* once the call is over (for compute=False: once the returned object has been computed)
\* target[region] = source, everything else untouched, every cell written, the lock free
FinalContent       == /\ phs \in {"ret", "run2", "end"} => CompleteIn(Exp[cid], St)
                      /\ phs \in {"ret", "end"} => lkh = 0
\* loads happen after the store of the same block and see the source block
LoadSeesStored     == \A k \in Tasks : lds[k] # <<>> => lds[k] = Blk[cid][k].val
LoadsComplete      == Terminal /\ smode \in {"nowret", "lazyret"} => \A k \in Tasks : lds[k] = Blk[cid][k].val
HolderIsActive     == lkh # 0 => IF lkh <= NB THEN pcs[lkh] \in {"held", "writing", "wrote", "read"}
                                 ELSE lpcs[lkh - NB] \in {"held", "read"}

\* every cell is written exactly once: a written cell never changes again
WrittenOnce == [][\A c \in wrt : c \in wrt' /\ tgs'[c[1]][c[2]] = tgs[c[1]][c[2]]]_vars
\* every call terminates (no schedule dead-locks on the lock)
Terminates  == <>Terminal
=============================================================================
