----------------------------- MODULE ElemwiseMC -----------------------------
(* Case enumeration for C19 (spec -> code).  Every initial state is one call
   of an elementwise operation - operand forms, kinds, shapes, chunkings, cell
   values - together with the result demanded by module Elemwise.  TLC checks
   sanity properties of the reference itself on every case (design check).   *)
EXTENDS Elemwise

CONSTANTS Fam,      \* "binary" | "unary" | "astype" | "where" | "clip" | "outwhere"
          Shapes,   \* set of operand shapes; operand tuples = all broadcastable tuples
          BadTuples,\* extra (non-broadcastable) shape tuples: an error is expected
          Ops,      \* operation names (astype: target kinds)
          KTuples,  \* set of kind tuples, one kind per operand
          Forms,    \* set of form tuples, one of "d" "n" "s" "-" per operand
          ZeroCh    \* BOOLEAN: also chunkings with a zero-width chunk

VARIABLES case, exp, out

AllOnes(sh) == [d \in DOMAIN sh |-> IF sh[d] = 0 THEN <<0>> ELSE [j \in 1..sh[d] |-> 1]]
Single(sh)  == [d \in DOMAIN sh |-> <<sh[d]>>]
ZeroChunkings(sh) ==
  UNION { { [base EXCEPT ![d] = z] : z \in WithOneZero(sh[d]), base \in {AllOnes(sh), Single(sh)} }
          : d \in {d \in DOMAIN sh : sh[d] >= 1} }
ChunkSet(sh) == NDChunkings(sh) \cup (IF ZeroCh THEN ZeroChunkings(sh) ELSE {})
ChFor(f, sh) == IF f = "d" THEN ChunkSet(sh) ELSE {<<>>}

\* cell values from element ids: value = m * id + o (bool: an irregular 0/1 pattern)
Tri(n) == (n * (n + 1)) \div 2
Val(k, mo, id) == IF k = "b" THEN Tri(id + mo[2]) % 2 ELSE Cast(k, mo[1] * id + mo[2])
Opd(f, k, sh, ch, mo) ==
  IF f = "-" THEN Absent
  ELSE [f |-> f, k |-> k, sh |-> sh, ch |-> ch, v |-> [p \in 1..Size(sh) |-> Val(k, mo, p - 1)]]

\* "identifying" values for + - * (and where / out): role r lives in its own decimal digit
Ident(role) == CASE role = 1 -> <<1, 1>> [] role = 2 -> <<10, 10>> [] role = 3 -> <<100, 100>> [] OTHER -> <<1, 0>>
\* interleaved values for comparisons, min/max, division, bit operations
Mixed(role) == CASE role = 1 -> <<3, 2>> [] role = 2 -> <<5, 1>> [] role = 3 -> <<2, 12>> [] OTHER -> <<1, 0>>
VP(op, role) == IF op \in {"add", "sub", "mul", "where", "neg", "abs", "square", "lnot"} \cup Kinds
                THEN Ident(role) ELSE Mixed(role)

Tuples(n) == {t \in [1..n -> Shapes] : BroadcastOK(t)} \cup {t \in BadTuples : Len(t) = n}

FormFits(fs, sp) == \A j \in DOMAIN fs : fs[j] \in {"s", "-"} => sp[j] = <<>>
KindFits(op, fs, ks) ==
  /\ \A j \in DOMAIN fs : fs[j] = "s" => ks[j] # "u"            \* there is no Python uint
  /\ (op \in DivOps /\ Len(ks) >= 2) => ks[2] # "b"             \* no zero divisors

RECURSIVE ChunkChoices(_, _)
\* all ways to choose chunks for the operands (sequence of chunkings)
ChunkChoices(fs, sp) ==
  IF fs = <<>> THEN {<<>>}
  ELSE {<<c>> \o r : c \in ChFor(Head(fs), Head(sp)), r \in ChunkChoices(Tail(fs), Tail(sp))}

Arity == CASE Fam = "binary" -> 2 [] Fam = "unary" -> 1 [] Fam = "astype" -> 1
           [] Fam = "where" -> 3 [] Fam = "clip" -> 3 [] Fam = "outwhere" -> 4

\* clip: lo role 3 (2*id+12 >= 12) may lie above or below x = 3*id+2; hi is role 2
RoleOf(j) == IF Fam = "clip" THEN (CASE j = 1 -> 1 [] j = 2 -> 2 [] j = 3 -> 3)
             ELSE IF Fam = "where" THEN (CASE j = 1 -> 3 [] j = 2 -> 1 [] j = 3 -> 2)
             ELSE IF Fam = "outwhere" THEN (CASE j = 1 -> 1 [] j = 2 -> 2 [] j = 3 -> 3 [] j = 4 -> 4)
             ELSE j

VPFor(op, j) == IF Fam \in {"where", "outwhere"} THEN Ident(RoleOf(j))
                ELSE IF Fam = "clip" THEN Mixed(RoleOf(j))
                ELSE VP(op, RoleOf(j))

Cases ==
  UNION { UNION { UNION { UNION {
      { [fam |-> Fam, op |-> op,
         xs |-> [j \in 1..Arity |-> Opd(fs[j], ks[j], sp[j], cc[j], VPFor(op, j))]]
        : cc \in ChunkChoices(fs, sp) }
      : ks \in {k \in KTuples : Len(k) = Arity /\ KindFits(op, fs, k)} }
      : fs \in {f \in Forms : Len(f) = Arity /\ FormFits(f, sp)} }
      : op \in Ops }
      : sp \in Tuples(Arity) }

Init == /\ case \in Cases
        /\ exp = Expected(case)
        /\ out = ToJson([c |-> case, e |-> exp])
Next == UNCHANGED <<case, exp, out>>

-----------------------------------------------------------------------------
\* sanity of the reference itself (design check)
CellCount == ~exp.err => Len(exp.cells) = Size(exp.shape)

\* every operand shape is, right-aligned, 1 or the result extent on every axis
ShapeIsBroadcast ==
  ~exp.err => \A j \in DOMAIN case.xs : Present(case.xs[j]) =>
     LET s == case.xs[j].sh IN
     /\ Len(s) <= Len(exp.shape)
     /\ \A d \in DOMAIN s : s[d] = 1 \/ s[d] = exp.shape[Len(exp.shape) - Len(s) + d]

\* commutative operations do not depend on the operand order
Commutes ==
  (Fam = "binary" /\ case.op \in {"add", "mul", "min", "max", "eq", "ne", "and", "or", "xor"})
     => Binary(case.op, case.xs[2], case.xs[1]) = exp

\* attribution: with identifying values, a cell of x + y names the cells of x and
\* y it was made of, and these are the ones broadcasting relates to the position
Attribution ==
  (Fam = "binary" /\ case.op = "add" /\ ~exp.err /\ exp.kind \in {"i", "f", "c"}
     /\ case.xs[1].k # "b" /\ case.xs[2].k # "b") =>
   \A p \in DOMAIN exp.cells :
      LET qx == exp.cells[p] % 10
          qy == exp.cells[p] \div 10
          t  == Unravel(exp.shape, p - 1)
          rel(s, q) == LET u == Unravel(s, q - 1) IN
                       \A d \in DOMAIN s : s[d] # 1 => u[d] = t[Len(t) - Len(s) + d]
      IN /\ qx \in 1..Size(case.xs[1].sh) /\ rel(case.xs[1].sh, qx)
         /\ qy \in 1..Size(case.xs[2].sh) /\ rel(case.xs[2].sh, qy)

\* where() only ever selects a cell of x or of y; with out=, unselected cells are out's
Selects ==
  /\ (Fam = "where" /\ ~exp.err /\ exp.kind \notin {"b", "u"}) =>
        \A p \in DOMAIN exp.cells :
           \/ exp.cells[p] \in {case.xs[2].v[q] : q \in DOMAIN case.xs[2].v}
           \/ exp.cells[p] \in {case.xs[3].v[q] : q \in DOMAIN case.xs[3].v}
  /\ (Fam = "outwhere" /\ ~exp.err /\ ~Present(case.xs[4])) =>
        \A p \in DOMAIN exp.cells : exp.cells[p] # DC

\* comparisons and logical_not give 0/1; uint8 results stay in 0..255
Ranges ==
  ~exp.err =>
    /\ exp.kind = "b" => \A p \in DOMAIN exp.cells : exp.cells[p] \in {0, 1, DC}
    /\ (exp.kind = "u" /\ case.op # "truediv") => \A p \in DOMAIN exp.cells : exp.cells[p] \in (0..255) \cup {DC}
=============================================================================
