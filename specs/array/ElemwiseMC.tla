----------------------------- MODULE ElemwiseMC -----------------------------
(* Case enumeration for C19 (spec -> code).  Every initial state is one call
   of an elementwise operation - operand forms, kinds, shapes, chunkings, cell
   values - together with the result demanded by module Elemwise.  TLC checks
   sanity properties of the reference itself on every case (design check).

   The case space is the union of the spaces described by the records in
   Configs (one TLC run serves all of them):
     lab     name of the sub-space (reported with the case)
     fam     "binary" | "unary" | "astype" | "where" | "clip" | "outwhere"
     shapes  set of operand shapes; operand tuples = all broadcastable tuples
     bad     extra (non-broadcastable) shape tuples: an error is expected
     ops     operation names (astype: target kinds)
     ktuples set of kind tuples, one kind per operand
     forms   set of form tuples, one of "d" "n" "s" "-" per operand
     allch   TRUE: ALL chunkings of every dask operand; FALSE: the two extreme ones
     zero    TRUE: also chunkings with a zero-width chunk
     special TRUE: kernel-mode values - the second operand always holds 0 and
             negative numbers (floats: inf, -inf, nan too), the first one mixed
             signs (floats: inf, nan); a scalar second operand takes every value
             of the pool in turn                                               *)
EXTENDS Elemwise

CONSTANTS Configs

VARIABLES case, exp, out

AllOnes(sh) == [d \in DOMAIN sh |-> IF sh[d] = 0 THEN <<0>> ELSE [j \in 1..sh[d] |-> 1]]
Single(sh)  == [d \in DOMAIN sh |-> <<sh[d]>>]
ZeroChunkings(sh) ==
  UNION { { [Single(sh) EXCEPT ![d] = z] : z \in WithOneZero(sh[d]) } : d \in {d \in DOMAIN sh : sh[d] >= 1} }
ChunkSet(g, sh) == (IF g.allch THEN NDChunkings(sh) ELSE {AllOnes(sh), Single(sh)})
                   \cup (IF g.zero THEN ZeroChunkings(sh) ELSE {})
ChFor(g, f, sh) == IF f = "d" THEN ChunkSet(g, sh) ELSE {<<>>}

\* cell values from element ids: value = m * id + o (bool: an irregular 0/1 pattern)
Tri(n) == (n * (n + 1)) \div 2
Val(k, mo, id) == IF k = "b" THEN Tri(id + mo[2]) % 2 ELSE Cast(k, mo[1] * id + mo[2])
Opd(f, k, sh, ch, mo) ==
  IF f = "-" THEN Absent
  ELSE [f |-> f, k |-> k, sh |-> sh, ch |-> ch, v |-> [p \in 1..Size(sh) |-> Val(k, mo, p - 1)]]

\* kernel-mode value pools (module Elemwise: INF NINF NAN are codes)
Pool(k) == CASE k = "b" -> <<0, 1>>
             [] k = "u" -> <<0, 3, 255, 1>>
             [] k = "i" -> <<0, -3, 2, 7, -1>>
             [] k = "f" -> <<0, -3, 2, INF, NINF, NAN, -1>>
             [] k = "c" -> <<0, -3, 2, 1>>
SpecialVal(k, role, id, rot) ==
  IF role = 2 THEN Pool(k)[((id + rot) % Len(Pool(k))) + 1]
  ELSE IF k = "b" THEN Tri(id + 1) % 2
  ELSE IF k = "f" /\ id % 7 = 5 THEN INF
  ELSE IF k = "f" /\ id % 7 = 6 THEN NAN
  ELSE Cast(k, IF id % 2 = 0 THEN 3 * id + 2 ELSE -(3 * id + 2))
SpecialOpd(f, k, sh, ch, role, rot) ==
  [f |-> f, k |-> k, sh |-> sh, ch |-> ch, v |-> [p \in 1..Size(sh) |-> SpecialVal(k, role, p - 1, rot)]]
\* rotations of the pool tried for the second operand: all of them for a Python scalar (a
\* negative Python int cannot meet a uint8 array: OverflowError), none otherwise
Rots(g, fs, ks) ==
  IF g.special /\ Len(fs) >= 2 /\ fs[2] = "s"
  THEN {r \in 0..(Len(Pool(ks[2])) - 1) : ~(ks[1] = "u" /\ ks[2] = "i" /\ Pool(ks[2])[r + 1] < 0)}
  ELSE {0}

\* "identifying" values for + - * (and where / out): role r lives in its own decimal digit
Ident(role) == CASE role = 1 -> <<1, 1>> [] role = 2 -> <<10, 10>> [] role = 3 -> <<100, 100>> [] OTHER -> <<1, 0>>
\* interleaved values for comparisons, min/max, division, bit operations
Mixed(role) == CASE role = 1 -> <<3, 2>> [] role = 2 -> <<5, 1>> [] role = 3 -> <<2, 12>> [] OTHER -> <<1, 0>>

Arity(fam) == CASE fam = "binary" -> 2 [] fam = "unary" -> 1 [] fam = "astype" -> 1
                [] fam = "where" -> 3 [] fam = "clip" -> 3 [] fam = "outwhere" -> 4

\* where(c, x, y): the condition is role 3; clip(x, lo, hi): lo = 5*id+1 and hi = 2*id+12
\* lie on both sides of x = 3*id+2
RoleOf(fam, j) == IF fam = "where" THEN (CASE j = 1 -> 3 [] j = 2 -> 1 [] j = 3 -> 2) ELSE j

VPFor(fam, op, j) ==
  IF fam \in {"where", "outwhere", "unary", "astype"} \/ (fam = "binary" /\ op \in {"add", "sub", "mul"})
  THEN Ident(RoleOf(fam, j)) ELSE Mixed(RoleOf(fam, j))

Tuples(g) == {t \in [1..Arity(g.fam) -> g.shapes] : BroadcastOK(t)} \cup {t \in g.bad : Len(t) = Arity(g.fam)}

FormFits(fs, sp) == \A j \in DOMAIN fs : fs[j] \in {"s", "-"} => sp[j] = <<>>
KindFits(op, fs, ks) ==
  /\ \A j \in DOMAIN fs : fs[j] = "s" => ks[j] # "u"            \* there is no Python uint
  /\ (op \in DivOps /\ Len(ks) >= 2) => ks[2] # "b"             \* no zero divisors (interpreted ops)

RECURSIVE ChunkChoices(_, _, _)
\* all ways to choose chunks for the operands (sequence of chunkings)
ChunkChoices(g, fs, sp) ==
  IF fs = <<>> THEN {<<>>}
  ELSE {<<c>> \o r : c \in ChFor(g, Head(fs), Head(sp)), r \in ChunkChoices(g, Tail(fs), Tail(sp))}

MkCase(g, op, fs, ks, sp, cc, rot) ==
  [lab |-> g.lab, fam |-> g.fam, op |-> op,
   xs |-> [j \in 1..Arity(g.fam) |->
             IF g.special THEN SpecialOpd(fs[j], ks[j], sp[j], cc[j], j, rot)
             ELSE Opd(fs[j], ks[j], sp[j], cc[j], VPFor(g.fam, op, j))]]

\* the case space as nested choices (TLC enumerates them without building the set)
Init == \E g \in Configs : \E sp \in Tuples(g) : \E op \in g.ops : \E fs \in g.forms : \E ks \in g.ktuples :
          /\ Len(fs) = Arity(g.fam) /\ FormFits(fs, sp)
          /\ Len(ks) = Arity(g.fam) /\ KindFits(op, fs, ks)
          /\ \E cc \in ChunkChoices(g, fs, sp) : \E rot \in Rots(g, fs, ks) :
                /\ case = MkCase(g, op, fs, ks, sp, cc, rot)
                /\ exp = Expected(case)
                /\ out = ToJson([c |-> case, e |-> exp])
Next == UNCHANGED <<case, exp, out>>

-----------------------------------------------------------------------------
\* sanity of the reference itself (design check)
CellCount == ~exp.err => Len(exp.cells) = Size(exp.shape)

\* every operand shape is, right-aligned, 1 or the result extent on every axis
ShapeIsBroadcast ==
  ~exp.err => \A j \in DOMAIN case.xs : Present(case.xs[j]) =>
     LET s == case.xs[j].sh IN
     /\ Len(s) <= Len(exp.shape)
     /\ \A d \in DOMAIN s : s[d] = 1 \/ s[d] = exp.shape[Len(exp.shape) - Len(s) + d]

\* commutative operations do not depend on the operand order
Commutes ==
  (case.fam = "binary" /\ case.op \in {"add", "mul", "min", "max", "eq", "ne", "and", "or", "xor"})
     => Binary(case.op, case.xs[2], case.xs[1]) = exp

\* attribution: with identifying values, a cell of x + y names the cells of x and
\* y it was made of, and these are the ones broadcasting relates to the position
Attribution ==
  (case.fam = "binary" /\ case.op = "add" /\ ~exp.err /\ exp.kind \in {"i", "f", "c"}
     /\ case.xs[1].k # "b" /\ case.xs[2].k # "b") =>
   \A p \in DOMAIN exp.cells :
      LET qx == exp.cells[p] % 10
          qy == exp.cells[p] \div 10
          t  == Unravel(exp.shape, p - 1)
          rel(s, q) == LET u == Unravel(s, q - 1) IN
                       \A d \in DOMAIN s : s[d] # 1 => u[d] = t[Len(t) - Len(s) + d]
      IN /\ qx \in 1..Size(case.xs[1].sh) /\ rel(case.xs[1].sh, qx)
         /\ qy \in 1..Size(case.xs[2].sh) /\ rel(case.xs[2].sh, qy)

\* where() only ever selects a cell of x or of y; without where=, no cell is a don't-care
Selects ==
  /\ (case.fam = "where" /\ ~exp.err /\ exp.kind \notin {"b", "u"}) =>
        \A p \in DOMAIN exp.cells :
           \/ exp.cells[p] \in {case.xs[2].v[q] : q \in DOMAIN case.xs[2].v}
           \/ exp.cells[p] \in {case.xs[3].v[q] : q \in DOMAIN case.xs[3].v}
  /\ (case.fam = "outwhere" /\ ~exp.err /\ ~Present(case.xs[4])) =>
        \A p \in DOMAIN exp.cells : exp.cells[p] # DC

\* kernel mode: every result cell is a kernel term over one cell of each operand, and the
\* second operand of every non-empty binary case holds a zero (the pool starts with it)
KernelTerms ==
  (case.op \in KOps /\ ~exp.err) =>
    /\ \A p \in DOMAIN exp.cells :
          /\ exp.cells[p][1] = "K"
          /\ \E q \in DOMAIN case.xs[1].v : exp.cells[p][2] = case.xs[1].v[q]
          /\ case.op \in KBinOps => \E q \in DOMAIN case.xs[2].v : exp.cells[p][3] = case.xs[2].v[q]
    /\ (case.op \in KBinOps /\ case.xs[2].f # "s" /\ case.xs[2].v # <<>>) => case.xs[2].v[1] = 0

\* comparisons and logical_not give 0/1; uint8 results stay in 0..255
Ranges ==
  ~exp.err =>
    /\ exp.kind = "b" => \A p \in DOMAIN exp.cells : exp.cells[p] \in {0, 1, DC}
    /\ (exp.kind = "u" /\ case.op \notin ({"truediv"} \cup KOps)) => \A p \in DOMAIN exp.cells : exp.cells[p] \in (0..255) \cup {DC}
=============================================================================
